/-
  GenTieClose3: CLOSING THE MUTUAL RECURSION of the generated Strassen–Winograd routines of strassen.c.

  `GenTieStrassen` / `GenTieStrassen2` prove one-step ties: each generated `Gen.C.strassenMulEven`,
  `strassenAddmulEven`, `strassenSqrEven`, `strassenAddsqrEven` with its recursive-call PARAMETERS bound to the lifts
  of the MODEL at `fuel` (`cMulEven fuel`, …) is the model's routine at `fuel + 1`, on the memories `memOf C`, … of
  whole matrices.  Here the parameters are bound to THE GENERATED FUNCTIONS THEMSELVES, one level down
  (`cStrassen hd n`: the mutual C recursion unrolled `n` levels), and it is shown by induction on `n`, over ARBITRARY
  memories, that for EVERY depth `n` each of the four routines agrees with the lift of the model at fuel `n`
  (`cStrassen_raw`), hence computes `A·B`, `C + A·B`, `A·A`, `C + A·A` (`cMul_correct`, `cAddmul_correct`,
  `cSqr_correct`, `cAddsqr_correct`: equalities of the memories on whole matrices; `c*_view`: on views).

  §0  tactics: `let_both` introduces the next `let` of BOTH sides of a relational goal (the memory `let`s of the
      generated text are never zeta-reduced), the step macros `tstep`/`cstep`/`fstep`/… discharge one call +
      write-back of the two runs by ONE lemma
  §1  `canon` (canonical record over an arbitrary memory), `ofView_view`, `Agr` (agreement on a region and, if
      `full`, equality), `Rel3`/`Rel2` (two instances of a recursive-call parameter agree on the written region on
      canonical conforming records over agreeing memories)
  §2/3 `strassen*Even_rel`: the RELATIONAL CONGRUENCE of each generated function in its memories AND its
      recursive-call parameters (one walk through the generated text for both the memory congruence, `full = false`,
      and the callee congruence as an equality, `full = true`)
  §4  `Sim3`/`Sim2` (agreement with a lifted model operation), §5 `strassen*Even_step_view` (one step on views, any
      agreeing recursive callees: relational congruence + the step theorems on `rawM`)
  §6  `cStrassen`, `cStrassen_raw` (the induction)   §7 `strassen*Even_callee_congr`   §8 `c*_correct`   §9 `c*_view`

  NOT unrolled: `mzd_mul(NULL, A, B, cutoff)` (parameter `f_mzd_mul_new` of `_mzd_mul_even` / `_mzd_sqr_even`, which
  in C allocates and dispatches back to `_mzd_mul_even` / `_mzd_sqr_even`) stays the model's `cMulNew n`, as in the
  step theorems; `_mzd_add`, `_mzd_mul_m4rm`, `mzd_addmul_m4rm`, `mzd_copy` are the lifted model operations.
  Core Lean tactics only.
-/
import M4riProofs.GenTieStrassen2
import M4riProofs.GenTieClose
set_option linter.unusedVariables false
namespace M4ri.GenTieClose3
open M4ri M4ri.Gen M4ri.GenTieMem M4ri.GenTieView M4ri.BMat M4ri.GenTieAlg M4ri.GenTieStrassen
  M4ri.GenTieStrassen2 M4ri.GenTieClose

/-! ### 0. tactics: walking two `let` chains in parallel -/

/-- float the nested `let`s of the spine: `let x := (let y := w; b); c` ↦ `let y := w; let x := b; c`
    (at most `fuel` times) -/
def floatLet : Nat → Lean.Expr → Lean.Expr
  | 0, e => e
  | fuel + 1, e =>
    match e.consumeMData with
    | .letE x t v b nd =>
      match v.consumeMData with
      | .letE y ty w vb nd' =>
        floatLet fuel (.letE y ty w (.letE x (t.liftLooseBVars 0 1) vb (b.liftLooseBVars 1 1) nd) nd')
      | _ => .letE x t v b nd
    | e' => e'

open Lean Meta Elab Tactic in
/-- the goal is `R … (let a := v; b) (let a' := v'; b')`: introduce `x := v`, `y := v'`, the goal becomes
    `R … b[x] b'[y]` (definitionally the same goal) -/
elab "let_both " x:ident y:ident : tactic => do
  let g ← getMainGoal
  g.withContext do
    let t := (← instantiateMVars (← g.getType)).consumeMData
    let args := t.getAppArgs
    let fn := t.getAppFn
    let n := args.size
    unless n ≥ 2 do throwError "let_both: not a relation{indentExpr t}"
    let lhs := floatLet 64 args[n-2]!
    let rhs := floatLet 64 args[n-1]!
    let .letE _ t1 v1 b1 _ := lhs | throwError "let_both: the left side is not a let{indentExpr lhs}"
    let .letE _ t2 v2 b2 _ := rhs | throwError "let_both: the right side is not a let{indentExpr rhs}"
    let pre := args.extract 0 (n-2)
    let body := mkAppN fn (pre ++ #[b1.liftLooseBVars 0 1, b2])
    let newT := Expr.letE x.getId t1 v1 (Expr.letE y.getId t2 v2 body false) false
    let g' ← g.replaceTargetDefEq newT
    let (_, g'') ← g'.introN 2 [x.getId, y.getId]
    replaceMainGoal [g'']

/-! ### 1. canonical records, agreement of what callees read -/

/-- the canonical record of an `r × c` matrix over an arbitrary memory -/
@[reducible] def canon (m : Mem) (r c : Nat) : CLoop.MView :=
  ⟨m, (r : Int), (c : Int), (((c + 63) / 64 : Nat) : Int), leftMask (c % 64)⟩

/-- a view of a window inside the region of agreement shows the same matrix (all offsets and sizes integers) -/
theorem ofView_view {R W : Nat} {m m' : Mem} (h : AgreeOn R W m m') {r0 w0 nr nw : Int} (nc : Int)
    (hb : BitVec 64) (h0 : 0 ≤ r0) (h1 : 0 ≤ w0) (h2 : r0 + nr ≤ R) (h3 : w0 + nw ≤ W) :
    Mzd.ofView ⟨CLoop.view m r0 w0, nr, nc, nw, hb⟩ = Mzd.ofView ⟨CLoop.view m' r0 w0, nr, nc, nw, hb⟩ := by
  apply ofView_congr
  intro i k hi hk
  unfold CLoop.view
  have := h (r0 + i).toNat (w0 + k).toNat (by omega) (by omega)
  rw [show (((r0 + (i : Int)).toNat : Nat) : Int) = r0 + i by omega,
    show (((w0 + (k : Int)).toNat : Nat) : Int) = w0 + k by omega] at this
  exact this

/-- the whole record -/
theorem ofView_whole {R W : Nat} {m m' : Mem} (h : AgreeOn R W m m') (nc : Int) (hb : BitVec 64) :
    Mzd.ofView ⟨m, (R : Int), nc, (W : Int), hb⟩ = Mzd.ofView ⟨m', (R : Int), nc, (W : Int), hb⟩ := by
  apply ofView_congr
  rw [toNat_cast, toNat_cast]; exact h

/-- views of windows inside the region of agreement agree -/
theorem AgreeOn.viewI {R W : Nat} {m m' : Mem} (h : AgreeOn R W m m') {r0 w0 : Int} {nr nw : Nat}
    (h0 : 0 ≤ r0) (h1 : 0 ≤ w0) (h2 : r0 + nr ≤ R) (h3 : w0 + nw ≤ W) :
    AgreeOn nr nw (CLoop.view m r0 w0) (CLoop.view m' r0 w0) := by
  intro i k hi hk
  unfold CLoop.view
  have := h (r0 + i).toNat (w0 + k).toNat (by omega) (by omega)
  rw [show (((r0 + (i : Int)).toNat : Nat) : Int) = r0 + i by omega,
    show (((w0 + (k : Int)).toNat : Nat) : Int) = w0 + k by omega] at this
  exact this

theorem lift_eq (op : BMat → BMat → BMat → BMat) {C C' A A' B B' : CLoop.MView}
    (hC : Mzd.ofView C = Mzd.ofView C') (hA : Mzd.ofView A = Mzd.ofView A') (hB : Mzd.ofView B = Mzd.ofView B') :
    liftM3 op C A B = liftM3 op C' A' B' := by
  unfold liftM3; rw [hC, hA, hB]

/-- write-backs of results that agree on the window, into memories that agree on a region -/
theorem unview_agree {R W : Nat} {m m' : Mem} (h : AgreeOn R W m m') (r0 w0 : Int) {nr nw : Nat}
    {res res' : Mem} (hres : AgreeOn nr nw res res') :
    AgreeOn R W (CLoop.unview m r0 w0 (nr : Int) (nw : Int) res) (CLoop.unview m' r0 w0 (nr : Int) (nw : Int) res') := by
  intro i k hi hk
  unfold CLoop.unview
  split
  · rename_i hc
    have := hres ((i : Int) - r0).toNat ((k : Int) - w0).toNat (by omega) (by omega)
    rw [show ((((i : Int) - r0).toNat : Nat) : Int) = (i : Int) - r0 by omega,
      show ((((k : Int) - w0).toNat : Nat) : Int) = (k : Int) - w0 by omega] at this
    exact this
  · exact h i k hi hk

/-- the relation carried along two runs: agreement on a region and, if `full`, equality (`full = false` is the
    memory congruence used in the induction, `full = true` the callee congruence on whole matrices) -/
def Agr (full : Bool) (R W : Nat) (m m' : Mem) : Prop := AgreeOn R W m m' ∧ (full = true → m = m')

theorem Agr.agree {full : Bool} {R W : Nat} {m m' : Mem} (h : Agr full R W m m') : AgreeOn R W m m' := h.1

theorem Agr.refl (full : Bool) (R W : Nat) (m : Mem) : Agr full R W m m := ⟨AgreeOn.refl _ _ _, fun _ => rfl⟩

theorem Agr.symm {full : Bool} {R W : Nat} {m m' : Mem} (h : Agr full R W m m') : Agr full R W m' m :=
  ⟨h.1.symm, fun hf => (h.2 hf).symm⟩

/-- write-backs of results that agree on the window -/
theorem Agr.unview {full : Bool} {R W : Nat} {m m' : Mem} (h : Agr full R W m m') (r0 w0 : Int) {nr nw : Nat}
    {res res' : Mem} (hres : AgreeOn nr nw res res') :
    Agr full R W (CLoop.unview m r0 w0 (nr : Int) (nw : Int) res) (CLoop.unview m' r0 w0 (nr : Int) (nw : Int) res') :=
  ⟨unview_agree h.1 r0 w0 hres, fun hf => by rw [h.2 hf]; exact unview_congr _ _ _ _ _ hres⟩

/-- write-backs of equal results -/
theorem Agr.unview_eq {full : Bool} {R W : Nat} {m m' : Mem} (h : Agr full R W m m') (r0 w0 nr nw : Int)
    {res res' : Mem} (hres : res = res') :
    Agr full R W (CLoop.unview m r0 w0 nr nw res) (CLoop.unview m' r0 w0 nr nw res') :=
  ⟨AgreeOn.unview h.1 _ _ _ _ hres, fun hf => by rw [h.2 hf, hres]⟩

theorem Agr.ite {full : Bool} {R W : Nat} (c : Prop) [Decidable c] {x x' y y' : Mem} (h1 : Agr full R W x x')
    (h2 : Agr full R W y y') : Agr full R W (if c then x else y) (if c then x' else y') := by
  split
  · exact h1
  · exact h2

theorem two_mul_sub_self (n : Nat) : 2 * n - n = n := by omega

/-- what the records show is the same: a view of a window inside the region of agreement, or the same memory -/
macro "ofv" : tactic =>
  `(tactic| first
    | with_reducible rfl
    | exact ofView_view (by assumption) _ _ (by omega) (by omega) (by omega) (by omega)
    | exact ofView_view (Agr.agree (by assumption)) _ _ (by omega) (by omega) (by omega) (by omega)
    | exact ofView_whole (by assumption) _ _
    | exact ofView_whole (Agr.agree (by assumption)) _ _)

/-- views agree -/
macro "agv" : tactic =>
  `(tactic| first
    | exact AgreeOn.refl _ _ _
    | exact AgreeOn.viewI (by assumption) (by omega) (by omega) (by omega) (by omega)
    | exact AgreeOn.viewI (Agr.agree (by assumption)) (by omega) (by omega) (by omega) (by omega)
    | assumption)

/-- a local matrix written by a lifted callee: equal on both sides -/
macro "tstep" : tactic =>
  `(tactic| (
    let_both cr cr'; let_both x y
    have hx : x = y := congrArg (CLoop.unview _ _ _ _ _) (lift_eq _ (by ofv) (by ofv) (by ofv))
    clear_value x y; subst hx; clear cr cr'))

/-- the destination written by a lifted callee through a window -/
macro "cstep" : tactic =>
  `(tactic| (
    let_both cr cr'; let_both x y
    have hx : Agr _ _ _ x y := Agr.unview_eq (by assumption) _ _ _ _ (lift_eq _ (by ofv) (by ofv) (by ofv))
    clear_value x y; clear cr cr'))

/-- a fresh local matrix -/
macro "zstep" : tactic =>
  `(tactic| (
    let_both x y
    have hx : x = y := rfl
    clear_value x y; subst hx))

/-- a `let` whose value is a variable -/
macro "vstep" : tactic =>
  `(tactic| (
    let_both x y
    have hx := ‹Agr _ _ _ x y›
    clear_value x y))

/-- a remainder strip: `if c then (lifted callee through a window) else unchanged` -/
macro "sstep" : tactic =>
  `(tactic| (
    let_both x y
    have hx : Agr _ _ _ x y := Agr.ite _ (by
      let_both cr cr'; let_both v v'
      exact Agr.unview_eq (by assumption) _ _ _ _ (lift_eq _ (by ofv) (by ofv) (by ofv))) (by assumption)
    clear_value x y))

/-! ### 1b. the relation between two instances of a recursive-call parameter -/

/-- two three-operand callees agree (on the rows and words of the written operand) on canonical records of
    conforming shapes over memories that agree on the regions of the records -/
def Rel3 (cutoff : Int) (f g : CLoop.MView → CLoop.MView → CLoop.MView → Int → Mem) : Prop :=
  ∀ (m k n : Nat) (c c' a a' b b' : Mem), AgreeOn m ((n + 63) / 64) c c' → AgreeOn m ((k + 63) / 64) a a' →
    AgreeOn k ((n + 63) / 64) b b' →
    AgreeOn m ((n + 63) / 64) (f (canon c m n) (canon a m k) (canon b k n) cutoff)
      (g (canon c' m n) (canon a' m k) (canon b' k n) cutoff)

/-- the same for the one-operand routines (square shapes) -/
def Rel2 (cutoff : Int) (f g : CLoop.MView → CLoop.MView → Int → Mem) : Prop :=
  ∀ (m : Nat) (c c' a a' : Mem), AgreeOn m ((m + 63) / 64) c c' → AgreeOn m ((m + 63) / 64) a a' →
    AgreeOn m ((m + 63) / 64) (f (canon c m m) (canon a m m) cutoff) (g (canon c' m m) (canon a' m m) cutoff)

/-- the destination written by a recursive call through a window -/
macro "fstep " H:term : tactic =>
  `(tactic| (
    let_both cr cr'; let_both x y
    have hx : Agr _ _ _ x y := Agr.unview (by assumption) _ _ ($H _ _ _ _ _ _ _ _ _ (by agv) (by agv) (by agv))
    clear_value x y; clear cr cr'))

/-- a local matrix written by a recursive call -/
macro "tfstep " H:term : tactic =>
  `(tactic| (
    let_both cr cr'; let_both x y
    have hx : x = y := unview_congr _ _ _ _ _ ($H _ _ _ _ _ _ _ _ _ (by agv) (by agv) (by agv))
    clear_value x y; subst hx; clear cr cr'))

/-- the destination written by a one-operand recursive call through a window -/
macro "fstep2 " H:term : tactic =>
  `(tactic| (
    let_both cr cr'; let_both x y
    have hx : Agr _ _ _ x y := Agr.unview (by assumption) _ _ ($H _ _ _ _ _ (by agv) (by agv))
    clear_value x y; clear cr cr'))

/-- a local matrix written by a one-operand recursive call -/
macro "tfstep2 " H:term : tactic =>
  `(tactic| (
    let_both cr cr'; let_both x y
    have hx : x = y := unview_congr _ _ _ _ _ ($H _ _ _ _ _ (by agv) (by agv))
    clear_value x y; subst hx; clear cr cr'))

/-- the three remainder strips of the one-operand routines (one `if`) -/
macro "sstep3" : tactic =>
  `(tactic| (
    let_both x y
    have hx : Agr _ _ _ x y := Agr.ite _ (by cstep; vstep; cstep; vstep; cstep; vstep; assumption) (by assumption)
    clear_value x y))

/-- run a tactic that acts on the first side of the goal on both sides -/
macro "both " t:tactic : tactic => `(tactic| ($t; apply Agr.symm; $t; apply Agr.symm))

/-! ### 2. relational congruence of the two three-operand routines -/

set_option maxHeartbeats 2000000 in
theorem strassenMulEven_rel (full : Bool) (fuel cutoff : Nat) (rsA rsB rsC : Int) (fA fB fC : BitVec 8) (m k n : Nat)
    (mC mC' mA mA' mB mB' : Mem) (hC : Agr full m ((n + 63) / 64) mC mC') (hA : AgreeOn m ((k + 63) / 64) mA mA')
    (hB : AgreeOn k ((n + 63) / 64) mB mB') (f g : CLoop.MView → CLoop.MView → CLoop.MView → Int → Mem)
    (H : Rel3 cutoff f g) :
    Agr full m ((n + 63) / 64)
      (Gen.C.strassenMulEven cutoff mC m n m k n fA fB fC mA (((k + 63) / 64 : Nat) : Int) (leftMask (k % 64))
        cCopyNew mB k (((n + 63) / 64 : Nat) : Int) (leftMask (n % 64)) cM4rm (((n + 63) / 64 : Nat) : Int)
        (leftMask (n % 64)) cCopy rsA rsB rsC cAdd f (cMulNew fuel) cAddmulM4rm)
      (Gen.C.strassenMulEven cutoff mC' m n m k n fA fB fC mA' (((k + 63) / 64 : Nat) : Int) (leftMask (k % 64))
        cCopyNew mB' k (((n + 63) / 64 : Nat) : Int) (leftMask (n % 64)) cM4rm (((n + 63) / 64 : Nat) : Int)
        (leftMask (n % 64)) cCopy rsA rsB rsC cAdd g (cMulNew fuel) cAddmulM4rm) := by
  have eA := ofView_whole hA (k : Int) (leftMask (k % 64))
  have eB := ofView_whole hB (n : Int) (leftMask (n % 64))
  have eC := ofView_whole hC.1 (n : Int) (leftMask (n % 64))
  unfold Gen.C.strassenMulEven
  both (zeta_n 6)
  by_cases h0 : m = 0 ∨ n = 0
  · have h0' : (decide ((m : Int) = 0) || decide ((n : Int) = 0)) = true := by simpa using h0
    rw [if_pos h0', if_pos h0']
    exact hC
  have h0' : ¬ (decide ((m : Int) = 0) || decide ((n : Int) = 0)) = true := by simpa using h0
  rw [if_neg h0', if_neg h0']
  simp_z [GenTie.closer_eq]
  by_cases hcl : BMat.closer m cutoff = true ∨ BMat.closer k cutoff = true ∨ BMat.closer n cutoff = true
  · have hcl' : (Gen.closer m cutoff || Gen.closer k cutoff || Gen.closer n cutoff) = true := by
      rcases hcl with h | h | h <;> simp [BMat.closer] at h <;> simp [h]
    rw [if_pos hcl', if_pos hcl']
    simp (config := {etaStruct := .none}) only [cCopyNew, cM4rm, cCopy, liftM3, eA, eB, eC]
    exact Agr.refl _ _ _ _
  · have hcl' : ¬ (Gen.closer m cutoff || Gen.closer k cutoff || Gen.closer n cutoff) = true := by
      simp [BMat.closer] at hcl; simp [hcl]
    rw [if_neg hcl', if_neg hcl']
    both (zeta_n 2)
    rw [GenTie.min3_int]
    generalize hL : (CLoop.loop 64 _ _ _ : Int × Int) = L
    have h2 : L.2 = ((strassenMult.go cutoff 64 (min (min m n) k / 2) 64 : Nat) : Int) := by
      rw [← hL]
      exact GenTie.loop_strassen cutoff _ _ (fun w m => by simp) (fun w m => by simp) 64 _ 64
    obtain ⟨w', m'⟩ := L
    simp only at h2
    subst h2
    clear hL
    dsimp_z
    zeta_small
    simp_z [GenTie.halfSplit_int]
    generalize strassenMult.go cutoff 64 (min (min m n) k / 2) 64 = mult
    have hm2 : 2 * halfSplit m mult ≤ m := two_halfSplit_le m mult
    have hk2 : 2 * halfSplit k mult ≤ k := two_halfSplit_le k mult
    have hn2 : 2 * halfSplit n mult ≤ n := two_halfSplit_le n mult
    have hm64 : halfSplit m mult % 64 = 0 := halfSplit_mod m mult
    have hk64 : halfSplit k mult % 64 = 0 := halfSplit_mod k mult
    have hn64 : halfSplit n mult % 64 = 0 := halfSplit_mod n mult
    generalize halfSplit m mult = mmm at *
    generalize halfSplit k mult = kkk at *
    generalize halfSplit n mult = nnn at *
    have eA11 := mzdInitWindow_in 0 0 (mmm : Int) (kkk : Int) (m : Int) rsA 0 (0) (mmm) (kkk) m
      (by omega) (by omega) (by omega) (by omega) rfl (by omega) (by omega) (by omega) (by omega)
    have eA12 := mzdInitWindow_in 0 (kkk : Int) (mmm : Int) (2 * (kkk : Int)) (m : Int) rsA 0 (kkk) (mmm) (2 * kkk) m
      (by omega) (by omega) (by omega) (by omega) rfl (by omega) (by omega) (by omega) (by omega)
    have eA21 := mzdInitWindow_in (mmm : Int) 0 (2 * (mmm : Int)) (kkk : Int) (m : Int) rsA mmm (0) (2 * mmm) (kkk) m
      (by omega) (by omega) (by omega) (by omega) rfl (by omega) (by omega) (by omega) (by omega)
    have eA22 := mzdInitWindow_in (mmm : Int) (kkk : Int) (2 * (mmm : Int)) (2 * (kkk : Int)) (m : Int) rsA mmm (kkk) (2 * mmm) (2 * kkk) m
      (by omega) (by omega) (by omega) (by omega) rfl (by omega) (by omega) (by omega) (by omega)
    have eB11 := mzdInitWindow_in 0 0 (kkk : Int) (nnn : Int) (k : Int) rsB 0 (0) (kkk) (nnn) k
      (by omega) (by omega) (by omega) (by omega) rfl (by omega) (by omega) (by omega) (by omega)
    have eB12 := mzdInitWindow_in 0 (nnn : Int) (kkk : Int) (2 * (nnn : Int)) (k : Int) rsB 0 (nnn) (kkk) (2 * nnn) k
      (by omega) (by omega) (by omega) (by omega) rfl (by omega) (by omega) (by omega) (by omega)
    have eB21 := mzdInitWindow_in (kkk : Int) 0 (2 * (kkk : Int)) (nnn : Int) (k : Int) rsB kkk (0) (2 * kkk) (nnn) k
      (by omega) (by omega) (by omega) (by omega) rfl (by omega) (by omega) (by omega) (by omega)
    have eB22 := mzdInitWindow_in (kkk : Int) (nnn : Int) (2 * (kkk : Int)) (2 * (nnn : Int)) (k : Int) rsB kkk (nnn) (2 * kkk) (2 * nnn) k
      (by omega) (by omega) (by omega) (by omega) rfl (by omega) (by omega) (by omega) (by omega)
    have eC11 := mzdInitWindow_in 0 0 (mmm : Int) (nnn : Int) (m : Int) rsC 0 (0) (mmm) (nnn) m
      (by omega) (by omega) (by omega) (by omega) rfl (by omega) (by omega) (by omega) (by omega)
    have eC12 := mzdInitWindow_in 0 (nnn : Int) (mmm : Int) (2 * (nnn : Int)) (m : Int) rsC 0 (nnn) (mmm) (2 * nnn) m
      (by omega) (by omega) (by omega) (by omega) rfl (by omega) (by omega) (by omega) (by omega)
    have eC21 := mzdInitWindow_in (mmm : Int) 0 (2 * (mmm : Int)) (nnn : Int) (m : Int) rsC mmm (0) (2 * mmm) (nnn) m
      (by omega) (by omega) (by omega) (by omega) rfl (by omega) (by omega) (by omega) (by omega)
    have eC22 := mzdInitWindow_in (mmm : Int) (nnn : Int) (2 * (mmm : Int)) (2 * (nnn : Int)) (m : Int) rsC mmm (nnn) (2 * mmm) (2 * nnn) m
      (by omega) (by omega) (by omega) (by omega) rfl (by omega) (by omega) (by omega) (by omega)
    -- the strips
    have eBlc := mzdInitWindow_in 0 ((nnn : Int) * 2) (k : Int) (n : Int) (k : Int) rsB
      0 (2 * nnn) k n k (by omega) (by omega) (by omega) (by omega) rfl (by omega) (by omega) (by omega) (by omega)
    have eClc := mzdInitWindow_in 0 ((nnn : Int) * 2) (m : Int) (n : Int) (m : Int) rsC
      0 (2 * nnn) m n m (by omega) (by omega) (by omega) (by omega) rfl (by omega) (by omega) (by omega) (by omega)
    have eAlr := mzdInitWindow_in ((mmm : Int) * 2) 0 (m : Int) (k : Int) (m : Int) rsA
      (2 * mmm) 0 m k m (by omega) (by omega) (by omega) (by omega) rfl (by omega) (by omega) (by omega) (by omega)
    have eBfc := mzdInitWindow_in 0 0 (k : Int) ((nnn : Int) * 2) (k : Int) rsB
      0 0 k (2 * nnn) k (by omega) (by omega) (by omega) (by omega) rfl (by omega) (by omega) (by omega) (by omega)
    have eClr := mzdInitWindow_in ((mmm : Int) * 2) 0 (m : Int) ((nnn : Int) * 2) (m : Int) rsC
      (2 * mmm) 0 m (2 * nnn) m (by omega) (by omega) (by omega) (by omega) rfl (by omega) (by omega) (by omega) (by omega)
    have eAlc := mzdInitWindow_in 0 ((kkk : Int) * 2) ((mmm : Int) * 2) (k : Int) (m : Int) rsA
      0 (2 * kkk) (2 * mmm) k m (by omega) (by omega) (by omega) (by omega) rfl (by omega) (by omega) (by omega) (by omega)
    have eBlr := mzdInitWindow_in ((kkk : Int) * 2) 0 (k : Int) ((nnn : Int) * 2) (k : Int) rsB
      (2 * kkk) 0 k (2 * nnn) k (by omega) (by omega) (by omega) (by omega) rfl (by omega) (by omega) (by omega) (by omega)
    have eCb := mzdInitWindow_in 0 0 ((mmm : Int) * 2) ((nnn : Int) * 2) (m : Int) rsC
      0 0 (2 * mmm) (2 * nnn) m (by omega) (by omega) (by omega) (by omega) rfl (by omega) (by omega) (by omega) (by omega)
    simp_z [eA11, eA12, eA21, eA22, eB11, eB12, eB21, eB22, eC11, eC12, eC21, eC22, eBlc, eClc, eAlr, eBfc, eClr,
      eAlc, eBlr, eCb]
    clear eA11 eA12 eA21 eA22 eB11 eB12 eB21 eB22 eC11 eC12 eC21 eC22 eBlc eClc eAlr eBfc eClr eAlc eBlr eCb
    simp_z [tdiv63, hbmask, cAdd, cM4rm_mul, cAddmulM4rm_zero]
    simp_z [Nat.sub_zero, two_mul_sub_self]
    have vA12 := ofView_view hA (r0 := (0 : Int) + ((0 : Nat) : Int)) (w0 := (0 : Int) + ((kkk / 64 : Nat) : Int))
      (nr := (mmm : Int)) (nw := (((kkk + 63) / 64 : Nat) : Int)) (kkk : Int) (leftMask (kkk % 64))
      (by omega) (by omega) (by omega) (by omega)
    have vB21 := ofView_view hB (r0 := (0 : Int) + ((kkk : Nat) : Int)) (w0 := (0 : Int) + ((0 / 64 : Nat) : Int))
      (nr := (kkk : Int)) (nw := (((nnn + 63) / 64 : Nat) : Int)) (nnn : Int) (leftMask (nnn % 64))
      (by omega) (by omega) (by omega) (by omega)
    simp_z [cMulNew, nrows_ofView, ncols_ofView, Int.toNat_natCast, tdiv63, hbmask, vA12, vB21]
    -- the two local matrices
    zstep
    zstep
    tstep; tstep; fstep H; tstep; tstep; fstep H; tstep; tstep; fstep H; tstep; fstep H; cstep
    cstep; cstep; cstep; tstep; fstep H; cstep; cstep; fstep H; cstep
    vstep
    sstep
    sstep
    sstep
    assumption

set_option maxHeartbeats 2000000 in
theorem strassenAddmulEven_rel (full : Bool) (fuel cutoff : Nat) (rsA rsB rsC : Int) (fA fB fC : BitVec 8) (m k n : Nat)
    (mC mC' mA mA' mB mB' : Mem) (hC : Agr full m ((n + 63) / 64) mC mC') (hA : AgreeOn m ((k + 63) / 64) mA mA')
    (hB : AgreeOn k ((n + 63) / 64) mB mB') (f g fa ga : CLoop.MView → CLoop.MView → CLoop.MView → Int → Mem)
    (H : Rel3 cutoff f g) (Ha : Rel3 cutoff fa ga) :
    Agr full m ((n + 63) / 64)
      (Gen.C.strassenAddmulEven cutoff mC m n m k n fA fB fC mA (((k + 63) / 64 : Nat) : Int) (leftMask (k % 64))
        cCopyNew mB k (((n + 63) / 64 : Nat) : Int) (leftMask (n % 64)) (((n + 63) / 64 : Nat) : Int)
        (leftMask (n % 64)) cAddmulM4rm cCopy rsA rsB rsC cAdd f fa)
      (Gen.C.strassenAddmulEven cutoff mC' m n m k n fA fB fC mA' (((k + 63) / 64 : Nat) : Int) (leftMask (k % 64))
        cCopyNew mB' k (((n + 63) / 64 : Nat) : Int) (leftMask (n % 64)) (((n + 63) / 64 : Nat) : Int)
        (leftMask (n % 64)) cAddmulM4rm cCopy rsA rsB rsC cAdd g ga) := by
  have eA := ofView_whole hA (k : Int) (leftMask (k % 64))
  have eB := ofView_whole hB (n : Int) (leftMask (n % 64))
  have eC := ofView_whole hC.1 (n : Int) (leftMask (n % 64))
  unfold Gen.C.strassenAddmulEven
  both (zeta_n 6)
  by_cases h0 : m = 0 ∨ n = 0
  · have h0' : (decide ((m : Int) = 0) || decide ((n : Int) = 0)) = true := by simpa using h0
    rw [if_pos h0', if_pos h0']
    exact hC
  have h0' : ¬ (decide ((m : Int) = 0) || decide ((n : Int) = 0)) = true := by simpa using h0
  rw [if_neg h0', if_neg h0']
  simp_z [GenTie.closer_eq]
  by_cases hcl : BMat.closer m cutoff = true ∨ BMat.closer k cutoff = true ∨ BMat.closer n cutoff = true
  · have hcl' : (Gen.closer m cutoff || Gen.closer k cutoff || Gen.closer n cutoff) = true := by
      rcases hcl with h | h | h <;> simp [BMat.closer] at h <;> simp [h]
    rw [if_pos hcl', if_pos hcl']
    simp (config := {etaStruct := .none}) only [cCopyNew, cAddmulM4rm, cCopy, liftM3, eA, eB, eC]
    exact Agr.refl _ _ _ _
  · have hcl' : ¬ (Gen.closer m cutoff || Gen.closer k cutoff || Gen.closer n cutoff) = true := by
      simp [BMat.closer] at hcl; simp [hcl]
    rw [if_neg hcl', if_neg hcl']
    both (zeta_n 2)
    rw [GenTie.min3_int]
    generalize hL : (CLoop.loop 64 _ _ _ : Int × Int) = L
    have h2 : L.2 = ((strassenMult.go cutoff 64 (min (min m n) k / 2) 64 : Nat) : Int) := by
      rw [← hL]
      exact GenTie.loop_strassen cutoff _ _ (fun w m => by simp) (fun w m => by simp) 64 _ 64
    obtain ⟨w', m'⟩ := L
    simp only at h2
    subst h2
    clear hL
    dsimp_z
    zeta_small
    simp_z [GenTie.halfSplit_int]
    generalize strassenMult.go cutoff 64 (min (min m n) k / 2) 64 = mult
    have hm2 : 2 * halfSplit m mult ≤ m := two_halfSplit_le m mult
    have hk2 : 2 * halfSplit k mult ≤ k := two_halfSplit_le k mult
    have hn2 : 2 * halfSplit n mult ≤ n := two_halfSplit_le n mult
    have hm64 : halfSplit m mult % 64 = 0 := halfSplit_mod m mult
    have hk64 : halfSplit k mult % 64 = 0 := halfSplit_mod k mult
    have hn64 : halfSplit n mult % 64 = 0 := halfSplit_mod n mult
    generalize halfSplit m mult = mmm at *
    generalize halfSplit k mult = kkk at *
    generalize halfSplit n mult = nnn at *
    have eA11 := mzdInitWindow_in 0 0 (mmm : Int) (kkk : Int) (m : Int) rsA 0 (0) (mmm) (kkk) m
      (by omega) (by omega) (by omega) (by omega) rfl (by omega) (by omega) (by omega) (by omega)
    have eA12 := mzdInitWindow_in 0 (kkk : Int) (mmm : Int) (2 * (kkk : Int)) (m : Int) rsA 0 (kkk) (mmm) (2 * kkk) m
      (by omega) (by omega) (by omega) (by omega) rfl (by omega) (by omega) (by omega) (by omega)
    have eA21 := mzdInitWindow_in (mmm : Int) 0 (2 * (mmm : Int)) (kkk : Int) (m : Int) rsA mmm (0) (2 * mmm) (kkk) m
      (by omega) (by omega) (by omega) (by omega) rfl (by omega) (by omega) (by omega) (by omega)
    have eA22 := mzdInitWindow_in (mmm : Int) (kkk : Int) (2 * (mmm : Int)) (2 * (kkk : Int)) (m : Int) rsA mmm (kkk) (2 * mmm) (2 * kkk) m
      (by omega) (by omega) (by omega) (by omega) rfl (by omega) (by omega) (by omega) (by omega)
    have eB11 := mzdInitWindow_in 0 0 (kkk : Int) (nnn : Int) (k : Int) rsB 0 (0) (kkk) (nnn) k
      (by omega) (by omega) (by omega) (by omega) rfl (by omega) (by omega) (by omega) (by omega)
    have eB12 := mzdInitWindow_in 0 (nnn : Int) (kkk : Int) (2 * (nnn : Int)) (k : Int) rsB 0 (nnn) (kkk) (2 * nnn) k
      (by omega) (by omega) (by omega) (by omega) rfl (by omega) (by omega) (by omega) (by omega)
    have eB21 := mzdInitWindow_in (kkk : Int) 0 (2 * (kkk : Int)) (nnn : Int) (k : Int) rsB kkk (0) (2 * kkk) (nnn) k
      (by omega) (by omega) (by omega) (by omega) rfl (by omega) (by omega) (by omega) (by omega)
    have eB22 := mzdInitWindow_in (kkk : Int) (nnn : Int) (2 * (kkk : Int)) (2 * (nnn : Int)) (k : Int) rsB kkk (nnn) (2 * kkk) (2 * nnn) k
      (by omega) (by omega) (by omega) (by omega) rfl (by omega) (by omega) (by omega) (by omega)
    have eC11 := mzdInitWindow_in 0 0 (mmm : Int) (nnn : Int) (m : Int) rsC 0 (0) (mmm) (nnn) m
      (by omega) (by omega) (by omega) (by omega) rfl (by omega) (by omega) (by omega) (by omega)
    have eC12 := mzdInitWindow_in 0 (nnn : Int) (mmm : Int) (2 * (nnn : Int)) (m : Int) rsC 0 (nnn) (mmm) (2 * nnn) m
      (by omega) (by omega) (by omega) (by omega) rfl (by omega) (by omega) (by omega) (by omega)
    have eC21 := mzdInitWindow_in (mmm : Int) 0 (2 * (mmm : Int)) (nnn : Int) (m : Int) rsC mmm (0) (2 * mmm) (nnn) m
      (by omega) (by omega) (by omega) (by omega) rfl (by omega) (by omega) (by omega) (by omega)
    have eC22 := mzdInitWindow_in (mmm : Int) (nnn : Int) (2 * (mmm : Int)) (2 * (nnn : Int)) (m : Int) rsC mmm (nnn) (2 * mmm) (2 * nnn) m
      (by omega) (by omega) (by omega) (by omega) rfl (by omega) (by omega) (by omega) (by omega)
    -- the strips
    have eBlc := mzdInitWindow_in 0 ((nnn : Int) * 2) (k : Int) (n : Int) (k : Int) rsB
      0 (2 * nnn) k n k (by omega) (by omega) (by omega) (by omega) rfl (by omega) (by omega) (by omega) (by omega)
    have eClc := mzdInitWindow_in 0 ((nnn : Int) * 2) (m : Int) (n : Int) (m : Int) rsC
      0 (2 * nnn) m n m (by omega) (by omega) (by omega) (by omega) rfl (by omega) (by omega) (by omega) (by omega)
    have eAlr := mzdInitWindow_in ((mmm : Int) * 2) 0 (m : Int) (k : Int) (m : Int) rsA
      (2 * mmm) 0 m k m (by omega) (by omega) (by omega) (by omega) rfl (by omega) (by omega) (by omega) (by omega)
    have eBfc := mzdInitWindow_in 0 0 (k : Int) ((nnn : Int) * 2) (k : Int) rsB
      0 0 k (2 * nnn) k (by omega) (by omega) (by omega) (by omega) rfl (by omega) (by omega) (by omega) (by omega)
    have eClr := mzdInitWindow_in ((mmm : Int) * 2) 0 (m : Int) ((nnn : Int) * 2) (m : Int) rsC
      (2 * mmm) 0 m (2 * nnn) m (by omega) (by omega) (by omega) (by omega) rfl (by omega) (by omega) (by omega) (by omega)
    have eAlc := mzdInitWindow_in 0 ((kkk : Int) * 2) ((mmm : Int) * 2) (k : Int) (m : Int) rsA
      0 (2 * kkk) (2 * mmm) k m (by omega) (by omega) (by omega) (by omega) rfl (by omega) (by omega) (by omega) (by omega)
    have eBlr := mzdInitWindow_in ((kkk : Int) * 2) 0 (k : Int) ((nnn : Int) * 2) (k : Int) rsB
      (2 * kkk) 0 k (2 * nnn) k (by omega) (by omega) (by omega) (by omega) rfl (by omega) (by omega) (by omega) (by omega)
    have eCb := mzdInitWindow_in 0 0 ((mmm : Int) * 2) ((nnn : Int) * 2) (m : Int) rsC
      0 0 (2 * mmm) (2 * nnn) m (by omega) (by omega) (by omega) (by omega) rfl (by omega) (by omega) (by omega) (by omega)
    simp_z [eA11, eA12, eA21, eA22, eB11, eB12, eB21, eB22, eC11, eC12, eC21, eC22, eBlc, eClc, eAlr, eBfc, eClr,
      eAlc, eBlr, eCb]
    clear eA11 eA12 eA21 eA22 eB11 eB12 eB21 eB22 eC11 eC12 eC21 eC22 eBlc eClc eAlr eBfc eClr eAlc eBlr eCb
    simp_z [tdiv63, hbmask, cAdd, cM4rm_mul, cAddmulM4rm_zero]
    simp_z [Nat.sub_zero, two_mul_sub_self]
    -- the three local matrices
    zstep
    zstep
    zstep
    tstep; tstep; tfstep H; cstep; cstep; tfstep H; cstep; fstep Ha; tstep; tstep; tfstep Ha; cstep; tstep
    fstep Ha; tstep; fstep Ha; tstep; tstep; tfstep Ha; cstep; cstep
    vstep
    sstep
    sstep
    sstep
    assumption

/-! ### 3. relational congruence of the two one-operand routines -/

set_option maxHeartbeats 2000000 in
theorem strassenSqrEven_rel (full : Bool) (fuel cutoff : Nat) (rsA rsC : Int) (fA fC : BitVec 8) (m : Nat)
    (mC mC' mA mA' : Mem) (hC : Agr full m ((m + 63) / 64) mC mC') (hA : AgreeOn m ((m + 63) / 64) mA mA')
    (fs gs : CLoop.MView → CLoop.MView → Int → Mem) (f g : CLoop.MView → CLoop.MView → CLoop.MView → Int → Mem)
    (Hs : Rel2 cutoff fs gs) (H : Rel3 cutoff f g) :
    Agr full m ((m + 63) / 64)
      (Gen.C.strassenSqrEven cutoff mC m fA fC mA m (((m + 63) / 64 : Nat) : Int) (leftMask (m % 64)) cCopyNew cM4rm
        m m (((m + 63) / 64 : Nat) : Int) (leftMask (m % 64)) cCopy rsA rsC cAdd fs f (cMulNew fuel) cAddmulM4rm)
      (Gen.C.strassenSqrEven cutoff mC' m fA fC mA' m (((m + 63) / 64 : Nat) : Int) (leftMask (m % 64)) cCopyNew cM4rm
        m m (((m + 63) / 64 : Nat) : Int) (leftMask (m % 64)) cCopy rsA rsC cAdd gs g (cMulNew fuel) cAddmulM4rm) := by
  have eA := ofView_whole hA (m : Int) (leftMask (m % 64))
  have eC := ofView_whole hC.1 (m : Int) (leftMask (m % 64))
  unfold Gen.C.strassenSqrEven
  both (zeta_n 2)
  simp_z [GenTie.closer_eq]
  by_cases hcl : BMat.closer m cutoff = true
  · have hcl' : Gen.closer m cutoff = true := by simpa [BMat.closer] using hcl
    rw [if_pos hcl', if_pos hcl']
    simp (config := {etaStruct := .none}) only [cCopyNew, cM4rm, cCopy, liftM3, eA, eC]
    exact Agr.refl _ _ _ _
  · have hcl' : ¬ Gen.closer m cutoff = true := by simpa [BMat.closer] using hcl
    rw [if_neg hcl', if_neg hcl']
    gen_let v_mmm as vm hvm
    have hvm' : vm = ((halfSplit m (strassenMult (m / 2) cutoff) : Nat) : Int) := by
      rw [← hvm]
      exact GenTie.sqrEvenSplit_eq m cutoff
    clear hvm
    subst hvm'
    apply Agr.symm
    gen_let v_mmm as vm hvm
    have hvm' : vm = ((halfSplit m (strassenMult (m / 2) cutoff) : Nat) : Int) := by
      rw [← hvm]
      exact GenTie.sqrEvenSplit_eq m cutoff
    clear hvm
    subst hvm'
    apply Agr.symm
    zeta_small
    generalize strassenMult (m / 2) cutoff = mult
    have hm2 : 2 * halfSplit m mult ≤ m := two_halfSplit_le m mult
    have hm64 : halfSplit m mult % 64 = 0 := halfSplit_mod m mult
    generalize halfSplit m mult = mmm at *
    have eA11 := mzdInitWindow_in 0 0 (mmm : Int) (mmm : Int) (m : Int) rsA 0 0 mmm mmm m
      (by omega) (by omega) (by omega) (by omega) rfl (by omega) (by omega) (by omega) (by omega)
    have eA12 := mzdInitWindow_in 0 (mmm : Int) (mmm : Int) (2 * (mmm : Int)) (m : Int) rsA 0 mmm mmm (2 * mmm) m
      (by omega) (by omega) (by omega) (by omega) rfl (by omega) (by omega) (by omega) (by omega)
    have eA21 := mzdInitWindow_in (mmm : Int) 0 (2 * (mmm : Int)) (mmm : Int) (m : Int) rsA mmm 0 (2 * mmm) mmm m
      (by omega) (by omega) (by omega) (by omega) rfl (by omega) (by omega) (by omega) (by omega)
    have eA22 := mzdInitWindow_in (mmm : Int) (mmm : Int) (2 * (mmm : Int)) (2 * (mmm : Int)) (m : Int) rsA mmm mmm (2 * mmm) (2 * mmm) m
      (by omega) (by omega) (by omega) (by omega) rfl (by omega) (by omega) (by omega) (by omega)
    have eC11 := mzdInitWindow_in 0 0 (mmm : Int) (mmm : Int) (m : Int) rsC 0 0 mmm mmm m
      (by omega) (by omega) (by omega) (by omega) rfl (by omega) (by omega) (by omega) (by omega)
    have eC12 := mzdInitWindow_in 0 (mmm : Int) (mmm : Int) (2 * (mmm : Int)) (m : Int) rsC 0 mmm mmm (2 * mmm) m
      (by omega) (by omega) (by omega) (by omega) rfl (by omega) (by omega) (by omega) (by omega)
    have eC21 := mzdInitWindow_in (mmm : Int) 0 (2 * (mmm : Int)) (mmm : Int) (m : Int) rsC mmm 0 (2 * mmm) mmm m
      (by omega) (by omega) (by omega) (by omega) rfl (by omega) (by omega) (by omega) (by omega)
    have eC22 := mzdInitWindow_in (mmm : Int) (mmm : Int) (2 * (mmm : Int)) (2 * (mmm : Int)) (m : Int) rsC mmm mmm (2 * mmm) (2 * mmm) m
      (by omega) (by omega) (by omega) (by omega) rfl (by omega) (by omega) (by omega) (by omega)
    have eAlc := mzdInitWindow_in 0 ((mmm : Int) * 2) (m : Int) (m : Int) (m : Int) rsA 0 (2 * mmm) m m m
      (by omega) (by omega) (by omega) (by omega) rfl (by omega) (by omega) (by omega) (by omega)
    have eClc := mzdInitWindow_in 0 ((mmm : Int) * 2) (m : Int) (m : Int) (m : Int) rsC 0 (2 * mmm) m m m
      (by omega) (by omega) (by omega) (by omega) rfl (by omega) (by omega) (by omega) (by omega)
    have eAlr := mzdInitWindow_in ((mmm : Int) * 2) 0 (m : Int) (m : Int) (m : Int) rsA (2 * mmm) 0 m m m
      (by omega) (by omega) (by omega) (by omega) rfl (by omega) (by omega) (by omega) (by omega)
    have eAfc := mzdInitWindow_in 0 0 (m : Int) ((mmm : Int) * 2) (m : Int) rsA 0 0 m (2 * mmm) m
      (by omega) (by omega) (by omega) (by omega) rfl (by omega) (by omega) (by omega) (by omega)
    have eClr := mzdInitWindow_in ((mmm : Int) * 2) 0 (m : Int) ((mmm : Int) * 2) (m : Int) rsC (2 * mmm) 0 m (2 * mmm) m
      (by omega) (by omega) (by omega) (by omega) rfl (by omega) (by omega) (by omega) (by omega)
    have eAlc3 := mzdInitWindow_in 0 ((mmm : Int) * 2) ((mmm : Int) * 2) (m : Int) (m : Int) rsA 0 (2 * mmm) (2 * mmm) m m
      (by omega) (by omega) (by omega) (by omega) rfl (by omega) (by omega) (by omega) (by omega)
    have eAlr3 := mzdInitWindow_in ((mmm : Int) * 2) 0 (m : Int) ((mmm : Int) * 2) (m : Int) rsA (2 * mmm) 0 m (2 * mmm) m
      (by omega) (by omega) (by omega) (by omega) rfl (by omega) (by omega) (by omega) (by omega)
    have eCb := mzdInitWindow_in 0 0 ((mmm : Int) * 2) ((mmm : Int) * 2) (m : Int) rsC 0 0 (2 * mmm) (2 * mmm) m
      (by omega) (by omega) (by omega) (by omega) rfl (by omega) (by omega) (by omega) (by omega)
    simp_z [eA11, eA12, eA21, eA22, eC11, eC12, eC21, eC22, eAlc, eClc, eAlr, eAfc, eClr, eAlc3, eAlr3, eCb]
    clear eA11 eA12 eA21 eA22 eC11 eC12 eC21 eC22 eAlc eClc eAlr eAfc eClr eAlc3 eAlr3 eCb
    simp_z [tdiv63, hbmask, cAdd, cM4rm_mul, cAddmulM4rm_zero]
    simp_z [Nat.sub_zero, two_mul_sub_self]
    have vA12 := ofView_view hA (r0 := (0 : Int) + ((0 : Nat) : Int)) (w0 := (0 : Int) + ((mmm / 64 : Nat) : Int))
      (nr := (mmm : Int)) (nw := (((mmm + 63) / 64 : Nat) : Int)) (mmm : Int) (leftMask (mmm % 64))
      (by omega) (by omega) (by omega) (by omega)
    have vA21 := ofView_view hA (r0 := (0 : Int) + ((mmm : Nat) : Int)) (w0 := (0 : Int) + ((0 / 64 : Nat) : Int))
      (nr := (mmm : Int)) (nw := (((mmm + 63) / 64 : Nat) : Int)) (mmm : Int) (leftMask (mmm % 64))
      (by omega) (by omega) (by omega) (by omega)
    simp_z [cMulNew, nrows_ofView, ncols_ofView, Int.toNat_natCast, tdiv63, hbmask, vA12, vA21]
    zstep
    tstep; fstep2 Hs; tstep; fstep2 Hs; tstep; fstep2 Hs; tstep; fstep H; cstep
    cstep; cstep; cstep; fstep H; cstep; cstep; fstep2 Hs; cstep
    vstep
    sstep3
    assumption

set_option maxHeartbeats 2000000 in
theorem strassenAddsqrEven_rel (full : Bool) (fuel cutoff : Nat) (rsA rsC : Int) (fA fC : BitVec 8) (m : Nat)
    (mC mC' mA mA' : Mem) (hC : Agr full m ((m + 63) / 64) mC mC') (hA : AgreeOn m ((m + 63) / 64) mA mA')
    (fs gs fas gas : CLoop.MView → CLoop.MView → Int → Mem)
    (f g fa ga : CLoop.MView → CLoop.MView → CLoop.MView → Int → Mem)
    (Hs : Rel2 cutoff fs gs) (H : Rel3 cutoff f g) (Has : Rel2 cutoff fas gas) (Ha : Rel3 cutoff fa ga) :
    Agr full m ((m + 63) / 64)
      (Gen.C.strassenAddsqrEven cutoff mC m m fA fC m (((m + 63) / 64 : Nat) : Int) (leftMask (m % 64)) cCopyNew
        mA m (((m + 63) / 64 : Nat) : Int) (leftMask (m % 64)) cAddmulM4rm cCopy rsA rsC cAdd fs f fas fa)
      (Gen.C.strassenAddsqrEven cutoff mC' m m fA fC m (((m + 63) / 64 : Nat) : Int) (leftMask (m % 64)) cCopyNew
        mA' m (((m + 63) / 64 : Nat) : Int) (leftMask (m % 64)) cAddmulM4rm cCopy rsA rsC cAdd gs g gas ga) := by
  have eA := ofView_whole hA (m : Int) (leftMask (m % 64))
  have eC := ofView_whole hC.1 (m : Int) (leftMask (m % 64))
  unfold Gen.C.strassenAddsqrEven
  by_cases h0 : m = 0
  · have h0' : decide ((m : Int) = 0) = true := by simpa using h0
    rw [if_pos h0', if_pos h0']
    exact hC
  have h0' : ¬ decide ((m : Int) = 0) = true := by simpa using h0
  rw [if_neg h0', if_neg h0']
  both (zeta_n 1)
  simp_z [GenTie.closer_eq]
  by_cases hcl : BMat.closer m cutoff = true
  · have hcl' : Gen.closer m cutoff = true := by simpa [BMat.closer] using hcl
    rw [if_pos hcl', if_pos hcl']
    simp (config := {etaStruct := .none}) only [cCopyNew, cAddmulM4rm, cCopy, liftM3, eA, eC]
    exact Agr.refl _ _ _ _
  · have hcl' : ¬ Gen.closer m cutoff = true := by simpa [BMat.closer] using hcl
    rw [if_neg hcl', if_neg hcl']
    gen_let v_mmm as vm hvm
    have hvm' : vm = ((halfSplit m (strassenMult (m / 2) cutoff) : Nat) : Int) := by
      rw [← hvm]
      exact GenTie.addsqrEvenSplit_eq m cutoff
    clear hvm
    subst hvm'
    apply Agr.symm
    gen_let v_mmm as vm hvm
    have hvm' : vm = ((halfSplit m (strassenMult (m / 2) cutoff) : Nat) : Int) := by
      rw [← hvm]
      exact GenTie.addsqrEvenSplit_eq m cutoff
    clear hvm
    subst hvm'
    apply Agr.symm
    zeta_small
    generalize strassenMult (m / 2) cutoff = mult
    have hm2 : 2 * halfSplit m mult ≤ m := two_halfSplit_le m mult
    have hm64 : halfSplit m mult % 64 = 0 := halfSplit_mod m mult
    generalize halfSplit m mult = mmm at *
    have eA11 := mzdInitWindow_in 0 0 (mmm : Int) (mmm : Int) (m : Int) rsA 0 0 mmm mmm m
      (by omega) (by omega) (by omega) (by omega) rfl (by omega) (by omega) (by omega) (by omega)
    have eA12 := mzdInitWindow_in 0 (mmm : Int) (mmm : Int) (2 * (mmm : Int)) (m : Int) rsA 0 mmm mmm (2 * mmm) m
      (by omega) (by omega) (by omega) (by omega) rfl (by omega) (by omega) (by omega) (by omega)
    have eA21 := mzdInitWindow_in (mmm : Int) 0 (2 * (mmm : Int)) (mmm : Int) (m : Int) rsA mmm 0 (2 * mmm) mmm m
      (by omega) (by omega) (by omega) (by omega) rfl (by omega) (by omega) (by omega) (by omega)
    have eA22 := mzdInitWindow_in (mmm : Int) (mmm : Int) (2 * (mmm : Int)) (2 * (mmm : Int)) (m : Int) rsA mmm mmm (2 * mmm) (2 * mmm) m
      (by omega) (by omega) (by omega) (by omega) rfl (by omega) (by omega) (by omega) (by omega)
    have eC11 := mzdInitWindow_in 0 0 (mmm : Int) (mmm : Int) (m : Int) rsC 0 0 mmm mmm m
      (by omega) (by omega) (by omega) (by omega) rfl (by omega) (by omega) (by omega) (by omega)
    have eC12 := mzdInitWindow_in 0 (mmm : Int) (mmm : Int) (2 * (mmm : Int)) (m : Int) rsC 0 mmm mmm (2 * mmm) m
      (by omega) (by omega) (by omega) (by omega) rfl (by omega) (by omega) (by omega) (by omega)
    have eC21 := mzdInitWindow_in (mmm : Int) 0 (2 * (mmm : Int)) (mmm : Int) (m : Int) rsC mmm 0 (2 * mmm) mmm m
      (by omega) (by omega) (by omega) (by omega) rfl (by omega) (by omega) (by omega) (by omega)
    have eC22 := mzdInitWindow_in (mmm : Int) (mmm : Int) (2 * (mmm : Int)) (2 * (mmm : Int)) (m : Int) rsC mmm mmm (2 * mmm) (2 * mmm) m
      (by omega) (by omega) (by omega) (by omega) rfl (by omega) (by omega) (by omega) (by omega)
    have eAlc := mzdInitWindow_in 0 ((mmm : Int) * 2) (m : Int) (m : Int) (m : Int) rsA 0 (2 * mmm) m m m
      (by omega) (by omega) (by omega) (by omega) rfl (by omega) (by omega) (by omega) (by omega)
    have eClc := mzdInitWindow_in 0 ((mmm : Int) * 2) (m : Int) (m : Int) (m : Int) rsC 0 (2 * mmm) m m m
      (by omega) (by omega) (by omega) (by omega) rfl (by omega) (by omega) (by omega) (by omega)
    have eAlr := mzdInitWindow_in ((mmm : Int) * 2) 0 (m : Int) (m : Int) (m : Int) rsA (2 * mmm) 0 m m m
      (by omega) (by omega) (by omega) (by omega) rfl (by omega) (by omega) (by omega) (by omega)
    have eAfc := mzdInitWindow_in 0 0 (m : Int) ((mmm : Int) * 2) (m : Int) rsA 0 0 m (2 * mmm) m
      (by omega) (by omega) (by omega) (by omega) rfl (by omega) (by omega) (by omega) (by omega)
    have eClr := mzdInitWindow_in ((mmm : Int) * 2) 0 (m : Int) ((mmm : Int) * 2) (m : Int) rsC (2 * mmm) 0 m (2 * mmm) m
      (by omega) (by omega) (by omega) (by omega) rfl (by omega) (by omega) (by omega) (by omega)
    have eAlc3 := mzdInitWindow_in 0 ((mmm : Int) * 2) ((mmm : Int) * 2) (m : Int) (m : Int) rsA 0 (2 * mmm) (2 * mmm) m m
      (by omega) (by omega) (by omega) (by omega) rfl (by omega) (by omega) (by omega) (by omega)
    have eAlr3 := mzdInitWindow_in ((mmm : Int) * 2) 0 (m : Int) ((mmm : Int) * 2) (m : Int) rsA (2 * mmm) 0 m (2 * mmm) m
      (by omega) (by omega) (by omega) (by omega) rfl (by omega) (by omega) (by omega) (by omega)
    have eCb := mzdInitWindow_in 0 0 ((mmm : Int) * 2) ((mmm : Int) * 2) (m : Int) rsC 0 0 (2 * mmm) (2 * mmm) m
      (by omega) (by omega) (by omega) (by omega) rfl (by omega) (by omega) (by omega) (by omega)
    simp_z [eA11, eA12, eA21, eA22, eC11, eC12, eC21, eC22, eAlc, eClc, eAlr, eAfc, eClr, eAlc3, eAlr3, eCb]
    clear eA11 eA12 eA21 eA22 eC11 eC12 eC21 eC22 eAlc eClc eAlr eAfc eClr eAlc3 eAlr3 eCb
    simp_z [tdiv63, hbmask, cAdd, cM4rm_mul, cAddmulM4rm_zero]
    simp_z [Nat.sub_zero, two_mul_sub_self]
    zstep
    zstep
    tstep; tfstep2 Hs; cstep; cstep; tfstep H; cstep; fstep2 Has; tstep; tfstep2 Has; cstep; tstep
    fstep Ha; fstep Ha; tstep; tfstep2 Has; cstep; cstep
    vstep
    sstep3
    assumption

/-! ### 4. callees that agree with a lifted model operation -/

/-- `f` agrees with `g` (on the rows and words of the written operand) on every canonical record of conforming
    shapes, over arbitrary memories -/
def Sim3 (cutoff : Int) (f g : CLoop.MView → CLoop.MView → CLoop.MView → Int → Mem) : Prop :=
  ∀ (m k n : Nat) (c a b : Mem), AgreeOn m ((n + 63) / 64)
    (f (canon c m n) (canon a m k) (canon b k n) cutoff) (g (canon c m n) (canon a m k) (canon b k n) cutoff)

def Sim2 (cutoff : Int) (f g : CLoop.MView → CLoop.MView → Int → Mem) : Prop :=
  ∀ (m : Nat) (c a : Mem), AgreeOn m ((m + 63) / 64)
    (f (canon c m m) (canon a m m) cutoff) (g (canon c m m) (canon a m m) cutoff)

/-- … hence related to it (a lifted operation only reads the rows and words of its records) -/
theorem Sim3.rel {cutoff : Int} {f g : CLoop.MView → CLoop.MView → CLoop.MView → Int → Mem}
    (op : BMat → BMat → BMat → BMat) (hg : ∀ C A B, g C A B cutoff = liftM3 op C A B) (h : Sim3 cutoff f g) :
    Rel3 cutoff f g := by
  intro m k n c c' a a' b b' hc ha hb
  refine (h m k n c a b).trans ?_
  rw [hg, hg, liftM3_congr_nat op m ((n + 63) / 64) m ((k + 63) / 64) k ((n + 63) / 64) _ _ _ _ _ _ _ _ _ hc ha hb]
  exact AgreeOn.refl _ _ _

theorem Sim2.rel {cutoff : Int} {f g : CLoop.MView → CLoop.MView → Int → Mem}
    (op : BMat → BMat → BMat → BMat) (hg : ∀ C A, g C A cutoff = liftM3 op C A A) (h : Sim2 cutoff f g) :
    Rel2 cutoff f g := by
  intro m c c' a a' hc ha
  refine (h m c a).trans ?_
  rw [hg, hg, liftM3_congr_nat op m ((m + 63) / 64) m ((m + 63) / 64) m ((m + 63) / 64) _ _ _ _ _ _ _ _ _ hc ha ha]
  exact AgreeOn.refl _ _ _

theorem Sim3.mul {cutoff : Int} {fuel : Nat} {f : CLoop.MView → CLoop.MView → CLoop.MView → Int → Mem}
    (h : Sim3 cutoff f (cMulEven fuel)) : Rel3 cutoff f (cMulEven fuel) :=
  Sim3.rel (fun C A B => mulEven fuel C A B cutoff.toNat) (fun _ _ _ => rfl) h

theorem Sim3.addmul {cutoff : Int} {fuel : Nat} {f : CLoop.MView → CLoop.MView → CLoop.MView → Int → Mem}
    (h : Sim3 cutoff f (cAddmulEven fuel)) : Rel3 cutoff f (cAddmulEven fuel) :=
  Sim3.rel (fun C A B => addmulEven fuel C A B cutoff.toNat) (fun _ _ _ => rfl) h

theorem Sim2.sqr {cutoff : Int} {fuel : Nat} {f : CLoop.MView → CLoop.MView → Int → Mem}
    (h : Sim2 cutoff f (cSqrEven fuel)) : Rel2 cutoff f (cSqrEven fuel) :=
  Sim2.rel (fun C A _ => sqrEven fuel C A cutoff.toNat) (fun _ _ => rfl) h

theorem Sim2.addsqr {cutoff : Int} {fuel : Nat} {f : CLoop.MView → CLoop.MView → Int → Mem}
    (h : Sim2 cutoff f (cAddsqrEven fuel)) : Rel2 cutoff f (cAddsqrEven fuel) :=
  Sim2.rel (fun C A _ => addsqrEven fuel C A cutoff.toNat) (fun _ _ => rfl) h

/-! ### 5. one step on views, any agreeing recursive callees -/

/-- **one step of `_mzd_mul_even` on views**: on canonical records over ARBITRARY memories, with the
    recursive-call parameter bound to ANY function that agrees with the model at `fuel` on canonical records, the
    generated function agrees with the model at `fuel + 1` -/
theorem strassenMulEven_step_view (fuel cutoff : Nat) (rsA rsB rsC : Int) (fA fB fC : BitVec 8)
    (f : CLoop.MView → CLoop.MView → CLoop.MView → Int → Mem) (Hf : Sim3 cutoff f (cMulEven fuel))
    (m k n : Nat) (mC mA mB : Mem) :
    AgreeOn m ((n + 63) / 64)
      (Gen.C.strassenMulEven cutoff mC m n m k n fA fB fC mA (((k + 63) / 64 : Nat) : Int) (leftMask (k % 64))
        cCopyNew mB k (((n + 63) / 64 : Nat) : Int) (leftMask (n % 64)) cM4rm (((n + 63) / 64 : Nat) : Int)
        (leftMask (n % 64)) cCopy rsA rsB rsC cAdd f (cMulNew fuel) cAddmulM4rm)
      (cMulEven (fuel + 1) (canon mC m n) (canon mA m k) (canon mB k n) cutoff) := by
  refine (strassenMulEven_rel false fuel cutoff rsA rsB rsC fA fB fC m k n mC (memOf (rawM mC m n)) mA
    (memOf (rawM mA m k)) mB (memOf (rawM mB k n)) ⟨agree_rawM mC m n, fun h => nomatch h⟩ (agree_rawM mA m k)
    (agree_rawM mB k n) f (cMulEven fuel) Hf.mul).1.trans ?_
  have h := strassenMulEven_step fuel cutoff rsA rsB rsC fA fB fC (rawM mC m n) (rawM mA m k) (rawM mB k n)
    (rawM_WF _ _ _) (rawM_WF _ _ _) (rawM_WF _ _ _) (by simp) (by simp) (by simp)
  simp only [nrows_rawM, ncols_rawM, width_rawM, hb_rawM] at h
  rw [h, cMulEven_nat]
  exact AgreeOn.refl _ _ _

/-- **one step of `_mzd_addmul_even` on views** -/
theorem strassenAddmulEven_step_view (fuel cutoff : Nat) (rsA rsB rsC : Int) (fA fB fC : BitVec 8)
    (f fa : CLoop.MView → CLoop.MView → CLoop.MView → Int → Mem) (Hf : Sim3 cutoff f (cMulEven fuel))
    (Hfa : Sim3 cutoff fa (cAddmulEven fuel)) (m k n : Nat) (mC mA mB : Mem) :
    AgreeOn m ((n + 63) / 64)
      (Gen.C.strassenAddmulEven cutoff mC m n m k n fA fB fC mA (((k + 63) / 64 : Nat) : Int) (leftMask (k % 64))
        cCopyNew mB k (((n + 63) / 64 : Nat) : Int) (leftMask (n % 64)) (((n + 63) / 64 : Nat) : Int)
        (leftMask (n % 64)) cAddmulM4rm cCopy rsA rsB rsC cAdd f fa)
      (cAddmulEven (fuel + 1) (canon mC m n) (canon mA m k) (canon mB k n) cutoff) := by
  refine (strassenAddmulEven_rel false fuel cutoff rsA rsB rsC fA fB fC m k n mC (memOf (rawM mC m n)) mA
    (memOf (rawM mA m k)) mB (memOf (rawM mB k n)) ⟨agree_rawM mC m n, fun h => nomatch h⟩ (agree_rawM mA m k)
    (agree_rawM mB k n) f (cMulEven fuel) fa (cAddmulEven fuel) Hf.mul Hfa.addmul).1.trans ?_
  have h := strassenAddmulEven_step fuel cutoff rsA rsB rsC fA fB fC (rawM mC m n) (rawM mA m k) (rawM mB k n)
    (rawM_WF _ _ _) (rawM_WF _ _ _) (rawM_WF _ _ _) (by simp) (by simp) (by simp)
  simp only [nrows_rawM, ncols_rawM, width_rawM, hb_rawM] at h
  rw [h, cAddmulEven_nat]
  exact AgreeOn.refl _ _ _

/-- **one step of `_mzd_sqr_even` on views** -/
theorem strassenSqrEven_step_view (fuel cutoff : Nat) (rsA rsC : Int) (fA fC : BitVec 8)
    (fs : CLoop.MView → CLoop.MView → Int → Mem) (f : CLoop.MView → CLoop.MView → CLoop.MView → Int → Mem)
    (Hfs : Sim2 cutoff fs (cSqrEven fuel)) (Hf : Sim3 cutoff f (cMulEven fuel)) (m : Nat) (mC mA : Mem) :
    AgreeOn m ((m + 63) / 64)
      (Gen.C.strassenSqrEven cutoff mC m fA fC mA m (((m + 63) / 64 : Nat) : Int) (leftMask (m % 64)) cCopyNew cM4rm
        m m (((m + 63) / 64 : Nat) : Int) (leftMask (m % 64)) cCopy rsA rsC cAdd fs f (cMulNew fuel) cAddmulM4rm)
      (cSqrEven (fuel + 1) (canon mC m m) (canon mA m m) cutoff) := by
  refine (strassenSqrEven_rel false fuel cutoff rsA rsC fA fC m mC (memOf (rawM mC m m)) mA (memOf (rawM mA m m))
    ⟨agree_rawM mC m m, fun h => nomatch h⟩ (agree_rawM mA m m) fs (cSqrEven fuel) f (cMulEven fuel)
    Hfs.sqr Hf.mul).1.trans ?_
  have h := strassenSqrEven_step fuel cutoff rsA rsC fA fC (rawM mC m m) (rawM mA m m)
    (rawM_WF _ _ _) (rawM_WF _ _ _) (by simp) (by simp) (by simp)
  simp only [nrows_rawM, ncols_rawM, width_rawM, hb_rawM] at h
  rw [h, cSqrEven_nat]
  exact AgreeOn.refl _ _ _

/-- **one step of `_mzd_addsqr_even` on views** -/
theorem strassenAddsqrEven_step_view (fuel cutoff : Nat) (rsA rsC : Int) (fA fC : BitVec 8)
    (fs fas : CLoop.MView → CLoop.MView → Int → Mem)
    (f fa : CLoop.MView → CLoop.MView → CLoop.MView → Int → Mem)
    (Hfs : Sim2 cutoff fs (cSqrEven fuel)) (Hf : Sim3 cutoff f (cMulEven fuel))
    (Hfas : Sim2 cutoff fas (cAddsqrEven fuel)) (Hfa : Sim3 cutoff fa (cAddmulEven fuel)) (m : Nat) (mC mA : Mem) :
    AgreeOn m ((m + 63) / 64)
      (Gen.C.strassenAddsqrEven cutoff mC m m fA fC m (((m + 63) / 64 : Nat) : Int) (leftMask (m % 64)) cCopyNew
        mA m (((m + 63) / 64 : Nat) : Int) (leftMask (m % 64)) cAddmulM4rm cCopy rsA rsC cAdd fs f fas fa)
      (cAddsqrEven (fuel + 1) (canon mC m m) (canon mA m m) cutoff) := by
  refine (strassenAddsqrEven_rel false fuel cutoff rsA rsC fA fC m mC (memOf (rawM mC m m)) mA
    (memOf (rawM mA m m)) ⟨agree_rawM mC m m, fun h => nomatch h⟩ (agree_rawM mA m m) fs (cSqrEven fuel)
    fas (cAddsqrEven fuel) f (cMulEven fuel) fa (cAddmulEven fuel) Hfs.sqr Hf.mul Hfas.addsqr Hfa.addmul).1.trans ?_
  have h := strassenAddsqrEven_step fuel cutoff rsA rsC fA fC (rawM mC m m) (rawM mA m m)
    (rawM_WF _ _ _) (rawM_WF _ _ _) (by simp) (by simp) (by simp)
  simp only [nrows_rawM, ncols_rawM, width_rawM, hb_rawM] at h
  rw [h, cAddsqrEven_nat]
  exact AgreeOn.refl _ _ _

/-! ### 6. the mutual recursion unrolled -/

/-- what a `CLoop.MView` record does not carry and the generated functions take as separate arguments: the `flags`
    and the `rowstride` of each operand of a call at a given depth. ARBITRARY oracles: the results below hold for
    every choice (in C: windows are flagged `windowed`, the local matrices are not). -/
structure Hdr where
  flags : Nat → CLoop.MView → BitVec 8
  stride : Nat → CLoop.MView → Int

/-- the four mutually recursive routines as callees -/
structure Callees where
  mul : CLoop.MView → CLoop.MView → CLoop.MView → Int → Mem
  addmul : CLoop.MView → CLoop.MView → CLoop.MView → Int → Mem
  sqr : CLoop.MView → CLoop.MView → Int → Mem
  addsqr : CLoop.MView → CLoop.MView → Int → Mem

/-- **the mutual C recursion `_mzd_mul_even` / `_mzd_addmul_even` / `_mzd_sqr_even` / `_mzd_addsqr_even`
    unrolled `n` levels**: at depth 0 the lifts of the model at fuel 0; at depth `n + 1` the four GENERATED
    functions with their recursive-call parameters bound to the depth-`n` components
    (`_mzd_mul_even` calls itself; `_mzd_addmul_even` calls `mul`, itself; `_mzd_sqr_even` calls itself, `mul`;
    `_mzd_addsqr_even` calls `sqr`, `mul`, itself, `addmul`).
    `mzd_mul(NULL, A, B, cutoff)` (parameter `f_mzd_mul_new` of `_mzd_mul_even` and `_mzd_sqr_even`; in C it
    allocates the result and dispatches to `_mzd_mul_even` / `_mzd_sqr_even`) is NOT unrolled: it stays
    instantiated by the model's `cMulNew n`, as in the step theorems. -/
def cStrassen (hd : Hdr) : Nat → Callees
  | 0 => ⟨cMulEven 0, cAddmulEven 0, cSqrEven 0, cAddsqrEven 0⟩
  | n + 1 =>
    { mul := fun C A B c =>
        Gen.C.strassenMulEven c C.mem C.nrows C.ncols A.nrows A.ncols B.ncols (hd.flags n A) (hd.flags n B)
          (hd.flags n C) A.mem A.width A.hb cCopyNew B.mem B.nrows B.width B.hb cM4rm C.width C.hb cCopy
          (hd.stride n A) (hd.stride n B) (hd.stride n C) cAdd (cStrassen hd n).mul (cMulNew n) cAddmulM4rm
      addmul := fun C A B c =>
        Gen.C.strassenAddmulEven c C.mem C.nrows C.ncols A.nrows A.ncols B.ncols (hd.flags n A) (hd.flags n B)
          (hd.flags n C) A.mem A.width A.hb cCopyNew B.mem B.nrows B.width B.hb C.width C.hb cAddmulM4rm cCopy
          (hd.stride n A) (hd.stride n B) (hd.stride n C) cAdd (cStrassen hd n).mul (cStrassen hd n).addmul
      sqr := fun C A c =>
        Gen.C.strassenSqrEven c C.mem A.nrows (hd.flags n A) (hd.flags n C) A.mem A.ncols A.width A.hb cCopyNew
          cM4rm C.nrows C.ncols C.width C.hb cCopy (hd.stride n A) (hd.stride n C) cAdd (cStrassen hd n).sqr
          (cStrassen hd n).mul (cMulNew n) cAddmulM4rm
      addsqr := fun C A c =>
        Gen.C.strassenAddsqrEven c C.mem C.nrows A.nrows (hd.flags n A) (hd.flags n C) C.ncols C.width C.hb
          cCopyNew A.mem A.ncols A.width A.hb cAddmulM4rm cCopy (hd.stride n A) (hd.stride n C) cAdd
          (cStrassen hd n).sqr (cStrassen hd n).mul (cStrassen hd n).addsqr (cStrassen hd n).addmul }

theorem cStrassen_mul_succ (hd : Hdr) (n : Nat) (C A B : CLoop.MView) (c : Int) :
    (cStrassen hd (n + 1)).mul C A B c =
      Gen.C.strassenMulEven c C.mem C.nrows C.ncols A.nrows A.ncols B.ncols (hd.flags n A) (hd.flags n B)
        (hd.flags n C) A.mem A.width A.hb cCopyNew B.mem B.nrows B.width B.hb cM4rm C.width C.hb cCopy
        (hd.stride n A) (hd.stride n B) (hd.stride n C) cAdd (cStrassen hd n).mul (cMulNew n) cAddmulM4rm := rfl

theorem cStrassen_addmul_succ (hd : Hdr) (n : Nat) (C A B : CLoop.MView) (c : Int) :
    (cStrassen hd (n + 1)).addmul C A B c =
      Gen.C.strassenAddmulEven c C.mem C.nrows C.ncols A.nrows A.ncols B.ncols (hd.flags n A) (hd.flags n B)
        (hd.flags n C) A.mem A.width A.hb cCopyNew B.mem B.nrows B.width B.hb C.width C.hb cAddmulM4rm cCopy
        (hd.stride n A) (hd.stride n B) (hd.stride n C) cAdd (cStrassen hd n).mul (cStrassen hd n).addmul := rfl

theorem cStrassen_sqr_succ (hd : Hdr) (n : Nat) (C A : CLoop.MView) (c : Int) :
    (cStrassen hd (n + 1)).sqr C A c =
      Gen.C.strassenSqrEven c C.mem A.nrows (hd.flags n A) (hd.flags n C) A.mem A.ncols A.width A.hb cCopyNew
        cM4rm C.nrows C.ncols C.width C.hb cCopy (hd.stride n A) (hd.stride n C) cAdd (cStrassen hd n).sqr
        (cStrassen hd n).mul (cMulNew n) cAddmulM4rm := rfl

theorem cStrassen_addsqr_succ (hd : Hdr) (n : Nat) (C A : CLoop.MView) (c : Int) :
    (cStrassen hd (n + 1)).addsqr C A c =
      Gen.C.strassenAddsqrEven c C.mem C.nrows A.nrows (hd.flags n A) (hd.flags n C) C.ncols C.width C.hb
        cCopyNew A.mem A.ncols A.width A.hb cAddmulM4rm cCopy (hd.stride n A) (hd.stride n C) cAdd
        (cStrassen hd n).sqr (cStrassen hd n).mul (cStrassen hd n).addsqr (cStrassen hd n).addmul := rfl

/-- **the induction**: at every depth `n`, on canonical records of conforming shapes over ARBITRARY memories (in
    particular the window views and local matrices that the recursion creates), each of the four unrolled C
    routines agrees with the lift of the model at fuel `n` -/
theorem cStrassen_raw (hd : Hdr) (cutoff : Nat) (n : Nat) :
    Sim3 cutoff (cStrassen hd n).mul (cMulEven n) ∧ Sim3 cutoff (cStrassen hd n).addmul (cAddmulEven n) ∧
    Sim2 cutoff (cStrassen hd n).sqr (cSqrEven n) ∧ Sim2 cutoff (cStrassen hd n).addsqr (cAddsqrEven n) := by
  induction n with
  | zero =>
    exact ⟨fun _ _ _ _ _ _ => AgreeOn.refl _ _ _, fun _ _ _ _ _ _ => AgreeOn.refl _ _ _,
      fun _ _ _ => AgreeOn.refl _ _ _, fun _ _ _ => AgreeOn.refl _ _ _⟩
  | succ n ih =>
    obtain ⟨ihM, ihA, ihS, ihAS⟩ := ih
    refine ⟨fun m k nn c a b => ?_, fun m k nn c a b => ?_, fun m c a => ?_, fun m c a => ?_⟩
    · rw [cStrassen_mul_succ]
      exact strassenMulEven_step_view n cutoff _ _ _ _ _ _ _ ihM m k nn c a b
    · rw [cStrassen_addmul_succ]
      exact strassenAddmulEven_step_view n cutoff _ _ _ _ _ _ _ _ ihM ihA m k nn c a b
    · rw [cStrassen_sqr_succ]
      exact strassenSqrEven_step_view n cutoff _ _ _ _ _ _ ihS ihM m c a
    · rw [cStrassen_addsqr_succ]
      exact strassenAddsqrEven_step_view n cutoff _ _ _ _ _ _ _ _ ihS ihM ihAS ihA m c a

/-! ### 7. callee congruence as an equality (same memories) -/

/-- **callee congruence** for the generated `_mzd_mul_even`: the results are EQUAL whenever the two instances of
    the recursive-call parameter are related (agree on the written region on canonical conforming records) -/
theorem strassenMulEven_callee_congr (fuel cutoff : Nat) (rsA rsB rsC : Int) (fA fB fC : BitVec 8) (m k n : Nat)
    (mC mA mB : Mem) (f g : CLoop.MView → CLoop.MView → CLoop.MView → Int → Mem) (H : Rel3 cutoff f g) :
    Gen.C.strassenMulEven cutoff mC m n m k n fA fB fC mA (((k + 63) / 64 : Nat) : Int) (leftMask (k % 64))
        cCopyNew mB k (((n + 63) / 64 : Nat) : Int) (leftMask (n % 64)) cM4rm (((n + 63) / 64 : Nat) : Int)
        (leftMask (n % 64)) cCopy rsA rsB rsC cAdd f (cMulNew fuel) cAddmulM4rm
      = Gen.C.strassenMulEven cutoff mC m n m k n fA fB fC mA (((k + 63) / 64 : Nat) : Int) (leftMask (k % 64))
        cCopyNew mB k (((n + 63) / 64 : Nat) : Int) (leftMask (n % 64)) cM4rm (((n + 63) / 64 : Nat) : Int)
        (leftMask (n % 64)) cCopy rsA rsB rsC cAdd g (cMulNew fuel) cAddmulM4rm :=
  (strassenMulEven_rel true fuel cutoff rsA rsB rsC fA fB fC m k n mC mC mA mA mB mB (Agr.refl _ _ _ _)
    (AgreeOn.refl _ _ _) (AgreeOn.refl _ _ _) f g H).2 rfl

theorem strassenAddmulEven_callee_congr (fuel cutoff : Nat) (rsA rsB rsC : Int) (fA fB fC : BitVec 8)
    (m k n : Nat) (mC mA mB : Mem) (f g fa ga : CLoop.MView → CLoop.MView → CLoop.MView → Int → Mem)
    (H : Rel3 cutoff f g) (Ha : Rel3 cutoff fa ga) :
    Gen.C.strassenAddmulEven cutoff mC m n m k n fA fB fC mA (((k + 63) / 64 : Nat) : Int) (leftMask (k % 64))
        cCopyNew mB k (((n + 63) / 64 : Nat) : Int) (leftMask (n % 64)) (((n + 63) / 64 : Nat) : Int)
        (leftMask (n % 64)) cAddmulM4rm cCopy rsA rsB rsC cAdd f fa
      = Gen.C.strassenAddmulEven cutoff mC m n m k n fA fB fC mA (((k + 63) / 64 : Nat) : Int) (leftMask (k % 64))
        cCopyNew mB k (((n + 63) / 64 : Nat) : Int) (leftMask (n % 64)) (((n + 63) / 64 : Nat) : Int)
        (leftMask (n % 64)) cAddmulM4rm cCopy rsA rsB rsC cAdd g ga :=
  (strassenAddmulEven_rel true fuel cutoff rsA rsB rsC fA fB fC m k n mC mC mA mA mB mB (Agr.refl _ _ _ _)
    (AgreeOn.refl _ _ _) (AgreeOn.refl _ _ _) f g fa ga H Ha).2 rfl

theorem strassenSqrEven_callee_congr (fuel cutoff : Nat) (rsA rsC : Int) (fA fC : BitVec 8) (m : Nat)
    (mC mA : Mem) (fs gs : CLoop.MView → CLoop.MView → Int → Mem)
    (f g : CLoop.MView → CLoop.MView → CLoop.MView → Int → Mem) (Hs : Rel2 cutoff fs gs) (H : Rel3 cutoff f g) :
    Gen.C.strassenSqrEven cutoff mC m fA fC mA m (((m + 63) / 64 : Nat) : Int) (leftMask (m % 64)) cCopyNew cM4rm
        m m (((m + 63) / 64 : Nat) : Int) (leftMask (m % 64)) cCopy rsA rsC cAdd fs f (cMulNew fuel) cAddmulM4rm
      = Gen.C.strassenSqrEven cutoff mC m fA fC mA m (((m + 63) / 64 : Nat) : Int) (leftMask (m % 64)) cCopyNew cM4rm
        m m (((m + 63) / 64 : Nat) : Int) (leftMask (m % 64)) cCopy rsA rsC cAdd gs g (cMulNew fuel) cAddmulM4rm :=
  (strassenSqrEven_rel true fuel cutoff rsA rsC fA fC m mC mC mA mA (Agr.refl _ _ _ _) (AgreeOn.refl _ _ _)
    fs gs f g Hs H).2 rfl

theorem strassenAddsqrEven_callee_congr (fuel cutoff : Nat) (rsA rsC : Int) (fA fC : BitVec 8) (m : Nat)
    (mC mA : Mem) (fs gs fas gas : CLoop.MView → CLoop.MView → Int → Mem)
    (f g fa ga : CLoop.MView → CLoop.MView → CLoop.MView → Int → Mem)
    (Hs : Rel2 cutoff fs gs) (H : Rel3 cutoff f g) (Has : Rel2 cutoff fas gas) (Ha : Rel3 cutoff fa ga) :
    Gen.C.strassenAddsqrEven cutoff mC m m fA fC m (((m + 63) / 64 : Nat) : Int) (leftMask (m % 64)) cCopyNew
        mA m (((m + 63) / 64 : Nat) : Int) (leftMask (m % 64)) cAddmulM4rm cCopy rsA rsC cAdd fs f fas fa
      = Gen.C.strassenAddsqrEven cutoff mC m m fA fC m (((m + 63) / 64 : Nat) : Int) (leftMask (m % 64)) cCopyNew
        mA m (((m + 63) / 64 : Nat) : Int) (leftMask (m % 64)) cAddmulM4rm cCopy rsA rsC cAdd gs g gas ga :=
  (strassenAddsqrEven_rel true fuel cutoff rsA rsC fA fC m mC mC mA mA (Agr.refl _ _ _ _) (AgreeOn.refl _ _ _)
    fs gs fas gas f g fa ga Hs H Has Ha).2 rfl

/-! ### 8. every depth, on whole matrices: the products -/

theorem width_eq (M : Mzd) : M.width = (M.ncols + 63) / 64 := rfl
theorem hb_eq (M : Mzd) : M.hb = leftMask (M.ncols % 64) := rfl

/-- **`_mzd_mul_even`, the C recursion at every depth `n`, on whole matrices: `C := A·B`** (equality of the
    memories; every cutoff, every choice of flags and row strides) -/
theorem cMul_correct (hd : Hdr) (n cutoff : Nat) (C A B : Mzd) (hC : C.WF) (hA : A.WF) (hB : B.WF)
    (hk : A.ncols = B.nrows) (hr : C.nrows = A.nrows) (hc : C.ncols = B.ncols) :
    (cStrassen hd n).mul (CLoop.MView.of C) (CLoop.MView.of A) (CLoop.MView.of B) cutoff
      = memOf (C.putB (A.toB.mul B.toB)) := by
  have hE := fun fuel => (mulAllP fuel).1 cutoff (r := A.nrows) (k := A.ncols) (c := B.ncols)
    (X := C.toB) (Y := A.toB) (Z := B.toB) ⟨Mzd.WF_toB hC, hr, hc⟩ ⟨Mzd.WF_toB hA, rfl, rfl⟩
    ⟨Mzd.WF_toB hB, hk.symm, rfl⟩
  cases n with
  | zero =>
    rw [← hE 0]
    show cMulEven 0 _ _ _ (cutoff : Int) = _
    rw [cMulEven_nat]
    exact liftM3_of _ C A B hC hA hB
  | succ n =>
    rw [cStrassen_mul_succ,
      ← strassenMulEven_step_mul n cutoff (hd.stride n (CLoop.MView.of A)) (hd.stride n (CLoop.MView.of B))
        (hd.stride n (CLoop.MView.of C)) (hd.flags n (CLoop.MView.of A)) (hd.flags n (CLoop.MView.of B))
        (hd.flags n (CLoop.MView.of C)) C A B hC hA hB hk hr hc]
    have hwC : C.width = (B.ncols + 63) / 64 := by rw [width_eq, hc]
    have hbC : C.hb = leftMask (B.ncols % 64) := by rw [hb_eq, hc]
    show Gen.C.strassenMulEven cutoff (memOf C) C.nrows C.ncols A.nrows A.ncols B.ncols _ _ _ (memOf A) A.width A.hb
      cCopyNew (memOf B) B.nrows B.width B.hb cM4rm C.width C.hb cCopy _ _ _ cAdd (cStrassen hd n).mul (cMulNew n)
      cAddmulM4rm = _
    rw [hr, hc, ← hk, hwC, hbC, width_eq A, hb_eq A, width_eq B, hb_eq B]
    exact strassenMulEven_callee_congr n cutoff _ _ _ _ _ _ A.nrows A.ncols B.ncols (memOf C) (memOf A) (memOf B)
      _ _ (cStrassen_raw hd cutoff n).1.mul

/-- **`_mzd_addmul_even` at every depth: `C := C + A·B`** -/
theorem cAddmul_correct (hd : Hdr) (n cutoff : Nat) (C A B : Mzd) (hC : C.WF) (hA : A.WF) (hB : B.WF)
    (hk : A.ncols = B.nrows) (hr : C.nrows = A.nrows) (hc : C.ncols = B.ncols) :
    (cStrassen hd n).addmul (CLoop.MView.of C) (CLoop.MView.of A) (CLoop.MView.of B) cutoff
      = memOf (C.putB (C.toB.add (A.toB.mul B.toB))) := by
  have hE := fun fuel => (addAllP fuel).1 cutoff (r := A.nrows) (k := A.ncols) (c := B.ncols)
    (X := C.toB) (Y := A.toB) (Z := B.toB) ⟨Mzd.WF_toB hC, hr, hc⟩ ⟨Mzd.WF_toB hA, rfl, rfl⟩
    ⟨Mzd.WF_toB hB, hk.symm, rfl⟩
  cases n with
  | zero =>
    rw [← hE 0]
    show cAddmulEven 0 _ _ _ (cutoff : Int) = _
    rw [cAddmulEven_nat]
    exact liftM3_of _ C A B hC hA hB
  | succ n =>
    rw [cStrassen_addmul_succ,
      ← strassenAddmulEven_step_add n cutoff (hd.stride n (CLoop.MView.of A)) (hd.stride n (CLoop.MView.of B))
        (hd.stride n (CLoop.MView.of C)) (hd.flags n (CLoop.MView.of A)) (hd.flags n (CLoop.MView.of B))
        (hd.flags n (CLoop.MView.of C)) C A B hC hA hB hk hr hc]
    have hwC : C.width = (B.ncols + 63) / 64 := by rw [width_eq, hc]
    have hbC : C.hb = leftMask (B.ncols % 64) := by rw [hb_eq, hc]
    show Gen.C.strassenAddmulEven cutoff (memOf C) C.nrows C.ncols A.nrows A.ncols B.ncols _ _ _ (memOf A) A.width
      A.hb cCopyNew (memOf B) B.nrows B.width B.hb C.width C.hb cAddmulM4rm cCopy _ _ _ cAdd (cStrassen hd n).mul
      (cStrassen hd n).addmul = _
    rw [hr, hc, ← hk, hwC, hbC, width_eq A, hb_eq A, width_eq B, hb_eq B]
    exact strassenAddmulEven_callee_congr n cutoff _ _ _ _ _ _ A.nrows A.ncols B.ncols (memOf C) (memOf A)
      (memOf B) _ _ _ _ (cStrassen_raw hd cutoff n).1.mul (cStrassen_raw hd cutoff n).2.1.addmul

/-- **`_mzd_sqr_even` at every depth: `C := A·A`** -/
theorem cSqr_correct (hd : Hdr) (n cutoff : Nat) (C A : Mzd) (hC : C.WF) (hA : A.WF)
    (hsq : A.ncols = A.nrows) (hr : C.nrows = A.nrows) (hc : C.ncols = A.nrows) :
    (cStrassen hd n).sqr (CLoop.MView.of C) (CLoop.MView.of A) cutoff = memOf (C.putB (A.toB.mul A.toB)) := by
  have hE := fun fuel => (mulAllP fuel).2.1 cutoff (r := A.nrows) (X := C.toB) (Y := A.toB)
    ⟨Mzd.WF_toB hC, hr, hc⟩ ⟨Mzd.WF_toB hA, rfl, hsq⟩
  cases n with
  | zero =>
    rw [← hE 0]
    show cSqrEven 0 _ _ (cutoff : Int) = _
    rw [cSqrEven_nat]
    exact liftM3_of _ C A A hC hA hA
  | succ n =>
    rw [cStrassen_sqr_succ,
      ← strassenSqrEven_step_mul n cutoff (hd.stride n (CLoop.MView.of A)) (hd.stride n (CLoop.MView.of C))
        (hd.flags n (CLoop.MView.of A)) (hd.flags n (CLoop.MView.of C)) C A hC hA hsq hr hc]
    have hwC : C.width = (A.nrows + 63) / 64 := by rw [width_eq, hc]
    have hbC : C.hb = leftMask (A.nrows % 64) := by rw [hb_eq, hc]
    have hwA : A.width = (A.nrows + 63) / 64 := by rw [width_eq, hsq]
    have hbA : A.hb = leftMask (A.nrows % 64) := by rw [hb_eq, hsq]
    show Gen.C.strassenSqrEven cutoff (memOf C) A.nrows _ _ (memOf A) A.ncols A.width A.hb cCopyNew cM4rm C.nrows
      C.ncols C.width C.hb cCopy _ _ cAdd (cStrassen hd n).sqr (cStrassen hd n).mul (cMulNew n) cAddmulM4rm = _
    rw [hr, hc, hsq, hwC, hbC, hwA, hbA]
    exact strassenSqrEven_callee_congr n cutoff _ _ _ _ A.nrows (memOf C) (memOf A) _ _ _ _
      (cStrassen_raw hd cutoff n).2.2.1.sqr (cStrassen_raw hd cutoff n).1.mul

/-- **`_mzd_addsqr_even` at every depth: `C := C + A·A`** -/
theorem cAddsqr_correct (hd : Hdr) (n cutoff : Nat) (C A : Mzd) (hC : C.WF) (hA : A.WF)
    (hsq : A.ncols = A.nrows) (hr : C.nrows = A.nrows) (hc : C.ncols = A.nrows) :
    (cStrassen hd n).addsqr (CLoop.MView.of C) (CLoop.MView.of A) cutoff
      = memOf (C.putB (C.toB.add (A.toB.mul A.toB))) := by
  have hE := fun fuel => (addAllP fuel).2 cutoff (r := A.nrows) (X := C.toB) (Y := A.toB)
    ⟨Mzd.WF_toB hC, hr, hc⟩ ⟨Mzd.WF_toB hA, rfl, hsq⟩
  cases n with
  | zero =>
    rw [← hE 0]
    show cAddsqrEven 0 _ _ (cutoff : Int) = _
    rw [cAddsqrEven_nat]
    exact liftM3_of _ C A A hC hA hA
  | succ n =>
    rw [cStrassen_addsqr_succ,
      ← strassenAddsqrEven_step_add n cutoff (hd.stride n (CLoop.MView.of A)) (hd.stride n (CLoop.MView.of C))
        (hd.flags n (CLoop.MView.of A)) (hd.flags n (CLoop.MView.of C)) C A hC hA hsq hr hc]
    have hwC : C.width = (A.nrows + 63) / 64 := by rw [width_eq, hc]
    have hbC : C.hb = leftMask (A.nrows % 64) := by rw [hb_eq, hc]
    have hwA : A.width = (A.nrows + 63) / 64 := by rw [width_eq, hsq]
    have hbA : A.hb = leftMask (A.nrows % 64) := by rw [hb_eq, hsq]
    show Gen.C.strassenAddsqrEven cutoff (memOf C) C.nrows A.nrows _ _ C.ncols C.width C.hb cCopyNew (memOf A)
      A.ncols A.width A.hb cAddmulM4rm cCopy _ _ cAdd (cStrassen hd n).sqr (cStrassen hd n).mul
      (cStrassen hd n).addsqr (cStrassen hd n).addmul = _
    rw [hr, hc, hsq, hwC, hbC, hwA, hbA]
    exact strassenAddsqrEven_callee_congr n cutoff _ _ _ _ A.nrows (memOf C) (memOf A) _ _ _ _ _ _ _ _
      (cStrassen_raw hd cutoff n).2.2.1.sqr (cStrassen_raw hd cutoff n).1.mul
      (cStrassen_raw hd cutoff n).2.2.2.addsqr (cStrassen_raw hd cutoff n).2.1.addmul

/-! ### 9. every depth, on views of well-formed conforming matrices: the model at fuel `n` -/

/-- **every depth, on views** (`_mzd_mul_even`): for well-formed conforming `C`, `A`, `B` and memories that
    coincide with theirs on the rows and words of the matrices, the unrolled C routine agrees with the model at
    fuel `n` — hence with the product -/
theorem cMul_view (hd : Hdr) (n cutoff : Nat) (C A B : Mzd) (hC : C.WF) (hA : A.WF) (hB : B.WF)
    (hk : A.ncols = B.nrows) (hr : C.nrows = A.nrows) (hc : C.ncols = B.ncols) (mC mA mB : Mem)
    (hmC : AgreeOn C.nrows C.width mC (memOf C)) (hmA : AgreeOn A.nrows A.width mA (memOf A))
    (hmB : AgreeOn B.nrows B.width mB (memOf B)) :
    AgreeOn C.nrows C.width
        ((cStrassen hd n).mul ⟨mC, C.nrows, C.ncols, C.width, C.hb⟩ ⟨mA, A.nrows, A.ncols, A.width, A.hb⟩
          ⟨mB, B.nrows, B.ncols, B.width, B.hb⟩ cutoff)
        (memOf (C.putB (mulEven n C.toB A.toB B.toB cutoff))) ∧
      mulEven n C.toB A.toB B.toB cutoff = A.toB.mul B.toB := by
  refine ⟨?_, (mulAllP n).1 cutoff (r := A.nrows) (k := A.ncols) (c := B.ncols) ⟨Mzd.WF_toB hC, hr, hc⟩
    ⟨Mzd.WF_toB hA, rfl, rfl⟩ ⟨Mzd.WF_toB hB, hk.symm, rfl⟩⟩
  rw [← liftM3_of (fun C A B => mulEven n C A B cutoff) C A B hC hA hB]
  have hwC : C.width = (B.ncols + 63) / 64 := by rw [width_eq, hc]
  have hbC : C.hb = leftMask (B.ncols % 64) := by rw [hb_eq, hc]
  rw [hr, hwC] at hmC
  rw [← hk, width_eq B] at hmB
  rw [width_eq A] at hmA
  rw [hr, hc, ← hk, hwC, hbC, width_eq A, hb_eq A, width_eq B, hb_eq B]
  refine ((cStrassen_raw hd cutoff n).1 A.nrows A.ncols B.ncols mC mA mB).trans ?_
  rw [cMulEven_nat, liftM3_congr_nat (fun C A B => mulEven n C A B cutoff) A.nrows ((B.ncols + 63) / 64) A.nrows
    ((A.ncols + 63) / 64) A.ncols ((B.ncols + 63) / 64) _ _ _ _ _ _ _ _ _ hmC hmA hmB]
  exact AgreeOn.refl _ _ _

/-- **every depth, on views** (`_mzd_addmul_even`) -/
theorem cAddmul_view (hd : Hdr) (n cutoff : Nat) (C A B : Mzd) (hC : C.WF) (hA : A.WF) (hB : B.WF)
    (hk : A.ncols = B.nrows) (hr : C.nrows = A.nrows) (hc : C.ncols = B.ncols) (mC mA mB : Mem)
    (hmC : AgreeOn C.nrows C.width mC (memOf C)) (hmA : AgreeOn A.nrows A.width mA (memOf A))
    (hmB : AgreeOn B.nrows B.width mB (memOf B)) :
    AgreeOn C.nrows C.width
        ((cStrassen hd n).addmul ⟨mC, C.nrows, C.ncols, C.width, C.hb⟩ ⟨mA, A.nrows, A.ncols, A.width, A.hb⟩
          ⟨mB, B.nrows, B.ncols, B.width, B.hb⟩ cutoff)
        (memOf (C.putB (addmulEven n C.toB A.toB B.toB cutoff))) ∧
      addmulEven n C.toB A.toB B.toB cutoff = C.toB.add (A.toB.mul B.toB) := by
  refine ⟨?_, (addAllP n).1 cutoff (r := A.nrows) (k := A.ncols) (c := B.ncols) ⟨Mzd.WF_toB hC, hr, hc⟩
    ⟨Mzd.WF_toB hA, rfl, rfl⟩ ⟨Mzd.WF_toB hB, hk.symm, rfl⟩⟩
  rw [← liftM3_of (fun C A B => addmulEven n C A B cutoff) C A B hC hA hB]
  have hwC : C.width = (B.ncols + 63) / 64 := by rw [width_eq, hc]
  have hbC : C.hb = leftMask (B.ncols % 64) := by rw [hb_eq, hc]
  rw [hr, hwC] at hmC
  rw [← hk, width_eq B] at hmB
  rw [width_eq A] at hmA
  rw [hr, hc, ← hk, hwC, hbC, width_eq A, hb_eq A, width_eq B, hb_eq B]
  refine ((cStrassen_raw hd cutoff n).2.1 A.nrows A.ncols B.ncols mC mA mB).trans ?_
  rw [cAddmulEven_nat, liftM3_congr_nat (fun C A B => addmulEven n C A B cutoff) A.nrows ((B.ncols + 63) / 64)
    A.nrows ((A.ncols + 63) / 64) A.ncols ((B.ncols + 63) / 64) _ _ _ _ _ _ _ _ _ hmC hmA hmB]
  exact AgreeOn.refl _ _ _

/-- **every depth, on views** (`_mzd_sqr_even`) -/
theorem cSqr_view (hd : Hdr) (n cutoff : Nat) (C A : Mzd) (hC : C.WF) (hA : A.WF)
    (hsq : A.ncols = A.nrows) (hr : C.nrows = A.nrows) (hc : C.ncols = A.nrows) (mC mA : Mem)
    (hmC : AgreeOn C.nrows C.width mC (memOf C)) (hmA : AgreeOn A.nrows A.width mA (memOf A)) :
    AgreeOn C.nrows C.width
        ((cStrassen hd n).sqr ⟨mC, C.nrows, C.ncols, C.width, C.hb⟩ ⟨mA, A.nrows, A.ncols, A.width, A.hb⟩ cutoff)
        (memOf (C.putB (sqrEven n C.toB A.toB cutoff))) ∧
      sqrEven n C.toB A.toB cutoff = A.toB.mul A.toB := by
  refine ⟨?_, (mulAllP n).2.1 cutoff (r := A.nrows) ⟨Mzd.WF_toB hC, hr, hc⟩ ⟨Mzd.WF_toB hA, rfl, hsq⟩⟩
  rw [← liftM3_of (fun C A _ => sqrEven n C A cutoff) C A A hC hA hA]
  have hwC : C.width = (A.nrows + 63) / 64 := by rw [width_eq, hc]
  have hbC : C.hb = leftMask (A.nrows % 64) := by rw [hb_eq, hc]
  have hwA : A.width = (A.nrows + 63) / 64 := by rw [width_eq, hsq]
  have hbA : A.hb = leftMask (A.nrows % 64) := by rw [hb_eq, hsq]
  rw [hr, hwC] at hmC
  rw [hwA] at hmA
  rw [hr, hc, hsq, hwC, hbC, hwA, hbA]
  refine ((cStrassen_raw hd cutoff n).2.2.1 A.nrows mC mA).trans ?_
  rw [cSqrEven_nat, liftM3_congr_nat (fun C A _ => sqrEven n C A cutoff) A.nrows ((A.nrows + 63) / 64) A.nrows
    ((A.nrows + 63) / 64) A.nrows ((A.nrows + 63) / 64) _ _ _ _ _ _ _ _ _ hmC hmA hmA]
  exact AgreeOn.refl _ _ _

/-- **every depth, on views** (`_mzd_addsqr_even`) -/
theorem cAddsqr_view (hd : Hdr) (n cutoff : Nat) (C A : Mzd) (hC : C.WF) (hA : A.WF)
    (hsq : A.ncols = A.nrows) (hr : C.nrows = A.nrows) (hc : C.ncols = A.nrows) (mC mA : Mem)
    (hmC : AgreeOn C.nrows C.width mC (memOf C)) (hmA : AgreeOn A.nrows A.width mA (memOf A)) :
    AgreeOn C.nrows C.width
        ((cStrassen hd n).addsqr ⟨mC, C.nrows, C.ncols, C.width, C.hb⟩ ⟨mA, A.nrows, A.ncols, A.width, A.hb⟩
          cutoff)
        (memOf (C.putB (addsqrEven n C.toB A.toB cutoff))) ∧
      addsqrEven n C.toB A.toB cutoff = C.toB.add (A.toB.mul A.toB) := by
  refine ⟨?_, (addAllP n).2 cutoff (r := A.nrows) ⟨Mzd.WF_toB hC, hr, hc⟩ ⟨Mzd.WF_toB hA, rfl, hsq⟩⟩
  rw [← liftM3_of (fun C A _ => addsqrEven n C A cutoff) C A A hC hA hA]
  have hwC : C.width = (A.nrows + 63) / 64 := by rw [width_eq, hc]
  have hbC : C.hb = leftMask (A.nrows % 64) := by rw [hb_eq, hc]
  have hwA : A.width = (A.nrows + 63) / 64 := by rw [width_eq, hsq]
  have hbA : A.hb = leftMask (A.nrows % 64) := by rw [hb_eq, hsq]
  rw [hr, hwC] at hmC
  rw [hwA] at hmA
  rw [hr, hc, hsq, hwC, hbC, hwA, hbA]
  refine ((cStrassen_raw hd cutoff n).2.2.2 A.nrows mC mA).trans ?_
  rw [cAddsqrEven_nat, liftM3_congr_nat (fun C A _ => addsqrEven n C A cutoff) A.nrows ((A.nrows + 63) / 64)
    A.nrows ((A.nrows + 63) / 64) A.nrows ((A.nrows + 63) / 64) _ _ _ _ _ _ _ _ _ hmC hmA hmA]
  exact AgreeOn.refl _ _ _

end M4ri.GenTieClose3

#print axioms M4ri.GenTieClose3.strassenMulEven_rel
#print axioms M4ri.GenTieClose3.strassenAddmulEven_rel
#print axioms M4ri.GenTieClose3.strassenSqrEven_rel
#print axioms M4ri.GenTieClose3.strassenAddsqrEven_rel
#print axioms M4ri.GenTieClose3.cStrassen_raw
#print axioms M4ri.GenTieClose3.cMul_correct
#print axioms M4ri.GenTieClose3.cAddmul_correct
#print axioms M4ri.GenTieClose3.cSqr_correct
#print axioms M4ri.GenTieClose3.cAddsqr_correct
#print axioms M4ri.GenTieClose3.cMul_view
#print axioms M4ri.GenTieClose3.cAddmul_view
#print axioms M4ri.GenTieClose3.cSqr_view
#print axioms M4ri.GenTieClose3.cAddsqr_view
