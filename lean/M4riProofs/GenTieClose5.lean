/-
  GenTieClose5: THE CLOSED STRASSEN RECURSION OVER THE GENERATED `_mzd_add`.

  GenTieClose3 closes the mutual recursion of the four generated routines of strassen.c (`cStrassen hd n`) with the
  callee `_mzd_add` instantiated by the lifted model operation `cAdd`.  `_mzd_add` is itself generated
  (`Gen.C.mzdAdd`) and tied on whole matrices (GenTieAdd).  Here it is plugged into the recursion at every level.

  §1  `_mzd_add` on ARBITRARY memories: `combineEven_mem` (`mzd_combine_even` on one row, Duff's device, closed form
      `rowAdd`), `ceLoop_mem`, `addCore_mem` (all widths: `case 0`, the unrolled `case 1..8`, `default:`; closed form
      `addRows` of GenTieAdd), `addRows_agree` (LOCALITY: the closed form at a cell only reads that cell of the three
      memories)
  §2  `genAdd` (the generated function on three records, distinct-object flags; an operand that is the destination
      is passed by value), `genAdd_canon`, `addInto_eq_putB`, `genAdd_agree_canon` / `genAdd_agree`: on canonical
      records of one shape over arbitrary memories `genAdd` and `cAdd` agree on the rows and words of the destination
  §3  `RelA` (two instances of the `_mzd_add` parameter agree on canonical records of one shape over agreeing
      memories), `RelA.gen : RelA genAdd cAdd`; `strassen*Even_relA`: the relational congruences of GenTieClose3 with
      the `_mzd_add` parameter free on both sides (the proofs of GenTieClose3 re-run; an `_mzd_add` step that is not a
      lifted operation is discharged by `RelA`, like a recursive call)
  §4  `strassen*Even_step_viewA`   §5  `cStrassenA ad hd n`, `cStrassenG hd n := cStrassenA genAdd hd n`,
      `cStrassenA_cAdd` (`cStrassenA cAdd = cStrassen`), `cStrassenA_raw` (the induction), `cStrassenA_rel`
  §6  `c*A_eq` (whole matrices: the SAME memory as `cStrassen`), `cMulG_correct`, `cAddmulG_correct`,
      `cSqrG_correct`, `cAddsqrG_correct`   §7  `c*G_view`

  NOT done here: `mzd_copy` (`cCopy`, `cCopyNew`) stays the lifted model operation (its result is not written back
  through a window in the base case, so the congruence in the `full` mode needs the memory to be a matrix image);
  `_mzd_mul_m4rm`, `mzd_addmul_m4rm`, `mzd_mul(NULL, …)` as in GenTieClose3.  Core Lean tactics only.
-/
import M4riProofs.GenTieClose3
import M4riProofs.GenTieAdd
set_option linter.unusedVariables false
namespace M4ri.GenTieClose5
open M4ri M4ri.Gen M4ri.GenTieMem M4ri.GenTieView M4ri.BMat M4ri.GenTieAlg M4ri.GenTieStrassen
  M4ri.GenTieStrassen2 M4ri.GenTieClose M4ri.GenTieClose3 M4ri.GenTieAdd M4ri.GenTieDuff

/-! ### 1. `_mzd_add` on arbitrary memories -/

theorem combineEven_mem (mC mA mB : Mem) (mask : BitVec 64) (k : Int) (wN : Nat) :
    Gen.C.mzdCombineEven k 0 k 0 k 0 mC ((wN : Int) + 1) mA mB mask
      = rowAdd mC mA mB mask ((wN : Int) + 1) k := by
  have final : xorAt (setMem mC (fun i => mA k (i + ((0 : Int) + 0 - ((0 : Int) + 0))) ^^^
          mB k (i + ((0 : Int) + 0 - ((0 : Int) + 0)))) k ((0 : Int) + 0) wN) k ((0 : Int) + 0 + wN)
        (((mA k ((0 : Int) + 0 + wN) ^^^ mB k ((0 : Int) + 0 + wN)) ^^^
          setMem mC (fun i => mA k (i + ((0 : Int) + 0 - ((0 : Int) + 0))) ^^^
          mB k (i + ((0 : Int) + 0 - ((0 : Int) + 0)))) k ((0 : Int) + 0) wN k ((0 : Int) + 0 + wN)) &&& mask) =
      rowAdd mC mA mB mask ((wN : Int) + 1) k := by
    funext r z
    simp only [xorAt, upd2_apply, setMem, rowAdd, addWord, xor_merge_r', true_and]
    by_cases hr : r = k
    · subst hr
      by_cases hz : z = (0 : Int) + 0 + wN
      · subst hz
        ifs_omega
      · by_cases hz2 : z < 0
        · ifs_omega
        · by_cases hz3 : z < wN
          · rw [show z + ((0 : Int) + 0 - ((0 : Int) + 0)) = z by omega]
            ifs_omega
          · ifs_omega
    · ifs_omega
  have hwide : (wN : Int) + 1 - 0 - 1 = (wN : Int) := by omega
  unfold Gen.C.mzdCombineEven
  rw [hwide]
  by_cases hw0 : (wN : Int) > 0
  · have h8 := tdiv8 wN (by omega)
    have hm8 := tmod8 wN (by omega)
    duff_all [hw0] (wN : Int), (fun t => ((t.1, t.2.1, t.2.2.1, t.2.2.2.1), t.2.2.2.2)),
      (stepCE mA mB k k k),
      (mC, (0 : Int) + 0, (0 : Int) + 0, (0 : Int) + 0), wN
    all_goals
      rw [stepCE_iter] at hd
      obtain ⟨m, c, a, b, n⟩ := res
      simp only [Prod.mk.injEq] at hd
      obtain ⟨h1, h2, h3, h4⟩ := hd
      subst h1 h2 h3 h4
      exact final
  · have hw : wN = 0 := by omega
    simp (config := {iota := false}) only [hw0, decide_false, Bool.false_eq_true, reduceIte, xorAt_eq]
    dsimp only
    subst hw
    rw [setMem_zero] at final
    simpa using final


theorem ceLoop_mem (n wN : Nat) (mC mA mB : Mem) (mask : BitVec 64) :
    ceLoop (n : Int) ((wN : Int) + 1) mA mB false false mask mC = addRows mC mA mB mask ((wN : Int) + 1) n := by
  unfold ceLoop
  generalize hres : CLoop.loop _ _ _ _ = res
  have key := addRows_loop mC mA mB false false mask ((wN : Int) + 1) n hres (by omega) (fun _ => rfl) ?_
  · simpa using key
  · intro k hk
    simp only [Bool.false_eq_true, reduceIte]
    rw [combineEven_mem]

theorem addRows_w0 (m a b : Mem) (mask : BitVec 64) (n : Nat) : addRows m a b mask 0 n = m := by
  funext r z
  unfold addRows addWord
  by_cases hc : 0 ≤ r ∧ r < (n : Int) ∧ 0 ≤ z
  · rw [if_pos hc, if_neg (by omega), if_neg (by omega)]
  · rw [if_neg hc]

set_option hygiene false in
macro "addm_case" w':num : tactic =>
  `(tactic| (
    simp only [addCore, sel9, hI, Int.reduceEq, Int.reduceLE, reduceIte, decide_true, decide_false, Bool.and_true,
      Bool.and_false, Bool.false_and, Bool.true_and, Bool.false_eq_true, Bool.and_self]
    have hh := hrow $w' (by omega)
    rw [hI] at hh
    exact hh))

/-- **`_mzd_add` with distinct-object flags, in closed form on ARBITRARY memories** -/
theorem addCore_mem (mC mA mB : Mem) (mask : BitVec 64) (n aw : Nat) :
    addCore mC (n : Int) (aw : Int) mA mB false false mask = addRows mC mA mB mask (aw : Int) n := by
  have hrow : ∀ w' : Nat, w' + 1 = aw →
      rowLoop (n : Int) mA mB false false mask w' mC = addRows mC mA mB mask (aw : Int) n := by
    intro w' hw'
    rw [rowLoop_eq]
    have e : (w' : Int) + 1 = (aw : Int) := by omega
    rw [e]
    simp only [Bool.false_eq_true, reduceIte]
  rcases Nat.lt_or_ge aw 9 with h9 | h9
  · have hc : aw = 0 ∨ aw = 1 ∨ aw = 2 ∨ aw = 3 ∨ aw = 4 ∨ aw = 5 ∨ aw = 6 ∨ aw = 7 ∨ aw = 8 := by omega
    rcases hc with h | h | h | h | h | h | h | h | h
    · have hI : (aw : Int) = 0 := by omega
      simp only [addCore, sel9, hI, Int.reduceLE, reduceIte, decide_true]
      rw [addRows_w0]
    · have hI : (aw : Int) = 1 := by omega
      addm_case 0
    · have hI : (aw : Int) = 2 := by omega
      addm_case 1
    · have hI : (aw : Int) = 3 := by omega
      addm_case 2
    · have hI : (aw : Int) = 4 := by omega
      addm_case 3
    · have hI : (aw : Int) = 5 := by omega
      addm_case 4
    · have hI : (aw : Int) = 6 := by omega
      addm_case 5
    · have hI : (aw : Int) = 7 := by omega
      addm_case 6
    · have hI : (aw : Int) = 8 := by omega
      addm_case 7
  · have h0 : ¬ (aw : Int) = 0 := by omega
    have h1 : ¬ (aw : Int) = 1 := by omega
    have h2 : ¬ (aw : Int) = 2 := by omega
    have h3 : ¬ (aw : Int) = 3 := by omega
    have h4 : ¬ (aw : Int) = 4 := by omega
    have h5 : ¬ (aw : Int) = 5 := by omega
    have h6 : ¬ (aw : Int) = 6 := by omega
    have h7 : ¬ (aw : Int) = 7 := by omega
    have h8 : ¬ (aw : Int) = 8 := by omega
    simp only [addCore, sel9, h0, h1, h2, h3, h4, h5, h6, h7, h8, Int.reduceLE, reduceIte, decide_true,
      decide_false, Bool.and_true, Bool.false_eq_true, Bool.and_self]
    obtain ⟨wN, rfl⟩ : ∃ wN : Nat, aw = wN + 1 := ⟨aw - 1, by omega⟩
    have e : ((wN + 1 : Nat) : Int) = (wN : Int) + 1 := by omega
    rw [e]
    exact ceLoop_mem n wN mC mA mB mask

/-- the closed form only looks at the cell it rewrites -/
theorem addRows_agree {R W : Nat} {m m' a a' b b' : Mem} (h : AgreeOn R W m m') (ha : AgreeOn R W a a')
    (hb : AgreeOn R W b b') (mask : BitVec 64) (w : Int) (n : Nat) :
    AgreeOn R W (addRows m a b mask w n) (addRows m' a' b' mask w n) := by
  intro i k hi hk
  unfold addRows
  rw [h i k hi hk, ha i k hi hk, hb i k hi hk]


/-! ### 2. the generated `_mzd_add` as a callee -/

/-- the GENERATED `_mzd_add` on three records (distinct-object flags; an operand that IS the destination is passed
    by value: the same record) -/
def genAdd (C A B : CLoop.MView) : Mem :=
  Gen.C.mzdAdd C.mem A.nrows B.nrows C.nrows false A.width B.width A.mem B.mem false C.hb

/-- on canonical records of one shape, over ARBITRARY memories: the closed form -/
theorem genAdd_canon (mc ma mb : Mem) (r c : Nat) :
    genAdd (canon mc r c) (canon ma r c) (canon mb r c)
      = addRows mc ma mb (leftMask (c % 64)) (((c + 63) / 64 : Nat) : Int) r := by
  show Gen.C.mzdAdd mc (r : Int) (r : Int) (r : Int) false _ _ ma mb false (leftMask (c % 64)) = _
  rw [mzdAdd_noswap, nrI_nat, Nat.min_self, Nat.min_self]
  exact addCore_mem mc ma mb _ r _

/-- the model's `_mzd_add` on whole well-formed matrices of one shape is `putB` of the entry-wise sum -/
theorem addInto_eq_putB (C A B : Mzd) (hC : C.WF) (hrA : A.nrows = C.nrows) (hrB : B.nrows = C.nrows)
    (hcA : A.ncols = C.ncols) (hcB : B.ncols = C.ncols) :
    Mzd.addInto C A B = C.putB (addM A.toB B.toB) := by
  apply Mzd.eq_putB_of_bit (Mzd.addInto_WF C A B hC) hC rfl rfl
  intro i j hi hj
  rw [Mzd.addInto_bit C A B hC hrA hrB hcA i j hi hj]
  by_cases hjn : j < C.ncols
  · rw [if_pos hjn, if_pos hjn, get_addM, Mzd.get_toB_of_lt A i j (by omega), Mzd.get_toB_of_lt B i j (by omega)]
    have h1 : i < min A.toB.nrows B.toB.nrows ∧ j < A.toB.ncols := by
      simp only [Mzd.nrows_toB, Mzd.ncols_toB]; omega
    simp only [h1, decide_true, Bool.true_and, and_self]
  · rw [if_neg hjn, if_neg hjn]

/-- **the view-level tie of the generated `_mzd_add`**: on canonical records of one shape over ARBITRARY memories
    (the window views and local matrices of the Strassen routines) the generated function and the lifted model
    operation `cAdd` agree on the rows and words of the destination -/
theorem genAdd_agree_canon (mc ma mb : Mem) (r c : Nat) :
    AgreeOn r ((c + 63) / 64) (genAdd (canon mc r c) (canon ma r c) (canon mb r c))
      (cAdd (canon mc r c) (canon ma r c) (canon mb r c)) := by
  rw [genAdd_canon]
  have hC := rawM_WF mc r c
  have hA := rawM_WF ma r c
  have hB := rawM_WF mb r c
  have e : cAdd (canon mc r c) (canon ma r c) (canon mb r c)
      = memOf ((rawM mc r c).putB (addM (rawM ma r c).toB (rawM mb r c).toB)) := rfl
  rw [e, ← addInto_eq_putB _ _ _ hC (by simp) (by simp) (by simp) (by simp), addInto_eq_K,
    ← addRows_memOf _ _ _ hC (by simp) _ (by simp)]
  simp only [nrows_rawM, width_rawM, hb_rawM, Nat.min_self]
  exact addRows_agree (agree_rawM mc r c) (agree_rawM ma r c) (agree_rawM mb r c) _ _ _

/-- a record with the canonical header of an `r × c` matrix -/
structure Canon (V : CLoop.MView) (r c : Nat) : Prop where
  nr : V.nrows = (r : Int)
  nc : V.ncols = (c : Int)
  wd : V.width = (((c + 63) / 64 : Nat) : Int)
  hb : V.hb = leftMask (c % 64)

theorem Canon.eq {V : CLoop.MView} {r c : Nat} (h : Canon V r c) : V = canon V.mem r c := by
  obtain ⟨m, a, b, w, hb⟩ := V
  obtain ⟨h1, h2, h3, h4⟩ := h
  simp only at h1 h2 h3 h4
  subst h1 h2 h3 h4
  rfl

/-- **`genAdd_agree`**: for conforming records (three canonical headers of the same shape, as at every call
    site of `_mzd_add` in the Strassen routines) -/
theorem genAdd_agree (C A B : CLoop.MView) (r c : Nat) (hC : Canon C r c) (hA : Canon A r c) (hB : Canon B r c) :
    AgreeOn r ((c + 63) / 64) (genAdd C A B) (cAdd C A B) := by
  rw [hC.eq, hA.eq, hB.eq]
  exact genAdd_agree_canon _ _ _ r c


/-! ### 3. the relational congruences of GenTieClose3, with the `_mzd_add` parameter free -/

/-- two instances of the `_mzd_add` parameter agree (on the rows and words of the written operand) on canonical
    records of ONE shape over memories that agree on the regions of the records -/
def RelA (f g : CLoop.MView → CLoop.MView → CLoop.MView → Mem) : Prop :=
  ∀ (r c : Nat) (mc mc' ma ma' mb mb' : Mem), AgreeOn r ((c + 63) / 64) mc mc' → AgreeOn r ((c + 63) / 64) ma ma' →
    AgreeOn r ((c + 63) / 64) mb mb' →
    AgreeOn r ((c + 63) / 64) (f (canon mc r c) (canon ma r c) (canon mb r c))
      (g (canon mc' r c) (canon ma' r c) (canon mb' r c))

/-- the lifted model operation is related to itself -/
theorem RelA.lifted : RelA cAdd cAdd := by
  intro r c mc mc' ma ma' mb mb' hc ha hb
  unfold GenTieStrassen.cAdd
  rw [liftM3_congr_nat _ r ((c + 63) / 64) r ((c + 63) / 64) r ((c + 63) / 64) _ _ _ _ _ _ _ _ _ hc ha hb]
  exact AgreeOn.refl _ _ _

/-- **the generated `_mzd_add` is related to the lifted model operation** -/
theorem RelA.gen : RelA genAdd cAdd := fun r c mc mc' ma ma' mb mb' hc ha hb =>
  (genAdd_agree_canon mc ma mb r c).trans (RelA.lifted r c mc mc' ma ma' mb mb' hc ha hb)

/-- a local matrix written by the `_mzd_add` parameter -/
macro "tfstepA " H:term : tactic =>
  `(tactic| (
    let_both cr cr'; let_both x y
    have hx : x = y := unview_congr _ _ _ _ _ ($H _ _ _ _ _ _ _ _ (by agv) (by agv) (by agv))
    clear_value x y; subst hx; clear cr cr'))

/-- the destination written by the `_mzd_add` parameter through a window -/
macro "fstepA " H:term : tactic =>
  `(tactic| (
    let_both cr cr'; let_both x y
    have hx : Agr _ _ _ x y := Agr.unview (by assumption) _ _ ($H _ _ _ _ _ _ _ _ (by agv) (by agv) (by agv))
    clear_value x y; clear cr cr'))

macro "tstepA " H:term : tactic => `(tactic| first | tstep | tfstepA $H)
macro "cstepA " H:term : tactic => `(tactic| first | cstep | fstepA $H)

set_option maxHeartbeats 1600000 in
theorem strassenMulEven_relA (full : Bool) (fuel cutoff : Nat) (rsA rsB rsC : Int) (fA fB fC : BitVec 8) (m k n : Nat)
    (mC mC' mA mA' mB mB' : Mem) (hC : Agr full m ((n + 63) / 64) mC mC') (hA : AgreeOn m ((k + 63) / 64) mA mA')
    (hB : AgreeOn k ((n + 63) / 64) mB mB') (f g : CLoop.MView → CLoop.MView → CLoop.MView → Int → Mem)
    (H : Rel3 cutoff f g)
    (ad ad' : CLoop.MView → CLoop.MView → CLoop.MView → Mem) (Had : RelA ad ad') :
    Agr full m ((n + 63) / 64)
      (Gen.C.strassenMulEven cutoff mC m n m k n fA fB fC mA (((k + 63) / 64 : Nat) : Int) (leftMask (k % 64))
        cCopyNew mB k (((n + 63) / 64 : Nat) : Int) (leftMask (n % 64)) cM4rm (((n + 63) / 64 : Nat) : Int)
        (leftMask (n % 64)) cCopy rsA rsB rsC ad f (cMulNew fuel) cAddmulM4rm)
      (Gen.C.strassenMulEven cutoff mC' m n m k n fA fB fC mA' (((k + 63) / 64 : Nat) : Int) (leftMask (k % 64))
        cCopyNew mB' k (((n + 63) / 64 : Nat) : Int) (leftMask (n % 64)) cM4rm (((n + 63) / 64 : Nat) : Int)
        (leftMask (n % 64)) cCopy rsA rsB rsC ad' g (cMulNew fuel) cAddmulM4rm) := by
  have eA := ofView_whole hA (k : Int) (leftMask (k % 64))
  have eB := ofView_whole hB (n : Int) (leftMask (n % 64))
  have eC := ofView_whole hC.1 (n : Int) (leftMask (n % 64))
  unfold Gen.C.strassenMulEven
  both (zeta_n 6)
  by_cases h0 : m = 0 ∨ n = 0
  · have h0' : (decide ((m : Int) = 0) || decide ((n : Int) = 0)) = true := by simpa using h0
    rw [if_pos h0', if_pos h0']
    exact hC
  have h0' : ¬ (decide ((m : Int) = 0) || decide ((n : Int) = 0)) = true := by simpa using h0
  rw [if_neg h0', if_neg h0']
  simp_z [GenTie.closer_eq]
  by_cases hcl : BMat.closer m cutoff = true ∨ BMat.closer k cutoff = true ∨ BMat.closer n cutoff = true
  · have hcl' : (Gen.closer m cutoff || Gen.closer k cutoff || Gen.closer n cutoff) = true := by
      rcases hcl with h | h | h <;> simp [BMat.closer] at h <;> simp [h]
    rw [if_pos hcl', if_pos hcl']
    simp (config := {etaStruct := .none}) only [cCopyNew, cM4rm, cCopy, liftM3, eA, eB, eC]
    exact Agr.refl _ _ _ _
  · have hcl' : ¬ (Gen.closer m cutoff || Gen.closer k cutoff || Gen.closer n cutoff) = true := by
      simp [BMat.closer] at hcl; simp [hcl]
    rw [if_neg hcl', if_neg hcl']
    both (zeta_n 2)
    rw [GenTie.min3_int]
    generalize hL : (CLoop.loop 64 _ _ _ : Int × Int) = L
    have h2 : L.2 = ((strassenMult.go cutoff 64 (min (min m n) k / 2) 64 : Nat) : Int) := by
      rw [← hL]
      exact GenTie.loop_strassen cutoff _ _ (fun w m => by simp) (fun w m => by simp) 64 _ 64
    obtain ⟨w', m'⟩ := L
    simp only at h2
    subst h2
    clear hL
    dsimp_z
    zeta_small
    simp_z [GenTie.halfSplit_int]
    generalize strassenMult.go cutoff 64 (min (min m n) k / 2) 64 = mult
    have hm2 : 2 * halfSplit m mult ≤ m := two_halfSplit_le m mult
    have hk2 : 2 * halfSplit k mult ≤ k := two_halfSplit_le k mult
    have hn2 : 2 * halfSplit n mult ≤ n := two_halfSplit_le n mult
    have hm64 : halfSplit m mult % 64 = 0 := halfSplit_mod m mult
    have hk64 : halfSplit k mult % 64 = 0 := halfSplit_mod k mult
    have hn64 : halfSplit n mult % 64 = 0 := halfSplit_mod n mult
    generalize halfSplit m mult = mmm at *
    generalize halfSplit k mult = kkk at *
    generalize halfSplit n mult = nnn at *
    have eA11 := mzdInitWindow_in 0 0 (mmm : Int) (kkk : Int) (m : Int) rsA 0 (0) (mmm) (kkk) m
      (by omega) (by omega) (by omega) (by omega) rfl (by omega) (by omega) (by omega) (by omega)
    have eA12 := mzdInitWindow_in 0 (kkk : Int) (mmm : Int) (2 * (kkk : Int)) (m : Int) rsA 0 (kkk) (mmm) (2 * kkk) m
      (by omega) (by omega) (by omega) (by omega) rfl (by omega) (by omega) (by omega) (by omega)
    have eA21 := mzdInitWindow_in (mmm : Int) 0 (2 * (mmm : Int)) (kkk : Int) (m : Int) rsA mmm (0) (2 * mmm) (kkk) m
      (by omega) (by omega) (by omega) (by omega) rfl (by omega) (by omega) (by omega) (by omega)
    have eA22 := mzdInitWindow_in (mmm : Int) (kkk : Int) (2 * (mmm : Int)) (2 * (kkk : Int)) (m : Int) rsA mmm (kkk) (2 * mmm) (2 * kkk) m
      (by omega) (by omega) (by omega) (by omega) rfl (by omega) (by omega) (by omega) (by omega)
    have eB11 := mzdInitWindow_in 0 0 (kkk : Int) (nnn : Int) (k : Int) rsB 0 (0) (kkk) (nnn) k
      (by omega) (by omega) (by omega) (by omega) rfl (by omega) (by omega) (by omega) (by omega)
    have eB12 := mzdInitWindow_in 0 (nnn : Int) (kkk : Int) (2 * (nnn : Int)) (k : Int) rsB 0 (nnn) (kkk) (2 * nnn) k
      (by omega) (by omega) (by omega) (by omega) rfl (by omega) (by omega) (by omega) (by omega)
    have eB21 := mzdInitWindow_in (kkk : Int) 0 (2 * (kkk : Int)) (nnn : Int) (k : Int) rsB kkk (0) (2 * kkk) (nnn) k
      (by omega) (by omega) (by omega) (by omega) rfl (by omega) (by omega) (by omega) (by omega)
    have eB22 := mzdInitWindow_in (kkk : Int) (nnn : Int) (2 * (kkk : Int)) (2 * (nnn : Int)) (k : Int) rsB kkk (nnn) (2 * kkk) (2 * nnn) k
      (by omega) (by omega) (by omega) (by omega) rfl (by omega) (by omega) (by omega) (by omega)
    have eC11 := mzdInitWindow_in 0 0 (mmm : Int) (nnn : Int) (m : Int) rsC 0 (0) (mmm) (nnn) m
      (by omega) (by omega) (by omega) (by omega) rfl (by omega) (by omega) (by omega) (by omega)
    have eC12 := mzdInitWindow_in 0 (nnn : Int) (mmm : Int) (2 * (nnn : Int)) (m : Int) rsC 0 (nnn) (mmm) (2 * nnn) m
      (by omega) (by omega) (by omega) (by omega) rfl (by omega) (by omega) (by omega) (by omega)
    have eC21 := mzdInitWindow_in (mmm : Int) 0 (2 * (mmm : Int)) (nnn : Int) (m : Int) rsC mmm (0) (2 * mmm) (nnn) m
      (by omega) (by omega) (by omega) (by omega) rfl (by omega) (by omega) (by omega) (by omega)
    have eC22 := mzdInitWindow_in (mmm : Int) (nnn : Int) (2 * (mmm : Int)) (2 * (nnn : Int)) (m : Int) rsC mmm (nnn) (2 * mmm) (2 * nnn) m
      (by omega) (by omega) (by omega) (by omega) rfl (by omega) (by omega) (by omega) (by omega)
    -- the strips
    have eBlc := mzdInitWindow_in 0 ((nnn : Int) * 2) (k : Int) (n : Int) (k : Int) rsB
      0 (2 * nnn) k n k (by omega) (by omega) (by omega) (by omega) rfl (by omega) (by omega) (by omega) (by omega)
    have eClc := mzdInitWindow_in 0 ((nnn : Int) * 2) (m : Int) (n : Int) (m : Int) rsC
      0 (2 * nnn) m n m (by omega) (by omega) (by omega) (by omega) rfl (by omega) (by omega) (by omega) (by omega)
    have eAlr := mzdInitWindow_in ((mmm : Int) * 2) 0 (m : Int) (k : Int) (m : Int) rsA
      (2 * mmm) 0 m k m (by omega) (by omega) (by omega) (by omega) rfl (by omega) (by omega) (by omega) (by omega)
    have eBfc := mzdInitWindow_in 0 0 (k : Int) ((nnn : Int) * 2) (k : Int) rsB
      0 0 k (2 * nnn) k (by omega) (by omega) (by omega) (by omega) rfl (by omega) (by omega) (by omega) (by omega)
    have eClr := mzdInitWindow_in ((mmm : Int) * 2) 0 (m : Int) ((nnn : Int) * 2) (m : Int) rsC
      (2 * mmm) 0 m (2 * nnn) m (by omega) (by omega) (by omega) (by omega) rfl (by omega) (by omega) (by omega) (by omega)
    have eAlc := mzdInitWindow_in 0 ((kkk : Int) * 2) ((mmm : Int) * 2) (k : Int) (m : Int) rsA
      0 (2 * kkk) (2 * mmm) k m (by omega) (by omega) (by omega) (by omega) rfl (by omega) (by omega) (by omega) (by omega)
    have eBlr := mzdInitWindow_in ((kkk : Int) * 2) 0 (k : Int) ((nnn : Int) * 2) (k : Int) rsB
      (2 * kkk) 0 k (2 * nnn) k (by omega) (by omega) (by omega) (by omega) rfl (by omega) (by omega) (by omega) (by omega)
    have eCb := mzdInitWindow_in 0 0 ((mmm : Int) * 2) ((nnn : Int) * 2) (m : Int) rsC
      0 0 (2 * mmm) (2 * nnn) m (by omega) (by omega) (by omega) (by omega) rfl (by omega) (by omega) (by omega) (by omega)
    simp_z [eA11, eA12, eA21, eA22, eB11, eB12, eB21, eB22, eC11, eC12, eC21, eC22, eBlc, eClc, eAlr, eBfc, eClr,
      eAlc, eBlr, eCb]
    clear eA11 eA12 eA21 eA22 eB11 eB12 eB21 eB22 eC11 eC12 eC21 eC22 eBlc eClc eAlr eBfc eClr eAlc eBlr eCb
    simp_z [tdiv63, hbmask, cM4rm_mul, cAddmulM4rm_zero]
    simp_z [Nat.sub_zero, two_mul_sub_self]
    have vA12 := ofView_view hA (r0 := (0 : Int) + ((0 : Nat) : Int)) (w0 := (0 : Int) + ((kkk / 64 : Nat) : Int))
      (nr := (mmm : Int)) (nw := (((kkk + 63) / 64 : Nat) : Int)) (kkk : Int) (leftMask (kkk % 64))
      (by omega) (by omega) (by omega) (by omega)
    have vB21 := ofView_view hB (r0 := (0 : Int) + ((kkk : Nat) : Int)) (w0 := (0 : Int) + ((0 / 64 : Nat) : Int))
      (nr := (kkk : Int)) (nw := (((nnn + 63) / 64 : Nat) : Int)) (nnn : Int) (leftMask (nnn % 64))
      (by omega) (by omega) (by omega) (by omega)
    simp_z [cMulNew, nrows_ofView, ncols_ofView, Int.toNat_natCast, tdiv63, hbmask, vA12, vB21]
    -- the two local matrices
    zstep
    zstep
    tstepA Had; tstepA Had; fstep H; tstepA Had; tstepA Had; fstep H; tstepA Had; tstepA Had; fstep H; tstepA Had; fstep H; cstepA Had
    cstepA Had; cstepA Had; cstepA Had; tstepA Had; fstep H; cstepA Had; cstepA Had; fstep H; cstepA Had
    vstep
    sstep
    sstep
    sstep
    assumption



set_option maxHeartbeats 1600000 in
theorem strassenAddmulEven_relA (full : Bool) (fuel cutoff : Nat) (rsA rsB rsC : Int) (fA fB fC : BitVec 8) (m k n : Nat)
    (mC mC' mA mA' mB mB' : Mem) (hC : Agr full m ((n + 63) / 64) mC mC') (hA : AgreeOn m ((k + 63) / 64) mA mA')
    (hB : AgreeOn k ((n + 63) / 64) mB mB') (f g fa ga : CLoop.MView → CLoop.MView → CLoop.MView → Int → Mem)
    (H : Rel3 cutoff f g) (Ha : Rel3 cutoff fa ga)
    (ad ad' : CLoop.MView → CLoop.MView → CLoop.MView → Mem) (Had : RelA ad ad') :
    Agr full m ((n + 63) / 64)
      (Gen.C.strassenAddmulEven cutoff mC m n m k n fA fB fC mA (((k + 63) / 64 : Nat) : Int) (leftMask (k % 64))
        cCopyNew mB k (((n + 63) / 64 : Nat) : Int) (leftMask (n % 64)) (((n + 63) / 64 : Nat) : Int)
        (leftMask (n % 64)) cAddmulM4rm cCopy rsA rsB rsC ad f fa)
      (Gen.C.strassenAddmulEven cutoff mC' m n m k n fA fB fC mA' (((k + 63) / 64 : Nat) : Int) (leftMask (k % 64))
        cCopyNew mB' k (((n + 63) / 64 : Nat) : Int) (leftMask (n % 64)) (((n + 63) / 64 : Nat) : Int)
        (leftMask (n % 64)) cAddmulM4rm cCopy rsA rsB rsC ad' g ga) := by
  have eA := ofView_whole hA (k : Int) (leftMask (k % 64))
  have eB := ofView_whole hB (n : Int) (leftMask (n % 64))
  have eC := ofView_whole hC.1 (n : Int) (leftMask (n % 64))
  unfold Gen.C.strassenAddmulEven
  both (zeta_n 6)
  by_cases h0 : m = 0 ∨ n = 0
  · have h0' : (decide ((m : Int) = 0) || decide ((n : Int) = 0)) = true := by simpa using h0
    rw [if_pos h0', if_pos h0']
    exact hC
  have h0' : ¬ (decide ((m : Int) = 0) || decide ((n : Int) = 0)) = true := by simpa using h0
  rw [if_neg h0', if_neg h0']
  simp_z [GenTie.closer_eq]
  by_cases hcl : BMat.closer m cutoff = true ∨ BMat.closer k cutoff = true ∨ BMat.closer n cutoff = true
  · have hcl' : (Gen.closer m cutoff || Gen.closer k cutoff || Gen.closer n cutoff) = true := by
      rcases hcl with h | h | h <;> simp [BMat.closer] at h <;> simp [h]
    rw [if_pos hcl', if_pos hcl']
    simp (config := {etaStruct := .none}) only [cCopyNew, cAddmulM4rm, cCopy, liftM3, eA, eB, eC]
    exact Agr.refl _ _ _ _
  · have hcl' : ¬ (Gen.closer m cutoff || Gen.closer k cutoff || Gen.closer n cutoff) = true := by
      simp [BMat.closer] at hcl; simp [hcl]
    rw [if_neg hcl', if_neg hcl']
    both (zeta_n 2)
    rw [GenTie.min3_int]
    generalize hL : (CLoop.loop 64 _ _ _ : Int × Int) = L
    have h2 : L.2 = ((strassenMult.go cutoff 64 (min (min m n) k / 2) 64 : Nat) : Int) := by
      rw [← hL]
      exact GenTie.loop_strassen cutoff _ _ (fun w m => by simp) (fun w m => by simp) 64 _ 64
    obtain ⟨w', m'⟩ := L
    simp only at h2
    subst h2
    clear hL
    dsimp_z
    zeta_small
    simp_z [GenTie.halfSplit_int]
    generalize strassenMult.go cutoff 64 (min (min m n) k / 2) 64 = mult
    have hm2 : 2 * halfSplit m mult ≤ m := two_halfSplit_le m mult
    have hk2 : 2 * halfSplit k mult ≤ k := two_halfSplit_le k mult
    have hn2 : 2 * halfSplit n mult ≤ n := two_halfSplit_le n mult
    have hm64 : halfSplit m mult % 64 = 0 := halfSplit_mod m mult
    have hk64 : halfSplit k mult % 64 = 0 := halfSplit_mod k mult
    have hn64 : halfSplit n mult % 64 = 0 := halfSplit_mod n mult
    generalize halfSplit m mult = mmm at *
    generalize halfSplit k mult = kkk at *
    generalize halfSplit n mult = nnn at *
    have eA11 := mzdInitWindow_in 0 0 (mmm : Int) (kkk : Int) (m : Int) rsA 0 (0) (mmm) (kkk) m
      (by omega) (by omega) (by omega) (by omega) rfl (by omega) (by omega) (by omega) (by omega)
    have eA12 := mzdInitWindow_in 0 (kkk : Int) (mmm : Int) (2 * (kkk : Int)) (m : Int) rsA 0 (kkk) (mmm) (2 * kkk) m
      (by omega) (by omega) (by omega) (by omega) rfl (by omega) (by omega) (by omega) (by omega)
    have eA21 := mzdInitWindow_in (mmm : Int) 0 (2 * (mmm : Int)) (kkk : Int) (m : Int) rsA mmm (0) (2 * mmm) (kkk) m
      (by omega) (by omega) (by omega) (by omega) rfl (by omega) (by omega) (by omega) (by omega)
    have eA22 := mzdInitWindow_in (mmm : Int) (kkk : Int) (2 * (mmm : Int)) (2 * (kkk : Int)) (m : Int) rsA mmm (kkk) (2 * mmm) (2 * kkk) m
      (by omega) (by omega) (by omega) (by omega) rfl (by omega) (by omega) (by omega) (by omega)
    have eB11 := mzdInitWindow_in 0 0 (kkk : Int) (nnn : Int) (k : Int) rsB 0 (0) (kkk) (nnn) k
      (by omega) (by omega) (by omega) (by omega) rfl (by omega) (by omega) (by omega) (by omega)
    have eB12 := mzdInitWindow_in 0 (nnn : Int) (kkk : Int) (2 * (nnn : Int)) (k : Int) rsB 0 (nnn) (kkk) (2 * nnn) k
      (by omega) (by omega) (by omega) (by omega) rfl (by omega) (by omega) (by omega) (by omega)
    have eB21 := mzdInitWindow_in (kkk : Int) 0 (2 * (kkk : Int)) (nnn : Int) (k : Int) rsB kkk (0) (2 * kkk) (nnn) k
      (by omega) (by omega) (by omega) (by omega) rfl (by omega) (by omega) (by omega) (by omega)
    have eB22 := mzdInitWindow_in (kkk : Int) (nnn : Int) (2 * (kkk : Int)) (2 * (nnn : Int)) (k : Int) rsB kkk (nnn) (2 * kkk) (2 * nnn) k
      (by omega) (by omega) (by omega) (by omega) rfl (by omega) (by omega) (by omega) (by omega)
    have eC11 := mzdInitWindow_in 0 0 (mmm : Int) (nnn : Int) (m : Int) rsC 0 (0) (mmm) (nnn) m
      (by omega) (by omega) (by omega) (by omega) rfl (by omega) (by omega) (by omega) (by omega)
    have eC12 := mzdInitWindow_in 0 (nnn : Int) (mmm : Int) (2 * (nnn : Int)) (m : Int) rsC 0 (nnn) (mmm) (2 * nnn) m
      (by omega) (by omega) (by omega) (by omega) rfl (by omega) (by omega) (by omega) (by omega)
    have eC21 := mzdInitWindow_in (mmm : Int) 0 (2 * (mmm : Int)) (nnn : Int) (m : Int) rsC mmm (0) (2 * mmm) (nnn) m
      (by omega) (by omega) (by omega) (by omega) rfl (by omega) (by omega) (by omega) (by omega)
    have eC22 := mzdInitWindow_in (mmm : Int) (nnn : Int) (2 * (mmm : Int)) (2 * (nnn : Int)) (m : Int) rsC mmm (nnn) (2 * mmm) (2 * nnn) m
      (by omega) (by omega) (by omega) (by omega) rfl (by omega) (by omega) (by omega) (by omega)
    -- the strips
    have eBlc := mzdInitWindow_in 0 ((nnn : Int) * 2) (k : Int) (n : Int) (k : Int) rsB
      0 (2 * nnn) k n k (by omega) (by omega) (by omega) (by omega) rfl (by omega) (by omega) (by omega) (by omega)
    have eClc := mzdInitWindow_in 0 ((nnn : Int) * 2) (m : Int) (n : Int) (m : Int) rsC
      0 (2 * nnn) m n m (by omega) (by omega) (by omega) (by omega) rfl (by omega) (by omega) (by omega) (by omega)
    have eAlr := mzdInitWindow_in ((mmm : Int) * 2) 0 (m : Int) (k : Int) (m : Int) rsA
      (2 * mmm) 0 m k m (by omega) (by omega) (by omega) (by omega) rfl (by omega) (by omega) (by omega) (by omega)
    have eBfc := mzdInitWindow_in 0 0 (k : Int) ((nnn : Int) * 2) (k : Int) rsB
      0 0 k (2 * nnn) k (by omega) (by omega) (by omega) (by omega) rfl (by omega) (by omega) (by omega) (by omega)
    have eClr := mzdInitWindow_in ((mmm : Int) * 2) 0 (m : Int) ((nnn : Int) * 2) (m : Int) rsC
      (2 * mmm) 0 m (2 * nnn) m (by omega) (by omega) (by omega) (by omega) rfl (by omega) (by omega) (by omega) (by omega)
    have eAlc := mzdInitWindow_in 0 ((kkk : Int) * 2) ((mmm : Int) * 2) (k : Int) (m : Int) rsA
      0 (2 * kkk) (2 * mmm) k m (by omega) (by omega) (by omega) (by omega) rfl (by omega) (by omega) (by omega) (by omega)
    have eBlr := mzdInitWindow_in ((kkk : Int) * 2) 0 (k : Int) ((nnn : Int) * 2) (k : Int) rsB
      (2 * kkk) 0 k (2 * nnn) k (by omega) (by omega) (by omega) (by omega) rfl (by omega) (by omega) (by omega) (by omega)
    have eCb := mzdInitWindow_in 0 0 ((mmm : Int) * 2) ((nnn : Int) * 2) (m : Int) rsC
      0 0 (2 * mmm) (2 * nnn) m (by omega) (by omega) (by omega) (by omega) rfl (by omega) (by omega) (by omega) (by omega)
    simp_z [eA11, eA12, eA21, eA22, eB11, eB12, eB21, eB22, eC11, eC12, eC21, eC22, eBlc, eClc, eAlr, eBfc, eClr,
      eAlc, eBlr, eCb]
    clear eA11 eA12 eA21 eA22 eB11 eB12 eB21 eB22 eC11 eC12 eC21 eC22 eBlc eClc eAlr eBfc eClr eAlc eBlr eCb
    simp_z [tdiv63, hbmask, cM4rm_mul, cAddmulM4rm_zero]
    simp_z [Nat.sub_zero, two_mul_sub_self]
    -- the three local matrices
    zstep
    zstep
    zstep
    tstepA Had; tstepA Had; tfstep H; cstepA Had; cstepA Had; tfstep H; cstepA Had; fstep Ha; tstepA Had; tstepA Had; tfstep Ha; cstepA Had; tstepA Had
    fstep Ha; tstepA Had; fstep Ha; tstepA Had; tstepA Had; tfstep Ha; cstepA Had; cstepA Had
    vstep
    sstep
    sstep
    sstep
    assumption




set_option maxHeartbeats 1600000 in
theorem strassenSqrEven_relA (full : Bool) (fuel cutoff : Nat) (rsA rsC : Int) (fA fC : BitVec 8) (m : Nat)
    (mC mC' mA mA' : Mem) (hC : Agr full m ((m + 63) / 64) mC mC') (hA : AgreeOn m ((m + 63) / 64) mA mA')
    (fs gs : CLoop.MView → CLoop.MView → Int → Mem) (f g : CLoop.MView → CLoop.MView → CLoop.MView → Int → Mem)
    (Hs : Rel2 cutoff fs gs) (H : Rel3 cutoff f g)
    (ad ad' : CLoop.MView → CLoop.MView → CLoop.MView → Mem) (Had : RelA ad ad') :
    Agr full m ((m + 63) / 64)
      (Gen.C.strassenSqrEven cutoff mC m fA fC mA m (((m + 63) / 64 : Nat) : Int) (leftMask (m % 64)) cCopyNew cM4rm
        m m (((m + 63) / 64 : Nat) : Int) (leftMask (m % 64)) cCopy rsA rsC ad fs f (cMulNew fuel) cAddmulM4rm)
      (Gen.C.strassenSqrEven cutoff mC' m fA fC mA' m (((m + 63) / 64 : Nat) : Int) (leftMask (m % 64)) cCopyNew cM4rm
        m m (((m + 63) / 64 : Nat) : Int) (leftMask (m % 64)) cCopy rsA rsC ad' gs g (cMulNew fuel) cAddmulM4rm) := by
  have eA := ofView_whole hA (m : Int) (leftMask (m % 64))
  have eC := ofView_whole hC.1 (m : Int) (leftMask (m % 64))
  unfold Gen.C.strassenSqrEven
  both (zeta_n 2)
  simp_z [GenTie.closer_eq]
  by_cases hcl : BMat.closer m cutoff = true
  · have hcl' : Gen.closer m cutoff = true := by simpa [BMat.closer] using hcl
    rw [if_pos hcl', if_pos hcl']
    simp (config := {etaStruct := .none}) only [cCopyNew, cM4rm, cCopy, liftM3, eA, eC]
    exact Agr.refl _ _ _ _
  · have hcl' : ¬ Gen.closer m cutoff = true := by simpa [BMat.closer] using hcl
    rw [if_neg hcl', if_neg hcl']
    gen_let v_mmm as vm hvm
    have hvm' : vm = ((halfSplit m (strassenMult (m / 2) cutoff) : Nat) : Int) := by
      rw [← hvm]
      exact GenTie.sqrEvenSplit_eq m cutoff
    clear hvm
    subst hvm'
    apply Agr.symm
    gen_let v_mmm as vm hvm
    have hvm' : vm = ((halfSplit m (strassenMult (m / 2) cutoff) : Nat) : Int) := by
      rw [← hvm]
      exact GenTie.sqrEvenSplit_eq m cutoff
    clear hvm
    subst hvm'
    apply Agr.symm
    zeta_small
    generalize strassenMult (m / 2) cutoff = mult
    have hm2 : 2 * halfSplit m mult ≤ m := two_halfSplit_le m mult
    have hm64 : halfSplit m mult % 64 = 0 := halfSplit_mod m mult
    generalize halfSplit m mult = mmm at *
    have eA11 := mzdInitWindow_in 0 0 (mmm : Int) (mmm : Int) (m : Int) rsA 0 0 mmm mmm m
      (by omega) (by omega) (by omega) (by omega) rfl (by omega) (by omega) (by omega) (by omega)
    have eA12 := mzdInitWindow_in 0 (mmm : Int) (mmm : Int) (2 * (mmm : Int)) (m : Int) rsA 0 mmm mmm (2 * mmm) m
      (by omega) (by omega) (by omega) (by omega) rfl (by omega) (by omega) (by omega) (by omega)
    have eA21 := mzdInitWindow_in (mmm : Int) 0 (2 * (mmm : Int)) (mmm : Int) (m : Int) rsA mmm 0 (2 * mmm) mmm m
      (by omega) (by omega) (by omega) (by omega) rfl (by omega) (by omega) (by omega) (by omega)
    have eA22 := mzdInitWindow_in (mmm : Int) (mmm : Int) (2 * (mmm : Int)) (2 * (mmm : Int)) (m : Int) rsA mmm mmm (2 * mmm) (2 * mmm) m
      (by omega) (by omega) (by omega) (by omega) rfl (by omega) (by omega) (by omega) (by omega)
    have eC11 := mzdInitWindow_in 0 0 (mmm : Int) (mmm : Int) (m : Int) rsC 0 0 mmm mmm m
      (by omega) (by omega) (by omega) (by omega) rfl (by omega) (by omega) (by omega) (by omega)
    have eC12 := mzdInitWindow_in 0 (mmm : Int) (mmm : Int) (2 * (mmm : Int)) (m : Int) rsC 0 mmm mmm (2 * mmm) m
      (by omega) (by omega) (by omega) (by omega) rfl (by omega) (by omega) (by omega) (by omega)
    have eC21 := mzdInitWindow_in (mmm : Int) 0 (2 * (mmm : Int)) (mmm : Int) (m : Int) rsC mmm 0 (2 * mmm) mmm m
      (by omega) (by omega) (by omega) (by omega) rfl (by omega) (by omega) (by omega) (by omega)
    have eC22 := mzdInitWindow_in (mmm : Int) (mmm : Int) (2 * (mmm : Int)) (2 * (mmm : Int)) (m : Int) rsC mmm mmm (2 * mmm) (2 * mmm) m
      (by omega) (by omega) (by omega) (by omega) rfl (by omega) (by omega) (by omega) (by omega)
    have eAlc := mzdInitWindow_in 0 ((mmm : Int) * 2) (m : Int) (m : Int) (m : Int) rsA 0 (2 * mmm) m m m
      (by omega) (by omega) (by omega) (by omega) rfl (by omega) (by omega) (by omega) (by omega)
    have eClc := mzdInitWindow_in 0 ((mmm : Int) * 2) (m : Int) (m : Int) (m : Int) rsC 0 (2 * mmm) m m m
      (by omega) (by omega) (by omega) (by omega) rfl (by omega) (by omega) (by omega) (by omega)
    have eAlr := mzdInitWindow_in ((mmm : Int) * 2) 0 (m : Int) (m : Int) (m : Int) rsA (2 * mmm) 0 m m m
      (by omega) (by omega) (by omega) (by omega) rfl (by omega) (by omega) (by omega) (by omega)
    have eAfc := mzdInitWindow_in 0 0 (m : Int) ((mmm : Int) * 2) (m : Int) rsA 0 0 m (2 * mmm) m
      (by omega) (by omega) (by omega) (by omega) rfl (by omega) (by omega) (by omega) (by omega)
    have eClr := mzdInitWindow_in ((mmm : Int) * 2) 0 (m : Int) ((mmm : Int) * 2) (m : Int) rsC (2 * mmm) 0 m (2 * mmm) m
      (by omega) (by omega) (by omega) (by omega) rfl (by omega) (by omega) (by omega) (by omega)
    have eAlc3 := mzdInitWindow_in 0 ((mmm : Int) * 2) ((mmm : Int) * 2) (m : Int) (m : Int) rsA 0 (2 * mmm) (2 * mmm) m m
      (by omega) (by omega) (by omega) (by omega) rfl (by omega) (by omega) (by omega) (by omega)
    have eAlr3 := mzdInitWindow_in ((mmm : Int) * 2) 0 (m : Int) ((mmm : Int) * 2) (m : Int) rsA (2 * mmm) 0 m (2 * mmm) m
      (by omega) (by omega) (by omega) (by omega) rfl (by omega) (by omega) (by omega) (by omega)
    have eCb := mzdInitWindow_in 0 0 ((mmm : Int) * 2) ((mmm : Int) * 2) (m : Int) rsC 0 0 (2 * mmm) (2 * mmm) m
      (by omega) (by omega) (by omega) (by omega) rfl (by omega) (by omega) (by omega) (by omega)
    simp_z [eA11, eA12, eA21, eA22, eC11, eC12, eC21, eC22, eAlc, eClc, eAlr, eAfc, eClr, eAlc3, eAlr3, eCb]
    clear eA11 eA12 eA21 eA22 eC11 eC12 eC21 eC22 eAlc eClc eAlr eAfc eClr eAlc3 eAlr3 eCb
    simp_z [tdiv63, hbmask, cM4rm_mul, cAddmulM4rm_zero]
    simp_z [Nat.sub_zero, two_mul_sub_self]
    have vA12 := ofView_view hA (r0 := (0 : Int) + ((0 : Nat) : Int)) (w0 := (0 : Int) + ((mmm / 64 : Nat) : Int))
      (nr := (mmm : Int)) (nw := (((mmm + 63) / 64 : Nat) : Int)) (mmm : Int) (leftMask (mmm % 64))
      (by omega) (by omega) (by omega) (by omega)
    have vA21 := ofView_view hA (r0 := (0 : Int) + ((mmm : Nat) : Int)) (w0 := (0 : Int) + ((0 / 64 : Nat) : Int))
      (nr := (mmm : Int)) (nw := (((mmm + 63) / 64 : Nat) : Int)) (mmm : Int) (leftMask (mmm % 64))
      (by omega) (by omega) (by omega) (by omega)
    simp_z [cMulNew, nrows_ofView, ncols_ofView, Int.toNat_natCast, tdiv63, hbmask, vA12, vA21]
    zstep
    tstepA Had; fstep2 Hs; tstepA Had; fstep2 Hs; tstepA Had; fstep2 Hs; tstepA Had; fstep H; cstepA Had
    cstepA Had; cstepA Had; cstepA Had; fstep H; cstepA Had; cstepA Had; fstep2 Hs; cstepA Had
    vstep
    sstep3
    assumption



set_option maxHeartbeats 1600000 in
theorem strassenAddsqrEven_relA (full : Bool) (fuel cutoff : Nat) (rsA rsC : Int) (fA fC : BitVec 8) (m : Nat)
    (mC mC' mA mA' : Mem) (hC : Agr full m ((m + 63) / 64) mC mC') (hA : AgreeOn m ((m + 63) / 64) mA mA')
    (fs gs fas gas : CLoop.MView → CLoop.MView → Int → Mem)
    (f g fa ga : CLoop.MView → CLoop.MView → CLoop.MView → Int → Mem)
    (Hs : Rel2 cutoff fs gs) (H : Rel3 cutoff f g) (Has : Rel2 cutoff fas gas) (Ha : Rel3 cutoff fa ga)
    (ad ad' : CLoop.MView → CLoop.MView → CLoop.MView → Mem) (Had : RelA ad ad') :
    Agr full m ((m + 63) / 64)
      (Gen.C.strassenAddsqrEven cutoff mC m m fA fC m (((m + 63) / 64 : Nat) : Int) (leftMask (m % 64)) cCopyNew
        mA m (((m + 63) / 64 : Nat) : Int) (leftMask (m % 64)) cAddmulM4rm cCopy rsA rsC ad fs f fas fa)
      (Gen.C.strassenAddsqrEven cutoff mC' m m fA fC m (((m + 63) / 64 : Nat) : Int) (leftMask (m % 64)) cCopyNew
        mA' m (((m + 63) / 64 : Nat) : Int) (leftMask (m % 64)) cAddmulM4rm cCopy rsA rsC ad' gs g gas ga) := by
  have eA := ofView_whole hA (m : Int) (leftMask (m % 64))
  have eC := ofView_whole hC.1 (m : Int) (leftMask (m % 64))
  unfold Gen.C.strassenAddsqrEven
  by_cases h0 : m = 0
  · have h0' : decide ((m : Int) = 0) = true := by simpa using h0
    rw [if_pos h0', if_pos h0']
    exact hC
  have h0' : ¬ decide ((m : Int) = 0) = true := by simpa using h0
  rw [if_neg h0', if_neg h0']
  both (zeta_n 1)
  simp_z [GenTie.closer_eq]
  by_cases hcl : BMat.closer m cutoff = true
  · have hcl' : Gen.closer m cutoff = true := by simpa [BMat.closer] using hcl
    rw [if_pos hcl', if_pos hcl']
    simp (config := {etaStruct := .none}) only [cCopyNew, cAddmulM4rm, cCopy, liftM3, eA, eC]
    exact Agr.refl _ _ _ _
  · have hcl' : ¬ Gen.closer m cutoff = true := by simpa [BMat.closer] using hcl
    rw [if_neg hcl', if_neg hcl']
    gen_let v_mmm as vm hvm
    have hvm' : vm = ((halfSplit m (strassenMult (m / 2) cutoff) : Nat) : Int) := by
      rw [← hvm]
      exact GenTie.addsqrEvenSplit_eq m cutoff
    clear hvm
    subst hvm'
    apply Agr.symm
    gen_let v_mmm as vm hvm
    have hvm' : vm = ((halfSplit m (strassenMult (m / 2) cutoff) : Nat) : Int) := by
      rw [← hvm]
      exact GenTie.addsqrEvenSplit_eq m cutoff
    clear hvm
    subst hvm'
    apply Agr.symm
    zeta_small
    generalize strassenMult (m / 2) cutoff = mult
    have hm2 : 2 * halfSplit m mult ≤ m := two_halfSplit_le m mult
    have hm64 : halfSplit m mult % 64 = 0 := halfSplit_mod m mult
    generalize halfSplit m mult = mmm at *
    have eA11 := mzdInitWindow_in 0 0 (mmm : Int) (mmm : Int) (m : Int) rsA 0 0 mmm mmm m
      (by omega) (by omega) (by omega) (by omega) rfl (by omega) (by omega) (by omega) (by omega)
    have eA12 := mzdInitWindow_in 0 (mmm : Int) (mmm : Int) (2 * (mmm : Int)) (m : Int) rsA 0 mmm mmm (2 * mmm) m
      (by omega) (by omega) (by omega) (by omega) rfl (by omega) (by omega) (by omega) (by omega)
    have eA21 := mzdInitWindow_in (mmm : Int) 0 (2 * (mmm : Int)) (mmm : Int) (m : Int) rsA mmm 0 (2 * mmm) mmm m
      (by omega) (by omega) (by omega) (by omega) rfl (by omega) (by omega) (by omega) (by omega)
    have eA22 := mzdInitWindow_in (mmm : Int) (mmm : Int) (2 * (mmm : Int)) (2 * (mmm : Int)) (m : Int) rsA mmm mmm (2 * mmm) (2 * mmm) m
      (by omega) (by omega) (by omega) (by omega) rfl (by omega) (by omega) (by omega) (by omega)
    have eC11 := mzdInitWindow_in 0 0 (mmm : Int) (mmm : Int) (m : Int) rsC 0 0 mmm mmm m
      (by omega) (by omega) (by omega) (by omega) rfl (by omega) (by omega) (by omega) (by omega)
    have eC12 := mzdInitWindow_in 0 (mmm : Int) (mmm : Int) (2 * (mmm : Int)) (m : Int) rsC 0 mmm mmm (2 * mmm) m
      (by omega) (by omega) (by omega) (by omega) rfl (by omega) (by omega) (by omega) (by omega)
    have eC21 := mzdInitWindow_in (mmm : Int) 0 (2 * (mmm : Int)) (mmm : Int) (m : Int) rsC mmm 0 (2 * mmm) mmm m
      (by omega) (by omega) (by omega) (by omega) rfl (by omega) (by omega) (by omega) (by omega)
    have eC22 := mzdInitWindow_in (mmm : Int) (mmm : Int) (2 * (mmm : Int)) (2 * (mmm : Int)) (m : Int) rsC mmm mmm (2 * mmm) (2 * mmm) m
      (by omega) (by omega) (by omega) (by omega) rfl (by omega) (by omega) (by omega) (by omega)
    have eAlc := mzdInitWindow_in 0 ((mmm : Int) * 2) (m : Int) (m : Int) (m : Int) rsA 0 (2 * mmm) m m m
      (by omega) (by omega) (by omega) (by omega) rfl (by omega) (by omega) (by omega) (by omega)
    have eClc := mzdInitWindow_in 0 ((mmm : Int) * 2) (m : Int) (m : Int) (m : Int) rsC 0 (2 * mmm) m m m
      (by omega) (by omega) (by omega) (by omega) rfl (by omega) (by omega) (by omega) (by omega)
    have eAlr := mzdInitWindow_in ((mmm : Int) * 2) 0 (m : Int) (m : Int) (m : Int) rsA (2 * mmm) 0 m m m
      (by omega) (by omega) (by omega) (by omega) rfl (by omega) (by omega) (by omega) (by omega)
    have eAfc := mzdInitWindow_in 0 0 (m : Int) ((mmm : Int) * 2) (m : Int) rsA 0 0 m (2 * mmm) m
      (by omega) (by omega) (by omega) (by omega) rfl (by omega) (by omega) (by omega) (by omega)
    have eClr := mzdInitWindow_in ((mmm : Int) * 2) 0 (m : Int) ((mmm : Int) * 2) (m : Int) rsC (2 * mmm) 0 m (2 * mmm) m
      (by omega) (by omega) (by omega) (by omega) rfl (by omega) (by omega) (by omega) (by omega)
    have eAlc3 := mzdInitWindow_in 0 ((mmm : Int) * 2) ((mmm : Int) * 2) (m : Int) (m : Int) rsA 0 (2 * mmm) (2 * mmm) m m
      (by omega) (by omega) (by omega) (by omega) rfl (by omega) (by omega) (by omega) (by omega)
    have eAlr3 := mzdInitWindow_in ((mmm : Int) * 2) 0 (m : Int) ((mmm : Int) * 2) (m : Int) rsA (2 * mmm) 0 m (2 * mmm) m
      (by omega) (by omega) (by omega) (by omega) rfl (by omega) (by omega) (by omega) (by omega)
    have eCb := mzdInitWindow_in 0 0 ((mmm : Int) * 2) ((mmm : Int) * 2) (m : Int) rsC 0 0 (2 * mmm) (2 * mmm) m
      (by omega) (by omega) (by omega) (by omega) rfl (by omega) (by omega) (by omega) (by omega)
    simp_z [eA11, eA12, eA21, eA22, eC11, eC12, eC21, eC22, eAlc, eClc, eAlr, eAfc, eClr, eAlc3, eAlr3, eCb]
    clear eA11 eA12 eA21 eA22 eC11 eC12 eC21 eC22 eAlc eClc eAlr eAfc eClr eAlc3 eAlr3 eCb
    simp_z [tdiv63, hbmask, cM4rm_mul, cAddmulM4rm_zero]
    simp_z [Nat.sub_zero, two_mul_sub_self]
    zstep
    zstep
    tstepA Had; tfstep2 Hs; cstepA Had; cstepA Had; tfstep H; cstepA Had; fstep2 Has; tstepA Had; tfstep2 Has; cstepA Had; tstepA Had
    fstep Ha; fstep Ha; tstepA Had; tfstep2 Has; cstepA Had; cstepA Had
    vstep
    sstep3
    assumption

/-! ### 4. one step on views: any `_mzd_add` related to `cAdd`, any agreeing recursive callees -/

theorem strassenMulEven_step_viewA (fuel cutoff : Nat) (rsA rsB rsC : Int) (fA fB fC : BitVec 8)
    (ad : CLoop.MView → CLoop.MView → CLoop.MView → Mem) (Had : RelA ad cAdd)
    (f : CLoop.MView → CLoop.MView → CLoop.MView → Int → Mem) (Hf : Sim3 cutoff f (cMulEven fuel))
    (m k n : Nat) (mC mA mB : Mem) :
    AgreeOn m ((n + 63) / 64)
      (Gen.C.strassenMulEven cutoff mC m n m k n fA fB fC mA (((k + 63) / 64 : Nat) : Int) (leftMask (k % 64))
        cCopyNew mB k (((n + 63) / 64 : Nat) : Int) (leftMask (n % 64)) cM4rm (((n + 63) / 64 : Nat) : Int)
        (leftMask (n % 64)) cCopy rsA rsB rsC ad f (cMulNew fuel) cAddmulM4rm)
      (cMulEven (fuel + 1) (canon mC m n) (canon mA m k) (canon mB k n) cutoff) :=
  (strassenMulEven_relA false fuel cutoff rsA rsB rsC fA fB fC m k n mC mC mA mA mB mB (Agr.refl _ _ _ _)
    (AgreeOn.refl _ _ _) (AgreeOn.refl _ _ _) f (cMulEven fuel) Hf.mul ad cAdd Had).1.trans
  (strassenMulEven_step_view fuel cutoff rsA rsB rsC fA fB fC (cMulEven fuel)
    (fun _ _ _ _ _ _ => AgreeOn.refl _ _ _) m k n mC mA mB)

theorem strassenAddmulEven_step_viewA (fuel cutoff : Nat) (rsA rsB rsC : Int) (fA fB fC : BitVec 8)
    (ad : CLoop.MView → CLoop.MView → CLoop.MView → Mem) (Had : RelA ad cAdd)
    (f fa : CLoop.MView → CLoop.MView → CLoop.MView → Int → Mem) (Hf : Sim3 cutoff f (cMulEven fuel))
    (Hfa : Sim3 cutoff fa (cAddmulEven fuel)) (m k n : Nat) (mC mA mB : Mem) :
    AgreeOn m ((n + 63) / 64)
      (Gen.C.strassenAddmulEven cutoff mC m n m k n fA fB fC mA (((k + 63) / 64 : Nat) : Int) (leftMask (k % 64))
        cCopyNew mB k (((n + 63) / 64 : Nat) : Int) (leftMask (n % 64)) (((n + 63) / 64 : Nat) : Int)
        (leftMask (n % 64)) cAddmulM4rm cCopy rsA rsB rsC ad f fa)
      (cAddmulEven (fuel + 1) (canon mC m n) (canon mA m k) (canon mB k n) cutoff) :=
  (strassenAddmulEven_relA false fuel cutoff rsA rsB rsC fA fB fC m k n mC mC mA mA mB mB (Agr.refl _ _ _ _)
    (AgreeOn.refl _ _ _) (AgreeOn.refl _ _ _) f (cMulEven fuel) fa (cAddmulEven fuel) Hf.mul Hfa.addmul
    ad cAdd Had).1.trans
  (strassenAddmulEven_step_view fuel cutoff rsA rsB rsC fA fB fC (cMulEven fuel) (cAddmulEven fuel)
    (fun _ _ _ _ _ _ => AgreeOn.refl _ _ _) (fun _ _ _ _ _ _ => AgreeOn.refl _ _ _) m k n mC mA mB)

theorem strassenSqrEven_step_viewA (fuel cutoff : Nat) (rsA rsC : Int) (fA fC : BitVec 8)
    (ad : CLoop.MView → CLoop.MView → CLoop.MView → Mem) (Had : RelA ad cAdd)
    (fs : CLoop.MView → CLoop.MView → Int → Mem) (f : CLoop.MView → CLoop.MView → CLoop.MView → Int → Mem)
    (Hfs : Sim2 cutoff fs (cSqrEven fuel)) (Hf : Sim3 cutoff f (cMulEven fuel)) (m : Nat) (mC mA : Mem) :
    AgreeOn m ((m + 63) / 64)
      (Gen.C.strassenSqrEven cutoff mC m fA fC mA m (((m + 63) / 64 : Nat) : Int) (leftMask (m % 64)) cCopyNew cM4rm
        m m (((m + 63) / 64 : Nat) : Int) (leftMask (m % 64)) cCopy rsA rsC ad fs f (cMulNew fuel) cAddmulM4rm)
      (cSqrEven (fuel + 1) (canon mC m m) (canon mA m m) cutoff) :=
  (strassenSqrEven_relA false fuel cutoff rsA rsC fA fC m mC mC mA mA (Agr.refl _ _ _ _) (AgreeOn.refl _ _ _)
    fs (cSqrEven fuel) f (cMulEven fuel) Hfs.sqr Hf.mul ad cAdd Had).1.trans
  (strassenSqrEven_step_view fuel cutoff rsA rsC fA fC (cSqrEven fuel) (cMulEven fuel)
    (fun _ _ _ => AgreeOn.refl _ _ _) (fun _ _ _ _ _ _ => AgreeOn.refl _ _ _) m mC mA)

theorem strassenAddsqrEven_step_viewA (fuel cutoff : Nat) (rsA rsC : Int) (fA fC : BitVec 8)
    (ad : CLoop.MView → CLoop.MView → CLoop.MView → Mem) (Had : RelA ad cAdd)
    (fs fas : CLoop.MView → CLoop.MView → Int → Mem)
    (f fa : CLoop.MView → CLoop.MView → CLoop.MView → Int → Mem)
    (Hfs : Sim2 cutoff fs (cSqrEven fuel)) (Hf : Sim3 cutoff f (cMulEven fuel))
    (Hfas : Sim2 cutoff fas (cAddsqrEven fuel)) (Hfa : Sim3 cutoff fa (cAddmulEven fuel)) (m : Nat) (mC mA : Mem) :
    AgreeOn m ((m + 63) / 64)
      (Gen.C.strassenAddsqrEven cutoff mC m m fA fC m (((m + 63) / 64 : Nat) : Int) (leftMask (m % 64)) cCopyNew
        mA m (((m + 63) / 64 : Nat) : Int) (leftMask (m % 64)) cAddmulM4rm cCopy rsA rsC ad fs f fas fa)
      (cAddsqrEven (fuel + 1) (canon mC m m) (canon mA m m) cutoff) :=
  (strassenAddsqrEven_relA false fuel cutoff rsA rsC fA fC m mC mC mA mA (Agr.refl _ _ _ _) (AgreeOn.refl _ _ _)
    fs (cSqrEven fuel) fas (cAddsqrEven fuel) f (cMulEven fuel) fa (cAddmulEven fuel) Hfs.sqr Hf.mul Hfas.addsqr
    Hfa.addmul ad cAdd Had).1.trans
  (strassenAddsqrEven_step_view fuel cutoff rsA rsC fA fC (cSqrEven fuel) (cAddsqrEven fuel) (cMulEven fuel)
    (cAddmulEven fuel) (fun _ _ _ => AgreeOn.refl _ _ _) (fun _ _ _ _ _ _ => AgreeOn.refl _ _ _)
    (fun _ _ _ => AgreeOn.refl _ _ _) (fun _ _ _ _ _ _ => AgreeOn.refl _ _ _) m mC mA)

/-! ### 5. the mutual recursion unrolled over an arbitrary `_mzd_add` -/

/-- `cStrassen` of GenTieClose3 with the `_mzd_add` parameter of the four generated routines bound to `ad` at EVERY
    level (everything else as there) -/
def cStrassenA (ad : CLoop.MView → CLoop.MView → CLoop.MView → Mem) (hd : Hdr) : Nat → Callees
  | 0 => ⟨cMulEven 0, cAddmulEven 0, cSqrEven 0, cAddsqrEven 0⟩
  | n + 1 =>
    { mul := fun C A B c =>
        Gen.C.strassenMulEven c C.mem C.nrows C.ncols A.nrows A.ncols B.ncols (hd.flags n A) (hd.flags n B)
          (hd.flags n C) A.mem A.width A.hb cCopyNew B.mem B.nrows B.width B.hb cM4rm C.width C.hb cCopy
          (hd.stride n A) (hd.stride n B) (hd.stride n C) ad (cStrassenA ad hd n).mul (cMulNew n) cAddmulM4rm
      addmul := fun C A B c =>
        Gen.C.strassenAddmulEven c C.mem C.nrows C.ncols A.nrows A.ncols B.ncols (hd.flags n A) (hd.flags n B)
          (hd.flags n C) A.mem A.width A.hb cCopyNew B.mem B.nrows B.width B.hb C.width C.hb cAddmulM4rm cCopy
          (hd.stride n A) (hd.stride n B) (hd.stride n C) ad (cStrassenA ad hd n).mul (cStrassenA ad hd n).addmul
      sqr := fun C A c =>
        Gen.C.strassenSqrEven c C.mem A.nrows (hd.flags n A) (hd.flags n C) A.mem A.ncols A.width A.hb cCopyNew
          cM4rm C.nrows C.ncols C.width C.hb cCopy (hd.stride n A) (hd.stride n C) ad (cStrassenA ad hd n).sqr
          (cStrassenA ad hd n).mul (cMulNew n) cAddmulM4rm
      addsqr := fun C A c =>
        Gen.C.strassenAddsqrEven c C.mem C.nrows A.nrows (hd.flags n A) (hd.flags n C) C.ncols C.width C.hb
          cCopyNew A.mem A.ncols A.width A.hb cAddmulM4rm cCopy (hd.stride n A) (hd.stride n C) ad
          (cStrassenA ad hd n).sqr (cStrassenA ad hd n).mul (cStrassenA ad hd n).addsqr (cStrassenA ad hd n).addmul }

/-- **the mutual C recursion of strassen.c over the GENERATED `_mzd_add`** -/
def cStrassenG (hd : Hdr) (n : Nat) : Callees := cStrassenA genAdd hd n

/-- with the lifted model operation it is `cStrassen` of GenTieClose3 -/
theorem cStrassenA_cAdd (hd : Hdr) (n : Nat) : cStrassenA cAdd hd n = cStrassen hd n := by
  induction n with
  | zero => rfl
  | succ n ih =>
    show Callees.mk _ _ _ _ = Callees.mk _ _ _ _
    simp only [ih]

theorem cStrassenA_mul_succ (ad : CLoop.MView → CLoop.MView → CLoop.MView → Mem) (hd : Hdr) (n : Nat)
    (C A B : CLoop.MView) (c : Int) :
    (cStrassenA ad hd (n + 1)).mul C A B c =
      Gen.C.strassenMulEven c C.mem C.nrows C.ncols A.nrows A.ncols B.ncols (hd.flags n A) (hd.flags n B)
        (hd.flags n C) A.mem A.width A.hb cCopyNew B.mem B.nrows B.width B.hb cM4rm C.width C.hb cCopy
        (hd.stride n A) (hd.stride n B) (hd.stride n C) ad (cStrassenA ad hd n).mul (cMulNew n) cAddmulM4rm := rfl

theorem cStrassenA_addmul_succ (ad : CLoop.MView → CLoop.MView → CLoop.MView → Mem) (hd : Hdr) (n : Nat)
    (C A B : CLoop.MView) (c : Int) :
    (cStrassenA ad hd (n + 1)).addmul C A B c =
      Gen.C.strassenAddmulEven c C.mem C.nrows C.ncols A.nrows A.ncols B.ncols (hd.flags n A) (hd.flags n B)
        (hd.flags n C) A.mem A.width A.hb cCopyNew B.mem B.nrows B.width B.hb C.width C.hb cAddmulM4rm cCopy
        (hd.stride n A) (hd.stride n B) (hd.stride n C) ad (cStrassenA ad hd n).mul (cStrassenA ad hd n).addmul :=
  rfl

theorem cStrassenA_sqr_succ (ad : CLoop.MView → CLoop.MView → CLoop.MView → Mem) (hd : Hdr) (n : Nat)
    (C A : CLoop.MView) (c : Int) :
    (cStrassenA ad hd (n + 1)).sqr C A c =
      Gen.C.strassenSqrEven c C.mem A.nrows (hd.flags n A) (hd.flags n C) A.mem A.ncols A.width A.hb cCopyNew
        cM4rm C.nrows C.ncols C.width C.hb cCopy (hd.stride n A) (hd.stride n C) ad (cStrassenA ad hd n).sqr
        (cStrassenA ad hd n).mul (cMulNew n) cAddmulM4rm := rfl

theorem cStrassenA_addsqr_succ (ad : CLoop.MView → CLoop.MView → CLoop.MView → Mem) (hd : Hdr) (n : Nat)
    (C A : CLoop.MView) (c : Int) :
    (cStrassenA ad hd (n + 1)).addsqr C A c =
      Gen.C.strassenAddsqrEven c C.mem C.nrows A.nrows (hd.flags n A) (hd.flags n C) C.ncols C.width C.hb
        cCopyNew A.mem A.ncols A.width A.hb cAddmulM4rm cCopy (hd.stride n A) (hd.stride n C) ad
        (cStrassenA ad hd n).sqr (cStrassenA ad hd n).mul (cStrassenA ad hd n).addsqr
        (cStrassenA ad hd n).addmul := rfl

/-- **the induction**: at every depth, on canonical records of conforming shapes over ARBITRARY memories, each of the
    four unrolled routines over `ad` agrees with the lift of the model at fuel `n` -/
theorem cStrassenA_raw (ad : CLoop.MView → CLoop.MView → CLoop.MView → Mem) (Had : RelA ad cAdd) (hd : Hdr)
    (cutoff : Nat) (n : Nat) :
    Sim3 cutoff (cStrassenA ad hd n).mul (cMulEven n) ∧ Sim3 cutoff (cStrassenA ad hd n).addmul (cAddmulEven n) ∧
    Sim2 cutoff (cStrassenA ad hd n).sqr (cSqrEven n) ∧ Sim2 cutoff (cStrassenA ad hd n).addsqr (cAddsqrEven n) := by
  induction n with
  | zero =>
    exact ⟨fun _ _ _ _ _ _ => AgreeOn.refl _ _ _, fun _ _ _ _ _ _ => AgreeOn.refl _ _ _,
      fun _ _ _ => AgreeOn.refl _ _ _, fun _ _ _ => AgreeOn.refl _ _ _⟩
  | succ n ih =>
    obtain ⟨ihM, ihA, ihS, ihAS⟩ := ih
    refine ⟨fun m k nn c a b => ?_, fun m k nn c a b => ?_, fun m c a => ?_, fun m c a => ?_⟩
    · rw [cStrassenA_mul_succ]
      exact strassenMulEven_step_viewA n cutoff _ _ _ _ _ _ ad Had _ ihM m k nn c a b
    · rw [cStrassenA_addmul_succ]
      exact strassenAddmulEven_step_viewA n cutoff _ _ _ _ _ _ ad Had _ _ ihM ihA m k nn c a b
    · rw [cStrassenA_sqr_succ]
      exact strassenSqrEven_step_viewA n cutoff _ _ _ _ ad Had _ _ ihS ihM m c a
    · rw [cStrassenA_addsqr_succ]
      exact strassenAddsqrEven_step_viewA n cutoff _ _ _ _ ad Had _ _ _ _ ihS ihM ihAS ihA m c a

/-- every component of the recursion over `ad` is related (`Rel3` / `Rel2`) to the component of `cStrassen` -/
theorem cStrassenA_rel (ad : CLoop.MView → CLoop.MView → CLoop.MView → Mem) (Had : RelA ad cAdd) (hd : Hdr)
    (cutoff : Nat) (n : Nat) :
    Rel3 cutoff (cStrassenA ad hd n).mul (cStrassen hd n).mul ∧
    Rel3 cutoff (cStrassenA ad hd n).addmul (cStrassen hd n).addmul ∧
    Rel2 cutoff (cStrassenA ad hd n).sqr (cStrassen hd n).sqr ∧
    Rel2 cutoff (cStrassenA ad hd n).addsqr (cStrassen hd n).addsqr := by
  obtain ⟨a1, a2, a3, a4⟩ := cStrassenA_raw ad Had hd cutoff n
  obtain ⟨b1, b2, b3, b4⟩ := cStrassen_raw hd cutoff n
  exact ⟨fun m k nn c c' a a' b b' hc ha hb => (a1.mul m k nn c c' a a' b b' hc ha hb).trans (b1 m k nn c' a' b').symm,
    fun m k nn c c' a a' b b' hc ha hb => (a2.addmul m k nn c c' a a' b b' hc ha hb).trans (b2 m k nn c' a' b').symm,
    fun m c c' a a' hc ha => (a3.sqr m c c' a a' hc ha).trans (b3 m c' a').symm,
    fun m c c' a a' hc ha => (a4.addsqr m c c' a a' hc ha).trans (b4 m c' a').symm⟩


/-! ### 6. every depth, on whole matrices: the products (transfer of `c*_correct`) -/

/-- **`_mzd_mul_even` over any `_mzd_add` related to `cAdd`, every depth, whole matrices: the SAME memory as the
    recursion of GenTieClose3** -/
theorem cMulA_eq (ad : CLoop.MView → CLoop.MView → CLoop.MView → Mem) (Had : RelA ad cAdd) (hd : Hdr)
    (n cutoff : Nat) (C A B : Mzd) (hC : C.WF) (hA : A.WF) (hB : B.WF)
    (hk : A.ncols = B.nrows) (hr : C.nrows = A.nrows) (hc : C.ncols = B.ncols) :
    (cStrassenA ad hd n).mul (CLoop.MView.of C) (CLoop.MView.of A) (CLoop.MView.of B) cutoff
      = (cStrassen hd n).mul (CLoop.MView.of C) (CLoop.MView.of A) (CLoop.MView.of B) cutoff := by
  cases n with
  | zero => rfl
  | succ n =>
    rw [cStrassenA_mul_succ, cStrassen_mul_succ]
    have hwC : C.width = (B.ncols + 63) / 64 := by rw [width_eq, hc]
    have hbC : C.hb = leftMask (B.ncols % 64) := by rw [hb_eq, hc]
    show Gen.C.strassenMulEven cutoff (memOf C) C.nrows C.ncols A.nrows A.ncols B.ncols _ _ _ (memOf A) A.width A.hb
      cCopyNew (memOf B) B.nrows B.width B.hb cM4rm C.width C.hb cCopy _ _ _ ad (cStrassenA ad hd n).mul (cMulNew n)
      cAddmulM4rm
      = Gen.C.strassenMulEven cutoff (memOf C) C.nrows C.ncols A.nrows A.ncols B.ncols _ _ _ (memOf A) A.width A.hb
      cCopyNew (memOf B) B.nrows B.width B.hb cM4rm C.width C.hb cCopy _ _ _ cAdd (cStrassen hd n).mul (cMulNew n)
      cAddmulM4rm
    rw [hr, hc, ← hk, hwC, hbC, width_eq A, hb_eq A, width_eq B, hb_eq B]
    exact (strassenMulEven_relA true n cutoff _ _ _ _ _ _ A.nrows A.ncols B.ncols (memOf C) (memOf C) (memOf A)
      (memOf A) (memOf B) (memOf B) (Agr.refl _ _ _ _) (AgreeOn.refl _ _ _) (AgreeOn.refl _ _ _) _ _
      (cStrassenA_rel ad Had hd cutoff n).1 ad cAdd Had).2 rfl

theorem cAddmulA_eq (ad : CLoop.MView → CLoop.MView → CLoop.MView → Mem) (Had : RelA ad cAdd) (hd : Hdr)
    (n cutoff : Nat) (C A B : Mzd) (hC : C.WF) (hA : A.WF) (hB : B.WF)
    (hk : A.ncols = B.nrows) (hr : C.nrows = A.nrows) (hc : C.ncols = B.ncols) :
    (cStrassenA ad hd n).addmul (CLoop.MView.of C) (CLoop.MView.of A) (CLoop.MView.of B) cutoff
      = (cStrassen hd n).addmul (CLoop.MView.of C) (CLoop.MView.of A) (CLoop.MView.of B) cutoff := by
  cases n with
  | zero => rfl
  | succ n =>
    rw [cStrassenA_addmul_succ, cStrassen_addmul_succ]
    have hwC : C.width = (B.ncols + 63) / 64 := by rw [width_eq, hc]
    have hbC : C.hb = leftMask (B.ncols % 64) := by rw [hb_eq, hc]
    show Gen.C.strassenAddmulEven cutoff (memOf C) C.nrows C.ncols A.nrows A.ncols B.ncols _ _ _ (memOf A) A.width
      A.hb cCopyNew (memOf B) B.nrows B.width B.hb C.width C.hb cAddmulM4rm cCopy _ _ _ ad (cStrassenA ad hd n).mul
      (cStrassenA ad hd n).addmul
      = Gen.C.strassenAddmulEven cutoff (memOf C) C.nrows C.ncols A.nrows A.ncols B.ncols _ _ _ (memOf A) A.width
      A.hb cCopyNew (memOf B) B.nrows B.width B.hb C.width C.hb cAddmulM4rm cCopy _ _ _ cAdd (cStrassen hd n).mul
      (cStrassen hd n).addmul
    rw [hr, hc, ← hk, hwC, hbC, width_eq A, hb_eq A, width_eq B, hb_eq B]
    exact (strassenAddmulEven_relA true n cutoff _ _ _ _ _ _ A.nrows A.ncols B.ncols (memOf C) (memOf C) (memOf A)
      (memOf A) (memOf B) (memOf B) (Agr.refl _ _ _ _) (AgreeOn.refl _ _ _) (AgreeOn.refl _ _ _) _ _ _ _
      (cStrassenA_rel ad Had hd cutoff n).1 (cStrassenA_rel ad Had hd cutoff n).2.1 ad cAdd Had).2 rfl

theorem cSqrA_eq (ad : CLoop.MView → CLoop.MView → CLoop.MView → Mem) (Had : RelA ad cAdd) (hd : Hdr)
    (n cutoff : Nat) (C A : Mzd) (hC : C.WF) (hA : A.WF)
    (hsq : A.ncols = A.nrows) (hr : C.nrows = A.nrows) (hc : C.ncols = A.nrows) :
    (cStrassenA ad hd n).sqr (CLoop.MView.of C) (CLoop.MView.of A) cutoff
      = (cStrassen hd n).sqr (CLoop.MView.of C) (CLoop.MView.of A) cutoff := by
  cases n with
  | zero => rfl
  | succ n =>
    rw [cStrassenA_sqr_succ, cStrassen_sqr_succ]
    have hwC : C.width = (A.nrows + 63) / 64 := by rw [width_eq, hc]
    have hbC : C.hb = leftMask (A.nrows % 64) := by rw [hb_eq, hc]
    have hwA : A.width = (A.nrows + 63) / 64 := by rw [width_eq, hsq]
    have hbA : A.hb = leftMask (A.nrows % 64) := by rw [hb_eq, hsq]
    show Gen.C.strassenSqrEven cutoff (memOf C) A.nrows _ _ (memOf A) A.ncols A.width A.hb cCopyNew cM4rm C.nrows
      C.ncols C.width C.hb cCopy _ _ ad (cStrassenA ad hd n).sqr (cStrassenA ad hd n).mul (cMulNew n) cAddmulM4rm
      = Gen.C.strassenSqrEven cutoff (memOf C) A.nrows _ _ (memOf A) A.ncols A.width A.hb cCopyNew cM4rm C.nrows
      C.ncols C.width C.hb cCopy _ _ cAdd (cStrassen hd n).sqr (cStrassen hd n).mul (cMulNew n) cAddmulM4rm
    rw [hr, hc, hsq, hwC, hbC, hwA, hbA]
    exact (strassenSqrEven_relA true n cutoff _ _ _ _ A.nrows (memOf C) (memOf C) (memOf A) (memOf A)
      (Agr.refl _ _ _ _) (AgreeOn.refl _ _ _) _ _ _ _ (cStrassenA_rel ad Had hd cutoff n).2.2.1
      (cStrassenA_rel ad Had hd cutoff n).1 ad cAdd Had).2 rfl

theorem cAddsqrA_eq (ad : CLoop.MView → CLoop.MView → CLoop.MView → Mem) (Had : RelA ad cAdd) (hd : Hdr)
    (n cutoff : Nat) (C A : Mzd) (hC : C.WF) (hA : A.WF)
    (hsq : A.ncols = A.nrows) (hr : C.nrows = A.nrows) (hc : C.ncols = A.nrows) :
    (cStrassenA ad hd n).addsqr (CLoop.MView.of C) (CLoop.MView.of A) cutoff
      = (cStrassen hd n).addsqr (CLoop.MView.of C) (CLoop.MView.of A) cutoff := by
  cases n with
  | zero => rfl
  | succ n =>
    rw [cStrassenA_addsqr_succ, cStrassen_addsqr_succ]
    have hwC : C.width = (A.nrows + 63) / 64 := by rw [width_eq, hc]
    have hbC : C.hb = leftMask (A.nrows % 64) := by rw [hb_eq, hc]
    have hwA : A.width = (A.nrows + 63) / 64 := by rw [width_eq, hsq]
    have hbA : A.hb = leftMask (A.nrows % 64) := by rw [hb_eq, hsq]
    show Gen.C.strassenAddsqrEven cutoff (memOf C) C.nrows A.nrows _ _ C.ncols C.width C.hb cCopyNew (memOf A)
      A.ncols A.width A.hb cAddmulM4rm cCopy _ _ ad (cStrassenA ad hd n).sqr (cStrassenA ad hd n).mul
      (cStrassenA ad hd n).addsqr (cStrassenA ad hd n).addmul
      = Gen.C.strassenAddsqrEven cutoff (memOf C) C.nrows A.nrows _ _ C.ncols C.width C.hb cCopyNew (memOf A)
      A.ncols A.width A.hb cAddmulM4rm cCopy _ _ cAdd (cStrassen hd n).sqr (cStrassen hd n).mul
      (cStrassen hd n).addsqr (cStrassen hd n).addmul
    rw [hr, hc, hsq, hwC, hbC, hwA, hbA]
    exact (strassenAddsqrEven_relA true n cutoff _ _ _ _ A.nrows (memOf C) (memOf C) (memOf A) (memOf A)
      (Agr.refl _ _ _ _) (AgreeOn.refl _ _ _) _ _ _ _ _ _ _ _ (cStrassenA_rel ad Had hd cutoff n).2.2.1
      (cStrassenA_rel ad Had hd cutoff n).1 (cStrassenA_rel ad Had hd cutoff n).2.2.2
      (cStrassenA_rel ad Had hd cutoff n).2.1 ad cAdd Had).2 rfl

/-- **`_mzd_mul_even` OVER THE GENERATED `_mzd_add`, the C recursion at every depth `n`, on whole matrices:
    `C := A·B`** (equality of the memories; every cutoff, every choice of flags and row strides) -/
theorem cMulG_correct (hd : Hdr) (n cutoff : Nat) (C A B : Mzd) (hC : C.WF) (hA : A.WF) (hB : B.WF)
    (hk : A.ncols = B.nrows) (hr : C.nrows = A.nrows) (hc : C.ncols = B.ncols) :
    (cStrassenG hd n).mul (CLoop.MView.of C) (CLoop.MView.of A) (CLoop.MView.of B) cutoff
      = memOf (C.putB (A.toB.mul B.toB)) :=
  (cMulA_eq genAdd RelA.gen hd n cutoff C A B hC hA hB hk hr hc).trans
    (cMul_correct hd n cutoff C A B hC hA hB hk hr hc)

/-- **`_mzd_addmul_even` over the generated `_mzd_add`, every depth: `C := C + A·B`** -/
theorem cAddmulG_correct (hd : Hdr) (n cutoff : Nat) (C A B : Mzd) (hC : C.WF) (hA : A.WF) (hB : B.WF)
    (hk : A.ncols = B.nrows) (hr : C.nrows = A.nrows) (hc : C.ncols = B.ncols) :
    (cStrassenG hd n).addmul (CLoop.MView.of C) (CLoop.MView.of A) (CLoop.MView.of B) cutoff
      = memOf (C.putB (C.toB.add (A.toB.mul B.toB))) :=
  (cAddmulA_eq genAdd RelA.gen hd n cutoff C A B hC hA hB hk hr hc).trans
    (cAddmul_correct hd n cutoff C A B hC hA hB hk hr hc)

/-- **`_mzd_sqr_even` over the generated `_mzd_add`, every depth: `C := A·A`** -/
theorem cSqrG_correct (hd : Hdr) (n cutoff : Nat) (C A : Mzd) (hC : C.WF) (hA : A.WF)
    (hsq : A.ncols = A.nrows) (hr : C.nrows = A.nrows) (hc : C.ncols = A.nrows) :
    (cStrassenG hd n).sqr (CLoop.MView.of C) (CLoop.MView.of A) cutoff = memOf (C.putB (A.toB.mul A.toB)) :=
  (cSqrA_eq genAdd RelA.gen hd n cutoff C A hC hA hsq hr hc).trans (cSqr_correct hd n cutoff C A hC hA hsq hr hc)

/-- **`_mzd_addsqr_even` over the generated `_mzd_add`, every depth: `C := C + A·A`** -/
theorem cAddsqrG_correct (hd : Hdr) (n cutoff : Nat) (C A : Mzd) (hC : C.WF) (hA : A.WF)
    (hsq : A.ncols = A.nrows) (hr : C.nrows = A.nrows) (hc : C.ncols = A.nrows) :
    (cStrassenG hd n).addsqr (CLoop.MView.of C) (CLoop.MView.of A) cutoff
      = memOf (C.putB (C.toB.add (A.toB.mul A.toB))) :=
  (cAddsqrA_eq genAdd RelA.gen hd n cutoff C A hC hA hsq hr hc).trans
    (cAddsqr_correct hd n cutoff C A hC hA hsq hr hc)


/-! ### 7. every depth, on views of well-formed conforming matrices: the model at fuel `n` -/

/-- **every depth, on views** (`_mzd_mul_even`): for well-formed conforming `C`, `A`, `B` and memories that
    coincide with theirs on the rows and words of the matrices, the unrolled C routine over the generated `_mzd_add` agrees with the model at
    fuel `n` — hence with the product -/
theorem cMulG_view (hd : Hdr) (n cutoff : Nat) (C A B : Mzd) (hC : C.WF) (hA : A.WF) (hB : B.WF)
    (hk : A.ncols = B.nrows) (hr : C.nrows = A.nrows) (hc : C.ncols = B.ncols) (mC mA mB : Mem)
    (hmC : AgreeOn C.nrows C.width mC (memOf C)) (hmA : AgreeOn A.nrows A.width mA (memOf A))
    (hmB : AgreeOn B.nrows B.width mB (memOf B)) :
    AgreeOn C.nrows C.width
        ((cStrassenG hd n).mul ⟨mC, C.nrows, C.ncols, C.width, C.hb⟩ ⟨mA, A.nrows, A.ncols, A.width, A.hb⟩
          ⟨mB, B.nrows, B.ncols, B.width, B.hb⟩ cutoff)
        (memOf (C.putB (mulEven n C.toB A.toB B.toB cutoff))) ∧
      mulEven n C.toB A.toB B.toB cutoff = A.toB.mul B.toB := by
  refine ⟨?_, (mulAllP n).1 cutoff (r := A.nrows) (k := A.ncols) (c := B.ncols) ⟨Mzd.WF_toB hC, hr, hc⟩
    ⟨Mzd.WF_toB hA, rfl, rfl⟩ ⟨Mzd.WF_toB hB, hk.symm, rfl⟩⟩
  rw [← liftM3_of (fun C A B => mulEven n C A B cutoff) C A B hC hA hB]
  have hwC : C.width = (B.ncols + 63) / 64 := by rw [width_eq, hc]
  have hbC : C.hb = leftMask (B.ncols % 64) := by rw [hb_eq, hc]
  rw [hr, hwC] at hmC
  rw [← hk, width_eq B] at hmB
  rw [width_eq A] at hmA
  rw [hr, hc, ← hk, hwC, hbC, width_eq A, hb_eq A, width_eq B, hb_eq B]
  refine ((cStrassenA_raw genAdd RelA.gen hd cutoff n).1 A.nrows A.ncols B.ncols mC mA mB).trans ?_
  rw [cMulEven_nat, liftM3_congr_nat (fun C A B => mulEven n C A B cutoff) A.nrows ((B.ncols + 63) / 64) A.nrows
    ((A.ncols + 63) / 64) A.ncols ((B.ncols + 63) / 64) _ _ _ _ _ _ _ _ _ hmC hmA hmB]
  exact AgreeOn.refl _ _ _

/-- **every depth, on views** (`_mzd_addmul_even`) -/
theorem cAddmulG_view (hd : Hdr) (n cutoff : Nat) (C A B : Mzd) (hC : C.WF) (hA : A.WF) (hB : B.WF)
    (hk : A.ncols = B.nrows) (hr : C.nrows = A.nrows) (hc : C.ncols = B.ncols) (mC mA mB : Mem)
    (hmC : AgreeOn C.nrows C.width mC (memOf C)) (hmA : AgreeOn A.nrows A.width mA (memOf A))
    (hmB : AgreeOn B.nrows B.width mB (memOf B)) :
    AgreeOn C.nrows C.width
        ((cStrassenG hd n).addmul ⟨mC, C.nrows, C.ncols, C.width, C.hb⟩ ⟨mA, A.nrows, A.ncols, A.width, A.hb⟩
          ⟨mB, B.nrows, B.ncols, B.width, B.hb⟩ cutoff)
        (memOf (C.putB (addmulEven n C.toB A.toB B.toB cutoff))) ∧
      addmulEven n C.toB A.toB B.toB cutoff = C.toB.add (A.toB.mul B.toB) := by
  refine ⟨?_, (addAllP n).1 cutoff (r := A.nrows) (k := A.ncols) (c := B.ncols) ⟨Mzd.WF_toB hC, hr, hc⟩
    ⟨Mzd.WF_toB hA, rfl, rfl⟩ ⟨Mzd.WF_toB hB, hk.symm, rfl⟩⟩
  rw [← liftM3_of (fun C A B => addmulEven n C A B cutoff) C A B hC hA hB]
  have hwC : C.width = (B.ncols + 63) / 64 := by rw [width_eq, hc]
  have hbC : C.hb = leftMask (B.ncols % 64) := by rw [hb_eq, hc]
  rw [hr, hwC] at hmC
  rw [← hk, width_eq B] at hmB
  rw [width_eq A] at hmA
  rw [hr, hc, ← hk, hwC, hbC, width_eq A, hb_eq A, width_eq B, hb_eq B]
  refine ((cStrassenA_raw genAdd RelA.gen hd cutoff n).2.1 A.nrows A.ncols B.ncols mC mA mB).trans ?_
  rw [cAddmulEven_nat, liftM3_congr_nat (fun C A B => addmulEven n C A B cutoff) A.nrows ((B.ncols + 63) / 64)
    A.nrows ((A.ncols + 63) / 64) A.ncols ((B.ncols + 63) / 64) _ _ _ _ _ _ _ _ _ hmC hmA hmB]
  exact AgreeOn.refl _ _ _

/-- **every depth, on views** (`_mzd_sqr_even`) -/
theorem cSqrG_view (hd : Hdr) (n cutoff : Nat) (C A : Mzd) (hC : C.WF) (hA : A.WF)
    (hsq : A.ncols = A.nrows) (hr : C.nrows = A.nrows) (hc : C.ncols = A.nrows) (mC mA : Mem)
    (hmC : AgreeOn C.nrows C.width mC (memOf C)) (hmA : AgreeOn A.nrows A.width mA (memOf A)) :
    AgreeOn C.nrows C.width
        ((cStrassenG hd n).sqr ⟨mC, C.nrows, C.ncols, C.width, C.hb⟩ ⟨mA, A.nrows, A.ncols, A.width, A.hb⟩ cutoff)
        (memOf (C.putB (sqrEven n C.toB A.toB cutoff))) ∧
      sqrEven n C.toB A.toB cutoff = A.toB.mul A.toB := by
  refine ⟨?_, (mulAllP n).2.1 cutoff (r := A.nrows) ⟨Mzd.WF_toB hC, hr, hc⟩ ⟨Mzd.WF_toB hA, rfl, hsq⟩⟩
  rw [← liftM3_of (fun C A _ => sqrEven n C A cutoff) C A A hC hA hA]
  have hwC : C.width = (A.nrows + 63) / 64 := by rw [width_eq, hc]
  have hbC : C.hb = leftMask (A.nrows % 64) := by rw [hb_eq, hc]
  have hwA : A.width = (A.nrows + 63) / 64 := by rw [width_eq, hsq]
  have hbA : A.hb = leftMask (A.nrows % 64) := by rw [hb_eq, hsq]
  rw [hr, hwC] at hmC
  rw [hwA] at hmA
  rw [hr, hc, hsq, hwC, hbC, hwA, hbA]
  refine ((cStrassenA_raw genAdd RelA.gen hd cutoff n).2.2.1 A.nrows mC mA).trans ?_
  rw [cSqrEven_nat, liftM3_congr_nat (fun C A _ => sqrEven n C A cutoff) A.nrows ((A.nrows + 63) / 64) A.nrows
    ((A.nrows + 63) / 64) A.nrows ((A.nrows + 63) / 64) _ _ _ _ _ _ _ _ _ hmC hmA hmA]
  exact AgreeOn.refl _ _ _

/-- **every depth, on views** (`_mzd_addsqr_even`) -/
theorem cAddsqrG_view (hd : Hdr) (n cutoff : Nat) (C A : Mzd) (hC : C.WF) (hA : A.WF)
    (hsq : A.ncols = A.nrows) (hr : C.nrows = A.nrows) (hc : C.ncols = A.nrows) (mC mA : Mem)
    (hmC : AgreeOn C.nrows C.width mC (memOf C)) (hmA : AgreeOn A.nrows A.width mA (memOf A)) :
    AgreeOn C.nrows C.width
        ((cStrassenG hd n).addsqr ⟨mC, C.nrows, C.ncols, C.width, C.hb⟩ ⟨mA, A.nrows, A.ncols, A.width, A.hb⟩
          cutoff)
        (memOf (C.putB (addsqrEven n C.toB A.toB cutoff))) ∧
      addsqrEven n C.toB A.toB cutoff = C.toB.add (A.toB.mul A.toB) := by
  refine ⟨?_, (addAllP n).2 cutoff (r := A.nrows) ⟨Mzd.WF_toB hC, hr, hc⟩ ⟨Mzd.WF_toB hA, rfl, hsq⟩⟩
  rw [← liftM3_of (fun C A _ => addsqrEven n C A cutoff) C A A hC hA hA]
  have hwC : C.width = (A.nrows + 63) / 64 := by rw [width_eq, hc]
  have hbC : C.hb = leftMask (A.nrows % 64) := by rw [hb_eq, hc]
  have hwA : A.width = (A.nrows + 63) / 64 := by rw [width_eq, hsq]
  have hbA : A.hb = leftMask (A.nrows % 64) := by rw [hb_eq, hsq]
  rw [hr, hwC] at hmC
  rw [hwA] at hmA
  rw [hr, hc, hsq, hwC, hbC, hwA, hbA]
  refine ((cStrassenA_raw genAdd RelA.gen hd cutoff n).2.2.2 A.nrows mC mA).trans ?_
  rw [cAddsqrEven_nat, liftM3_congr_nat (fun C A _ => addsqrEven n C A cutoff) A.nrows ((A.nrows + 63) / 64)
    A.nrows ((A.nrows + 63) / 64) A.nrows ((A.nrows + 63) / 64) _ _ _ _ _ _ _ _ _ hmC hmA hmA]
  exact AgreeOn.refl _ _ _

end M4ri.GenTieClose5

#print axioms M4ri.GenTieClose5.combineEven_mem
#print axioms M4ri.GenTieClose5.addCore_mem
#print axioms M4ri.GenTieClose5.genAdd_canon
#print axioms M4ri.GenTieClose5.genAdd_agree_canon
#print axioms M4ri.GenTieClose5.genAdd_agree
#print axioms M4ri.GenTieClose5.RelA.gen
#print axioms M4ri.GenTieClose5.strassenMulEven_relA
#print axioms M4ri.GenTieClose5.strassenAddmulEven_relA
#print axioms M4ri.GenTieClose5.strassenSqrEven_relA
#print axioms M4ri.GenTieClose5.strassenAddsqrEven_relA
#print axioms M4ri.GenTieClose5.cStrassenA_cAdd
#print axioms M4ri.GenTieClose5.cStrassenA_raw
#print axioms M4ri.GenTieClose5.cStrassenA_rel
#print axioms M4ri.GenTieClose5.cMulA_eq
#print axioms M4ri.GenTieClose5.cAddmulA_eq
#print axioms M4ri.GenTieClose5.cSqrA_eq
#print axioms M4ri.GenTieClose5.cAddsqrA_eq
#print axioms M4ri.GenTieClose5.cMulG_correct
#print axioms M4ri.GenTieClose5.cAddmulG_correct
#print axioms M4ri.GenTieClose5.cSqrG_correct
#print axioms M4ri.GenTieClose5.cAddsqrG_correct
#print axioms M4ri.GenTieClose5.cMulG_view
#print axioms M4ri.GenTieClose5.cAddmulG_view
#print axioms M4ri.GenTieClose5.cSqrG_view
#print axioms M4ri.GenTieClose5.cAddsqrG_view
