/-
  Basic lemmas about rows of words, `Mzd.bit`, well-formedness and the standard shape of a W-level
  specification:   entries inside the matrix (`j < ncols`) / excess bits (`ncols ≤ j < 64·width`) / shape.
-/
import M4ri.Mzd
import M4riProofs.WordLemmas
namespace M4ri

theorem Row.w_eq_getElem (r : Row) (i : Nat) (h : i < r.size) : r.w i = r[i] := by
  simp [Row.w, Array.getD, h]

theorem Row.w_of_ge (r : Row) (i : Nat) (h : r.size ≤ i) : r.w i = 0 := by
  simp [Row.w, Array.getD, Nat.not_lt.mpr h]

theorem Row.w_mapIdx (r : Row) (f : Nat → Word → Word) (i : Nat) (h : i < r.size) :
    Row.w (r.mapIdx f) i = f i (r.w i) := by
  simp [Row.w, Array.getD, h]

theorem Row.size_mapIdx (r : Row) (f : Nat → Word → Word) : (r.mapIdx f).size = r.size := by simp

theorem Row.w_modify (r : Row) (k : Nat) (f : Word → Word) (i : Nat) (h : i < r.size) :
    Row.w (r.modify k f) i = if k = i then f (r.w i) else r.w i := by
  simp [Row.w, Array.getD, h, Array.getElem_modify]

theorem Row.size_modify (r : Row) (k : Nat) (f : Word → Word) : (r.modify k f).size = r.size := by simp

namespace Mzd

@[simp] theorem rows_withRows (M : Mzd) (rs : Array Row) : (M.withRows rs).rows = rs := rfl
@[simp] theorem nrows_withRows (M : Mzd) (rs : Array Row) : (M.withRows rs).nrows = M.nrows := rfl
@[simp] theorem ncols_withRows (M : Mzd) (rs : Array Row) : (M.withRows rs).ncols = M.ncols := rfl
@[simp] theorem width_withRows (M : Mzd) (rs : Array Row) : (M.withRows rs).width = M.width := rfl
@[simp] theorem hb_withRows (M : Mzd) (rs : Array Row) : (M.withRows rs).hb = M.hb := rfl

theorem row_eq_getElem (M : Mzd) (i : Nat) (h : i < M.rows.size) : M.row i = M.rows[i] := by
  simp [row, Array.getD, h]

theorem row_of_ge (M : Mzd) (i : Nat) (h : M.rows.size ≤ i) : M.row i = #[] := by
  simp [row, Array.getD, Nat.not_lt.mpr h]

theorem row_setRow (M : Mzd) (i k : Nat) (r : Row) (hi : i < M.rows.size) :
    (M.setRow i r).row k = if i = k then r else M.row k := by
  unfold setRow row
  simp only [rows_withRows, Array.getD_eq_getD_getElem?, Array.getElem?_setIfInBounds]
  by_cases h : i = k
  · subst h; simp [hi]
  · simp [h]

theorem setRow_of_ge (M : Mzd) (i : Nat) (r : Row) (hi : ¬ i < M.rows.size) : M.setRow i r = M := by
  unfold setRow withRows
  simp [Array.setIfInBounds, hi]

theorem nrows_setRow (M : Mzd) (i : Nat) (r : Row) : (M.setRow i r).nrows = M.nrows := rfl
theorem ncols_setRow (M : Mzd) (i : Nat) (r : Row) : (M.setRow i r).ncols = M.ncols := rfl
theorem width_setRow (M : Mzd) (i : Nat) (r : Row) : (M.setRow i r).width = M.width := rfl
theorem hb_setRow (M : Mzd) (i : Nat) (r : Row) : (M.setRow i r).hb = M.hb := rfl
theorem size_rows_setRow (M : Mzd) (i : Nat) (r : Row) : (M.setRow i r).rows.size = M.rows.size := by
  simp [setRow]

theorem WF.setRow {M : Mzd} (h : M.WF) (i : Nat) (r : Row) (hr : r.size = M.width) : (M.setRow i r).WF := by
  by_cases hik : i < M.rows.size
  · obtain ⟨h1, h2⟩ := h
    refine ⟨by rw [size_rows_setRow, nrows_setRow]; exact h1, ?_⟩
    intro k hk
    rw [nrows_setRow] at hk
    rw [row_setRow _ _ _ _ hik, width_setRow]
    split
    · exact hr
    · exact h2 k hk
  · rw [setRow_of_ge _ _ _ hik]; exact h

/-- the high bitmask selects exactly the columns of the last word -/
theorem hb_getLsbD (M : Mzd) (p : Nat) (hp : p < 64) (hc : 0 < M.ncols) :
    M.hb.getLsbD p = decide (64 * (M.width - 1) + p < M.ncols) := by
  unfold hb width widthOf
  by_cases h0 : M.ncols % 64 = 0
  · rw [h0, leftMask_zero]
    simp only [ffff, BitVec.getLsbD_allOnes, hp, decide_true]
    symm; simp only [decide_eq_true_eq]; omega
  · rw [leftMask_getLsbD _ _ (by omega) (by omega)]
    congr 1
    apply propext
    omega

/-- word index of a column inside the matrix is below `width` -/
theorem word_lt_width (M : Mzd) (j : Nat) (hj : j < M.ncols) : j / 64 < M.width := by
  unfold width widthOf; omega

end Mzd
end M4ri
