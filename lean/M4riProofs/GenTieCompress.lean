/-
  GenTieCompress: tie of the generated `Gen.C.mzdCompressL` (= C `_mzd_compress_l(A, r1, n1, r2)`, m4ri/mzp.c) to
  the model `Rec.compressL` (M4ri/TrsmRec.lean).

  Main theorems (for `A : Mzd` well-formed, `r1 ≤ n1`, `n1 + r2 ≤ A.ncols`, `r1 + r2 ≤ A.nrows`):
    `mzdCompressL_eq`       generated text on `memOf A` = `memOf (A.putB (Rec.compressL A.toB r1 n1 r2))`
    `mzdCompressL_eq_lift`  … = `GenTiePle.liftCompress ⟨memOf A, A.nrows, A.ncols, A.width, A.hb⟩ r1 n1 r2`
  under two hypotheses that cannot be dropped:
    * `n1 % 64 = 0 ∨ r1 + r2 < r1 / 64 * 64 + 128`: the whole-word copy loops of the C function compute the source
      word as `(n1 + j - r1) / 64` and shift by `rest = 64 - r1 % 64`, which is the right shift only when `n1` is a
      multiple of 64 (it is: `n1` is the split point of `_mzd_ple`); the second disjunct says these loops do not run.
    * `Pre A r1 n1 r2`: in the rows `i ≥ r1 + r2` the entries in the columns from `n1 + r2` up to the next word
      boundary are zero.  The C function zeroes whole words up to `n1 + r2` (its comment: "it's okay to write the
      full word, i.e. past n1+r2, because everything is zero there anyway"), the model keeps every entry from
      column `n1 + r2` on.  `cexA_differs`: without `Pre` generated text and model differ (2 × 66 matrix,
      `r1 = 0`, `n1 = 64`, `r2 = 1`; checked by kernel evaluation of the generated function).
  `Pre` holds at the call the PLE step makes: see GenTieCompressPle.lean (`pleRecStep_pleRec_gen`).

  Proof structure.
    1. `swaps_loop`: the column-swap loop by `GenTieColSwap.mzdColSwapInRows_eq`; `swapsM` is the `Mzd`-level fold,
       `swapsM_toB` its abstract value (`Rec.compressSwaps`), `swapsM_bit_low`: rows `≥ r1 + r2` and excess bits kept.
    2. the generated row body is cut into four parts `stA … stD` (copies of the generated text; `mzdCompressL_split`
       ties them to it by `rfl`).
    3. every part maps `memOf M'` to `memOf M''` for well-formed matrices of the shape of the row-start matrix `M`
       (`Same`), with a bit-level description: `Prog M M' i r1 n1 c` (columns `[r1, c)` of row `i` hold the bits from
       `n1` on; nothing below `r1`, from the next word boundary after `c` on, or in another row has changed).
       `stA_eq` (read/clear/xor bits through `mzdReadBits_eq'`, `mzdClearBits_eq`, `mzdXorBits_eq`), `copy_loop` /
       `stB_eq` (both variants of the word loop through one lemma parametrised by the stored value), `stC_eq`,
       `stD_eq` (clear to the word end, zero whole words, restore the excess bits) give `rowBody_eq`: row `i`
       becomes `rowSpec`.
    4. `mzdCompressL_eq`: row-loop invariant (rows `< i` done, rows `≥ i` as after the swaps), then
       `Mzd.eq_putB_of_bit` against `Rec.compressShift_get`; `Pre` closes the gap between "cleared to the word
       boundary" and "cleared to `n1 + r2`".
-/
import M4ri.Gen.CFuns
import M4riProofs.GenTieMem
import M4riProofs.GenTieMove
import M4riProofs.GenTieColSwap
import M4riProofs.Bridge
import M4riProofs.TrsmRec
import M4riProofs.PleNaive
import M4riProofs.GenTiePle
set_option linter.unusedVariables false
namespace M4ri.GenTieCompress
open M4ri M4ri.Gen M4ri.GenTieMem M4ri.GenTieMove M4ri.BMat

/-! ### 0. helpers: one word of a row replaced -/

/-- `row(M, x)[b] = v` -/
def setWord (M : Mzd) (x b : Nat) (v : Word) : Mzd := M.setRow x ((M.row x).modify b fun _ => v)

theorem upd2_setWord (M : Mzd) (x b : Nat) (v : Word) (hwf : M.WF) (hx : x < M.nrows) (hb : b < M.width) :
    CLoop.upd2 (memOf M) x b v = memOf (setWord M x b v) :=
  write1 M x b (fun _ => v) hwf hx hb

/-- a well-formed matrix of the same shape -/
structure Same (M M' : Mzd) : Prop where
  wf : M'.WF
  nr : M'.nrows = M.nrows
  nc : M'.ncols = M.ncols

theorem Same.refl {M : Mzd} (h : M.WF) : Same M M := ⟨h, rfl, rfl⟩

theorem Same.width {M M' : Mzd} (h : Same M M') : M'.width = M.width := by
  unfold Mzd.width; rw [h.nc]

theorem Same.hb {M M' : Mzd} (h : Same M M') : M'.hb = M.hb := by
  unfold Mzd.hb; rw [h.nc]

theorem Same.trans {M M' M'' : Mzd} (h : Same M M') (h' : Same M' M'') : Same M M'' :=
  ⟨h'.wf, by rw [h'.nr, h.nr], by rw [h'.nc, h.nc]⟩

theorem setWord_same {M : Mzd} (h : M.WF) (x b : Nat) (v : Word) (hx : x < M.nrows) :
    Same M (setWord M x b v) :=
  ⟨Mzd.WF.setRow h x _ (by rw [Row.size_modify]; exact h.2 x hx), rfl, rfl⟩

theorem setWord_bit {M : Mzd} (h : M.WF) (x b : Nat) (v : Word) (hx : x < M.nrows) (hb : b < M.width)
    (i j : Nat) :
    (setWord M x b v).bit i j = if i = x ∧ j / 64 = b then v.getLsbD (j % 64) else M.bit i j := by
  unfold setWord
  rw [Mzd.bit_setRow _ _ _ (by rw [h.1]; exact hx)]
  by_cases hi : i = x
  · subst hi
    rw [if_pos rfl]
    by_cases hjs : j / 64 < (M.row i).size
    · rw [Row.bit_modify _ _ _ _ hjs]
      by_cases hb' : j / 64 = b
      · rw [if_pos hb', if_pos ⟨rfl, hb'⟩]
      · rw [if_neg hb', if_neg (fun c => hb' c.2)]; rfl
    · have hsz := h.2 i hx
      rw [Row.bit_of_ge _ _ (by rw [Row.size_modify]; omega), if_neg (by omega)]
      exact (Row.bit_of_ge _ _ (by omega)).symm
  · rw [if_neg hi, if_neg (fun c => hi c.1)]

theorem same_clearBits {M : Mzd} (h : M.WF) (x y n : Nat) (hx : x < M.nrows) : Same M (M.clearBits x y n) :=
  ⟨Mzd.clearBits_WF M x y n h hx, rfl, rfl⟩

theorem same_xorBits {M : Mzd} (h : M.WF) (x y n : Nat) (v : Word) (hx : x < M.nrows) :
    Same M (M.xorBits x y n v) :=
  ⟨Mzd.xorBits_WF M x y n v h hx, rfl, rfl⟩

/-! ### 1. the column swaps -/

/-- the matrix after the first `k` column swaps of `_mzd_compress_l` -/
def swapsM (A : Mzd) (r1 n1 r2 : Nat) : Nat → Mzd
  | 0 => A
  | k + 1 => (swapsM A r1 n1 r2 k).colSwapInRows (r1 + k) (n1 + k) (r1 + k) (r1 + r2)

theorem colSwapInRows_same {M : Mzd} (h : M.WF) (a b s e : Nat) : Same M (M.colSwapInRows a b s e) := by
  refine ⟨Mzd.colSwapInRows_WF M a b s e h, ?_, ?_⟩ <;> (unfold Mzd.colSwapInRows; split <;> rfl)

theorem swapsM_same {A : Mzd} (hA : A.WF) (r1 n1 r2 k : Nat) : Same A (swapsM A r1 n1 r2 k) := by
  induction k with
  | zero => exact Same.refl hA
  | succ k ih => exact ih.trans (colSwapInRows_same ih.wf _ _ _ _)

/-- `toB` of a column swap is the model's column swap -/
theorem toB_colSwapInRows {M : Mzd} (h : M.WF) (a b s e : Nat) (ha : a < M.ncols) (hb : b < M.ncols) :
    (M.colSwapInRows a b s e).toB = M.toB.swapColsInRows a b s e := by
  have hs := colSwapInRows_same h a b s e
  have sh := swapColsInRows_shape M.toB a b s e
  apply BMat.ext_get (Mzd.WF_toB hs.wf) (PN.WF_swapColsInRows (Mzd.WF_toB h) (by simpa using ha) (by simpa using hb) s e)
  · rw [sh.1]; simp [hs.nr]
  · rw [sh.2.1]; simp [hs.nc]
  · intro i j hi hj
    simp only [Mzd.nrows_toB, Mzd.ncols_toB] at hi hj
    rw [hs.nc] at hj
    rw [Mzd.get_toB_of_lt _ _ _ (by rw [hs.nc]; exact hj), Mzd.colSwapInRows_bit M a b s e h ha hb,
      swapColsInRows_get]
    unfold BMat.swapIdx
    by_cases hr : s ≤ i ∧ i < e
    · rw [if_pos hr, if_pos hr]
      by_cases h1 : j = a
      · rw [if_pos h1, if_pos h1, Mzd.get_toB_of_lt _ _ _ hb]
      · rw [if_neg h1, if_neg h1]
        by_cases h2 : j = b
        · rw [if_pos h2, if_pos h2, Mzd.get_toB_of_lt _ _ _ ha]
        · rw [if_neg h2, if_neg h2, Mzd.get_toB_of_lt _ _ _ hj]
    · rw [if_neg hr, if_neg hr, Mzd.get_toB_of_lt _ _ _ hj]

theorem swapsM_toB {A : Mzd} (hA : A.WF) (r1 n1 r2 k : Nat) (hk : k ≤ r2) (h1 : r1 ≤ n1)
    (h2 : n1 + r2 ≤ A.ncols) :
    (swapsM A r1 n1 r2 k).toB = Rec.compressSwaps A.toB r1 n1 r2 k := by
  induction k with
  | zero => rfl
  | succ k ih =>
    have hs := swapsM_same hA r1 n1 r2 k
    show ((swapsM A r1 n1 r2 k).colSwapInRows (r1 + k) (n1 + k) (r1 + k) (r1 + r2)).toB = _
    rw [toB_colSwapInRows hs.wf _ _ _ _ (by rw [hs.nc]; omega) (by rw [hs.nc]; omega), ih (by omega)]
    unfold Rec.compressSwaps
    rw [List.range_succ, List.foldl_append]
    rfl

/-- rows from `r1 + r2` on are not touched by the swaps -/
theorem swapsM_bit_low {A : Mzd} (hA : A.WF) (r1 n1 r2 k : Nat) (hk : k ≤ r2) (h1 : r1 ≤ n1)
    (h2 : n1 + r2 ≤ A.ncols) (i j : Nat) (hi : r1 + r2 ≤ i ∨ A.ncols ≤ j) :
    (swapsM A r1 n1 r2 k).bit i j = A.bit i j := by
  induction k with
  | zero => rfl
  | succ k ih =>
    have hs := swapsM_same hA r1 n1 r2 k
    show ((swapsM A r1 n1 r2 k).colSwapInRows (r1 + k) (n1 + k) (r1 + k) (r1 + r2)).bit i j = _
    rw [Mzd.colSwapInRows_bit _ _ _ _ _ hs.wf (by rw [hs.nc]; omega) (by rw [hs.nc]; omega)]
    by_cases hr : r1 + k ≤ i ∧ i < r1 + r2
    · rw [if_pos hr, if_neg (by omega), if_neg (by omega), ih (by omega)]
    · rw [if_neg hr, ih (by omega)]

/-- **part 1**: the swap loop of `_mzd_compress_l` -/
theorem swaps_loop {A : Mzd} (hA : A.WF) (r1 n1 r2 : Nat) (rs : Int) (h1 : r1 ≤ n1) (h2 : n1 + r2 ≤ A.ncols)
    (h3 : r1 + r2 ≤ A.nrows) :
    CLoop.loop (((r2 : Nat) : Int)).toNat
        (fun (st : (Int → Int → BitVec 64) × Int × Int) => match st with
        | (v_mem_A, v_i, v_j) => (decide (v_i < ((r1 : Int) + (r2 : Int)))))
        (fun (st : (Int → Int → BitVec 64) × Int × Int) => match st with
        | (v_mem_A, v_i, v_j) =>
        let v_mem_A : Int → Int → BitVec 64 := (M4ri.Gen.C.mzdColSwapInRows v_i v_j v_i ((r1 : Int) + (r2 : Int)) v_mem_A rs)
        let v_i : Int := (v_i + (1 : Int))
        let v_j : Int := (v_j + (1 : Int))
        (v_mem_A, v_i, v_j))
        (memOf A, (r1 : Int), (n1 : Int))
      = (memOf (swapsM A r1 n1 r2 r2), (r1 : Int) + (r2 : Int), (n1 : Int) + (r2 : Int)) := by
  generalize hres : CLoop.loop _ _ _ _ = res
  refine for_loop_eq hres r2
    (fun k st => st = (memOf (swapsM A r1 n1 r2 k), (r1 : Int) + (k : Int), (n1 : Int) + (k : Int)))
    (by simp) (by simp [swapsM]) ?_ ?_
  · intro k st _ hP
    subst hP
    dsimp only
    rw [decide_eq_decide]
    omega
  · intro k st hk hP
    subst hP
    dsimp only
    have hs := swapsM_same hA r1 n1 r2 k
    have e1 : (r1 : Int) + (k : Int) = ((r1 + k : Nat) : Int) := by omega
    have e2 : (n1 : Int) + (k : Int) = ((n1 + k : Nat) : Int) := by omega
    have e3 : (r1 : Int) + (r2 : Int) = ((r1 + r2 : Nat) : Int) := by omega
    rw [e1, e2, e3, GenTieColSwap.mzdColSwapInRows_eq _ _ _ _ _ rs hs.wf (by rw [hs.nc]; omega)
      (by rw [hs.nc]; omega) (by rw [hs.nr]; omega)]
    simp only [swapsM, Prod.mk.injEq, true_and]
    omega

/-! ### 2. the generated row body, cut into four parts (copies of the generated text, tied to it by `rfl`) -/

/-- the rest of the word of column `r1`: `mzd_read_bits`, `mzd_clear_bits`, `mzd_xor_bits` -/
def stA (v_r1 v_n1 : Int) (v_i : Int) (v_mem_A : Mem) : BitVec 64 × Mem :=
  let v_j : Int := v_r1
  let v_rest : Int := ((64 : Int) - (Int.tmod v_j (64 : Int)))
  let v_tmp : BitVec 64 := (M4ri.Gen.C.mzdReadBits v_i v_n1 v_rest v_mem_A)
  let v_mem_A : Int → Int → BitVec 64 := (M4ri.Gen.C.mzdClearBits v_i v_j v_rest v_mem_A)
  let v_mem_A : Int → Int → BitVec 64 := (M4ri.Gen.C.mzdXorBits v_i v_j v_rest v_tmp v_mem_A)
  (v_tmp, v_mem_A)

/-- the two whole-word copy loops -/
def stB (v_r1 v_r2 v_rest v_i : Int) (v_tmp : BitVec 64) (v_mem_A : Mem) (v_j v_block : Int) :
    Int × Int × (BitVec 64) × (Int → Int → BitVec 64) :=
  let v_row__row : Int := v_i
  let v_row : Int := (0 : Int)
          if (decide ((Int.tmod v_rest (64 : Int)) = (0 : Int))) then
            let (v_tmp, v_mem_A, v_j, v_block) : (BitVec 64) × (Int → Int → BitVec 64) × Int × Int := CLoop.loop ((v_r2).toNat)
                (fun (st : (BitVec 64) × (Int → Int → BitVec 64) × Int × Int) => match st with
                | (v_tmp, v_mem_A, v_j, v_block) => (decide ((v_j + (64 : Int)) ≤ (v_r1 + v_r2))))
                (fun (st : (BitVec 64) × (Int → Int → BitVec 64) × Int × Int) => match st with
                | (v_tmp, v_mem_A, v_j, v_block) => 
                let v_tmp : BitVec 64 := (v_mem_A v_row__row (v_row + v_block))
                let v_mem_A : Int → Int → BitVec 64 := (CLoop.upd2 v_mem_A v_row__row (v_row + (Int.tdiv v_j (64 : Int))) v_tmp)
                let v_j : Int := (v_j + (64 : Int))
                let v_block : Int := (v_block + (1 : Int))
                (v_tmp, v_mem_A, v_j, v_block))
                (v_tmp, v_mem_A, v_j, v_block)
            (v_j, v_block, v_tmp, v_mem_A)
          else
            let (v_tmp, v_mem_A, v_j, v_block) : (BitVec 64) × (Int → Int → BitVec 64) × Int × Int := CLoop.loop ((v_r2).toNat)
                (fun (st : (BitVec 64) × (Int → Int → BitVec 64) × Int × Int) => match st with
                | (v_tmp, v_mem_A, v_j, v_block) => (decide ((v_j + (64 : Int)) ≤ (v_r1 + v_r2))))
                (fun (st : (BitVec 64) × (Int → Int → BitVec 64) × Int × Int) => match st with
                | (v_tmp, v_mem_A, v_j, v_block) => 
                let v_tmp : BitVec 64 := (((v_mem_A v_row__row (v_row + v_block)) >>> (v_rest).toNat) ||| ((v_mem_A v_row__row (v_row + (v_block + (1 : Int)))) <<< (((64 : Int) - v_rest)).toNat))
                let v_mem_A : Int → Int → BitVec 64 := (CLoop.upd2 v_mem_A v_row__row (v_row + (Int.tdiv v_j (64 : Int))) v_tmp)
                let v_j : Int := (v_j + (64 : Int))
                let v_block : Int := (v_block + (1 : Int))
                (v_tmp, v_mem_A, v_j, v_block))
                (v_tmp, v_mem_A, v_j, v_block)
            (v_j, v_block, v_tmp, v_mem_A)

/-- the remaining bits -/
def stC (v_r1 v_n1 v_r2 v_i : Int) (v_tmp : BitVec 64) (v_mem_A : Mem) (v_j : Int) : (BitVec 64) × (Int → Int → BitVec 64) :=
  let v_row__row : Int := v_i
  let v_row : Int := (0 : Int)
          if (decide (v_j < (v_r1 + v_r2))) then
            let v_tmp : BitVec 64 := (M4ri.Gen.C.mzdReadBits v_i ((v_n1 + v_j) - v_r1) ((v_r1 + v_r2) - v_j) v_mem_A)
            let v_mem_A : Int → Int → BitVec 64 := (CLoop.upd2 v_mem_A v_row__row (v_row + (Int.tdiv v_j (64 : Int))) v_tmp)
            (v_tmp, v_mem_A)
          else
            (v_tmp, v_mem_A)

/-- clearing up to `n1 + r2` and restoring the excess bits -/
def stD (v_r1 v_n1 v_r2 v_A_width : Int) (v_A_high_bitmask : BitVec 64) (v_i : Int) (v_keep : BitVec 64) (v_mem_A : Mem) : Mem :=
  let v_row__row : Int := v_i
  let v_row : Int := (0 : Int)
        let v_j : Int := (v_r1 + v_r2)
        let v_mem_A : Int → Int → BitVec 64 := (M4ri.Gen.C.mzdClearBits v_i v_j ((64 : Int) - (Int.tmod v_j (64 : Int))) v_mem_A)
        let v_j : Int := (v_j + ((64 : Int) - (Int.tmod v_j (64 : Int))))
        let (v_mem_A, v_j) : (Int → Int → BitVec 64) × Int := CLoop.loop ((v_n1 + v_r2).toNat)
            (fun (st : (Int → Int → BitVec 64) × Int) => match st with
            | (v_mem_A, v_j) => (decide (v_j < (v_n1 + v_r2))))
            (fun (st : (Int → Int → BitVec 64) × Int) => match st with
            | (v_mem_A, v_j) => 
            let v_mem_A : Int → Int → BitVec 64 := (CLoop.upd2 v_mem_A v_row__row (v_row + (Int.tdiv v_j (64 : Int))) (0#64))
            let v_j : Int := (v_j + (64 : Int))
            (v_mem_A, v_j))
            (v_mem_A, v_j)
        let v_mem_A : Int → Int → BitVec 64 := (CLoop.upd2 v_mem_A v_row__row (v_row + (v_A_width - (1 : Int))) (((v_mem_A v_row__row (v_row + (v_A_width - (1 : Int)))) &&& v_A_high_bitmask) ||| v_keep))
        v_mem_A

/-- the whole row body -/
def rowBody (v_r1 v_n1 v_r2 v_A_width : Int) (v_A_high_bitmask : BitVec 64)
    (st : (BitVec 64) × (Int → Int → BitVec 64) × Int × Int) : (BitVec 64) × (Int → Int → BitVec 64) × Int × Int :=
  match st with
  | (v_tmp, v_mem_A, v_block, v_i) =>
    let v_keep : BitVec 64 := ((v_mem_A v_i ((0 : Int) + (v_A_width - (1 : Int)))) &&& (~~~ v_A_high_bitmask))
    let a := stA v_r1 v_n1 v_i v_mem_A
    let v_rest : Int := ((64 : Int) - (Int.tmod v_r1 (64 : Int)))
    let v_j : Int := (v_r1 + v_rest)
    let v_block : Int := (Int.tdiv ((v_n1 + v_j) - v_r1) (64 : Int))
    let b := stB v_r1 v_r2 v_rest v_i a.1 a.2 v_j v_block
    let c := stC v_r1 v_n1 v_r2 v_i b.2.2.1 b.2.2.2 b.1
    let m := stD v_r1 v_n1 v_r2 v_A_width v_A_high_bitmask v_i v_keep c.2
    (c.1, m, b.2.1, v_i + (1 : Int))

theorem mzdCompressL_split (v_r1 v_n1 v_r2 : Int) (v_mem_A : Mem) (v_A_rowstride v_A_nrows v_A_width : Int)
    (v_A_high_bitmask : BitVec 64) :
    Gen.C.mzdCompressL v_r1 v_n1 v_r2 v_mem_A v_A_rowstride v_A_nrows v_A_width v_A_high_bitmask =
      if (decide (v_r1 = v_n1)) then v_mem_A else
        (CLoop.loop ((v_A_nrows).toNat)
          (fun (st : (BitVec 64) × (Int → Int → BitVec 64) × Int × Int) => match st with
            | (v_tmp, v_mem_A, v_block, v_i) => (decide (v_i < v_A_nrows)))
          (rowBody v_r1 v_n1 v_r2 v_A_width v_A_high_bitmask)
          ((0#64), (CLoop.loop ((v_r2).toNat)
            (fun (st : (Int → Int → BitVec 64) × Int × Int) => match st with
            | (v_mem_A, v_i, v_j) => (decide (v_i < (v_r1 + v_r2))))
            (fun (st : (Int → Int → BitVec 64) × Int × Int) => match st with
            | (v_mem_A, v_i, v_j) => 
            let v_mem_A : Int → Int → BitVec 64 := (M4ri.Gen.C.mzdColSwapInRows v_i v_j v_i (v_r1 + v_r2) v_mem_A v_A_rowstride)
            let v_i : Int := (v_i + (1 : Int))
            let v_j : Int := (v_j + (1 : Int))
            (v_mem_A, v_i, v_j))
            (v_mem_A, v_r1, v_n1)).1, (0 : Int), (v_r1 + v_r2))).2.1 := rfl

/-! ### 3. the parts of the row body, one by one -/

/-- progress in row `i`: the columns `[r1, c)` hold the bits from `n1` on, the columns below `r1` and everything
    from the next word boundary after `c` on are as before, as are the other rows -/
structure Prog (M M' : Mzd) (i r1 n1 c : Nat) : Prop where
  same : Same M M'
  other : ∀ i' j, i' ≠ i → M'.bit i' j = M.bit i' j
  low : ∀ j, j < r1 → M'.bit i j = M.bit i j
  mid : ∀ j, r1 ≤ j → j < c → M'.bit i j = M.bit i (n1 + (j - r1))
  high : ∀ j, (c + 63) / 64 * 64 ≤ j → M'.bit i j = M.bit i j

/-- first part: `[r1, next word boundary)` -/
theorem stA_eq (M : Mzd) (hM : M.WF) (i r1 n1 : Nat) (hi : i < M.nrows) (hw : r1 / 64 < M.width) :
    ∃ tmp M', stA (r1 : Int) (n1 : Int) (i : Int) (memOf M) = (tmp, memOf M') ∧
      Prog M M' i r1 n1 (r1 / 64 * 64 + 64) := by
  unfold stA
  dsimp (config := {etaStruct := .none}) only
  have e : (64 : Int) - Int.tmod (r1 : Int) 64 = ((64 - r1 % 64 : Nat) : Int) := by rw [tmod_nat]; omega
  rw [e, mzdReadBits_eq', mzdClearBits_eq _ _ _ _ hM hi (by omega) (by omega),
    mzdXorBits_eq _ _ _ _ _ (Mzd.clearBits_WF M i r1 _ hM hi) hi (by omega) (by
      show r1 + (64 - r1 % 64) ≤ 64 * M.width
      omega)]
  refine ⟨_, _, rfl, ?_⟩
  have hv : ∀ k, 64 - r1 % 64 ≤ k → (M.readBits i n1 (64 - r1 % 64)).getLsbD k = false := by
    intro k hk
    rw [Mzd.readBits_getLsbD _ _ _ _ (by omega), if_neg (by omega)]
  have hc := Mzd.clearBits_WF M i r1 (64 - r1 % 64) hM hi
  have key : ∀ i' j, ((M.clearBits i r1 (64 - r1 % 64)).xorBits i r1 (64 - r1 % 64)
        (M.readBits i n1 (64 - r1 % 64))).bit i' j =
      if i' = i ∧ r1 ≤ j ∧ j < r1 + (64 - r1 % 64) then M.bit i (n1 + (j - r1)) else M.bit i' j := by
    intro i' j
    rw [Mzd.xorBits_bit' _ _ _ _ _ hc hi (by omega) (by
        show r1 + (64 - r1 % 64) ≤ 64 * M.width
        omega) hv,
      Mzd.clearBits_bit' _ _ _ _ hM hi (by omega) (by omega)]
    by_cases h : i' = i ∧ r1 ≤ j ∧ j < r1 + (64 - r1 % 64)
    · rw [if_pos h, if_pos h, if_pos h, Mzd.readBits_getLsbD _ _ _ _ (by omega), if_pos (by omega)]
      simp
    · rw [if_neg h, if_neg h, if_neg h]
  refine ⟨(same_clearBits hM _ _ _ hi).trans (same_xorBits hc _ _ _ _ hi), ?_, ?_, ?_, ?_⟩
  · intro i' j hne
    rw [key, if_neg (fun c => hne c.1)]
  · intro j hj
    rw [key, if_neg (by omega)]
  · intro j h1 h2
    rw [key, if_pos ⟨rfl, h1, by omega⟩]
  · intro j hj
    rw [key, if_neg (by omega)]

/-- the whole-word copy loop, for a loop body that stores `val mem block` -/
theorem copy_loop {cond : (BitVec 64) × (Int → Int → BitVec 64) × Int × Int → Bool}
    {body : (BitVec 64) × (Int → Int → BitVec 64) × Int × Int → (BitVec 64) × (Int → Int → BitVec 64) × Int × Int}
    {fuel : Nat} {res : (BitVec 64) × (Int → Int → BitVec 64) × Int × Int}
    (M M1 : Mzd) (i r1 n1 r2 j0 : Nat) (tmp : BitVec 64)
    (hres : CLoop.loop fuel cond body (tmp, memOf M1, (j0 : Int), (((n1 + j0 - r1) / 64 : Nat) : Int)) = res)
    (val : Mem → Int → BitVec 64)
    (hcond : ∀ tmp m j b, cond (tmp, m, j, b) = decide (j + 64 ≤ (r1 : Int) + (r2 : Int)))
    (hbody : ∀ tmp m j b, body (tmp, m, j, b) =
      (val m b, CLoop.upd2 m (i : Int) ((0 : Int) + Int.tdiv j 64) (val m b), j + 64, b + 1))
    (hval : ∀ (M' : Mzd) (k p : Nat), k < (r1 + r2 - j0) / 64 → p < 64 →
      (val (memOf M') (((n1 + (j0 + 64 * k) - r1) / 64 : Nat) : Int)).getLsbD p
        = M'.bit i (n1 + (j0 + 64 * k - r1) + p))
    (hi : i < M.nrows) (hlt : r1 < n1) (h2 : n1 + r2 ≤ M.ncols)
    (hj0 : r1 < j0) (hj0m : j0 % 64 = 0) (hP : Prog M M1 i r1 n1 j0)
    (hf : (r1 + r2 - j0) / 64 ≤ fuel) :
    ∃ tmp' M2, res
        = (tmp', memOf M2, ((j0 + 64 * ((r1 + r2 - j0) / 64) : Nat) : Int),
            (((n1 + j0 - r1) / 64 + (r1 + r2 - j0) / 64 : Nat) : Int)) ∧
      Prog M M2 i r1 n1 (j0 + 64 * ((r1 + r2 - j0) / 64)) := by
  have key := for_loop_eq hres ((r1 + r2 - j0) / 64)
    (fun k st => ∃ tmp' M', st = (tmp', memOf M', ((j0 + 64 * k : Nat) : Int),
        (((n1 + j0 - r1) / 64 + k : Nat) : Int)) ∧ Prog M M' i r1 n1 (j0 + 64 * k))
    hf ⟨tmp, M1, by simp, hP⟩ ?_ ?_
  · obtain ⟨tmp', M', e, hP'⟩ := key
    exact ⟨tmp', M', e, hP'⟩
  · intro k st hk ⟨tmp', M', e, hP'⟩
    subst e
    rw [hcond, decide_eq_decide]
    omega
  · intro k st hk ⟨tmp', M', e, hP'⟩
    subst e
    rw [hbody]
    have hs := hP'.same
    have hb : (j0 + 64 * k) / 64 < M'.width := by
      rw [hs.width]
      apply Mzd.word_lt_width
      omega
    have hi' : i < M'.nrows := by rw [hs.nr]; exact hi
    have eb : (n1 + j0 - r1) / 64 + k = (n1 + (j0 + 64 * k) - r1) / 64 := by omega
    rw [tdiv_nat, Int.zero_add, eb]
    generalize hv : val (memOf M') (((n1 + (j0 + 64 * k) - r1) / 64 : Nat) : Int) = v
    have hvb : ∀ p, p < 64 → v.getLsbD p = M.bit i (n1 + (j0 + 64 * k - r1) + p) := by
      intro p hp
      rw [← hv, hval M' k p hk hp, hP'.high _ (by omega)]
    rw [upd2_setWord _ _ _ _ hs.wf hi' hb]
    refine ⟨v, setWord M' i ((j0 + 64 * k) / 64) v, ?_, ?_⟩
    · have e1 : ((j0 + 64 * k : Nat) : Int) + 64 = ((j0 + 64 * (k + 1) : Nat) : Int) := by omega
      have e2 : (((n1 + (j0 + 64 * k) - r1) / 64 : Nat) : Int) + 1
          = (((n1 + j0 - r1) / 64 + (k + 1) : Nat) : Int) := by omega
      rw [e1, e2]
    · have hsb := fun i' j => setWord_bit hs.wf i ((j0 + 64 * k) / 64) v hi' hb i' j
      refine ⟨hs.trans (setWord_same hs.wf _ _ _ hi'), ?_, ?_, ?_, ?_⟩
      · intro i' j hne
        rw [hsb, if_neg (fun c => hne c.1), hP'.other _ _ hne]
      · intro j hj
        rw [hsb, if_neg (by omega), hP'.low _ hj]
      · intro j h1' h2'
        by_cases hw : j / 64 = (j0 + 64 * k) / 64
        · rw [hsb, if_pos ⟨rfl, hw⟩, hvb _ (Nat.mod_lt _ (by omega))]
          congr 1
          omega
        · rw [hsb, if_neg (fun c => hw c.2), hP'.mid _ h1' (by omega)]
      · intro j hj
        rw [hsb, if_neg (by omega), hP'.high _ (by omega)]

/-- second part: the two whole-word copy loops -/
theorem stB_eq (M M1 : Mzd) (i r1 n1 r2 : Nat) (hi : i < M.nrows) (hlt : r1 < n1)
    (h64 : n1 % 64 = 0 ∨ r1 + r2 < r1 / 64 * 64 + 128)
    (h2 : n1 + r2 ≤ M.ncols) (hP : Prog M M1 i r1 n1 (r1 / 64 * 64 + 64)) (tmp : BitVec 64)
    (rest j block : Int) (hrest : rest = ((64 - r1 % 64 : Nat) : Int))
    (hj : j = ((r1 / 64 * 64 + 64 : Nat) : Int))
    (hblock : block = (((n1 + (r1 / 64 * 64 + 64) - r1) / 64 : Nat) : Int)) :
    ∃ blk' tmp' M2, stB (r1 : Int) (r2 : Int) rest (i : Int) tmp (memOf M1) j block =
        (((r1 / 64 * 64 + 64 + 64 * ((r1 + r2 - (r1 / 64 * 64 + 64)) / 64) : Nat) : Int), blk', tmp', memOf M2) ∧
      Prog M M2 i r1 n1 (r1 / 64 * 64 + 64 + 64 * ((r1 + r2 - (r1 / 64 * 64 + 64)) / 64)) := by
  subst hrest hj hblock
  unfold stB
  dsimp (config := {etaStruct := .none}) only
  by_cases hr : r1 % 64 = 0
  · rw [if_pos (by rw [tmod_nat, decide_eq_true_eq]; omega)]
    generalize hres : CLoop.loop _ _ _ _ = res
    obtain ⟨tmp', M2, e, hP2⟩ := copy_loop M M1 i r1 n1 r2 (r1 / 64 * 64 + 64) tmp hres
      (fun m b => m (i : Int) ((0 : Int) + b)) (fun _ _ _ _ => rfl) (fun _ _ _ _ => rfl)
      (by
        intro M' k p hk hp
        have h64' : n1 % 64 = 0 := by omega
        rw [Int.zero_add, memOf_nat, Mzd.getLsbD_w_row _ _ _ _ hp]
        congr 1
        omega)
      hi hlt h2 (by omega) (by omega) hP (by omega)
    subst e
    exact ⟨_, _, _, rfl, hP2⟩
  · rw [if_neg (by rw [tmod_nat, decide_eq_true_eq]; omega)]
    generalize hres : CLoop.loop _ _ _ _ = res
    have et1 : (((64 - r1 % 64 : Nat) : Int)).toNat = 64 - r1 % 64 := by omega
    have et2 : ((64 : Int) - ((64 - r1 % 64 : Nat) : Int)).toNat = r1 % 64 := by omega
    obtain ⟨tmp', M2, e, hP2⟩ := copy_loop M M1 i r1 n1 r2 (r1 / 64 * 64 + 64) tmp hres
      (fun m b => ((m (i : Int) ((0 : Int) + b)) >>> (((64 - r1 % 64 : Nat) : Int)).toNat) |||
        ((m (i : Int) ((0 : Int) + (b + (1 : Int)))) <<< (((64 : Int) - ((64 - r1 % 64 : Nat) : Int))).toNat))
      (fun _ _ _ _ => rfl) (fun _ _ _ _ => rfl)
      (by
        intro M' k p hk hp
        have h64' : n1 % 64 = 0 := by omega
        rw [et1, et2, Int.zero_add, Int.zero_add, memOf_nat,
          memOf_nat' M' i ((n1 + (r1 / 64 * 64 + 64 + 64 * k) - r1) / 64 + 1) _ (by omega),
          BitVec.getLsbD_or, BitVec.getLsbD_ushiftRight, BitVec.getLsbD_shiftLeft]
        by_cases hp2 : 64 - r1 % 64 + p < 64
        · have c1 : p < r1 % 64 := by omega
          rw [Mzd.getLsbD_w_row _ _ _ _ hp2]
          simp only [c1, decide_true, Bool.not_true, Bool.and_false, Bool.false_and, Bool.or_false]
          congr 1
          omega
        · have c1 : ¬ p < r1 % 64 := by omega
          rw [BitVec.getLsbD_of_ge _ _ (by omega), Mzd.getLsbD_w_row _ _ _ _ (by omega)]
          simp only [c1, hp, decide_true, decide_false, Bool.not_false, Bool.and_true, Bool.true_and,
            Bool.false_or]
          congr 1
          omega)
      hi hlt h2 (by omega) (by omega) hP (by omega)
    subst e
    exact ⟨_, _, _, rfl, hP2⟩

/-- third part: the remaining bits below `r1 + r2` -/
theorem stC_eq (M M2 : Mzd) (i r1 n1 r2 c : Nat) (hi : i < M.nrows) (hlt : r1 < n1) (h2 : n1 + r2 ≤ M.ncols)
    (hc1 : r1 < c) (hcm : c % 64 = 0) (hex : r1 + r2 < c + 64) (hP : Prog M M2 i r1 n1 c) (tmp : BitVec 64)
    (j : Int) (hj : j = (c : Int)) :
    ∃ tmp' M3 c3, stC (r1 : Int) (n1 : Int) (r2 : Int) (i : Int) tmp (memOf M2) j = (tmp', memOf M3) ∧
      Prog M M3 i r1 n1 c3 ∧ ((c3 = r1 + r2 ∧ c < r1 + r2) ∨ (c3 = c ∧ r1 + r2 ≤ c)) := by
  subst hj
  unfold stC
  dsimp (config := {etaStruct := .none}) only
  have hs := hP.same
  have hi' : i < M2.nrows := by rw [hs.nr]; exact hi
  by_cases hcase : c < r1 + r2
  · rw [if_pos (by rw [decide_eq_true_eq]; omega)]
    have hb : c / 64 < M2.width := by
      rw [hs.width]
      apply Mzd.word_lt_width
      omega
    have e1 : ((n1 : Int) + (c : Int)) - (r1 : Int) = ((n1 + c - r1 : Nat) : Int) := by omega
    have e2 : ((r1 : Int) + (r2 : Int)) - (c : Int) = ((r1 + r2 - c : Nat) : Int) := by omega
    rw [e1, e2, mzdReadBits_eq', tdiv_nat, Int.zero_add, upd2_setWord _ _ _ _ hs.wf hi' hb]
    refine ⟨_, _, r1 + r2, rfl, ?_, Or.inl ⟨rfl, hcase⟩⟩
    have hsb := fun i' j => setWord_bit hs.wf i (c / 64) (M2.readBits i (n1 + c - r1) (r1 + r2 - c)) hi' hb i' j
    refine ⟨hs.trans (setWord_same hs.wf _ _ _ hi'), ?_, ?_, ?_, ?_⟩
    · intro i' j hne
      rw [hsb, if_neg (fun c => hne c.1), hP.other _ _ hne]
    · intro j hj
      rw [hsb, if_neg (by omega), hP.low _ hj]
    · intro j h1' h2'
      by_cases hw : j / 64 = c / 64
      · rw [hsb, if_pos ⟨rfl, hw⟩, Mzd.readBits_getLsbD _ _ _ _ (by omega), if_pos (by omega),
          hP.high _ (by omega)]
        congr 1
        omega
      · rw [hsb, if_neg (fun c => hw c.2), hP.mid _ h1' (by omega)]
    · intro j hj
      rw [hsb, if_neg (by omega), hP.high _ (by omega)]
  · rw [if_neg (by rw [decide_eq_true_eq]; omega)]
    exact ⟨tmp, M2, c, rfl, hP, Or.inr ⟨rfl, by omega⟩⟩

/-- what `_mzd_compress_l` leaves in a row `i ≥ r1 + r2`, bit by bit (entries and excess bits): note that
    everything up to the word boundary at or after `n1 + r2` is cleared -/
def rowSpec (M : Mzd) (i r1 n1 r2 j : Nat) : Bool :=
  if M.ncols ≤ j then M.bit i j
  else if j < r1 then M.bit i j
  else if j < r1 + r2 then M.bit i (n1 + (j - r1))
  else if j < (n1 + r2 + 63) / 64 * 64 then false
  else M.bit i j

/-- fourth part: clearing `[r1 + r2, n1 + r2)` (to the end of the word) and restoring the excess bits -/
theorem stD_eq (M M3 : Mzd) (hM : M.WF) (i r1 n1 r2 c3 : Nat) (hi : i < M.nrows) (hlt : r1 < n1)
    (h2 : n1 + r2 ≤ M.ncols) (hc3 : r1 + r2 ≤ c3) (hc3w : (c3 + 63) / 64 * 64 ≤ (r1 + r2) / 64 * 64 + 64)
    (hP : Prog M M3 i r1 n1 c3) :
    ∃ M4, stD (r1 : Int) (n1 : Int) (r2 : Int) (M.width : Int) M.hb (i : Int)
        ((memOf M (i : Int) ((0 : Int) + ((M.width : Int) - (1 : Int)))) &&& (~~~ M.hb)) (memOf M3) = memOf M4 ∧
      Same M M4 ∧ (∀ i' j, i' ≠ i → M4.bit i' j = M.bit i' j) ∧ ∀ j, M4.bit i j = rowSpec M i r1 n1 r2 j := by
  unfold stD
  dsimp (config := {etaStruct := .none}) only
  have hs := hP.same
  have hi' : i < M3.nrows := by rw [hs.nr]; exact hi
  have hwd : M.width = (M.ncols + 63) / 64 := rfl
  have e : (r1 : Int) + (r2 : Int) = ((r1 + r2 : Nat) : Int) := by omega
  have e' : (64 : Int) - Int.tmod ((r1 + r2 : Nat) : Int) 64 = ((64 - (r1 + r2) % 64 : Nat) : Int) := by
    rw [tmod_nat]; omega
  have e3 : ((r1 + r2 : Nat) : Int) + ((64 - (r1 + r2) % 64 : Nat) : Int)
      = (((r1 + r2) / 64 * 64 + 64 : Nat) : Int) := by omega
  have e4 : (n1 : Int) + (r2 : Int) = ((n1 + r2 : Nat) : Int) := by omega
  rw [e, e', e3, e4, mzdClearBits_eq _ _ _ _ hs.wf hi' (by omega) (by rw [hs.width]; omega)]
  have h5 := same_clearBits hs.wf i (r1 + r2) (64 - (r1 + r2) % 64) hi'
  have b5 := fun i' j => Mzd.clearBits_bit' M3 i (r1 + r2) (64 - (r1 + r2) % 64) hs.wf hi' (by omega)
    (by rw [hs.width]; omega) i' j
  generalize M3.clearBits i (r1 + r2) (64 - (r1 + r2) % 64) = M5 at h5 b5 ⊢
  generalize hres : CLoop.loop _ _ _ _ = res
  have key := for_loop_eq hres ((n1 + r2 + 63 - ((r1 + r2) / 64 * 64 + 64)) / 64)
    (fun k st => ∃ M', st = (memOf M', (((r1 + r2) / 64 * 64 + 64 + 64 * k : Nat) : Int)) ∧ Same M M' ∧
      ∀ i' j, M'.bit i' j = if i' = i ∧ (r1 + r2) / 64 * 64 + 64 ≤ j ∧ j < (r1 + r2) / 64 * 64 + 64 + 64 * k
        then false else M5.bit i' j)
    (by simp only [Int.toNat_natCast]; omega)
    ⟨M5, by simp, hs.trans h5, fun i' j => by rw [if_neg (by omega)]⟩ ?_ ?_
  · obtain ⟨M6, e6, h6, b6⟩ := key
    subst e6
    dsimp (config := {etaStruct := .none}) only
    have hi6 : i < M6.nrows := by rw [h6.nr]; exact hi
    have e5 : (0 : Int) + ((M.width : Int) - (1 : Int)) = ((M.width - 1 : Nat) : Int) := by omega
    have hb6 : M.width - 1 < M6.width := by rw [h6.width]; omega
    rw [e5, upd2_setWord _ _ _ _ h6.wf hi6 hb6, memOf_nat, memOf_nat]
    refine ⟨_, rfl, h6.trans (setWord_same h6.wf _ _ _ hi6), ?_, ?_⟩
    · intro i' j hne
      rw [setWord_bit h6.wf _ _ _ hi6 hb6, if_neg (fun c => hne c.1), b6, if_neg (fun c => hne c.1), b5,
        if_neg (fun c => hne c.1), hP.other _ _ hne]
    · intro j
      have hM6 : M6.bit i j = if r1 + r2 ≤ j ∧ j < (n1 + r2 + 63) / 64 * 64 then false else M3.bit i j := by
        rw [b6, b5]
        by_cases c1 : r1 + r2 ≤ j ∧ j < (n1 + r2 + 63) / 64 * 64
        · rw [if_pos c1]
          by_cases c2 : (r1 + r2) / 64 * 64 + 64 ≤ j
          · rw [if_pos ⟨rfl, c2, by omega⟩]
          · rw [if_neg (by omega), if_pos ⟨rfl, by omega, by omega⟩]
        · rw [if_neg c1, if_neg (by omega), if_neg (by omega)]
      rw [setWord_bit h6.wf _ _ _ hi6 hb6]
      unfold rowSpec
      by_cases hj : M.ncols ≤ j
      · rw [if_pos hj]
        by_cases hw : j / 64 = M.width - 1
        · have hp : j % 64 < 64 := Nat.mod_lt _ (by omega)
          have c1 : ¬ j < M.ncols := by omega
          have ej : 64 * (M.width - 1) + j % 64 = j := by omega
          rw [if_pos ⟨rfl, hw⟩, BitVec.getLsbD_or, BitVec.getLsbD_and, BitVec.getLsbD_and, BitVec.getLsbD_not,
            Mzd.hb_getLsbD M _ hp (by omega), Mzd.getLsbD_w_row M6 _ _ _ hp, Mzd.getLsbD_w_row M _ _ _ hp, ej]
          simp [c1, hp]
        · rw [if_neg (fun c => hw c.2), hM6, if_neg (by omega), hP.high _ (by omega)]
      · rw [if_neg hj]
        have hcur : (if i = i ∧ j / 64 = M.width - 1 then
            (((M6.row i).w (M.width - 1) &&& M.hb) ||| ((M.row i).w (M.width - 1) &&& ~~~M.hb)).getLsbD (j % 64)
            else M6.bit i j) = M6.bit i j := by
          by_cases hw : j / 64 = M.width - 1
          · have hp : j % 64 < 64 := Nat.mod_lt _ (by omega)
            have c1 : j < M.ncols := by omega
            have ej : 64 * (M.width - 1) + j % 64 = j := by omega
            rw [if_pos ⟨rfl, hw⟩, BitVec.getLsbD_or, BitVec.getLsbD_and, BitVec.getLsbD_and, BitVec.getLsbD_not,
              Mzd.hb_getLsbD M _ hp (by omega), Mzd.getLsbD_w_row M6 _ _ _ hp, Mzd.getLsbD_w_row M _ _ _ hp, ej]
            simp [c1, hp]
          · rw [if_neg (fun c => hw c.2)]
        rw [hcur, hM6]
        by_cases d1 : j < r1
        · rw [if_pos d1, if_neg (by omega), hP.low _ d1]
        · rw [if_neg d1]
          by_cases d2 : j < r1 + r2
          · rw [if_pos d2, if_neg (by omega), hP.mid _ (by omega) (by omega)]
          · rw [if_neg d2]
            by_cases d3 : j < (n1 + r2 + 63) / 64 * 64
            · rw [if_pos d3, if_pos ⟨by omega, d3⟩]
            · rw [if_neg d3, if_neg (fun c => d3 c.2), hP.high _ (by omega)]
  · intro k st hk ⟨M', e6, h6, b6⟩
    subst e6
    dsimp only
    rw [decide_eq_decide]
    omega
  · intro k st hk ⟨M', e6, h6, b6⟩
    subst e6
    dsimp only
    have hi6 : i < M'.nrows := by rw [h6.nr]; exact hi
    have hb6 : ((r1 + r2) / 64 * 64 + 64 + 64 * k) / 64 < M'.width := by
      rw [h6.width]
      apply Mzd.word_lt_width
      omega
    rw [tdiv_nat, Int.zero_add, upd2_setWord _ _ _ _ h6.wf hi6 hb6]
    refine ⟨setWord M' i (((r1 + r2) / 64 * 64 + 64 + 64 * k) / 64) 0#64, ?_, h6.trans (setWord_same h6.wf _ _ _ hi6), ?_⟩
    · have e7 : (((r1 + r2) / 64 * 64 + 64 + 64 * k : Nat) : Int) + 64
          = (((r1 + r2) / 64 * 64 + 64 + 64 * (k + 1) : Nat) : Int) := by omega
      rw [e7]
    · intro i' j
      rw [setWord_bit h6.wf _ _ _ hi6 hb6, b6]
      by_cases hne : i' = i
      · subst hne
        by_cases hw : j / 64 = ((r1 + r2) / 64 * 64 + 64 + 64 * k) / 64
        · rw [if_pos ⟨rfl, hw⟩, if_pos ⟨rfl, by omega, by omega⟩]
          simp
        · rw [if_neg (fun c => hw c.2)]
          by_cases hr : (r1 + r2) / 64 * 64 + 64 ≤ j ∧ j < (r1 + r2) / 64 * 64 + 64 + 64 * k
          · rw [if_pos ⟨rfl, hr⟩, if_pos ⟨rfl, hr.1, by omega⟩]
          · rw [if_neg (fun c => hr c.2), if_neg (by omega)]
      · rw [if_neg (fun c => hne c.1), if_neg (fun c => hne c.1), if_neg (fun c => hne c.1)]

/-- **one row** `i ≥ r1 + r2` of `_mzd_compress_l` (`r1 < n1`, `n1` a multiple of 64, `n1 + r2 ≤ ncols`):
    the other rows are kept, row `i` becomes `rowSpec` -/
theorem rowBody_eq (M : Mzd) (hM : M.WF) (i r1 n1 r2 : Nat) (hi : i < M.nrows) (hlt : r1 < n1)
    (h64 : n1 % 64 = 0 ∨ r1 + r2 < r1 / 64 * 64 + 128) (h2 : n1 + r2 ≤ M.ncols) (tmp : BitVec 64) (blk : Int) :
    ∃ tmp' blk' M', rowBody (r1 : Int) (n1 : Int) (r2 : Int) (M.width : Int) M.hb (tmp, memOf M, blk, (i : Int))
        = (tmp', memOf M', blk', (i : Int) + 1) ∧
      Same M M' ∧ (∀ i' j, i' ≠ i → M'.bit i' j = M.bit i' j) ∧ ∀ j, M'.bit i j = rowSpec M i r1 n1 r2 j := by
  unfold rowBody
  dsimp (config := {etaStruct := .none}) only
  have hwd : M.width = (M.ncols + 63) / 64 := rfl
  obtain ⟨tA, MA, eA, pA⟩ := stA_eq M hM i r1 n1 hi (by omega)
  rw [eA]
  dsimp (config := {etaStruct := .none}) only
  have hrest : (64 : Int) - Int.tmod (r1 : Int) 64 = ((64 - r1 % 64 : Nat) : Int) := by rw [tmod_nat]; omega
  have hj : (r1 : Int) + ((64 : Int) - Int.tmod (r1 : Int) 64) = ((r1 / 64 * 64 + 64 : Nat) : Int) := by
    rw [tmod_nat]; omega
  have hblock : Int.tdiv (((n1 : Int) + ((r1 : Int) + ((64 : Int) - Int.tmod (r1 : Int) 64))) - (r1 : Int)) 64
      = (((n1 + (r1 / 64 * 64 + 64) - r1) / 64 : Nat) : Int) := by
    have : ((n1 : Int) + ((r1 : Int) + ((64 : Int) - Int.tmod (r1 : Int) 64))) - (r1 : Int)
        = ((n1 + (r1 / 64 * 64 + 64) - r1 : Nat) : Int) := by rw [tmod_nat]; omega
    rw [this, tdiv_nat]
  obtain ⟨blkB, tB, MB, eB, pB⟩ := stB_eq M MA i r1 n1 r2 hi hlt h64 h2 pA tA
    ((64 : Int) - Int.tmod (r1 : Int) 64) ((r1 : Int) + ((64 : Int) - Int.tmod (r1 : Int) 64))
    (Int.tdiv (((n1 : Int) + ((r1 : Int) + ((64 : Int) - Int.tmod (r1 : Int) 64))) - (r1 : Int)) 64)
    hrest hj hblock
  rw [eB]
  dsimp (config := {etaStruct := .none}) only
  obtain ⟨tC, MC, c3, eC, pC, hc3⟩ := stC_eq M MB i r1 n1 r2
    (r1 / 64 * 64 + 64 + 64 * ((r1 + r2 - (r1 / 64 * 64 + 64)) / 64)) hi hlt h2 (by omega) (by omega) (by omega)
    pB tB _ rfl
  rw [eC]
  dsimp (config := {etaStruct := .none}) only
  obtain ⟨M4, eD, sD, oD, bD⟩ := stD_eq M MC hM i r1 n1 r2 c3 hi hlt h2 (by omega) (by omega) pC
  rw [eD]
  exact ⟨tC, blkB, M4, rfl, sD, oD, bD⟩

theorem rowSpec_congr (M M' : Mzd) (i r1 n1 r2 j : Nat) (hc : M'.ncols = M.ncols)
    (h : ∀ j, M'.bit i j = M.bit i j) : rowSpec M' i r1 n1 r2 j = rowSpec M i r1 n1 r2 j := by
  unfold rowSpec
  simp only [h, hc]

/-! ### 4. the tie -/

/-- the precondition: in the rows `i ≥ r1 + r2` the entries from column `n1 + r2` up to the next word boundary
    are zero (the word-wise clearing loop of the C function zeroes them; the model `Rec.compressL` keeps them) -/
def Pre (A : Mzd) (r1 n1 r2 : Nat) : Prop :=
  ∀ i j, r1 + r2 ≤ i → i < A.nrows → n1 + r2 ≤ j → j < A.ncols → j < (n1 + r2 + 63) / 64 * 64 →
    A.toB.get i j = false

/-- **`_mzd_compress_l(A, r1, n1, r2)`**: generated text = model, for `n1` a multiple of 64 (`n1` is the split point
    of `_mzd_ple`) and under `Pre` -/
theorem mzdCompressL_eq (A : Mzd) (hA : A.WF) (r1 n1 r2 : Nat) (rs : Int) (h1 : r1 ≤ n1) (h2 : n1 + r2 ≤ A.ncols)
    (h3 : r1 + r2 ≤ A.nrows) (h64 : n1 % 64 = 0 ∨ r1 + r2 < r1 / 64 * 64 + 128) (hpre : Pre A r1 n1 r2) :
    Gen.C.mzdCompressL (r1 : Int) (n1 : Int) (r2 : Int) (memOf A) rs (A.nrows : Int) (A.width : Int) A.hb
      = memOf (A.putB (Rec.compressL A.toB r1 n1 r2)) := by
  rw [mzdCompressL_split]
  by_cases he : r1 = n1
  · subst he
    rw [if_pos (by simp), Rec.compressL_eq, if_pos rfl, Mzd.putB_toB hA]
  rw [if_neg (by rw [decide_eq_true_eq]; omega), swaps_loop hA r1 n1 r2 rs h1 h2 h3]
  dsimp (config := {etaStruct := .none}) only
  have hlt : r1 < n1 := by omega
  have hsA := swapsM_same hA r1 n1 r2 r2
  have hlow := fun i j => swapsM_bit_low hA r1 n1 r2 r2 (Nat.le_refl _) h1 h2 i j
  have htoB := swapsM_toB hA r1 n1 r2 r2 (Nat.le_refl _) h1 h2
  generalize swapsM A r1 n1 r2 r2 = A' at hsA hlow htoB ⊢
  generalize hres : CLoop.loop _ _ _ _ = res
  have key := for_loop_eq hres (A.nrows - (r1 + r2))
    (fun k st => ∃ tmp blk M', st = (tmp, memOf M', blk, ((r1 + r2 + k : Nat) : Int)) ∧ Same A' M' ∧
      ∀ i' j, M'.bit i' j = if r1 + r2 ≤ i' ∧ i' < r1 + r2 + k then rowSpec A' i' r1 n1 r2 j else A'.bit i' j)
    (by simp only [Int.toNat_natCast]; omega)
    ⟨0#64, 0, A', by simp only [Nat.add_zero, Prod.mk.injEq, true_and]; omega, Same.refl hsA.wf,
      fun i' j => by rw [if_neg (by omega)]⟩ ?_ ?_
  · obtain ⟨tmp, blk, Mf, ef, hf, bf⟩ := key
    subst ef
    dsimp (config := {etaStruct := .none}) only
    congr 1
    have hfA := hsA.trans hf
    apply Mzd.eq_putB_of_bit hfA.wf hA hfA.nr hfA.nc
    intro i j hi hj
    rw [bf, Rec.compressL_eq, if_neg he, ← htoB, Rec.compressShift_get _ _ _ _ h1]
    by_cases hjc : j < A.ncols
    · have hjc' : j < A'.ncols := by rw [hsA.nc]; exact hjc
      rw [if_pos hjc]
      by_cases hr : r1 + r2 ≤ i
      · rw [if_pos ⟨hr, by omega⟩, if_pos hr]
        unfold rowSpec
        rw [if_neg (by omega)]
        by_cases d1 : j < r1
        · rw [if_pos d1, if_pos d1, Mzd.get_toB_of_lt _ _ _ hjc']
        · rw [if_neg d1, if_neg d1]
          by_cases d2 : j < r1 + r2
          · rw [if_pos d2, if_pos d2, Mzd.get_toB_of_lt _ _ _ (by rw [hsA.nc]; omega)]
          · rw [if_neg d2, if_neg d2]
            by_cases d3 : j < n1 + r2
            · rw [if_pos d3, if_pos (by omega)]
            · rw [if_neg d3, Mzd.get_toB_of_lt _ _ _ hjc']
              by_cases d4 : j < (n1 + r2 + 63) / 64 * 64
              · rw [if_pos d4, hlow i j (Or.inl hr), ← Mzd.get_toB_of_lt _ _ _ hjc]
                exact (hpre i j hr hi (by omega) hjc d4).symm
              · rw [if_neg d4]
      · rw [if_neg (fun c => hr c.1), if_neg hr, Mzd.get_toB_of_lt _ _ _ hjc']
    · rw [if_neg hjc]
      have e : A'.bit i j = A.bit i j := hlow i j (Or.inr (by omega))
      by_cases hr : r1 + r2 ≤ i ∧ i < r1 + r2 + (A.nrows - (r1 + r2))
      · rw [if_pos hr]
        unfold rowSpec
        rw [if_pos (by rw [hsA.nc]; omega), e]
      · rw [if_neg hr, e]
  · intro k st hk ⟨tmp, blk, M', e, hs, hb⟩
    subst e
    dsimp only
    rw [decide_eq_decide]
    omega
  · intro k st hk ⟨tmp, blk, M', e, hs, hb⟩
    subst e
    have hsA' := hsA.trans hs
    obtain ⟨tmp', blk', M'', e', hs', ho, hrow⟩ := rowBody_eq M' hs.wf (r1 + r2 + k) r1 n1 r2
      (by rw [hsA'.nr]; omega) hlt h64 (by rw [hsA'.nc]; exact h2) tmp blk
    rw [hsA'.width, hsA'.hb] at e'
    rw [e']
    refine ⟨tmp', blk', M'', ?_, hs.trans hs', ?_⟩
    · have e1 : ((r1 + r2 + k : Nat) : Int) + 1 = ((r1 + r2 + (k + 1) : Nat) : Int) := by omega
      rw [e1]
    · intro i' j
      by_cases hi' : i' = r1 + r2 + k
      · subst hi'
        rw [hrow, if_pos ⟨by omega, by omega⟩]
        apply rowSpec_congr _ _ _ _ _ _ _ hs.nc
        intro j'
        rw [hb, if_neg (by omega)]
      · rw [ho _ _ hi', hb]
        by_cases hr : r1 + r2 ≤ i' ∧ i' < r1 + r2 + k
        · rw [if_pos hr, if_pos ⟨hr.1, by omega⟩]
        · rw [if_neg hr, if_neg (by omega)]

/-- the corollary for the function parameter of the recursive PLE step -/
theorem mzdCompressL_eq_lift (A : Mzd) (hA : A.WF) (r1 n1 r2 : Nat) (rs : Int) (h1 : r1 ≤ n1)
    (h2 : n1 + r2 ≤ A.ncols) (h3 : r1 + r2 ≤ A.nrows) (h64 : n1 % 64 = 0 ∨ r1 + r2 < r1 / 64 * 64 + 128)
    (hpre : Pre A r1 n1 r2) :
    Gen.C.mzdCompressL (r1 : Int) (n1 : Int) (r2 : Int) (memOf A) rs (A.nrows : Int) (A.width : Int) A.hb
      = GenTiePle.liftCompress ⟨memOf A, A.nrows, A.ncols, A.width, A.hb⟩ r1 n1 r2 := by
  rw [mzdCompressL_eq A hA r1 n1 r2 rs h1 h2 h3 h64 hpre]
  have e := GenTieView.ofView_of A hA
  unfold CLoop.MView.of at e
  unfold GenTiePle.liftCompress
  rw [e]
  simp only [Int.toNat_natCast]

/-! ### 5. the precondition cannot be dropped -/

/-- a 2 × 66 matrix whose row 1 has the entry `(1, 65)` set -/
def cexA : Mzd := ⟨2, 66, #[#[0#64, 0#64], #[0#64, 2#64]]⟩

/-- **without `Pre` generated text and model differ**: `_mzd_compress_l(A, 0, 64, 1)` on `cexA` (`r1 ≤ n1`,
    `n1 + r2 ≤ ncols`, `r1 + r2 ≤ nrows`, `n1 % 64 = 0` all hold) zeroes the whole word 1 of row 1 in its last loop
    (`row[j / m4ri_radix] = 0` for `j = 64 < n1 + r2 = 65`), entry `(1, 65)` included, while `Rec.compressL` keeps
    every entry from column `n1 + r2` on.  (`#eval` of both sides at row 1, word 1 gives `0#64` and `2#64`.) -/
theorem cexA_differs :
    Gen.C.mzdCompressL 0 64 1 (memOf cexA) 2 cexA.nrows cexA.width cexA.hb
      ≠ memOf (cexA.putB (Rec.compressL cexA.toB 0 64 1)) := by
  intro h
  have h1 : (Gen.C.mzdCompressL 0 64 1 (memOf cexA) 2 cexA.nrows cexA.width cexA.hb) 1 1 = 0#64 := by decide
  have h2 : (memOf (cexA.putB (Rec.compressL cexA.toB 0 64 1))) 1 1 = 2#64 := by decide +kernel
  rw [h] at h1
  rw [h1] at h2
  exact absurd h2 (by decide)

theorem cexA_hyps : cexA.WF ∧ 0 ≤ 64 ∧ 64 + 1 ≤ cexA.ncols ∧ 0 + 1 ≤ cexA.nrows ∧ 64 % 64 = 0 ∧ ¬ Pre cexA 0 64 1 := by
  refine ⟨⟨rfl, ?_⟩, by decide, by decide, by decide, by decide, ?_⟩
  · intro i hi
    have : i = 0 ∨ i = 1 := by
      have : i < 2 := hi
      omega
    rcases this with rfl | rfl <;> rfl
  · intro h
    have := h 1 65 (by decide) (by decide) (by decide) (by decide) (by decide)
    revert this
    decide +kernel

end M4ri.GenTieCompress

#print axioms M4ri.GenTieCompress.mzdCompressL_eq
#print axioms M4ri.GenTieCompress.mzdCompressL_eq_lift
#print axioms M4ri.GenTieCompress.cexA_differs
