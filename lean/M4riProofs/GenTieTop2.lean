/-
  GenTieTop2: `_mzd_pluq` (generated text) over the closed generated `_mzd_ple` AND over the GENERATED
  `mzd_apply_p_right_trans_tri` (`Gen.C.mzdApplyPRightTransTri`, callee `mzd_col_swap_in_rows` by the hypothesis
  `GenTieTri.ColSwapTie`), instead of the lifted model operation `liftTri` of GenTieTop.

  §1  the generated tri routine with a ROW BOUND `nr ≤ A.nrows` on the memory of the parent (`tri_bound`): it is the
      model's pass on the first `nr` rows (`passUpTo A P 0 nr A.ncols`), the other rows untouched
  §2  the window `A0 = mzd_init_window(A, 0, 0, r, A->ncols)`: `CLoop.view mem 0 0 = mem` (`view00`), the rows of the
      window matrix are the parent's (`window_row`), `genTri_window`: on the rows / words of the window the generated
      routine on the view and `liftTri` of the view coincide
  §3  `genTri`, `cPluqT`, `cPluqT_eq` (`= cPluq` on every whole matrix), `c_pluq_tri`
  Core Lean tactics only.
-/
import M4riProofs.GenTieTri
import M4riProofs.GenTieTop
set_option linter.unusedVariables false
namespace M4ri.GenTieTop2
open M4ri M4ri.Gen M4ri.GenTieMem M4ri.GenTieView M4ri.BMat M4ri.GenTieTab M4ri.GenTieTri M4ri.GenTieGlue
  M4ri.GenTieTop M4ri.GenTieClose2 M4ri.GenTieClose4 M4ri.GenTiePle M4ri.BMat.PN

/-! ### 1. the generated routine with a row bound -/

/-- the first `k` blocks of `step` rows done, rows bounded by `nr` -/
def blockedN (A : Mzd) (P : Array Nat) (nr step k : Nat) : Mzd :=
  (List.range k).foldl (fun M b => passUpTo M P (b * step) (min (b * step + step) nr) A.ncols) A

theorem blockedN_succ (A : Mzd) (P : Array Nat) (nr step k : Nat) :
    blockedN A P nr step (k + 1) =
      passUpTo (blockedN A P nr step k) P (k * step) (min (k * step + step) nr) A.ncols := by
  simp [blockedN, List.range_succ]

theorem blockedN_shape (A : Mzd) (P : Array Nat) (nr step k : Nat) :
    (blockedN A P nr step k).nrows = A.nrows ∧ (blockedN A P nr step k).ncols = A.ncols ∧
      (blockedN A P nr step k).rows.size = A.rows.size := by
  induction k with
  | zero => exact ⟨rfl, rfl, rfl⟩
  | succ k ih =>
    rw [blockedN_succ]
    obtain ⟨h1, h2⟩ := passUpTo_shape (blockedN A P nr step k) P (k * step) (min (k * step + step) nr) A.ncols
    rw [h1, h2, passUpTo_size]
    exact ih

theorem blockedN_WF (A : Mzd) (P : Array Nat) (nr step k : Nat) (h : A.WF) : (blockedN A P nr step k).WF := by
  induction k with
  | zero => exact h
  | succ k ih => rw [blockedN_succ]; exact passUpTo_WF _ _ _ _ _ ih

theorem blockedN_row (A : Mzd) (P : Array Nat) (nr step k ρ : Nat) (hρ : ρ < A.rows.size) :
    (blockedN A P nr step k).row ρ =
      if ρ < k * step ∧ ρ < nr then triRow P A.ncols ρ (A.row ρ) else A.row ρ := by
  induction k with
  | zero => rw [if_neg (by omega)]; rfl
  | succ k ih =>
    rw [blockedN_succ, passUpTo_row _ _ _ _ _ _ (by rw [(blockedN_shape A P nr step k).2.2]; exact hρ), ih]
    have e : (k + 1) * step = k * step + step := Nat.succ_mul k step
    rw [e]
    by_cases c : k * step ≤ ρ ∧ ρ < min (k * step + step) nr
    · rw [if_pos c, if_neg (by omega), if_pos (by omega)]
    · rw [if_neg c]
      by_cases c2 : ρ < k * step ∧ ρ < nr
      · rw [if_pos c2, if_pos (by omega)]
      · rw [if_neg c2, if_neg (by omega)]

/-- once the blocks cover the bound, the row-blocked double loop is ONE pass on the rows `< nr` -/
theorem blockedN_eq (A : Mzd) (P : Array Nat) (nr step k : Nat) (hk : nr ≤ k * step) :
    blockedN A P nr step k = passUpTo A P 0 nr A.ncols := by
  obtain ⟨b1, b2, b3⟩ := blockedN_shape A P nr step k
  obtain ⟨s1, s2⟩ := passUpTo_shape A P 0 nr A.ncols
  have s3 := passUpTo_size A P 0 nr A.ncols
  apply mzd_ext _ _ (by rw [b1, s1]) (by rw [b2, s2]) (by rw [b3, s3])
  intro ρ hρ
  rw [b3] at hρ
  rw [blockedN_row A P nr step k ρ hρ, passUpTo_row A P 0 nr A.ncols ρ hρ]
  by_cases c : ρ < nr
  · rw [if_pos (by omega), if_pos (by omega)]
  · rw [if_neg (by omega), if_neg (by omega)]

/-- **`mzd_apply_p_right_trans_tri` with `nrows := nr ≤ A.nrows`** (and any `width`) on the memory of `A`: the
    model's pass on the first `nr` rows of `A` -/
theorem tri_bound (h : ColSwapTie) (A : Mzd) (P : Array Nat) (q : Int → Int) (rs : Int) (w nr : Nat)
    (hwf : A.WF) (hnr : nr ≤ A.nrows)
    (hq : ∀ i : Nat, i < A.ncols → q (i : Int) = ((P.getD i 0 : Nat) : Int))
    (hP : ∀ i, i < A.ncols → P.getD i 0 < A.ncols) :
    Gen.C.mzdApplyPRightTransTri (memOf A) (w : Int) (nr : Int) A.ncols q rs
      = memOf (passUpTo A P 0 nr A.ncols) := by
  unfold Gen.C.mzdApplyPRightTransTri
  have hs := step_eq w
  have hs1 := stepOf_pos w
  generalize stepOf w = step at hs hs1
  dsimp (config := { etaStruct := .none }) only
  rw [hs]
  generalize hres : CLoop.loop _ _ _ _ = res
  have key := for_loop_eq hres (nblocks nr step)
    (fun k st => st.2 = ((k * step : Nat) : Int) ∧ st.1 = memOf (blockedN A P nr step k))
    (by rw [Int.toNat_natCast]; exact nblocks_le _ _ hs1) ⟨by simp, rfl⟩ ?_ ?_
  · rw [← blockedN_eq A P nr step (nblocks nr step) (nblocks_cover _ _ hs1), ← key.2]
  · intro k st hk hP'
    obtain ⟨m, r⟩ := st
    obtain ⟨k1, k2⟩ := hP'
    dsimp only at k1 k2 ⊢
    subst k1
    have := lt_nblocks nr step k hs1
    by_cases c : k < nblocks nr step
    · rw [decide_eq_true c, decide_eq_true (by have := this.mp c; omega)]
    · rw [decide_eq_false c, decide_eq_false (by intro c'; exact c (this.mpr (by omega)))]
  · intro k st hk hP'
    obtain ⟨m, r⟩ := st
    obtain ⟨k1, k2⟩ := hP'
    dsimp only at k1 k2
    subst k1 k2
    have hklt := (lt_nblocks nr step k hs1).mp hk
    obtain ⟨b1, b2, b3⟩ := blockedN_shape A P nr step k
    have bwf := blockedN_WF A P nr step k hwf
    generalize hB : blockedN A P nr step k = B at b1 b2 b3 bwf
    have hrb : (if decide ((((k * step : Nat) : Int) + (step : Int)) < (nr : Int)) = true then
        (((k * step : Nat) : Int) + (step : Int)) else (nr : Int))
        = ((min (k * step + step) nr : Nat) : Int) := by
      split <;> rename_i c <;> rw [decide_eq_true_eq] at c <;> omega
    dsimp (config := { etaStruct := .none }) only
    rw [hrb]
    generalize hrbv : min (k * step + step) nr = rb
    have hrbn : rb ≤ nr := by omega
    generalize hres2 : CLoop.loop _ _ _ _ = res2
    have key2 := for_loop_eq hres2 A.ncols
      (fun i st => st.2 = (i : Int) ∧ st.1 = memOf (passUpTo B P (k * step) rb i))
      (Nat.le_of_eq (Int.toNat_natCast _).symm) ⟨rfl, rfl⟩ ?_ ?_
    · obtain ⟨m2, i2⟩ := res2
      obtain ⟨q1, q2⟩ := key2
      dsimp only at q1 q2 ⊢
      subst q2
      refine ⟨?_, ?_⟩
      · rw [Nat.succ_mul]; omega
      · rw [blockedN_succ, hB, hrbv]
    · intro i st hi hQ
      obtain ⟨m, j⟩ := st
      obtain ⟨q1, q2⟩ := hQ
      dsimp only at q1 q2 ⊢
      subst q1
      by_cases c : i < A.ncols
      · rw [decide_eq_true c, decide_eq_true (by omega)]
      · rw [decide_eq_false c, decide_eq_false (by omega)]
    · intro i st hi hQ
      obtain ⟨m, j⟩ := st
      obtain ⟨q1, q2⟩ := hQ
      dsimp only at q1 q2 ⊢
      subst q1 q2
      refine ⟨by omega, ?_⟩
      have e1 : q (i : Int) = ((P.getD i 0 : Nat) : Int) := hq i hi
      have e2 : (if decide ((rb : Int) < (i : Int)) = true then (rb : Int) else (i : Int))
          = ((min rb i : Nat) : Int) := by
        split <;> rename_i c <;> rw [decide_eq_true_eq] at c <;> omega
      obtain ⟨p1, p2⟩ := passUpTo_shape B P (k * step) rb i
      rw [e1, e2, passUpTo_succ]
      exact h _ i (P.getD i 0) (k * step) (min rb i) rs (passUpTo_WF _ _ _ _ _ bwf)
        (by rw [p2, b2]; exact hi) (by rw [p2, b2]; exact hP i hi) (by rw [p1, b1]; omega)

/-- row `ρ` of the model `Mzd.applyPRightTransTri` -/
theorem tri_row (A : Mzd) (P : Array Nat) (hwf : A.WF) (ρ : Nat) (hρ : ρ < A.nrows) :
    (A.applyPRightTransTri P).row ρ = triRow P A.ncols ρ (A.row ρ) := by
  rw [← blocked_eq A P 1 A.nrows hwf (by omega), blocked_row A P 1 A.nrows ρ (by rw [hwf.1]; exact hρ),
    if_pos (by omega)]

/-! ### 2. the window of the first `r` rows -/

/-- the view at offset `(0, 0)` is the memory itself -/
theorem view00 (m : Int → Int → BitVec 64) : CLoop.view m 0 0 = m := by
  funext r w
  unfold CLoop.view
  rw [Int.zero_add, Int.zero_add]

/-- the rows of the window `[0, r) × [0, ncols)` of a well-formed matrix are the rows of the matrix -/
theorem window_row (M : Mzd) (hM : M.WF) (r i : Nat) (hr : r ≤ M.nrows) (hi : i < r) :
    (M.window 0 0 r M.ncols).row i = M.row i := by
  unfold Mzd.window
  rw [row_ofView _ i (by show i < (((r - 0 : Nat) : Int)).toNat; rw [toNat_cast]; omega)]
  have hsz := hM.2 i (by omega)
  apply Array.ext
  · simp only [Array.size_map, Array.size_range]
    rw [hsz]
    show ((((M.ncols - 0 + 63) / 64 : Nat) : Int)).toNat = widthOf M.ncols
    rw [toNat_cast]; rfl
  · intro k k1 k2
    simp only [Array.getElem_map, Array.getElem_range]
    show memOf M (((0 : Nat) : Int) + (i : Int)) (((0 / 64 : Nat) : Int) + (k : Int)) = _
    rw [show ((0 : Nat) : Int) + (i : Int) = (i : Int) by omega,
      show ((0 / 64 : Nat) : Int) + (k : Int) = (k : Int) by omega, memOf_nat, Row.w_eq_getElem _ _ k2]

/-- **the window branch**: on the rows and words of the window of the first `r` rows the generated routine run on
    the view and `liftTri` of the view coincide -/
theorem genTri_window (h : ColSwapTie) (M : Mzd) (hM : M.WF) (q : Int → Int) (rs : Int) (r : Nat) (hr : r ≤ M.nrows)
    (hq : ∀ i : Nat, i < M.ncols → 0 ≤ q (i : Int) ∧ q (i : Int) < (M.ncols : Int)) :
    AgreeOn (r - 0) ((M.ncols - 0 + 63) / 64)
      (Gen.C.mzdApplyPRightTransTri (CLoop.view (memOf M) ((0 : Int) + ((0 : Nat) : Int)) ((0 : Int) + ((0 / 64 : Nat) : Int)))
        (((M.ncols - 0 + 63) / 64 : Nat) : Int) ((r - 0 : Nat) : Int) ((M.ncols - 0 : Nat) : Int) q rs)
      (liftTri ⟨CLoop.view (memOf M) ((0 : Int) + ((0 : Nat) : Int)) ((0 : Int) + ((0 / 64 : Nat) : Int)),
        ((r - 0 : Nat) : Int), ((M.ncols - 0 : Nat) : Int), (((M.ncols - 0 + 63) / 64 : Nat) : Int),
        leftMask ((M.ncols - 0) % 64)⟩ q) := by
  have hg : ∀ i, i < M.ncols → (permOfMem q M.ncols).getD i 0 = (q (i : Int)).toNat := fun i hi =>
    permOfMem_getD q _ i hi
  have hP : ∀ i, i < M.ncols → (permOfMem q M.ncols).getD i 0 < M.ncols := by
    intro i hi
    rw [hg i hi]
    have := hq i hi
    omega
  have hWF := window_WF M 0 0 r M.ncols
  have hWc : (M.window 0 0 r M.ncols).ncols = M.ncols := by rw [ncols_window]; rfl
  have hWr : (M.window 0 0 r M.ncols).nrows = r := by rw [nrows_window]; rfl
  have e : liftTri ⟨CLoop.view (memOf M) ((0 : Int) + ((0 : Nat) : Int)) ((0 : Int) + ((0 / 64 : Nat) : Int)),
        ((r - 0 : Nat) : Int), ((M.ncols - 0 : Nat) : Int), (((M.ncols - 0 + 63) / 64 : Nat) : Int),
        leftMask ((M.ncols - 0) % 64)⟩ q
      = memOf ((M.window 0 0 r M.ncols).putB
          ((M.window 0 0 r M.ncols).toB.applyPRightTransTri (permOfMem q (M.ncols - 0)))) := by
    unfold liftTri
    simp only [Int.zero_add, Int.toNat_natCast]
    rfl
  have ev : CLoop.view (memOf M) ((0 : Int) + ((0 : Nat) : Int)) ((0 : Int) + ((0 / 64 : Nat) : Int)) = memOf M :=
    view00 _
  rw [e, ev, Nat.sub_zero, Nat.sub_zero,
    ← applyPRightTransTri_putB (M.window 0 0 r M.ncols) (permOfMem q M.ncols) hWF (by rw [hWc]; exact hP),
    tri_bound h M (permOfMem q M.ncols) q rs _ r hM hr
      (fun i hi => by rw [hg i hi]; have := hq i hi; omega) hP]
  intro i k hi hk
  rw [memOf_nat, memOf_nat, passUpTo_row M _ 0 r M.ncols i (by rw [hM.1]; omega), if_pos (by omega),
    tri_row _ _ hWF i (by rw [hWr]; exact hi), hWc, window_row M hM r i hr hi]

/-! ### 3. `_mzd_pluq` over the generated `mzd_apply_p_right_trans_tri` -/

/-- the GENERATED `mzd_apply_p_right_trans_tri` as a callee (rowstride `rs`) -/
def genTri (rs : Int) : CLoop.MView → (Int → Int) → (Int → Int → BitVec 64) := fun V q =>
  Gen.C.mzdApplyPRightTransTri V.mem V.width V.nrows V.ncols q rs

/-- **the C function `_mzd_pluq` as generated text, over the closed generated `_mzd_ple` and the generated
    `mzd_apply_p_right_trans_tri`** -/
def cPluqT (base : BMat → Rec.Out) (baseRows : Nat) (rs : Int) (mt n : Nat) : PleFn := fun V p q c =>
  Gen.C.pluqFromPle c V.mem p q V.nrows V.ncols V.width V.hb (cPleFull base baseRows rs mt n) rs (genTri rs)

/-- on every whole well-formed matrix with at least one column `cPluqT` and `cPluq` return the same -/
theorem cPluqT_eq (h : ColSwapTie) (base : BMat → Rec.Out) (hbase : Rec.GoodBase base)
    (hbx : ∀ A : BMat, A.WF → G2.Extra A (base A)) (baseRows : Nat) (rs : Int) (mt n : Nat) (cutoff : Int)
    (A : Mzd) (hA : A.WF) (hc : 1 ≤ A.ncols) (p q : Int → Int) :
    cPluqT base baseRows rs mt n (CLoop.MView.of A) p q cutoff
      = cPluq base baseRows rs mt n (CLoop.MView.of A) p q cutoff := by
  have hple : G2.GoodPle (Rec.pleRec base 64 524288 baseRows n) := G2.goodPle_pleRec hbase hbx 64 524288 baseRows n
  obtain ⟨hS, hP, hQs, hQ, hr1, hr2⟩ := goodPle_facts hple (Mzd.WF_toB hA)
  rw [Mzd.nrows_toB] at hS hP hr1
  rw [Mzd.ncols_toB] at hS hQs hQ hr2
  obtain ⟨c1, c2, c3, c4⟩ := cPleFull_correct base hbase baseRows rs mt n cutoff A hA hc p q
  unfold cPluqT cPluq Gen.C.pluqFromPle
  unfold CLoop.MView.of at c1 c2 c3 c4 ⊢
  dsimp_m
  generalize cPleFull base baseRows rs mt n ⟨memOf A, (A.nrows : Int), (A.ncols : Int), (A.width : Int), A.hb⟩ p q
    cutoff = o at c1 c2 c3 c4 ⊢
  obtain ⟨r, m1, P1, Q1⟩ := o
  dsimp only at c1 c2 c3 c4
  subst c1 c2
  generalize Rec.pleRec base 64 524288 baseRows n A.toB = o at hS hP hQs hQ hr1 hr2 c3 c4
  obtain ⟨S, P, Q, r⟩ := o
  dsimp_m at hS hP hQs hQ hr1 hr2 c3 c4 ⊢
  obtain ⟨M1W, M1B, M1r, M1c⟩ := putB_state hA hS.wf hS.nr hS.nc
  have hq1 : ∀ i : Nat, i < (A.putB S).ncols → 0 ≤ Q1 (i : Int) ∧ Q1 (i : Int) < ((A.putB S).ncols : Int) := by
    intro i hi
    rw [M1c] at hi ⊢
    rw [c4 i (by omega) (by omega)]
    unfold arrOf
    rw [Int.toNat_natCast]
    have := hQ i hi
    omega
  congr 2
  by_cases c : 0 < r ∧ r < A.nrows
  · have hcond : (decide ((r : Int) ≠ 0) && decide ((r : Int) < (A.nrows : Int))) = true := by simp; omega
    rw [if_pos hcond, if_pos hcond]
    rw [mzdInitWindow_in 0 0 r A.ncols A.nrows rs 0 0 r A.ncols A.nrows rfl rfl rfl rfl rfl rfl (by omega) (by omega)
      (by omega)]
    dsimp_m
    have hw := genTri_window h (A.putB S) M1W Q1 rs r (by rw [M1r]; omega) hq1
    rw [M1c] at hw
    exact unview_congr _ _ _ _ _ hw
  · have hcond : ¬ (decide ((r : Int) ≠ 0) && decide ((r : Int) < (A.nrows : Int))) = true := by simp; omega
    rw [if_neg hcond, if_neg hcond]
    unfold genTri
    dsimp_m
    have h1 := mzdApplyPRightTransTri_liftTri h (A.putB S) Q1 rs M1W hq1
    simp only [Mzd.nrows_putB, Mzd.ncols_putB, Mzd.width_putB, Mzd.hb_putB] at h1
    exact h1

/-- the two cannot be told apart by a caller (the form the congruences of GenTieTop consume) -/
theorem cPluqT_agree (h : ColSwapTie) (base : BMat → Rec.Out) (hbase : Rec.GoodBase base)
    (hbx : ∀ A : BMat, A.WF → G2.Extra A (base A)) (baseRows : Nat) (rs : Int) (mt n : Nat) (cutoff : Int)
    (A : Mzd) (hA : A.WF) (hc : 1 ≤ A.ncols) (p q : Int → Int) :
    CallAgree (A.nrows : Int) (A.ncols : Int)
      (cPluqT base baseRows rs mt n ⟨memOf A, (A.nrows : Int), (A.ncols : Int), (A.width : Int), A.hb⟩ p q cutoff)
      (liftPle (pluqM base baseRows n) ⟨memOf A, (A.nrows : Int), (A.ncols : Int), (A.width : Int), A.hb⟩ p q
        cutoff) := by
  have e := cPluqT_eq h base hbase hbx baseRows rs mt n cutoff A hA hc p q
  unfold CLoop.MView.of at e
  rw [e]
  exact cPluq_agree base hbase hbx baseRows rs mt n cutoff A hA hc p q

/-- **C03 ON THE GENERATED TEXT, `mzd_apply_p_right_trans_tri` GENERATED TOO** — `_mzd_pluq` over the whole closed
    `_mzd_ple` and over the generated `mzd_apply_p_right_trans_tri` (callee `mzd_col_swap_in_rows` by `ColSwapTie`):
    the conclusions of `GenTieTop.c_pluq`, both branches of `_mzd_pluq` (whole matrix / window of the first `r` rows) -/
theorem c_pluq_tri (h : ColSwapTie) (base : BMat → Rec.Out) (hbase : Rec.GoodBase base)
    (hbx : ∀ A : BMat, A.WF → G2.Extra A (base A)) (baseRows : Nat) (rs : Int) (mt n : Nat) (cutoff : Int)
    (A : Mzd) (hA : A.WF) (hc : 1 ≤ A.ncols) (p q : Int → Int) :
    (cPluqT base baseRows rs mt n (CLoop.MView.of A) p q cutoff).1
        = (((G2.pluqOfPle (Rec.pleRec base 64 524288 baseRows n) A.toB).2.2.2 : Nat) : Int) ∧
    (cPluqT base baseRows rs mt n (CLoop.MView.of A) p q cutoff).2.1
        = memOf (A.putB (G2.pluqOfPle (Rec.pleRec base 64 524288 baseRows n) A.toB).1) ∧
    (∀ i : Int, 0 ≤ i → i < A.nrows → (cPluqT base baseRows rs mt n (CLoop.MView.of A) p q cutoff).2.2.1 i
        = arrOf (G2.pluqOfPle (Rec.pleRec base 64 524288 baseRows n) A.toB).2.1 i) ∧
    (∀ i : Int, 0 ≤ i → i < A.ncols → (cPluqT base baseRows rs mt n (CLoop.MView.of A) p q cutoff).2.2.2 i
        = arrOf (G2.pluqOfPle (Rec.pleRec base 64 524288 baseRows n) A.toB).2.2.1 i) ∧
    (G2.pluqOfPle (Rec.pleRec base 64 524288 baseRows n) A.toB).1.WF ∧
    IsProfilePLUQ A.toB (G2.pluqOfPle (Rec.pleRec base 64 524288 baseRows n) A.toB).1
      (G2.pluqOfPle (Rec.pleRec base 64 524288 baseRows n) A.toB).2.1
      (G2.pluqOfPle (Rec.pleRec base 64 524288 baseRows n) A.toB).2.2.1
      (G2.pluqOfPle (Rec.pleRec base 64 524288 baseRows n) A.toB).2.2.2 ∧
    IsPLUQ A.toB (G2.pluqOfPle (Rec.pleRec base 64 524288 baseRows n) A.toB).1
      (G2.pluqOfPle (Rec.pleRec base 64 524288 baseRows n) A.toB).2.1
      (G2.pluqOfPle (Rec.pleRec base 64 524288 baseRows n) A.toB).2.2.1
      (G2.pluqOfPle (Rec.pleRec base 64 524288 baseRows n) A.toB).2.2.2 ∧
    checkPLUQ A.toB (G2.pluqOfPle (Rec.pleRec base 64 524288 baseRows n) A.toB).1
      (G2.pluqOfPle (Rec.pleRec base 64 524288 baseRows n) A.toB).2.1
      (G2.pluqOfPle (Rec.pleRec base 64 524288 baseRows n) A.toB).2.2.1
      (G2.pluqOfPle (Rec.pleRec base 64 524288 baseRows n) A.toB).2.2.2 = true ∧
    (G2.pluqOfPle (Rec.pleRec base 64 524288 baseRows n) A.toB).2.2.2 = A.toB.rank := by
  rw [cPluqT_eq h base hbase hbx baseRows rs mt n cutoff A hA hc p q]
  exact c_pluq base hbase hbx baseRows rs mt n cutoff A hA hc p q

end M4ri.GenTieTop2

section Axioms
open M4ri.GenTieTop2
#print axioms tri_bound
#print axioms genTri_window
#print axioms cPluqT_eq
#print axioms cPluqT_agree
#print axioms c_pluq_tri
end Axioms
