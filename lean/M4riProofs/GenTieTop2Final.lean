/-
  `_mzd_pluq` on the C text with `mzd_apply_p_right_trans_tri` on the C text: GenTieTop2 proves the statements under the
  hypothesis `ColSwapTie`, GenTieColSwap proves it; this file discharges the hypothesis.
-/
import M4riProofs.GenTieTop2
import M4riProofs.GenTieTriFinal

namespace M4ri.GenTieTop2Final
open M4ri M4ri.Gen M4ri.GenTieMem M4ri.GenTieView M4ri.BMat M4ri.GenTieTab M4ri.GenTieTri M4ri.GenTieGlue
  M4ri.GenTieTop M4ri.GenTieClose2 M4ri.GenTieClose4 M4ri.GenTiePle M4ri.BMat.PN M4ri.GenTieTop2

/-- the generated `_mzd_pluq` over the whole generated `_mzd_ple` (closed at any depth) AND the generated
    `mzd_apply_p_right_trans_tri` (over the generated `mzd_col_swap_in_rows`) returns exactly what the version with the lifted
    model operation returns: rank, memory, P, Q -/
theorem cPluqT_eq (base : BMat → Rec.Out) (hbase : Rec.GoodBase base)
    (hbx : ∀ A : BMat, A.WF → G2.Extra A (base A)) (baseRows : Nat) (rs : Int) (mt n : Nat) (cutoff : Int)
    (A : Mzd) (hA : A.WF) (hc : 1 ≤ A.ncols) (p q : Int → Int) :
    cPluqT base baseRows rs mt n (CLoop.MView.of A) p q cutoff
      = cPluq base baseRows rs mt n (CLoop.MView.of A) p q cutoff :=
  GenTieTop2.cPluqT_eq GenTieTriFinal.colSwapTie base hbase hbx baseRows rs mt n cutoff A hA hc p q

/-- … in the form the generated consumers (`_mzd_solve_left`, `mzd_kernel_left_pluq`, `mzd_echelonize_pluq`) use -/
theorem cPluqT_agree (base : BMat → Rec.Out) (hbase : Rec.GoodBase base)
    (hbx : ∀ A : BMat, A.WF → G2.Extra A (base A)) (baseRows : Nat) (rs : Int) (mt n : Nat) (cutoff : Int)
    (A : Mzd) (hA : A.WF) (hc : 1 ≤ A.ncols) (p q : Int → Int) :
    CallAgree (A.nrows : Int) (A.ncols : Int)
      (cPluqT base baseRows rs mt n ⟨memOf A, (A.nrows : Int), (A.ncols : Int), (A.width : Int), A.hb⟩ p q cutoff)
      (liftPle (pluqM base baseRows n) ⟨memOf A, (A.nrows : Int), (A.ncols : Int), (A.width : Int), A.hb⟩ p q
        cutoff) :=
  GenTieTop2.cPluqT_agree GenTieTriFinal.colSwapTie base hbase hbx baseRows rs mt n cutoff A hA hc p q

/-- … hence a valid PLUQ factorisation with `r = rank A`: rank, memory, P and Q on their ranges are those of the model
    factorisation, which is a profile PLUQ of `A` (the remaining conclusions of `GenTieTop.c_pluq` are about the model only) -/
theorem c_pluq_tri (base : BMat → Rec.Out) (hbase : Rec.GoodBase base)
    (hbx : ∀ A : BMat, A.WF → G2.Extra A (base A)) (baseRows : Nat) (rs : Int) (mt n : Nat) (cutoff : Int)
    (A : Mzd) (hA : A.WF) (hc : 1 ≤ A.ncols) (p q : Int → Int) :
    (cPluqT base baseRows rs mt n (CLoop.MView.of A) p q cutoff).1
        = (((G2.pluqOfPle (Rec.pleRec base 64 524288 baseRows n) A.toB).2.2.2 : Nat) : Int) ∧
    (cPluqT base baseRows rs mt n (CLoop.MView.of A) p q cutoff).2.1
        = memOf (A.putB (G2.pluqOfPle (Rec.pleRec base 64 524288 baseRows n) A.toB).1) ∧
    IsPLUQ A.toB (G2.pluqOfPle (Rec.pleRec base 64 524288 baseRows n) A.toB).1
      (G2.pluqOfPle (Rec.pleRec base 64 524288 baseRows n) A.toB).2.1
      (G2.pluqOfPle (Rec.pleRec base 64 524288 baseRows n) A.toB).2.2.1
      (G2.pluqOfPle (Rec.pleRec base 64 524288 baseRows n) A.toB).2.2.2 ∧
    (G2.pluqOfPle (Rec.pleRec base 64 524288 baseRows n) A.toB).2.2.2 = A.toB.rank := by
  have h := GenTieTop2.c_pluq_tri GenTieTriFinal.colSwapTie base hbase hbx baseRows rs mt n cutoff A hA hc p q
  exact ⟨h.1, h.2.1, h.2.2.2.2.2.2.1, h.2.2.2.2.2.2.2.2⟩

end M4ri.GenTieTop2Final
