/-
  Tie of the generated `_mzd_mul_naive` (`Gen.C.mzdMulNaive`, `M4ri/Gen/CFuns.lean`) with the word-level model
  `Mzd.W.mulNaiveTW` (`M4ri/MulW.lean`).

    `mzdMulNaive_mirror`      the generated text = `mirror` (the same text with its loops named), by `rfl`
    `blocked_remainder_iter`  generic: blocked double row loop + remainder row loop = the row body iterated over
    `blocked_remainder_eq`      `[0, nrows)` / = the single loop `for (i = 0; i < nrows; ++i)`   (any state-passing body)
    `down_loop`, `up_loop`    `parity[k]`: the downward and the upward `ii` loop give the same upward XOR fold
    `rowBody_eq`              the row body on ANY memories and ANY incoming `parity` array: row `i` gets the model words
    `clearLoop_eq`            the inlined clearing loop = `GenTieSolve.clrMem` (closed form of `mzd_set_ui(·, 0)`)
    `mirror_noclear`          closed form `naiveMem` of the whole function on arbitrary memories
    `mzdMulNaive_eq`          generated function on `memOf C` = `memOf (mulNaiveTW C A BT clear stale)`, for EVERY `stale`
    `mzdMulNaive_eq_exists`   … the existential form
    `mzdMulNaive_spec`        entries of the result memory: `(clear ? 0 : C[i,j]) ⊕ ⊕_t A[i,t] ∧ BT[j,t]`, excess bits kept
    `mzdMulNaive_eq_putB`     … = `C.putB (BMat.mulNaiveT …)`
  The left-over entries `parity[k]`, `k ≥ ncols % 64`, are threaded through the row loops but only enter the result
  under `mask_end = C->high_bitmask`, which hides them (`parity64_and_leftMask`): no difference between C and model.
  Core Lean tactics only.
-/
import M4ri.Gen.CFuns
import M4ri.Mzd
import M4ri.MulW
import M4riProofs.Basic
import M4riProofs.GenTieMem
import M4riProofs.GenTie
import M4riProofs.GenTieRec
import M4riProofs.GenTieSolve
import M4riProofs.MulW
set_option linter.unusedVariables false
namespace M4ri.GenTieNaive
open M4ri M4ri.Gen M4ri.GenTieMem M4ri.Mzd.W

abbrev Mem := Int → Int → BitVec 64
abbrev PA := Int → BitVec 64

/-! ### 0. mirror of the generated text, loops named -/

/-- the clearing loop (`mzd_set_ui(C, 0)` inlined; last word at the exit value of `j`) -/
def clearLoop (m : Mem) (hb : BitVec 64) (nr cw : Int) : Mem :=
  (CLoop.loop nr.toNat (fun st : Mem × Int => decide (st.2 < nr))
    (fun st : Mem × Int =>
      (CLoop.upd2
        (CLoop.loop cw.toNat (fun u : Mem × Int => decide (u.2 < cw - 1))
          (fun u : Mem × Int => (CLoop.upd2 u.1 st.2 (0 + u.2) (0#64), u.2 + 1)) (st.1, 0)).1
        st.2
        (0 + (CLoop.loop cw.toNat (fun u : Mem × Int => decide (u.2 < cw - 1))
          (fun u : Mem × Int => (CLoop.upd2 u.1 st.2 (0 + u.2) (0#64), u.2 + 1)) (st.1, 0)).2)
        (((CLoop.loop cw.toNat (fun u : Mem × Int => decide (u.2 < cw - 1))
          (fun u : Mem × Int => (CLoop.upd2 u.1 st.2 (0 + u.2) (0#64), u.2 + 1)) (st.1, 0)).1 st.2
          (0 + (CLoop.loop cw.toNat (fun u : Mem × Int => decide (u.2 < cw - 1))
          (fun u : Mem × Int => (CLoop.upd2 u.1 st.2 (0 + u.2) (0#64), u.2 + 1)) (st.1, 0)).2)) &&& ~~~hb),
       st.2 + 1))
    (m, 0)).1

/-- `word parity[64]` zero-initialised -/
def parityInit : PA :=
  (CLoop.loop 64 (fun st : PA × Int => decide (st.2 < 64))
    (fun st : PA × Int => (CLoop.upd1w st.1 (0 + st.2) (0#64), st.2 + 1)) (fun _ => 0#64, 0)).1

/-- `parity[k] = a[0] & b[0]; for (ii = wide - 1; ii >= 1; --ii) parity[k] ^= a[ii] & b[ii]` -/
def accDown (mA mB : Mem) (aw i b k : Int) (p : PA) : PA :=
  (CLoop.loop aw.toNat (fun st : PA × Int => decide (st.2 ≥ 1))
    (fun st : PA × Int =>
      (CLoop.upd1w st.1 (0 + k) (st.1 (0 + k) ^^^ (mA i (0 + st.2) &&& mB b (0 + st.2))), st.2 - 1))
    (CLoop.upd1w p (0 + k) (mA i (0 + 0) &&& mB b (0 + 0)), aw - 1)).1

/-- `parity[k] = a[0] & b[0]; for (ii = 1; ii < wide; ++ii) parity[k] ^= a[ii] & b[ii]` -/
def accUp (mA mB : Mem) (aw i b k : Int) (p : PA) : PA :=
  (CLoop.loop aw.toNat (fun st : PA × Int => decide (st.2 < aw))
    (fun st : PA × Int =>
      (CLoop.upd1w st.1 (0 + k) (st.1 (0 + k) ^^^ (mA i (0 + st.2) &&& mB b (0 + st.2))), st.2 + 1))
    (CLoop.upd1w p (0 + k) (mA i (0 + 0) &&& mB b (0 + 0)), 1)).1

/-- the 64 entries of `parity` for a whole destination word -/
def kLoopW (mA mB : Mem) (aw i j : Int) (p : PA) : PA :=
  (CLoop.loop 64 (fun st : PA × Int => decide (st.2 < 64))
    (fun st : PA × Int => (accDown mA mB aw i (j + st.2) st.2 st.1, st.2 + 1)) (p, 0)).1

/-- the first `ncols % 64` entries of `parity` for the partial last word -/
def kLoopP (mA mB : Mem) (aw i eol ncm : Int) (p : PA) : PA :=
  (CLoop.loop 64 (fun st : PA × Int => decide (st.2 < ncm))
    (fun st : PA × Int => (accUp mA mB aw i (64 * eol + st.2) st.2 st.1, st.2 + 1)) (p, 0)).1

/-- the loop over the whole destination words of row `i` -/
def jLoop (mA mB : Mem) (aw cw eol i : Int) (p : PA) (m : Mem) : PA × Mem × Int :=
  CLoop.loop (cw.toNat + 1) (fun st : PA × Mem × Int => decide (st.2.2 < 64 * eol))
    (fun st : PA × Mem × Int =>
      (kLoopW mA mB aw i st.2.2 st.1,
       CLoop.upd2 st.2.1 i (0 + Int.tdiv st.2.2 64)
         (st.2.1 i (0 + Int.tdiv st.2.2 64) ^^^ Gen.C.parity64 (kLoopW mA mB aw i st.2.2 st.1)),
       st.2.2 + 64))
    (p, m, 0)

/-- the partial last word -/
def lastWord (mA mB : Mem) (hb : BitVec 64) (aw cw nc eol i : Int) (r : PA × Mem × Int) : PA × Mem :=
  if decide (eol ≠ cw) then
    (kLoopP mA mB aw i eol (Int.tmod nc 64) r.1,
     CLoop.upd2 r.2.1 i (0 + eol)
       (r.2.1 i (0 + eol) ^^^ (Gen.C.parity64 (kLoopP mA mB aw i eol (Int.tmod nc 64) r.1) &&& hb)))
  else (r.1, r.2.1)

/-- the row body, common to the blocked loop and the remainder loop -/
def rowBody (mA mB : Mem) (hb : BitVec 64) (aw cw nc eol : Int) (st : PA × Mem × Int) : PA × Mem × Int :=
  ((lastWord mA mB hb aw cw nc eol st.2.2 (jLoop mA mB aw cw eol st.2.2 st.1 st.2.1)).1,
   (lastWord mA mB hb aw cw nc eol st.2.2 (jLoop mA mB aw cw eol st.2.2 st.1 st.2.1)).2,
   st.2.2 + 1)

/-- blocked row loop, then remainder row loop, for a state-passing row body -/
def blockedRows {α β : Type} (rb : α × β × Int → α × β × Int) (bs nr : Int) (fo fi fr : Nat) (a : α) (b : β) :
    α × β × Int :=
  CLoop.loop fr (fun s : α × β × Int => decide (s.2.2 < nr)) rb
    ((CLoop.loop fo (fun s : α × β × Int => decide (s.2.2 + bs ≤ nr))
      (fun s : α × β × Int =>
        ((CLoop.loop fi (fun u : α × β × Int => decide (u.2.2 < s.2.2 + bs)) rb (s.1, s.2.1, s.2.2)).1,
         (CLoop.loop fi (fun u : α × β × Int => decide (u.2.2 < s.2.2 + bs)) rb (s.1, s.2.1, s.2.2)).2.1,
         s.2.2 + bs)) (a, b, 0)).1,
     (CLoop.loop fo (fun s : α × β × Int => decide (s.2.2 + bs ≤ nr))
      (fun s : α × β × Int =>
        ((CLoop.loop fi (fun u : α × β × Int => decide (u.2.2 < s.2.2 + bs)) rb (s.1, s.2.1, s.2.2)).1,
         (CLoop.loop fi (fun u : α × β × Int => decide (u.2.2 < s.2.2 + bs)) rb (s.1, s.2.1, s.2.2)).2.1,
         s.2.2 + bs)) (a, b, 0)).2.1,
     nr - Int.tmod nr bs)

def eolOf (cw nc : Int) : Int := if decide (Int.tmod nc 64 ≠ 0) then cw - 1 else cw

def mirror (bs : Int) (clear : Int) (mC : Mem) (hb : BitVec 64) (nr cw nc aw : Int) (mA mB : Mem) : Mem :=
  (blockedRows (rowBody mA mB hb aw cw nc (eolOf cw nc)) bs nr nr.toNat nr.toNat nr.toNat parityInit
    (if decide (clear ≠ 0) then clearLoop mC hb nr cw else mC)).2.1

attribute [local irreducible] CLoop.loop in
set_option maxRecDepth 8000 in
theorem mzdMulNaive_mirror (clear : Int) (mC : Mem) (hb : BitVec 64) (nr cw nc aw : Int) (mA mB : Mem) :
    Gen.C.mzdMulNaive clear mC hb nr cw nc aw mA mB =
      mirror (if (decide ((Int.tdiv (Int.ofNat (Nat.sqrt (((4 : Int) * (56623104 : Int))).toNat)) (2 : Int)) < (2048 : Int))) then (Int.tdiv (Int.ofNat (Nat.sqrt (((4 : Int) * (56623104 : Int))).toNat)) (2 : Int)) else (2048 : Int))
        clear mC hb nr cw nc aw mA mB := rfl

/-! ### 1. generic: blocked loop + remainder loop = every row once, in order -/

/-- `f` applied `n` times -/
def iter {σ : Type} (f : σ → σ) : Nat → σ → σ
  | 0, s => s
  | n + 1, s => f (iter f n s)

theorem iter_add {σ : Type} (f : σ → σ) (a b : Nat) (s : σ) : iter f (a + b) s = iter f b (iter f a s) := by
  induction b with
  | zero => rfl
  | succ b ih =>
    show f (iter f (a + b) s) = f (iter f b (iter f a s))
    rw [ih]

theorem idx_iter {α β : Type} (rb : α × β × Int → α × β × Int) (hidx : ∀ s, (rb s).2.2 = s.2.2 + 1)
    (k : Nat) (s : α × β × Int) : (iter rb k s).2.2 = s.2.2 + (k : Int) := by
  induction k with
  | zero => show s.2.2 = s.2.2 + ((0 : Nat) : Int); omega
  | succ k ih =>
    show (rb (iter rb k s)).2.2 = _
    rw [hidx, ih]; omega

/-- a counting row loop is the iterated row body -/
theorem count_loop {α β : Type} (rb : α × β × Int → α × β × Int) (hidx : ∀ s, (rb s).2.2 = s.2.2 + 1)
    (n fuel : Nat) (hf : n ≤ fuel) (s : α × β × Int) (hi : Int) (hhi : hi = s.2.2 + (n : Int)) :
    CLoop.loop fuel (fun u : α × β × Int => decide (u.2.2 < hi)) rb s = iter rb n s := by
  generalize hres : CLoop.loop _ _ _ _ = res
  refine for_loop_eq hres n (fun k st => st = iter rb k s) hf rfl ?_ ?_
  · intro k st hk hP
    subst hP
    show decide ((iter rb k s).2.2 < hi) = _
    rw [idx_iter rb hidx, hhi]
    congr 1
    apply propext
    omega
  · intro k st hk hP
    subst hP
    rfl

/-- **blocked double loop + remainder loop = the row body iterated over `[0, nr)`** -/
theorem blocked_remainder_iter {α β : Type} (rb : α × β × Int → α × β × Int)
    (hidx : ∀ s, (rb s).2.2 = s.2.2 + 1) (bs nr : Nat) (hbs : 1 ≤ bs) (fo fi fr : Nat)
    (hfo : nr / bs ≤ fo) (hfi : bs ≤ nr → bs ≤ fi) (hfr : nr % bs ≤ fr) (a : α) (b : β) :
    blockedRows rb (bs : Int) (nr : Int) fo fi fr a b = iter rb nr (a, b, 0) := by
  unfold blockedRows
  generalize hres : CLoop.loop fo _ _ (a, b, (0 : Int)) = s1
  have key : s1 = iter rb (bs * (nr / bs)) (a, b, 0) := by
    refine for_loop_eq hres (nr / bs) (fun t st => st = iter rb (bs * t) (a, b, 0)) hfo rfl ?_ ?_
    · intro t st ht hP
      subst hP
      show decide ((iter rb (bs * t) (a, b, (0 : Int))).2.2 + (bs : Int) ≤ (nr : Int)) = _
      rw [idx_iter rb hidx]
      congr 1
      apply propext
      have h1 : (t + 1) * bs = bs * t + bs := by rw [Nat.add_mul, Nat.one_mul, Nat.mul_comm]
      have h2 := Nat.le_div_iff_mul_le (x := t + 1) (y := nr) hbs
      show (0 : Int) + ((bs * t : Nat) : Int) + (bs : Int) ≤ (nr : Int) ↔ t < nr / bs
      omega
    · intro t st ht hP
      have hge : bs ≤ nr := by
        have h2 := (Nat.le_div_iff_mul_le (x := 1) (y := nr) hbs).1 (by omega)
        omega
      have e : CLoop.loop fi (fun u : α × β × Int => decide (u.2.2 < st.2.2 + (bs : Int))) rb (st.1, st.2.1, st.2.2)
          = iter rb bs st := count_loop rb hidx bs fi (hfi hge) st _ rfl
      rw [e, Nat.mul_succ, iter_add, ← hP]
      exact Prod.ext rfl (Prod.ext rfl (idx_iter rb hidx bs st).symm)
  have hs1 : s1.2.2 = ((bs * (nr / bs) : Nat) : Int) := by
    rw [key, idx_iter rb hidx]; show (0 : Int) + _ = _; omega
  have hdm := Nat.div_add_mod nr bs
  have hst : ((nr : Int) - Int.tmod (nr : Int) (bs : Int)) = s1.2.2 := by
    rw [hs1, ← Int.ofNat_tmod]; omega
  have e2 : (s1.1, s1.2.1, (nr : Int) - Int.tmod (nr : Int) (bs : Int)) = s1 := by
    rw [hst]
  rw [e2, count_loop rb hidx (nr % bs) fr hfr s1 _ (by rw [hs1]; omega), key, ← iter_add, hdm]

/-- the same, against the single row loop `for (i = 0; i < nrows; ++i)` -/
theorem blocked_remainder_eq {α β : Type} (rb : α × β × Int → α × β × Int)
    (hidx : ∀ s, (rb s).2.2 = s.2.2 + 1) (bs nr : Nat) (hbs : 1 ≤ bs) (fo fi fr : Nat)
    (hfo : nr / bs ≤ fo) (hfi : bs ≤ nr → bs ≤ fi) (hfr : nr % bs ≤ fr) (a : α) (b : β) :
    blockedRows rb (bs : Int) (nr : Int) fo fi fr a b =
      CLoop.loop nr (fun u : α × β × Int => decide (u.2.2 < (nr : Int))) rb (a, b, 0) := by
  rw [blocked_remainder_iter rb hidx bs nr hbs fo fi fr hfo hfi hfr,
    count_loop rb hidx nr nr (Nat.le_refl _) (a, b, 0) _ (by show (nr : Int) = 0 + (nr : Int); omega)]

/-! ### 2. the `ii` loops: `parity[k]` = the AND-accumulated word, downwards or upwards -/

/-- `x ^ G 1 ^ … ^ G n`, folded upwards -/
def xfold (G : Nat → BitVec 64) (n : Nat) (x : BitVec 64) : BitVec 64 :=
  (List.range n).foldl (fun q ii => q ^^^ G (ii + 1)) x

theorem xfold_succ (G : Nat → BitVec 64) (n : Nat) (x : BitVec 64) :
    xfold G (n + 1) x = xfold G n x ^^^ G (n + 1) := by
  unfold xfold
  rw [List.range_succ, List.foldl_append]
  rfl

/-- XOR commutes: an extra term may be added first or last -/
theorem xfold_xor (G : Nat → BitVec 64) (n : Nat) (x y : BitVec 64) :
    xfold G n (x ^^^ y) = xfold G n x ^^^ y := by
  induction n with
  | zero => rfl
  | succ n ih =>
    rw [xfold_succ, xfold_succ, ih]
    ac_rfl

/-- the word `parity[k]` for row `i` of `A` and row `b` of `BT` (any memories) -/
def accW (mA mB : Mem) (aw : Nat) (i b : Int) : BitVec 64 :=
  xfold (fun ii => mA i (ii : Int) &&& mB b (ii : Int)) (aw - 1) (mA i 0 &&& mB b 0)

theorem upd1w_upd1w (p : PA) (k : Int) (x y : BitVec 64) :
    CLoop.upd1w (CLoop.upd1w p k x) k y = CLoop.upd1w p k y := by
  funext z
  unfold CLoop.upd1w
  by_cases h : z = k
  · rw [if_pos h, if_pos h]
  · rw [if_neg h, if_neg h, if_neg h]

theorem upd1w_self (p : PA) (k : Int) (x : BitVec 64) : CLoop.upd1w p k x k = x := by
  unfold CLoop.upd1w
  rw [if_pos rfl]

/-- the DOWNWARD loop `for (ii = n; ii >= 1; --ii) parity[k] ^= G ii` gives the upward fold -/
theorem down_loop (G : Int → BitVec 64) (k : Int) (p : PA) :
    ∀ (n fuel : Nat) (x : BitVec 64), n ≤ fuel →
      (CLoop.loop fuel (fun st : PA × Int => decide (st.2 ≥ 1))
        (fun st : PA × Int => (CLoop.upd1w st.1 k (st.1 k ^^^ G st.2), st.2 - 1))
        (CLoop.upd1w p k x, (n : Int))).1 = CLoop.upd1w p k (xfold (fun ii => G (ii : Int)) n x) := by
  intro n
  induction n with
  | zero =>
    intro fuel x _
    rw [loop_of_false _ _ _ _ (by simp)]
    rfl
  | succ n ih =>
    intro fuel x hf
    obtain ⟨f, rfl⟩ : ∃ f, fuel = f + 1 := ⟨fuel - 1, by omega⟩
    rw [loop_succ, if_pos (by simp; omega)]
    dsimp only
    rw [upd1w_upd1w, upd1w_self, show (((n + 1 : Nat) : Int) - 1) = (n : Int) by omega, ih f _ (by omega),
      xfold_xor, xfold_succ]

/-- the UPWARD loop `for (ii = 1; ii < aw; ++ii) parity[k] ^= G ii` -/
theorem up_loop (G : Int → BitVec 64) (k : Int) (p : PA) (aw fuel : Nat) (x : BitVec 64) (hf : aw ≤ fuel) :
    (CLoop.loop fuel (fun st : PA × Int => decide (st.2 < (aw : Int)))
      (fun st : PA × Int => (CLoop.upd1w st.1 k (st.1 k ^^^ G st.2), st.2 + 1))
      (CLoop.upd1w p k x, (1 : Int))).1 = CLoop.upd1w p k (xfold (fun ii => G (ii : Int)) (aw - 1) x) := by
  generalize hres : CLoop.loop _ _ _ _ = res
  have key := for_loop_eq hres (aw - 1)
    (fun j st => st = (CLoop.upd1w p k (xfold (fun ii => G (ii : Int)) j x), (j : Int) + 1)) (by omega) rfl ?_ ?_
  · rw [key]
  · intro j st hj hP
    subst hP
    dsimp only
    congr 1
    apply propext
    omega
  · intro j st hj hP
    subst hP
    dsimp only
    rw [upd1w_upd1w, upd1w_self, xfold_succ, show ((j + 1 : Nat) : Int) = (j : Int) + 1 by omega]

theorem accDown_eq (mA mB : Mem) (aw : Nat) (i b k : Int) (p : PA) :
    accDown mA mB (aw : Int) i b k p = CLoop.upd1w p k (accW mA mB aw i b) := by
  unfold accDown accW
  simp only [Int.zero_add]
  rcases aw with _ | n
  · rw [loop_of_false _ _ _ _ (by simp)]
    rfl
  · rw [show (((n + 1 : Nat) : Int) - 1) = (n : Int) by omega]
    exact down_loop (fun z => mA i z &&& mB b z) k p n _ _ (by simp)

theorem accUp_eq (mA mB : Mem) (aw : Nat) (i b k : Int) (p : PA) :
    accUp mA mB (aw : Int) i b k p = CLoop.upd1w p k (accW mA mB aw i b) := by
  unfold accUp accW
  simp only [Int.zero_add]
  exact up_loop (fun z => mA i z &&& mB b z) k p aw _ _ (by simp)

/-! ### 3. the `k` loops and the parity network -/

theorem kLoopW_eq (mA mB : Mem) (aw : Nat) (i j : Int) (p : PA) :
    kLoopW mA mB (aw : Int) i j p =
      fun z => if 0 ≤ z ∧ z < 64 then accW mA mB aw i (j + z) else p z := by
  unfold kLoopW
  generalize hres : CLoop.loop _ _ _ _ = res
  have key := for_loop_eq hres 64
    (fun t st => st = ((fun z => if 0 ≤ z ∧ z < (t : Int) then accW mA mB aw i (j + z) else p z : PA), (t : Int)))
    (Nat.le_refl _) (by
      show (p, (0 : Int)) = _
      refine Prod.ext ?_ rfl
      funext z
      dsimp only
      rw [if_neg (by omega)]) ?_ ?_
  · rw [key]
    funext z
    dsimp only
    exact if_congr (by omega) rfl rfl
  · intro t st ht hP
    subst hP
    dsimp only
    rw [decide_eq_decide]
    omega
  · intro t st ht hP
    subst hP
    dsimp only
    rw [accDown_eq]
    refine Prod.ext ?_ (by show (t : Int) + 1 = ((t + 1 : Nat) : Int); omega)
    funext z
    dsimp only
    unfold CLoop.upd1w
    by_cases h : z = (t : Int)
    · subst h
      rw [if_pos rfl, if_pos (by omega)]
    · rw [if_neg h]
      exact if_congr (by omega) rfl rfl

theorem kLoopP_eq (mA mB : Mem) (aw ncm : Nat) (hn : ncm ≤ 64) (i eol : Int) (p : PA) :
    kLoopP mA mB (aw : Int) i eol (ncm : Int) p =
      fun z => if 0 ≤ z ∧ z < (ncm : Int) then accW mA mB aw i (64 * eol + z) else p z := by
  unfold kLoopP
  generalize hres : CLoop.loop _ _ _ _ = res
  have key := for_loop_eq hres ncm
    (fun t st => st = ((fun z => if 0 ≤ z ∧ z < (t : Int) then accW mA mB aw i (64 * eol + z) else p z : PA),
      (t : Int)))
    hn (by
      show (p, (0 : Int)) = _
      refine Prod.ext ?_ rfl
      funext z
      dsimp only
      rw [if_neg (by omega)]) ?_ ?_
  · rw [key]
  · intro t st ht hP
    subst hP
    dsimp only
    rw [decide_eq_decide]
    omega
  · intro t st ht hP
    subst hP
    dsimp only
    rw [accUp_eq]
    refine Prod.ext ?_ (by show (t : Int) + 1 = ((t + 1 : Nat) : Int); omega)
    funext z
    dsimp only
    unfold CLoop.upd1w
    by_cases h : z = (t : Int)
    · subst h
      rw [if_pos rfl, if_pos (by omega)]
    · rw [if_neg h]
      exact if_congr (by omega) rfl rfl

/-- the generated parity network on a local array = the model's `parity64` -/
theorem genParity64_eq (p : PA) : Gen.C.parity64 p = parity64 (fun t => p (t : Int)) := rfl

/-- `m4ri_parity64` reads the 64 entries `buf[0..63]` only -/
theorem parity64_congr (f g : Nat → Word) (h : ∀ t, t < 64 → f t = g t) : parity64 f = parity64 g := by
  apply BitVec.eq_of_getLsbD_eq
  intro q hq
  rw [parity64_getLsbD _ _ hq, parity64_getLsbD _ _ hq, h q hq]

/-- under `mask_end = leftMask n` only the entries `buf[0..n-1]` matter -/
theorem parity64_and_leftMask (n : Nat) (hn : 1 ≤ n) (hn' : n ≤ 64) (f g : Nat → Word)
    (h : ∀ t, t < n → f t = g t) : parity64 f &&& leftMask n = parity64 g &&& leftMask n := by
  apply BitVec.eq_of_getLsbD_eq
  intro q hq
  rw [BitVec.getLsbD_and, BitVec.getLsbD_and, leftMask_getLsbD _ _ hn hn', parity64_getLsbD _ _ hq,
    parity64_getLsbD _ _ hq]
  by_cases hqn : q < n
  · rw [h q hqn]
  · simp [hqn]

/-! ### 4. the row body -/

/-- what is XORed into the whole word `w` of row `r` -/
def F1 (mA mB : Mem) (aw : Nat) (r w : Int) : BitVec 64 :=
  parity64 (fun t => accW mA mB aw r (64 * w + (t : Int)))

/-- what is XORed into the partial last word of row `r` -/
def F2 (mA mB : Mem) (hb : BitVec 64) (aw ncm : Nat) (eol : Int) (stale : Nat → Nat → Word) (r : Int) : BitVec 64 :=
  parity64 (fun t => if t < ncm then accW mA mB aw r (64 * eol + (t : Int)) else stale r.toNat t) &&& hb

/-- new value of the word `(r, w)` with old value `v` -/
def rowVal (mA mB : Mem) (hb : BitVec 64) (aw ncm : Nat) (eol cw : Int) (stale : Nat → Nat → Word)
    (v : BitVec 64) (r w : Int) : BitVec 64 :=
  if 0 ≤ w ∧ w < eol then v ^^^ F1 mA mB aw r w
  else if w = eol ∧ eol ≠ cw then v ^^^ F2 mA mB hb aw ncm eol stale r
  else v

theorem tdiv64 (jw : Nat) : Int.tdiv (64 * (jw : Int)) 64 = (jw : Int) := by
  rw [Int.tdiv_eq_ediv_of_nonneg (by omega)]; omega

/-- the loop over the whole words of row `i` -/
theorem jLoop_eq (mA mB : Mem) (aw cw eol : Nat) (heol : eol ≤ cw) (i : Int) (p : PA) (m : Mem) :
    (jLoop mA mB (aw : Int) (cw : Int) (eol : Int) i p m).2.1 =
      fun r w => if r = i ∧ 0 ≤ w ∧ w < (eol : Int) then m r w ^^^ F1 mA mB aw r w else m r w := by
  unfold jLoop
  generalize hres : CLoop.loop _ _ _ _ = res
  have key := for_loop_eq hres eol
    (fun jw st => st.2.2 = 64 * (jw : Int) ∧
      st.2.1 = fun r w => if r = i ∧ 0 ≤ w ∧ w < (jw : Int) then m r w ^^^ F1 mA mB aw r w else m r w)
    (by simp; omega) ⟨rfl, by
      funext r w
      dsimp only
      rw [if_neg (by omega)]⟩ ?_ ?_
  · exact key.2
  · intro jw st hjw hP
    obtain ⟨p1, m1, j1⟩ := st
    obtain ⟨h1, h2⟩ := hP
    dsimp only at h1 h2 ⊢
    subst h1
    rw [decide_eq_decide]
    omega
  · intro jw st hjw hP
    obtain ⟨p1, m1, j1⟩ := st
    obtain ⟨h1, h2⟩ := hP
    dsimp only at h1 h2 ⊢
    subst h1 h2
    refine ⟨by omega, ?_⟩
    rw [tdiv64, Int.zero_add, kLoopW_eq, genParity64_eq]
    have hpar : parity64 (fun t : Nat => (fun z : Int => if 0 ≤ z ∧ z < 64 then accW mA mB aw i (64 * (jw : Int) + z)
        else p1 z) (t : Int)) = F1 mA mB aw i (jw : Int) := by
      unfold F1
      apply parity64_congr
      intro t ht
      dsimp only
      rw [if_pos (by omega)]
    rw [hpar]
    funext r w
    unfold CLoop.upd2
    dsimp only
    by_cases h : r = i ∧ w = (jw : Int)
    · obtain ⟨rfl, rfl⟩ := h
      rw [if_pos ⟨rfl, rfl⟩, if_neg (by omega), if_pos (by omega)]
    · rw [if_neg h]
      exact if_congr (by omega) rfl rfl

/-- **the row body**: whatever the `parity` array holds on entry, row `i` of the memory gets the model words
    (for every content `stale` of the left-over entries, as long as `mask_end` hides them) -/
theorem rowBody_eq (mA mB : Mem) (hb : BitVec 64) (aw cw eol ncm : Nat) (nc : Int)
    (hnc : Int.tmod nc 64 = (ncm : Int)) (heol : eol ≤ cw) (hncm : ncm ≤ 64)
    (hmask : eol ≠ cw → ∀ f g : Nat → Word, (∀ t, t < ncm → f t = g t) → parity64 f &&& hb = parity64 g &&& hb)
    (stale : Nat → Nat → Word) (p : PA) (m : Mem) (i : Int) :
    (rowBody mA mB hb (aw : Int) (cw : Int) nc (eol : Int) (p, m, i)).2 =
      (fun r w => if r = i then rowVal mA mB hb aw ncm (eol : Int) (cw : Int) stale (m r w) r w else m r w, i + 1) := by
  unfold rowBody lastWord
  dsimp only
  refine Prod.ext ?_ rfl
  dsimp only
  generalize hjl : jLoop _ _ _ _ _ _ _ _ = jl
  have h1 := jLoop_eq mA mB aw cw eol heol i p m
  rw [hjl] at h1
  obtain ⟨p1, m1, j1⟩ := jl
  dsimp only at h1 ⊢
  subst h1
  by_cases he : eol = cw
  · rw [if_neg (by simp; omega)]
    funext r w
    unfold rowVal
    dsimp only
    by_cases hr : r = i
    · subst hr
      rw [if_pos rfl]
      by_cases hw : 0 ≤ w ∧ w < (eol : Int)
      · rw [if_pos ⟨rfl, hw⟩, if_pos hw]
      · rw [if_neg (by omega), if_neg hw, if_neg (by omega)]
    · rw [if_neg (by omega), if_neg hr]
  · rw [if_pos (by simp; omega)]
    dsimp only
    rw [hnc, kLoopP_eq _ _ _ _ hncm, genParity64_eq, Int.zero_add]
    have hpar : parity64 (fun t : Nat => (fun z : Int => if 0 ≤ z ∧ z < (ncm : Int) then
          accW mA mB aw i (64 * (eol : Int) + z) else p1 z) (t : Int)) &&& hb
        = F2 mA mB hb aw ncm (eol : Int) stale i := by
      unfold F2
      apply hmask he
      intro t ht
      dsimp only
      rw [if_pos (by omega), if_pos ht]
    rw [hpar]
    funext r w
    unfold CLoop.upd2 rowVal
    dsimp only
    by_cases hr : r = i
    · subst hr
      rw [if_pos rfl]
      by_cases hw : w = (eol : Int)
      · subst hw
        rw [if_pos ⟨rfl, rfl⟩, if_neg (by omega), if_neg (by omega), if_pos ⟨rfl, by omega⟩]
      · rw [if_neg (by omega)]
        by_cases hw2 : 0 ≤ w ∧ w < (eol : Int)
        · rw [if_pos ⟨rfl, hw2⟩, if_pos hw2]
        · rw [if_neg (by omega), if_neg hw2, if_neg (by omega)]
    · rw [if_neg (by omega), if_neg (by omega), if_neg hr]

theorem rowBody_idx (mA mB : Mem) (hb : BitVec 64) (aw cw nc eol : Int) (s : PA × Mem × Int) :
    (rowBody mA mB hb aw cw nc eol s).2.2 = s.2.2 + 1 := rfl

/-! ### 5. all rows -/

/-- the memory after the rows `[0, k)` -/
def naiveMem (mA mB : Mem) (hb : BitVec 64) (aw ncm : Nat) (eol cw : Int) (stale : Nat → Nat → Word)
    (k : Nat) (m : Mem) : Mem :=
  fun r w => if 0 ≤ r ∧ r < (k : Int) then rowVal mA mB hb aw ncm eol cw stale (m r w) r w else m r w

theorem iter_rows (mA mB : Mem) (hb : BitVec 64) (aw cw eol ncm : Nat) (nc : Int)
    (hnc : Int.tmod nc 64 = (ncm : Int)) (heol : eol ≤ cw) (hncm : ncm ≤ 64)
    (hmask : eol ≠ cw → ∀ f g : Nat → Word, (∀ t, t < ncm → f t = g t) → parity64 f &&& hb = parity64 g &&& hb)
    (stale : Nat → Nat → Word) (p0 : PA) (m0 : Mem) (k : Nat) :
    (iter (rowBody mA mB hb (aw : Int) (cw : Int) nc (eol : Int)) k (p0, m0, 0)).2 =
      (naiveMem mA mB hb aw ncm (eol : Int) (cw : Int) stale k m0, (k : Int)) := by
  induction k with
  | zero =>
    show (m0, (0 : Int)) = _
    refine Prod.ext ?_ rfl
    funext r w
    unfold naiveMem
    dsimp only
    rw [if_neg (by omega)]
  | succ k ih =>
    show (rowBody mA mB hb (aw : Int) (cw : Int) nc (eol : Int) (iter _ k (p0, m0, 0))).2 = _
    generalize iter _ k (p0, m0, (0 : Int)) = st at ih
    obtain ⟨p, m, i⟩ := st
    dsimp only at ih
    obtain ⟨rfl, rfl⟩ := Prod.mk.inj ih
    rw [rowBody_eq mA mB hb aw cw eol ncm nc hnc heol hncm hmask stale]
    refine Prod.ext ?_ (by show (k : Int) + 1 = ((k + 1 : Nat) : Int); omega)
    funext r w
    unfold naiveMem
    dsimp only
    by_cases hr : r = (k : Int)
    · subst hr
      rw [if_pos rfl, if_neg (by omega), if_pos (by omega)]
    · rw [if_neg hr]
      exact if_congr (by omega) rfl rfl

/-! ### 6. the clearing loop -/

open M4ri.GenTieSolve (clrMem)

/-- the inlined clearing loop = the closed form of `mzd_set_ui(·, 0)` -/
theorem clearLoop_eq (m : Mem) (hb : BitVec 64) (nr nw : Nat) (hw : 1 ≤ nw) :
    clearLoop m hb (nr : Int) (nw : Int) = clrMem m hb nr nw := by
  unfold clearLoop
  generalize hres : CLoop.loop _ _ _ _ = res
  have key := for_loop_eq hres nr (fun k st => st.2 = (k : Int) ∧ st.1 = clrMem m hb k nw)
    (by simp)
    ⟨rfl, by funext r w; unfold clrMem; rw [if_neg (by omega)]⟩ ?_ ?_
  · exact key.2
  · intro k st hk hP
    obtain ⟨mm, i⟩ := st
    obtain ⟨k1, k2⟩ := hP
    dsimp only at k1 k2 ⊢
    subst k1
    rw [decide_eq_decide]
    omega
  · intro k st hk hP
    obtain ⟨mm, i⟩ := st
    obtain ⟨k1, k2⟩ := hP
    dsimp only at k1 k2
    subst k1 k2
    clear hres
    dsimp only
    generalize hres2 : CLoop.loop _ _ _ _ = res2
    have key2 := for_loop_eq hres2 (nw - 1) (fun j st => st.2 = (j : Int) ∧
        st.1 = fun r w => if r = (k : Int) ∧ 0 ≤ w ∧ w < (j : Int) then 0 else clrMem m hb k nw r w)
      (by rw [Int.toNat_natCast]; omega) ⟨rfl, by funext r w; rw [if_neg (by omega)]⟩ ?_ ?_
    · obtain ⟨mm, j⟩ := res2
      obtain ⟨j1, j2⟩ := key2
      dsimp only at j1 j2 ⊢
      subst j1 j2
      refine ⟨by omega, ?_⟩
      rw [Int.zero_add]
      funext r w
      unfold CLoop.upd2 clrMem
      dsimp only
      by_cases h1 : r = (k : Int) ∧ w = ((nw - 1 : Nat) : Int)
      · obtain ⟨rfl, rfl⟩ := h1
        rw [if_pos ⟨rfl, rfl⟩, if_neg (by omega), if_neg (by omega), if_pos (by omega), if_pos (by omega)]
      · rw [if_neg h1]
        by_cases h2 : r = (k : Int) ∧ 0 ≤ w ∧ w < ((nw - 1 : Nat) : Int)
        · rw [if_pos h2, if_pos (by omega), if_neg (by omega)]
        · rw [if_neg h2]
          have e : (0 ≤ r ∧ r < (k : Int) ∧ 0 ≤ w ∧ w < (nw : Int))
              ↔ (0 ≤ r ∧ r < ((k + 1 : Nat) : Int) ∧ 0 ≤ w ∧ w < (nw : Int)) := by omega
          exact if_congr e rfl rfl
    · intro j st hj hP
      obtain ⟨mm, i⟩ := st
      obtain ⟨j1, j2⟩ := hP
      dsimp only at j1 j2 ⊢
      subst j1
      rw [decide_eq_decide]
      omega
    · intro j st hj hP
      obtain ⟨mm, i⟩ := st
      obtain ⟨j1, j2⟩ := hP
      dsimp only at j1 j2 ⊢
      subst j1 j2
      refine ⟨by omega, ?_⟩
      rw [Int.zero_add]
      funext r w
      unfold CLoop.upd2
      dsimp only
      by_cases h1 : r = (k : Int) ∧ w = (j : Int)
      · rw [if_pos h1, if_pos (by omega)]
        rfl
      · rw [if_neg h1]
        by_cases h2 : r = (k : Int) ∧ 0 ≤ w ∧ w < (j : Int)
        · rw [if_pos h2, if_pos (by omega)]
        · rw [if_neg h2, if_neg (by omega)]

/-! ### 7. the whole function on arbitrary memories -/

/-- number of whole words of `C` -/
def eolN (cw nc : Nat) : Nat := if nc % 64 ≠ 0 then cw - 1 else cw

theorem eolN_le (cw nc : Nat) : eolN cw nc ≤ cw := by unfold eolN; split <;> omega

theorem eolOf_eq (cw nc : Nat) (hcw : 1 ≤ cw) : eolOf (cw : Int) (nc : Int) = (eolN cw nc : Int) := by
  unfold eolOf eolN
  rw [tmod_nat]
  by_cases h : nc % 64 = 0
  · rw [if_neg (by simp [h]), if_neg (by simp [h])]
  · rw [if_pos (by simp; omega), if_pos h]; omega

theorem mirror_clear (bs : Int) (m : Mem) (hb : BitVec 64) (nr cw nc aw : Int) (mA mB : Mem) :
    mirror bs 1 m hb nr cw nc aw mA mB = mirror bs 0 (clearLoop m hb nr cw) hb nr cw nc aw mA mB := by
  unfold mirror
  rw [if_pos (by decide), if_neg (by decide)]

/-- without clearing, on ANY memories: the closed form `naiveMem` (blocked + remainder loops = every row once) -/
theorem mirror_noclear (m : Mem) (nr cw nc aw : Nat) (hcw : 1 ≤ cw) (mA mB : Mem) (stale : Nat → Nat → Word) :
    mirror 2048 0 m (leftMask (nc % 64)) nr cw nc aw mA mB =
      naiveMem mA mB (leftMask (nc % 64)) aw (nc % 64) (eolN cw nc) cw stale nr m := by
  unfold mirror
  rw [if_neg (by decide), eolOf_eq cw nc hcw, Int.toNat_natCast]
  have hb := blocked_remainder_iter (rowBody mA mB (leftMask (nc % 64)) (aw : Int) (cw : Int) (nc : Int)
      (eolN cw nc : Int)) (fun s => rfl) 2048 nr (by decide) nr nr nr (Nat.div_le_self _ _) (fun h => h)
      (Nat.mod_le _ _) parityInit m
  have hi := iter_rows mA mB (leftMask (nc % 64)) aw cw (eolN cw nc) (nc % 64) (nc : Int) (tmod_nat nc)
    (eolN_le cw nc) (by omega)
    (by
      intro he f g h
      have hne : nc % 64 ≠ 0 := by
        intro h0; apply he; unfold eolN; rw [if_neg (by omega)]
      exact parity64_and_leftMask _ (by omega) (by omega) f g h)
    stale parityInit m nr
  rw [show (2048 : Int) = ((2048 : Nat) : Int) from rfl, hb, hi]

/-! ### 8. the model -/

theorem accW_memOf (A BT : Mzd) (aw x b : Nat) :
    accW (memOf A) (memOf BT) aw (x : Int) (b : Int) = andWords (A.row x) (BT.row b) aw := by
  unfold accW xfold andWords
  rw [memOf_nat' A x 0 0 rfl, memOf_nat' BT b 0 0 rfl]
  simp only [memOf_nat]

theorem naiveMem_model (C A BT : Mzd) (hC : C.WF) (stale : Nat → Nat → Word) :
    naiveMem (memOf A) (memOf BT) C.hb A.width (C.ncols % 64) (eolN C.width C.ncols) C.width stale C.nrows
      (memOf C) = memOf (mulNaiveTW C A BT false stale) := by
  have hWF := mulNaiveTW_WF_noclear C A BT stale hC
  have hle := eolN_le C.width C.ncols
  funext r w
  unfold naiveMem
  by_cases hneg : r < 0 ∨ w < 0
  · have hv : memOf C r w = 0 := GenTieView.memOf_of_neg _ _ _ hneg
    rw [GenTieView.memOf_of_neg (mulNaiveTW C A BT false stale) r w hneg, hv]
    by_cases hr : 0 ≤ r ∧ r < (C.nrows : Int)
    · rw [if_pos hr]
      unfold rowVal
      rw [if_neg (by omega), if_neg (by omega)]
    · rw [if_neg hr]
  · obtain ⟨x, rfl⟩ : ∃ x : Nat, r = x := ⟨r.toNat, by omega⟩
    obtain ⟨k, rfl⟩ : ∃ k : Nat, w = k := ⟨w.toNat, by omega⟩
    rw [memOf_nat, memOf_nat]
    by_cases hout : C.nrows ≤ x ∨ C.width ≤ k
    · rw [GenTieView.w_of_out hWF x k hout, GenTieView.w_of_out hC x k hout]
      by_cases hr : 0 ≤ (x : Int) ∧ (x : Int) < (C.nrows : Int)
      · rw [if_pos hr]
        unfold rowVal
        rw [if_neg (by omega), if_neg (by omega)]
      · rw [if_neg hr]
    · have hx : x < C.nrows := by omega
      have hk : k < C.width := by omega
      rw [if_pos (by omega)]
      unfold mulNaiveTW
      simp only [Bool.false_eq_true, if_false]
      rw [Mzd.row_withRows_mapIdx _ _ _ (by rw [hC.1]; exact hx),
        Row.w_mapIdx _ _ _ (by rw [hC.2 x hx]; exact hk)]
      unfold rowVal
      show (if 0 ≤ (k : Int) ∧ (k : Int) < ((eolN C.width C.ncols : Nat) : Int) then _ else _) =
        if k < eolN C.width C.ncols then _ else if k = eolN C.width C.ncols ∧ eolN C.width C.ncols ≠ C.width then _ else _
      by_cases h1 : k < eolN C.width C.ncols
      · rw [if_pos (by omega), if_pos h1]
        congr 1
      · rw [if_neg (by omega), if_neg h1]
        by_cases h2 : k = eolN C.width C.ncols ∧ eolN C.width C.ncols ≠ C.width
        · rw [if_pos (by omega), if_pos h2]
          congr 1
        · rw [if_neg (by omega), if_neg h2]

/-! ### 9. main theorems -/

theorem mzdMulNaive_noclear_eq (C A BT : Mzd) (stale : Nat → Nat → Word) (hC : C.WF) (h1 : 1 ≤ C.ncols) :
    Gen.C.mzdMulNaive 0 (memOf C) C.hb C.nrows C.width C.ncols A.width (memOf A) (memOf BT) =
      memOf (mulNaiveTW C A BT false stale) := by
  have hw : 1 ≤ C.width := by unfold Mzd.width widthOf; omega
  rw [mzdMulNaive_mirror, GenTieRec.blocksize_eq]
  show mirror 2048 0 (memOf C) (leftMask (C.ncols % 64)) _ _ _ _ _ _ = _
  rw [mirror_noclear (memOf C) C.nrows C.width C.ncols A.width hw (memOf A) (memOf BT) stale]
  exact naiveMem_model C A BT hC stale

/-- **`_mzd_mul_naive(C, A, BT, clear)`**: the generated function is the word-level model `mulNaiveTW`, for EVERY
    content `stale` of the left-over entries of the `parity` array (they are hidden by `mask_end`).
    `A` and `BT` are only read (out-of-range reads are 0 on both sides), so no hypothesis on them is needed for the
    equation; the C contract (`A->nrows = C->nrows`, `BT->nrows = C->ncols`, `A->ncols = BT->ncols`) is what
    `mzdMulNaive_spec` uses to read the result as a product. -/
theorem mzdMulNaive_eq (C A BT : Mzd) (clear : Bool) (stale : Nat → Nat → Word) (hC : C.WF) (h1 : 1 ≤ C.ncols) :
    Gen.C.mzdMulNaive (if clear then 1 else 0) (memOf C) C.hb C.nrows C.width C.ncols A.width (memOf A)
        (memOf BT) = memOf (mulNaiveTW C A BT clear stale) := by
  cases clear
  · exact mzdMulNaive_noclear_eq C A BT stale hC h1
  · have hw : 1 ≤ C.width := by unfold Mzd.width widthOf; omega
    have hn := Mzd.nrows_setUi C 0 hC
    have hcc := Mzd.ncols_setUi C 0 hC
    have hw' : (C.setUi 0).width = C.width := by unfold Mzd.width; rw [hcc]
    have hhb : (C.setUi 0).hb = C.hb := by unfold Mzd.hb; rw [hcc]
    have h := mzdMulNaive_noclear_eq (C.setUi 0) A BT stale (Mzd.setUi_WF C 0 hC) (by rw [hcc]; exact h1)
    rw [hn, hcc, hw', hhb, mzdMulNaive_mirror] at h
    rw [mulNaiveTW_clear]
    show Gen.C.mzdMulNaive 1 _ _ _ _ _ _ _ _ = _
    rw [mzdMulNaive_mirror, mirror_clear, clearLoop_eq _ _ _ _ hw,
      ← GenTieSolve.mzdSetUi_zero_closed (memOf C) C.hb C.nrows C.width (C.ncols : Int) hw,
      GenTieSolve.mzdSetUi_zero_eq C hC h1]
    exact h

/-- the existential form: some content of the left-over entries -/
theorem mzdMulNaive_eq_exists (C A BT : Mzd) (clear : Bool) (hC : C.WF) (h1 : 1 ≤ C.ncols) :
    ∃ stale : Nat → Nat → Word,
      Gen.C.mzdMulNaive (if clear then 1 else 0) (memOf C) C.hb C.nrows C.width C.ncols A.width (memOf A)
        (memOf BT) = memOf (mulNaiveTW C A BT clear stale) :=
  ⟨fun _ _ => 0, mzdMulNaive_eq C A BT clear _ hC h1⟩

/-- **`_mzd_mul_naive`, entry by entry**: reading position `(i, j)` of the memory the generated function leaves
    (any stored position of `C`, excess bits of the last word included): inside the matrix
    `(clear ? 0 : C[i,j]) ⊕ ⊕_{t < A->ncols} A[i,t] ∧ BT[j,t]`, beyond column `ncols` the old bit of `C`.
    `C`, `A` may be views with arbitrary excess bits; `BT` is the fresh (zero-padded) transpose. -/
theorem mzdMulNaive_spec (C A BT : Mzd) (clear : Bool) (hC : C.WF) (hBT : BT.WF) (h1 : 1 ≤ C.ncols)
    (hc : BT.nrows = C.ncols) (hl : A.ncols = BT.ncols) (hp : BT.padZero)
    (i j : Nat) (hi : i < C.nrows) (hj : j < 64 * C.width) :
    Gen.C.mzdReadBit i j (Gen.C.mzdMulNaive (if clear then 1 else 0) (memOf C) C.hb C.nrows C.width C.ncols
        A.width (memOf A) (memOf BT)) =
      if (if j < C.ncols then
            ((!clear && C.bit i j) != MulR.xorRange A.ncols (fun t => A.bit i t && BT.bit j t))
          else C.bit i j) then 1 else 0 := by
  rw [mzdMulNaive_eq C A BT clear (fun _ _ => 0) hC h1, mzdReadBit_eq]
  show (if (mulNaiveTW C A BT clear (fun _ _ => 0)).bit i j = true then (1 : Int) else 0) = _
  rw [mulNaiveTW_bit C A BT clear _ hC hBT hc hl hp i j hi hj]

/-- **`_mzd_mul_naive` against the entry-level product**: the result memory is `C` with its entries replaced by
    those of `BMat.mulNaiveT` (`C + A·BTᵀ`, resp. `A·BTᵀ` for `clear`), excess bits of `C` unchanged. -/
theorem mzdMulNaive_eq_putB (C A BT : Mzd) (clear : Bool) (hC : C.WF) (hBT : BT.WF) (h1 : 1 ≤ C.ncols)
    (hc : BT.nrows = C.ncols) (hl : A.ncols = BT.ncols) (hp : BT.padZero) :
    Gen.C.mzdMulNaive (if clear then 1 else 0) (memOf C) C.hb C.nrows C.width C.ncols A.width (memOf A)
        (memOf BT) = memOf (C.putB (BMat.mulNaiveT C.toB A.toB BT.toB clear)) := by
  rw [mzdMulNaive_eq C A BT clear (fun _ _ => 0) hC h1, mulNaiveTW_spec C A BT clear _ hC hBT hc hl hp]

#print axioms blocked_remainder_eq
#print axioms rowBody_eq
#print axioms mzdMulNaive_eq
#print axioms mzdMulNaive_eq_exists
#print axioms mzdMulNaive_spec
#print axioms mzdMulNaive_eq_putB

end M4ri.GenTieNaive
