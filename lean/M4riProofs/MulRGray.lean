/-
  The Gray-code facts `mzd_make_table` relies on (`m4ri_codebook[k]`: `ord` is a bijection of `[0, 2^k)`,
  consecutive code words differ in exactly the bit `inc[i]`), packaged as `GrayOK k` and proved for
  EVERY `k` (no evaluation of tables: `grayCode i k = i ⊕ (i >> 1)`, `inc[i]` = number of trailing zeros
  of `i + 1`).
-/
import M4ri.Mul
namespace M4ri
namespace MulR

/-- what `mzd_make_table` needs from the code book `m4ri_codebook[k]` -/
structure GrayOK (k : Nat) : Prop where
  zero : grayCode 0 k = 0
  lt : ∀ i, i < 2 ^ k → grayCode i k < 2 ^ k
  inj : ∀ i i', i < 2 ^ k → i' < 2 ^ k → grayCode i k = grayCode i' k → i = i'
  surj : ∀ x, x < 2 ^ k → ∃ i, i < 2 ^ k ∧ grayCode i k = x
  size_inc : (buildInc k).size = 2 ^ k
  step : ∀ i, i + 1 < 2 ^ k →
    (buildInc k).getD i 0 < k ∧ grayCode (i + 1) k = grayCode i k ^^^ 2 ^ (buildInc k).getD i 0

/-! #### (a) the bits of `m4ri_gray_code` -/

theorem grayCode_go_testBit (n i lastbit res p : Nat) (hl : ∀ q, q ≠ i → lastbit.testBit q = false) :
    (grayCode.go n i lastbit res).testBit p =
      (res.testBit p || (decide (p < i) &&
        (n.testBit p != (if p + 1 = i then lastbit.testBit i else n.testBit (p + 1))))) := by
  induction i generalizing lastbit res with
  | zero => simp [grayCode.go]
  | succ i ih =>
    rw [grayCode.go]
    rw [ih]
    · rw [Nat.testBit_or, Nat.testBit_xor, Nat.testBit_shiftRight, Nat.testBit_and, Nat.one_shiftLeft,
        Nat.testBit_and, Nat.testBit_two_pow, Nat.testBit_two_pow]
      by_cases h1 : p < i
      · have h2 : ¬ i = p := by omega
        have h3 : lastbit.testBit (1 + p) = false := hl _ (by omega)
        by_cases h4 : p + 1 = i
        · simp [h1, h2, h3, h4, show p < i + 1 by omega]
        · simp [h1, h2, h3, h4, show p < i + 1 by omega, show ¬ p = i by omega]
      · by_cases h2 : i = p
        · subst h2
          simp [Nat.add_comm 1 i, Bool.xor_comm]
        · have h3 : lastbit.testBit (1 + p) = false := hl _ (by omega)
          simp [h1, h2, h3, show ¬ p < i + 1 by omega]
    · intro q hq
      rw [Nat.testBit_and, Nat.one_shiftLeft, Nat.testBit_two_pow]
      simp; intro _; omega

theorem grayCode_testBit (n l p : Nat) :
    (grayCode n l).testBit p =
      (decide (p < l) && (n.testBit p != (decide (p + 1 < l) && n.testBit (p + 1)))) := by
  unfold grayCode
  rw [grayCode_go_testBit n l 0 0 p (by simp)]
  by_cases h : p + 1 = l
  · simp [h]
  · by_cases h2 : p + 1 < l
    · simp [h, h2]
    · simp [h, show ¬ p < l by omega]

/-- for `i < 2^k` the code word is `i ⊕ (i >> 1)` -/
theorem grayCode_eq (i k : Nat) (hi : i < 2 ^ k) : grayCode i k = i ^^^ (i >>> 1) := by
  apply Nat.eq_of_testBit_eq; intro p
  rw [grayCode_testBit, Nat.testBit_xor, Nat.testBit_shiftRight, Nat.add_comm 1 p]
  by_cases h : p + 1 < k
  · simp [h, show p < k by omega]
  · have h1 : i.testBit (p + 1) = false :=
      Nat.testBit_lt_two_pow (Nat.lt_of_lt_of_le hi (Nat.pow_le_pow_right (by omega) (by omega)))
    by_cases h2 : p < k
    · simp [h, h1, h2]
    · have h3 : i.testBit p = false :=
        Nat.testBit_lt_two_pow (Nat.lt_of_lt_of_le hi (Nat.pow_le_pow_right (by omega) (by omega)))
      simp [h1, h2, h3]

theorem grayCode_lt (i k : Nat) : grayCode i k < 2 ^ k := by
  apply Nat.lt_pow_two_of_testBit; intro p hp
  rw [grayCode_testBit]; simp; omega

theorem grayCode_zero (k : Nat) : grayCode 0 k = 0 := by
  apply Nat.eq_of_testBit_eq; intro p
  rw [grayCode_testBit]; simp

/-! #### (b) the Gray code is a bijection of `[0, 2^k)` -/

theorem eq_of_xor_eq_zero (a b : Nat) (h : a ^^^ b = 0) : a = b := by
  apply Nat.eq_of_testBit_eq; intro p
  have := congrArg (fun x => x.testBit p) h
  simpa [Nat.testBit_xor] using this

theorem xor_shift_inj (a b : Nat) (h : a ^^^ (a >>> 1) = b ^^^ (b >>> 1)) : a = b := by
  have e : (a ^^^ b) ^^^ ((a ^^^ b) >>> 1) = 0 := by
    rw [Nat.shiftRight_xor_distrib]
    have : a ^^^ b ^^^ (a >>> 1 ^^^ b >>> 1) = (a ^^^ a >>> 1) ^^^ (b ^^^ b >>> 1) := by ac_rfl
    rw [this, h, Nat.xor_self]
  have e2 : a ^^^ b = (a ^^^ b) >>> 1 := eq_of_xor_eq_zero _ _ e
  have e3 : a ^^^ b = 0 := by
    rw [Nat.shiftRight_eq_div_pow] at e2; omega
  exact eq_of_xor_eq_zero _ _ e3

/-- `⊕_{s < n} (x >> s)`: the inverse Gray code -/
def gsum : Nat → Nat → Nat
  | 0, _ => 0
  | s + 1, x => gsum s x ^^^ (x >>> s)

theorem gsum_spec (s x : Nat) : gsum s x ^^^ (gsum s x >>> 1) = x ^^^ (x >>> s) := by
  induction s with
  | zero => simp [gsum]
  | succ s ih =>
    simp only [gsum, Nat.shiftRight_xor_distrib, ← Nat.shiftRight_add]
    have : gsum s x ^^^ x >>> s ^^^ (gsum s x >>> 1 ^^^ x >>> (s + 1))
        = (gsum s x ^^^ gsum s x >>> 1) ^^^ (x >>> s ^^^ x >>> (s + 1)) := by ac_rfl
    rw [this, ih]
    have : x ^^^ x >>> s ^^^ (x >>> s ^^^ x >>> (s + 1)) = x ^^^ (x >>> s ^^^ x >>> s) ^^^ x >>> (s + 1) := by
      ac_rfl
    rw [this, Nat.xor_self, Nat.xor_zero]

theorem gsum_lt (s x k : Nat) (hx : x < 2 ^ k) : gsum s x < 2 ^ k := by
  induction s with
  | zero => exact Nat.two_pow_pos k
  | succ s ih =>
    exact Nat.xor_lt_two_pow ih (Nat.lt_of_le_of_lt (Nat.shiftRight_le x s) hx)

theorem grayCode_inj (k i i' : Nat) (hi : i < 2 ^ k) (hi' : i' < 2 ^ k) (h : grayCode i k = grayCode i' k) :
    i = i' := by
  rw [grayCode_eq i k hi, grayCode_eq i' k hi'] at h
  exact xor_shift_inj i i' h

theorem grayCode_surj (k x : Nat) (hx : x < 2 ^ k) : ∃ i, i < 2 ^ k ∧ grayCode i k = x := by
  refine ⟨gsum k x, gsum_lt k x k hx, ?_⟩
  rw [grayCode_eq _ k (gsum_lt k x k hx), gsum_spec, Nat.shiftRight_eq_div_pow, Nat.div_eq_of_lt hx,
    Nat.xor_zero]


/-! #### (c) `inc` of `m4ri_build_code` -/

theorem getD_setIfInBounds (a : Array Nat) (i j v : Nat) :
    (a.setIfInBounds i v).getD j 0 = if i = j ∧ i < a.size then v else a.getD j 0 := by
  simp only [Array.getD_eq_getD_getElem?, Array.getElem?_setIfInBounds]
  by_cases h : i = j
  · subst h
    by_cases h2 : i < a.size
    · simp [h2]
    · simp [h2]
  · simp [h]

theorem size_foldl_set (a : Array Nat) (pos : Nat → Nat) (v n : Nat) :
    ((List.range n).foldl (fun a j0 => a.setIfInBounds (pos j0) v) a).size = a.size := by
  induction n with
  | zero => rfl
  | succ n ih => simp [List.range_succ, ih]

theorem getD_foldl_set_hit (a : Array Nat) (pos : Nat → Nat) (v n p : Nat) (hp : p < a.size)
    (j0 : Nat) (hj : j0 < n) (hpos : pos j0 = p) :
    ((List.range n).foldl (fun a j0 => a.setIfInBounds (pos j0) v) a).getD p 0 = v := by
  induction n with
  | zero => omega
  | succ n ih =>
    simp only [List.range_succ, List.foldl_append, List.foldl_cons, List.foldl_nil]
    rw [getD_setIfInBounds, size_foldl_set]
    by_cases h : pos n = p
    · rw [if_pos ⟨h, by omega⟩]
    · rw [if_neg (by intro h'; exact h h'.1)]
      exact ih (by
        rcases Nat.lt_succ_iff_lt_or_eq.mp hj with h' | h'
        · exact h'
        · subst h'; exact absurd hpos h)

theorem getD_foldl_set_miss (a : Array Nat) (pos : Nat → Nat) (v n p : Nat)
    (hpos : ∀ j0, j0 < n → pos j0 ≠ p) :
    ((List.range n).foldl (fun a j0 => a.setIfInBounds (pos j0) v) a).getD p 0 = a.getD p 0 := by
  induction n with
  | zero => rfl
  | succ n ih =>
    simp only [List.range_succ, List.foldl_append, List.foldl_cons, List.foldl_nil]
    rw [getD_setIfInBounds, if_neg (by intro h'; exact hpos n (by omega) h'.1)]
    exact ih (fun j0 hj => hpos j0 (by omega))

/-- the outer loop of `m4ri_build_code` after `T` rounds -/
def incUpTo (l T : Nat) : Array Nat :=
  (List.range T).foldl (fun inc t =>
      let i := l - t
      (List.range (2 ^ i)).foldl (fun inc j0 =>
        let j := j0 + 1
        inc.setIfInBounds (j * 2 ^ (l - i) - 1) (l - i)) inc)
    (Array.replicate (2 ^ l) 0)

theorem buildInc_eq (l : Nat) : buildInc l = incUpTo l l := rfl

theorem size_incUpTo (l T : Nat) : (incUpTo l T).size = 2 ^ l := by
  induction T with
  | zero => simp [incUpTo]
  | succ T ih =>
    unfold incUpTo at ih ⊢
    rw [List.range_succ, List.foldl_append]
    simp only [List.foldl_cons, List.foldl_nil]
    rw [size_foldl_set, ih]

theorem incUpTo_spec (l T p : Nat) (hT : T ≤ l) (hp : p + 1 ≤ 2 ^ l) :
    ((incUpTo l T).getD p 0 = 0 ∨ (incUpTo l T).getD p 0 < T) ∧ 2 ^ (incUpTo l T).getD p 0 ∣ p + 1 ∧
      ∀ t, (incUpTo l T).getD p 0 < t → t < T → ¬ 2 ^ t ∣ p + 1 := by
  induction T with
  | zero =>
    have : (incUpTo l 0).getD p 0 = 0 := by simp [incUpTo, Array.getD]
    rw [this]
    exact ⟨Or.inl rfl, Nat.one_dvd _, fun t _ h => by omega⟩
  | succ T ih =>
    have ih := ih (by omega)
    have hstep : incUpTo l (T + 1) =
        (List.range (2 ^ (l - T))).foldl (fun inc j0 => inc.setIfInBounds ((j0 + 1) * 2 ^ T - 1) T)
          (incUpTo l T) := by
      have e : l - (l - T) = T := by omega
      unfold incUpTo
      rw [List.range_succ, List.foldl_append]
      simp only [List.foldl_cons, List.foldl_nil, e]
    rw [hstep]
    by_cases hd : 2 ^ T ∣ p + 1
    · obtain ⟨m, hm⟩ := hd
      have hm1 : 1 ≤ m := by
        rcases Nat.eq_zero_or_pos m with h | h
        · subst h; omega
        · exact h
      have hm2 : m ≤ 2 ^ (l - T) := by
        have e : 2 ^ l = 2 ^ T * 2 ^ (l - T) := by rw [← Nat.pow_add]; congr 1; omega
        rw [hm, e] at hp
        exact Nat.le_of_mul_le_mul_left hp (Nat.two_pow_pos T)
      have := getD_foldl_set_hit (incUpTo l T) (fun j0 => (j0 + 1) * 2 ^ T - 1) T (2 ^ (l - T)) p
        (by rw [size_incUpTo]; omega) (m - 1) (by omega)
        (by show (m - 1 + 1) * 2 ^ T - 1 = p
            rw [Nat.sub_add_cancel hm1, Nat.mul_comm, ← hm]; omega)
      rw [this]
      exact ⟨Or.inr (by omega), ⟨m, hm⟩, fun t h1 h2 => by omega⟩
    · have := getD_foldl_set_miss (incUpTo l T) (fun j0 => (j0 + 1) * 2 ^ T - 1) T (2 ^ (l - T)) p
        (by intro j0 _ h
            apply hd
            refine ⟨j0 + 1, ?_⟩
            have : 0 < (j0 + 1) * 2 ^ T := Nat.mul_pos (by omega) (Nat.two_pow_pos T)
            rw [Nat.mul_comm]; omega)
      rw [this]
      obtain ⟨h1, h2, h3⟩ := ih
      refine ⟨by omega, h2, fun t ht1 ht2 => ?_⟩
      by_cases hte : t = T
      · subst hte; exact hd
      · exact h3 t ht1 (by omega)

/-- `inc[i]` is the number of trailing zeros of `i + 1` -/
theorem buildInc_spec (l i : Nat) (hi : i + 1 < 2 ^ l) :
    ∃ m, (buildInc l).getD i 0 < l ∧ i + 1 = 2 ^ (buildInc l).getD i 0 * (2 * m + 1) := by
  have hl : 0 < l := by
    rcases Nat.eq_zero_or_pos l with h | h
    · subst h; simp at hi
    · exact h
  obtain ⟨h1, ⟨q, hq⟩, h3⟩ := incUpTo_spec l l i (Nat.le_refl l) (by omega)
  rw [← buildInc_eq] at h1 hq h3
  generalize (buildInc l).getD i 0 = c at h1 hq h3
  have hc : c < l := by omega
  refine ⟨q / 2, hc, ?_⟩
  have hodd : q % 2 = 1 := by
    rcases Nat.mod_two_eq_zero_or_one q with h | h
    · exfalso
      have hq2 : q = 2 * (q / 2) := by omega
      have hd : 2 ^ (c + 1) ∣ i + 1 := ⟨q / 2, by rw [Nat.pow_succ, Nat.mul_assoc, ← hq2]; exact hq⟩
      by_cases hcl : c + 1 < l
      · exact h3 (c + 1) (by omega) hcl hd
      · have : c + 1 = l := by omega
        rw [this] at hd
        have := Nat.le_of_dvd (by omega) hd
        omega
    · exact h
  have : 2 * (q / 2) + 1 = q := by omega
  rw [this]; exact hq


/-! #### (d) consecutive code words differ in bit `inc[i]` -/

theorem testBit_pred_of_odd_mul (c m p : Nat) :
    (2 ^ c * (2 * m + 1) - 1).testBit p = if p < c then true else (2 * m).testBit (p - c) := by
  have e : 2 ^ c * (2 * m + 1) - 1 = 2 ^ c * (2 * m) + (2 ^ c - 1) := by
    have := Nat.two_pow_pos c
    rw [Nat.mul_add, Nat.mul_one]; omega
  rw [e, Nat.testBit_two_pow_mul_add _ (by have := Nat.two_pow_pos c; omega), Nat.testBit_two_pow_sub_one]
  by_cases h : p < c <;> simp [h]

theorem testBit_odd_mul (c m p : Nat) :
    (2 ^ c * (2 * m + 1)).testBit p = if p < c then false else (2 * m + 1).testBit (p - c) := by
  rw [Nat.testBit_two_pow_mul]
  by_cases h : p < c
  · simp [h]; omega
  · simp [h, show p ≥ c by omega]

theorem testBit_two_mul_succ (m q : Nat) : (2 * m).testBit (q + 1) = m.testBit q := by
  rw [Nat.testBit_succ]; congr 1; omega
theorem testBit_two_mul_add_one_succ (m q : Nat) : (2 * m + 1).testBit (q + 1) = m.testBit q := by
  rw [Nat.testBit_succ]; congr 1; omega
theorem testBit_two_mul_zero (m : Nat) : (2 * m).testBit 0 = false := by
  rw [Nat.testBit_zero]; simp
theorem testBit_two_mul_add_one_zero (m : Nat) : (2 * m + 1).testBit 0 = true := by
  rw [Nat.testBit_zero]; simp

theorem gray_step_aux (i c m : Nat) (h : i + 1 = 2 ^ c * (2 * m + 1)) :
    (i + 1) ^^^ ((i + 1) >>> 1) = i ^^^ (i >>> 1) ^^^ 2 ^ c := by
  have hi : i = 2 ^ c * (2 * m + 1) - 1 := by omega
  apply Nat.eq_of_testBit_eq; intro p
  simp only [Nat.testBit_xor, Nat.testBit_shiftRight, Nat.testBit_two_pow, Nat.add_comm 1 p]
  rw [h, hi, testBit_odd_mul, testBit_odd_mul, testBit_pred_of_odd_mul, testBit_pred_of_odd_mul]
  by_cases h1 : p + 1 < c
  · have h2 : p < c := by omega
    have h3 : ¬ c = p := by omega
    simp only [h1, h2, h3, ↓reduceIte, decide_false]; rfl
  · by_cases h2 : p + 1 = c
    · subst h2
      have h3 : p < p + 1 := by omega
      have h4 : ¬ p + 1 = p := by omega
      simp only [h1, h3, h4, ↓reduceIte, decide_false, Nat.sub_self, testBit_two_mul_zero,
        testBit_two_mul_add_one_zero]; rfl
    · by_cases h3 : p = c
      · subst h3
        have h4 : p + 1 - p = 0 + 1 := by omega
        simp only [h1, Nat.lt_irrefl, ↓reduceIte, decide_true, Nat.sub_self, h4, testBit_two_mul_zero,
          testBit_two_mul_add_one_zero, testBit_two_mul_succ, testBit_two_mul_add_one_succ]
        cases m.testBit 0 <;> rfl
      · obtain ⟨q, hq⟩ : ∃ q, p - c = q + 1 := ⟨p - c - 1, by omega⟩
        have hq' : p + 1 - c = (q + 1) + 1 := by omega
        have h4 : ¬ p < c := by omega
        have h5 : ¬ c = p := by omega
        simp only [h1, h4, h5, ↓reduceIte, decide_false, hq, hq', testBit_two_mul_succ,
          testBit_two_mul_add_one_succ]
        cases m.testBit q <;> cases m.testBit (q + 1) <;> rfl


/-! #### the code book is correct for every `k` -/

/-- `ord` = `(grayCode · k)` is a bijection of `[0, 2^k)` starting at 0, and `ord[i+1] = ord[i] ⊕ 2^inc[i]`
    with `inc[i] < k` — for every `k`. -/
theorem GrayOK_all (k : Nat) : GrayOK k where
  zero := grayCode_zero k
  lt := fun i _ => grayCode_lt i k
  inj := grayCode_inj k
  surj := grayCode_surj k
  size_inc := by rw [buildInc_eq, size_incUpTo]
  step := fun i hi => by
    obtain ⟨m, hc, hm⟩ := buildInc_spec k i hi
    exact ⟨hc, by rw [grayCode_eq (i + 1) k hi, grayCode_eq i k (by omega), gray_step_aux i _ m hm]⟩

end MulR
end M4ri
