/-
  Block structure of a product (core Lean only):
  * the split of strassen.c (`halfSplit`) never exceeds half of the dimension,
  * entries of a product of windows, of the sum of two block products (one result quadrant),
  * what the four quadrant write-backs and the three remainder strips of strassen.c do to `C`,
  * the two assembly theorems: quadrants `A11·B11 + A12·B21`, … followed by the strips give `A·B`
    (resp. `C + A·B`).
  The base case `m4rm … 0 clear` enters through the two hypotheses `M4rmMul`, `M4rmAddmul`.
-/
import M4riProofs.StrassenValues
namespace M4ri
namespace BMat

/-! ### the base case, as hypotheses -/

/-- `_mzd_mul_m4rm(C, A, B, 0, TRUE)` computes the product (proved elsewhere) -/
def M4rmMul : Prop :=
  ∀ C A B : BMat, A.WF → B.WF → C.WF → A.ncols = B.nrows → C.nrows = A.nrows → C.ncols = B.ncols →
    BMat.m4rm C A B 0 true = A.mul B

/-- `_mzd_mul_m4rm(C, A, B, 0, FALSE)` adds the product to `C` (proved elsewhere) -/
def M4rmAddmul : Prop :=
  ∀ C A B : BMat, A.WF → B.WF → C.WF → A.ncols = B.nrows → C.nrows = A.nrows → C.ncols = B.ncols →
    BMat.m4rm C A B 0 false = C.add (A.mul B)

theorem M4rmMul.shaped (h : M4rmMul) {r k c : Nat} {X Y Z : BMat}
    (hX : Shaped X r c) (hY : Shaped Y r k) (hZ : Shaped Z k c) : BMat.m4rm X Y Z 0 true = Y.mul Z :=
  h X Y Z hY.wf hZ.wf hX.wf (by rw [hY.nc, hZ.nr]) (by rw [hX.nr, hY.nr]) (by rw [hX.nc, hZ.nc])

theorem M4rmAddmul.shaped (h : M4rmAddmul) {r k c : Nat} {X Y Z : BMat}
    (hX : Shaped X r c) (hY : Shaped Y r k) (hZ : Shaped Z k c) :
    BMat.m4rm X Y Z 0 false = X.add (Y.mul Z) :=
  h X Y Z hY.wf hZ.wf hX.wf (by rw [hY.nc, hZ.nr]) (by rw [hX.nr, hY.nr]) (by rw [hX.nc, hZ.nc])

/-! ### the split -/

/-- twice the half-size of strassen.c fits into the dimension, for every `mult` -/
theorem two_halfSplit_le (m mult : Nat) : 2 * halfSplit m mult ≤ m := by
  unfold halfSplit
  rw [Nat.shiftRight_eq_div_pow]
  generalize m % mult = x
  omega

/-! ### degenerate shapes -/

theorem Shaped.eq_of_empty {X Y : BMat} {r c : Nat} (hX : Shaped X r c) (hY : Shaped Y r c)
    (h : r = 0 ∨ c = 0) : X = Y :=
  hX.ext hY fun i j hi hj => by omega

/-! ### writing into a window -/

theorem Shaped.get_paste_window {D X : BMat} {m n : Nat} (hD : Shaped D m n) (r0 c0 r1 c1 : Nat)
    (hX : Shaped X (r1 - r0) (c1 - c0)) (hr : r1 ≤ m) (i j : Nat) :
    (D.paste r0 c0 X).get i j =
      if r0 ≤ i ∧ i < r1 ∧ c0 ≤ j ∧ j < c1 then X.get (i - r0) (j - c0) else D.get i j := by
  rw [hD.get_paste, hX.nr, hX.nc]
  by_cases h : r0 ≤ i ∧ i < r1 ∧ c0 ≤ j ∧ j < c1
  · rw [if_pos h, if_pos (by omega)]
  · rw [if_neg h, if_neg (by omega)]

/-- one `_mzd_mul_m4rm(window of D, X, Y, 0, TRUE)` through a window of `D` -/
theorem step_mul (hmul : M4rmMul) {D X Y : BMat} {m n kk : Nat} (hD : Shaped D m n) (r0 c0 r1 c1 : Nat)
    (hr : r1 ≤ m) (hcc : c0 ≤ c1) (hc : c1 ≤ n) (hX : Shaped X (r1 - r0) kk) (hY : Shaped Y kk (c1 - c0)) :
    Shaped (D.paste r0 c0 (BMat.m4rm (D.sub r0 c0 r1 c1) X Y 0 true)) m n ∧
    ∀ i j, (D.paste r0 c0 (BMat.m4rm (D.sub r0 c0 r1 c1) X Y 0 true)).get i j =
      if r0 ≤ i ∧ i < r1 ∧ c0 ≤ j ∧ j < c1 then xorN (fun l => X.get (i - r0) l && Y.get l (j - c0)) kk
      else D.get i j := by
  rw [hmul.shaped (hD.sub r0 c0 r1 c1 hr) hX hY]
  have hP := hX.mul hY
  refine ⟨hD.paste _ r0 c0 (by rw [hP.nc]; omega), fun i j => ?_⟩
  rw [hD.get_paste_window r0 c0 r1 c1 hP hr]
  by_cases h : r0 ≤ i ∧ i < r1 ∧ c0 ≤ j ∧ j < c1
  · rw [if_pos h, if_pos h, hX.get_mul_S]
    have : i - r0 < r1 - r0 := by omega
    simp [this]
  · rw [if_neg h, if_neg h]

/-- one `mzd_addmul_m4rm(window of D, X, Y, 0)` through a window of `D`, with its early return on an
    empty window -/
theorem step_addmul (haddmul : M4rmAddmul) {D X Y : BMat} {m n kk : Nat} (hD : Shaped D m n)
    (r0 c0 r1 c1 : Nat) (hr : r1 ≤ m) (hcc : c0 ≤ c1) (hc : c1 ≤ n) (hX : Shaped X (r1 - r0) kk)
    (hY : Shaped Y kk (c1 - c0)) :
    let R := if (D.sub r0 c0 r1 c1).ncols = 0 ∨ (D.sub r0 c0 r1 c1).nrows = 0 then D
      else D.paste r0 c0 (BMat.m4rm (D.sub r0 c0 r1 c1) X Y 0 false)
    Shaped R m n ∧
    ∀ i j, R.get i j =
      if r0 ≤ i ∧ i < r1 ∧ c0 ≤ j ∧ j < c1 then
        (D.get i j ^^ xorN (fun l => X.get (i - r0) l && Y.get l (j - c0)) kk)
      else D.get i j := by
  intro R
  have hW := hD.sub r0 c0 r1 c1 hr
  have hP := hW.add (hX.mul hY)
  have hR : R = D.paste r0 c0 ((D.sub r0 c0 r1 c1).add (X.mul Y)) := by
    show (if _ then _ else _) = _
    rw [haddmul.shaped hW hX hY]
    split
    · next h =>
      rw [hD.paste_empty r0 c0 (by rw [hP.nc]; omega) (by rw [hP.nc, hP.nr]; rw [hW.nc, hW.nr] at h; exact h)]
    · rfl
  rw [hR]
  refine ⟨hD.paste _ r0 c0 (by rw [hP.nc]; omega), fun i j => ?_⟩
  rw [hD.get_paste_window r0 c0 r1 c1 hP hr]
  by_cases h : r0 ≤ i ∧ i < r1 ∧ c0 ≤ j ∧ j < c1
  · rw [if_pos h, if_pos h, hW.get_add (hX.mul hY), hD.get_sub r0 c0 r1 c1 _ _ hr, hX.get_mul_S]
    have h1 : i - r0 < r1 - r0 := by omega
    have h2 : j - c0 < c1 - c0 := by omega
    have h3 : r0 + (i - r0) = i := by omega
    have h4 : c0 + (j - c0) = j := by omega
    simp [h1, h2, h3, h4]
  · rw [if_neg h, if_neg h]

/-! ### one result quadrant -/

/-- `A[r0..r1, 0..k1]·B[0..k1, c0..c1] + A[r0..r1, k1..2k1]·B[k1..2k1, c0..c1]` -/
def blockProd (A B : BMat) (r0 r1 c0 c1 k1 : Nat) : BMat :=
  addM ((A.sub r0 0 r1 k1).mul (B.sub 0 c0 k1 c1)) ((A.sub r0 k1 r1 (2 * k1)).mul (B.sub k1 c0 (2 * k1) c1))

/-- entry of a product of two windows -/
theorem get_sub_mul_sub {A B : BMat} {m k n : Nat} (hA : Shaped A m k) (hB : Shaped B k n)
    (r0 r1 a0 a1 c0 c1 : Nat) (hr : r1 ≤ m) (ha : a1 ≤ k) (i j : Nat) :
    ((A.sub r0 a0 r1 a1).mul (B.sub a0 c0 a1 c1)).get i j =
      (decide (i < r1 - r0 ∧ j < c1 - c0) &&
        xorN (fun l => A.get (r0 + i) (a0 + l) && B.get (a0 + l) (c0 + j)) (a1 - a0)) := by
  rw [(hA.sub r0 a0 r1 a1 hr).get_mul_S]
  by_cases hi : i < r1 - r0
  · by_cases hj : j < c1 - c0
    · simp only [hi, hj, and_self, decide_true, Bool.true_and]
      apply xorN_congr
      intro l hl
      rw [hA.get_sub _ _ _ _ _ _ hr, hB.get_sub _ _ _ _ _ _ ha]
      simp [hi, hj, hl]
    · simp only [hi, hj, and_false, decide_true, decide_false, Bool.true_and, Bool.false_and]
      apply xorN_eq_false
      intro l _
      rw [hB.get_sub _ _ _ _ _ _ ha]
      simp [hj]
  · simp [hi]

theorem Shaped.blockProd {A B : BMat} {m k n : Nat} (hA : Shaped A m k) (hB : Shaped B k n)
    (r0 r1 c0 c1 k1 : Nat) (hr : r1 ≤ m) (hk : 2 * k1 ≤ k) :
    Shaped (blockProd A B r0 r1 c0 c1 k1) (r1 - r0) (c1 - c0) := by
  have h1 := (hA.sub r0 0 r1 k1 hr).mul (hB.sub 0 c0 k1 c1 (by omega))
  have h2 := (hA.sub r0 k1 r1 (2 * k1) hr).mul (hB.sub k1 c0 (2 * k1) c1 (by omega))
  exact h1.addM h2

/-- entry of one result quadrant: the dot product over the first `2·k1` columns -/
theorem get_blockProd {A B : BMat} {m k n : Nat} (hA : Shaped A m k) (hB : Shaped B k n)
    (r0 r1 c0 c1 k1 : Nat) (hr : r1 ≤ m) (hk : 2 * k1 ≤ k) (i j : Nat)
    (hi : i < r1 - r0) (hj : j < c1 - c0) :
    (blockProd A B r0 r1 c0 c1 k1).get i j =
      xorN (fun l => A.get (r0 + i) l && B.get l (c0 + j)) (2 * k1) := by
  unfold BMat.blockProd
  have h1 := (hA.sub r0 0 r1 k1 hr).mul (hB.sub 0 c0 k1 c1 (by omega))
  have h2 := (hA.sub r0 k1 r1 (2 * k1) hr).mul (hB.sub k1 c0 (2 * k1) c1 (by omega))
  rw [get_addM, get_sub_mul_sub hA hB r0 r1 0 k1 c0 c1 hr (by omega),
    get_sub_mul_sub hA hB r0 r1 k1 (2 * k1) c0 c1 hr hk]
  rw [h1.nr, h1.nc, h2.nr]
  have e1 : 2 * k1 - k1 = k1 := by omega
  have e2 : min (r1 - r0) (r1 - r0) = r1 - r0 := Nat.min_self _
  rw [e1, e2, xorN_split (fun l => A.get (r0 + i) l && B.get l (c0 + j)) (show k1 ≤ 2 * k1 by omega), e1]
  simp [hi, hj]

theorem Shaped.cast {X : BMat} {r c r' c' : Nat} (h : Shaped X r c) (hr : r = r') (hc : c = c') :
    Shaped X r' c' := by subst hr hc; exact h

/-! ### the four quadrant write-backs -/

/-- the four windows `C11 … C22` written back into `C` -/
def paste4 (C Q11 Q12 Q21 Q22 : BMat) (m1 n1 : Nat) : BMat :=
  (((C.paste 0 0 Q11).paste 0 n1 Q12).paste m1 0 Q21).paste m1 n1 Q22

theorem paste4_spec {C Q11 Q12 Q21 Q22 : BMat} {m n m1 n1 : Nat} (hC : Shaped C m n)
    (h11 : Shaped Q11 m1 n1) (h12 : Shaped Q12 m1 n1) (h21 : Shaped Q21 m1 n1) (h22 : Shaped Q22 m1 n1)
    (hm : 2 * m1 ≤ m) (hn : 2 * n1 ≤ n) :
    Shaped (paste4 C Q11 Q12 Q21 Q22 m1 n1) m n ∧
    ∀ i j, (paste4 C Q11 Q12 Q21 Q22 m1 n1).get i j =
      if i < m1 then
        (if j < n1 then Q11.get i j else if j < 2 * n1 then Q12.get i (j - n1) else C.get i j)
      else if i < 2 * m1 then
        (if j < n1 then Q21.get (i - m1) j else if j < 2 * n1 then Q22.get (i - m1) (j - n1) else C.get i j)
      else C.get i j := by
  have s1 := hC.paste Q11 0 0 (by rw [h11.nc]; omega)
  have s2 := s1.paste Q12 0 n1 (by rw [h12.nc]; omega)
  have s3 := s2.paste Q21 m1 0 (by rw [h21.nc]; omega)
  have s4 := s3.paste Q22 m1 n1 (by rw [h22.nc]; omega)
  refine ⟨s4, fun i j => ?_⟩
  unfold paste4
  rw [s3.get_paste_window m1 n1 (2 * m1) (2 * n1) (h22.cast (by omega) (by omega)) hm,
    s2.get_paste_window m1 0 (2 * m1) n1 (h21.cast (by omega) (by omega)) hm,
    s1.get_paste_window 0 n1 m1 (2 * n1) (h12.cast (by omega) (by omega)) (by omega),
    hC.get_paste_window 0 0 m1 n1 (h11.cast (by omega) (by omega)) (by omega)]
  repeat' split
  all_goals first | rfl | (exfalso; omega)

/-! ### the three remainder strips -/

/-- last columns, `_mzd_mul_even`: `C[:, n2:] = A · B[:, n2:]` -/
def mulStripR (D A B : BMat) (n2 : Nat) : BMat :=
  if B.ncols > n2 then
    D.paste 0 n2 (BMat.m4rm (D.sub 0 n2 A.nrows B.ncols) A (B.sub 0 n2 A.ncols B.ncols) 0 true)
  else D

/-- last rows, `_mzd_mul_even`: `C[m2:, :n2] = A[m2:, :] · B[:, :n2]` -/
def mulStripB (D A B : BMat) (m2 n2 : Nat) : BMat :=
  if A.nrows > m2 then
    D.paste m2 0 (BMat.m4rm (D.sub m2 0 A.nrows n2) (A.sub m2 0 A.nrows A.ncols) (B.sub 0 0 A.ncols n2) 0 true)
  else D

/-- last inner indices (all four routes): `C[:m2, :n2] += A[:m2, k2:] · B[k2:, :n2]` -/
def stripK (D A B : BMat) (m2 k2 n2 : Nat) : BMat :=
  if A.ncols > k2 then
    let Cb := D.sub 0 0 m2 n2
    if Cb.ncols = 0 ∨ Cb.nrows = 0 then D else
    D.paste 0 0 (BMat.m4rm Cb (A.sub 0 k2 m2 A.ncols) (B.sub k2 0 A.ncols n2) 0 false)
  else D

/-- last columns, `_mzd_addmul_even` -/
def addStripR (D A B : BMat) (n2 : Nat) : BMat :=
  if B.ncols > n2 then
    let Cl := D.sub 0 n2 A.nrows B.ncols
    if Cl.ncols = 0 ∨ Cl.nrows = 0 then D else
    D.paste 0 n2 (BMat.m4rm Cl A (B.sub 0 n2 A.ncols B.ncols) 0 false)
  else D

/-- last rows, `_mzd_addmul_even` -/
def addStripB (D A B : BMat) (m2 n2 : Nat) : BMat :=
  if A.nrows > m2 then
    let Cl := D.sub m2 0 A.nrows n2
    if Cl.ncols = 0 ∨ Cl.nrows = 0 then D else
    D.paste m2 0 (BMat.m4rm Cl (A.sub m2 0 A.nrows A.ncols) (B.sub 0 0 A.ncols n2) 0 false)
  else D

/-- the full dot product: entry `(i, j)` of `A·B` -/
def dotK (A B : BMat) (k i j : Nat) : Bool := xorN (fun l => A.get i l && B.get l j) k

theorem Shaped.get_mul_dotK {A B : BMat} {m k : Nat} (hA : Shaped A m k) (i j : Nat) (hi : i < m) :
    (A.mul B).get i j = dotK A B k i j := by
  rw [hA.get_mul_S]; simp [hi, dotK]

theorem mulStripR_spec (hmul : M4rmMul) {D A B : BMat} {m k n : Nat} (hD : Shaped D m n)
    (hA : Shaped A m k) (hB : Shaped B k n) (n2 : Nat) (hn : n2 ≤ n) :
    Shaped (mulStripR D A B n2) m n ∧
    ∀ i j, (mulStripR D A B n2).get i j =
      if n2 ≤ j ∧ j < n ∧ i < m then dotK A B k i j else D.get i j := by
  unfold mulStripR
  rw [hA.nr, hA.nc, hB.nc]
  by_cases h : n > n2
  · rw [if_pos h]
    obtain ⟨s, g⟩ := step_mul hmul hD 0 n2 m n (Nat.le_refl _) hn (Nat.le_refl _) (kk := k)
      (hA.cast (by omega) rfl) ((hB.sub 0 n2 k n (Nat.le_refl _)).cast (by omega) rfl)
    refine ⟨s, fun i j => ?_⟩
    rw [g]
    by_cases hc : n2 ≤ j ∧ j < n ∧ i < m
    · rw [if_pos (by omega), if_pos hc]
      apply xorN_congr
      intro l hl
      rw [hB.get_sub 0 n2 k n _ _ (Nat.le_refl _)]
      have h1 : j - n2 < n - n2 := by omega
      have h2 : n2 + (j - n2) = j := by omega
      simp [hl, h1, h2]
    · rw [if_neg (by omega), if_neg hc]
  · rw [if_neg h]
    refine ⟨hD, fun i j => ?_⟩
    rw [if_neg (by omega)]

theorem mulStripB_spec (hmul : M4rmMul) {D A B : BMat} {m k n : Nat} (hD : Shaped D m n)
    (hA : Shaped A m k) (hB : Shaped B k n) (m2 n2 : Nat) (hm : m2 ≤ m) (hn : n2 ≤ n) :
    Shaped (mulStripB D A B m2 n2) m n ∧
    ∀ i j, (mulStripB D A B m2 n2).get i j =
      if m2 ≤ i ∧ i < m ∧ j < n2 then dotK A B k i j else D.get i j := by
  unfold mulStripB
  rw [hA.nr, hA.nc]
  by_cases h : m > m2
  · rw [if_pos h]
    obtain ⟨s, g⟩ := step_mul hmul hD m2 0 m n2 (Nat.le_refl _) (Nat.zero_le _) hn (kk := k)
      ((hA.sub m2 0 m k (Nat.le_refl _)).cast rfl (by omega))
      ((hB.sub 0 0 k n2 (Nat.le_refl _)).cast (by omega) rfl)
    refine ⟨s, fun i j => ?_⟩
    rw [g]
    by_cases hc : m2 ≤ i ∧ i < m ∧ j < n2
    · rw [if_pos (by omega), if_pos hc]
      apply xorN_congr
      intro l hl
      rw [hB.get_sub 0 0 k n2 _ _ (Nat.le_refl _), hA.get_sub m2 0 m k _ _ (Nat.le_refl _)]
      have h1 : i - m2 < m - m2 := by omega
      have h2 : m2 + (i - m2) = i := by omega
      simp [hl, h1, h2, hc.2.2]
    · rw [if_neg (by omega), if_neg hc]
  · rw [if_neg h]
    refine ⟨hD, fun i j => ?_⟩
    rw [if_neg (by omega)]

theorem stripK_spec (haddmul : M4rmAddmul) {D A B : BMat} {m k n : Nat} (hD : Shaped D m n)
    (hA : Shaped A m k) (hB : Shaped B k n) (m2 k2 n2 : Nat) (hm : m2 ≤ m) (hn : n2 ≤ n) :
    Shaped (stripK D A B m2 k2 n2) m n ∧
    ∀ i j, (stripK D A B m2 k2 n2).get i j =
      if i < m2 ∧ j < n2 then
        (D.get i j ^^ xorN (fun l => A.get i (k2 + l) && B.get (k2 + l) j) (k - k2))
      else D.get i j := by
  unfold stripK
  rw [hA.nc]
  by_cases h : k > k2
  · rw [if_pos h]
    obtain ⟨s, g⟩ := step_addmul haddmul hD 0 0 m2 n2 hm (Nat.zero_le _) hn (kk := k - k2)
      (hA.sub 0 k2 m2 k hm) (hB.sub k2 0 k n2 (Nat.le_refl _))
    refine ⟨s, fun i j => ?_⟩
    rw [g]
    by_cases hc : i < m2 ∧ j < n2
    · rw [if_pos (by omega), if_pos hc]
      congr 1
      apply xorN_congr
      intro l hl
      rw [hB.get_sub k2 0 k n2 _ _ (Nat.le_refl _), hA.get_sub 0 k2 m2 k _ _ hm]
      simp [hl, hc.1, hc.2]
    · rw [if_neg (by omega), if_neg hc]
  · rw [if_neg h]
    refine ⟨hD, fun i j => ?_⟩
    have : k - k2 = 0 := by omega
    rw [this]
    simp

theorem addStripR_spec (haddmul : M4rmAddmul) {D A B : BMat} {m k n : Nat} (hD : Shaped D m n)
    (hA : Shaped A m k) (hB : Shaped B k n) (n2 : Nat) (hn : n2 ≤ n) :
    Shaped (addStripR D A B n2) m n ∧
    ∀ i j, (addStripR D A B n2).get i j =
      if n2 ≤ j ∧ j < n ∧ i < m then (D.get i j ^^ dotK A B k i j) else D.get i j := by
  unfold addStripR
  rw [hA.nr, hA.nc, hB.nc]
  by_cases h : n > n2
  · rw [if_pos h]
    obtain ⟨s, g⟩ := step_addmul haddmul hD 0 n2 m n (Nat.le_refl _) hn (Nat.le_refl _) (kk := k)
      (hA.cast (by omega) rfl) ((hB.sub 0 n2 k n (Nat.le_refl _)).cast (by omega) rfl)
    refine ⟨s, fun i j => ?_⟩
    rw [g]
    by_cases hc : n2 ≤ j ∧ j < n ∧ i < m
    · rw [if_pos (by omega), if_pos hc]
      congr 1
      apply xorN_congr
      intro l hl
      rw [hB.get_sub 0 n2 k n _ _ (Nat.le_refl _)]
      have h1 : j - n2 < n - n2 := by omega
      have h2 : n2 + (j - n2) = j := by omega
      simp [hl, h1, h2]
    · rw [if_neg (by omega), if_neg hc]
  · rw [if_neg h]
    refine ⟨hD, fun i j => ?_⟩
    rw [if_neg (by omega)]

theorem addStripB_spec (haddmul : M4rmAddmul) {D A B : BMat} {m k n : Nat} (hD : Shaped D m n)
    (hA : Shaped A m k) (hB : Shaped B k n) (m2 n2 : Nat) (hm : m2 ≤ m) (hn : n2 ≤ n) :
    Shaped (addStripB D A B m2 n2) m n ∧
    ∀ i j, (addStripB D A B m2 n2).get i j =
      if m2 ≤ i ∧ i < m ∧ j < n2 then (D.get i j ^^ dotK A B k i j) else D.get i j := by
  unfold addStripB
  rw [hA.nr, hA.nc]
  by_cases h : m > m2
  · rw [if_pos h]
    obtain ⟨s, g⟩ := step_addmul haddmul hD m2 0 m n2 (Nat.le_refl _) (Nat.zero_le _) hn (kk := k)
      ((hA.sub m2 0 m k (Nat.le_refl _)).cast rfl (by omega))
      ((hB.sub 0 0 k n2 (Nat.le_refl _)).cast (by omega) rfl)
    refine ⟨s, fun i j => ?_⟩
    rw [g]
    by_cases hc : m2 ≤ i ∧ i < m ∧ j < n2
    · rw [if_pos (by omega), if_pos hc]
      congr 1
      apply xorN_congr
      intro l hl
      rw [hB.get_sub 0 0 k n2 _ _ (Nat.le_refl _), hA.get_sub m2 0 m k _ _ (Nat.le_refl _)]
      have h1 : i - m2 < m - m2 := by omega
      have h2 : m2 + (i - m2) = i := by omega
      simp [hl, h1, h2, hc.2.2]
    · rw [if_neg (by omega), if_neg hc]
  · rw [if_neg h]
    refine ⟨hD, fun i j => ?_⟩
    rw [if_neg (by omega)]

/-! ### block laws (`sub` / `paste` / `mul`) -/

/-- block decomposition of a product: any window of `A·B` is the sum of the two products obtained by
    splitting the inner dimension at `k1`. With `(r0,r1,c0,c1) = (0,m1,0,n1)`, `(0,m1,n1,n)`, … this gives
    the four quadrants and the strips. -/
theorem sub_mul_split {A B : BMat} {m k n : Nat} (hA : Shaped A m k) (hB : Shaped B k n)
    (r0 r1 c0 c1 k1 : Nat) (hr : r1 ≤ m) (hk : k1 ≤ k) :
    (A.mul B).sub r0 c0 r1 c1 =
      addM ((A.sub r0 0 r1 k1).mul (B.sub 0 c0 k1 c1)) ((A.sub r0 k1 r1 k).mul (B.sub k1 c0 k c1)) := by
  have h1 := (hA.sub r0 0 r1 k1 hr).mul (hB.sub 0 c0 k1 c1 hk)
  have h2 := (hA.sub r0 k1 r1 k hr).mul (hB.sub k1 c0 k c1 (Nat.le_refl _))
  apply ((hA.mul hB).sub r0 c0 r1 c1 hr).ext (h1.addM h2)
  intro i j hi hj
  rw [(hA.mul hB).get_sub r0 c0 r1 c1 i j hr, h1.get_addM h2,
    get_sub_mul_sub hA hB r0 r1 0 k1 c0 c1 hr hk, get_sub_mul_sub hA hB r0 r1 k1 k c0 c1 hr (Nat.le_refl _),
    hA.get_mul_S, xorN_split (fun l => A.get (r0 + i) l && B.get l (c0 + j)) hk]
  have : r0 + i < m := by omega
  simp [hi, hj, this]

/-- reading back the block just written gives the block -/
theorem Shaped.sub_paste_same {M X : BMat} {m n : Nat} (hM : Shaped M m n) (r0 c0 r1 c1 : Nat)
    (hX : Shaped X (r1 - r0) (c1 - c0)) (hr : r1 ≤ m) (hcc : c0 ≤ c1) (hc : c1 ≤ n) :
    (M.paste r0 c0 X).sub r0 c0 r1 c1 = X := by
  have hP := hM.paste X r0 c0 (by rw [hX.nc]; omega)
  apply (hP.sub r0 c0 r1 c1 hr).ext hX
  intro i j hi hj
  rw [hP.get_sub r0 c0 r1 c1 i j hr, hM.get_paste_window r0 c0 r1 c1 hX hr, if_pos (by omega)]
  have e1 : r0 + i - r0 = i := by omega
  have e2 : c0 + j - c0 = j := by omega
  simp [hi, hj, e1, e2]

/-- reading a window that does not meet the block just written gives the old content -/
theorem Shaped.sub_paste_disjoint {M X : BMat} {m n : Nat} (hM : Shaped M m n) (r0 c0 r1 c1 : Nat)
    (hX : Shaped X (r1 - r0) (c1 - c0)) (hr : r1 ≤ m) (hcc : c0 ≤ c1) (hc : c1 ≤ n)
    (s0 d0 s1 d1 : Nat) (hs : s1 ≤ m) (hdis : s1 ≤ r0 ∨ r1 ≤ s0 ∨ d1 ≤ c0 ∨ c1 ≤ d0) :
    (M.paste r0 c0 X).sub s0 d0 s1 d1 = M.sub s0 d0 s1 d1 := by
  have hP := hM.paste X r0 c0 (by rw [hX.nc]; omega)
  apply (hP.sub s0 d0 s1 d1 hs).ext (hM.sub s0 d0 s1 d1 hs)
  intro i j hi hj
  rw [hP.get_sub s0 d0 s1 d1 i j hs, hM.get_sub s0 d0 s1 d1 i j hs,
    hM.get_paste_window r0 c0 r1 c1 hX hr, if_neg (by omega)]

/-- writing a window back unchanged is the identity -/
theorem Shaped.paste_sub_self {M : BMat} {m n : Nat} (hM : Shaped M m n) (r0 c0 r1 c1 : Nat)
    (hr : r1 ≤ m) (hcc : c0 ≤ c1) (hc : c1 ≤ n) : M.paste r0 c0 (M.sub r0 c0 r1 c1) = M := by
  have hW := hM.sub r0 c0 r1 c1 hr
  apply (hM.paste _ r0 c0 (by rw [hW.nc]; omega)).ext hM
  intro i j _ _
  rw [hM.get_paste_window r0 c0 r1 c1 hW hr]
  split
  · next h =>
    rw [hM.get_sub r0 c0 r1 c1 _ _ hr]
    have e1 : r0 + (i - r0) = i := by omega
    have e2 : c0 + (j - c0) = j := by omega
    have e3 : i - r0 < r1 - r0 := by omega
    have e4 : j - c0 < c1 - c0 := by omega
    simp [e1, e2, e3, e4]
  · rfl

/-- writes to disjoint blocks commute -/
theorem Shaped.paste_paste_comm {M X Y : BMat} {m n : Nat} (hM : Shaped M m n)
    (r0 c0 r1 c1 : Nat) (hX : Shaped X (r1 - r0) (c1 - c0)) (hr : r1 ≤ m) (hcc : c0 ≤ c1) (hc : c1 ≤ n)
    (s0 d0 s1 d1 : Nat) (hY : Shaped Y (s1 - s0) (d1 - d0)) (hs : s1 ≤ m) (hdd : d0 ≤ d1) (hd : d1 ≤ n)
    (hdis : s1 ≤ r0 ∨ r1 ≤ s0 ∨ d1 ≤ c0 ∨ c1 ≤ d0) :
    (M.paste r0 c0 X).paste s0 d0 Y = (M.paste s0 d0 Y).paste r0 c0 X := by
  have hPX := hM.paste X r0 c0 (by rw [hX.nc]; omega)
  have hPY := hM.paste Y s0 d0 (by rw [hY.nc]; omega)
  apply (hPX.paste Y s0 d0 (by rw [hY.nc]; omega)).ext (hPY.paste X r0 c0 (by rw [hX.nc]; omega))
  intro i j _ _
  rw [hPX.get_paste_window s0 d0 s1 d1 hY hs, hM.get_paste_window r0 c0 r1 c1 hX hr,
    hPY.get_paste_window r0 c0 r1 c1 hX hr, hM.get_paste_window s0 d0 s1 d1 hY hs]
  by_cases h1 : s0 ≤ i ∧ i < s1 ∧ d0 ≤ j ∧ j < d1
  · have h2 : ¬ (r0 ≤ i ∧ i < r1 ∧ c0 ≤ j ∧ j < c1) := by omega
    simp only [if_pos h1, if_neg h2]
  · simp only [if_neg h1]

/-- the four quadrants at `(m1, n1)` cover the matrix: two matrices of one shape with equal quadrants
    are equal (the strips of strassen.c are the quadrants beyond `2·mmm`, `2·nnn`) -/
theorem Shaped.ext_quadrants {X Y : BMat} {m n : Nat} (hX : Shaped X m n) (hY : Shaped Y m n) (m1 n1 : Nat)
    (hm1 : m1 ≤ m) (h11 : X.sub 0 0 m1 n1 = Y.sub 0 0 m1 n1) (h12 : X.sub 0 n1 m1 n = Y.sub 0 n1 m1 n)
    (h21 : X.sub m1 0 m n1 = Y.sub m1 0 m n1) (h22 : X.sub m1 n1 m n = Y.sub m1 n1 m n) : X = Y := by
  apply hX.ext hY
  intro i j hi hj
  have key : ∀ (r0 c0 r1 c1 : Nat), X.sub r0 c0 r1 c1 = Y.sub r0 c0 r1 c1 → r1 ≤ m →
      r0 ≤ i → i < r1 → c0 ≤ j → j < c1 → X.get i j = Y.get i j := by
    intro r0 c0 r1 c1 h hr a1 a2 a3 a4
    have : (X.sub r0 c0 r1 c1).get (i - r0) (j - c0) = (Y.sub r0 c0 r1 c1).get (i - r0) (j - c0) := by
      rw [h]
    rw [hX.get_sub r0 c0 r1 c1 _ _ hr, hY.get_sub r0 c0 r1 c1 _ _ hr] at this
    have e1 : r0 + (i - r0) = i := by omega
    have e2 : c0 + (j - c0) = j := by omega
    have e3 : i - r0 < r1 - r0 := by omega
    have e4 : j - c0 < c1 - c0 := by omega
    simpa [e1, e2, e3, e4] using this
  by_cases a : i < m1
  · by_cases b : j < n1
    · exact key 0 0 m1 n1 h11 (by omega) (by omega) a (by omega) b
    · exact key 0 n1 m1 n h12 (by omega) (by omega) a (by omega) hj
  · by_cases b : j < n1
    · exact key m1 0 m n1 h21 (by omega) (by omega) hi (by omega) b
    · exact key m1 n1 m n h22 (by omega) (by omega) hi (by omega) hj

/-! ### assembly -/

/-- the "deal with rest" part of `_mzd_mul_even` / `_mzd_sqr_even` -/
def stripsMul (C0 A B : BMat) (m2 k2 n2 : Nat) : BMat :=
  stripK (mulStripB (mulStripR C0 A B n2) A B m2 n2) A B m2 k2 n2

/-- the "deal with rest" part of `_mzd_addmul_even` / `_mzd_addsqr_even` -/
def stripsAddmul (C0 A B : BMat) (m2 k2 n2 : Nat) : BMat :=
  stripK (addStripB (addStripR C0 A B n2) A B m2 n2) A B m2 k2 n2

theorem dotK_split (A B : BMat) {k2 k : Nat} (h : k2 ≤ k) (i j : Nat) :
    dotK A B k i j = (dotK A B k2 i j ^^ xorN (fun l => A.get i (k2 + l) && B.get (k2 + l) j) (k - k2)) := by
  unfold dotK
  rw [xorN_split (fun l => A.get i l && B.get l j) h]

/-- if the top-left `m2 × n2` block of `C0` holds the partial products over the first `k2` inner indices,
    the three strips complete it to `A·B` -/
theorem stripsMul_eq (hmul : M4rmMul) (haddmul : M4rmAddmul) {A B C0 : BMat} {m k n m2 k2 n2 : Nat}
    (hA : Shaped A m k) (hB : Shaped B k n) (hC0 : Shaped C0 m n) (hm : m2 ≤ m) (hk : k2 ≤ k) (hn : n2 ≤ n)
    (h0 : ∀ i j, i < m2 → j < n2 → C0.get i j = dotK A B k2 i j) :
    stripsMul C0 A B m2 k2 n2 = A.mul B := by
  unfold stripsMul
  obtain ⟨s1, g1⟩ := mulStripR_spec hmul hC0 hA hB n2 hn
  obtain ⟨s2, g2⟩ := mulStripB_spec hmul s1 hA hB m2 n2 hm hn
  obtain ⟨s3, g3⟩ := stripK_spec haddmul s2 hA hB m2 k2 n2 hm hn
  apply s3.ext (hA.mul hB)
  intro i j hi hj
  rw [g3, g2, g1, hA.get_mul_dotK i j hi]
  by_cases h1 : i < m2
  · by_cases h2 : j < n2
    · rw [if_pos ⟨h1, h2⟩, if_neg (by omega), if_neg (by omega), h0 i j h1 h2, dotK_split A B hk]
    · rw [if_neg (by omega), if_neg (by omega), if_pos (by omega)]
  · by_cases h2 : j < n2
    · rw [if_neg (by omega), if_pos (by omega)]
    · rw [if_neg (by omega), if_neg (by omega), if_pos (by omega)]

/-- the same for the accumulating routes -/
theorem stripsAddmul_eq (haddmul : M4rmAddmul) {A B C C0 : BMat} {m k n m2 k2 n2 : Nat}
    (hA : Shaped A m k) (hB : Shaped B k n) (hC : Shaped C m n) (hC0 : Shaped C0 m n)
    (hm : m2 ≤ m) (hk : k2 ≤ k) (hn : n2 ≤ n)
    (h0 : ∀ i j, i < m → j < n → C0.get i j =
      if i < m2 ∧ j < n2 then (C.get i j ^^ dotK A B k2 i j) else C.get i j) :
    stripsAddmul C0 A B m2 k2 n2 = C.add (A.mul B) := by
  unfold stripsAddmul
  obtain ⟨s1, g1⟩ := addStripR_spec haddmul hC0 hA hB n2 hn
  obtain ⟨s2, g2⟩ := addStripB_spec haddmul s1 hA hB m2 n2 hm hn
  obtain ⟨s3, g3⟩ := stripK_spec haddmul s2 hA hB m2 k2 n2 hm hn
  apply s3.ext (hC.add (hA.mul hB))
  intro i j hi hj
  rw [g3, g2, g1, hC.get_add (hA.mul hB), hA.get_mul_dotK i j hi, h0 i j hi hj]
  by_cases h1 : i < m2
  · by_cases h2 : j < n2
    · rw [if_pos ⟨h1, h2⟩, if_neg (by omega), if_neg (by omega), if_pos ⟨h1, h2⟩, dotK_split A B hk,
        Bool.xor_assoc]
    · rw [if_neg (by omega), if_neg (by omega), if_pos (by omega), if_neg (by omega)]
  · by_cases h2 : j < n2
    · rw [if_neg (by omega), if_pos (by omega), if_neg (by omega), if_neg (by omega)]
    · rw [if_neg (by omega), if_neg (by omega), if_pos (by omega), if_neg (by omega)]

/-- entries of the four quadrants of the product, written back by `paste4` -/
theorem paste4_blockProd {A B C : BMat} {m k n m1 k1 n1 : Nat}
    (hA : Shaped A m k) (hB : Shaped B k n) (hC : Shaped C m n)
    (hm : 2 * m1 ≤ m) (hk : 2 * k1 ≤ k) (hn : 2 * n1 ≤ n) :
    let C0 := paste4 C (blockProd A B 0 m1 0 n1 k1) (blockProd A B 0 m1 n1 (2 * n1) k1)
      (blockProd A B m1 (2 * m1) 0 n1 k1) (blockProd A B m1 (2 * m1) n1 (2 * n1) k1) m1 n1
    Shaped C0 m n ∧ ∀ i j, i < 2 * m1 → j < 2 * n1 → C0.get i j = dotK A B (2 * k1) i j := by
  intro C0
  have q11 := (hA.blockProd hB 0 m1 0 n1 k1 (by omega) hk)
  have q12 := (hA.blockProd hB 0 m1 n1 (2 * n1) k1 (by omega) hk)
  have q21 := (hA.blockProd hB m1 (2 * m1) 0 n1 k1 (by omega) hk)
  have q22 := (hA.blockProd hB m1 (2 * m1) n1 (2 * n1) k1 (by omega) hk)
  obtain ⟨s, g⟩ := paste4_spec hC (q11.cast (by omega) (by omega)) (q12.cast (by omega) (by omega))
    (q21.cast (by omega) (by omega)) (q22.cast (by omega) (by omega)) hm hn
  refine ⟨s, fun i j hi hj => ?_⟩
  show (paste4 _ _ _ _ _ _ _).get i j = _
  rw [g]
  unfold dotK
  by_cases h1 : i < m1
  · rw [if_pos h1]
    by_cases h2 : j < n1
    · rw [if_pos h2, get_blockProd hA hB 0 m1 0 n1 k1 (by omega) hk i j (by omega) (by omega)]
      simp
    · rw [if_neg h2, if_pos hj,
        get_blockProd hA hB 0 m1 n1 (2 * n1) k1 (by omega) hk i (j - n1) (by omega) (by omega)]
      have e : n1 + (j - n1) = j := by omega
      simp [e]
  · rw [if_neg h1, if_pos hi]
    have ei : m1 + (i - m1) = i := by omega
    by_cases h2 : j < n1
    · rw [if_pos h2,
        get_blockProd hA hB m1 (2 * m1) 0 n1 k1 (by omega) hk (i - m1) j (by omega) (by omega)]
      simp [ei]
    · rw [if_neg h2, if_pos hj,
        get_blockProd hA hB m1 (2 * m1) n1 (2 * n1) k1 (by omega) hk (i - m1) (j - n1) (by omega) (by omega)]
      have e : n1 + (j - n1) = j := by omega
      simp [e, ei]

/-- quadrants `A11·B11 + A12·B21`, … written back, then the three strips: the result is `A·B` -/
theorem assemble_mul (hmul : M4rmMul) (haddmul : M4rmAddmul) {A B C : BMat} {m k n m1 k1 n1 : Nat}
    (hA : Shaped A m k) (hB : Shaped B k n) (hC : Shaped C m n)
    (hm : 2 * m1 ≤ m) (hk : 2 * k1 ≤ k) (hn : 2 * n1 ≤ n) :
    stripsMul (paste4 C (blockProd A B 0 m1 0 n1 k1) (blockProd A B 0 m1 n1 (2 * n1) k1)
      (blockProd A B m1 (2 * m1) 0 n1 k1) (blockProd A B m1 (2 * m1) n1 (2 * n1) k1) m1 n1)
      A B (2 * m1) (2 * k1) (2 * n1) = A.mul B := by
  obtain ⟨s, g⟩ := paste4_blockProd hA hB hC hm hk hn
  exact stripsMul_eq hmul haddmul hA hB s hm hk hn g

/-- quadrants `C11 + (A11·B11 + A12·B21)`, … written back, then the three accumulating strips:
    the result is `C + A·B` -/
theorem assemble_addmul (haddmul : M4rmAddmul) {A B C : BMat} {m k n m1 k1 n1 : Nat}
    (hA : Shaped A m k) (hB : Shaped B k n) (hC : Shaped C m n)
    (hm : 2 * m1 ≤ m) (hk : 2 * k1 ≤ k) (hn : 2 * n1 ≤ n) :
    stripsAddmul (paste4 C
      (addM (C.sub 0 0 m1 n1) (blockProd A B 0 m1 0 n1 k1))
      (addM (C.sub 0 n1 m1 (2 * n1)) (blockProd A B 0 m1 n1 (2 * n1) k1))
      (addM (C.sub m1 0 (2 * m1) n1) (blockProd A B m1 (2 * m1) 0 n1 k1))
      (addM (C.sub m1 n1 (2 * m1) (2 * n1)) (blockProd A B m1 (2 * m1) n1 (2 * n1) k1)) m1 n1)
      A B (2 * m1) (2 * k1) (2 * n1) = C.add (A.mul B) := by
  have q11 := (hA.blockProd hB 0 m1 0 n1 k1 (by omega) hk)
  have q12 := (hA.blockProd hB 0 m1 n1 (2 * n1) k1 (by omega) hk)
  have q21 := (hA.blockProd hB m1 (2 * m1) 0 n1 k1 (by omega) hk)
  have q22 := (hA.blockProd hB m1 (2 * m1) n1 (2 * n1) k1 (by omega) hk)
  have c11 := hC.sub 0 0 m1 n1 (by omega)
  have c12 := hC.sub 0 n1 m1 (2 * n1) (by omega)
  have c21 := hC.sub m1 0 (2 * m1) n1 (by omega)
  have c22 := hC.sub m1 n1 (2 * m1) (2 * n1) (by omega)
  obtain ⟨s, g⟩ := paste4_spec hC ((c11.addM q11).cast (by omega) (by omega))
    ((c12.addM q12).cast (by omega) (by omega)) ((c21.addM q21).cast (by omega) (by omega))
    ((c22.addM q22).cast (by omega) (by omega)) hm hn
  apply stripsAddmul_eq haddmul hA hB hC s hm hk hn
  intro i j hi hj
  rw [g]
  unfold dotK
  by_cases h1 : i < m1
  · rw [if_pos h1]
    by_cases h2 : j < n1
    · rw [if_pos h2, if_pos (by omega), c11.get_addM q11,
        get_blockProd hA hB 0 m1 0 n1 k1 (by omega) hk i j (by omega) (by omega),
        hC.get_sub 0 0 m1 n1 _ _ (by omega)]
      simp [h1, h2]
    · rw [if_neg h2]
      by_cases h3 : j < 2 * n1
      · rw [if_pos h3, if_pos (by omega), c12.get_addM q12,
          get_blockProd hA hB 0 m1 n1 (2 * n1) k1 (by omega) hk i (j - n1) (by omega) (by omega),
          hC.get_sub 0 n1 m1 (2 * n1) _ _ (by omega)]
        have e : n1 + (j - n1) = j := by omega
        have e' : j - n1 < 2 * n1 - n1 := by omega
        simp [e, e', h1]
      · rw [if_neg h3, if_neg (by omega)]
  · rw [if_neg h1]
    by_cases h1' : i < 2 * m1
    · rw [if_pos h1']
      have ei : m1 + (i - m1) = i := by omega
      have ei' : i - m1 < 2 * m1 - m1 := by omega
      by_cases h2 : j < n1
      · rw [if_pos h2, if_pos (by omega), c21.get_addM q21,
          get_blockProd hA hB m1 (2 * m1) 0 n1 k1 (by omega) hk (i - m1) j (by omega) (by omega),
          hC.get_sub m1 0 (2 * m1) n1 _ _ (by omega)]
        simp [ei, ei', h2]
      · rw [if_neg h2]
        by_cases h3 : j < 2 * n1
        · rw [if_pos h3, if_pos (by omega), c22.get_addM q22,
            get_blockProd hA hB m1 (2 * m1) n1 (2 * n1) k1 (by omega) hk (i - m1) (j - n1) (by omega) (by omega),
            hC.get_sub m1 n1 (2 * m1) (2 * n1) _ _ (by omega)]
          have e : n1 + (j - n1) = j := by omega
          have e' : j - n1 < 2 * n1 - n1 := by omega
          simp [e, e', ei, ei']
        · rw [if_neg h3, if_neg (by omega)]
    · rw [if_neg h1', if_neg (by omega)]

end BMat
end M4ri
