/-
  C20 (allocation failure), protocol part: if every allocation call site of a run is `wrapper` or
  `checked` (and asks for a positive size), then under EVERY fault plan the run either completes or ends
  in a clean `m4ri_die` at the first failing request — a NULL result is never used.  Conversely an
  `unchecked` site is exposed by the fault plan that fails exactly there.
  The inventory theorems tie this to the generated site list `M4ri.Gen.allocSites`.
-/
import M4ri.AllocFail
namespace M4ri.AllocFail

/-! ### the run semantics in closed form -/

theorem runFrom_single (reqs : List Request) (pos failAt : Nat) :
    runFrom (fun i => i == failAt) pos reqs =
      if pos ≤ failAt then
        match reqs[failAt - pos]? with
        | none => .completed
        | some r => r.onNull failAt
      else .completed := by
  induction reqs generalizing pos with
  | nil => simp [runFrom]
  | cons r rest ih =>
    rw [runFrom]
    by_cases h : pos = failAt
    · subst h; simp
    · have hb : (pos == failAt) = false := by simpa using h
      simp only [hb, Bool.false_eq_true, if_false]
      rw [ih (pos + 1)]
      by_cases hle : pos ≤ failAt
      · have h1 : pos + 1 ≤ failAt := by omega
        have h2 : failAt - pos = (failAt - (pos + 1)) + 1 := by omega
        rw [if_pos h1, if_pos hle, h2, List.getElem?_cons_succ]
      · rw [if_neg (by omega), if_neg hle]

/-- `run` in closed form: only the site of the failing request matters -/
theorem run_eq (reqs : List Request) (failAt : Nat) :
    run reqs failAt =
      match reqs[failAt]? with
      | none => .completed
      | some r => r.onNull failAt := by
  unfold run runPlan
  rw [runFrom_single]
  simp

/-- a fault after the end of the run is never reached -/
theorem run_completed (reqs : List Request) (failAt : Nat) (h : reqs.length ≤ failAt) :
    run reqs failAt = .completed := by
  rw [run_eq, List.getElem?_eq_none h]

/-- the outcome of a run under any fault plan: `completed` iff no request fails; otherwise it is decided
    by the FIRST failing request -/
theorem runFrom_spec (fails : Nat → Bool) (reqs : List Request) (pos : Nat) :
    (runFrom fails pos reqs = .completed ∧ ∀ i, i < reqs.length → fails (pos + i) = false) ∨
    ∃ i, ∃ h : i < reqs.length, fails (pos + i) = true ∧ (∀ j, j < i → fails (pos + j) = false) ∧
      runFrom fails pos reqs = (reqs[i]).onNull (pos + i) := by
  induction reqs generalizing pos with
  | nil => left; simp [runFrom]
  | cons r rest ih =>
    rw [runFrom]
    by_cases hf : fails pos = true
    · right
      exact ⟨0, by simp, by simpa using hf, by simp, by simp [hf]⟩
    · have hf' : fails pos = false := by simpa using hf
      rw [hf']
      rcases ih (pos + 1) with ⟨hc, hall⟩ | ⟨i, hi, h1, h2, h3⟩
      · left
        refine ⟨by simpa using hc, fun i hi => ?_⟩
        cases i with
        | zero => simpa using hf'
        | succ i =>
          have := hall i (by simpa using hi)
          rwa [show pos + 1 + i = pos + (i + 1) by omega] at this
      · right
        refine ⟨i + 1, by simpa using hi, ?_, ?_, ?_⟩
        · rwa [show pos + 1 + i = pos + (i + 1) by omega] at h1
        · intro j hj
          cases j with
          | zero => simpa using hf'
          | succ j =>
            have := h2 j (by omega)
            rwa [show pos + 1 + j = pos + (j + 1) by omega] at this
        · simp only [Bool.false_eq_true, if_false, List.getElem_cons_succ]
          rw [h3, show pos + 1 + i = pos + (i + 1) by omega]

/-! ### guarded requests -/

theorem guarded_of_kind {r : Request} (hk : r.site.kind = .wrapper ∨ r.site.kind = .checked)
    (hs : 0 < r.size) : r.guarded = true := by
  unfold Request.guarded
  rcases hk with hk | hk <;> rw [hk] <;> simp [hs]

theorem not_guarded_of_unchecked {r : Request} (hk : r.site.kind = .unchecked) : r.guarded = false := by
  unfold Request.guarded; rw [hk]

/-! ### main theorems -/

/-- C20, single fault: if every request of the run is issued at a `wrapper` or `checked` site with a
    positive size, then failing request `i` ends the run in `m4ri_die` at `i` — for every `i` -/
theorem all_checked_dies (reqs : List Request)
    (hall : ∀ r ∈ reqs, (r.site.kind = .wrapper ∨ r.site.kind = .checked) ∧ 0 < r.size)
    (i : Nat) (hi : i < reqs.length) : run reqs i = .died i := by
  rw [run_eq, List.getElem?_eq_getElem hi]
  have := hall reqs[i] (List.getElem_mem hi)
  simp [Request.onNull, guarded_of_kind this.1 this.2]

/-- … in particular a NULL result is never used, wherever the fault is injected -/
theorem all_checked_never_nullDeref (reqs : List Request)
    (hall : ∀ r ∈ reqs, (r.site.kind = .wrapper ∨ r.site.kind = .checked) ∧ 0 < r.size)
    (failAt at_ : Nat) : run reqs failAt ≠ .nullDeref at_ := by
  by_cases h : failAt < reqs.length
  · rw [all_checked_dies reqs hall failAt h]; simp
  · rw [run_completed reqs failAt (by omega)]; simp

/-- C20, arbitrary fault plan (any set of requests fails, e.g. "every allocation from the `i`-th on"):
    the run completes iff no request failed, and otherwise dies cleanly at the first failing request -/
theorem all_checked_plan (reqs : List Request)
    (hall : ∀ r ∈ reqs, (r.site.kind = .wrapper ∨ r.site.kind = .checked) ∧ 0 < r.size)
    (fails : Nat → Bool) :
    (runPlan reqs fails = .completed ∧ ∀ i, i < reqs.length → fails i = false) ∨
    ∃ i, i < reqs.length ∧ fails i = true ∧ (∀ j, j < i → fails j = false) ∧
      runPlan reqs fails = .died i := by
  unfold runPlan
  rcases runFrom_spec fails reqs 0 with ⟨hc, h⟩ | ⟨i, hi, h1, h2, h3⟩
  · left; exact ⟨hc, fun i hi => by simpa using h i hi⟩
  · right
    refine ⟨i, hi, by simpa using h1, fun j hj => by simpa using h2 j hj, ?_⟩
    have := hall reqs[i] (List.getElem_mem hi)
    rw [h3]
    simp [Request.onNull, guarded_of_kind this.1 this.2]

/-- converse: a request issued at an `unchecked` site is exposed by the fault injected there -/
theorem unchecked_exposed (reqs : List Request) (i : Nat) (hi : i < reqs.length)
    (hu : (reqs[i]).site.kind = .unchecked) : run reqs i = .nullDeref i := by
  rw [run_eq, List.getElem?_eq_getElem hi]
  simp [Request.onNull, not_guarded_of_unchecked hu]

/-- exact characterisation: a run is free of NULL dereferences under every single fault iff all its
    requests are guarded -/
theorem safe_iff (reqs : List Request) :
    (∀ i, i < reqs.length → run reqs i = .died i) ↔ ∀ r ∈ reqs, r.guarded = true := by
  constructor
  · intro h r hr
    obtain ⟨i, hi, rfl⟩ := List.getElem_of_mem hr
    have := h i hi
    rw [run_eq, List.getElem?_eq_getElem hi] at this
    by_cases hg : (reqs[i]).guarded = true
    · exact hg
    · simp [Request.onNull, hg] at this
  · intro h i hi
    rw [run_eq, List.getElem?_eq_getElem hi]
    simp [Request.onNull, h reqs[i] (List.getElem_mem hi)]

/-! ### the inventory -/

theorem allChecked_iff (sites : List Site) :
    allChecked sites = true ↔ ∀ s ∈ sites, s.kind = .wrapper ∨ s.kind = .checked := by
  unfold allChecked
  rw [List.all_eq_true]
  constructor
  · intro h s hs
    have := h s hs
    cases hk : s.kind <;> simp_all
  · intro h s hs
    rcases h s hs with hk | hk <;> simp [hk]

theorem offending_eq_nil_iff (sites : List Site) : offending sites = [] ↔ allChecked sites = true := by
  unfold offending allChecked
  rw [List.filter_eq_nil_iff, List.all_eq_true]
  constructor
  · intro h s hs; have := h s hs; simpa using this
  · intro h s hs; have := h s hs; simpa using this

/-- generic inventory theorem: if the site list passes `allChecked`, every run that issues its requests
    only at these sites (positive sizes) dies cleanly at the injected fault, wherever it is injected -/
theorem sites_theorem (sites : List Site) (hchk : allChecked sites = true)
    (reqs : List Request) (hfrom : FromSites sites reqs) (i : Nat) (hi : i < reqs.length) :
    run reqs i = .died i := by
  apply all_checked_dies reqs _ i hi
  intro r hr
  exact ⟨(allChecked_iff sites).1 hchk r.site (hfrom r hr).1, (hfrom r hr).2⟩

/-- the same under every fault plan -/
theorem sites_theorem_plan (sites : List Site) (hchk : allChecked sites = true)
    (reqs : List Request) (hfrom : FromSites sites reqs) (fails : Nat → Bool) (at_ : Nat) :
    runPlan reqs fails ≠ .nullDeref at_ := by
  have hall : ∀ r ∈ reqs, (r.site.kind = .wrapper ∨ r.site.kind = .checked) ∧ 0 < r.size :=
    fun r hr => ⟨(allChecked_iff sites).1 hchk r.site (hfrom r hr).1, (hfrom r hr).2⟩
  rcases all_checked_plan reqs hall fails with ⟨hc, _⟩ | ⟨i, _, _, _, hd⟩
  · rw [hc]; simp
  · rw [hd]; simp

/-- C20 for the source tree: IF the generated inventory passes the check, every run built from inventory
    sites dies cleanly under every single fault.  (A new unchecked `malloc` in the sources makes
    `inventoryAllChecked` evaluate to `false`, see `classify_unchecked_detected`.) -/
theorem inventory_theorem (h : inventoryAllChecked = true) (reqs : List Request)
    (hfrom : FromSites inventorySites reqs) (i : Nat) (hi : i < reqs.length) : run reqs i = .died i :=
  sites_theorem inventorySites h reqs hfrom i hi

/-- the check is sensitive: an inventory row with verdict `unchecked` (or any unknown verdict) makes it fail -/
theorem classify_unchecked_detected (inv : List (String × Nat × String × String))
    (e : String × Nat × String × String) (he : e ∈ inv) (hv : e.2.2.2 ≠ "wrapper" ∧ e.2.2.2 ≠ "checked") :
    allChecked (classify inv) = false := by
  rw [Bool.eq_false_iff]
  intro h
  have := (allChecked_iff _).1 h ⟨e.1, e.2.1, e.2.2.1, kindOfVerdict e.2.2.2⟩
    (by unfold classify; exact List.mem_map.2 ⟨e, he, rfl⟩)
  simp [kindOfVerdict, hv.1, hv.2] at this

/-- … and such a site is really exposed: the one-request run at that site, with the fault injected
    there, uses the NULL result -/
theorem classify_unchecked_exposed (inv : List (String × Nat × String × String))
    (e : String × Nat × String × String) (he : e ∈ inv) (hv : e.2.2.2 ≠ "wrapper" ∧ e.2.2.2 ≠ "checked")
    (size : Nat) :
    ∃ s ∈ classify inv, run [⟨s, size⟩] 0 = .nullDeref 0 := by
  refine ⟨⟨e.1, e.2.1, e.2.2.1, kindOfVerdict e.2.2.2⟩,
    by unfold classify; exact List.mem_map.2 ⟨e, he, rfl⟩, ?_⟩
  apply unchecked_exposed _ 0 (by simp)
  simp [kindOfVerdict, hv.1, hv.2]

/-! ### the current source tree

`Gen.allocSites` is regenerated from the C sources on every check, so `inventory_all_checked` is a GENERATED
PROOF OBLIGATION: it stops compiling as soon as a source change introduces an allocation call site whose
result is used untested (verdict `unchecked`, or any verdict the classifier does not know). -/

/-- every allocation call site of the current source tree is `wrapper` or `checked` -/
theorem inventory_all_checked : inventoryAllChecked = true := by decide

/-- … equivalently, there is no offending site -/
theorem inventory_no_offending : inventoryOffending = [] :=
  (offending_eq_nil_iff _).2 inventory_all_checked

/-- C20 on the current tree, unconditional: whatever requests a run issues at the library's allocation sites
    (positive sizes), and whichever of them is made to fail, the run ends in a clean `m4ri_die` at exactly that
    request -/
theorem every_fault_dies (reqs : List Request) (hfrom : FromSites inventorySites reqs) (i : Nat)
    (hi : i < reqs.length) : run reqs i = .died i :=
  inventory_theorem inventory_all_checked reqs hfrom i hi

/-- … and under EVERY fault plan (any set of failing requests) a NULL result is never used -/
theorem every_plan_safe (reqs : List Request) (hfrom : FromSites inventorySites reqs) (fails : Nat → Bool)
    (pos : Nat) : runPlan reqs fails ≠ .nullDeref pos :=
  sites_theorem_plan inventorySites inventory_all_checked reqs hfrom fails pos

/-- … more precisely: the run completes iff no request failed, else it dies at the first failing request -/
theorem every_plan_dies_at_first (reqs : List Request) (hfrom : FromSites inventorySites reqs)
    (fails : Nat → Bool) :
    (runPlan reqs fails = .completed ∧ ∀ i, i < reqs.length → fails i = false) ∨
    ∃ i, i < reqs.length ∧ fails i = true ∧ (∀ j, j < i → fails j = false) ∧ runPlan reqs fails = .died i :=
  all_checked_plan reqs (fun r hr =>
    ⟨(allChecked_iff _).1 inventory_all_checked r.site (hfrom r hr).1, (hfrom r hr).2⟩) fails

/-! ### sensitivity of the check, on a synthetic inventory -/

/-- a synthetic inventory with one untested `realloc` (the shape of the defect formerly in `djb_push_back`) -/
def syntheticInventory : List (String × Nat × String × String) :=
  [("a.c", 1, "m4ri_mm_malloc", "wrapper"), ("a.h", 2, "malloc", "checked"), ("a.h", 3, "realloc", "unchecked")]

/-- the check rejects it and names the site -/
example : allChecked (classify syntheticInventory) = false ∧
    offending (classify syntheticInventory) = [⟨"a.h", 3, "realloc", .unchecked⟩] := by decide

/-- and the site is exposed by the fault injected there: the NULL result is used -/
example : run [⟨⟨"a.h", 2, "malloc", .checked⟩, 32⟩, ⟨⟨"a.h", 3, "realloc", .unchecked⟩, 512⟩] 1 = .nullDeref 1 := by
  decide

/-- while the fault at the checked site before it dies cleanly -/
example : run [⟨⟨"a.h", 2, "malloc", .checked⟩, 32⟩, ⟨⟨"a.h", 3, "realloc", .unchecked⟩, 512⟩] 0 = .died 0 := by
  decide

/-! ### non-vacuity -/

/-- the inventory is not empty and contains both ways of being safe: sites that go through a wrapper and raw
    calls with an explicit test (no file names or line numbers: they change with harmless edits) -/
example : inventorySites ≠ [] ∧ (∃ s ∈ inventorySites, s.kind = .wrapper) ∧
    (∃ s ∈ inventorySites, s.kind = .checked) := by decide

/-- hypotheses of `all_checked_dies` are satisfiable by a non-trivial run (header from a wrapper, then the
    data block), and `every_fault_dies` applies to runs built from actual inventory sites -/
example : ∃ reqs : List Request, reqs.length = 2 ∧
    (∀ r ∈ reqs, (r.site.kind = .wrapper ∨ r.site.kind = .checked) ∧ 0 < r.size) ∧ run reqs 1 = .died 1 :=
  ⟨[⟨⟨"x.c", 1, "m4ri_mm_malloc", .wrapper⟩, 64⟩, ⟨⟨"x.c", 2, "m4ri_mm_malloc_aligned", .wrapper⟩, 4096⟩],
   rfl, by intro r hr; simp only [List.mem_cons, List.not_mem_nil, or_false] at hr; rcases hr with rfl | rfl <;> decide,
   by decide⟩

/-- the run that visits every allocation site of the tree once is built from inventory sites -/
example : ∃ reqs : List Request, reqs.length = inventorySites.length ∧ reqs ≠ [] ∧
    FromSites inventorySites reqs := by
  refine ⟨inventorySites.map (fun s => ⟨s, 8⟩), by simp, ?_, ?_⟩
  · intro h
    have hl : inventorySites.length ≠ 0 := by decide
    exact hl (by simpa using congrArg List.length h)
  · intro r hr
    obtain ⟨s, hs, rfl⟩ := List.mem_map.1 hr
    exact ⟨hs, show 0 < 8 from by omega⟩

/-- a `wrapper` request of size 0 is NOT guarded (`m4ri_mm_malloc(0)` may return NULL without dying),
    which is why the theorems ask for positive sizes -/
example : run [⟨⟨"x.c", 1, "m4ri_mm_malloc", .wrapper⟩, 0⟩] 0 = .nullDeref 0 := by decide

/-! ### evaluation on the generated inventory (printed by the build) -/
#eval inventoryAllChecked                       -- true
#eval inventoryOffending.map fun s => (s.file, s.callee)   -- []
#eval inventorySites.length

end M4ri.AllocFail
