/-
  GenTieSolve: tie of the generated `Gen.C.pluqSolveLeft` (= the WHOLE C function `_mzd_pluq_solve_left` of
  m4ri/solve.c: `mzd_apply_p_left`, the windows `LU`, `Y1`, `H`, `Y2`, `Y3`, the forward substitution, the
  inconsistency check with `mzd_is_zero` / `mzd_set_ui(Y3, 0)` / `mzd_addmul`, the back substitution, the clearing
  loops, `mzd_apply_p_left_trans`) with the model `BMat.pluqSolveLeft` (M4ri/Elim.lean).

  The untranslated callees are the function parameters of the generated code; they are instantiated by the lifted
  model operations of GenTieView.lean (the `cutoff` argument is ignored):
    `f_mzd_trsm_lower_left := fun L Y _ => liftM2 trsmLowerLeft L Y`
    `f_mzd_trsm_upper_left := fun U Y _ => liftM2 trsmUpperLeft U Y`
    `f_mzd_addmul          := fun C H Y _ => liftM3 (fun C A B => C.add (A.mul B)) C H Y`

  Main theorems
    `pluqSolveLeft_eq`    both settings of `inconsistency_check`; hypotheses: `A`, `B` well-formed,
                          `P[i] < B.nrows` for `i < min P.size B.nrows`, the same for `Q`, `rank ≤ A.nrows`,
                          `rank ≤ A.ncols`, `A.nrows ≤ B.nrows`, `1 ≤ B.ncols`; `rowstride`s and `cutoff` arbitrary:
                          return value = the model's, memory of `B` = `memOf (B.putB B')` with `B'` the model's result
                          (entries of the model, excess bits of `B` untouched).
    `pluqSolveLeft_eq_C`  the same under the preconditions of the C entry point `mzd_pluq_solve_left`
                          (`P.size = A.nrows`, `Q.size = A.ncols`, `rank ≤ min …`, `B.nrows = max A.nrows A.ncols`).
  Ties of translated callees (new here)
    `mzdSetUi_zero_closed`  closed form of the generated `mzd_set_ui(·, 0)` on an ARBITRARY memory
    `mzdSetUi_zero_eq`      `mzd_set_ui(A, 0)` = the model's `Mzd.setUi A 0`   (`1 ≤ A.ncols`)
    `setUi_zero_window`     … applied to the view of a window and written back = `paste` of the zero matrix
    `mzdIsZero_congr`, `mzdIsZero_window`  `mzd_is_zero` applied to the view of a window = `eqM` with `zero`
    `clearLoops_spec`       the two nested `mzd_clear_bits` loops = `paste rank 0 (zero …)`
    `applyPLeft_putB`, `applyPLeftTrans_putB`  the W-level row permutations through the lens
  No difference between C and the model was found on this domain.  `1 ≤ B.ncols` is needed: for `ncols = 0`
  the C functions `mzd_is_zero` / `mzd_set_ui` read `row[width - 1] = row[-1]`.
  Core Lean tactics only.
-/
import M4riProofs.GenTieView
import M4riProofs.GenTieAlg
import M4riProofs.GenTieTab
import M4riProofs.Solve
import M4riProofs.StrassenBlocks
import M4riProofs.W.DataMove
import M4riProofs.W.RowCol
import M4riProofs.W.Observers
set_option linter.unusedVariables false
namespace M4ri.GenTieSolve
open M4ri M4ri.Gen M4ri.GenTieMem M4ri.GenTieView M4ri.BMat M4ri.GenTieAlg

/-! ### A. `mzd_apply_p_left` / `mzd_apply_p_left_trans` through the lens -/

theorem foldl_swaps_putB (M : Mzd) (hM : M.WF) (P : Array Nat) (l : List Nat)
    (hl : ∀ i ∈ l, i < M.nrows ∧ P.getD i 0 < M.nrows) :
    ∀ X : BMat, Good M X →
      l.foldl (fun (M' : Mzd) i => M'.rowSwap i (P.getD i 0)) (M.putB X)
        = M.putB (l.foldl (fun (X : BMat) i => X.swapRows i (P.getD i 0)) X) := by
  induction l with
  | nil => intro X _; rfl
  | cons a t ih =>
    intro X hX
    have ha := hl a (List.mem_cons_self ..)
    rw [List.foldl_cons, List.foldl_cons, rowSwap_putB M X hM hX a _ ha.1 ha.2]
    exact ih (fun i hi => hl i (List.mem_cons_of_mem _ hi)) _ (good_swapRows hX _ _)

theorem applyPLeft_putB (M : Mzd) (X : BMat) (hM : M.WF) (hX : Good M X) (P : Array Nat) (hc : M.ncols ≠ 0)
    (hP : ∀ i, i < min P.size M.nrows → P.getD i 0 < M.nrows) :
    (M.putB X).applyPLeft P = M.putB (X.applyPLeft P) := by
  unfold Mzd.applyPLeft BMat.applyPLeft
  rw [if_neg (by simpa using hc), Mzd.nrows_putB, hX.2.1]
  apply foldl_swaps_putB M hM P _ _ X hX
  intro i hi
  rw [List.mem_range] at hi
  exact ⟨by omega, hP i hi⟩

theorem applyPLeftTrans_putB (M : Mzd) (X : BMat) (hM : M.WF) (hX : Good M X) (P : Array Nat) (hc : M.ncols ≠ 0)
    (hP : ∀ i, i < min P.size M.nrows → P.getD i 0 < M.nrows) :
    (M.putB X).applyPLeftTrans P = M.putB (X.applyPLeftTrans P) := by
  unfold Mzd.applyPLeftTrans BMat.applyPLeftTrans
  rw [if_neg (by simpa using hc), Mzd.nrows_putB, hX.2.1]
  apply foldl_swaps_putB M hM P _ _ X hX
  intro i hi
  rw [List.mem_reverse, List.mem_range] at hi
  exact ⟨by omega, hP i hi⟩

/-! ### B. loops that only read a region -/

theorem loop_congr {σ : Type} (Inv : σ → Prop) (cond : σ → Bool) (body body' : σ → σ)
    (hstep : ∀ st, Inv st → cond st = true → body st = body' st ∧ Inv (body st)) :
    ∀ (fuel : Nat) (s : σ), Inv s → CLoop.loop fuel cond body s = CLoop.loop fuel cond body' s := by
  intro fuel
  induction fuel with
  | zero => intro s _; rfl
  | succ n ih =>
    intro s hs
    rw [loop_succ, loop_succ]
    by_cases hc : cond s = true
    · rw [if_pos hc, if_pos hc]
      obtain ⟨e, hI⟩ := hstep s hs hc
      rw [← e]
      exact ih _ hI
    · rw [if_neg hc, if_neg hc]

/-- `mzd_is_zero` only reads the rows and words of its argument -/
theorem mzdIsZero_congr (hb : BitVec 64) (nr nw : Nat) (hw : 1 ≤ nw) {m m' : Int → Int → BitVec 64}
    (h : AgreeOn nr nw m m') :
    Gen.C.mzdIsZero hb nr m nw = Gen.C.mzdIsZero hb nr m' nw := by
  unfold Gen.C.mzdIsZero
  dsimp_m
  rw [loop_congr (fun st : BitVec 64 × Int × Option Int => 0 ≤ st.2.1) _ _ _ ?_ _ _ (by simp)]
  intro st hI hc
  obtain ⟨s, i, r⟩ := st
  simp only [Bool.and_eq_true, decide_eq_true_eq] at hc
  replace hI : 0 ≤ i := hI
  obtain ⟨i, rfl⟩ : ∃ k : Nat, i = (k : Int) := ⟨i.toNat, by omega⟩
  have hi : i < nr := by omega
  dsimp_m
  rw [loop_congr (fun st : BitVec 64 × Int => 0 ≤ st.2) _ _
    (fun st : BitVec 64 × Int => (st.1 ||| m' (i : Int) (0 + st.2), st.2 + 1)) ?_ _ _ (by simp)]
  · rw [show (0 : Int) + ((nw : Int) - 1) = ((nw - 1 : Nat) : Int) by omega, h i (nw - 1) hi (by omega)]
    constructor
    · rfl
    · show 0 ≤ (if _ then _ else _ : BitVec 64 × Int × Option Int).2.1
      split
      · show (0 : Int) ≤ (i : Int); omega
      · show (0 : Int) ≤ (i : Int) + 1; omega
  · intro st hI hc
    obtain ⟨s, j⟩ := st
    simp only [decide_eq_true_eq] at hc
    replace hI : 0 ≤ j := hI
    obtain ⟨j, rfl⟩ : ∃ k : Nat, j = (k : Int) := ⟨j.toNat, by omega⟩
    dsimp_m
    rw [show (0 : Int) + (j : Int) = (j : Int) by omega, h i j hi (by omega)]
    exact ⟨rfl, by omega⟩


/-- **`mzd_is_zero` of a window** (applied to the view itself): the test of the model on the window's value -/
theorem mzdIsZero_window (M : Mzd) (lr lc hr hc : Nat) (hlc : lc % 64 = 0) (hr2 : hr ≤ M.nrows)
    (hc2 : hc ≤ M.ncols) (h1 : 1 ≤ hc - lc) :
    Gen.C.mzdIsZero (leftMask ((hc - lc) % 64)) ((hr - lr : Nat) : Int)
        (CLoop.view (memOf M) (lr : Int) ((lc / 64 : Nat) : Int)) (((hc - lc + 63) / 64 : Nat) : Int)
      = if (M.toB.sub lr lc hr hc).eqM (zero (hr - lr) (hc - lc)) then 1 else 0 := by
  rw [mzdIsZero_congr _ _ _ (by omega) (view_agree_window M lr lc hr hc)]
  have h := mzdIsZero_eq (M.window lr lc hr hc) (by rw [ncols_window]; exact h1)
  rw [hb_window, nrows_window, width_window] at h
  rw [h, ← window_toB M lr lc hr hc hlc hr2 hc2]
  have e : (M.window lr lc hr hc).isZero = ((M.window lr lc hr hc).toB.eqM (zero (hr - lr) (hc - lc))) := by
    rw [Bool.eq_iff_iff, Mzd.isZero_iff _ (by rw [ncols_window]; omega),
      SV.eqM_zero_iff (by simp) (by simp)]
    simp only [nrows_window, ncols_window]
    constructor
    · intro h i j hi hj
      rw [Mzd.get_toB_of_lt _ _ _ (by simpa using hj)]
      exact h i hi j hj
    · intro h i hi j hj
      rw [← Mzd.get_toB_of_lt _ _ _ (by simpa using hj)]
      exact h i j hi hj
  rw [e]

/-! ### C. `mzd_set_ui(A, 0)` -/

/-- the memory after `mzd_set_ui(A, 0)`, for ANY memory: the words of the rows of `A` are zeroed, the last one
    under the mask -/
def clrMem (m : Int → Int → BitVec 64) (hb : BitVec 64) (nr nw : Nat) : Int → Int → BitVec 64 :=
  fun r w => if 0 ≤ r ∧ r < (nr : Int) ∧ 0 ≤ w ∧ w < (nw : Int) then
    (if w = (nw : Int) - 1 then m r w &&& ~~~hb else 0) else m r w

/-- closed form of the generated `mzd_set_ui` with value 0 on an arbitrary memory -/
theorem mzdSetUi_zero_closed (m : Int → Int → BitVec 64) (hb : BitVec 64) (nr nw : Nat) (nc : Int) (hw : 1 ≤ nw) :
    Gen.C.mzdSetUi (0#32) m hb nr nw nc = clrMem m hb nr nw := by
  unfold Gen.C.mzdSetUi
  dsimp_m
  simp_m [Int.zero_add]
  generalize hres : CLoop.loop _ _ _ _ = res
  have key := for_loop_eq hres nr (fun k st => st.2 = (k : Int) ∧ st.1 = clrMem m hb k nw) (by simp)
    ⟨rfl, by funext r w; unfold clrMem; rw [if_neg (by omega)]⟩ ?_ ?_
  · obtain ⟨rm, ri⟩ := res
    dsimp_m
    rw [if_pos (by decide)]
    exact key.2
  · intro k st hk hP
    obtain ⟨mm, i⟩ := st
    obtain ⟨k1, k2⟩ := hP
    dsimp only at k1 k2 ⊢
    subst k1
    simp
  · intro k st hk hP
    obtain ⟨mm, i⟩ := st
    obtain ⟨k1, k2⟩ := hP
    dsimp only at k1 k2
    subst k1 k2
    clear hres
    dsimp_m
    generalize hres2 : CLoop.loop _ _ _ _ = res2
    have key2 := for_loop_eq hres2 (nw - 1) (fun j st => st.2 = (j : Int) ∧
        st.1 = fun r w => if r = (k : Int) ∧ 0 ≤ w ∧ w < (j : Int) then 0 else clrMem m hb k nw r w)
      (by simp) ⟨rfl, by funext r w; rw [if_neg (by omega)]⟩ ?_ ?_
    · obtain ⟨mm, j⟩ := res2
      obtain ⟨j1, j2⟩ := key2
      dsimp only at j1 j2 ⊢
      subst j1 j2
      refine ⟨by omega, ?_⟩
      funext r w
      unfold CLoop.upd2 clrMem
      dsimp only
      by_cases h1 : r = (k : Int) ∧ w = (nw : Int) - 1
      · obtain ⟨rfl, rfl⟩ := h1
        rw [if_pos ⟨rfl, rfl⟩, if_neg (by omega), if_neg (by omega), if_pos (by omega), if_pos rfl]
      · rw [if_neg (by omega)]
        by_cases h2 : r = (k : Int) ∧ 0 ≤ w ∧ w < ((nw - 1 : Nat) : Int)
        · rw [if_pos h2, if_pos (by omega), if_neg (by omega)]
        · rw [if_neg h2]
          have e : (0 ≤ r ∧ r < (k : Int) ∧ 0 ≤ w ∧ w < (nw : Int))
              ↔ (0 ≤ r ∧ r < ((k + 1 : Nat) : Int) ∧ 0 ≤ w ∧ w < (nw : Int)) := by omega
          exact if_congr e rfl rfl
    · intro j st hj hP
      obtain ⟨mm, i⟩ := st
      obtain ⟨j1, j2⟩ := hP
      dsimp only at j1 j2 ⊢
      subst j1
      simp
      omega
    · intro j st hj hP
      obtain ⟨mm, i⟩ := st
      obtain ⟨j1, j2⟩ := hP
      dsimp only at j1 j2 ⊢
      subst j1 j2
      refine ⟨by omega, ?_⟩
      funext r w
      unfold CLoop.upd2
      dsimp only
      by_cases h1 : r = (k : Int) ∧ w = (j : Int)
      · rw [if_pos h1, if_pos (by omega)]
        rfl
      · rw [if_neg h1]
        by_cases h2 : r = (k : Int) ∧ 0 ≤ w ∧ w < (j : Int)
        · rw [if_pos h2, if_pos (by omega)]
        · rw [if_neg h2, if_neg (by omega)]

theorem clrMem_agree {m m' : Int → Int → BitVec 64} (hb : BitVec 64) (nr nw : Nat) (h : AgreeOn nr nw m m') :
    AgreeOn nr nw (clrMem m hb nr nw) (clrMem m' hb nr nw) := by
  intro i k hi hk
  unfold clrMem
  rw [h i k hi hk]

/-- **`mzd_set_ui(A, 0)`**: the generated function is the model's `setUi` with value 0 -/
theorem mzdSetUi_zero_eq (A : Mzd) (hwf : A.WF) (hc : 1 ≤ A.ncols) :
    Gen.C.mzdSetUi (0#32) (memOf A) A.hb A.nrows A.width A.ncols = memOf (A.setUi 0) := by
  have hw : 1 ≤ A.width := by unfold Mzd.width widthOf; omega
  rw [mzdSetUi_zero_closed _ _ _ _ _ hw]
  have hS := Mzd.setUi_WF A 0 hwf
  have hSr := Mzd.nrows_setUi A 0 hwf
  have hSc := Mzd.ncols_setUi A 0 hwf
  have hSw : (A.setUi 0).width = A.width := by unfold Mzd.width; rw [hSc]
  apply eq_memOf_of_bits hS
  · intro r w h
    unfold clrMem
    rw [if_neg (by omega), memOf_of_neg A r w h]
  · intro x k h
    rw [hSr, hSw] at h
    unfold clrMem
    rw [if_neg (by omega), memOf_nat, w_of_out hwf x k h]
  · intro x k q hx hk hq
    rw [hSr] at hx
    rw [hSw] at hk
    rw [Mzd.setUi_bit A 0 hwf x (64 * k + q) hx (by omega)]
    unfold clrMem
    rw [if_pos (by omega), memOf_nat]
    by_cases hl : (k : Int) = (A.width : Int) - 1
    · rw [if_pos hl, BitVec.getLsbD_and, BitVec.getLsbD_not, Mzd.getLsbD_w_row _ _ _ _ hq,
        Mzd.hb_getLsbD A q hq (by omega)]
      have e : 64 * (A.width - 1) + q = 64 * k + q := by omega
      rw [e]
      by_cases hjn : 64 * k + q < A.ncols
      · simp [hjn, hq]
      · simp [hjn, hq]
    · rw [if_neg hl, if_pos (by unfold Mzd.width widthOf at hk hl; omega)]
      simp

/-- **`mzd_set_ui(window, 0)`** applied to a view and written back: the window is zeroed in the parent -/
theorem setUi_zero_window (M : Mzd) (hM : M.WF) (lr lc hr hc : Nat) (hlc : lc % 64 = 0) (hr2 : hr ≤ M.nrows)
    (hc2 : hc ≤ M.ncols) (h1 : 1 ≤ hc - lc) :
    CLoop.unview (memOf M) (lr : Int) ((lc / 64 : Nat) : Int) ((hr - lr : Nat) : Int)
        (((hc - lc + 63) / 64 : Nat) : Int)
        (Gen.C.mzdSetUi (0#32) (CLoop.view (memOf M) (lr : Int) ((lc / 64 : Nat) : Int))
          (leftMask ((hc - lc) % 64)) ((hr - lr : Nat) : Int) (((hc - lc + 63) / 64 : Nat) : Int)
          ((hc - lc : Nat) : Int))
      = memOf (M.putB (M.toB.paste lr lc (zero (hr - lr) (hc - lc)))) := by
  have hW := window_WF M lr lc hr hc
  have hW1 : 1 ≤ (M.window lr lc hr hc).ncols := by rw [ncols_window]; exact h1
  have hw : 1 ≤ (hc - lc + 63) / 64 := by omega
  have hS := Mzd.setUi_WF _ 0 hW
  have hSr := Mzd.nrows_setUi _ 0 hW
  have hSc := Mzd.ncols_setUi _ 0 hW
  rw [nrows_window] at hSr
  rw [ncols_window] at hSc
  rw [mzdSetUi_zero_closed _ _ _ _ _ hw,
    unview_congr _ _ _ _ _ (clrMem_agree _ _ _ (view_agree_window M lr lc hr hc)),
    ← mzdSetUi_zero_closed _ _ _ _ ((hc - lc : Nat) : Int) hw]
  have h := mzdSetUi_zero_eq (M.window lr lc hr hc) hW hW1
  rw [hb_window, nrows_window, width_window, ncols_window] at h
  rw [h, unview_window_of_excess M hM lr lc hr hc hlc hr2 hc2 _ hS hSr hSc]
  · congr 3
    apply BMat.ext_get (Mzd.WF_toB hS) (WF_zero _ _) (by simpa using hSr) (by simpa using hSc)
    intro i j hi hj
    simp only [Mzd.nrows_toB, Mzd.ncols_toB, hSr, hSc] at hi hj
    rw [Mzd.get_toB_of_lt _ _ _ (by rw [hSc]; exact hj), Mzd.setUi_bit _ 0 hW i j (by simpa using hi)
      (by simp; omega), get_zero]
    simp [hj]
  · intro i j hi hj hj'
    rw [Mzd.setUi_bit _ 0 hW i j (by simpa using hi) (by simpa using hj'), if_neg (by simp; omega)]


/-! ### D. the clearing loops (inconsistency check off) -/

/-- `X` with the rows `[r0, i)` and the first `c` entries of row `i` cleared -/
def clrB (X : BMat) (nr nc r0 i c : Nat) : BMat :=
  ofFn nr nc fun a b => if (r0 ≤ a ∧ a < i) ∨ (a = i ∧ b < c) then false else X.get a b

theorem clearBits_clrB (M : Mzd) (hM : M.WF) (X : BMat) (r0 i c n : Nat) (hi : i < M.nrows) (hn : n ≤ 64)
    (hc : c + n ≤ M.ncols) :
    (M.putB (clrB X M.nrows M.ncols r0 i c)).clearBits i c n = M.putB (clrB X M.nrows M.ncols r0 i (c + n)) := by
  have hN := Mzd.WF_putB hM (clrB X M.nrows M.ncols r0 i c)
  apply Mzd.eq_putB_of_bit (Mzd.clearBits_WF _ i c n hN hi) hM rfl rfl
  intro a b ha hb
  rw [Mzd.clearBits_bit _ i c n hN hi hn hc a b, Mzd.bit_putB M _ hM a b ha hb]
  by_cases hbn : b < M.ncols
  · rw [if_pos hbn, if_pos hbn]
    unfold clrB
    rw [get_ofFn _ _ _ _ _ ha hbn, get_ofFn _ _ _ _ _ ha hbn]
    by_cases h1 : a = i ∧ c ≤ b ∧ b < c + n
    · rw [if_pos h1, if_pos (by omega)]
    · rw [if_neg h1]
      exact if_congr (by omega) rfl rfl
  · rw [if_neg hbn, if_neg hbn, if_neg (by omega)]

/-- the two nested clearing loops of `_mzd_pluq_solve_left`: the rows from `rank` on are zeroed -/
theorem clearLoops_spec (M : Mzd) (hM : M.WF) (X : BMat) (hX : Good M X) (rank : Nat) (hr : rank ≤ M.nrows)
    {cond : (Int → Int → BitVec 64) × Int → Bool}
    {body : (Int → Int → BitVec 64) × Int → (Int → Int → BitVec 64) × Int} {fuel : Nat}
    {res : (Int → Int → BitVec 64) × Int}
    (hres : CLoop.loop fuel cond body (memOf (M.putB X), (rank : Int)) = res) (hf : M.nrows ≤ fuel)
    (hcond : ∀ st, cond st = decide (st.2 < (M.nrows : Int)))
    (hbody : ∀ st, body st = ((CLoop.loop M.ncols (fun s2 => decide (s2.2 < (M.ncols : Int)))
        (fun s2 => (Gen.C.mzdClearBits st.2 s2.2
            (if decide ((64 : Int) < (M.ncols : Int) - s2.2) then (64 : Int) else (M.ncols : Int) - s2.2) s2.1,
          s2.2 + 64)) (st.1, 0)).1, st.2 + 1)) :
    res.1 = memOf (M.putB (X.paste rank 0 (zero (M.nrows - rank) M.ncols))) := by
  have key := for_loop_eq hres (M.nrows - rank)
    (fun k st => st.2 = ((rank + k : Nat) : Int) ∧
      st.1 = memOf (M.putB (clrB X M.nrows M.ncols rank (rank + k) 0))) (by omega) ⟨rfl, ?_⟩ ?_ ?_
  · rw [key.2]
    congr 1
    apply Mzd.putB_congr hM
    intro i j hi hj
    have hXs : Shaped X M.nrows M.ncols := ⟨hX.1, hX.2.1, hX.2.2⟩
    unfold clrB
    have hz : Shaped (zero (M.nrows - rank) M.ncols) (M.nrows - rank) (M.ncols - 0) := Shaped.zero _ _
    rw [get_ofFn _ _ _ _ _ hi hj, hXs.get_paste_window rank 0 M.nrows M.ncols hz (Nat.le_refl _)]
    by_cases h : rank ≤ i
    · rw [if_pos (by omega), if_pos (by omega), get_zero]
    · rw [if_neg (by omega), if_neg (by omega)]
  · dsimp only
    congr 1
    apply Mzd.putB_congr hM
    intro i j hi hj
    unfold clrB
    rw [get_ofFn _ _ _ _ _ hi hj, if_neg (by omega)]
  · intro k st hk hP
    rw [hcond, hP.1]
    congr 1
    apply propext
    omega
  · intro k st hk hP
    obtain ⟨mm, i⟩ := st
    obtain ⟨k1, k2⟩ := hP
    dsimp only at k1 k2
    subst k1 k2
    rw [hbody]
    dsimp only
    refine ⟨by omega, ?_⟩
    generalize hres2 : CLoop.loop _ _ _ _ = res2
    have hi : rank + k < M.nrows := by omega
    have key2 := for_loop_eq hres2 M.width
      (fun t st => st.2 = ((64 * t : Nat) : Int) ∧
        st.1 = memOf (M.putB (clrB X M.nrows M.ncols rank (rank + k) (min (64 * t) M.ncols))))
      (by unfold Mzd.width widthOf; omega) ⟨rfl, rfl⟩ ?_ ?_
    · rw [key2.2]
      congr 1
      apply Mzd.putB_congr hM
      intro i j hi hj
      unfold clrB
      rw [get_ofFn _ _ _ _ _ hi hj, get_ofFn _ _ _ _ _ hi hj]
      have : min (64 * M.width) M.ncols = M.ncols := by unfold Mzd.width widthOf; omega
      rw [this]
      exact if_congr (by omega) rfl rfl
    · intro t st ht hP
      rw [hP.1]
      congr 1
      apply propext
      unfold Mzd.width widthOf at ht ⊢
      omega
    · intro t st ht hP
      obtain ⟨mm, j⟩ := st
      obtain ⟨t1, t2⟩ := hP
      dsimp only at t1 t2
      subst t1 t2
      dsimp only
      refine ⟨by omega, ?_⟩
      have h64 : 64 * t < M.ncols := by unfold Mzd.width widthOf at ht; omega
      have hmin : min (64 * t) M.ncols = 64 * t := by omega
      have en : (if decide ((64 : Int) < (M.ncols : Int) - ((64 * t : Nat) : Int)) = true then (64 : Int)
          else (M.ncols : Int) - ((64 * t : Nat) : Int)) = ((min 64 (M.ncols - 64 * t) : Nat) : Int) := by
        simp only [decide_eq_true_eq]
        split <;> omega
      rw [en, hmin, mzdClearBits_eq _ _ _ _ (Mzd.WF_putB hM _) hi (by omega)
        (by rw [Mzd.width_putB]; unfold Mzd.width widthOf; omega),
        clearBits_clrB M hM X rank (rank + k) (64 * t) _ hi (by omega) (by omega)]
      have : 64 * t + min 64 (M.ncols - 64 * t) = min (64 * (t + 1)) M.ncols := by omega
      rw [this]


/-! ### E. `_mzd_pluq_solve_left` -/

macro "norm_win" loc:(Lean.Parser.Tactic.location)? : tactic =>
  `(tactic| simp (config := {etaStruct := .none}) only [winView, Int.zero_add, Nat.sub_zero, Nat.zero_div, Int.natCast_zero] $[$loc]?)

/-- reading back the block that was just written -/
theorem sub_paste_self {D X : BMat} {m n : Nat} (hD : Shaped D m n) (r0 c0 r1 c1 : Nat)
    (hX : Shaped X (r1 - r0) (c1 - c0)) (hr : r1 ≤ m) (hc0 : c0 ≤ c1) (hc : c1 ≤ n) :
    (D.paste r0 c0 X).sub r0 c0 r1 c1 = X := by
  have hP : Shaped (D.paste r0 c0 X) m n := hD.paste X r0 c0 (by rw [hX.nc]; omega)
  apply (hP.sub r0 c0 r1 c1 hr).ext hX
  intro i j hi hj
  rw [hP.get_sub r0 c0 r1 c1 i j hr, hD.get_paste_window r0 c0 r1 c1 hX hr]
  have e1 : r0 + i - r0 = i := by omega
  have e2 : c0 + j - c0 = j := by omega
  rw [if_pos (by omega), e1, e2]
  simp [hi, hj]

/-- reading a block that does not meet the block that was written -/
theorem sub_paste_disj {D X : BMat} {m n : Nat} (hD : Shaped D m n) (r0 c0 r1 c1 : Nat)
    (hX : Shaped X (r1 - r0) (c1 - c0)) (hr : r1 ≤ m) (hc0 : c0 ≤ c1) (hc : c1 ≤ n) (a0 b0 a1 b1 : Nat)
    (ha : a1 ≤ m) (hdis : a1 ≤ r0 ∨ r1 ≤ a0 ∨ b1 ≤ c0 ∨ c1 ≤ b0) :
    (D.paste r0 c0 X).sub a0 b0 a1 b1 = D.sub a0 b0 a1 b1 := by
  have hP : Shaped (D.paste r0 c0 X) m n := hD.paste X r0 c0 (by rw [hX.nc]; omega)
  apply (hP.sub a0 b0 a1 b1 ha).ext (hD.sub a0 b0 a1 b1 ha)
  intro i j hi hj
  rw [hP.get_sub a0 b0 a1 b1 i j ha, hD.get_sub a0 b0 a1 b1 i j ha,
    hD.get_paste_window r0 c0 r1 c1 hX hr, if_neg (by omega)]

theorem shaped_paste_win {D X : BMat} {m n : Nat} (hD : Shaped D m n) (r0 c0 r1 c1 : Nat)
    (hX : Shaped X (r1 - r0) (c1 - c0)) (hc0 : c0 ≤ c1) (hc : c1 ≤ n) : Shaped (D.paste r0 c0 X) m n :=
  hD.paste X r0 c0 (by rw [hX.nc]; omega)

/-- call rule on a `putB` state, two operands -/
theorem call2_state (op : BMat → BMat → BMat) (A B : Mzd) (hB : B.WF) (X : BMat) (hX : Shaped X B.nrows B.ncols)
    (ar ac ahr ahc lr lc hr hc : Nat) (hA : InWin A ar ac ahr ahc) (hW : InWin B lr lc hr hc)
    (hop : Shaped (op (A.toB.sub ar ac ahr ahc) (X.sub lr lc hr hc)) (hr - lr) (hc - lc)) :
    CLoop.unview (memOf (B.putB X)) (lr : Int) ((lc / 64 : Nat) : Int) ((hr - lr : Nat) : Int)
        (((hc - lc + 63) / 64 : Nat) : Int)
        (liftM2 op (winView (memOf A) ar ac ahr ahc) (winView (memOf (B.putB X)) lr lc hr hc))
      = memOf (B.putB (X.paste lr lc (op (A.toB.sub ar ac ahr ahc) (X.sub lr lc hr hc)))) := by
  have e := Mzd.toB_putB hB hX.wf hX.nr hX.nc
  have h := call2_window op A (B.putB X) (Mzd.WF_putB hB X) ar ac ahr ahc lr lc hr hc hA ⟨hW.lc, hW.hr, hW.hc⟩
    (by rw [e]; exact hop.nr) (by rw [e]; exact hop.nc)
  rw [e, Mzd.putB_putB hB] at h
  exact h

/-- call rule on a `putB` state, three operands: the first and the third are windows of the state -/
theorem call3_state (op : BMat → BMat → BMat → BMat) (A B : Mzd) (hB : B.WF) (X : BMat)
    (hX : Shaped X B.nrows B.ncols) (lr lc hr hc ar ac ahr ahc br bc bhr bhc : Nat) (hW : InWin B lr lc hr hc)
    (hA : InWin A ar ac ahr ahc) (hB' : InWin B br bc bhr bhc)
    (hop : Shaped (op (X.sub lr lc hr hc) (A.toB.sub ar ac ahr ahc) (X.sub br bc bhr bhc)) (hr - lr) (hc - lc)) :
    CLoop.unview (memOf (B.putB X)) (lr : Int) ((lc / 64 : Nat) : Int) ((hr - lr : Nat) : Int)
        (((hc - lc + 63) / 64 : Nat) : Int)
        (liftM3 op (winView (memOf (B.putB X)) lr lc hr hc) (winView (memOf A) ar ac ahr ahc)
          (winView (memOf (B.putB X)) br bc bhr bhc))
      = memOf (B.putB (X.paste lr lc (op (X.sub lr lc hr hc) (A.toB.sub ar ac ahr ahc) (X.sub br bc bhr bhc)))) := by
  have e := Mzd.toB_putB hB hX.wf hX.nr hX.nc
  have h := call3_window op (B.putB X) A (B.putB X) (Mzd.WF_putB hB X) lr lc hr hc ar ac ahr ahc br bc bhr bhc
    ⟨hW.lc, hW.hr, hW.hc⟩ hA ⟨hB'.lc, hB'.hr, hB'.hc⟩ (by rw [e]; exact hop.nr) (by rw [e]; exact hop.nc)
  rw [e, Mzd.putB_putB hB] at h
  exact h

/-- `mzd_is_zero(window)` on a `putB` state -/
theorem isZero_state (B : Mzd) (hB : B.WF) (X : BMat) (hX : Shaped X B.nrows B.ncols) (lr lc hr hc : Nat)
    (hW : InWin B lr lc hr hc) (h1 : 1 ≤ hc - lc) :
    Gen.C.mzdIsZero (leftMask ((hc - lc) % 64)) ((hr - lr : Nat) : Int)
        (CLoop.view (memOf (B.putB X)) (lr : Int) ((lc / 64 : Nat) : Int)) (((hc - lc + 63) / 64 : Nat) : Int)
      = if (X.sub lr lc hr hc).eqM (zero (hr - lr) (hc - lc)) then 1 else 0 := by
  have h := mzdIsZero_window (B.putB X) lr lc hr hc hW.lc hW.hr hW.hc h1
  rw [Mzd.toB_putB hB hX.wf hX.nr hX.nc] at h
  exact h

/-- `mzd_set_ui(window, 0)` on a `putB` state -/
theorem setUi_state (B : Mzd) (hB : B.WF) (X : BMat) (hX : Shaped X B.nrows B.ncols) (lr lc hr hc : Nat)
    (hW : InWin B lr lc hr hc) (h1 : 1 ≤ hc - lc) :
    CLoop.unview (memOf (B.putB X)) (lr : Int) ((lc / 64 : Nat) : Int) ((hr - lr : Nat) : Int)
        (((hc - lc + 63) / 64 : Nat) : Int)
        (Gen.C.mzdSetUi (0#32) (CLoop.view (memOf (B.putB X)) (lr : Int) ((lc / 64 : Nat) : Int))
          (leftMask ((hc - lc) % 64)) ((hr - lr : Nat) : Int) (((hc - lc + 63) / 64 : Nat) : Int)
          ((hc - lc : Nat) : Int))
      = memOf (B.putB (X.paste lr lc (zero (hr - lr) (hc - lc)))) := by
  have h := setUi_zero_window (B.putB X) (Mzd.WF_putB hB X) lr lc hr hc hW.lc hW.hr hW.hc h1
  rw [Mzd.toB_putB hB hX.wf hX.nr hX.nc, Mzd.putB_putB hB] at h
  exact h

/-- `mzd_apply_p_left` on the initial state -/
theorem applyP_state (B : Mzd) (hB : B.WF) (P : Array Nat) (hc : 1 ≤ B.ncols)
    (hP : ∀ i, i < min P.size B.nrows → P.getD i 0 < B.nrows) :
    Gen.C.mzdApplyPLeft (memOf B) B.ncols P.size B.nrows (fun i => ((P.getD i.toNat 0 : Nat) : Int)) B.width B.hb
      = memOf (B.putB (B.toB.applyPLeft P)) := by
  rw [GenTieTab.mzdApplyPLeft_eq B P hB hP]
  have := applyPLeft_putB B B.toB hB (good_toB B hB) P (by omega) hP
  rw [Mzd.putB_toB hB] at this
  rw [this]

/-- `mzd_apply_p_left_trans` on a `putB` state -/
theorem applyPTrans_state (B : Mzd) (hB : B.WF) (X : BMat) (hX : Shaped X B.nrows B.ncols) (Q : Array Nat)
    (hc : 1 ≤ B.ncols) (hQ : ∀ i, i < min Q.size B.nrows → Q.getD i 0 < B.nrows) :
    Gen.C.mzdApplyPLeftTrans (memOf (B.putB X)) B.ncols Q.size B.nrows
        (fun i => ((Q.getD i.toNat 0 : Nat) : Int)) B.width B.hb
      = memOf (B.putB (X.applyPLeftTrans Q)) := by
  have h := GenTieTab.mzdApplyPLeftTrans_eq (B.putB X) Q (Mzd.WF_putB hB X) hQ
  rw [Mzd.ncols_putB, Mzd.nrows_putB, Mzd.width_putB, Mzd.hb_putB] at h
  rw [h, applyPLeftTrans_putB B X hB ⟨hX.wf, hX.nr, hX.nc⟩ Q (by omega) hQ]

theorem shaped_ll {L B : BMat} {r c : Nat} (hB : Shaped B r c) : Shaped (trsmLowerLeft L B) r c :=
  ⟨trsmLowerLeft_WF L hB.wf, (trsmLowerLeft_nrows L B).trans hB.nr, (trsmLowerLeft_ncols L B).trans hB.nc⟩

theorem shaped_ul {U B : BMat} {r c : Nat} (hB : Shaped B r c) : Shaped (trsmUpperLeft U B) r c :=
  ⟨trsmUpperLeft_WF U hB.wf, (trsmUpperLeft_nrows U B).trans hB.nr, (trsmUpperLeft_ncols U B).trans hB.nc⟩

theorem ite_pair_mem (c : Prop) [Decidable c] (a b : Int) (X Y : BMat) (B : Mzd) :
    (if c then (a, memOf (B.putB X)) else (b, memOf (B.putB Y)))
      = ((if c then a else b), memOf (B.putB (if c then X else Y))) := by
  split <;> rfl

theorem pluqSolveLeft_eq (A B : Mzd) (P Q : Array Nat) (rank : Nat) (cutoff rsA rsB : Int) (check : Bool)
    (hA : A.WF) (hB : B.WF)
    (hP : ∀ i, i < min P.size B.nrows → P.getD i 0 < B.nrows)
    (hQ : ∀ i, i < min Q.size B.nrows → Q.getD i 0 < B.nrows)
    (hr1 : rank ≤ A.nrows) (hr2 : rank ≤ A.ncols) (hAB : A.nrows ≤ B.nrows) (hBc : 1 ≤ B.ncols) :
    Gen.C.pluqSolveLeft rank cutoff (if check then 1 else 0) (memOf B) B.ncols P.size B.nrows
        (fun i => ((P.getD i.toNat 0 : Nat) : Int)) B.width B.hb A.nrows rsA rsB (memOf A)
        (fun L Y _ => liftM2 trsmLowerLeft L Y)
        (fun C H Y _ => liftM3 (fun C A B => C.add (A.mul B)) C H Y)
        (fun U Y _ => liftM2 trsmUpperLeft U Y) Q.size (fun i => ((Q.getD i.toNat 0 : Nat) : Int))
      = ((BMat.pluqSolveLeft A.toB rank P Q B.toB check).1,
          memOf (B.putB (BMat.pluqSolveLeft A.toB rank P Q B.toB check).2)) := by
  unfold Gen.C.pluqSolveLeft BMat.pluqSolveLeft
  have hBs : Shaped B.toB B.nrows B.ncols := ⟨Mzd.WF_toB hB, rfl, rfl⟩
  have hAs : Shaped A.toB A.nrows A.ncols := ⟨Mzd.WF_toB hA, rfl, rfl⟩
  have hX1 : Shaped (B.toB.applyPLeft P) B.nrows B.ncols := SV.shaped_applyPLeft hBs P
  dsimp_m
  rw [applyP_state B hB P (by omega) hP]
  simp_m [hX1.nr, hX1.nc, ncols_paste, nrows_paste, Mzd.nrows_toB, Mzd.ncols_toB]
  generalize B.toB.applyPLeft P = X1 at hX1 ⊢
  rw [mzdInitWindow_in 0 0 rank rank A.nrows rsA 0 0 rank rank A.nrows rfl rfl rfl rfl rfl (by omega) (by omega)
      (by omega) (by omega),
    mzdInitWindow_in 0 0 rank B.ncols B.nrows rsB 0 0 rank B.ncols B.nrows rfl rfl rfl rfl rfl (by omega) (by omega)
      (by omega) (by omega)]
  dsimp_m
  norm_win
  have wLU : InWin A 0 0 rank rank := ⟨rfl, hr1, hr2⟩
  have wY1 : InWin B 0 0 rank B.ncols := ⟨rfl, by omega, Nat.le_refl _⟩
  -- L Y1 = Y1
  have hY1 : Shaped (trsmLowerLeft (A.toB.sub 0 0 rank rank) (X1.sub 0 0 rank B.ncols)) (rank - 0) (B.ncols - 0) :=
    shaped_ll (hX1.sub 0 0 rank B.ncols (by omega))
  have s1 := call2_state trsmLowerLeft A B hB X1 hX1 0 0 rank rank 0 0 rank B.ncols wLU wY1 hY1
  norm_win at s1
  rw [s1]
  generalize trsmLowerLeft (A.toB.sub 0 0 rank rank) (X1.sub 0 0 rank B.ncols) = Y1 at hY1 ⊢
  have hX2 : Shaped (X1.paste 0 0 Y1) B.nrows B.ncols :=
    shaped_paste_win hX1 0 0 rank B.ncols hY1 (by omega) (Nat.le_refl _)
  cases check
  · simp_m [Bool.false_eq_true, if_false]
    rw [if_neg (by simp), if_pos (by simp)]
    dsimp_m
    -- U Y1 = Y1
    have hY5 : Shaped (trsmUpperLeft (A.toB.sub 0 0 rank rank) ((X1.paste 0 0 Y1).sub 0 0 rank B.ncols)) (rank - 0)
        (B.ncols - 0) := shaped_ul (hX2.sub 0 0 rank B.ncols (by omega))
    have s5 := call2_state trsmUpperLeft A B hB _ hX2 0 0 rank rank 0 0 rank B.ncols wLU wY1 hY5
    norm_win at s5
    rw [s5, if_pos (by simp)]
    simp_m [ncols_paste, nrows_paste, hX1.nr, hX1.nc, Int.toNat_natCast]
    generalize trsmUpperLeft (A.toB.sub 0 0 rank rank) ((X1.paste 0 0 Y1).sub 0 0 rank B.ncols) = Y5 at hY5 ⊢
    have hX5 : Shaped ((X1.paste 0 0 Y1).paste 0 0 Y5) B.nrows B.ncols :=
      shaped_paste_win hX2 0 0 rank B.ncols hY5 (by omega) (Nat.le_refl _)
    generalize hres : CLoop.loop _ _ _ _ = res
    have key := clearLoops_spec B hB _ ⟨hX5.wf, hX5.nr, hX5.nc⟩ rank (by omega) hres (Nat.le_refl _)
      (fun _ => rfl) (fun _ => rfl)
    obtain ⟨rm, ri⟩ := res
    dsimp_m at key ⊢
    subst key
    have hX6 : Shaped (((X1.paste 0 0 Y1).paste 0 0 Y5).paste rank 0 (zero (B.nrows - rank) B.ncols)) B.nrows B.ncols :=
      hX5.paste _ rank 0 (by show 0 + B.ncols ≤ B.ncols; omega)
    rw [applyPTrans_state B hB _ hX6 Q hBc hQ]
  · simp_m [if_true]
    rw [if_pos (by simp)]
    rw [mzdInitWindow_in rank 0 A.nrows rank A.nrows rsA rank 0 A.nrows rank A.nrows rfl rfl rfl rfl rfl (by omega)
        (by omega) (by omega) (by omega),
      mzdInitWindow_in rank 0 A.nrows B.ncols B.nrows rsB rank 0 A.nrows B.ncols B.nrows rfl rfl rfl rfl rfl (by omega)
        (by omega) (by omega) (by omega)]
    dsimp_m
    norm_win
    -- Y3: the padding rows
    have wY3 : InWin B A.nrows 0 B.nrows B.ncols := ⟨rfl, Nat.le_refl _, Nat.le_refl _⟩
    rw [mzdInitWindow_in A.nrows 0 B.nrows B.ncols B.nrows rsB A.nrows 0 B.nrows B.ncols B.nrows rfl rfl rfl rfl rfl
        (by omega) (by omega) (by omega) (by omega)]
    dsimp_m
    have s2 := isZero_state B hB _ hX2 A.nrows 0 B.nrows B.ncols wY3 (by omega)
    have s3 := setUi_state B hB _ hX2 A.nrows 0 B.nrows B.ncols wY3 (by omega)
    norm_win at s2 s3 ⊢
    rw [s2, s3, ite_pair_mem]
    dsimp_m
    simp_m [decide_eq_true_eq, Int.ofNat_lt, ncols_paste, nrows_paste, hX1.nr, hX1.nc]
    have hZ : Shaped (zero (B.nrows - A.nrows) B.ncols) (B.nrows - A.nrows) (B.ncols - 0) := Shaped.zero _ _
    have hX3 : Shaped (if A.nrows < B.nrows then (X1.paste 0 0 Y1).paste A.nrows 0 (zero (B.nrows - A.nrows) B.ncols)
        else X1.paste 0 0 Y1) B.nrows B.ncols := by
      split
      · exact shaped_paste_win hX2 A.nrows 0 B.nrows B.ncols hZ (by omega) (Nat.le_refl _)
      · exact hX2
    have hsub : (if A.nrows < B.nrows then (X1.paste 0 0 Y1).paste A.nrows 0 (zero (B.nrows - A.nrows) B.ncols)
        else X1.paste 0 0 Y1).sub 0 0 rank B.ncols = Y1 := by
      split
      · rw [sub_paste_disj hX2 A.nrows 0 B.nrows B.ncols hZ (Nat.le_refl _) (by omega) (Nat.le_refl _) 0 0 rank B.ncols
          (by omega) (by omega)]
        exact sub_paste_self hX1 0 0 rank B.ncols hY1 (by omega) (by omega) (Nat.le_refl _)
      · exact sub_paste_self hX1 0 0 rank B.ncols hY1 (by omega) (by omega) (Nat.le_refl _)
    generalize (if A.nrows < B.nrows then (X1.paste 0 0 Y1).paste A.nrows 0 (zero (B.nrows - A.nrows) B.ncols)
        else X1.paste 0 0 Y1) = X3 at hX3 hsub ⊢
    simp_m [hX3.nc]
    -- Y2 += H Y1
    have wY2 : InWin B rank 0 A.nrows B.ncols := ⟨rfl, hAB, Nat.le_refl _⟩
    have wH : InWin A rank 0 A.nrows rank := ⟨rfl, Nat.le_refl _, hr2⟩
    have hY2 : Shaped ((fun C A B : BMat => C.add (A.mul B)) (X3.sub rank 0 A.nrows B.ncols)
        (A.toB.sub rank 0 A.nrows rank) (X3.sub 0 0 rank B.ncols)) (A.nrows - rank) (B.ncols - 0) :=
      (hX3.sub rank 0 A.nrows B.ncols hAB).add
        ((hAs.sub rank 0 A.nrows rank (Nat.le_refl _)).mul (hX3.sub 0 0 rank B.ncols (by omega)))
    have s4 := call3_state (fun C A B => C.add (A.mul B)) A B hB X3 hX3 rank 0 A.nrows B.ncols rank 0 A.nrows rank
      0 0 rank B.ncols wY2 wH wY1 hY2
    norm_win at s4 hY2
    rw [s4]
    rw [hsub] at hY2 ⊢
    generalize (X3.sub rank 0 A.nrows B.ncols).add ((A.toB.sub rank 0 A.nrows rank).mul Y1) = Y2 at hY2 ⊢
    have hX4 : Shaped (X3.paste rank 0 Y2) B.nrows B.ncols :=
      shaped_paste_win hX3 rank 0 A.nrows B.ncols (by simpa using hY2) (by omega) (Nat.le_refl _)
    have s4' := isZero_state B hB _ hX4 rank 0 A.nrows B.ncols wY2 (by omega)
    norm_win at s4'
    rw [s4', sub_paste_self hX3 rank 0 A.nrows B.ncols (by simpa using hY2) hAB (by omega) (Nat.le_refl _)]
    -- U Y1 = Y1
    have hY5 : Shaped (trsmUpperLeft (A.toB.sub 0 0 rank rank) ((X3.paste rank 0 Y2).sub 0 0 rank B.ncols)) (rank - 0)
        (B.ncols - 0) := shaped_ul (hX4.sub 0 0 rank B.ncols (by omega))
    have s5 := call2_state trsmUpperLeft A B hB _ hX4 0 0 rank rank 0 0 rank B.ncols wLU wY1 hY5
    norm_win at s5
    rw [s5, if_neg (show ¬ ((!decide ((1 : Int) ≠ 0)) = true) by simp)]
    have hX5 : Shaped ((X3.paste rank 0 Y2).paste 0 0
        (trsmUpperLeft (A.toB.sub 0 0 rank rank) ((X3.paste rank 0 Y2).sub 0 0 rank B.ncols))) B.nrows B.ncols :=
      shaped_paste_win hX4 0 0 rank B.ncols hY5 (by omega) (Nat.le_refl _)
    rw [applyPTrans_state B hB _ hX5 Q hBc hQ]
    simp_m [hY2.nr, hY2.nc, ncols_paste, nrows_paste, hX3.nr, hX3.nc]
    rw [if_neg (show ¬ ((!true) = true) by simp)]
    congr 1
    cases Y2.eqM (zero (A.nrows - rank) B.ncols) <;>
      cases ((X1.paste 0 0 Y1).sub A.nrows 0 B.nrows B.ncols).eqM (zero (B.nrows - A.nrows) B.ncols) <;>
      by_cases h3 : A.nrows < B.nrows <;> simp [h3]

/-- the tie under the preconditions of the C entry point `mzd_pluq_solve_left` -/
theorem pluqSolveLeft_eq_C (A B : Mzd) (P Q : Array Nat) (rank : Nat) (cutoff rsA rsB : Int) (check : Bool)
    (hA : A.WF) (hB : B.WF) (hPs : P.size = A.nrows) (hQs : Q.size = A.ncols)
    (hP : ∀ i, i < A.nrows → P.getD i 0 < B.nrows) (hQ : ∀ i, i < A.ncols → Q.getD i 0 < B.nrows)
    (hrank : rank ≤ min A.nrows A.ncols) (hBr : B.nrows = max A.nrows A.ncols) (hBc : 1 ≤ B.ncols) :
    Gen.C.pluqSolveLeft rank cutoff (if check then 1 else 0) (memOf B) B.ncols P.size B.nrows
        (fun i => ((P.getD i.toNat 0 : Nat) : Int)) B.width B.hb A.nrows rsA rsB (memOf A)
        (fun L Y _ => liftM2 trsmLowerLeft L Y)
        (fun C H Y _ => liftM3 (fun C A B => C.add (A.mul B)) C H Y)
        (fun U Y _ => liftM2 trsmUpperLeft U Y) Q.size (fun i => ((Q.getD i.toNat 0 : Nat) : Int))
      = ((BMat.pluqSolveLeft A.toB rank P Q B.toB check).1,
          memOf (B.putB (BMat.pluqSolveLeft A.toB rank P Q B.toB check).2)) :=
  pluqSolveLeft_eq A B P Q rank cutoff rsA rsB check hA hB (fun i hi => hP i (by omega))
    (fun i hi => hQ i (by omega)) (by omega) (by omega) (by omega) hBc

/-- the model's result has the shape of its right-hand side (no hypothesis on the factorisation) -/
theorem model_shaped (S X : BMat) (rank : Nat) (P Q : Array Nat) (check : Bool) {nB cB : Nat} (hX : Shaped X nB cB) :
    Shaped (BMat.pluqSolveLeft S rank P Q X check).2 nB cB := by
  have hX1 := SV.shaped_applyPLeft hX P
  unfold BMat.pluqSolveLeft
  cases check
  · simp_m [Bool.false_eq_true, if_false, Bool.not_false, if_true]
    apply SV.shaped_applyPLeftTrans
    apply Shaped.paste _ _ _ _ (by simp [hX1.nc])
    apply Shaped.paste _ _ _ _ (by simp [hX1.nc])
    exact Shaped.paste hX1 _ _ _ (by simp [hX1.nc])
  · by_cases h : S.nrows < nB
    · simp_m [if_true, Bool.not_true, Bool.false_eq_true, if_false, hX1.nr, nrows_paste, h]
      apply SV.shaped_applyPLeftTrans
      apply Shaped.paste _ _ _ _ (by simp [hX1.nc])
      apply Shaped.paste _ _ _ _ (by simp [hX1.nc])
      apply Shaped.paste _ _ _ _ (by simp [hX1.nc])
      exact Shaped.paste hX1 _ _ _ (by simp [hX1.nc])
    · simp_m [if_true, Bool.not_true, Bool.false_eq_true, if_false, hX1.nr, nrows_paste, h]
      apply SV.shaped_applyPLeftTrans
      apply Shaped.paste _ _ _ _ (by simp [hX1.nc])
      apply Shaped.paste _ _ _ _ (by simp [hX1.nc])
      exact Shaped.paste hX1 _ _ _ (by simp [hX1.nc])

/-- lens form: the memory left in `B` is that of a well-formed matrix of the shape of `B` whose abstract value is
    the model's result and whose excess bits are those of `B` -/
theorem pluqSolveLeft_spec (A B : Mzd) (P Q : Array Nat) (rank : Nat) (cutoff rsA rsB : Int) (check : Bool)
    (hA : A.WF) (hB : B.WF) (hPs : P.size = A.nrows) (hQs : Q.size = A.ncols)
    (hP : ∀ i, i < A.nrows → P.getD i 0 < B.nrows) (hQ : ∀ i, i < A.ncols → Q.getD i 0 < B.nrows)
    (hrank : rank ≤ min A.nrows A.ncols) (hBr : B.nrows = max A.nrows A.ncols) (hBc : 1 ≤ B.ncols) :
    ∃ B' : Mzd,
      Gen.C.pluqSolveLeft rank cutoff (if check then 1 else 0) (memOf B) B.ncols P.size B.nrows
          (fun i => ((P.getD i.toNat 0 : Nat) : Int)) B.width B.hb A.nrows rsA rsB (memOf A)
          (fun L Y _ => liftM2 trsmLowerLeft L Y)
          (fun C H Y _ => liftM3 (fun C A B => C.add (A.mul B)) C H Y)
          (fun U Y _ => liftM2 trsmUpperLeft U Y) Q.size (fun i => ((Q.getD i.toNat 0 : Nat) : Int))
        = ((BMat.pluqSolveLeft A.toB rank P Q B.toB check).1, memOf B') ∧
      B'.WF ∧ B'.nrows = B.nrows ∧ B'.ncols = B.ncols ∧
      B'.toB = (BMat.pluqSolveLeft A.toB rank P Q B.toB check).2 ∧
      (∀ i j, i < B.nrows → B.ncols ≤ j → j < 64 * B.width → B'.bit i j = B.bit i j) := by
  have hs := model_shaped A.toB B.toB rank P Q check (nB := B.nrows) (cB := B.ncols) ⟨Mzd.WF_toB hB, rfl, rfl⟩
  refine ⟨B.putB (BMat.pluqSolveLeft A.toB rank P Q B.toB check).2,
    pluqSolveLeft_eq_C A B P Q rank cutoff rsA rsB check hA hB hPs hQs hP hQ hrank hBr hBc,
    Mzd.WF_putB hB _, rfl, rfl, Mzd.toB_putB hB hs.wf hs.nr hs.nc,
    fun i j hi hj hj' => Mzd.bit_putB_of_ge B _ hB i j hi hj hj'⟩

/-- non-vacuity: the hypotheses of `pluqSolveLeft_eq_C` are satisfiable (a 2 × 3 system with 3 × 70 right-hand
    sides, so that `B` has excess bits) -/
example : ∃ (A B : Mzd) (P Q : Array Nat) (rank : Nat), A.WF ∧ B.WF ∧ P.size = A.nrows ∧ Q.size = A.ncols ∧
    (∀ i, i < A.nrows → P.getD i 0 < B.nrows) ∧ (∀ i, i < A.ncols → Q.getD i 0 < B.nrows) ∧
    rank ≤ min A.nrows A.ncols ∧ B.nrows = max A.nrows A.ncols ∧ 1 ≤ B.ncols :=
  ⟨Mzd.zero 2 3, Mzd.zero 3 70, #[1, 1], #[0, 2, 2], 2, Mzd.zero_WF 2 3, Mzd.zero_WF 3 70, rfl, rfl,
    by decide, by decide, by decide, rfl, by decide⟩

#print axioms mzdIsZero_window
#print axioms mzdSetUi_zero_eq
#print axioms setUi_zero_window
#print axioms clearLoops_spec
#print axioms pluqSolveLeft_eq
#print axioms pluqSolveLeft_eq_C
#print axioms pluqSolveLeft_spec

end M4ri.GenTieSolve
