/-
  `mzd_apply_p_right_trans_tri` on the C text, with its callee `mzd_col_swap_in_rows` on the C text:
  GenTieTri proves the blocked double loop equal to the model under the hypothesis `ColSwapTie`, GenTieColSwap proves
  `ColSwapTie`; this file discharges the hypothesis.
-/
import M4riProofs.GenTieColSwap
import M4riProofs.GenTieTri

namespace M4ri.GenTieTriFinal
open M4ri M4ri.GenTieMem M4ri.GenTieTab

/-- the hypothesis of GenTieTri is the theorem of GenTieColSwap -/
theorem colSwapTie : GenTieTri.ColSwapTie := GenTieColSwap.colSwapTie

/-- the generated `mzd_apply_p_right_trans_tri` (row-blocked double loop over the generated `mzd_col_swap_in_rows`) equals the model -/
theorem mzdApplyPRightTransTri_eq (A : Mzd) (P : Array Nat) (rs : Int) (hwf : A.WF)
    (hP : ∀ i, i < A.ncols → P.getD i 0 < A.ncols) :
    Gen.C.mzdApplyPRightTransTri (memOf A) A.width A.nrows A.ncols (arrOf P) rs = memOf (A.applyPRightTransTri P) :=
  GenTieTri.mzdApplyPRightTransTri_eq' colSwapTie A P rs hwf hP

/-- … and, on a whole well-formed matrix, the function parameter `liftTri` by which `_mzd_pluq` is tied (GenTieGlue.pluqFromPle_eq) -/
theorem mzdApplyPRightTransTri_liftTri (A : Mzd) (q : Int → Int) (rs : Int) (hwf : A.WF)
    (hq : ∀ i : Nat, i < A.ncols → 0 ≤ q (i : Int) ∧ q (i : Int) < (A.ncols : Int)) :
    Gen.C.mzdApplyPRightTransTri (memOf A) A.width A.nrows A.ncols q rs
      = GenTieGlue.liftTri ⟨memOf A, (A.nrows : Int), (A.ncols : Int), (A.width : Int), A.hb⟩ q :=
  GenTieTri.mzdApplyPRightTransTri_liftTri colSwapTie A q rs hwf hq

end M4ri.GenTieTriFinal
