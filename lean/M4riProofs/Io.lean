/-
  Property C18 (file I/O): proofs about the model `M4ri/Io.lean`.
-/
import M4ri.Io
import M4riProofs.Bridge
namespace M4ri.Io

/-! ## 1. the two libpng byte transforms -/

theorem packswap_lt : ∀ b, b < 256 → packswap b < 256 := by decide +kernel
theorem packswap_packswap : ∀ b, b < 256 → packswap (packswap b) = b := by decide +kernel
theorem invertMono_lt : ∀ b, b < 256 → invertMono b < 256 := by decide +kernel
theorem invertMono_invertMono : ∀ b, b < 256 → invertMono (invertMono b) = b := by decide +kernel
theorem packswap_invertMono_comm : ∀ b, b < 256 → packswap (invertMono b) = invertMono (packswap b) := by decide +kernel
theorem invertMono_eq : ∀ b, b < 256 → invertMono b = 255 - b := by decide +kernel
theorem packswap_testBit : ∀ b, b < 256 → ∀ k, k < 8 → (packswap b).testBit k = b.testBit (7 - k) := by decide +kernel

/-! ## 2. the writer: closed form of the packed row -/

theorem length_flatMap_range {α} (f : Nat → List α) (c : Nat) (hf : ∀ j, (f j).length = c) (n : Nat) :
    ((List.range n).flatMap f).length = n * c := by
  induction n with
  | zero => simp
  | succ n ih => simp [List.range_succ, List.flatMap_append, ih, hf, Nat.succ_mul]

theorem getElem?_flatMap_range {α} (f : Nat → List α) (c : Nat) (hf : ∀ j, (f j).length = c) :
    ∀ (n q : Nat), ((List.range n).flatMap f)[q]? = if q < n * c then (f (q / c))[q % c]? else none := by
  intro n
  induction n with
  | zero => intro q; simp
  | succ n ih =>
    intro q
    have hlen := length_flatMap_range f c hf n
    rw [List.range_succ, List.flatMap_append]
    by_cases h : q < n * c
    · rw [List.getElem?_append_left (by omega), ih]
      have : q < (n + 1) * c := by rw [Nat.succ_mul]; omega
      simp [h, this]
    · have hge : n * c ≤ q := by omega
      rw [List.getElem?_append_right (by omega), hlen]
      simp only [List.flatMap_cons, List.flatMap_nil, List.append_nil]
      by_cases h2 : q < (n + 1) * c
      · have h3 : q - n * c < c := by rw [Nat.succ_mul] at h2; omega
        have hc : 0 < c := by omega
        have e1 : q / c = n := by
          apply Nat.div_eq_of_lt_le
          · exact hge
          · exact h2
        have e2 : q % c = q - n * c := by
          have := Nat.div_add_mod q c
          rw [e1, Nat.mul_comm] at this; omega
        simp [h2, e1, e2]
      · have : (f n).length ≤ q - n * c := by rw [hf]; rw [Nat.succ_mul] at h2; omega
        simp [h2, List.getElem?_eq_none this]

theorem testBit_255 (t : Nat) : (255 : Nat).testBit t = decide (t < 8) := by
  have : (255 : Nat) = 2 ^ 8 - 1 := by decide
  rw [this, Nat.testBit_two_pow_sub_one]

theorem byteOf_testBit (row j k t : Nat) (hk : k < 8) :
    (byteOf (wordOf row j) k).testBit t = (decide (t < 8) && row.testBit (64 * j + 8 * k + t)) := by
  unfold byteOf wordOf
  simp only [BitVec.toNat_and, BitVec.toNat_ushiftRight, BitVec.toNat_ofNat, Nat.testBit_and,
    Nat.testBit_shiftRight, Nat.testBit_mod_two_pow]
  simp only [testBit_255]
  by_cases ht : t < 8
  · have : 8 * k + t < 64 := by omega
    have : t < 64 := by omega
    simp [*, Nat.add_assoc]
  · simp [ht]

theorem byteOf_lt (w : Word) (k : Nat) : byteOf w k < 256 := by
  unfold byteOf
  rw [BitVec.toNat_and]
  exact Nat.lt_of_le_of_lt Nat.and_le_right (by decide)

/-- number of bytes of a PNG row: `⌈ncols/8⌉` -/
def rowBytes (ncols : Nat) : Nat := (ncols + 7) / 8

theorem tail_count (ncols : Nat) (h : 1 ≤ ncols) :
    8 * (widthOf ncols - 1) + pngTailCount ncols = rowBytes ncols := by
  unfold pngTailCount pngNb widthOf rowBytes
  split <;> split <;> omega

theorem tail_count_le (ncols : Nat) : 1 ≤ pngTailCount ncols ∧ pngTailCount ncols ≤ 8 := by
  unfold pngTailCount pngNb
  split <;> split <;> omega

theorem pngPackRow_eq (row ncols : Nat) (h : 1 ≤ ncols) :
    pngPackRow row ncols = (List.range (rowBytes ncols)).map fun q => byteOf (wordOf row (q / 8)) (q % 8) := by
  have hc := tail_count ncols h
  have hc' := tail_count_le ncols
  apply List.ext_getElem?
  intro q
  unfold pngPackRow
  simp only []
  have hlen := length_flatMap_range (fun j => (List.range 8).map fun k => byteOf (wordOf row j) k) 8
    (by intro j; simp) (widthOf ncols - 1)
  by_cases hq : q < (widthOf ncols - 1) * 8
  · rw [List.getElem?_append_left (by omega), getElem?_flatMap_range _ 8 (by intro j; simp)]
    have h1 : q % 8 < 8 := Nat.mod_lt _ (by omega)
    have h2 : q < rowBytes ncols := by omega
    simp [hq, h1, h2]
  · rw [List.getElem?_append_right (by omega), hlen]
    by_cases h2 : q < rowBytes ncols
    · have h3 : q - (widthOf ncols - 1) * 8 < pngTailCount ncols := by omega
      have e1 : q / 8 = widthOf ncols - 1 := by omega
      have e2 : q % 8 = q - (widthOf ncols - 1) * 8 := by omega
      simp [h2, h3, e1, e2]
    · have h3 : ¬ q - (widthOf ncols - 1) * 8 < pngTailCount ncols := by omega
      simp [h2, h3]


/-! ## 3. the reader -/

theorem bufGet_getLsbD (buf : List Nat) (q t : Nat) :
    (bufGet buf q).getLsbD t = (decide (t < 8) && (buf.getD q 0).testBit t) := by
  unfold bufGet
  have : (256 : Nat) = 2 ^ 8 := by decide
  rw [BitVec.getLsbD_ofNat, this, Nat.testBit_mod_two_pow]
  by_cases ht : t < 8
  · have : t < 64 := by omega
    simp [ht, this]
  · simp [ht]

theorem tailOr_getLsbD (buf : List Nat) (j : Nat) (c : Nat) (tmp : Word) (p : Nat) (hp : p < 64) :
    (tailOr buf j c tmp).getLsbD p
      = (tmp.getLsbD p || (decide (p < 8 * c) && (bufGet buf (8 * j + p / 8)).getLsbD (p % 8))) := by
  induction c generalizing tmp with
  | zero => simp [tailOr]
  | succ c ih =>
    rw [tailOr, ih, BitVec.getLsbD_or, BitVec.getLsbD_shiftLeft, bufGet_getLsbD]
    by_cases h1 : p < 8 * c
    · have : p < 8 * (c + 1) := by omega
      simp [h1, this, hp]
    · by_cases h2 : p < 8 * (c + 1)
      · have e1 : p / 8 = c := by omega
        have e2 : p - 8 * c = p % 8 := by omega
        have h3 : p % 8 < 8 := by omega
        simp [h1, h2, hp, e1, e2, h3, bufGet_getLsbD]
      · have h3 : ¬ p - 8 * c < 8 := by omega
        simp [h1, h2, h3]

theorem fullWord_eq (buf : List Nat) (j : Nat) : fullWord buf j = tailOr buf j 8 0 := by
  simp [fullWord, tailOr]

theorem fullWord_getLsbD (buf : List Nat) (j p : Nat) (hp : p < 64) :
    (fullWord buf j).getLsbD p = (bufGet buf (8 * j + p / 8)).getLsbD (p % 8) := by
  rw [fullWord_eq, tailOr_getLsbD _ _ _ _ _ hp]
  simp [hp]

/-! ## 4. write → file → read, per byte -/

/-- the only fact about the libpng model the round trip uses: what the reader gets is the complement -/
theorem readback_byte (b : Nat) (hb : b < 256) : packswap (invertMono (packswap b)) = 255 - b := by
  rw [packswap_invertMono_comm _ (packswap_lt b hb), packswap_packswap _ hb, invertMono_eq _ hb]

theorem testBit_255_sub (b t : Nat) (hb : b < 256) : (255 - b).testBit t = (decide (t < 8) && !b.testBit t) := by
  have e : 255 - b = 2 ^ 8 - (b + 1) := by omega
  rw [e, Nat.testBit_two_pow_sub_succ (by omega)]

/-- the bytes the reader sees for a row written by the writer -/
theorem readBuf_eq (row ncols : Nat) (h : 1 ≤ ncols) :
    readTransforms (writeTransforms (pngPackRow row ncols))
      = (List.range (rowBytes ncols)).map fun q => 255 - byteOf (wordOf row (q / 8)) (q % 8) := by
  rw [pngPackRow_eq row ncols h]
  unfold readTransforms writeTransforms
  simp only [List.map_map]
  apply List.map_congr_left
  intro q _
  simp only [Function.comp]
  exact readback_byte _ (byteOf_lt _ _)

theorem readBuf_testBit (row ncols : Nat) (h : 1 ≤ ncols) (q t : Nat) (ht : t < 8) (hq : q < rowBytes ncols) :
    ((readTransforms (writeTransforms (pngPackRow row ncols))).getD q 0).testBit t = !row.testBit (8 * q + t) := by
  rw [readBuf_eq row ncols h, List.getD_eq_getElem?_getD, List.getElem?_map]
  have e : 64 * (q / 8) + 8 * (q % 8) + t = 8 * q + t := by omega
  have hk : q % 8 < 8 := by omega
  rw [List.getElem?_range hq]
  simp only [Option.map_some, Option.getD_some]
  rw [testBit_255_sub _ _ (byteOf_lt _ _), byteOf_testBit _ _ _ _ hk, e]
  simp [ht]

theorem row_w_push (n : Nat) (f : Nat → Word) (x : Word) (k : Nat) :
    Row.w (((Array.range n).map f).push x) k = if k < n then f k else if k = n then x else 0 := by
  unfold Row.w
  rw [Array.getD_eq_getD_getElem?, Array.getElem?_push]
  by_cases h1 : k < n
  · have : ¬ k = n := by omega
    simp [h1, this]
  · by_cases h2 : k = n
    · simp [h2]
    · simp [h1, h2]

/-! ## 5. the PNG round trip -/

/-- The reader's loop, for ANY buffer whose pixel bits (bit `t` of byte `q` with `8q + t < ncols`) are the
complemented entries of `row`: the result is `row`. The padding bits of the last byte are arbitrary. -/
theorem unpack_of_bits (ncols : Nat) (hn : 1 ≤ ncols) (row : Nat) (hrow : row < 2 ^ ncols) (buf : List Nat)
    (H : ∀ q t, t < 8 → 8 * q + t < ncols → (buf.getD q 0).testBit t = !row.testBit (8 * q + t)) :
    pngUnpackRow buf ncols = row := by
  apply Nat.eq_of_testBit_eq
  intro p
  have hc := tail_count ncols hn
  have hc' := tail_count_le ncols
  have hW : widthOf ncols = (ncols + 63) / 64 := rfl
  have hB : rowBytes ncols = (ncols + 7) / 8 := rfl
  have hhigh : ∀ p, ncols ≤ p → row.testBit p = false := fun p hp =>
    Nat.testBit_lt_two_pow (Nat.lt_of_lt_of_le hrow (Nat.pow_le_pow_right (by omega) hp))
  unfold pngUnpackRow
  simp only []
  rw [packWords_testBit, row_w_push]
  have hr : p % 64 < 64 := Nat.mod_lt _ (by omega)
  have e : 8 * (8 * (p / 64) + p % 64 / 8) + p % 64 % 8 = p := by omega
  have h8 : p % 64 % 8 < 8 := by omega
  have h8' : p % 8 < 8 := by omega
  have HP : p < ncols → (buf.getD (8 * (p / 64) + p % 64 / 8) 0).testBit (p % 64 % 8) = !row.testBit p := by
    intro hp
    have := H (8 * (p / 64) + p % 64 / 8) (p % 64 % 8) h8 (by omega)
    rwa [e] at this
  by_cases h1 : p / 64 < widthOf ncols - 1
  · rw [if_pos h1, BitVec.getLsbD_not, fullWord_getLsbD _ _ _ hr, bufGet_getLsbD, HP (by omega)]
    simp [hr, h8']
  · rw [if_neg h1]
    by_cases h2 : p / 64 = widthOf ncols - 1
    · rw [if_pos h2, BitVec.getLsbD_or, BitVec.getLsbD_and, BitVec.getLsbD_not,
        tailOr_getLsbD _ _ _ _ _ hr, bufGet_getLsbD, ← h2]
      by_cases h0 : ncols % 64 = 0
      · have h5 : p % 64 < 8 * pngTailCount ncols := by omega
        have hf : ffff.getLsbD (p % 64) = true := by
          unfold ffff; rw [BitVec.getLsbD_allOnes]; simp [hr]
        rw [h0, leftMask_zero, hf, HP (by omega)]
        simp [hr, h8', h5]
      · rw [leftMask_getLsbD _ _ (by omega) (by omega)]
        by_cases h6 : p % 64 < ncols % 64
        · have h5 : p % 64 < 8 * pngTailCount ncols := by omega
          rw [HP (by omega)]
          simp [hr, h8', h5, h6]
        · rw [hhigh p (by omega)]
          simp [h6]
    · rw [if_neg h2, hhigh p (by omega)]
      simp

/-- **PNG round trip, one row** (bytes exactly as transformed). For every number of columns `ncols ≥ 1`
(every residue mod 8 and mod 64) and every row value `row < 2^ncols`: the bytes `mzd_to_png` hands to libpng,
pushed through libpng's write transforms (PACKSWAP, INVERT_MONO), stored, pushed through the read transform
(PACKSWAP) and unpacked by `mzd_from_png`'s loop give back exactly `row`. -/
theorem png_roundtrip (ncols : Nat) (hn : 1 ≤ ncols) (row : Nat) (hrow : row < 2 ^ ncols) :
    pngUnpackRow (readTransforms (writeTransforms (pngPackRow row ncols))) ncols = row := by
  apply unpack_of_bits ncols hn row hrow
  intro q t ht hq
  exact readBuf_testBit row ncols hn q t ht (by unfold rowBytes; omega)

theorem testBit_endMask (k t : Nat) (hk : k < 8) :
    ((0xff <<< k) &&& 0xff).testBit t = decide (k ≤ t ∧ t < 8) := by
  rw [Nat.testBit_and, Nat.testBit_shiftLeft, testBit_255, testBit_255]
  by_cases h1 : k ≤ t <;> by_cases h2 : t < 8 <;> simp [h1, h2] <;> omega

/-- `png_combine_row` does not change pixel bits -/
theorem combine_testBit (ncols : Nat) (dest src : List Nat) (q t : Nat) (ht : t < 8) (hq : 8 * q + t < ncols) :
    ((pngCombineRow ncols dest src).getD q 0).testBit t = (src.getD q 0).testBit t := by
  unfold pngCombineRow
  simp only []
  split
  · rfl
  · rename_i hk
    rw [List.getD_eq_getElem?_getD, List.getD_eq_getElem?_getD, List.getElem?_mapIdx]
    cases hs : src[q]? with
    | none => rfl
    | some b =>
      simp only [Option.map_some, Option.getD_some]
      split
      · rename_i hlast
        have hk8 : ncols % 8 < 8 := Nat.mod_lt _ (by omega)
        have htk : ¬ ncols % 8 ≤ t := by omega
        have hm := testBit_endMask (ncols % 8) t hk8
        rw [Nat.testBit_or, Nat.testBit_and, hm, Nat.testBit_and, Nat.testBit_xor, hm, testBit_255]
        simp [htk, ht]
      · rfl

/-- **PNG round trip, one row, as `png_read_row` really delivers it**: read transform, then
`png_combine_row` into an ARBITRARY destination buffer (whatever its padding bits hold). -/
theorem png_roundtrip_read_row (ncols : Nat) (hn : 1 ≤ ncols) (row : Nat) (hrow : row < 2 ^ ncols) (dest : List Nat) :
    pngUnpackRow (pngReadRow ncols dest (pngFileRow row ncols)) ncols = row := by
  apply unpack_of_bits ncols hn row hrow
  intro q t ht hq
  unfold pngReadRow pngFileRow
  rw [combine_testBit _ _ _ _ _ ht hq]
  exact readBuf_testBit row ncols hn q t ht (by unfold rowBytes; omega)

example : pngUnpackRow (readTransforms (writeTransforms (pngPackRow 0x2a5 10))) 10 = 0x2a5 :=
  png_roundtrip 10 (by decide) _ (by decide)

example : pngUnpackRow (pngReadRow 10 [0xff, 0xff] (pngFileRow 0x2a5 10)) 10 = 0x2a5 :=
  png_roundtrip_read_row 10 (by decide) _ (by decide) _


/-! ## 6. `mzd_from_jcf`: memory safety -/

/-- the run performed no out-of-bounds write -/
def NoOob : Except JErr BMat → Prop
  | .error (.oob _ _) => False
  | _ => True

instance : DecidablePred NoOob := fun r => by
  unfold NoOob; split <;> infer_instance

/-! ### helper lemmas: `writeBit`, `setRow` -/

theorem testBit_one_shiftLeft (j p : Nat) : (1 <<< j).testBit p = decide (p = j) := by
  rw [Nat.one_shiftLeft, Nat.testBit_two_pow]
  by_cases h : p = j
  · simp [h]
  · have : ¬ j = p := fun e => h e.symm
    simp [h, this]

theorem writeBit_testBit (acc j : Nat) (v : Bool) (p : Nat) :
    (writeBit acc j v).testBit p = if p = j then v else acc.testBit p := by
  have e1 : writeBit acc j true = (acc ^^^ (acc &&& 1 <<< j)) ||| 1 <<< j := rfl
  have e0 : writeBit acc j false = acc ^^^ (acc &&& 1 <<< j) := rfl
  cases v
  · rw [e0, Nat.testBit_xor, Nat.testBit_and, testBit_one_shiftLeft]
    by_cases h : p = j <;> simp [h]
  · rw [e1, Nat.testBit_or, Nat.testBit_xor, Nat.testBit_and, testBit_one_shiftLeft]
    by_cases h : p = j <;> simp [h]

@[simp] theorem nrows_setRow (A : BMat) (i r : Nat) : (A.setRow i r).nrows = A.nrows := rfl
@[simp] theorem ncols_setRow (A : BMat) (i r : Nat) : (A.setRow i r).ncols = A.ncols := rfl
@[simp] theorem size_setRow (A : BMat) (i r : Nat) : (A.setRow i r).rows.size = A.rows.size := by
  simp [BMat.setRow]

theorem row_setRow (A : BMat) (i r k : Nat) :
    (A.setRow i r).row k = if k = i ∧ i < A.rows.size then r else A.row k := by
  unfold BMat.setRow BMat.row
  simp only [Array.getD_eq_getD_getElem?, Array.getElem?_setIfInBounds]
  by_cases h : i = k
  · subst h
    by_cases h2 : i < A.rows.size
    · simp [h2]
    · simp [h2]
  · have : ¬ k = i := fun e => h e.symm
    simp [h, this]

/-- one accepted entry of the loop, as a rewrite rule -/
theorem jcfLoop_step (m n i : Int) (A : BMat) (t : Int) (ts : List Int) (i' j : Int)
    (hi' : i' = if t < 0 then i + 1 else i) (hj : j = if t < 0 then -t else t)
    (h1 : 0 ≤ i') (h2 : i' < m) (h3 : 1 ≤ j) (h4 : j ≤ n) (hr : (A.nrows : Int) = m) (hc : (A.ncols : Int) = n) :
    jcfLoop m n i A (t :: ts)
      = jcfLoop m n i' (A.setRow i'.toNat (writeBit (A.row i'.toNat) (j - 1).toNat true)) ts := by
  rw [jcfLoop]
  simp only [← hi', ← hj]
  have hd : ¬ (j - 1 ≥ n ∨ j - 1 < 0 ∨ i' ≥ m ∨ i' < 0) := by omega
  have hs : 0 ≤ i' ∧ i' < (A.nrows : Int) ∧ 0 ≤ j - 1 ∧ j - 1 < (A.ncols : Int) := by omega
  rw [if_neg hd, checkedSet, if_pos hs]

/-- the loop never performs an out-of-bounds write, from ANY state whose matrix has the header's shape -/
theorem jcfLoop_safe (m n : Int) :
    ∀ (ts : List Int) (i : Int) (A : BMat), (A.nrows : Int) = m → (A.ncols : Int) = n →
      NoOob (jcfLoop m n i A ts) := by
  intro ts
  induction ts with
  | nil => intro i A _ _; simp [jcfLoop, NoOob]
  | cons t ts ih =>
    intro i A hr hc
    by_cases hd : (if t < 0 then -t else t) - 1 ≥ n ∨ (if t < 0 then -t else t) - 1 < 0 ∨
        (if t < 0 then i + 1 else i) ≥ m ∨ (if t < 0 then i + 1 else i) < 0
    · rw [jcfLoop]
      simp only [if_pos hd, NoOob]
    · rw [jcfLoop_step m n i A t ts _ _ rfl rfl (by omega) (by omega) (by omega) (by omega) hr hc]
      apply ih
      · simpa using hr
      · simpa using hc

/-- **Memory safety of `mzd_from_jcf` (full strength).** For EVERY list of integer tokens — any header,
any number of entries, any signs and magnitudes, including `0` entries and a first entry that is not
negative — the parser never performs an out-of-bounds write: every `mzd_write_bit(A, i, j-1, 1)` it reaches
has `0 ≤ i < m` and `0 ≤ j-1 < n`. -/
theorem jcf_safe_full : ∀ toks : List Int, NoOob (jcfRun toks) := by
  intro toks
  match toks with
  | [] => simp [jcfRun, NoOob]
  | [_] => simp [jcfRun, NoOob]
  | [_, _] => simp [jcfRun, NoOob]
  | [_, _, _] => simp [jcfRun, NoOob]
  | m :: n :: p :: nnz :: body =>
    rw [jcfRun]
    by_cases hp : p ≠ 2
    · simp [hp, NoOob]
    · rw [if_neg hp]
      by_cases hneg : m < 0 ∨ n < 0
      · simp [hneg, NoOob]
      · rw [if_neg hneg]
        apply jcfLoop_safe m n
        · simp [BMat.zero]; omega
        · simp [BMat.zero]; omega

/-- the same, as an explicit case list: the result is `ok`, `die`, `null` or `negdims` -/
theorem jcf_safe_full_cases (toks : List Int) :
    (∃ B, jcfRun toks = .ok B) ∨ jcfRun toks = .error .die ∨ jcfRun toks = .error .null ∨
      jcfRun toks = .error .negdims := by
  have h := jcf_safe_full toks
  cases hr : jcfRun toks with
  | ok B => exact Or.inl ⟨B, rfl⟩
  | error e =>
    cases e with
    | null => simp
    | die => simp
    | negdims => simp
    | oob r c => rw [hr] at h; exact absurd h (by simp [NoOob])

/-- the string-level entry point never reports `oob-write` either -/
theorem jcfParse_safe (toks : List Int) :
    (∃ B, jcfParse toks = .ok B) ∨ jcfParse toks = .error "die" ∨ jcfParse toks = .error "null" ∨
      jcfParse toks = .error "negdims" := by
  unfold jcfParse
  rcases jcf_safe_full_cases toks with ⟨B, h⟩ | h | h | h <;> rw [h]
  · exact Or.inl ⟨B, rfl⟩
  · exact Or.inr (Or.inl rfl)
  · exact Or.inr (Or.inr (Or.inl rfl))
  · exact Or.inr (Or.inr (Or.inr rfl))

/-- non-vacuity: a run that really performs writes -/
example : ∃ B, jcfRun [3, 4, 2, 5, -1, 3, -2, -4, 1] = .ok B := ⟨_, rfl⟩

/-! ### the repaired defects: the former out-of-bounds witnesses now end in `m4ri_die`

Before the repair the guard was `((j - 1) >= n) || (i >= m)` only; these four files made the C code write
to `(-1, 0)`, `(0, -1)`, `(-1, 0)`, `(-1, -1)` (heap underflow / negative shift / NULL write). -/

example : jcfRun [1, 1, 2, 1, 1] = .error .die := by rfl
example : jcfRun [1, 1, 2, 1, -1, 0] = .error .die := by rfl
example : jcfRun [3, 3, 2, 3, 1, -2, -3] = .error .die := by rfl
example : jcfRun [0, 0, 2, 0, 0] = .error .die := by rfl
example : jcfRun [1, 70, 2, 1, -1, 0] = .error .die := by rfl

/-- in general position: a first entry that is not negative is refused (`i` is still `-1`) … -/
theorem jcf_die_of_nonneg_head (m n nnz t : Int) (rest : List Int) (hm : 0 ≤ m) (hn : 0 ≤ n) (ht : 0 ≤ t) :
    jcfRun (m :: n :: 2 :: nnz :: t :: rest) = .error .die := by
  have h1 : ¬ ((2 : Int) ≠ 2) := by decide
  have h2 : ¬ (m < 0 ∨ n < 0) := by omega
  have h3 : ¬ t < 0 := by omega
  have h4 : t - 1 ≥ n ∨ t - 1 < 0 ∨ (-1 : Int) ≥ m ∨ (-1 : Int) < 0 := by omega
  rw [jcfRun, if_neg h1, if_neg h2, jcfLoop]
  simp only [if_neg h3, if_pos h4]

/-- … and so is an entry `0`, wherever it occurs. -/
theorem jcfLoop_die_of_zero (m n i : Int) (A : BMat) (rest : List Int) :
    jcfLoop m n i A (0 :: rest) = .error .die := by
  have h3 : ¬ (0 : Int) < 0 := by decide
  have h4 : (0 : Int) - 1 ≥ n ∨ (0 : Int) - 1 < 0 ∨ i ≥ m ∨ i < 0 := by omega
  rw [jcfLoop]
  simp only [if_neg h3, if_pos h4]

/-! ## 7. `mzd_from_jcf`: functional correctness on well-formed files -/

theorem get_setRow (A : BMat) (i v r c : Nat) :
    (A.setRow i v).get r c = if r = i ∧ i < A.rows.size then v.testBit c else A.get r c := by
  unfold BMat.get
  rw [row_setRow]
  split <;> rfl

/-- the token encoding of one matrix row: the 1-based column indices, the first one negated -/
def encRow : List Nat → List Int
  | [] => []
  | c :: cs => (-(c : Int)) :: cs.map fun (x : Nat) => (x : Int)

/-- the token encoding of a matrix given as the list of its rows' column lists -/
def encBody (rows : List (List Nat)) : List Int := rows.flatMap encRow

/-- shape invariant of the matrix under construction -/
structure Shape (A : BMat) (m n : Nat) : Prop where
  nr : A.nrows = m
  nc : A.ncols = n
  sz : A.rows.size = m

theorem shape_setRow {A : BMat} {m n : Nat} (h : Shape A m n) (i v : Nat) : Shape (A.setRow i v) m n :=
  ⟨h.nr, h.nc, by rw [size_setRow]; exact h.sz⟩

/-- positive entries continue row `i` -/
theorem jcfLoop_pos (m n : Nat) (rest : List Int) :
    ∀ (cs : List Nat) (i : Nat) (A : BMat), Shape A m n → i < m → (∀ c ∈ cs, 1 ≤ c ∧ c ≤ n) →
      ∃ A', Shape A' m n ∧
        jcfLoop m n i A (cs.map (fun (x : Nat) => (x : Int)) ++ rest) = jcfLoop m n i A' rest ∧
        ∀ r c, A'.get r c = (A.get r c || (decide (r = i) && decide (c + 1 ∈ cs))) := by
  intro cs
  induction cs with
  | nil => intro i A hA _ _; exact ⟨A, hA, rfl, by simp⟩
  | cons c cs ih =>
    intro i A hA hi hcs
    have hc := hcs c (by simp)
    have hneg : ¬ ((c : Int) < 0) := by omega
    rw [List.map_cons, List.cons_append,
      jcfLoop_step m n i A c _ i c (by rw [if_neg hneg]) (by rw [if_neg hneg]) (by omega) (by omega)
        (by omega) (by omega) (by rw [hA.nr]) (by rw [hA.nc])]
    obtain ⟨A', hA', heq, hget⟩ := ih i _ (shape_setRow hA _ _) hi (fun x hx => hcs x (by simp [hx]))
    refine ⟨A', hA', heq, ?_⟩
    intro r c'
    have e1 : (i : Int).toNat = i := by simp
    have e2 : ((c : Int) - 1).toNat = c - 1 := by omega
    rw [hget, e1, e2, get_setRow, writeBit_testBit, hA.sz]
    by_cases hr : r = i
    · subst hr
      by_cases hcc : c' = c - 1
      · have : c - 1 + 1 = c := by omega
        simp [hi, hcc, this]
      · have : ¬ c' + 1 = c := by omega
        simp [hi, hcc, this, BMat.get]
    · simp [hr]

/-- a whole encoded row: starts row `s` (the row counter is `s - 1` before) -/
theorem jcfLoop_row (m n : Nat) (rest : List Int) (row : List Nat) (s : Nat) (A : BMat)
    (hA : Shape A m n) (hs : s < m) (hne : row ≠ []) (hrow : ∀ c ∈ row, 1 ≤ c ∧ c ≤ n) :
    ∃ A', Shape A' m n ∧
      jcfLoop m n ((s : Int) - 1) A (encRow row ++ rest) = jcfLoop m n s A' rest ∧
      ∀ r c, A'.get r c = (A.get r c || (decide (r = s) && decide (c + 1 ∈ row))) := by
  match row, hne, hrow with
  | c :: cs, _, hrow =>
    have hc := hrow c (by simp)
    have hneg : (-(c : Int)) < 0 := by omega
    rw [encRow, List.cons_append,
      jcfLoop_step m n _ A (-(c : Int)) _ s c (by rw [if_pos hneg]; omega) (by rw [if_pos hneg]; omega)
        (by omega) (by omega) (by omega) (by omega) (by rw [hA.nr]) (by rw [hA.nc])]
    obtain ⟨A', hA', heq, hget⟩ := jcfLoop_pos m n rest cs s _ (shape_setRow hA _ _) hs
      (fun x hx => hrow x (by simp [hx]))
    refine ⟨A', hA', heq, ?_⟩
    intro r c'
    have e1 : (s : Int).toNat = s := by simp
    have e2 : ((c : Int) - 1).toNat = c - 1 := by omega
    rw [hget, e1, e2, get_setRow, writeBit_testBit, hA.sz]
    by_cases hr : r = s
    · subst hr
      by_cases hcc : c' = c - 1
      · have : c - 1 + 1 = c := by omega
        simp [hs, hcc, this]
      · have : ¬ c' + 1 = c := by omega
        simp [hs, hcc, this, BMat.get]
    · simp [hr]

theorem jcfLoop_rows (m n : Nat) :
    ∀ (rows : List (List Nat)) (s : Nat) (A : BMat), Shape A m n → s + rows.length ≤ m →
      (∀ row ∈ rows, row ≠ [] ∧ ∀ c ∈ row, 1 ≤ c ∧ c ≤ n) →
      ∃ A', Shape A' m n ∧ jcfLoop m n ((s : Int) - 1) A (encBody rows) = .ok A' ∧
        ∀ r c, A'.get r c = (A.get r c || (decide (s ≤ r) && decide (c + 1 ∈ rows.getD (r - s) []))) := by
  intro rows
  induction rows with
  | nil => intro s A hA _ _; exact ⟨A, hA, by simp [encBody, jcfLoop], by simp⟩
  | cons row rows ih =>
    intro s A hA hlen hrows
    have hrow := hrows row (by simp)
    simp only [List.length_cons] at hlen
    obtain ⟨A1, hA1, heq1, hget1⟩ := jcfLoop_row m n (encBody rows) row s A hA (by omega) hrow.1 hrow.2
    obtain ⟨A2, hA2, heq2, hget2⟩ := ih (s + 1) A1 hA1 (by omega) (fun x hx => hrows x (by simp [hx]))
    refine ⟨A2, hA2, ?_, ?_⟩
    · have : encBody (row :: rows) = encRow row ++ encBody rows := by simp [encBody]
      rw [this, heq1]
      have e : ((s : Int)) = ((s + 1 : Nat) : Int) - 1 := by omega
      rw [e]; exact heq2
    · intro r c
      rw [hget2, hget1]
      by_cases h1 : r = s
      · subst h1
        have : ¬ r + 1 ≤ r := by omega
        simp [this]
      · by_cases h2 : s + 1 ≤ r
        · have h3 : s ≤ r := by omega
          have h4 : r - s = (r - (s + 1)) + 1 := by omega
          simp [h1, h2, h3, h4]
        · have h3 : ¬ s ≤ r := by omega
          simp [h1, h2, h3]

/-- **`mzd_from_jcf` builds exactly the denoted matrix.** For a well-formed file — header `m n 2 nnz`,
at most `m` rows, every row non-empty (so its first entry can carry the sign), all column indices in
`1..n` — the parser succeeds and entry `(r, c)` of the result is set iff `c+1` is listed in row `r`.
(`nnz` is arbitrary: the C code only prints it.) -/
theorem jcf_spec (m n : Nat) (nnz : Int) (rows : List (List Nat)) (hlen : rows.length ≤ m)
    (hrows : ∀ row ∈ rows, row ≠ [] ∧ ∀ c ∈ row, 1 ≤ c ∧ c ≤ n) :
    ∃ B, jcfRun ((m : Int) :: (n : Int) :: 2 :: nnz :: encBody rows) = .ok B ∧
      B.nrows = m ∧ B.ncols = n ∧ B.WF ∧
      ∀ r c, B.get r c = decide (c + 1 ∈ rows.getD r []) := by
  have h1 : ¬ ((2 : Int) ≠ 2) := by decide
  have h2 : ¬ ((m : Int) < 0 ∨ (n : Int) < 0) := by omega
  have hZ : Shape (BMat.zero (m : Int).toNat (n : Int).toNat) m n := by
    simp only [Int.toNat_natCast]
    exact ⟨rfl, rfl, by simp [BMat.zero]⟩
  obtain ⟨B, hB, heq, hget⟩ := jcfLoop_rows m n rows 0 _ hZ (by omega) hrows
  have hget' : ∀ r c, B.get r c = decide (c + 1 ∈ rows.getD r []) := by
    intro r c
    rw [hget]
    simp
  refine ⟨B, ?_, hB.nr, hB.nc, ?_, hget'⟩
  · rw [jcfRun, if_neg h1, if_neg h2]
    have : ((0 : Nat) : Int) - 1 = -1 := by omega
    rw [← this]; exact heq
  · apply BMat.WF_of_get (hB.sz.trans hB.nr.symm)
    intro r c hc
    rw [hget', hB.nc] at *
    simp only [decide_eq_false_iff_not]
    intro hmem
    by_cases hr : r < rows.length
    · have hrow : rows.getD r [] ∈ rows := by
        rw [List.getD_eq_getElem?_getD, List.getElem?_eq_getElem hr]; simp
      have := (hrows _ hrow).2 _ hmem
      omega
    · rw [List.getD_eq_getElem?_getD, List.getElem?_eq_none (by omega)] at hmem
      simp at hmem

/-- non-vacuity / concrete instance: the 3×4 file `-1 3 / -2 / -4 1` -/
example : ∃ B, jcfRun [3, 4, 2, 5, -1, 3, -2, -4, 1] = .ok B ∧ B.nrows = 3 ∧ B.ncols = 4 ∧ B.WF ∧
    ∀ r c, B.get r c = decide (c + 1 ∈ [[1, 3], [2], [4, 1]].getD r []) :=
by
  have := jcf_spec 3 4 5 [[1, 3], [2], [4, 1]] (by decide) (by decide)
  simpa [encBody, encRow] using this



/-! ## 8. `mzd_from_str` -/

theorem fromStrCols_spec (bs : Array UInt8) (n : Nat) :
    ∀ (k idx acc : Nat), k ≤ n →
      (fromStrCols bs n k idx acc).2 = idx + k ∧
      ∀ p, (fromStrCols bs n k idx acc).1.testBit p =
        if n - k ≤ p ∧ p < n then bs.getD (idx + (p - (n - k))) 0 == 49 else acc.testBit p := by
  intro k
  induction k with
  | zero =>
    intro idx acc _
    refine ⟨rfl, fun p => ?_⟩
    have : ¬ (n - 0 ≤ p ∧ p < n) := by omega
    rw [if_neg this]; rfl
  | succ k ih =>
    intro idx acc hk
    obtain ⟨h1, h2⟩ := ih (idx + 1) (writeBit acc (n - (k + 1)) (bs.getD idx 0 == 49)) (by omega)
    rw [fromStrCols]
    refine ⟨by rw [h1]; omega, fun p => ?_⟩
    rw [h2, writeBit_testBit]
    by_cases hp : n - k ≤ p ∧ p < n
    · have : n - (k + 1) ≤ p ∧ p < n := by omega
      have e : idx + 1 + (p - (n - k)) = idx + (p - (n - (k + 1))) := by omega
      simp [hp, this, e]
    · rw [if_neg hp]
      by_cases hq : p = n - (k + 1)
      · have : n - (k + 1) ≤ p ∧ p < n := by omega
        have e : p - (n - (k + 1)) = 0 := by omega
        rw [if_pos hq, if_pos this, e]; simp
      · have : ¬ (n - (k + 1) ≤ p ∧ p < n) := by omega
        rw [if_neg hq, if_neg this]

theorem fromStrRows_spec (bs : Array UInt8) (n : Nat) :
    ∀ (k idx : Nat) (rows : Array Nat),
      fromStrRows bs n k idx rows
        = rows ++ (Array.range k).map fun a => (fromStrCols bs n n (idx + a * n) 0).1 := by
  intro k
  induction k with
  | zero => intro idx rows; simp [fromStrRows]
  | succ k ih =>
    intro idx rows
    rw [fromStrRows]
    have h2 := (fromStrCols_spec bs n n idx 0 (Nat.le_refl _)).1
    simp only []
    rw [h2, ih]
    apply Array.ext
    · simp; omega
    · intro i hi1 hi2
      simp only [Array.size_append, Array.size_push, Array.size_map, Array.size_range] at hi1 hi2
      rw [Array.getElem_append, Array.getElem_append]
      by_cases h : i < rows.size
      · have : i < rows.size + 1 := by omega
        simp [h, this, Array.getElem_push]
      · by_cases h' : i = rows.size
        · subst h'
          simp
        · have h3 : ¬ i < rows.size + 1 := by omega
          have e : idx + n + (i - (rows.size + 1)) * n = idx + (i - rows.size) * n := by
            have : i - rows.size = (i - (rows.size + 1)) + 1 := by omega
            rw [this, Nat.succ_mul]; omega
          simp [h, h3, e]

/-- **`mzd_from_str` builds the matrix the text denotes**: entry `(i, j)` is set iff byte `i·n + j` of the
string is the character `'1'` (code 49). (Bytes past the end of the string read as 0 in the model; in C
only the terminating NUL may be read, see `fromStrInBounds`.) -/
theorem fromStr_spec (m n : Nat) (s : String) (i j : Nat) :
    (fromStr m n s).get i j = (decide (i < m ∧ j < n) && (s.toUTF8.data.getD (i * n + j) 0 == 49)) := by
  unfold fromStr BMat.get BMat.row
  simp only []
  rw [fromStrRows_spec]
  simp only [Array.empty_append, Array.getD_eq_getD_getElem?, Array.getElem?_map, Array.getElem?_range]
  by_cases hi : i < m
  · simp only [hi, if_true, Option.map_some, Option.getD_some]
    rw [(fromStrCols_spec _ n n _ 0 (Nat.le_refl _)).2]
    by_cases hj : j < n
    · simp [hj, Array.getD_eq_getD_getElem?]
    · simp [hj]
  · simp [hi]

theorem fromStr_shape (m n : Nat) (s : String) :
    (fromStr m n s).nrows = m ∧ (fromStr m n s).ncols = n ∧ (fromStr m n s).WF := by
  refine ⟨rfl, rfl, ?_⟩
  apply BMat.WF_of_get
  · show (fromStrRows _ n m 0 #[]).size = m
    rw [fromStrRows_spec]; simp
  · intro i j hj
    have : ¬ j < n := Nat.not_lt.mpr hj
    rw [fromStr_spec]; simp [this]

example : (fromStr 2 3 "101011").rows = #[5, 6] := by decide



/-! ## 9. whole matrices, buffer bounds, header checks of `mzd_from_png` -/

/-- **PNG round trip, whole matrix**: `mzd_from_png (mzd_to_png A) = A` for every well-formed matrix with at
least one column (libpng refuses images of width or height 0), modulo the lossless-container assumption. -/
theorem png_matrix_roundtrip (A : BMat) (hA : A.WF) (hn : 1 ≤ A.ncols) :
    fromPngRows A.nrows A.ncols (toPngRows A) = A := by
  obtain ⟨nr, nc, rows⟩ := A
  obtain ⟨hsz, hlt⟩ := hA
  simp only at hsz hn
  unfold fromPngRows toPngRows
  simp only [BMat.mk.injEq, true_and]
  apply Array.ext
  · simp [hsz]
  · intro i h1 h2
    have hi : i < nr := by simpa using h1
    simp only [Array.getElem_map, Array.getElem_range]
    rw [List.getD_eq_getElem?_getD, List.getElem?_map, List.getElem?_range hi]
    simp only [Option.map_some, Option.getD_some]
    rw [png_roundtrip_read_row nc hn _ (hlt i)]
    exact BMat.row_eq_getElem _ i h2

example : fromPngRows 2 3 (toPngRows ⟨2, 3, #[5, 6]⟩) = ⟨2, 3, #[5, 6]⟩ :=
  png_matrix_roundtrip ⟨2, 3, #[5, 6]⟩
    ⟨rfl, fun i => by
      match i with
      | 0 => decide
      | 1 => decide
      | i + 2 => simp [BMat.row]⟩ (by decide)

theorem rowBytes_le_readBuf (ncols : Nat) : rowBytes ncols ≤ ncols / 8 + 1 := by
  unfold rowBytes; omega

/-- every buffer index `mzd_from_png`'s loop reads lies inside the `n/8 + 1` bytes it allocated -/
theorem png_reads_in_bounds (ncols : Nat) (h : 1 ≤ ncols) : ∀ q ∈ pngReadIdxs ncols, q < ncols / 8 + 1 := by
  intro q hq
  have hc := tail_count ncols h
  have hb := rowBytes_le_readBuf ncols
  unfold pngReadIdxs at hq
  simp only [List.mem_append, List.mem_flatMap, List.mem_map, List.mem_range] at hq
  rcases hq with ⟨j, hj, k, hk, rfl⟩ | ⟨k, hk, rfl⟩ <;> omega

/-- … and they are exactly the bytes of the row libpng delivered (nothing stale is read) -/
theorem png_reads_lt_rowBytes (ncols : Nat) (h : 1 ≤ ncols) : ∀ q ∈ pngReadIdxs ncols, q < rowBytes ncols := by
  intro q hq
  have hc := tail_count ncols h
  unfold pngReadIdxs at hq
  simp only [List.mem_append, List.mem_flatMap, List.mem_map, List.mem_range] at hq
  rcases hq with ⟨j, hj, k, hk, rfl⟩ | ⟨k, hk, rfl⟩ <;> omega

/-- `mzd_to_png` fills exactly `⌈ncols/8⌉` bytes, inside the `ncols/8 + 8` it allocated -/
theorem pngPackRow_length (row ncols : Nat) (h : 1 ≤ ncols) : (pngPackRow row ncols).length = rowBytes ncols := by
  rw [pngPackRow_eq row ncols h]; simp

theorem png_writes_in_bounds (row ncols : Nat) (h : 1 ≤ ncols) : (pngPackRow row ncols).length ≤ ncols / 8 + 8 := by
  rw [pngPackRow_length row ncols h]; unfold rowBytes; omega

theorem pngAccept_iff (h : PngHdr) :
    pngAccept h = true ↔ h.interlace = 0 ∧ (h.colorType = 0 ∨ h.colorType = 3) ∧ h.bitDepth = 1 ∧ h.channels = 1 := by
  simp [pngAccept, and_assoc]

/-- **Memory safety of the row buffer of `mzd_from_png` (full strength).** Whenever `mzd_from_png` accepts a
header — ANY header, libpng-valid or not — the `PNG_ROWBYTES` bytes that each `png_read_row` stores fit into
the `n/8 + 1` bytes the function allocated. -/
theorem png_read_safe_full : ∀ h : PngHdr, pngAccept h = true → pngRowbytes h ≤ pngRowBuf h := by
  intro h ha
  obtain ⟨_, _, hd, hc⟩ := (pngAccept_iff h).mp ha
  unfold pngRowbytes pngRowBuf
  rw [hd, hc]; omega

/-- non-vacuity: 1-bit grey and 1-bit palette images are accepted -/
example : pngValidHdr ⟨16, 1, 1, 1, 0, 0⟩ = true ∧ pngAccept ⟨16, 1, 1, 1, 0, 0⟩ = true := by decide
example : pngValidHdr ⟨16, 1, 1, 1, 3, 0⟩ = true ∧ pngAccept ⟨16, 1, 1, 1, 3, 0⟩ = true := by decide

/-- every accepted file is within the scope of the round-trip theorems (1 bit per pixel, so the delivered
row has exactly `⌈n/8⌉` bytes) -/
theorem pngRowbytes_of_accept (h : PngHdr) (ha : pngAccept h = true) : pngRowbytes h = rowBytes h.width := by
  obtain ⟨_, _, hd, hc⟩ := (pngAccept_iff h).mp ha
  unfold pngRowbytes rowBytes
  rw [hd, hc]; omega

/-! ### the repaired defect: images that are not 1 bit per pixel are now rejected

Before the repair only the interlace flag and the colour type were checked; a 16×1 grey image of bit depth 8
was accepted and libpng stored 16 bytes into the 3-byte row buffer (heap overflow, confirmed with ASan). -/

def pngBadHdr : PngHdr := ⟨16, 1, 8, 1, 0, 0⟩

example : pngValidHdr pngBadHdr = true ∧ pngRowbytes pngBadHdr = 16 ∧ pngRowBuf pngBadHdr = 3 ∧
    pngAccept pngBadHdr = false := by decide
example : pngAccept ⟨64, 1, 8, 1, 0, 0⟩ = false := by decide
example : pngAccept ⟨16, 1, 2, 1, 3, 0⟩ = false := by decide
example : pngAccept ⟨16, 1, 16, 1, 0, 0⟩ = false := by decide

/-- why the check is needed: an 8-bit row at least 2 pixels wide does not fit the buffer … -/
theorem png_overflow_of_depth8 (h : PngHdr) (hd : h.bitDepth = 8) (hc : h.channels = 1) (hw : 2 ≤ h.width) :
    pngRowBuf h < pngRowbytes h := by
  unfold pngRowbytes pngRowBuf
  rw [hd, hc]; omega

/-- … and every header with another bit depth or channel count is rejected. -/
theorem png_reject_of_not_1bpp (h : PngHdr) (hne : h.bitDepth ≠ 1 ∨ h.channels ≠ 1) : pngAccept h = false := by
  cases ha : pngAccept h with
  | false => rfl
  | true =>
    obtain ⟨_, _, hd, hc⟩ := (pngAccept_iff h).mp ha
    rcases hne with h1 | h1
    · exact absurd hd h1
    · exact absurd hc h1

end M4ri.Io
