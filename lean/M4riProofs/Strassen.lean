/-
  Property C01, Strassen–Winograd routes of strassen.c on values (`BMat`):
    `_mzd_mul_even`, `_mzd_sqr_even`, `mzd_mul`, `_mzd_addmul_even`, `_mzd_addsqr_even`, `mzd_addmul`
  compute `A·B` (resp. `C + A·B`) for EVERY recursion fuel, EVERY cutoff, all well-formed operands of
  matching dimensions and any prior content of `C` — given that the base case `m4rm … 0 clear` does
  (hypotheses `M4rmMul`, `M4rmAddmul`, see StrassenBlocks.lean).

  Structure: StrassenValues (entries of `sub`/`paste`/`addM`/`mul`), StrassenAlg (the four Bodrato
  schedules as matrix identities over `ZMod 2`), StrassenBlocks (quadrants + strips assemble to the product),
  this file (induction on the fuel over all routes).
-/
import M4riProofs.StrassenAlg
import M4riProofs.StrassenBlocks
namespace M4ri
namespace BMat

/-! ### the multiplying routes -/

/-- all multiplying routes are correct at this fuel (for every cutoff) -/
def MulAll (fuel : Nat) : Prop :=
  (∀ cutoff, MulOK (fun X Y Z => mulEven fuel X Y Z cutoff)) ∧
  (∀ cutoff, SqrOK (fun X Y => sqrEven fuel X Y cutoff)) ∧
  (∀ cutoff, MulOK (fun X Y Z => mulTop fuel X Y Z cutoff false)) ∧
  (∀ cutoff, SqrOK (fun X Y => mulTop fuel X Y Y cutoff true))

theorem mulEven_step (hmul : M4rmMul) (haddmul : M4rmAddmul) (fuel cutoff : Nat)
    (ihF : MulOK (fun X Y Z => mulEven fuel X Y Z cutoff))
    (ihT : MulOK (fun X Y Z => mulTop fuel X Y Z cutoff false)) :
    MulOK (fun X Y Z => mulEven (fuel + 1) X Y Z cutoff) := by
  intro r kk c C A B hC hA hB
  show mulEven (fuel + 1) C A B cutoff = A.mul B
  rw [mulEven.eq_1]
  by_cases h0 : C.nrows = 0 ∨ C.ncols = 0
  · rw [if_pos h0]
    exact hC.eq_of_empty (hA.mul hB) (by rw [hC.nr, hC.nc] at h0; exact h0)
  rw [if_neg h0]
  dsimp -zeta only
  extract_lets +onlyGivenNames m k n
  by_cases hcl : closer m cutoff = true ∨ closer k cutoff = true ∨ closer n cutoff = true
  · rw [if_pos hcl]; exact hmul.shaped hC hA hB
  rw [if_neg hcl]
  extract_lets mult mmm kkk nnn A11 A12 A21 A22 B11 B12 B21 B22 C11 C12 C21 C22 Wkn1 Wmk1 C21a Wmk2 Wkn2
    C22a Wkn3 Wmk3 C11a Wmk4 C12a C12b W C11b C12c C11c Wkn4 C21b C21c C22b C11d C11e C0 nnn2 C1 mmm2 C2
    kkk2 Cb
  have hm2 : 2 * mmm ≤ r := (two_halfSplit_le m mult).trans (Nat.le_of_eq hA.nr)
  have hk2 : 2 * kkk ≤ kk := (two_halfSplit_le k mult).trans (Nat.le_of_eq hA.nc)
  have hn2 : 2 * nnn ≤ c := (two_halfSplit_le n mult).trans (Nat.le_of_eq hB.nc)
  have hA11 : Shaped A11 mmm kkk := (hA.sub 0 0 mmm kkk (by omega)).cast (by omega) (by omega)
  have hA12 : Shaped A12 mmm kkk := (hA.sub 0 kkk mmm (2 * kkk) (by omega)).cast (by omega) (by omega)
  have hA21 : Shaped A21 mmm kkk := (hA.sub mmm 0 (2 * mmm) kkk (by omega)).cast (by omega) (by omega)
  have hA22 : Shaped A22 mmm kkk := (hA.sub mmm kkk (2 * mmm) (2 * kkk) (by omega)).cast (by omega) (by omega)
  have hB11 : Shaped B11 kkk nnn := (hB.sub 0 0 kkk nnn (by omega)).cast (by omega) (by omega)
  have hB12 : Shaped B12 kkk nnn := (hB.sub 0 nnn kkk (2 * nnn) (by omega)).cast (by omega) (by omega)
  have hB21 : Shaped B21 kkk nnn := (hB.sub kkk 0 (2 * kkk) nnn (by omega)).cast (by omega) (by omega)
  have hB22 : Shaped B22 kkk nnn := (hB.sub kkk nnn (2 * kkk) (2 * nnn) (by omega)).cast (by omega) (by omega)
  have hC11 : Shaped C11 mmm nnn := (hC.sub 0 0 mmm nnn (by omega)).cast (by omega) (by omega)
  have hC12 : Shaped C12 mmm nnn := (hC.sub 0 nnn mmm (2 * nnn) (by omega)).cast (by omega) (by omega)
  have hC21 : Shaped C21 mmm nnn := (hC.sub mmm 0 (2 * mmm) nnn (by omega)).cast (by omega) (by omega)
  have hC22 : Shaped C22 mmm nnn := (hC.sub mmm nnn (2 * mmm) (2 * nnn) (by omega)).cast (by omega) (by omega)
  have e := sched_mul (fun X Y Z => mulEven fuel X Y Z cutoff) (fun X Y Z => mulTop fuel X Y Z cutoff false)
    ihF ihT hA11 hA12 hA21 hA22 hB11 hB12 hB21 hB22 hC11 hC12 hC21 hC22
  have e11 : C11e = blockProd A B 0 mmm 0 nnn kkk := e.1
  have e12 : C12c = blockProd A B 0 mmm nnn (2 * nnn) kkk := e.2.1
  have e21 : C21c = blockProd A B mmm (2 * mmm) 0 nnn kkk := e.2.2.1
  have e22 : C22b = blockProd A B mmm (2 * mmm) nnn (2 * nnn) kkk := e.2.2.2
  have key : stripsMul (paste4 C C11e C12c C21c C22b mmm nnn) A B (2 * mmm) (2 * kkk) (2 * nnn) = A.mul B := by
    rw [e11, e12, e21, e22]
    exact assemble_mul hmul haddmul hA hB hC hm2 hk2 hn2
  exact key

theorem sqrEven_step (hmul : M4rmMul) (haddmul : M4rmAddmul) (fuel cutoff : Nat)
    (ihS : SqrOK (fun X Y => sqrEven fuel X Y cutoff))
    (ihF : MulOK (fun X Y Z => mulEven fuel X Y Z cutoff))
    (ihT : MulOK (fun X Y Z => mulTop fuel X Y Z cutoff false)) :
    SqrOK (fun X Y => sqrEven (fuel + 1) X Y cutoff) := by
  intro r C A hC hA
  show sqrEven (fuel + 1) C A cutoff = A.mul A
  rw [sqrEven.eq_2]
  by_cases hcl : closer A.nrows cutoff = true
  · rw [if_pos hcl]; exact hmul.shaped hC hA hA
  rw [if_neg hcl]
  extract_lets mult mmm A11 A12 A21 A22 C11 C12 C21 C22 Wkn1 C21a Wkn2 C22a Wkn3 C11a Wkn4 C12a C12b W
    C11b C12c C11c C21b C21c C22b C11d C11e C0 mmm2 C1 C2 Cb
  have hcc : A.ncols = A.nrows := by rw [hA.nc, hA.nr]
  have hm2 : 2 * mmm ≤ r := (two_halfSplit_le A.nrows mult).trans (Nat.le_of_eq hA.nr)
  have hA11 : Shaped A11 mmm mmm := (hA.sub 0 0 mmm mmm (by omega)).cast (by omega) (by omega)
  have hA12 : Shaped A12 mmm mmm := (hA.sub 0 mmm mmm (2 * mmm) (by omega)).cast (by omega) (by omega)
  have hA21 : Shaped A21 mmm mmm := (hA.sub mmm 0 (2 * mmm) mmm (by omega)).cast (by omega) (by omega)
  have hA22 : Shaped A22 mmm mmm := (hA.sub mmm mmm (2 * mmm) (2 * mmm) (by omega)).cast (by omega) (by omega)
  have hC11 : Shaped C11 mmm mmm := (hC.sub 0 0 mmm mmm (by omega)).cast (by omega) (by omega)
  have hC12 : Shaped C12 mmm mmm := (hC.sub 0 mmm mmm (2 * mmm) (by omega)).cast (by omega) (by omega)
  have hC21 : Shaped C21 mmm mmm := (hC.sub mmm 0 (2 * mmm) mmm (by omega)).cast (by omega) (by omega)
  have hC22 : Shaped C22 mmm mmm := (hC.sub mmm mmm (2 * mmm) (2 * mmm) (by omega)).cast (by omega) (by omega)
  have e := sched_sqr (fun X Y => sqrEven fuel X Y cutoff) (fun X Y Z => mulEven fuel X Y Z cutoff)
    (fun X Y Z => mulTop fuel X Y Z cutoff false) ihS ihF ihT hA11 hA12 hA21 hA22 hC11 hC12 hC21 hC22
  have e11 : C11e = blockProd A A 0 mmm 0 mmm mmm := e.1
  have e12 : C12c = blockProd A A 0 mmm mmm (2 * mmm) mmm := e.2.1
  have e21 : C21c = blockProd A A mmm (2 * mmm) 0 mmm mmm := e.2.2.1
  have e22 : C22b = blockProd A A mmm (2 * mmm) mmm (2 * mmm) mmm := e.2.2.2
  have key : stripsMul (paste4 C C11e C12c C21c C22b mmm mmm) A A (2 * mmm) (2 * mmm) (2 * mmm) = A.mul A := by
    rw [e11, e12, e21, e22]
    exact assemble_mul hmul haddmul hA hA hC hm2 hm2 hm2
  unfold stripsMul stripK mulStripB mulStripR at key
  rw [hcc] at key
  by_cases hgt : A.nrows > 2 * mmm
  · rw [if_pos hgt]
    simp only [if_pos hgt] at key
    exact key
  · rw [if_neg hgt]
    simp only [if_neg hgt] at key
    exact key

theorem mulAll_zero (hmul : M4rmMul) : MulAll 0 := by
  refine ⟨fun cutoff r k c C A B hC hA hB => ?_, fun cutoff r C A hC hA => ?_,
    fun cutoff r k c C A B hC hA hB => ?_, fun cutoff r C A hC hA => ?_⟩
  · show mulEven 0 C A B cutoff = A.mul B
    rw [mulEven.eq_1]
    by_cases h0 : C.nrows = 0 ∨ C.ncols = 0
    · rw [if_pos h0]
      exact hC.eq_of_empty (hA.mul hB) (by rw [hC.nr, hC.nc] at h0; exact h0)
    · rw [if_neg h0]; exact hmul.shaped hC hA hB
  · show sqrEven 0 C A cutoff = A.mul A
    rw [sqrEven.eq_1]; exact hmul.shaped hC hA hA
  · show mulTop 0 C A B cutoff false = A.mul B
    rw [mulTop.eq_1]; exact hmul.shaped hC hA hB
  · show mulTop 0 C A A cutoff true = A.mul A
    rw [mulTop.eq_1]; exact hmul.shaped hC hA hA

theorem mulAll_succ (hmul : M4rmMul) (haddmul : M4rmAddmul) (fuel : Nat) (ih : MulAll fuel) :
    MulAll (fuel + 1) := by
  obtain ⟨ihF, ihS, ihT, _⟩ := ih
  refine ⟨fun cutoff => mulEven_step hmul haddmul fuel cutoff (ihF cutoff) (ihT cutoff),
    fun cutoff => sqrEven_step hmul haddmul fuel cutoff (ihS cutoff) (ihF cutoff) (ihT cutoff),
    fun cutoff r k c C A B hC hA hB => ?_, fun cutoff r C A hC hA => ?_⟩
  · show mulTop (fuel + 1) C A B cutoff false = A.mul B
    rw [mulTop.eq_2]
    exact ihF _ hC hA hB
  · show mulTop (fuel + 1) C A A cutoff true = A.mul A
    rw [mulTop.eq_2]
    exact ihS _ hC hA

/-- every multiplying route is correct for every fuel -/
theorem mulAll (hmul : M4rmMul) (haddmul : M4rmAddmul) (fuel : Nat) : MulAll fuel := by
  induction fuel with
  | zero => exact mulAll_zero hmul
  | succ fuel ih => exact mulAll_succ hmul haddmul fuel ih

/-! ### the accumulating routes -/

theorem addmulEven_step (haddmul : M4rmAddmul) (fuel cutoff : Nat)
    (ihF : MulOK (fun X Y Z => mulEven fuel X Y Z cutoff))
    (ihG : AddmulOK (fun X Y Z => addmulEven fuel X Y Z cutoff)) :
    AddmulOK (fun X Y Z => addmulEven (fuel + 1) X Y Z cutoff) := by
  intro r kk c C A B hC hA hB
  show addmulEven (fuel + 1) C A B cutoff = C.add (A.mul B)
  rw [addmulEven.eq_1]
  by_cases h0 : C.nrows = 0 ∨ C.ncols = 0
  · rw [if_pos h0]
    exact hC.eq_of_empty (hC.add (hA.mul hB)) (by rw [hC.nr, hC.nc] at h0; exact h0)
  rw [if_neg h0]
  dsimp -zeta only
  extract_lets +onlyGivenNames m k n
  by_cases hcl : closer m cutoff = true ∨ closer k cutoff = true ∨ closer n cutoff = true
  · rw [if_pos hcl]; exact haddmul.shaped hC hA hB
  rw [if_neg hcl]
  extract_lets mult mmm kkk nnn A11 A12 A21 A22 B11 B12 B21 B22 C11 C12 C21 C22 S1 T1 U1 D22a D12a U2 D11a
    D11b S2 T2 U3 D12b S3 D12c T3 D21a S4 T4 U4 D21b D22b C0
  have hm2 : 2 * mmm ≤ r := (two_halfSplit_le m mult).trans (Nat.le_of_eq hA.nr)
  have hk2 : 2 * kkk ≤ kk := (two_halfSplit_le k mult).trans (Nat.le_of_eq hA.nc)
  have hn2 : 2 * nnn ≤ c := (two_halfSplit_le n mult).trans (Nat.le_of_eq hB.nc)
  have hA11 : Shaped A11 mmm kkk := (hA.sub 0 0 mmm kkk (by omega)).cast (by omega) (by omega)
  have hA12 : Shaped A12 mmm kkk := (hA.sub 0 kkk mmm (2 * kkk) (by omega)).cast (by omega) (by omega)
  have hA21 : Shaped A21 mmm kkk := (hA.sub mmm 0 (2 * mmm) kkk (by omega)).cast (by omega) (by omega)
  have hA22 : Shaped A22 mmm kkk := (hA.sub mmm kkk (2 * mmm) (2 * kkk) (by omega)).cast (by omega) (by omega)
  have hB11 : Shaped B11 kkk nnn := (hB.sub 0 0 kkk nnn (by omega)).cast (by omega) (by omega)
  have hB12 : Shaped B12 kkk nnn := (hB.sub 0 nnn kkk (2 * nnn) (by omega)).cast (by omega) (by omega)
  have hB21 : Shaped B21 kkk nnn := (hB.sub kkk 0 (2 * kkk) nnn (by omega)).cast (by omega) (by omega)
  have hB22 : Shaped B22 kkk nnn := (hB.sub kkk nnn (2 * kkk) (2 * nnn) (by omega)).cast (by omega) (by omega)
  have hC11 : Shaped C11 mmm nnn := (hC.sub 0 0 mmm nnn (by omega)).cast (by omega) (by omega)
  have hC12 : Shaped C12 mmm nnn := (hC.sub 0 nnn mmm (2 * nnn) (by omega)).cast (by omega) (by omega)
  have hC21 : Shaped C21 mmm nnn := (hC.sub mmm 0 (2 * mmm) nnn (by omega)).cast (by omega) (by omega)
  have hC22 : Shaped C22 mmm nnn := (hC.sub mmm nnn (2 * mmm) (2 * nnn) (by omega)).cast (by omega) (by omega)
  have e := sched_addmul (fun X Y Z => mulEven fuel X Y Z cutoff) (fun X Y Z => addmulEven fuel X Y Z cutoff)
    ihF ihG hA11 hA12 hA21 hA22 hB11 hB12 hB21 hB22 hC11 hC12 hC21 hC22
  have e11 : D11b = addM C11 (blockProd A B 0 mmm 0 nnn kkk) := e.1
  have e12 : D12c = addM C12 (blockProd A B 0 mmm nnn (2 * nnn) kkk) := e.2.1
  have e21 : D21b = addM C21 (blockProd A B mmm (2 * mmm) 0 nnn kkk) := e.2.2.1
  have e22 : D22b = addM C22 (blockProd A B mmm (2 * mmm) nnn (2 * nnn) kkk) := e.2.2.2
  have key : stripsAddmul (paste4 C D11b D12c D21b D22b mmm nnn) A B (2 * mmm) (2 * kkk) (2 * nnn) =
      C.add (A.mul B) := by
    rw [e11, e12, e21, e22]
    exact assemble_addmul haddmul hA hB hC hm2 hk2 hn2
  exact key

theorem addsqrEven_step (haddmul : M4rmAddmul) (fuel cutoff : Nat)
    (ihS : SqrOK (fun X Y => sqrEven fuel X Y cutoff))
    (ihF : MulOK (fun X Y Z => mulEven fuel X Y Z cutoff))
    (ihH : AddsqrOK (fun X Y => addsqrEven fuel X Y cutoff))
    (ihG : AddmulOK (fun X Y Z => addmulEven fuel X Y Z cutoff)) :
    AddsqrOK (fun X Y => addsqrEven (fuel + 1) X Y cutoff) := by
  intro r C A hC hA
  show addsqrEven (fuel + 1) C A cutoff = C.add (A.mul A)
  rw [addsqrEven.eq_1]
  by_cases h0 : C.nrows = 0
  · rw [if_pos h0]
    exact hC.eq_of_empty (hC.add (hA.mul hA)) (by rw [hC.nr] at h0; exact Or.inl h0)
  rw [if_neg h0]
  dsimp -zeta only
  extract_lets +onlyGivenNames m
  by_cases hcl : closer m cutoff = true
  · rw [if_pos hcl]
    by_cases h1 : C.ncols = 0
    · rw [if_pos h1]
      exact hC.eq_of_empty (hC.add (hA.mul hA)) (by rw [hC.nc] at h1; exact Or.inr h1)
    · rw [if_neg h1]; exact haddmul.shaped hC hA hA
  rw [if_neg hcl]
  extract_lets mult mmm A11 A12 A21 A22 C11 C12 C21 C22 S1 U1 D22a D12a U2 D11a D11b S2 U3 D12b S3 D12c
    D21a S4 U4 D21b D22b C0
  have hcc : A.ncols = A.nrows := by rw [hA.nc, hA.nr]
  have hm2 : 2 * mmm ≤ r := (two_halfSplit_le m mult).trans (Nat.le_of_eq hA.nr)
  have hA11 : Shaped A11 mmm mmm := (hA.sub 0 0 mmm mmm (by omega)).cast (by omega) (by omega)
  have hA12 : Shaped A12 mmm mmm := (hA.sub 0 mmm mmm (2 * mmm) (by omega)).cast (by omega) (by omega)
  have hA21 : Shaped A21 mmm mmm := (hA.sub mmm 0 (2 * mmm) mmm (by omega)).cast (by omega) (by omega)
  have hA22 : Shaped A22 mmm mmm := (hA.sub mmm mmm (2 * mmm) (2 * mmm) (by omega)).cast (by omega) (by omega)
  have hC11 : Shaped C11 mmm mmm := (hC.sub 0 0 mmm mmm (by omega)).cast (by omega) (by omega)
  have hC12 : Shaped C12 mmm mmm := (hC.sub 0 mmm mmm (2 * mmm) (by omega)).cast (by omega) (by omega)
  have hC21 : Shaped C21 mmm mmm := (hC.sub mmm 0 (2 * mmm) mmm (by omega)).cast (by omega) (by omega)
  have hC22 : Shaped C22 mmm mmm := (hC.sub mmm mmm (2 * mmm) (2 * mmm) (by omega)).cast (by omega) (by omega)
  have e := sched_addsqr (fun X Y => sqrEven fuel X Y cutoff) (fun X Y Z => mulEven fuel X Y Z cutoff)
    (fun X Y => addsqrEven fuel X Y cutoff) (fun X Y Z => addmulEven fuel X Y Z cutoff)
    ihS ihF ihH ihG hA11 hA12 hA21 hA22 hC11 hC12 hC21 hC22
  have e11 : D11b = addM C11 (blockProd A A 0 mmm 0 mmm mmm) := e.1
  have e12 : D12c = addM C12 (blockProd A A 0 mmm mmm (2 * mmm) mmm) := e.2.1
  have e21 : D21b = addM C21 (blockProd A A mmm (2 * mmm) 0 mmm mmm) := e.2.2.1
  have e22 : D22b = addM C22 (blockProd A A mmm (2 * mmm) mmm (2 * mmm) mmm) := e.2.2.2
  have key : stripsAddmul (paste4 C D11b D12c D21b D22b mmm mmm) A A (2 * mmm) (2 * mmm) (2 * mmm) =
      C.add (A.mul A) := by
    rw [e11, e12, e21, e22]
    exact assemble_addmul haddmul hA hA hC hm2 hm2 hm2
  unfold stripsAddmul stripK addStripB addStripR at key
  rw [hcc] at key
  by_cases hgt : A.nrows > 2 * mmm
  · rw [if_pos hgt]
    simp only [if_pos hgt] at key
    exact key
  · rw [if_neg hgt]
    simp only [if_neg hgt] at key
    exact key

/-- all accumulating routes are correct at this fuel (for every cutoff) -/
def AddAll (fuel : Nat) : Prop :=
  (∀ cutoff, AddmulOK (fun X Y Z => addmulEven fuel X Y Z cutoff)) ∧
  (∀ cutoff, AddsqrOK (fun X Y => addsqrEven fuel X Y cutoff))

theorem addAll_zero (haddmul : M4rmAddmul) : AddAll 0 := by
  refine ⟨fun cutoff r k c C A B hC hA hB => ?_, fun cutoff r C A hC hA => ?_⟩
  · show addmulEven 0 C A B cutoff = C.add (A.mul B)
    rw [addmulEven.eq_1]
    by_cases h0 : C.nrows = 0 ∨ C.ncols = 0
    · rw [if_pos h0]
      exact hC.eq_of_empty (hC.add (hA.mul hB)) (by rw [hC.nr, hC.nc] at h0; exact h0)
    · rw [if_neg h0]; exact haddmul.shaped hC hA hB
  · show addsqrEven 0 C A cutoff = C.add (A.mul A)
    rw [addsqrEven.eq_1]
    by_cases h0 : C.nrows = 0
    · rw [if_pos h0]
      exact hC.eq_of_empty (hC.add (hA.mul hA)) (by rw [hC.nr] at h0; exact Or.inl h0)
    · rw [if_neg h0]; exact haddmul.shaped hC hA hA

/-- every accumulating route is correct for every fuel -/
theorem addAll (hmul : M4rmMul) (haddmul : M4rmAddmul) (fuel : Nat) : AddAll fuel := by
  induction fuel with
  | zero => exact addAll_zero haddmul
  | succ fuel ih =>
    obtain ⟨ihF, ihS, _, _⟩ := mulAll hmul haddmul fuel
    obtain ⟨ihG, ihH⟩ := ih
    exact ⟨fun cutoff => addmulEven_step haddmul fuel cutoff (ihF cutoff) (ihG cutoff),
      fun cutoff => addsqrEven_step haddmul fuel cutoff (ihS cutoff) (ihF cutoff) (ihH cutoff) (ihG cutoff)⟩

/-- adding a product with an empty dimension changes nothing -/
theorem Shaped.add_mul_degenerate {C A B : BMat} {r k c : Nat} (hC : Shaped C r c) (hA : Shaped A r k)
    (hB : Shaped B k c) (h : r = 0 ∨ k = 0 ∨ c = 0) : C = C.add (A.mul B) := by
  apply hC.ext (hC.add (hA.mul hB))
  intro i j hi hj
  rw [hC.get_add (hA.mul hB), hA.get_mul_S]
  have hk : k = 0 := by omega
  subst hk
  simp

/-! ### main theorems (C01, Strassen–Winograd routes)

For EVERY `fuel` and EVERY `cutoff`, all well-formed operands of matching dimensions, any prior `C`.
The only hypotheses besides the documented preconditions are the two base-case facts about
`m4rm … 0 clear` (`M4rmMul`, `M4rmAddmul`). -/

/-- `_mzd_mul_even(C, A, B, cutoff)` returns `A·B` -/
theorem mulEven_eq_mul (hmul : M4rmMul) (haddmul : M4rmAddmul) (fuel cutoff : Nat) (C A B : BMat)
    (hA : A.WF) (hB : B.WF) (hC : C.WF) (hk : A.ncols = B.nrows) (hr : C.nrows = A.nrows)
    (hc : C.ncols = B.ncols) : mulEven fuel C A B cutoff = A.mul B :=
  (mulAll hmul haddmul fuel).1 cutoff ⟨hC, hr, hc⟩ ⟨hA, rfl, rfl⟩ ⟨hB, hk.symm, rfl⟩

/-- `_mzd_sqr_even(C, A, cutoff)` returns `A·A` -/
theorem sqrEven_eq_mul (hmul : M4rmMul) (haddmul : M4rmAddmul) (fuel cutoff : Nat) (C A : BMat)
    (hA : A.WF) (hC : C.WF) (hk : A.ncols = A.nrows) (hr : C.nrows = A.nrows) (hc : C.ncols = A.ncols) :
    sqrEven fuel C A cutoff = A.mul A :=
  (mulAll hmul haddmul fuel).2.1 cutoff ⟨hC, hr, hc.trans hk⟩ ⟨hA, rfl, hk⟩

/-- `mzd_mul(C, A, B, cutoff)` (after its dimension checks) returns `A·B`; `same` says that the C caller
    passed the same object for both factors -/
theorem mulTop_eq_mul (hmul : M4rmMul) (haddmul : M4rmAddmul) (fuel cutoff : Nat) (C A B : BMat) (same : Bool)
    (hA : A.WF) (hB : B.WF) (hC : C.WF) (hk : A.ncols = B.nrows) (hr : C.nrows = A.nrows)
    (hc : C.ncols = B.ncols) (hs : same = true → B = A) : mulTop fuel C A B cutoff same = A.mul B := by
  cases same with
  | false => exact (mulAll hmul haddmul fuel).2.2.1 cutoff ⟨hC, hr, hc⟩ ⟨hA, rfl, rfl⟩ ⟨hB, hk.symm, rfl⟩
  | true =>
    have := hs rfl
    subst this
    exact (mulAll hmul haddmul fuel).2.2.2 cutoff ⟨hC, hr, hc.trans hk⟩ ⟨hA, rfl, hk⟩

/-- `_mzd_addmul_even(C, A, B, cutoff)` returns `C + A·B` -/
theorem addmulEven_eq_add_mul (hmul : M4rmMul) (haddmul : M4rmAddmul) (fuel cutoff : Nat) (C A B : BMat)
    (hA : A.WF) (hB : B.WF) (hC : C.WF) (hk : A.ncols = B.nrows) (hr : C.nrows = A.nrows)
    (hc : C.ncols = B.ncols) : addmulEven fuel C A B cutoff = C.add (A.mul B) :=
  (addAll hmul haddmul fuel).1 cutoff ⟨hC, hr, hc⟩ ⟨hA, rfl, rfl⟩ ⟨hB, hk.symm, rfl⟩

/-- `_mzd_addsqr_even(C, A, cutoff)` returns `C + A·A` -/
theorem addsqrEven_eq_add_mul (hmul : M4rmMul) (haddmul : M4rmAddmul) (fuel cutoff : Nat) (C A : BMat)
    (hA : A.WF) (hC : C.WF) (hk : A.ncols = A.nrows) (hr : C.nrows = A.nrows) (hc : C.ncols = A.ncols) :
    addsqrEven fuel C A cutoff = C.add (A.mul A) :=
  (addAll hmul haddmul fuel).2 cutoff ⟨hC, hr, hc.trans hk⟩ ⟨hA, rfl, hk⟩

/-- `mzd_addmul(C, A, B, cutoff)` (after its dimension checks) returns `C + A·B` -/
theorem addmulTop_eq_add_mul (hmul : M4rmMul) (haddmul : M4rmAddmul) (fuel cutoff : Nat) (C A B : BMat)
    (same : Bool) (hA : A.WF) (hB : B.WF) (hC : C.WF) (hk : A.ncols = B.nrows) (hr : C.nrows = A.nrows)
    (hc : C.ncols = B.ncols) (hs : same = true → B = A) :
    addmulTop fuel C A B cutoff same = C.add (A.mul B) := by
  have sC : Shaped C A.nrows B.ncols := ⟨hC, hr, hc⟩
  have sA : Shaped A A.nrows A.ncols := ⟨hA, rfl, rfl⟩
  have sB : Shaped B A.ncols B.ncols := ⟨hB, hk.symm, rfl⟩
  rw [addmulTop.eq_1]
  by_cases h0 : A.nrows = 0 ∨ A.ncols = 0 ∨ B.ncols = 0
  · rw [if_pos h0]; exact sC.add_mul_degenerate sA sB h0
  rw [if_neg h0]
  cases same with
  | false => exact (addAll hmul haddmul fuel).1 _ sC sA sB
  | true =>
    have := hs rfl
    subst this
    exact (addAll hmul haddmul fuel).2 _ ⟨hC, hr, hc.trans hk⟩ ⟨hA, rfl, hk⟩

/-! ### non-vacuity and the literal form of the base-case hypotheses -/

/-- the two base-case hypotheses, spelled out -/
example : M4rmMul = (∀ C A B : BMat, A.WF → B.WF → C.WF → A.ncols = B.nrows → C.nrows = A.nrows →
    C.ncols = B.ncols → BMat.m4rm C A B 0 true = A.mul B) := rfl
example : M4rmAddmul = (∀ C A B : BMat, A.WF → B.WF → C.WF → A.ncols = B.nrows → C.nrows = A.nrows →
    C.ncols = B.ncols → BMat.m4rm C A B 0 false = C.add (A.mul B)) := rfl

/-- non-vacuity of the operand hypotheses of `mulEven_eq_mul`, `mulTop_eq_mul`, `addmulEven_eq_add_mul`,
    `addmulTop_eq_add_mul` (`same = false`): a 130×150 by 150×200 product into a 130×200 destination
    (large enough for one Strassen level at cutoff 64, with all three remainder strips) -/
example : ∃ A B C : BMat, A.WF ∧ B.WF ∧ C.WF ∧ A.ncols = B.nrows ∧ C.nrows = A.nrows ∧ C.ncols = B.ncols ∧
    ¬ (closer A.nrows 64 = true ∨ closer A.ncols 64 = true ∨ closer B.ncols 64 = true) :=
  ⟨zero 130 150, zero 150 200, zero 130 200, WF_zero _ _, WF_zero _ _, WF_zero _ _, rfl, rfl, rfl, by decide⟩

/-- non-vacuity of the operand hypotheses of `sqrEven_eq_mul`, `addsqrEven_eq_add_mul` and of the
    `same = true` case of `mulTop_eq_mul` / `addmulTop_eq_add_mul`: a square factor, non-zero prior `C` -/
example : ∃ A C : BMat, A.WF ∧ C.WF ∧ A.ncols = A.nrows ∧ C.nrows = A.nrows ∧ C.ncols = A.ncols ∧
    (true = true → A = A) ∧ C.get 0 0 = true :=
  ⟨identity 3, identity 3, WF_identity 3, WF_identity 3, rfl, rfl, rfl, fun _ => rfl, by rw [get_identity]; decide⟩

end BMat
end M4ri
