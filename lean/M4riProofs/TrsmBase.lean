/-
  C04 / C05, the BASE CASES of the triangular routines and the complete routines (models: `M4ri/TrsmBase.lean`,
  validated bit for bit against the C code, see the scratch README of task PB25).

  §0  helpers; `selXor` (selective XOR of rows); `St` = state of an in-place substitution
      (`St.step` one conditional row addition, `St.tables` one Four-Russians pass through `makeTables`/`applyTables`)
  §1  lower-left:  `lowerLeftRussian_eq`, `lowerLeftRussianK_eq` (`k = 0`), `lowerLeftSubmatrix_all`,
                   `lowerLeftKernel_eq` (the `mb ≤ 64` kernel of `_mzd_trsm_lower_left`)
  §2  upper-left:  `upperLeftRussian_eq`, `upperLeftRussianK_eq`, `upperLeftSubmatrix_all`, `upperLeftKernel_eq`
  §3  right:       `upperRightBase_eq`, `lowerRightBase_eq` (pack / `m4ri_parity64` / unpack in giant steps of 64
                   rows = a row-wise map: `dotStep_eq_map`)
  §4  complete routines (kernel + Four Russians + recursion): `lowerLeftFull_eq`, `upperLeftFull_eq`,
                   `lowerRightFull_eq`
  §5  inversion:   `blockStep` (the algebra of eliminating a block of `k` columns at once), `AtLevel`/`TS` (state),
                   `ttT_lookup` (a PLE-style table row), `pleApply_seq` (`bits ^= B[x]` = sequential application),
                   `trtriRussian_get` (entry by entry, nothing assumed below the diagonal), `trtriRussian_eq`,
                   `trtriRussianK_eq`
  §6  `upperRight_trtri_full`: the mutually recursive complete `_mzd_trsm_upper_right` / `mzd_trtri_upper`
  §7  user statements: `upperRightFull_eq_partial` (+ `upperRightFull_eq_full_false`: the hypothesis on the stored
      diagonal is needed beyond 64 columns, concrete 65-column input), `trtriFull_eq`, `trtriRussian_reads_diagonal`,
      `…_WF`, `…_spec`, the entry points `trsm…C_eq`, non-vacuity examples.
  Preconditions are the documented ones: `B` well-formed, the triangular matrix has as many rows as the system
  needs (and is square where the C wrapper checks it); nothing about the unused triangle; nothing about the stored
  diagonal for the four left/right solves up to 64 columns, for the left solves of any size and for the lower-right
  solve of any size.  `mzd_trtri_upper(_russian)` needs the stored diagonal to be one (an invertible triangular
  matrix), and so does `_mzd_trsm_upper_right` beyond 64 columns.
-/
import M4riProofs.TrsmRec
import M4riProofs.M4riElim
import M4ri.TrsmBase
set_option linter.unusedSimpArgs false
set_option linter.unusedVariables false
set_option linter.unusedSectionVars false
namespace M4ri
namespace BMat
namespace TB

/-! ## 0. helpers -/

/-- two matrices with the same header and the same rows are equal -/
theorem ext_rows {A B : BMat} (hr : A.nrows = B.nrows) (hc : A.ncols = B.ncols) (hs : A.rows.size = B.rows.size)
    (h : ∀ i, i < A.rows.size → A.row i = B.row i) : A = B := by
  obtain ⟨ar, ac, arows⟩ := A
  obtain ⟨br, bc, brows⟩ := B
  simp only at hr hc hs
  subst hr hc
  congr 1
  apply Array.ext hs
  intro i h1 h2
  have := h i h1
  simpa [row, Array.getD, h1, h2] using this

@[simp] theorem xorRow_nrows (B : BMat) (d s : Nat) : (xorRow B d s).nrows = B.nrows := rfl
@[simp] theorem xorRow_ncols (B : BMat) (d s : Nat) : (xorRow B d s).ncols = B.ncols := rfl
@[simp] theorem xorRow_size (B : BMat) (d s : Nat) : (xorRow B d s).rows.size = B.rows.size := by
  simp [xorRow]

theorem xorRow_row (B : BMat) (d s k : Nat) :
    (xorRow B d s).row k = if k = d ∧ d < B.rows.size then B.row d ^^^ B.row s else B.row k := by
  unfold xorRow; rw [setRow_row]

theorem foldl_nrows {α : Type} (f : BMat → α → BMat) (hf : ∀ X a, (f X a).nrows = X.nrows) :
    ∀ (l : List α) (X : BMat), (l.foldl f X).nrows = X.nrows := by
  intro l
  induction l with
  | nil => intro X; rfl
  | cons a l ih => intro X; rw [List.foldl_cons, ih, hf]

@[simp] theorem lowerLeftSubmatrix_nrows (L B : BMat) (r k : Nat) : (lowerLeftSubmatrix L B r k).nrows = B.nrows := by
  unfold lowerLeftSubmatrix
  apply foldl_nrows
  intro X a
  apply foldl_nrows
  intro Y b
  split <;> rfl

@[simp] theorem upperLeftSubmatrix_nrows (U B : BMat) (r k : Nat) : (upperLeftSubmatrix U B r k).nrows = B.nrows := by
  unfold upperLeftSubmatrix
  apply foldl_nrows
  intro X a
  apply foldl_nrows
  intro Y b
  split <;> rfl

theorem sum_replicate_nat (n k : Nat) : (List.replicate n k).sum = n * k := by
  induction n with
  | zero => simp
  | succ n ih => rw [List.replicate_succ, List.sum_cons, ih, Nat.succ_mul, Nat.add_comm]

/-! ### selective XOR of rows -/

/-- `v` plus the rows `j < n` of `X` with `P j` and `T[i,j]` -/
def selXor (T X : BMat) (i n : Nat) (P : Nat → Bool) (v : Nat) : Nat :=
  (List.range n).foldl (fun a j => if (P j && T.get i j) = true then a ^^^ X.row j else a) v

theorem selXor_succ (T X : BMat) (i n : Nat) (P : Nat → Bool) (v : Nat) :
    selXor T X i (n + 1) P v =
      if (P n && T.get i n) = true then selXor T X i n P v ^^^ X.row n else selXor T X i n P v := by
  unfold selXor; rw [List.range_succ, List.foldl_append]; rfl

theorem selXor_congr (T X : BMat) (i n : Nat) (P Q : Nat → Bool) (v : Nat) (h : ∀ j, j < n → P j = Q j) :
    selXor T X i n P v = selXor T X i n Q v := by
  induction n with
  | zero => rfl
  | succ n ih => rw [selXor_succ, selXor_succ, ih (fun j hj => h j (by omega)), h n (by omega)]

theorem selXor_none (T X : BMat) (i n : Nat) (P : Nat → Bool) (v : Nat) (h : ∀ j, j < n → P j = false) :
    selXor T X i n P v = v := by
  induction n with
  | zero => rfl
  | succ n ih => rw [selXor_succ, ih (fun j hj => h j (by omega)), h n (by omega)]; simp

theorem xor_rot (a b c : Nat) : (a ^^^ b) ^^^ c = (a ^^^ c) ^^^ b := by
  rw [Nat.xor_assoc, Nat.xor_comm b c, ← Nat.xor_assoc]

/-- one more index -/
theorem selXor_insert (T X : BMat) (i n : Nat) (P Q : Nat → Bool) (v j0 : Nat) (hj : j0 < n) (hP : P j0 = false)
    (hQ : ∀ j, j < n → Q j = (P j || decide (j = j0))) :
    selXor T X i n Q v = selXor T X i n P v ^^^ (if T.get i j0 then X.row j0 else 0) := by
  induction n with
  | zero => omega
  | succ n ih =>
    rw [selXor_succ, selXor_succ]
    by_cases e : j0 = n
    · subst e
      have hc : selXor T X i j0 Q v = selXor T X i j0 P v :=
        selXor_congr T X i j0 Q P v (fun j hj' => by
          rw [hQ j (by omega)]
          have : ¬ j = j0 := by omega
          simp [this])
      rw [hc, hQ j0 (by omega), hP]
      by_cases g : T.get i j0 = true <;> simp [g]
    · rw [ih (by omega) (fun j hj' => hQ j (by omega)), hQ n (by omega)]
      have : ¬ n = j0 := fun h => e h.symm
      simp only [this, decide_false, Bool.or_false]
      by_cases g : (P n && T.get i n) = true
      · rw [if_pos g, if_pos g, xor_rot]
      · rw [if_neg g, if_neg g]

/-- a block of `k` more indices `[r, r+k)`: the XOR of the rows selected by the bits of row `i` of `T` -/
theorem selXor_block (T X : BMat) (i n : Nat) (mask : Nat) (hmask : ∀ j, X.row j &&& mask = X.row j)
    (r : Nat) : ∀ (k : Nat) (P Q : Nat → Bool) (v : Nat), r + k ≤ n →
    (∀ l, l < k → P (r + l) = false) →
    (∀ j, j < n → Q j = (P j || decide (r ≤ j ∧ j < r + k))) →
    selXor T X i n Q v = selXor T X i n P v ^^^ combRows X.rows r mask k (bitsAt (T.row i) r k) := by
  intro k
  induction k with
  | zero =>
    intro P Q v _ _ hQ
    rw [combRows, Nat.xor_zero]
    exact selXor_congr T X i n Q P v (fun j hj => by
      rw [hQ j hj]
      have : ¬ (r ≤ j ∧ j < r + 0) := by omega
      simp [this])
  | succ k ih =>
    intro P Q v hle hP hQ
    let P1 : Nat → Bool := fun j => P j || decide (r ≤ j ∧ j < r + k)
    have h1 := ih P P1 v (by omega) (fun l hl => hP l (by omega)) (fun j _ => rfl)
    have h2 := selXor_insert T X i n P1 Q v (r + k) (by omega)
      (by
        show (P (r + k) || decide (r ≤ r + k ∧ r + k < r + k)) = false
        rw [hP k (by omega)]
        have : ¬ (r ≤ r + k ∧ r + k < r + k) := by omega
        simp [this])
      (fun j hj => by
        rw [hQ j hj]
        show _ = ((P j || decide (r ≤ j ∧ j < r + k)) || decide (j = r + k))
        rw [Bool.or_assoc]
        congr 1
        by_cases a : r ≤ j ∧ j < r + (k + 1)
        · by_cases b : j = r + k
          · simp [a, b]
          · have : r ≤ j ∧ j < r + k := by omega
            simp [a, this]
        · have b : ¬ j = r + k := by omega
          have c : ¬ (r ≤ j ∧ j < r + k) := by omega
          simp [a, b, c])
    rw [h2, h1, combRows, Nat.xor_assoc]
    congr 1
    rw [M4RI.combRows_congr X.rows r mask k (bitsAt (T.row i) r (k + 1)) (bitsAt (T.row i) r k)
      (fun j hj => by
        rw [M4RI.testBit_bitsAt, M4RI.testBit_bitsAt]
        have a : j < k + 1 := by omega
        simp [hj, a])]
    congr 1
    rw [M4RI.testBit_bitsAt]
    have hm := hmask (r + k)
    unfold row at hm
    simp only [Nat.lt_add_one, decide_true, Bool.true_and]
    unfold get row
    rw [hm]

/-- a row-wise update loop: `g M i` rewrites row `i` as a function `φ i` of its current value -/
theorem foldl_rows_idx (g : BMat → Nat → BMat) (φ : Nat → Nat → Nat)
    (hg : ∀ (M : BMat) (i : Nat), i < M.rows.size → (g M i).rows.size = M.rows.size ∧
      (g M i).nrows = M.nrows ∧ (g M i).ncols = M.ncols ∧
      ∀ k, (g M i).row k = if k = i then φ i (M.row i) else M.row k) :
    ∀ (n s : Nat) (M : BMat), (n ≠ 0 → s + n ≤ M.rows.size) →
      ((List.range' s n).foldl g M).rows.size = M.rows.size ∧
      ((List.range' s n).foldl g M).nrows = M.nrows ∧ ((List.range' s n).foldl g M).ncols = M.ncols ∧
      ∀ k, ((List.range' s n).foldl g M).row k = if s ≤ k ∧ k < s + n then φ k (M.row k) else M.row k := by
  intro n
  induction n with
  | zero =>
    intro s M _
    simp only [List.range'_zero, List.foldl_nil]
    exact ⟨trivial, trivial, trivial, fun k => by rw [if_neg (by omega)]⟩
  | succ n ih =>
    intro s M hs
    have hs := hs (by omega)
    rw [List.range'_succ, List.foldl_cons]
    obtain ⟨g1, g2, g3, g4⟩ := hg M s (by omega)
    obtain ⟨i1, i2, i3, i4⟩ := ih (s + 1) (g M s) (fun _ => by omega)
    refine ⟨i1.trans g1, i2.trans g2, i3.trans g3, fun k => ?_⟩
    rw [i4, g4]
    by_cases e : k = s
    · subst e
      rw [if_neg (by omega), if_pos rfl, if_pos (by omega)]
    · rw [if_neg e]
      by_cases h1 : s + 1 ≤ k ∧ k < s + 1 + n
      · rw [if_pos h1, if_pos (by omega)]
      · rw [if_neg h1, if_neg (by omega)]

/-- `addTables` row by row -/
theorem addTables_row (B T : BMat) (lo hi c kk : Nat) (tabs : List M4RI.Table) (hhi : hi ≤ B.rows.size) :
    (addTables B T lo hi c kk tabs).rows.size = B.rows.size ∧
    (addTables B T lo hi c kk tabs).nrows = B.nrows ∧ (addTables B T lo hi c kk tabs).ncols = B.ncols ∧
    ∀ k, (addTables B T lo hi c kk tabs).row k =
      if lo ≤ k ∧ k < hi then B.row k ^^^ (M4RI.applyTables tabs (bitsAt (T.row k) c kk)).1 else B.row k := by
  unfold addTables
  obtain ⟨k1, k2, k3, k4⟩ := foldl_rows_idx
    (fun X j => X.setRow j (X.row j ^^^ (M4RI.applyTables tabs (bitsAt (T.row j) c kk)).1))
    (fun j v => v ^^^ (M4RI.applyTables tabs (bitsAt (T.row j) c kk)).1)
    (fun M i hi' => ⟨size_setRow _ _ _, rfl, rfl, fun k => by
      rw [row_setRow]
      by_cases e : k = i
      · rw [if_pos ⟨e, hi'⟩, if_pos e]
      · rw [if_neg (fun h => e h.1), if_neg e]⟩)
    (hi - lo) lo B (fun _ => by omega)
  refine ⟨k1, k2, k3, fun k => ?_⟩
  rw [k4]
  by_cases h : lo ≤ k ∧ k < hi
  · rw [if_pos h, if_pos (by omega)]
  · rw [if_neg h, if_neg (by omega)]

/-! ### the state of an in-place substitution -/

/-- row `i < n` of `S` holds `B[i]` plus the rows `j` of the solution `Xf` with `P i j` and `T[i,j]` -/
structure St (T B Xf S : BMat) (n : Nat) (P : Nat → Nat → Bool) : Prop where
  size : S.rows.size = n
  nr : S.nrows = B.nrows
  nc : S.ncols = B.ncols
  row : ∀ i, i < n → S.row i = selXor T Xf i n (P i) (B.row i)

theorem St.congr {T B Xf S : BMat} {n : Nat} {P Q : Nat → Nat → Bool} (h : St T B Xf S n P)
    (hPQ : ∀ i j, i < n → j < n → Q i j = P i j) : St T B Xf S n Q :=
  ⟨h.size, h.nr, h.nc, fun i hi => by
    rw [h.row i hi]; exact selXor_congr _ _ _ _ _ _ _ (fun j hj => (hPQ i j hi hj).symm)⟩

/-- the start: nothing added -/
theorem St.init (T B Xf : BMat) {n : Nat} (hn : B.rows.size = n) : St T B Xf B n (fun _ _ => false) :=
  ⟨hn, rfl, rfl, fun i _ => (selXor_none _ _ _ _ _ _ (fun _ _ => rfl)).symm⟩

/-- one conditional row addition `if T[i,j0] then row i ^= row j0`, row `j0` being final -/
theorem St.step {T B Xf S : BMat} {n : Nat} {P Q : Nat → Nat → Bool} (h : St T B Xf S n P) {i j0 : Nat}
    (hi : i < n) (hj : j0 < n) (hne : j0 ≠ i) (hP : P i j0 = false) (hfin : S.row j0 = Xf.row j0)
    (hQ : ∀ a b, a < n → b < n → Q a b = (P a b || decide (a = i ∧ b = j0))) :
    St T B Xf (if T.get i j0 then xorRow S i j0 else S) n Q := by
  have key : ∀ a, a < n → selXor T Xf a n (Q a) (B.row a) =
      if a = i then selXor T Xf i n (P i) (B.row i) ^^^ (if T.get i j0 then Xf.row j0 else 0)
      else selXor T Xf a n (P a) (B.row a) := by
    intro a ha
    by_cases e : a = i
    · subst e
      rw [if_pos rfl]
      exact selXor_insert T Xf a n (P a) (Q a) _ j0 hj hP (fun j hj' => by
        rw [hQ a j ha hj']; simp)
    · rw [if_neg e]
      exact selXor_congr _ _ _ _ _ _ _ (fun j hj' => by
        rw [hQ a j ha hj']
        have : ¬ (a = i ∧ j = j0) := fun h => e h.1
        simp [this])
  by_cases g : T.get i j0 = true
  · rw [if_pos g]
    refine ⟨by rw [xorRow_size]; exact h.size, h.nr, h.nc, fun a ha => ?_⟩
    rw [key a ha, xorRow_row]
    by_cases e : a = i
    · subst e
      rw [if_pos ⟨rfl, by rw [h.size]; exact ha⟩, if_pos rfl, if_pos g, h.row a ha, hfin]
    · rw [if_neg (fun h => e h.1), if_neg e, h.row a ha]
  · rw [if_neg g]
    refine ⟨h.size, h.nr, h.nc, fun a ha => ?_⟩
    rw [key a ha, h.row a ha]
    by_cases e : a = i
    · subst e; simp [g]
    · rw [if_neg e]

/-- a row whose set is the whole dependency set `D` is final -/
theorem St.final {T B Xf S : BMat} {n : Nat} {P : Nat → Nat → Bool} (h : St T B Xf S n P) {i : Nat} (hi : i < n)
    (D : Nat → Bool) (hXf : Xf.row i = selXor T Xf i n D (B.row i)) (hP : ∀ j, j < n → P i j = D j) :
    S.row i = Xf.row i := by
  rw [h.row i hi, hXf]; exact selXor_congr _ _ _ _ _ _ _ hP

/-- the Four-Russians step: the rows `[lo, hi)` get the combination of the final rows `[r, r + kk)` selected
    by their bits in `T` -/
theorem St.tables {T B Xf S : BMat} {n : Nat} {P Q : Nat → Nat → Bool} (h : St T B Xf S n P)
    (hXf : ∀ j, Xf.row j < 2 ^ B.ncols) (junk : Nat → Nat) (chs : List Nat) {r kk lo hi : Nat}
    (hsum : chs.sum = kk) (hr : r + kk ≤ n) (hn : S.nrows = n)
    (hfin : ∀ l, l < kk → S.row (r + l) = Xf.row (r + l)) (hhi : hi ≤ n)
    (hP : ∀ a, lo ≤ a → a < hi → ∀ l, l < kk → P a (r + l) = false)
    (hQ : ∀ a b, a < n → b < n → Q a b = (P a b || decide (lo ≤ a ∧ a < hi ∧ r ≤ b ∧ b < r + kk))) :
    St T B Xf (addTables S T lo hi r kk (M4RI.makeTables S r 0 junk chs 0)) n Q := by
  obtain ⟨a1, a2, a3, a4⟩ := addTables_row S T lo hi r kk (M4RI.makeTables S r 0 junk chs 0)
    (by rw [h.size]; exact hhi)
  refine ⟨a1.trans h.size, a2.trans h.nr, a3.trans h.nc, fun a ha => ?_⟩
  rw [a4]
  have hmask : ∀ j, Xf.row j &&& colMask 0 S.ncols = Xf.row j := by
    intro j
    apply Nat.eq_of_testBit_eq
    intro p
    rw [Nat.testBit_and, colMask_testBit, h.nc]
    by_cases hp : p < B.ncols
    · simp [hp]
    · have : (Xf.row j).testBit p = false :=
        Nat.testBit_lt_two_pow (Nat.lt_of_lt_of_le (hXf j) (Nat.pow_le_pow_right (by omega) (by omega)))
      simp [this]
  by_cases hr' : lo ≤ a ∧ a < hi
  · rw [if_pos hr', h.row a ha]
    obtain ⟨s1, _⟩ := M4RI.applyTables_spec S r 0 junk chs 0 (bitsAt (T.row a) r kk) (by rw [hsum, hn]; omega)
    rw [s1, hsum, Nat.add_zero]
    have hcomb : combRows S.rows r (colMask 0 S.ncols) kk (bitsAt (T.row a) r kk) =
        combRows Xf.rows r (colMask 0 S.ncols) kk (bitsAt (T.row a) r kk) := by
      have : ∀ k', k' ≤ kk → ∀ x, combRows S.rows r (colMask 0 S.ncols) k' x =
          combRows Xf.rows r (colMask 0 S.ncols) k' x := by
        intro k'
        induction k' with
        | zero => intro _ x; rfl
        | succ k' ih =>
          intro hk x
          rw [combRows, combRows, ih (by omega)]
          have : S.rows.getD (r + k') 0 = Xf.rows.getD (r + k') 0 := hfin k' (by omega)
          rw [this]
      exact this kk (Nat.le_refl _) _
    rw [hcomb]
    symm
    exact selXor_block T Xf a n (colMask 0 S.ncols) hmask r kk (P a) (Q a) (B.row a) hr
      (fun l hl => hP a hr'.1 hr'.2 l hl)
      (fun j hj => by
        rw [hQ a j ha hj]
        congr 1
        apply decide_eq_decide.mpr
        constructor
        · intro hh; exact ⟨hh.2.2.1, hh.2.2.2⟩
        · intro hh; exact ⟨hr'.1, hr'.2, hh.1, hh.2⟩)
  · rw [if_neg hr', h.row a ha]
    exact selXor_congr _ _ _ _ _ _ _ (fun j hj => by
      rw [hQ a j ha hj]
      have : ¬ (lo ≤ a ∧ a < hi ∧ r ≤ j ∧ j < r + kk) := fun hh => hr' ⟨hh.1, hh.2.1⟩
      simp [this])

theorem selXor_lt (T X : BMat) (i : Nat) (v : Nat) : ∀ (n i' : Nat), i' ≤ n →
    selXor T X i n (fun j => decide (j < i')) v =
      (List.range i').foldl (fun acc j => if T.get i j then acc ^^^ X.row j else acc) v := by
  intro n
  induction n with
  | zero => intro i' h; have : i' = 0 := by omega
            subst this; rfl
  | succ n ih =>
    intro i' h
    rw [selXor_succ]
    by_cases e : i' = n + 1
    · subst e
      rw [List.range_succ, List.foldl_append, ← ih n (Nat.le_refl n)]
      have hc : selXor T X i n (fun j => decide (j < n + 1)) v = selXor T X i n (fun j => decide (j < n)) v :=
        selXor_congr _ _ _ _ _ _ _ (fun j hj => by
          have a : j < n + 1 := by omega
          simp [a, hj])
      rw [hc]
      simp
    · have : ¬ n < i' := by omega
      simp only [this, decide_false, Bool.false_and, Bool.false_eq_true, if_false]
      exact ih i' (by omega)

/-! ## 1. lower-left: `_mzd_trsm_lower_left_submatrix`, the kernel, `_mzd_trsm_lower_left_russian` -/

/-- progress of the forward substitution: all columns `< r`; the rows `< r + a` complete; row `r + a` up to
    column `r + b` -/
def Pl (r a b : Nat) (i j : Nat) : Bool := decide (j < i ∧ (j < r ∨ i < r + a ∨ (i = r + a ∧ j < r + b)))

/-- the solution obeys the row recurrence (from `Trsm.lean`) -/
theorem lowerFinal (L B : BMat) (hsz : B.rows.size = B.nrows) (i : Nat) (hi : i < B.nrows) :
    (trsmLowerLeft L B).row i =
      selXor L (trsmLowerLeft L B) i B.nrows (fun j => decide (j < i)) (B.row i) := by
  rw [selXor_lt _ _ _ _ _ _ (by omega), trsmLowerLeft_eq]
  exact lowF_row L B B.nrows i hi (by omega)

section lower
variable {L B Xf : BMat} {n : Nat}
  (hfinal : ∀ i, i < n → Xf.row i = selXor L Xf i n (fun j => decide (j < i)) (B.row i))
include hfinal

theorem lowerInner {S : BMat} {r a : Nat} (hra : r + a < n) : ∀ b, b ≤ a → St L B Xf S n (Pl r a 0) →
    St L B Xf ((List.range b).foldl (fun X j =>
      if L.get (r + a) (r + j) then xorRow X (r + a) (r + j) else X) S) n (Pl r a b) := by
  intro b
  induction b with
  | zero => intro _ h; exact h
  | succ b ih =>
    intro hb h
    have h1 := ih (by omega) h
    rw [List.range_succ, List.foldl_append]
    simp only [List.foldl_cons, List.foldl_nil]
    generalize (List.range b).foldl (fun X j =>
      if L.get (r + a) (r + j) then xorRow X (r + a) (r + j) else X) S = S1 at h1 ⊢
    apply h1.step (by omega) (by omega) (by omega)
    · unfold Pl
      have : ¬ (r + b < r + a ∧ (r + b < r ∨ r + a < r + a ∨ r + a = r + a ∧ r + b < r + b)) := by omega
      simp [this]
    · apply h1.final (by omega) _ (hfinal (r + b) (by omega))
      intro j hj
      unfold Pl
      apply decide_eq_decide.mpr
      omega
    · intro i j hi hj
      unfold Pl
      rw [← Bool.decide_or]
      apply decide_eq_decide.mpr
      omega

theorem lowerSub {r k : Nat} (hrk : r + k ≤ n) : ∀ (a : Nat) (S : BMat), a ≤ k → St L B Xf S n (Pl r 0 0) →
    St L B Xf (lowerLeftSubmatrix L S r a) n (Pl r a 0) := by
  intro a
  induction a with
  | zero => intro S _ h; exact h
  | succ a ih =>
    intro S ha h
    have h1 := ih S (by omega) h
    unfold lowerLeftSubmatrix at h1 ⊢
    rw [List.range_succ, List.foldl_append]
    simp only [List.foldl_cons, List.foldl_nil]
    have h2 := lowerInner hfinal (S := _) (r := r) (a := a) (by omega) a (Nat.le_refl a) h1
    apply h2.congr
    intro i j hi hj
    unfold Pl
    apply decide_eq_decide.mpr
    omega

/-- one Four-Russians strip `[r, r + kk)`: submatrix, tables, the rows below -/
theorem lowerStrip (hXf : ∀ j, Xf.row j < 2 ^ B.ncols) (hn : B.nrows = n) (junk : Nat → Nat) {S : BMat}
    {r kk : Nat} (chs : List Nat) (hsum : chs.sum = kk) (hrk : r + kk ≤ n) (h : St L B Xf S n (Pl r 0 0)) :
    St L B Xf (addTables (lowerLeftSubmatrix L S r kk) L (r + kk) n r kk
      (M4RI.makeTables (lowerLeftSubmatrix L S r kk) r 0 junk chs 0)) n (Pl (r + kk) 0 0) := by
  have h1 := lowerSub hfinal hrk kk S (Nat.le_refl _) h
  generalize lowerLeftSubmatrix L S r kk = S1 at h1 ⊢
  apply h1.tables hXf junk chs hsum hrk (by rw [h1.nr, hn])
  · intro l hl
    apply h1.final (by omega) _ (hfinal (r + l) (by omega))
    intro j hj
    unfold Pl
    apply decide_eq_decide.mpr
    omega
  · exact Nat.le_refl n
  · intro a ha1 ha2 l hl
    unfold Pl
    have : ¬ (r + l < a ∧ (r + l < r ∨ a < r + kk ∨ a = r + kk ∧ r + l < r + 0)) := by omega
    exact decide_eq_false this
  · intro a b ha hb
    unfold Pl
    rw [← Bool.decide_or]
    apply decide_eq_decide.mpr
    omega

theorem lowerMain_spec (hXf : ∀ j, Xf.row j < 2 ^ B.ncols) (hn : B.nrows = n) (k : Nat) (junk : Nat → Nat) :
    ∀ (fuel i : Nat) (S : BMat), i ≤ n → St L B Xf S n (Pl i 0 0) →
      (lowerLeftMain L k junk fuel i S).1 ≤ n ∧
      St L B Xf (lowerLeftMain L k junk fuel i S).2 n (Pl (lowerLeftMain L k junk fuel i S).1 0 0) := by
  intro fuel
  induction fuel with
  | zero => intro i S hi h; exact ⟨hi, h⟩
  | succ fuel ih =>
    intro i S hi h
    rw [lowerLeftMain]
    simp only []
    split
    · rename_i hlt
      have hSn : S.nrows = n := by rw [h.nr, hn]
      rw [hSn] at hlt
      rw [lowerLeftSubmatrix_nrows, hSn]
      have hs := lowerStrip hfinal hXf hn junk (kk := Gen.trsmNTables * k) (List.replicate Gen.trsmNTables k)
        (sum_replicate_nat _ _) (by omega) h
      exact ih _ _ (by omega) hs
    · exact ⟨hi, h⟩

theorem lowerRest_spec (hXf : ∀ j, Xf.row j < 2 ^ B.ncols) (hn : B.nrows = n) (junk : Nat → Nat) :
    ∀ (fuel i k : Nat) (S : BMat), i ≤ n → 1 ≤ k → n - i ≤ fuel → St L B Xf S n (Pl i 0 0) →
      St L B Xf (lowerLeftRest L junk fuel i k S) n (Pl n 0 0) := by
  intro fuel
  induction fuel with
  | zero =>
    intro i k S hi hk hf h
    have : i = n := by omega
    subst this; exact h
  | succ fuel ih =>
    intro i k S hi hk hf h
    rw [lowerLeftRest]
    have hSn : S.nrows = n := by rw [h.nr, hn]
    simp only [hSn]
    split
    · rename_i hlt
      generalize hk' : (if i + k > n then n - i else k) = k'
      have hk1 : 1 ≤ k' ∧ i + k' ≤ n := by subst hk'; split <;> omega
      have hs := lowerStrip hfinal hXf hn junk [k'] (by simp) hk1.2 h
      rw [lowerLeftSubmatrix_nrows, hSn]
      exact ih _ _ _ (by omega) hk1.1 (by omega) hs
    · have : i = n := by omega
      subst this; exact h

end lower

/-- a state in which every row is complete is the solution -/
theorem lower_done {L B S : BMat} (hsz : B.rows.size = B.nrows)
    (h : St L B (trsmLowerLeft L B) S B.nrows (Pl B.nrows 0 0)) : S = trsmLowerLeft L B := by
  apply ext_rows (by rw [h.nr]; simp) (by rw [h.nc]; simp)
  · rw [h.size, trsmLowerLeft_eq, (lowF_shape L B B.nrows).2.2, hsz]
  · intro i hi
    rw [h.size] at hi
    apply h.final hi _ (lowerFinal L B hsz i hi)
    intro j hj
    unfold Pl
    apply decide_eq_decide.mpr
    omega

/-- **`_mzd_trsm_lower_left_russian(L, B, k)` = forward substitution**, every `k ≥ 1`, every prior content of the
    index arrays; nothing is assumed about `L` beyond the number of rows read -/
theorem lowerLeftRussian_eq {L B : BMat} (hB : B.WF) (k : Nat) (hk : 1 ≤ k) (junk : Nat → Nat) :
    lowerLeftRussian L B k junk = trsmLowerLeft L B := by
  have hfinal := lowerFinal L B hB.1
  have hXf : ∀ j, (trsmLowerLeft L B).row j < 2 ^ B.ncols := by
    intro j; have := (trsmLowerLeft_WF L hB).2 j; simpa using this
  have h0 : St L B (trsmLowerLeft L B) B B.nrows (Pl 0 0 0) :=
    (St.init L B _ hB.1).congr (fun i j _ _ => by unfold Pl; simp)
  unfold lowerLeftRussian
  obtain ⟨m1, m2⟩ := lowerMain_spec hfinal hXf rfl k junk B.nrows 0 B (by omega) h0
  exact lower_done hB.1 (lowerRest_spec hfinal hXf rfl junk B.nrows _ k _ m1 hk (by omega) m2)

/-- `k = 0`: the automatic choice is between 2 and 8 -/
theorem trsmK_ge (l2 : Nat) (B : BMat) : 2 ≤ trsmK l2 B ∧ trsmK l2 B ≤ 8 := by
  unfold trsmK
  simp only []
  generalize (if (3 * log2Floor (min B.nrows B.ncols) + 2) / 4 <
      (l2 / 8 / ((B.ncols + 63) / 64 * Gen.trsmNTables)).log2 then
      (3 * log2Floor (min B.nrows B.ncols) + 2) / 4
      else (l2 / 8 / ((B.ncols + 63) / 64 * Gen.trsmNTables)).log2) = k0
  split
  · omega
  · split <;> omega

theorem lowerLeftRussianK_eq {L B : BMat} (hB : B.WF) (l2 k : Nat) (junk : Nat → Nat) :
    lowerLeftRussianK l2 L B k junk = trsmLowerLeft L B := by
  unfold lowerLeftRussianK
  apply lowerLeftRussian_eq hB
  split
  · have := (trsmK_ge l2 B).1; omega
  · omega

/-- the submatrix routine run over all rows is the whole forward substitution -/
theorem lowerLeftSubmatrix_all {L B : BMat} (hsz : B.rows.size = B.nrows) :
    lowerLeftSubmatrix L B 0 B.nrows = trsmLowerLeft L B := by
  have h0 : St L B (trsmLowerLeft L B) B B.nrows (Pl 0 0 0) :=
    (St.init L B _ hsz).congr (fun i j _ _ => by unfold Pl; simp)
  have h1 := lowerSub (lowerFinal L B hsz) (r := 0) (k := B.nrows) (by omega) B.nrows B (Nat.le_refl _) h0
  apply lower_done hsz
  apply h1.congr
  intro i j hi hj
  unfold Pl
  apply decide_eq_decide.mpr
  omega

theorem getW0_eq (M : BMat) (i j : Nat) (hj : j < 64) : getW0 M i j = M.get i j := by
  unfold getW0 w0 get
  rw [Nat.testBit_mod_two_pow]
  simp [hj]

/-- **the `mb ≤ 64` kernel of `_mzd_trsm_lower_left` = forward substitution** -/
theorem lowerLeftKernel_eq {L B : BMat} (hB : B.WF) (h64 : B.nrows ≤ 64) :
    lowerLeftKernel L B = trsmLowerLeft L B := by
  rw [← lowerLeftSubmatrix_all hB.1]
  unfold lowerLeftKernel lowerLeftSubmatrix
  rcases Nat.eq_zero_or_pos B.nrows with h0 | hpos
  · rw [h0]; rfl
  · have hr : List.range B.nrows = 0 :: List.range' 1 (B.nrows - 1) := by
      rw [List.range_eq_range']
      have : B.nrows = (B.nrows - 1) + 1 := by omega
      rw [this, List.range'_succ]
      simp
    rw [hr, List.foldl_cons]
    simp only [List.range_zero, List.foldl_nil]
    apply foldl_congr_mem
    intro X i hi
    obtain ⟨t, ht, rfl⟩ := List.mem_range'.mp hi
    apply foldl_congr_mem
    intro Y k hk
    have hk' : k < 1 + 1 * t := List.mem_range.mp hk
    simp only [Nat.zero_add]
    rw [getW0_eq _ _ _ (by omega)]

/-! ## 2. upper-left -/

theorem selXor_gt (T X : BMat) (i : Nat) (v : Nat) (i' : Nat) : ∀ (n : Nat),
    selXor T X i n (fun j => decide (i' < j)) v =
      (List.range' (i' + 1) (n - (i' + 1))).foldl (fun acc j => if T.get i j then acc ^^^ X.row j else acc) v := by
  intro n
  induction n with
  | zero => simp [selXor]
  | succ n ih =>
    rw [selXor_succ, ih]
    by_cases e : i' < n
    · have : n + 1 - (i' + 1) = (n - (i' + 1)) + 1 := by omega
      rw [this, List.range'_1_concat, List.foldl_append]
      have h2 : i' + 1 + (n - (i' + 1)) = n := by omega
      simp [e, h2]
    · have h1 : n + 1 - (i' + 1) = 0 := by omega
      have h2 : n - (i' + 1) = 0 := by omega
      simp [e, h1, h2]

theorem upperFinal (U B : BMat) (hsz : B.rows.size = B.nrows) (i : Nat) (hi : i < B.nrows) :
    (trsmUpperLeft U B).row i =
      selXor U (trsmUpperLeft U B) i B.nrows (fun j => decide (i < j)) (B.row i) := by
  rw [selXor_gt, trsmUpperLeft_eq]
  exact upH_row U B.nrows B.nrows B (by omega) i hi

/-- progress of the backward substitution: all columns `≥ e`; the rows `≥ e - a` complete; row `e - a - 1`
    up to column `e - a + b` -/
def Pu (e a b : Nat) (i j : Nat) : Bool :=
  decide (i < j ∧ (e ≤ j ∨ e ≤ i + a ∨ (i + a + 1 = e ∧ j < i + 1 + b)))

section upper
variable {U B Xf : BMat} {n : Nat}
  (hfinal : ∀ i, i < n → Xf.row i = selXor U Xf i n (fun j => decide (i < j)) (B.row i))
include hfinal

theorem upperInner {S : BMat} {s k a : Nat} (hsk : s + k ≤ n) (hak : a < k) : ∀ b, b ≤ a →
    St U B Xf S n (Pu (s + k) a 0) →
    St U B Xf ((List.range b).foldl (fun X j =>
      if U.get (s + (k - a - 1)) (s + (k - a) + j) then xorRow X (s + (k - a - 1)) (s + (k - a) + j) else X) S)
      n (Pu (s + k) a b) := by
  intro b
  induction b with
  | zero => intro _ h; exact h
  | succ b ih =>
    intro hb h
    have h1 := ih (by omega) h
    rw [List.range_succ, List.foldl_append]
    simp only [List.foldl_cons, List.foldl_nil]
    generalize (List.range b).foldl (fun X j =>
      if U.get (s + (k - a - 1)) (s + (k - a) + j) then xorRow X (s + (k - a - 1)) (s + (k - a) + j) else X) S
      = S1 at h1 ⊢
    apply h1.step (by omega) (by omega) (by omega)
    · unfold Pu
      apply decide_eq_false
      omega
    · apply h1.final (by omega) _ (hfinal (s + (k - a) + b) (by omega))
      intro j hj
      unfold Pu
      apply decide_eq_decide.mpr
      omega
    · intro i j hi hj
      unfold Pu
      rw [← Bool.decide_or]
      apply decide_eq_decide.mpr
      omega

theorem upperSub {s k : Nat} (hsk : s + k ≤ n) : ∀ (a : Nat) (S : BMat), a ≤ k → St U B Xf S n (Pu (s + k) 0 0) →
    St U B Xf ((List.range a).foldl (fun X i =>
      (List.range i).foldl (fun X j =>
        if U.get (s + (k - i - 1)) (s + (k - i) + j) then
          xorRow X (s + (k - i - 1)) (s + (k - i) + j) else X) X) S) n (Pu (s + k) a 0) := by
  intro a
  induction a with
  | zero => intro S _ h; exact h
  | succ a ih =>
    intro S ha h
    have h1 := ih S (by omega) h
    rw [List.range_succ, List.foldl_append]
    simp only [List.foldl_cons, List.foldl_nil]
    have h2 := upperInner hfinal (S := _) (s := s) (k := k) (a := a) hsk (by omega) a (Nat.le_refl a) h1
    apply h2.congr
    intro i j hi hj
    unfold Pu
    apply decide_eq_decide.mpr
    omega

theorem upperStrip (hXf : ∀ j, Xf.row j < 2 ^ B.ncols) (hn : B.nrows = n) (junk : Nat → Nat) {S : BMat}
    {s kk : Nat} (chs : List Nat) (hsum : chs.sum = kk) (hsk : s + kk ≤ n) (h : St U B Xf S n (Pu (s + kk) 0 0)) :
    St U B Xf (addTables (upperLeftSubmatrix U S s kk) U 0 s s kk
      (M4RI.makeTables (upperLeftSubmatrix U S s kk) s 0 junk chs 0)) n (Pu s 0 0) := by
  have h1 : St U B Xf (upperLeftSubmatrix U S s kk) n (Pu (s + kk) kk 0) :=
    upperSub hfinal hsk kk S (Nat.le_refl _) h
  generalize upperLeftSubmatrix U S s kk = S1 at h1 ⊢
  apply h1.tables hXf junk chs hsum hsk (by rw [h1.nr, hn])
  · intro l hl
    apply h1.final (by omega) _ (hfinal (s + l) (by omega))
    intro j hj
    unfold Pu
    apply decide_eq_decide.mpr
    omega
  · omega
  · intro a ha1 ha2 l hl
    unfold Pu
    apply decide_eq_false
    omega
  · intro a b ha hb
    unfold Pu
    rw [← Bool.decide_or]
    apply decide_eq_decide.mpr
    omega

theorem upperMain_spec (hXf : ∀ j, Xf.row j < 2 ^ B.ncols) (hn : B.nrows = n) (k : Nat) (junk : Nat → Nat) :
    ∀ (fuel i : Nat) (S : BMat), i ≤ n → St U B Xf S n (Pu (n - i) 0 0) →
      (upperLeftMain U k junk fuel i S).1 ≤ n ∧
      St U B Xf (upperLeftMain U k junk fuel i S).2 n (Pu (n - (upperLeftMain U k junk fuel i S).1) 0 0) := by
  intro fuel
  induction fuel with
  | zero => intro i S hi h; exact ⟨hi, h⟩
  | succ fuel ih =>
    intro i S hi h
    rw [upperLeftMain]
    simp only []
    split
    · rename_i hlt
      have hSn : S.nrows = n := by rw [h.nr, hn]
      rw [hSn] at hlt
      rw [hSn]
      have e1 : n - i - Gen.trsmNTables * k + Gen.trsmNTables * k = n - i := by omega
      have hs := upperStrip hfinal hXf hn junk (s := n - i - Gen.trsmNTables * k) (kk := Gen.trsmNTables * k)
        (List.replicate Gen.trsmNTables k) (sum_replicate_nat _ _) (by omega) (by rw [e1]; exact h)
      have e2 : n - i - Gen.trsmNTables * k = n - (i + Gen.trsmNTables * k) := by omega
      rw [e2] at hs ⊢
      exact ih _ _ (by omega) hs
    · exact ⟨hi, h⟩

theorem upperRest_spec (hXf : ∀ j, Xf.row j < 2 ^ B.ncols) (hn : B.nrows = n) (junk : Nat → Nat) :
    ∀ (fuel i k : Nat) (S : BMat), i ≤ n → 1 ≤ k → n - i ≤ fuel → St U B Xf S n (Pu (n - i) 0 0) →
      St U B Xf (upperLeftRest U junk fuel i k S) n (Pu 0 0 0) := by
  intro fuel
  induction fuel with
  | zero =>
    intro i k S hi hk hf h
    have : n - i = 0 := by omega
    rw [this] at h; exact h
  | succ fuel ih =>
    intro i k S hi hk hf h
    rw [upperLeftRest]
    have hSn : S.nrows = n := by rw [h.nr, hn]
    simp only [hSn]
    split
    · rename_i hlt
      generalize hk' : (if i + k > n then n - i else k) = k'
      have hk1 : 1 ≤ k' ∧ i + k' ≤ n := by subst hk'; split <;> omega
      have e1 : n - i - k' + k' = n - i := by omega
      have hs := upperStrip hfinal hXf hn junk (s := n - i - k') (kk := k') [k'] (by simp) (by omega)
        (by rw [e1]; exact h)
      have e2 : n - i - k' = n - (i + k') := by omega
      rw [e2] at hs ⊢
      exact ih _ _ _ (by omega) hk1.1 (by omega) hs
    · have : n - i = 0 := by omega
      rw [this] at h; exact h

end upper

theorem upper_done {U B S : BMat} (hsz : B.rows.size = B.nrows)
    (h : St U B (trsmUpperLeft U B) S B.nrows (Pu 0 0 0)) : S = trsmUpperLeft U B := by
  apply ext_rows (by rw [h.nr]; simp) (by rw [h.nc]; simp)
  · rw [h.size, trsmUpperLeft_eq, (upH_shape U B.nrows B.nrows B).2.2, hsz]
  · intro i hi
    rw [h.size] at hi
    apply h.final hi _ (upperFinal U B hsz i hi)
    intro j hj
    unfold Pu
    apply decide_eq_decide.mpr
    omega

/-- **`_mzd_trsm_upper_left_russian(U, B, k)` = backward substitution**, every `k ≥ 1` -/
theorem upperLeftRussian_eq {U B : BMat} (hB : B.WF) (k : Nat) (hk : 1 ≤ k) (junk : Nat → Nat) :
    upperLeftRussian U B k junk = trsmUpperLeft U B := by
  have hfinal := upperFinal U B hB.1
  have hXf : ∀ j, (trsmUpperLeft U B).row j < 2 ^ B.ncols := by
    intro j; have := (trsmUpperLeft_WF U hB).2 j; simpa using this
  have h0 : St U B (trsmUpperLeft U B) B B.nrows (Pu (B.nrows - 0) 0 0) :=
    (St.init U B _ hB.1).congr (fun i j hi hj => by
      unfold Pu
      apply decide_eq_false
      omega)
  unfold upperLeftRussian
  obtain ⟨m1, m2⟩ := upperMain_spec hfinal hXf rfl k junk B.nrows 0 B (by omega) h0
  exact upper_done hB.1 (upperRest_spec hfinal hXf rfl junk B.nrows _ k _ m1 hk (by omega) m2)

theorem upperLeftRussianK_eq {U B : BMat} (hB : B.WF) (l2 k : Nat) (junk : Nat → Nat) :
    upperLeftRussianK l2 U B k junk = trsmUpperLeft U B := by
  unfold upperLeftRussianK
  apply upperLeftRussian_eq hB
  split
  · have := (trsmK_ge l2 B).1; omega
  · omega

theorem upperLeftSubmatrix_all {U B : BMat} (hsz : B.rows.size = B.nrows) :
    upperLeftSubmatrix U B 0 B.nrows = trsmUpperLeft U B := by
  have h0 : St U B (trsmUpperLeft U B) B B.nrows (Pu (0 + B.nrows) 0 0) :=
    (St.init U B _ hsz).congr (fun i j hi hj => by
      unfold Pu
      apply decide_eq_false
      omega)
  have h1 := upperSub (upperFinal U B hsz) (s := 0) (k := B.nrows) (by omega) B.nrows B (Nat.le_refl _) h0
  apply upper_done hsz
  apply h1.congr
  intro i j hi hj
  unfold Pu
  apply decide_eq_decide.mpr
  omega

theorem reverse_range (m : Nat) : (List.range m).reverse = (List.range m).map (fun a => m - 1 - a) := by
  induction m with
  | zero => rfl
  | succ m ih =>
    rw [List.range_succ, List.reverse_append, ih]
    rw [← List.range_succ, List.range_succ_eq_map, List.map_cons, List.map_map]
    simp only [List.reverse_cons, List.reverse_nil, List.nil_append, List.singleton_append, Nat.add_sub_cancel,
      Nat.sub_zero, List.cons.injEq, true_and]
    apply List.map_congr_left
    intro a _
    simp only [Function.comp, Nat.succ_eq_add_one]
    omega

/-- **the `mb ≤ 64` kernel of `_mzd_trsm_upper_left` = backward substitution** -/
theorem upperLeftKernel_eq {U B : BMat} (hB : B.WF) (h64 : B.nrows ≤ 64) :
    upperLeftKernel U B = trsmUpperLeft U B := by
  rw [← upperLeftSubmatrix_all hB.1]
  unfold upperLeftKernel upperLeftSubmatrix
  rcases Nat.eq_zero_or_pos B.nrows with h0 | hpos
  · rw [h0]; rfl
  · generalize hn : B.nrows = n at *
    obtain ⟨m, rfl⟩ : ∃ m, n = m + 1 := ⟨n - 1, by omega⟩
    rw [List.range_succ_eq_map, List.foldl_cons, List.foldl_map, Nat.add_sub_cancel, reverse_range, List.foldl_map]
    simp only [List.range_zero, List.foldl_nil]
    apply foldl_congr_mem
    intro X a ha
    have ha' : a < m := List.mem_range.mp ha
    have e1 : m + 1 - (m - 1 - a + 1) = a + 1 := by omega
    rw [e1, List.range'_eq_map_range, List.foldl_map]
    apply foldl_congr_mem
    intro Y j hj
    have hj' : j < a + 1 := List.mem_range.mp hj
    simp only [Nat.zero_add, Nat.succ_eq_add_one]
    have e2 : m + 1 - (a + 1) - 1 = m - 1 - a := by omega
    have e3 : m + 1 - (a + 1) + j = m - 1 - a + 1 + j := by omega
    rw [e2, e3, getW0_eq _ _ _ (by omega)]

/-! ## 3. the 64-column kernels `_mzd_trsm_upper_right_base`, `_mzd_trsm_lower_right_base` -/

/-- what one column pass does to a row `x`: bit `i` is flipped when the parity of `x[0] & ucol` is odd -/
def flipIf (ucol i x : Nat) : Nat :=
  if parityBit (BitVec.ofNat 64 (x % 2 ^ 64 &&& ucol)) then x ^^^ (1 <<< i) else x

theorem parityBit_eq_xsum (v : Word) : parityBit v = xsum 64 (fun j => v.getLsbD j) := by
  unfold parityBit; rw [xsum_eq_foldl]

theorem flipIf_cond (ucol x : Nat) :
    parityBit (BitVec.ofNat 64 (x % 2 ^ 64 &&& ucol)) = xsum 64 (fun t => x.testBit t && ucol.testBit t) := by
  rw [parityBit_eq_xsum]
  apply xsum_congr
  intro t ht
  rw [BitVec.getLsbD_ofNat, Nat.testBit_and, Nat.testBit_mod_two_pow]
  simp [ht]

theorem testBit_foldl_or (c : Nat → Bool) (t : Nat) : ∀ (l : List Nat) (u : Nat),
    (l.foldl (fun u k => if c k then u ||| (1 <<< k) else u) u).testBit t =
      (u.testBit t || (decide (t ∈ l) && c t)) := by
  intro l
  induction l with
  | nil => intro u; simp
  | cons a l ih =>
    intro u
    rw [List.foldl_cons, ih]
    by_cases ha : c a = true
    · rw [if_pos ha, Nat.testBit_or, Nat.one_shiftLeft, Nat.testBit_two_pow]
      by_cases e : a = t
      · subst e; simp [ha]
      · have : ¬ t = a := fun h => e h.symm
        simp [e, this]
    · rw [if_neg ha]
      by_cases e : t = a
      · subst e
        have : c t = false := by simpa using ha
        simp [this]
      · simp [e]

theorem giantStep_row (B : BMat) (g cnt ucol i : Nat) (hc : cnt ≤ 64) (hg : g + cnt ≤ B.rows.size) :
    (giantStep B g cnt ucol i).rows.size = B.rows.size ∧ (giantStep B g cnt ucol i).nrows = B.nrows ∧
    (giantStep B g cnt ucol i).ncols = B.ncols ∧
    ∀ k, (giantStep B g cnt ucol i).row k =
      if g ≤ k ∧ k < g + cnt then flipIf ucol i (B.row k) else B.row k := by
  unfold giantStep
  simp only []
  generalize hd : parity64 (fun b => if b < cnt then BitVec.ofNat 64 (w0 B (g + b) &&& ucol) else 0) = dot
  have hfold : (List.range cnt).foldl (fun X b =>
        if dot.getLsbD b = true then X.setRow (g + b) (X.row (g + b) ^^^ 1 <<< i) else X) B =
      (List.range' g cnt).foldl (fun X j =>
        if dot.getLsbD (j - g) = true then X.setRow j (X.row j ^^^ 1 <<< i) else X) B := by
    rw [List.range'_eq_map_range, List.foldl_map]
    apply foldl_congr_mem
    intro X b _
    rw [Nat.add_sub_cancel_left]
  rw [hfold]
  obtain ⟨k1, k2, k3, k4⟩ := foldl_rows_idx
    (fun X j => if dot.getLsbD (j - g) = true then X.setRow j (X.row j ^^^ 1 <<< i) else X)
    (fun j v => if dot.getLsbD (j - g) = true then v ^^^ 1 <<< i else v)
    (fun M j hj => by
      split
      · refine ⟨size_setRow _ _ _, rfl, rfl, fun k => ?_⟩
        rw [row_setRow]
        by_cases e : k = j
        · rw [if_pos ⟨e, hj⟩, if_pos e]
        · rw [if_neg (fun h => e h.1), if_neg e]
      · refine ⟨rfl, rfl, rfl, fun k => ?_⟩
        by_cases e : k = j
        · rw [if_pos e, e]
        · rw [if_neg e])
    cnt g B (fun _ => hg)
  refine ⟨k1, k2, k3, fun k => ?_⟩
  rw [k4]
  by_cases hk : g ≤ k ∧ k < g + cnt
  · simp only [if_pos hk]
    have h1 : k - g < 64 := by omega
    have h2 : k - g < cnt := by omega
    have h3 : g + (k - g) = k := by omega
    rw [← hd, parity64_getLsbD _ _ h1]
    simp only [h2, if_true, h3]
    rfl
  · simp only [if_neg hk]

theorem dotStep_row (B : BMat) (ucol i : Nat) (hsz : B.rows.size = B.nrows) :
    (dotStep B ucol i).rows.size = B.rows.size ∧ (dotStep B ucol i).nrows = B.nrows ∧
    (dotStep B ucol i).ncols = B.ncols ∧
    ∀ k, (dotStep B ucol i).row k = if k < B.nrows then flipIf ucol i (B.row k) else B.row k := by
  unfold dotStep
  simp only []
  have blocks : ∀ m, 64 * m ≤ B.rows.size →
      ((List.range m).foldl (fun X q => giantStep X (64 * q) 64 ucol i) B).rows.size = B.rows.size ∧
      ((List.range m).foldl (fun X q => giantStep X (64 * q) 64 ucol i) B).nrows = B.nrows ∧
      ((List.range m).foldl (fun X q => giantStep X (64 * q) 64 ucol i) B).ncols = B.ncols ∧
      ∀ k, ((List.range m).foldl (fun X q => giantStep X (64 * q) 64 ucol i) B).row k =
        if k < 64 * m then flipIf ucol i (B.row k) else B.row k := by
    intro m
    induction m with
    | zero =>
      intro _
      simp only [List.range_zero, List.foldl_nil]
      exact ⟨trivial, trivial, trivial, fun k => by rw [if_neg (by omega)]⟩
    | succ m ih =>
      intro hm
      obtain ⟨i1, i2, i3, i4⟩ := ih (by omega)
      rw [List.range_succ, List.foldl_append]
      simp only [List.foldl_cons, List.foldl_nil]
      generalize (List.range m).foldl (fun X q => giantStep X (64 * q) 64 ucol i) B = X at i1 i2 i3 i4 ⊢
      obtain ⟨g1, g2, g3, g4⟩ := giantStep_row X (64 * m) 64 ucol i (Nat.le_refl _) (by rw [i1]; omega)
      refine ⟨g1.trans i1, g2.trans i2, g3.trans i3, fun k => ?_⟩
      rw [g4, i4]
      by_cases h1 : 64 * m ≤ k ∧ k < 64 * m + 64
      · rw [if_pos h1, if_neg (by omega), if_pos (by omega)]
      · rw [if_neg h1]
        by_cases h2 : k < 64 * m
        · rw [if_pos h2, if_pos (by omega)]
        · rw [if_neg h2, if_neg (by omega)]
  obtain ⟨i1, i2, i3, i4⟩ := blocks ((B.nrows - 1) / 64) (by omega)
  generalize (List.range ((B.nrows - 1) / 64)).foldl (fun X q => giantStep X (64 * q) 64 ucol i) B = X
    at i1 i2 i3 i4 ⊢
  obtain ⟨g1, g2, g3, g4⟩ := giantStep_row X (64 * ((B.nrows - 1) / 64)) (B.nrows - 64 * ((B.nrows - 1) / 64))
    ucol i (by omega) (by rw [i1]; omega)
  refine ⟨g1.trans i1, g2.trans i2, g3.trans i3, fun k => ?_⟩
  rw [g4, i4]
  by_cases h1 : 64 * ((B.nrows - 1) / 64) ≤ k ∧
      k < 64 * ((B.nrows - 1) / 64) + (B.nrows - 64 * ((B.nrows - 1) / 64))
  · rw [if_pos h1, if_neg (by omega), if_pos (by omega)]
  · rw [if_neg h1]
    by_cases h2 : k < 64 * ((B.nrows - 1) / 64)
    · rw [if_pos h2, if_pos (by omega)]
    · rw [if_neg h2, if_neg (by omega)]

/-- one column pass is a row-wise map -/
theorem dotStep_eq_map (B : BMat) (ucol i : Nat) (hsz : B.rows.size = B.nrows) :
    dotStep B ucol i = { B with rows := B.rows.map (flipIf ucol i) } := by
  obtain ⟨d1, d2, d3, d4⟩ := dotStep_row B ucol i hsz
  apply ext_rows (B := { B with rows := B.rows.map (flipIf ucol i) }) d2 d3 (by simp [d1])
  intro k hk
  rw [d1] at hk
  rw [d4, if_pos (by omega), row_mapRows _ _ _ hk]

theorem foldl_congr_inv {α β : Type} (Inv : α → Prop) (f g : α → β → α)
    (hinv : ∀ a b, Inv a → Inv (g a b)) : ∀ (l : List β) (a : α), Inv a →
    (∀ a b, Inv a → b ∈ l → f a b = g a b) → l.foldl f a = l.foldl g a := by
  intro l
  induction l with
  | nil => intro a _ _; rfl
  | cons b l ih =>
    intro a ha h
    rw [List.foldl_cons, List.foldl_cons, h a b ha (by simp)]
    exact ih _ (hinv a b ha) (fun a' b' ha' hb' => h a' b' ha' (by simp [hb']))

/-- a sequence of column passes is a row-wise map -/
theorem dotSteps_eq_map (l : List Nat) (uc : Nat → Nat) (B : BMat) (hsz : B.rows.size = B.nrows) :
    l.foldl (fun X i => dotStep X (uc i) i) B =
      { B with rows := B.rows.map (fun x => l.foldl (fun x i => flipIf (uc i) i x) x) } := by
  rw [← foldl_mapRows l (fun i => flipIf (uc i) i) B]
  apply foldl_congr_inv (fun X => X.rows.size = X.nrows) _ _ (fun X i hX => by simpa using hX) l B hsz
  intro X i hX _
  exact dotStep_eq_map X (uc i) i hX

theorem ucolUpper_testBit (U : BMat) (i t : Nat) (hi : i < 64) :
    (ucolUpper U i).testBit t = (decide (t < i) && U.get t i) := by
  unfold ucolUpper
  rw [testBit_foldl_or (fun k => getW0 U k i)]
  simp only [Nat.zero_testBit, Bool.false_or, List.mem_range, getW0_eq _ _ _ hi]

theorem flipIf_upper (U : BMat) (i x : Nat) (hi : i < 64) : flipIf (ucolUpper U i) i x = urStep U i x := by
  unfold flipIf urStep
  rw [flipIf_cond]
  have : xsum 64 (fun t => x.testBit t && (ucolUpper U i).testBit t) = xsum i (fun t => x.testBit t && U.get t i) := by
    rw [xsum_extend (n := i) (m := 64) (by omega) (fun t h1 _ => by
      rw [ucolUpper_testBit _ _ _ hi]
      have : ¬ t < i := by omega
      simp [this])]
    apply xsum_congr
    intro t ht
    rw [ucolUpper_testBit _ _ _ hi]
    simp [ht]
  rw [this]

theorem upperRight_row (U : BMat) (nb x : Nat) (h64 : nb ≤ 64) :
    (List.range' 1 (nb - 1)).foldl (fun x i => flipIf (ucolUpper U i) i x) x = urF U nb x := by
  unfold urF
  rcases Nat.eq_zero_or_pos nb with h0 | hpos
  · subst h0; simp
  · have hr : List.range nb = 0 :: List.range' 1 (nb - 1) := by
      rw [List.range_eq_range']
      have : nb = (nb - 1) + 1 := by omega
      rw [this, List.range'_succ]
      simp
    rw [hr, List.foldl_cons]
    have h0 : urStep U 0 x = x := by simp [urStep]
    rw [h0]
    apply foldl_congr_mem
    intro y i hi
    obtain ⟨t, ht, rfl⟩ := List.mem_range'.mp hi
    exact flipIf_upper U _ y (by omega)

/-- **`_mzd_trsm_upper_right_base(U, B)` = column-wise substitution** for `nb ≤ 64` -/
theorem upperRightBase_eq {U B : BMat} (hB : B.WF) (h64 : B.ncols ≤ 64) :
    upperRightBase U B = trsmUpperRight U B := by
  unfold upperRightBase
  rw [dotSteps_eq_map _ _ _ hB.1, trsmUpperRight_eq]
  have hf : (fun x => (List.range' 1 (B.ncols - 1)).foldl (fun x i => flipIf (ucolUpper U i) i x) x) =
      urF U B.ncols := by
    funext x
    exact upperRight_row U B.ncols x h64
  rw [hf]

theorem ucolLower_testBit (L : BMat) (i nb t : Nat) (hi : i < 64) :
    (ucolLower L i nb).testBit t = (decide (i < t ∧ t < nb) && L.get t i) := by
  unfold ucolLower
  rw [testBit_foldl_or (fun k => getW0 L k i)]
  simp only [Nat.zero_testBit, Bool.false_or, getW0_eq _ _ _ hi]
  congr 1
  apply decide_eq_decide.mpr
  rw [List.mem_range']
  constructor
  · rintro ⟨u, hu, rfl⟩; omega
  · intro h; exact ⟨t - (i + 1), by omega, by omega⟩

theorem flipIf_lower (L : BMat) (i nb x : Nat) (hi : i < nb) (hnb : nb ≤ 64) :
    flipIf (ucolLower L i nb) i x = lrStep L nb i x := by
  unfold flipIf lrStep
  rw [flipIf_cond]
  have : xsum 64 (fun t => x.testBit t && (ucolLower L i nb).testBit t) =
      xsum nb (fun t => decide (i < t) && (x.testBit t && L.get t i)) := by
    rw [xsum_extend (n := nb) (m := 64) hnb (fun t h1 _ => by
      rw [ucolLower_testBit _ _ _ _ (by omega)]
      have : ¬ (i < t ∧ t < nb) := by omega
      simp [this])]
    apply xsum_congr
    intro t ht
    rw [ucolLower_testBit _ _ _ _ (by omega)]
    by_cases h : i < t
    · have : i < t ∧ t < nb := ⟨h, ht⟩
      simp [h, this]
    · have : ¬ (i < t ∧ t < nb) := fun hh => h hh.1
      simp [h, this]
  rw [this]

theorem lowerRight_row (L : BMat) (nb x : Nat) (h64 : nb ≤ 64) :
    (List.range nb).reverse.foldl (fun x i => flipIf (ucolLower L i nb) i x) x = lrH L nb nb x := by
  unfold lrH
  apply foldl_congr_mem
  intro y i hi
  have hi' : i < nb := List.mem_range.mp (List.mem_reverse.mp hi)
  exact flipIf_lower L i nb y hi' h64

/-- **`_mzd_trsm_lower_right_base(L, B)` = column-wise substitution** for `nb ≤ 64` -/
theorem lowerRightBase_eq {L B : BMat} (hB : B.WF) (h64 : B.ncols ≤ 64) :
    lowerRightBase L B = trsmLowerRight L B := by
  unfold lowerRightBase
  rw [dotSteps_eq_map _ _ _ hB.1, trsmLowerRight_eq]
  have hf : (fun x => (List.range B.ncols).reverse.foldl (fun x i => flipIf (ucolLower L i B.ncols) i x) x) =
      lrH L B.ncols B.ncols := by
    funext x
    exact lowerRight_row L B.ncols x h64
  rw [hf]

/-! ## 4. the complete left solves and the complete lower-right solve -/

open Rec in
/-- **the complete `_mzd_trsm_lower_left`** (kernel for `mb ≤ 64`, Four Russians up to the block size, recursion
    above) is forward substitution: every fuel, every build parameter, every prior content of the index arrays -/
theorem lowerLeftFull_eq (P : Params) (junk : Nat → Nat) (fuel : Nat) {L B : BMat} (hB : B.WF)
    (hLr : L.nrows = B.nrows) : lowerLeftFull P junk fuel L B = trsmLowerLeft L B := by
  induction fuel generalizing L B with
  | zero => rfl
  | succ fuel ih =>
    rw [lowerLeftFull]
    simp only []
    split
    · rename_i h; exact lowerLeftKernel_eq hB h
    · split
      · exact lowerLeftRussianK_eq hB _ _ _
      · have hk := splitPoint_le B.nrows
        rw [ih (WF_sub _ _ _ _ _) (by simp; omega)]
        rw [ih (WF_addmul (WF_sub _ _ _ _ _) (trsmLowerLeft_WF _ (WF_sub _ _ _ _ _)) (by simp))
          (by simp; omega)]
        exact lowerLeft_block hB hLr _ hk

open Rec in
/-- **the complete `_mzd_trsm_upper_left`** is backward substitution -/
theorem upperLeftFull_eq (P : Params) (junk : Nat → Nat) (fuel : Nat) {U B : BMat} (hB : B.WF)
    (hUr : U.nrows = B.nrows) : upperLeftFull P junk fuel U B = trsmUpperLeft U B := by
  induction fuel generalizing U B with
  | zero => rfl
  | succ fuel ih =>
    rw [upperLeftFull]
    simp only []
    split
    · rename_i h; exact upperLeftKernel_eq hB h
    · split
      · exact upperLeftRussianK_eq hB _ _ _
      · have hk := splitPoint_le B.nrows
        rw [ih (WF_sub _ _ _ _ _) (by simp; omega)]
        rw [ih (WF_addmul (WF_sub _ _ _ _ _) (trsmUpperLeft_WF _ (WF_sub _ _ _ _ _)) (by simp))
          (by simp; omega)]
        exact upperLeft_block hB hUr _ hk

open Rec in
/-- **the complete `_mzd_trsm_lower_right`** (64-column parity kernel + recursion) is column-wise substitution -/
theorem lowerRightFull_eq (fuel : Nat) {L B : BMat} (hB : B.WF) (hLr : L.nrows = B.ncols) :
    lowerRightFull fuel L B = trsmLowerRight L B := by
  induction fuel generalizing L B with
  | zero => rfl
  | succ fuel ih =>
    rw [lowerRightFull]
    simp only []
    split
    · rename_i h; exact lowerRightBase_eq hB h
    · have hk := splitPoint_le B.ncols
      rw [ih (WF_sub _ _ _ _ _) (by simp; omega)]
      rw [ih (WF_addmul (WF_sub _ _ _ _ _) (WF_sub _ _ _ _ _) (by simp)) (by simp; omega)]
      exact lowerRight_block hB hLr _ hk

/-! ## 5. in-place inversion: `mzd_trtri_upper_russian` -/

/-- row `i` of the partially inverted matrix "at level `d`", entry `c > i`:
    `Σ_{t < min c d} V[i,t]·U[t,c]` — for `c < d` this is `V[i,c]`, for `c ≥ d` it is entry `c` of
    `(V restricted to the columns < d) · U` -/
def lv (U V : BMat) (i d c : Nat) : Bool := xsum (min c d) (fun t => V.get i t && U.get t c)

section algebra
variable {U V : BMat} {n : Nat}
  (hV3 : ∀ i c, i < c → c < n → V.get i c = xsum c (fun t => V.get i t && U.get t c))
  (hVlow : ∀ i t, t < i → V.get i t = false)
  (hVdiag : ∀ i, i < n → V.get i i = true)
include hV3 hVlow hVdiag

theorem lv_self (i c : Nat) (hic : i < c) (hc : c < n) (d : Nat) (hd : c ≤ d) : lv U V i d c = V.get i c := by
  unfold lv
  rw [Nat.min_eq_left hd, hV3 i c hic hc]

theorem lv_next (i c : Nat) (hi : i < n) (hic : i < c) : lv U V i (i + 1) c = U.get i c := by
  unfold lv
  rw [Nat.min_eq_right (by omega), xsum_succ, hVdiag i hi,
    xsum_false (fun t ht => by rw [hVlow i t ht]; rfl)]
  simp

theorem lv_succ (i d c : Nat) :
    lv U V i (d + 1) c = (lv U V i d c ^^ (decide (d < c) && (V.get i d && U.get d c))) := by
  unfold lv
  by_cases h : d < c
  · rw [Nat.min_eq_right (by omega), Nat.min_eq_right (by omega), xsum_succ]
    simp [h]
  · rw [Nat.min_eq_left (by omega), Nat.min_eq_left (by omega)]
    simp [h]

/-- **block elimination**: a row at level `c` to which the rows `c … c+k-1` (each at level `c + k`, entries right
    of their diagonal) are added according to its own bits `c … c+k-1` is at level `c + k` -/
theorem blockStep (j c : Nat) (hjc : j < c) : ∀ k, c + k ≤ n → ∀ p,
    lv U V j (c + k) p =
      (lv U V j c p ^^ xsum k (fun l => lv U V j c (c + l) && (decide (c + l < p) && lv U V (c + l) (c + k) p))) := by
  intro k
  induction k with
  | zero => intro _ p; simp
  | succ k ih =>
    intro hk p
    have ihp := ih (by omega) p
    have ihc := ih (by omega) (c + k)
    -- the claim `V[j, c+k] = a_k + Σ_{l<k} a_l V[c+l, c+k]`
    have claim : V.get j (c + k) =
        (lv U V j c (c + k) ^^ xsum k (fun l => lv U V j c (c + l) && V.get (c + l) (c + k))) := by
      rw [← lv_self hV3 hVlow hVdiag j (c + k) (by omega) (by omega) (c + k) (Nat.le_refl _), ihc]
      congr 1
      apply xsum_congr
      intro l hl
      rw [lv_self hV3 hVlow hVdiag (c + l) (c + k) (by omega) (by omega) (c + k) (Nat.le_refl _)]
      have : c + l < c + k := by omega
      simp [this]
    rw [← Nat.add_assoc, lv_succ hV3 hVlow hVdiag, xsum_succ, ihp, claim]
    have e1 : xsum k (fun l => lv U V j c (c + l) && (decide (c + l < p) && lv U V (c + l) (c + k + 1) p)) =
        (xsum k (fun l => lv U V j c (c + l) && (decide (c + l < p) && lv U V (c + l) (c + k) p)) ^^
          (decide (c + k < p) && (xsum k (fun l => lv U V j c (c + l) && V.get (c + l) (c + k)) && U.get (c + k) p))) := by
      rw [← xsum_and_right, ← xsum_and_left, ← xsum_xor]
      apply xsum_congr
      intro l hl
      rw [lv_succ hV3 hVlow hVdiag]
      by_cases h : c + k < p
      · have : c + l < p := by omega
        simp only [h, this, decide_true, Bool.true_and]
        cases lv U V j c (c + l) <;> cases lv U V (c + l) (c + k) p <;> cases V.get (c + l) (c + k) <;>
          cases U.get (c + k) p <;> rfl
      · simp only [h, decide_false, Bool.false_and, Bool.xor_false]
    have e2 : lv U V (c + k) (c + k + 1) p = (decide (c + k < p) && U.get (c + k) p) := by
      by_cases h : c + k < p
      · rw [lv_next hV3 hVlow hVdiag (c + k) p (by omega) h]; simp [h]
      · unfold lv
        rw [Nat.min_eq_left (by omega)]
        simp only [h, decide_false, Bool.false_and]
        apply xsum_false
        intro t ht
        rw [hVlow (c + k) t (by omega)]; rfl
    rw [e1, e2]
    generalize xsum k (fun l => lv U V j c (c + l) && (decide (c + l < p) && lv U V (c + l) (c + k) p)) = A
    generalize xsum k (fun l => lv U V j c (c + l) && V.get (c + l) (c + k)) = Bx
    cases lv U V j c p <;> cases A <;> cases decide (c + k < p) <;> cases lv U V j c (c + k) <;> cases Bx <;>
      cases U.get (c + k) p <;> rfl

end algebra

/-- a row value of the partially inverted matrix: left of and on the diagonal what `U` stores, right of it the
    level-`d` entries -/
structure AtLevel (U V : BMat) (n j d v : Nat) : Prop where
  lt : v < 2 ^ n
  bit : ∀ p, p < n → v.testBit p = if p ≤ j then U.get j p else lv U V j d p

section rows
variable {U V : BMat} {n : Nat}
  (hV3 : ∀ i c, i < c → c < n → V.get i c = xsum c (fun t => V.get i t && U.get t c))
  (hVlow : ∀ i t, t < i → V.get i t = false)
  (hVdiag : ∀ i, i < n → V.get i i = true)
include hV3 hVlow hVdiag

/-- the elimination step on one row -/
theorem AtLevel.elim {j c k v v' : Nat} (h : AtLevel U V n j c v) (hjc : j < c) (hck : c + k ≤ n)
    (hv' : v' < 2 ^ n) (R : Nat → Nat → Bool)
    (hR : ∀ l p, l < k → c + l < p → p < n → R l p = lv U V (c + l) (c + k) p)
    (hbit : ∀ p, p < n → v'.testBit p =
      (v.testBit p ^^ xsum k (fun l => v.testBit (c + l) && (decide (c + l < p) && R l p)))) :
    AtLevel U V n j (c + k) v' := by
  refine ⟨hv', fun p hp => ?_⟩
  rw [hbit p hp, h.bit p hp]
  by_cases hpj : p ≤ j
  · rw [if_pos hpj, if_pos hpj, xsum_false (fun l hl => by
      have : ¬ c + l < p := by omega
      simp [this])]
    simp
  · rw [if_neg hpj, if_neg hpj, blockStep hV3 hVlow hVdiag j c hjc k hck p]
    congr 1
    apply xsum_congr
    intro l hl
    rw [h.bit (c + l) (by omega), if_neg (by omega)]
    by_cases hlp : c + l < p
    · rw [hR l p hl hlp hp]
    · simp [hlp]

end rows

/-! ### the PLE-style tables of the inversion -/

theorem getD_mapIdx (a : Array Nat) (f : Nat → Nat → Nat) (i : Nat) :
    (a.mapIdx f).getD i 0 = if i < a.size then f i (a.getD i 0) else 0 := by
  by_cases h : i < a.size <;> simp [Array.getD, h]

theorem getD_map' (a : Array Nat) (f : Nat → Nat) (i : Nat) :
    (a.map f).getD i 0 = if i < a.size then f (a.getD i 0) else 0 := by
  by_cases h : i < a.size <;> simp [Array.getD, h]

theorem bitsAt_zero (y n : Nat) : bitsAt 0 y n = 0 := by simp [bitsAt]

theorem getD_pleToE (A : BMat) (r c k l : Nat) (hl : l < k) :
    (pleToE A r c k).getD l 0 =
      (A.row (r + l) % 2 ^ (64 * (c / 64))) ||| ((A.row (r + l) >>> (c + l)) <<< (c + l)) := by
  simp [pleToE, Array.getD, hl]

/-- the Bool algebra of one table row: Gray-code combination of the rows cleared left of their diagonal,
    minus the unit diagonal block (`ord << c`) -/
theorem tab_bits (x k c lo N p : Nat) (Sg : Nat → Bool) (hlo : lo ≤ c) (hx : x < 2 ^ k) (hck : c + k ≤ N)
    (hd : c ≤ p → p - c < k → Sg (p - c) = true) :
    (((decide (lo ≤ p) && decide (p < N)) &&
        xsum k (fun l => x.testBit l && ((decide (p < lo) && Sg l) || (decide (c + l ≤ p) && Sg l)))) ^^
      (decide (c ≤ p) && x.testBit (p - c))) =
    (decide (p < N) && xsum k (fun l => x.testBit l && (decide (c + l < p) && Sg l))) := by
  by_cases hpn : p < N
  · by_cases hpc : c ≤ p
    · have h1 : lo ≤ p := by omega
      have h2 : ¬ p < lo := by omega
      simp only [h1, hpn, hpc, h2, decide_true, decide_false, Bool.true_and, Bool.false_and, Bool.false_or]
      by_cases hq : p - c < k
      · rw [xsum_split3 k _ (p - c) hq]
        have e1 : c + (p - c) = p := by omega
        have e3 : xsum k (fun t => decide (p - c < t) &&
            (x.testBit t && (decide (c + t ≤ p) && Sg t))) = false := by
          apply xsum_false
          intro t ht
          by_cases h : p - c < t
          · have : ¬ c + t ≤ p := by omega
            simp [this]
          · simp [h]
        have e4 : xsum (p - c) (fun t => x.testBit t && (decide (c + t ≤ p) && Sg t)) =
            xsum k (fun l => x.testBit l && (decide (c + l < p) && Sg l)) := by
          rw [xsum_extend (n := p - c) (m := k) (by omega) (fun t h1 _ => by
            have : ¬ c + t < p := by omega
            simp [this])]
          apply xsum_congr
          intro t ht
          have a : c + t ≤ p := by omega
          have b : c + t < p := by omega
          simp [a, b]
        rw [e3, e4, e1, hd hpc hq]
        simp
      · have hxq : x.testBit (p - c) = false :=
          Nat.testBit_lt_two_pow (Nat.lt_of_lt_of_le hx (Nat.pow_le_pow_right (by omega) (by omega)))
        rw [hxq, Bool.xor_false]
        apply xsum_congr
        intro l hl
        have a : c + l ≤ p := by omega
        have b : c + l < p := by omega
        simp [a, b]
    · simp only [hpc, decide_false, Bool.false_and, Bool.xor_false, hpn, decide_true, Bool.and_true,
        Bool.true_and]
      rw [xsum_false (f := fun l => x.testBit l && (decide (c + l < p) && Sg l)) (fun l hl => by
        have a : ¬ c + l < p := by omega
        simp [a])]
      by_cases h1 : lo ≤ p
      · have h2 : ¬ p < lo := by omega
        simp only [h1, h2, decide_true, decide_false, Bool.true_and, Bool.false_and, Bool.false_or]
        apply xsum_false
        intro l hl
        have a : ¬ c + l ≤ p := by omega
        simp [a]
      · simp [h1]
  · have hxq : x.testBit (p - c) = false :=
      Nat.testBit_lt_two_pow (Nat.lt_of_lt_of_le hx (Nat.pow_le_pow_right (by omega) (by omega)))
    simp [hpn, hxq]

/-- the components of `makeTableTrtri (pleToE S c c k) …` -/
def ttT (S : BMat) (c k : Nat) (junk : Nat → Nat) : Array Nat :=
  (makeTable (pleToE S c c k) k S.ncols 0 (64 * (c / 64)) k (freshTable k junk).1 (freshTable k junk).2).1.mapIdx
    fun i t => t ^^^ ((buildOrd k).getD i 0 <<< c)
def ttE (S : BMat) (c k : Nat) (junk : Nat → Nat) : Array Nat :=
  (makeTable (pleToE S c c k) k S.ncols 0 (64 * (c / 64)) k (freshTable k junk).1 (freshTable k junk).2).2

theorem makeTableTrtri_eq (S : BMat) (c k r0 : Nat) (junk : Nat → Nat) :
    makeTableTrtri (pleToE S c c k) S.ncols c k r0 junk =
      (k, ttT S c k junk, ttE S c k junk,
        (ttT S c k junk).map fun t => bitsAt t r0 (min 64 (S.ncols - r0))) := rfl

/-- what one lookup in the table of the diagonal block `[c, c + k)` of `S` returns: the XOR over the set bits
    `l` of `x` of the part of row `c + l` right of its diagonal entry -/
theorem ttT_lookup (S : BMat) (c k : Nat) (junk : Nat → Nat) (hck : c + k ≤ S.ncols)
    (hdiag : ∀ l, l < k → S.get (c + l) (c + l) = true) (x : Nat) (hx : x < 2 ^ k) (p : Nat) :
    ((ttT S c k junk).getD ((ttE S c k junk).getD x 0) 0).testBit p =
      (decide (p < S.ncols) && xsum k (fun l => x.testBit l && (decide (c + l < p) && S.get (c + l) p))) := by
  obtain ⟨s1, s2, l3, l4, l5⟩ := makeTable_lookup (pleToE S c c k) k S.ncols 0 (64 * (c / 64)) k
    (freshTable k junk).1 (freshTable k junk).2 (by omega) (by simp [freshTable]) (by simp [freshTable])
    (by simp [freshTable, Array.getD, Nat.two_pow_pos]) x hx
  unfold ttT ttE
  rw [getD_mapIdx, if_pos (by rw [s1]; exact l3), l5, l4, Nat.testBit_xor, combRows_testBit, colMask_testBit,
    ← xsum_eq_foldl, Nat.testBit_shiftLeft]
  have hE : ∀ l, l < k → ((pleToE S c c k).getD (0 + l) 0).testBit p =
      ((decide (p < 64 * (c / 64)) && S.get (c + l) p) || (decide (c + l ≤ p) && S.get (c + l) p)) := by
    intro l hl
    rw [Nat.zero_add, getD_pleToE _ _ _ _ _ hl, Nat.testBit_or, Nat.testBit_mod_two_pow, testBit_shift_back]
    rfl
  rw [xsum_congr (fun l hl => by rw [hE l hl])]
  exact tab_bits x k c (64 * (c / 64)) S.ncols p (fun l => S.get (c + l) p) (by omega) hx hck
    (fun h1 h2 => by
      have := hdiag (p - c) h2
      have e : c + (p - c) = p := by omega
      show S.get (c + (p - c)) p = true
      rw [e] at this ⊢
      exact this)

theorem ttB_getD (S : BMat) (c k r0 : Nat) (junk : Nat → Nat) (z : Nat) :
    ((ttT S c k junk).map fun t => bitsAt t r0 (min 64 (S.ncols - r0))).getD z 0 =
      bitsAt ((ttT S c k junk).getD z 0) r0 (min 64 (S.ncols - r0)) := by
  rw [getD_map']
  split
  · rfl
  · rename_i h
    rw [bitsAt_zero]

/-! ### `_mzd_process_rows_ple_N`: the `bits ^= B[x]` bookkeeping is the sequential application of the tables -/

/-- table after table, each lookup reading the *current* row -/
def seqApply : List PleTable → Nat → Nat → Nat
  | [], v, _ => v
  | (k, T, E, _) :: rest, v, c => seqApply rest (v ^^^ T.getD (E.getD (bitsAt v c k) 0) 0) (c + k)

def ksum (tabs : List PleTable) : Nat := (tabs.map fun t => t.1).sum

theorem ksum_cons (t : PleTable) (rest : List PleTable) : ksum (t :: rest) = t.1 + ksum rest := by
  simp [ksum]

theorem pleApply_seq (r0 toread : Nat) : ∀ (tabs : List PleTable) (bits sh v : Nat),
    (∀ t, t ∈ tabs → ∀ z, t.2.2.2.getD z 0 = bitsAt (t.2.1.getD z 0) r0 toread) →
    sh + ksum tabs ≤ toread →
    (∀ l, sh ≤ l → l < sh + ksum tabs → bits.testBit l = v.testBit (r0 + l)) →
    v ^^^ pleApply tabs bits sh = seqApply tabs v (r0 + sh) := by
  intro tabs
  induction tabs with
  | nil => intro bits sh v _ _ _; simp [pleApply, seqApply]
  | cons t rest ih =>
    intro bits sh v hB hle hbits
    obtain ⟨k, T, E, Bv⟩ := t
    rw [ksum_cons] at hle hbits
    have hx : (bits >>> sh) % 2 ^ k = bitsAt v (r0 + sh) k := by
      apply Nat.eq_of_testBit_eq
      intro l
      rw [Nat.testBit_mod_two_pow, Nat.testBit_shiftRight, M4RI.testBit_bitsAt]
      by_cases hl : l < k
      · rw [hbits (sh + l) (by omega) (by omega), Nat.add_assoc]
      · simp [hl]
    rw [pleApply, seqApply]
    rw [hx, ← Nat.xor_assoc]
    have hBv : ∀ z, Bv.getD z 0 = bitsAt (T.getD z 0) r0 toread := hB (k, T, E, Bv) (by simp)
    rw [hBv, Nat.add_assoc]
    apply ih
    · intro t ht; exact hB t (by simp [ht])
    · omega
    · intro l h1 h2
      rw [Nat.testBit_xor, Nat.testBit_xor, M4RI.testBit_bitsAt, hbits l (by omega) (by omega)]
      have : l < toread := by omega
      simp [this]

/-- `t` is the table of the block `[c, c + k)` whose rows are at level `c + k` -/
def GoodTab (U V : BMat) (n c : Nat) (t : PleTable) : Prop :=
  c + t.1 ≤ n ∧ ∀ x, x < 2 ^ t.1 → ∀ p, (t.2.1.getD (t.2.2.1.getD x 0) 0).testBit p =
    (decide (p < n) && xsum t.1 (fun l => x.testBit l && (decide (c + l < p) && lv U V (c + l) (c + t.1) p)))

def GoodTabs (U V : BMat) (n : Nat) : Nat → List PleTable → Prop
  | _, [] => True
  | c, t :: rest => GoodTab U V n c t ∧ GoodTabs U V n (c + t.1) rest

theorem bitsAt_lt (a y n : Nat) : bitsAt a y n < 2 ^ n := Nat.mod_lt _ (Nat.two_pow_pos n)

section rows2
variable {U V : BMat} {n : Nat}
  (hV3 : ∀ i c, i < c → c < n → V.get i c = xsum c (fun t => V.get i t && U.get t c))
  (hVlow : ∀ i t, t < i → V.get i t = false)
  (hVdiag : ∀ i, i < n → V.get i i = true)
include hV3 hVlow hVdiag

theorem seqApply_level (j : Nat) : ∀ (tabs : List PleTable) (c v : Nat), GoodTabs U V n c tabs →
    AtLevel U V n j c v → j < c → AtLevel U V n j (c + ksum tabs) (seqApply tabs v c) := by
  intro tabs
  induction tabs with
  | nil => intro c v _ h _; simpa [ksum, seqApply] using h
  | cons t rest ih =>
    intro c v hg h hjc
    obtain ⟨k, T, E, Bv⟩ := t
    obtain ⟨⟨g1, g2⟩, g3⟩ := hg
    simp only at g1 g2 g3
    rw [ksum_cons, seqApply, ← Nat.add_assoc]
    apply ih _ _ g3 _ (by omega)
    have hbits := g2 (bitsAt v c k) (bitsAt_lt _ _ _)
    apply h.elim hV3 hVlow hVdiag hjc g1 _ (fun l p => lv U V (c + l) (c + k) p) (fun _ _ _ _ _ => rfl)
    · intro p hp
      rw [Nat.testBit_xor, hbits p]
      congr 1
      simp only [hp, decide_true, Bool.true_and]
      apply xsum_congr
      intro l hl
      rw [M4RI.testBit_bitsAt]
      simp [hl]
    · apply Nat.xor_lt_two_pow h.lt
      apply Nat.lt_pow_two_of_testBit
      intro p hp
      rw [hbits p]
      have : ¬ p < n := by omega
      simp [this]

end rows2

theorem processRowsPle_row (A : BMat) (startrow stoprow startcol : Nat) (tabs : List PleTable)
    (h : stoprow ≤ A.rows.size) :
    (processRowsPle A startrow stoprow startcol tabs).rows.size = A.rows.size ∧
    (processRowsPle A startrow stoprow startcol tabs).nrows = A.nrows ∧
    (processRowsPle A startrow stoprow startcol tabs).ncols = A.ncols ∧
    ∀ k, (processRowsPle A startrow stoprow startcol tabs).row k =
      if startrow ≤ k ∧ k < stoprow then
        A.row k ^^^ pleApply tabs (bitsAt (A.row k) startcol (ksum tabs)) 0 else A.row k := by
  unfold processRowsPle
  simp only []
  obtain ⟨k1, k2, k3, k4⟩ := M4RI.foldl_rows
    (fun X r => X.setRow r (X.row r ^^^ pleApply tabs (bitsAt (X.row r) startcol (ksum tabs)) 0))
    (fun v => v ^^^ pleApply tabs (bitsAt v startcol (ksum tabs)) 0)
    (fun M i hi => ⟨size_setRow _ _ _, rfl, rfl, fun k => by
      rw [row_setRow]
      by_cases e : k = i
      · rw [if_pos ⟨e, hi⟩, if_pos e]
      · rw [if_neg (fun h => e h.1), if_neg e]⟩)
    (stoprow - startrow) startrow A (fun _ => by omega)
  refine ⟨k1, k2, k3, fun k => ?_⟩
  have := k4 k
  unfold ksum at this
  rw [this]
  by_cases hk : startrow ≤ k ∧ k < stoprow
  · rw [if_pos hk, if_pos (by omega)]; rfl
  · rw [if_neg hk, if_neg (by omega)]

theorem processRows1_row (A : BMat) (startrow stoprow c k : Nat) (T L : Array Nat) (h : stoprow ≤ A.rows.size) :
    (M4RI.processRows A startrow stoprow c k [(k, T, L)]).rows.size = A.rows.size ∧
    (M4RI.processRows A startrow stoprow c k [(k, T, L)]).nrows = A.nrows ∧
    (M4RI.processRows A startrow stoprow c k [(k, T, L)]).ncols = A.ncols ∧
    ∀ i, (M4RI.processRows A startrow stoprow c k [(k, T, L)]).row i =
      if startrow ≤ i ∧ i < stoprow then
        A.row i ^^^ T.getD (L.getD (bitsAt (A.row i) c k) 0) 0 else A.row i := by
  unfold M4RI.processRows
  have hmod : ∀ v, bitsAt v c k % 2 ^ k = bitsAt v c k := fun v => Nat.mod_eq_of_lt (bitsAt_lt _ _ _)
  obtain ⟨k1, k2, k3, k4⟩ := M4RI.foldl_rows
    (fun M i =>
      if (([(k, T, L)] : List M4RI.Table).length ≥ 2 &&
          (M4RI.applyTables [(k, T, L)] (bitsAt (M.row i) c k)).2) = true then M
      else M.setRow i (M.row i ^^^ (M4RI.applyTables [(k, T, L)] (bitsAt (M.row i) c k)).1))
    (fun v => v ^^^ T.getD (L.getD (bitsAt v c k) 0) 0)
    (fun M i hi => by
      have : (([(k, T, L)] : List M4RI.Table).length ≥ 2 &&
          (M4RI.applyTables [(k, T, L)] (bitsAt (M.row i) c k)).2) = false := by simp
      rw [this]
      simp only [Bool.false_eq_true, if_false]
      refine ⟨size_setRow _ _ _, rfl, rfl, fun j => ?_⟩
      rw [row_setRow]
      by_cases e : j = i
      · rw [if_pos ⟨e, hi⟩, if_pos e]
        simp [M4RI.applyTables, hmod]
      · rw [if_neg (fun h => e h.1), if_neg e])
    (stoprow - startrow) startrow A (fun _ => by omega)
  refine ⟨k1, k2, k3, fun i => ?_⟩
  rw [k4]
  by_cases hk : startrow ≤ i ∧ i < stoprow
  · rw [if_pos hk, if_pos (by omega)]
  · rw [if_neg hk, if_neg (by omega)]

/-! ### the state of the in-place inversion -/

/-- every row `i < n` of `S` is at level `d i` -/
structure TS (U V : BMat) (n : Nat) (S : BMat) (d : Nat → Nat) : Prop where
  size : S.rows.size = n
  nr : S.nrows = n
  nc : S.ncols = n
  row : ∀ i, i < n → AtLevel U V n i (d i) (S.row i)

theorem TS.congr {U V S : BMat} {n : Nat} {d d' : Nat → Nat} (h : TS U V n S d)
    (hd : ∀ i, i < n → d' i = d i) : TS U V n S d' :=
  ⟨h.size, h.nr, h.nc, fun i hi => by rw [hd i hi]; exact h.row i hi⟩

theorem TS.wf {U V S : BMat} {n : Nat} {d : Nat → Nat} (h : TS U V n S d) : S.WF := by
  refine ⟨by rw [h.size, h.nr], fun i => ?_⟩
  rw [h.nc]
  by_cases hi : i < n
  · exact (h.row i hi).lt
  · rw [row_of_ge _ _ (by rw [h.size]; omega)]; exact Nat.two_pow_pos n

theorem TS.get {U V S : BMat} {n : Nat} {d : Nat → Nat} (h : TS U V n S d) (i p : Nat) (hi : i < n) (hp : p < n) :
    S.get i p = if p ≤ i then U.get i p else lv U V i (d i) p := (h.row i hi).bit p hp

/-- rows `< r0` at level `r0`, the others at level `max c (i+1)` (untouched when `c ≤ i`) -/
def Dm (r0 c : Nat) (i : Nat) : Nat := if i < r0 then r0 else max c (i + 1)
/-- inside column `q` of `_mzd_trtri_upper_submatrix`: the rows `[r0, j')` have been done -/
def Di (r0 q j' : Nat) (i : Nat) : Nat :=
  if i < r0 then r0 else if i < j' then max (q + 1) (i + 1) else max q (i + 1)

section inv
variable {U V : BMat} {n : Nat}
  (hV3 : ∀ i c, i < c → c < n → V.get i c = xsum c (fun t => V.get i t && U.get t c))
  (hVlow : ∀ i t, t < i → V.get i t = false)
  (hVdiag : ∀ i, i < n → V.get i i = true)
include hV3 hVlow hVdiag

/-- `if (mzd_read_bit(A, j, p) && p + 1 < A->ncols) mzd_row_add_offset(A, j, p, p + 1)` -/
theorem TS.addRow {S : BMat} {d d' : Nat → Nat} (h : TS U V n S d) {j p : Nat} (hj : j < p) (hp : p < n)
    (hdj : d j = p) (hdp : d p = p + 1) (hd' : ∀ i, i < n → d' i = if i = j then p + 1 else d i) :
    TS U V n (if S.get j p ∧ p + 1 < S.ncols then S.addRowFrom j p (p + 1) else S) d' := by
  have hrowj := h.row j (by omega)
  rw [hdj] at hrowj
  have hR : ∀ l q, l < 1 → p + l < q → q < n → (S.row p).testBit q = lv U V (p + l) (p + 1) q := by
    intro l q hl hq hqn
    have : l = 0 := by omega
    subst this
    have := (h.row p hp).bit q hqn
    rw [if_neg (by omega), hdp] at this
    exact this
  by_cases hc : S.get j p ∧ p + 1 < S.ncols
  · rw [if_pos hc]
    have hrow := fun k => row_addRowFrom h.wf j p (p + 1) k (by rw [h.nr]; omega)
    refine ⟨by simp [addRowFrom, h.size], h.nr, h.nc, fun i hi => ?_⟩
    rw [hrow, hd' i hi]
    by_cases e : i = j
    · subst e
      rw [if_pos rfl, if_pos rfl]
      apply hrowj.elim hV3 hVlow hVdiag hj (by omega)
        (Nat.xor_lt_two_pow hrowj.lt (shift_back_lt _ (h.row p hp).lt))
        (fun _ q => (S.row p).testBit q) hR
      intro q hq
      rw [Nat.testBit_xor, testBit_shift_back, xsum_succ, xsum_zero]
      simp only [Nat.add_zero]
      have : (S.row i).testBit p = true := hc.1
      rw [this]
      have e2 : decide (p + 1 ≤ q) = decide (p < q) := decide_eq_decide.mpr (by omega)
      rw [e2]
      simp
    · rw [if_neg e, if_neg e]
      exact h.row i hi
  · rw [if_neg hc]
    refine ⟨h.size, h.nr, h.nc, fun i hi => ?_⟩
    rw [hd' i hi]
    by_cases e : i = j
    · subst e
      rw [if_pos rfl]
      apply hrowj.elim hV3 hVlow hVdiag hj (by omega) hrowj.lt (fun _ q => (S.row p).testBit q) hR
      intro q hq
      rw [xsum_succ, xsum_zero]
      simp only [Nat.add_zero]
      by_cases g : S.get i p = true
      · have : ¬ p < q := by
          intro hpq
          apply hc
          exact ⟨g, by rw [h.nc]; omega⟩
        simp [this]
      · have : (S.row i).testBit p = false := by simpa [BMat.get] using g
        simp [this]
    · rw [if_neg e]
      exact h.row i hi

theorem trtriInner {S : BMat} {r0 q : Nat} (hr : r0 ≤ q) (hq : q < n) : ∀ m, r0 + m ≤ q →
    TS U V n S (Di r0 q r0) →
    TS U V n ((List.range' r0 m).foldl (fun X j =>
      if X.get j q ∧ q + 1 < X.ncols then X.addRowFrom j q (q + 1) else X) S) (Di r0 q (r0 + m)) := by
  intro m
  induction m with
  | zero => intro _ h; exact h
  | succ m ih =>
    intro hm h
    have h1 := ih (by omega) h
    rw [List.range'_1_concat, List.foldl_append]
    simp only [List.foldl_cons, List.foldl_nil]
    generalize (List.range' r0 m).foldl (fun X j =>
      if X.get j q ∧ q + 1 < X.ncols then X.addRowFrom j q (q + 1) else X) S = S1 at h1 ⊢
    apply h1.addRow hV3 hVlow hVdiag (j := r0 + m) (p := q) (by omega) hq
    · unfold Di; rw [if_neg (by omega), if_neg (by omega)]; omega
    · unfold Di; rw [if_neg (by omega), if_neg (by omega)]; omega
    · intro i hi
      unfold Di
      by_cases e : i = r0 + m
      · rw [if_pos e, if_neg (by omega), if_pos (by omega)]; omega
      · rw [if_neg e]
        by_cases a : i < r0
        · rw [if_pos a, if_pos a]
        · rw [if_neg a, if_neg a]
          by_cases b : i < r0 + m
          · rw [if_pos b, if_pos (by omega)]
          · rw [if_neg b, if_neg (by omega)]

/-- `_mzd_trtri_upper_submatrix(A, c, r0, k)` brings the rows `[r0, c + k)` to level `c + k` -/
theorem trtriSub {r0 c : Nat} (hr : r0 ≤ c) : ∀ (a : Nat) (S : BMat), c + a ≤ n → TS U V n S (Dm r0 c) →
    TS U V n (trtriSubmatrix S c r0 a) (Dm r0 (c + a)) := by
  intro a
  induction a with
  | zero => intro S _ h; exact h
  | succ a ih =>
    intro S ha h
    have h1 := ih S (by omega) h
    unfold trtriSubmatrix at h1 ⊢
    rw [List.range'_1_concat, List.foldl_append]
    simp only [List.foldl_cons, List.foldl_nil]
    generalize (List.range' c a).foldl (fun X i =>
      (List.range' r0 (i - r0)).foldl (fun X j =>
        if X.get j i ∧ i + 1 < X.ncols then X.addRowFrom j i (i + 1) else X) X) S = S1 at h1 ⊢
    have h2 : TS U V n S1 (Di r0 (c + a) r0) := h1.congr (fun i hi => by
      unfold Di Dm
      by_cases a1 : i < r0
      · rw [if_pos a1, if_pos a1]
      · rw [if_neg a1, if_neg a1, if_neg a1])
    have h3 := trtriInner hV3 hVlow hVdiag (S := S1) (r0 := r0) (q := c + a) (by omega) (by omega)
      (c + a - r0) (by omega) h2
    apply h3.congr
    intro i hi
    unfold Di Dm
    by_cases a1 : i < r0
    · rw [if_pos a1, if_pos a1]
    · rw [if_neg a1, if_neg a1]
      by_cases a2 : i < r0 + (c + a - r0)
      · rw [if_pos a2]; omega
      · rw [if_neg a2]; omega

omit hV3 hVlow hVdiag in
/-- the table made from a block whose rows are at level `c + k` is good -/
theorem goodTab_of_TS (hdiag : ∀ i, i < n → U.get i i = true) {S : BMat} {r0 c k : Nat} (hr : r0 ≤ c)
    (hck : c + k ≤ n) (h : TS U V n S (Dm r0 (c + k))) (r1 : Nat) (junk : Nat → Nat) :
    GoodTab U V n c (makeTableTrtri (pleToE S c c k) S.ncols c k r1 junk) := by
  rw [makeTableTrtri_eq]
  refine ⟨hck, fun x hx p => ?_⟩
  show ((ttT S c k junk).getD ((ttE S c k junk).getD x 0) 0).testBit p = _
  rw [ttT_lookup S c k junk (by rw [h.nc]; exact hck) (fun l hl => by
    rw [h.get (c + l) (c + l) (by omega) (by omega), if_pos (Nat.le_refl _)]
    exact hdiag _ (by omega)) x hx p, h.nc]
  by_cases hp : p < n
  · simp only [hp, decide_true, Bool.true_and]
    apply xsum_congr
    intro l hl
    by_cases hlp : c + l < p
    · rw [h.get (c + l) p (by omega) hp, if_neg (by omega)]
      have : Dm r0 (c + k) (c + l) = c + k := by
        unfold Dm; rw [if_neg (by omega)]; omega
      rw [this]
    · simp [hlp]
  · simp [hp]

end inv

theorem trtriMain_succ (k : Nat) (junk : Nat → Nat) (fuel r : Nat) (A : BMat) :
    trtriMain k junk (fuel + 1) r A =
      if r + 4 * k ≤ A.nrows then
        trtriMain k junk fuel (r + 4 * k)
          (processRowsPle (trtriBlock (trtriBlock (trtriBlock (trtriBlock A r k 0 junk).1 r k 1 junk).1 r k 2 junk).1
              r k 3 junk).1 0 r r
            [(trtriBlock A r k 0 junk).2, (trtriBlock (trtriBlock A r k 0 junk).1 r k 1 junk).2,
             (trtriBlock (trtriBlock (trtriBlock A r k 0 junk).1 r k 1 junk).1 r k 2 junk).2,
             (trtriBlock (trtriBlock (trtriBlock (trtriBlock A r k 0 junk).1 r k 1 junk).1 r k 2 junk).1
               r k 3 junk).2])
      else (r, A) := by
  rw [trtriMain]; rfl

/-- the `B` patterns of a table are its rows read from column `r` on -/
def BvOK (n r : Nat) (t : PleTable) : Prop :=
  ∀ z, t.2.2.2.getD z 0 = bitsAt (t.2.1.getD z 0) r (min 64 (n - r))

section loops
variable {U V : BMat} {n : Nat}
  (hV3 : ∀ i c, i < c → c < n → V.get i c = xsum c (fun t => V.get i t && U.get t c))
  (hVlow : ∀ i t, t < i → V.get i t = false)
  (hVdiag : ∀ i, i < n → V.get i i = true)
  (hdiag : ∀ i, i < n → U.get i i = true)
include hV3 hVlow hVdiag hdiag

theorem trtriBlock_spec {A : BMat} {r k t c : Nat} (junk : Nat → Nat) (hc : c = r + t * k) (hck : c + k ≤ n)
    (h : TS U V n A (Dm r c)) :
    TS U V n (trtriBlock A r k t junk).1 (Dm r (c + k)) ∧ GoodTab U V n c (trtriBlock A r k t junk).2 ∧
      (trtriBlock A r k t junk).2.1 = k ∧ BvOK n r (trtriBlock A r k t junk).2 := by
  subst hc
  unfold trtriBlock
  simp only []
  have h1 := trtriSub hV3 hVlow hVdiag (r0 := r) (c := r + t * k) (by omega) k A hck h
  generalize trtriSubmatrix A (r + t * k) r k = A1 at h1 ⊢
  refine ⟨h1, goodTab_of_TS hdiag (by omega) hck h1 r junk, rfl, ?_⟩
  intro z
  rw [makeTableTrtri_eq]
  exact ttB_getD A1 (r + t * k) k r junk z |>.trans (by rw [h1.nc])

omit hdiag in
/-- after the tables of a strip have been made, the rows above are brought to the level of the strip's end -/
theorem strip_finish {A : BMat} {r kk : Nat} {tabs : List PleTable} (hA : TS U V n A (Dm r (r + kk)))
    (hg : GoodTabs U V n r tabs) (hks : ksum tabs = kk) (hB : ∀ t, t ∈ tabs → BvOK n r t) (hkk : kk ≤ 64)
    (hr : r + kk ≤ n) : TS U V n (processRowsPle A 0 r r tabs) (Dm (r + kk) (r + kk)) := by
  obtain ⟨p1, p2, p3, p4⟩ := processRowsPle_row A 0 r r tabs (by rw [hA.size]; omega)
  refine ⟨p1.trans hA.size, p2.trans hA.nr, p3.trans hA.nc, fun i hi => ?_⟩
  rw [p4]
  have hrow := hA.row i hi
  by_cases hir : i < r
  · rw [if_pos ⟨Nat.zero_le _, hir⟩]
    have hd : Dm r (r + kk) i = r := by unfold Dm; rw [if_pos hir]
    have hd' : Dm (r + kk) (r + kk) i = r + ksum tabs := by unfold Dm; rw [if_pos (by omega), hks]
    rw [hd] at hrow
    rw [hd', pleApply_seq r (min 64 (n - r)) tabs _ 0 (A.row i) hB (by omega)
      (fun l _ hl => by
        rw [M4RI.testBit_bitsAt]
        have : l < ksum tabs := by omega
        simp [this])]
    exact seqApply_level hV3 hVlow hVdiag i tabs (r + 0) (A.row i) hg hrow (by omega)
  · rw [if_neg (fun hh => hir hh.2)]
    have : Dm (r + kk) (r + kk) i = Dm r (r + kk) i := by
      unfold Dm
      rw [if_neg hir]
      split <;> omega
    rw [this]
    exact hrow

omit hdiag in
/-- the same with the single-table routine `mzd_process_rows` -/
theorem strip_finish1 {A : BMat} {r k : Nat} {t : PleTable} (hA : TS U V n A (Dm r (r + k)))
    (hg : GoodTab U V n r t) (hk : t.1 = k) (hr : r + k ≤ n) :
    TS U V n (M4RI.processRows A 0 r r k [(k, t.2.1, t.2.2.1)]) (Dm (r + k) (r + k)) := by
  obtain ⟨p1, p2, p3, p4⟩ := processRows1_row A 0 r r k t.2.1 t.2.2.1 (by rw [hA.size]; omega)
  refine ⟨p1.trans hA.size, p2.trans hA.nr, p3.trans hA.nc, fun i hi => ?_⟩
  rw [p4]
  have hrow := hA.row i hi
  by_cases hir : i < r
  · rw [if_pos ⟨Nat.zero_le _, hir⟩]
    have hd : Dm r (r + k) i = r := by unfold Dm; rw [if_pos hir]
    have hd' : Dm (r + k) (r + k) i = r + ksum [t] := by
      unfold Dm; rw [if_pos (by omega)]; simp [ksum, hk]
    rw [hd] at hrow
    rw [hd']
    have hs : A.row i ^^^ t.2.1.getD (t.2.2.1.getD (bitsAt (A.row i) r k) 0) 0 = seqApply [t] (A.row i) r := by
      obtain ⟨k', T, E, Bv⟩ := t
      simp only at hk
      subst hk
      rfl
    rw [hs]
    exact seqApply_level hV3 hVlow hVdiag i [t] r (A.row i) ⟨hg, trivial⟩ hrow hir
  · rw [if_neg (fun hh => hir hh.2)]
    have : Dm (r + k) (r + k) i = Dm r (r + k) i := by
      unfold Dm
      rw [if_neg hir]
      split <;> omega
    rw [this]
    exact hrow

theorem trtriMain_spec (k : Nat) (hk16 : k ≤ 16) (junk : Nat → Nat) :
    ∀ (fuel r : Nat) (A : BMat), r ≤ n → TS U V n A (Dm r r) →
      (trtriMain k junk fuel r A).1 ≤ n ∧
      TS U V n (trtriMain k junk fuel r A).2 (Dm (trtriMain k junk fuel r A).1 (trtriMain k junk fuel r A).1) := by
  intro fuel
  induction fuel with
  | zero => intro r A hr h; exact ⟨hr, h⟩
  | succ fuel ih =>
    intro r A hr h
    rw [trtriMain_succ]
    rw [h.nr]
    split
    · rename_i hle
      obtain ⟨a0, g0, k0, b0⟩ := trtriBlock_spec hV3 hVlow hVdiag hdiag (t := 0) (c := r) (k := k) junk (by omega)
        (by omega) h
      generalize trtriBlock A r k 0 junk = B0 at a0 g0 k0 b0 ⊢
      obtain ⟨a1, g1, k1, b1⟩ := trtriBlock_spec hV3 hVlow hVdiag hdiag (t := 1) (c := r + k) (k := k) junk (by omega)
        (by omega) a0
      generalize trtriBlock B0.1 r k 1 junk = B1 at a1 g1 k1 b1 ⊢
      obtain ⟨a2, g2, k2, b2⟩ := trtriBlock_spec hV3 hVlow hVdiag hdiag (t := 2) (c := r + k + k) (k := k) junk (by omega)
        (by omega) a1
      generalize trtriBlock B1.1 r k 2 junk = B2 at a2 g2 k2 b2 ⊢
      obtain ⟨a3, g3, k3, b3⟩ := trtriBlock_spec hV3 hVlow hVdiag hdiag (t := 3) (c := r + k + k + k) (k := k) junk
        (by omega) (by omega) a2
      generalize trtriBlock B2.1 r k 3 junk = B3 at a3 g3 k3 b3 ⊢
      have e4 : r + k + k + k + k = r + 4 * k := by omega
      rw [e4] at a3
      have hs := strip_finish hV3 hVlow hVdiag (tabs := [B0.2, B1.2, B2.2, B3.2]) a3
        ⟨g0, by rw [k0]; exact ⟨g1, by rw [k1]; exact ⟨g2, by rw [k2]; exact ⟨g3, trivial⟩⟩⟩⟩
        (by simp [ksum, k0, k1, k2, k3]; omega)
        (fun t ht => by
          simp only [List.mem_cons, List.mem_nil_iff, or_false] at ht
          rcases ht with rfl | rfl | rfl | rfl <;> assumption)
        (by omega) hle
      exact ih _ _ hle hs
    · exact ⟨hr, h⟩

theorem trtriRest_spec (junk : Nat → Nat) :
    ∀ (fuel r k : Nat) (A : BMat), r ≤ n → 1 ≤ k → n - r ≤ fuel → TS U V n A (Dm r r) →
      TS U V n (trtriRest junk fuel r k A) (Dm n n) := by
  intro fuel
  induction fuel with
  | zero =>
    intro r k A hr hk hf h
    have : r = n := by omega
    subst this; exact h
  | succ fuel ih =>
    intro r k A hr hk hf h
    rw [trtriRest]
    simp only [h.nr]
    split
    · rename_i hlt
      generalize hk' : (if n - r < k then n - r else k) = k'
      have hk1 : 1 ≤ k' ∧ r + k' ≤ n := by subst hk'; split <;> omega
      have h0 : TS U V n A (Dm r r) := h
      obtain ⟨a0, g0, k0, _⟩ := trtriBlock_spec hV3 hVlow hVdiag hdiag (t := 0) (c := r) (k := k') junk
        (by omega) hk1.2 h
      have hs := strip_finish1 hV3 hVlow hVdiag a0 g0 k0 hk1.2
      have e : (trtriBlock A r k' 0 junk).1 = trtriSubmatrix A r r k' := by
        unfold trtriBlock; simp
      have e2 : (trtriBlock A r k' 0 junk).2 =
          makeTableTrtri (pleToE (trtriSubmatrix A r r k') r r k') (trtriSubmatrix A r r k').ncols r k' r junk := by
        unfold trtriBlock; simp
      rw [e2, e] at hs
      exact ih _ _ _ hk1.2 hk1.1 (by omega) hs
    · have : r = n := by omega
      subst this; exact h

end loops

/-- the three facts about `triInv U` the algebra uses -/
theorem triInv_facts (U : BMat) :
    (∀ i c, i < c → c < U.nrows → (triInv U).get i c = xsum c (fun t => (triInv U).get i t && U.get t c)) ∧
    (∀ i t, t < i → (triInv U).get i t = false) ∧
    (∀ i, i < U.nrows → (triInv U).get i i = true) := by
  refine ⟨fun i c hic hc => ?_, fun i t hti => ?_, fun i hi => ?_⟩
  · rw [Rec.triInv_get_rec U i c hc, identity_get]
    have : ¬ (i < U.nrows ∧ i = c) := by omega
    simp [this]
  · by_cases hi : i < U.nrows
    · rw [triInv_get_lower U i t hi (by omega)]
      have : ¬ t = i := by omega
      simp [this]
    · exact get_of_ge_nrows (triInv_WF U) i t (by simp; omega)
  · rw [triInv_get_lower U i i hi (Nat.le_refl _)]; simp

/-- **`mzd_trtri_upper_russian(A, k)`, entry by entry**: for a square well-formed `U` with ones on the stored
    diagonal, every `1 ≤ k ≤ 16` (`__M4RI_MAXKAY`) and any prior content of the index arrays, the routine leaves
    the strictly lower triangle untouched and writes the inverse of the unit upper triangular matrix read from
    `U` on and above the diagonal. -/
theorem trtriRussian_get {U : BMat} (hU : U.WF) (hsq : U.ncols = U.nrows)
    (hdiag : ∀ i, i < U.nrows → U.get i i = true) (k : Nat) (hk : 1 ≤ k) (hk16 : k ≤ 16) (junk : Nat → Nat) :
    (trtriRussian U k junk).WF ∧ (trtriRussian U k junk).nrows = U.nrows ∧
    (trtriRussian U k junk).ncols = U.ncols ∧
    ∀ i p, i < U.nrows → p < U.nrows →
      (trtriRussian U k junk).get i p = if p < i then U.get i p else (triInv U).get i p := by
  obtain ⟨hV3, hVlow, hVdiag⟩ := triInv_facts U
  have h0 : TS U (triInv U) U.nrows U (Dm 0 0) := by
    refine ⟨hU.1, rfl, hsq, fun i hi => ⟨by rw [← hsq]; exact hU.2 i, fun p hp => ?_⟩⟩
    by_cases hpi : p ≤ i
    · rw [if_pos hpi]; rfl
    · rw [if_neg hpi]
      have : Dm 0 0 i = i + 1 := by unfold Dm; rw [if_neg (by omega)]; omega
      rw [this, lv_next hV3 hVlow hVdiag i p hi (by omega)]
      rfl
  unfold trtriRussian
  obtain ⟨m1, m2⟩ := trtriMain_spec hV3 hVlow hVdiag hdiag k hk16 junk U.nrows 0 U (by omega) h0
  have hf := trtriRest_spec hV3 hVlow hVdiag hdiag junk U.nrows _ k _ m1 hk (by omega) m2
  refine ⟨hf.wf, hf.nr, by rw [hf.nc, hsq], fun i p hi hp => ?_⟩
  rw [hf.get i p hi hp]
  have hd : Dm U.nrows U.nrows i = U.nrows := by unfold Dm; rw [if_pos hi]
  by_cases h1 : p < i
  · rw [if_pos (by omega), if_pos h1]
  · rw [if_neg h1]
    by_cases h2 : p = i
    · subst h2
      rw [if_pos (Nat.le_refl _), hdiag p hi, hVdiag p hi]
    · rw [if_neg (by omega), hd, lv_self hV3 hVlow hVdiag i p (by omega) hp _ (by omega)]

/-- **`mzd_trtri_upper_russian` inverts**: on a unit upper triangular matrix (strictly lower triangle zero, ones
    on the diagonal) the result is `triInv U`, the two-sided inverse -/
theorem trtriRussian_eq {U : BMat} (hU : U.WF) (hsq : U.ncols = U.nrows)
    (hlow : ∀ i j, j < i → U.get i j = false) (hdiag : ∀ i, i < U.nrows → U.get i i = true)
    (k : Nat) (hk : 1 ≤ k) (hk16 : k ≤ 16) (junk : Nat → Nat) :
    trtriRussian U k junk = triInv U := by
  obtain ⟨g1, g2, g3, g4⟩ := trtriRussian_get hU hsq hdiag k hk hk16 junk
  apply ext_get g1 (triInv_WF U) (by rw [g2]; simp) (by rw [g3, hsq]; simp)
  intro i p hi hp
  rw [g2] at hi
  rw [g3, hsq] at hp
  rw [g4 i p hi hp]
  split
  · rename_i h
    rw [hlow i p h, (triInv_facts U).2.1 i p h]
  · rfl

/-- the automatic `k` of the inversion is at most 7 -/
theorem trtriK_le (l3 : Nat) (A : BMat) : trtriK l3 A ≤ 7 := by
  unfold trtriK
  simp only []
  split <;> split <;> omega

/-- the automatic `k` is at least 1 on the matrices for which `mzd_trtri_upper` calls the routine (square,
    fewer than `2·L3` entries), for every cache size `L3 ≥ 15` -/
theorem trtriK_pos (l3 : Nat) (A : BMat) (hsq : A.ncols = A.nrows) (hsz : A.nrows * A.ncols < 2 * l3)
    (hl3 : 15 ≤ l3) : 1 ≤ trtriK l3 A := by
  unfold trtriK
  simp only []
  have h1 : 1 ≤ optK A.nrows A.ncols := by unfold optK; omega
  generalize optK A.nrows A.ncols = k0 at h1
  generalize hk1 : (if k0 ≥ 7 then 7 else k0) = k1
  have h2 : 1 ≤ k1 := by subst hk1; split <;> omega
  split
  · rename_i hc
    by_cases e : k1 = 1
    · exfalso
      subst e
      rw [hsq] at hsz hc
      by_cases h6 : A.nrows < 6
      · omega
      · have : 6 * A.nrows ≤ A.nrows * A.nrows := Nat.mul_le_mul_right _ (by omega)
        omega
    · omega
  · exact h2

theorem trtriRussianK_eq {U : BMat} (hU : U.WF) (hsq : U.ncols = U.nrows)
    (hlow : ∀ i j, j < i → U.get i j = false) (hdiag : ∀ i, i < U.nrows → U.get i i = true)
    (l3 k : Nat) (hk : k ≤ 16) (hk0 : k = 0 → 1 ≤ trtriK l3 U) (junk : Nat → Nat) :
    trtriRussianK l3 U k junk = triInv U := by
  unfold trtriRussianK
  apply trtriRussian_eq hU hsq hlow hdiag
  · split
    · rename_i h; exact hk0 h
    · omega
  · split
    · have := trtriK_le l3 U; omega
    · exact hk

/-! ## 6. the complete `_mzd_trsm_upper_right` and `mzd_trtri_upper` -/

@[simp] theorem extractU_nrows (A : BMat) : (extractU A).nrows = min A.nrows A.ncols := rfl
@[simp] theorem extractU_ncols (A : BMat) : (extractU A).ncols = min A.nrows A.ncols := rfl

theorem extractU_get (A : BMat) (i j : Nat) :
    (extractU A).get i j = (decide (i < min A.nrows A.ncols ∧ i ≤ j ∧ j < min A.nrows A.ncols) && A.get i j) := by
  unfold extractU get
  simp only []
  by_cases hi : i < min A.nrows A.ncols
  · rw [row_mk_range _ _ _ _ hi, testBit_shift_back, Nat.testBit_mod_two_pow]
    by_cases h1 : i ≤ j <;> by_cases h2 : j < min A.nrows A.ncols <;> simp [hi, h1, h2]
  · rw [row_mk_range_ge _ _ _ _ (by omega)]
    simp [hi]

theorem extractU_WF (A : BMat) : (extractU A).WF := by
  apply WF_of_get
  · simp [extractU]
  · intro i j hj
    rw [extractU_get]
    have : ¬ (i < min A.nrows A.ncols ∧ i ≤ j ∧ j < min A.nrows A.ncols) := by
      simp only [extractU_ncols] at hj; omega
    rw [decide_eq_false this]; rfl

/-- inverting the extracted triangle is inverting the triangle -/
theorem triInv_extractU (U : BMat) (hsq : U.ncols = U.nrows) : triInv (extractU U) = triInv U := by
  unfold triInv
  have e : (extractU U).nrows = U.nrows := by simp [hsq]
  rw [e]
  apply trsmUpperRight_congr
  intro i j hij hj
  simp only [identity_ncols] at hj
  rw [extractU_get]
  have : i < min U.nrows U.ncols ∧ i ≤ j ∧ j < min U.nrows U.ncols := by omega
  simp [this]

open Rec in
/-- **the complete `_mzd_trsm_upper_right` and the complete `mzd_trtri_upper`** (mutually recursive in the C
    code through `_mzd_trsm_upper_right_trtri`), every fuel, every build parameter with `L3 ≥ 15`:
    * `_mzd_trsm_upper_right(U, B)` is column-wise substitution — PROVIDED the stored diagonal of `U` is one as
      soon as `B` has more than 64 columns (the middle regime inverts `mzd_extract_u(U)`, stored diagonal
      included; see `upperRight_reads_diagonal` for what happens otherwise);
    * `mzd_trtri_upper(U)` is the inverse of a unit upper triangular `U`. -/
theorem upperRight_trtri_full (P : Params) (hl3 : 15 ≤ P.l3) (junk : Nat → Nat) : ∀ fuel : Nat,
    (∀ U B : BMat, B.WF → U.nrows = B.ncols → U.ncols = B.ncols →
      (64 < B.ncols → ∀ i, i < B.ncols → U.get i i = true) →
      upperRightFull P junk fuel U B = trsmUpperRight U B) ∧
    (∀ U : BMat, U.WF → U.ncols = U.nrows → (∀ i j, j < i → U.get i j = false) →
      (∀ i, i < U.nrows → U.get i i = true) → trtriFull P junk fuel U = triInv U) := by
  intro fuel
  induction fuel with
  | zero => exact ⟨fun _ _ _ _ _ _ => rfl, fun _ _ _ _ _ => rfl⟩
  | succ fuel ih =>
    obtain ⟨ih1, ih2⟩ := ih
    constructor
    · intro U B hB hUr hUc hd
      rw [upperRightFull]
      simp only []
      split
      · rename_i h; exact upperRightBase_eq hB h
      · rename_i h64
        have hdg := hd (by omega)
        split
        · -- `_mzd_trsm_upper_right_trtri`
          have hsq : U.ncols = U.nrows := by omega
          rw [ih2 (extractU U) (extractU_WF U) (by simp)
            (fun i j hji => by
              rw [extractU_get]
              have : ¬ (i < min U.nrows U.ncols ∧ i ≤ j ∧ j < min U.nrows U.ncols) := by omega
              rw [decide_eq_false this]; rfl)
            (fun i hi => by
              simp only [extractU_nrows] at hi
              rw [extractU_get, hdg i (by omega)]
              have : i < min U.nrows U.ncols ∧ i ≤ i ∧ i < min U.nrows U.ncols := by omega
              simp [this]),
            triInv_extractU U hsq]
          exact mul_triInv_eq hB hUr
        · have hk := splitPoint_le B.ncols
          have hdsub : ∀ a b, b ≤ B.ncols → ∀ i, i < b - a → (U.sub a a b b).get i i = true := by
            intro a b hb i hi
            rw [get_sub_in _ _ _ _ _ _ _ (by omega) (by omega) (by omega)]
            exact hdg _ (by omega)
          rw [ih1 _ _ (WF_sub _ _ _ _ _) (by simp; omega) (by simp)
            (fun _ i hi => by
              simp only [ncols_sub] at hi
              exact hdsub 0 _ hk i (by omega))]
          rw [ih1 _ _ (WF_addmul (WF_sub _ _ _ _ _) (WF_sub _ _ _ _ _) (by simp)) (by simp; omega) (by simp)
            (fun _ i hi => by
              simp only [add_ncols, ncols_sub] at hi
              exact hdsub _ _ (Nat.le_refl _) i hi)]
          exact upperRight_block hB hUr _ hk
    · intro U hU hsq hlow hdiag
      rw [trtriFull]
      simp only []
      split
      · rename_i hsz
        exact trtriRussianK_eq hU hsq hlow hdiag _ 0 (by omega)
          (fun _ => trtriK_pos _ U hsq hsz hl3) junk
      · split
        · rfl
        · rename_i _ hn2
          have hk : trtriSplit U.nrows P.sse2 ≤ U.nrows := by omega
          generalize trtriSplit U.nrows P.sse2 = k at *
          have sU : Shaped U U.nrows U.nrows := ⟨hU, rfl, hsq⟩
          have hdsub : ∀ a b, b ≤ U.nrows → ∀ i, i < b - a → (U.sub a a b b).get i i = true := by
            intro a b hb i hi
            rw [get_sub_in _ _ _ _ _ _ _ (by omega) (by omega) (by omega)]
            exact hdiag _ (by omega)
          rw [upperLeftFull_eq _ _ _ (WF_sub _ _ _ _ _) (by simp),
            ih1 _ _ (trsmUpperLeft_WF _ (WF_sub _ _ _ _ _)) (by simp) (by simp)
              (fun _ i hi => by
                simp only [trsmUpperLeft_ncols, ncols_sub] at hi
                exact hdsub _ _ (Nat.le_refl _) i hi),
            ih2 _ (WF_sub _ _ _ _ _) (by simp; omega) (sub_diag_low hlow _ _)
              (fun i hi => by
                simp only [nrows_sub] at hi
                exact hdsub 0 k hk i (by omega)),
            ih2 _ (WF_sub _ _ _ _ _) (by simp) (sub_diag_low hlow _ _)
              (fun i hi => by
                simp only [nrows_sub] at hi
                exact hdsub k _ (Nat.le_refl _) i (by omega))]
          exact trtri_block sU hlow k hk

/-! ## 7. statements for the user: `_eq`, `_WF`, `_spec`, what fails without the diagonal hypothesis -/

/-- **the complete `_mzd_trsm_upper_right`** (64-column parity kernel, inversion regime, recursion).  `_partial`:
    the hypothesis on the stored diagonal (only for more than 64 columns) cannot be dropped, see
    `upperRightFull_eq_full_false`. -/
theorem upperRightFull_eq_partial (P : Params) (hl3 : 15 ≤ P.l3) (junk : Nat → Nat) (fuel : Nat) {U B : BMat}
    (hB : B.WF) (hUr : U.nrows = B.ncols) (hUc : U.ncols = B.ncols)
    (hd : 64 < B.ncols → ∀ i, i < B.ncols → U.get i i = true) :
    upperRightFull P junk fuel U B = trsmUpperRight U B :=
  (upperRight_trtri_full P hl3 junk fuel).1 U B hB hUr hUc hd

/-- without the inversion regime (`blk ≤ 64`) or for at most 64 columns nothing is assumed about the diagonal -/
theorem upperRightFull_eq_small (P : Params) (hl3 : 15 ≤ P.l3) (junk : Nat → Nat) (fuel : Nat) {U B : BMat}
    (hB : B.WF) (hUr : U.nrows = B.ncols) (hUc : U.ncols = B.ncols) (h64 : B.ncols ≤ 64) :
    upperRightFull P junk fuel U B = trsmUpperRight U B :=
  upperRightFull_eq_partial P hl3 junk fuel hB hUr hUc (fun h => by omega)

/-- **the complete `mzd_trtri_upper`** inverts a unit upper triangular matrix -/
theorem trtriFull_eq (P : Params) (hl3 : 15 ≤ P.l3) (junk : Nat → Nat) (fuel : Nat) {U : BMat} (hU : U.WF)
    (hsq : U.ncols = U.nrows) (hlow : ∀ i j, j < i → U.get i j = false)
    (hdiag : ∀ i, i < U.nrows → U.get i i = true) : trtriFull P junk fuel U = triInv U :=
  (upperRight_trtri_full P hl3 junk fuel).2 U hU hsq hlow hdiag

/-- the full statement one would like to have for `_mzd_trsm_upper_right` (no hypothesis on the diagonal) … -/
def upperRightFull_eq_full : Prop :=
  ∀ (P : Params) (junk : Nat → Nat) (fuel : Nat) (U B : BMat), 15 ≤ P.l3 → B.WF → U.nrows = B.ncols →
    U.ncols = B.ncols → upperRightFull P junk fuel U B = trsmUpperRight U B

/-- the identity with a zero in the last diagonal position, and the last unit row vector -/
def exDiagU (n : Nat) : BMat := ⟨n, n, (Array.range n).map fun i => if i = n - 1 then 0 else 2 ^ i⟩
def exDiagB (n : Nat) : BMat := ⟨1, n, #[2 ^ (n - 1)]⟩

set_option maxRecDepth 100000 in
theorem exDiag_model : (upperRightFull ⟨2048, 1310720, 56623104, true⟩ (fun _ => 0) 2 (exDiagU 65) (exDiagB 65)).row 0 = 0 := by
  decide +kernel

set_option maxRecDepth 100000 in
theorem exDiag_spec : (trsmUpperRight (exDiagU 65) (exDiagB 65)).row 0 = 2 ^ 64 := by decide +kernel

/-- … is FALSE: for `U` = the 65 × 65 identity with `U[64,64] = 0` stored and `B = e_64`, the complete routine
    (as the C code: `_mzd_trsm_upper_right` → `_mzd_trsm_upper_right_trtri`) returns `0`, the substitution form
    (unit diagonal implied) `e_64`.  With 64 columns the same input is solved as documented. -/
theorem upperRightFull_eq_full_false : ¬ upperRightFull_eq_full := by
  intro h
  have hB : (exDiagB 65).WF := by
    refine ⟨rfl, fun i => ?_⟩
    by_cases hi : i = 0
    · subst hi; decide
    · have : (exDiagB 65).row i = 0 := by
        unfold row exDiagB
        have : ¬ i < 1 := by omega
        simp [Array.getD, this]
      rw [this]; exact Nat.two_pow_pos _
  have := h ⟨2048, 1310720, 56623104, true⟩ (fun _ => 0) 2 (exDiagU 65) (exDiagB 65) (by decide) hB rfl rfl
  have h1 := exDiag_model
  rw [this, exDiag_spec] at h1
  exact absurd h1 (by decide)

/-- `mzd_trtri_upper_russian` reads the stored diagonal too: `[[1,1],[0,0]]` becomes `[[1,0],[0,0]]`, whereas the
    inverse of the unit upper triangular matrix read from it is `[[1,1],[0,1]]` -/
theorem trtriRussian_reads_diagonal :
    (trtriRussian ⟨2, 2, #[3, 0]⟩ 1).rows = #[1, 0] ∧ (triInv ⟨2, 2, #[3, 0]⟩).rows = #[3, 2] := by
  constructor <;> decide +kernel

/-! ### shapes -/

theorem lowerLeftKernel_WF {L B : BMat} (hB : B.WF) (h64 : B.nrows ≤ 64) :
    (lowerLeftKernel L B).WF ∧ (lowerLeftKernel L B).nrows = B.nrows ∧ (lowerLeftKernel L B).ncols = B.ncols := by
  rw [lowerLeftKernel_eq hB h64]; exact ⟨trsmLowerLeft_WF L hB, by simp, by simp⟩

theorem upperLeftKernel_WF {U B : BMat} (hB : B.WF) (h64 : B.nrows ≤ 64) :
    (upperLeftKernel U B).WF ∧ (upperLeftKernel U B).nrows = B.nrows ∧ (upperLeftKernel U B).ncols = B.ncols := by
  rw [upperLeftKernel_eq hB h64]; exact ⟨trsmUpperLeft_WF U hB, by simp, by simp⟩

theorem upperRightBase_WF {U B : BMat} (hB : B.WF) (h64 : B.ncols ≤ 64) :
    (upperRightBase U B).WF ∧ (upperRightBase U B).nrows = B.nrows ∧ (upperRightBase U B).ncols = B.ncols := by
  rw [upperRightBase_eq hB h64]; exact ⟨trsmUpperRight_WF U hB, by simp, by simp⟩

theorem lowerRightBase_WF {L B : BMat} (hB : B.WF) (h64 : B.ncols ≤ 64) :
    (lowerRightBase L B).WF ∧ (lowerRightBase L B).nrows = B.nrows ∧ (lowerRightBase L B).ncols = B.ncols := by
  rw [lowerRightBase_eq hB h64]; exact ⟨trsmLowerRight_WF L hB, by simp, by simp⟩

theorem lowerLeftRussian_WF {L B : BMat} (hB : B.WF) (k : Nat) (hk : 1 ≤ k) (junk : Nat → Nat) :
    (lowerLeftRussian L B k junk).WF ∧ (lowerLeftRussian L B k junk).nrows = B.nrows ∧
      (lowerLeftRussian L B k junk).ncols = B.ncols := by
  rw [lowerLeftRussian_eq hB k hk]; exact ⟨trsmLowerLeft_WF L hB, by simp, by simp⟩

theorem upperLeftRussian_WF {U B : BMat} (hB : B.WF) (k : Nat) (hk : 1 ≤ k) (junk : Nat → Nat) :
    (upperLeftRussian U B k junk).WF ∧ (upperLeftRussian U B k junk).nrows = B.nrows ∧
      (upperLeftRussian U B k junk).ncols = B.ncols := by
  rw [upperLeftRussian_eq hB k hk]; exact ⟨trsmUpperLeft_WF U hB, by simp, by simp⟩

theorem trtriRussian_WF {U : BMat} (hU : U.WF) (hsq : U.ncols = U.nrows)
    (hdiag : ∀ i, i < U.nrows → U.get i i = true) (k : Nat) (hk : 1 ≤ k) (hk16 : k ≤ 16) (junk : Nat → Nat) :
    (trtriRussian U k junk).WF ∧ (trtriRussian U k junk).nrows = U.nrows ∧
      (trtriRussian U k junk).ncols = U.ncols :=
  let h := trtriRussian_get hU hsq hdiag k hk hk16 junk
  ⟨h.1, h.2.1, h.2.2.1⟩

theorem lowerLeftFull_WF (P : Params) (junk : Nat → Nat) (fuel : Nat) {L B : BMat} (hB : B.WF)
    (hLr : L.nrows = B.nrows) : (lowerLeftFull P junk fuel L B).WF ∧ (lowerLeftFull P junk fuel L B).nrows = B.nrows ∧
      (lowerLeftFull P junk fuel L B).ncols = B.ncols := by
  rw [lowerLeftFull_eq P junk fuel hB hLr]; exact ⟨trsmLowerLeft_WF L hB, by simp, by simp⟩

theorem upperLeftFull_WF (P : Params) (junk : Nat → Nat) (fuel : Nat) {U B : BMat} (hB : B.WF)
    (hUr : U.nrows = B.nrows) : (upperLeftFull P junk fuel U B).WF ∧ (upperLeftFull P junk fuel U B).nrows = B.nrows ∧
      (upperLeftFull P junk fuel U B).ncols = B.ncols := by
  rw [upperLeftFull_eq P junk fuel hB hUr]; exact ⟨trsmUpperLeft_WF U hB, by simp, by simp⟩

theorem lowerRightFull_WF (fuel : Nat) {L B : BMat} (hB : B.WF) (hLr : L.nrows = B.ncols) :
    (lowerRightFull fuel L B).WF ∧ (lowerRightFull fuel L B).nrows = B.nrows ∧
      (lowerRightFull fuel L B).ncols = B.ncols := by
  rw [lowerRightFull_eq fuel hB hLr]; exact ⟨trsmLowerRight_WF L hB, by simp, by simp⟩

theorem upperRightFull_WF (P : Params) (hl3 : 15 ≤ P.l3) (junk : Nat → Nat) (fuel : Nat) {U B : BMat}
    (hB : B.WF) (hUr : U.nrows = B.ncols) (hUc : U.ncols = B.ncols)
    (hd : 64 < B.ncols → ∀ i, i < B.ncols → U.get i i = true) :
    (upperRightFull P junk fuel U B).WF ∧ (upperRightFull P junk fuel U B).nrows = B.nrows ∧
      (upperRightFull P junk fuel U B).ncols = B.ncols := by
  rw [upperRightFull_eq_partial P hl3 junk fuel hB hUr hUc hd]; exact ⟨trsmUpperRight_WF U hB, by simp, by simp⟩

theorem trtriFull_WF (P : Params) (hl3 : 15 ≤ P.l3) (junk : Nat → Nat) (fuel : Nat) {U : BMat} (hU : U.WF)
    (hsq : U.ncols = U.nrows) (hlow : ∀ i j, j < i → U.get i j = false)
    (hdiag : ∀ i, i < U.nrows → U.get i i = true) :
    (trtriFull P junk fuel U).WF ∧ (trtriFull P junk fuel U).nrows = U.nrows ∧
      (trtriFull P junk fuel U).ncols = U.nrows := by
  rw [trtriFull_eq P hl3 junk fuel hU hsq hlow hdiag]; exact ⟨triInv_WF U, by simp, by simp⟩

/-! ### the systems are solved (transport of `Trsm.lean`) -/

/-- `unitLower(L) · X = B` for the complete `_mzd_trsm_lower_left` -/
theorem lowerLeftFull_spec (P : Params) (junk : Nat → Nat) (fuel : Nat) {L B : BMat} (hLr : L.nrows = B.nrows)
    (hLc : L.ncols = B.nrows) (hB : B.WF) : (unitLower L).mul (lowerLeftFull P junk fuel L B) = B := by
  rw [lowerLeftFull_eq P junk fuel hB hLr]; exact trsmLowerLeft_spec hLr hLc hB

/-- `unitUpper(U) · X = B` for the complete `_mzd_trsm_upper_left` -/
theorem upperLeftFull_spec (P : Params) (junk : Nat → Nat) (fuel : Nat) {U B : BMat} (hUr : U.nrows = B.nrows)
    (hUc : U.ncols = B.nrows) (hB : B.WF) : (unitUpper U).mul (upperLeftFull P junk fuel U B) = B := by
  rw [upperLeftFull_eq P junk fuel hB hUr]; exact trsmUpperLeft_spec hUr hUc hB

/-- `X · unitLower(L) = B` for the complete `_mzd_trsm_lower_right` -/
theorem lowerRightFull_spec (fuel : Nat) {L B : BMat} (hLr : L.nrows = B.ncols) (hLc : L.ncols = B.ncols)
    (hB : B.WF) : (lowerRightFull fuel L B).mul (unitLower L) = B := by
  rw [lowerRightFull_eq fuel hB hLr]; exact trsmLowerRight_spec hLr hLc hB

/-- `X · unitUpper(U) = B` for the complete `_mzd_trsm_upper_right` (diagonal stored as one beyond 64 columns) -/
theorem upperRightFull_spec (P : Params) (hl3 : 15 ≤ P.l3) (junk : Nat → Nat) (fuel : Nat) {U B : BMat}
    (hUr : U.nrows = B.ncols) (hUc : U.ncols = B.ncols) (hB : B.WF)
    (hd : 64 < B.ncols → ∀ i, i < B.ncols → U.get i i = true) :
    (upperRightFull P junk fuel U B).mul (unitUpper U) = B := by
  rw [upperRightFull_eq_partial P hl3 junk fuel hB hUr hUc hd]; exact trsmUpperRight_spec hUr hUc hB

/-- the complete `mzd_trtri_upper` returns the two-sided inverse, again unit upper triangular -/
theorem trtriFull_spec (P : Params) (hl3 : 15 ≤ P.l3) (junk : Nat → Nat) (fuel : Nat) {U : BMat} (hU : U.WF)
    (hsq : U.ncols = U.nrows) (hlow : ∀ i j, j < i → U.get i j = false)
    (hdiag : ∀ i, i < U.nrows → U.get i i = true) :
    let V := trtriFull P junk fuel U
    V.mul (unitUpper U) = identity U.nrows ∧ (unitUpper U).mul V = identity U.nrows ∧ unitUpper V = V := by
  simp only [trtriFull_eq P hl3 junk fuel hU hsq hlow hdiag]
  exact ⟨triInv_mul U hsq, mul_triInv U hsq, unitUpper_triInv U⟩

/-! ### the entry points with their fuel -/

theorem trsmLowerLeftC_eq (P : Params) {L B : BMat} (hB : B.WF) (hLr : L.nrows = B.nrows) :
    trsmLowerLeftC P L B = trsmLowerLeft L B := lowerLeftFull_eq P _ _ hB hLr
theorem trsmUpperLeftC_eq (P : Params) {U B : BMat} (hB : B.WF) (hUr : U.nrows = B.nrows) :
    trsmUpperLeftC P U B = trsmUpperLeft U B := upperLeftFull_eq P _ _ hB hUr
theorem trsmLowerRightC_eq {L B : BMat} (hB : B.WF) (hLr : L.nrows = B.ncols) :
    trsmLowerRightC L B = trsmLowerRight L B := lowerRightFull_eq _ hB hLr
theorem trsmUpperRightC_eq_partial (P : Params) (hl3 : 15 ≤ P.l3) {U B : BMat} (hB : B.WF) (hUr : U.nrows = B.ncols)
    (hUc : U.ncols = B.ncols) (hd : 64 < B.ncols → ∀ i, i < B.ncols → U.get i i = true) :
    trsmUpperRightC P U B = trsmUpperRight U B := upperRightFull_eq_partial P hl3 _ _ hB hUr hUc hd
theorem trtriUpperC_eq (P : Params) (hl3 : 15 ≤ P.l3) {U : BMat} (hU : U.WF) (hsq : U.ncols = U.nrows)
    (hlow : ∀ i j, j < i → U.get i j = false) (hdiag : ∀ i, i < U.nrows → U.get i i = true) :
    trtriUpperC P U = triInv U := trtriFull_eq P hl3 _ _ hU hsq hlow hdiag

/-! ### non-vacuity: the 130 × 130 unit upper triangular matrix with a full first row of `TrsmRec.lean` -/

theorem exU_diag : ∀ i, i < Rec.exU.nrows → Rec.exU.get i i = true := by
  intro i hi
  have hi' : i < 130 := hi
  rw [Rec.exU_get]
  by_cases h0 : i = 0
  · subst h0; simp
  · have : 0 < i ∧ i < 130 ∧ i = i := ⟨by omega, hi', rfl⟩
    simp [this]

def exP : Params := ⟨100, 1310720, 56623104, true⟩

example : lowerLeftRussian Rec.exU Rec.exU 3 = trsmLowerLeft Rec.exU Rec.exU :=
  lowerLeftRussian_eq Rec.exU_WF 3 (by decide) _
example : upperLeftRussian Rec.exU Rec.exU 8 = trsmUpperLeft Rec.exU Rec.exU :=
  upperLeftRussian_eq Rec.exU_WF 8 (by decide) _
example : trtriRussian Rec.exU 4 = triInv Rec.exU :=
  trtriRussian_eq Rec.exU_WF rfl Rec.exU_low exU_diag 4 (by decide) (by decide) _
example : lowerLeftFull exP (fun _ => 0) 3 Rec.exU Rec.exU = trsmLowerLeft Rec.exU Rec.exU :=
  lowerLeftFull_eq _ _ _ Rec.exU_WF rfl
example : upperLeftFull exP (fun _ => 0) 3 Rec.exU Rec.exU = trsmUpperLeft Rec.exU Rec.exU :=
  upperLeftFull_eq _ _ _ Rec.exU_WF rfl
example : lowerRightFull 3 Rec.exU Rec.exU = trsmLowerRight Rec.exU Rec.exU :=
  lowerRightFull_eq _ Rec.exU_WF rfl
example : upperRightFull exP (fun _ => 0) 3 Rec.exU Rec.exU = trsmUpperRight Rec.exU Rec.exU :=
  upperRightFull_eq_partial exP (by decide) _ _ Rec.exU_WF rfl rfl (fun _ i hi => exU_diag i hi)
example : trtriFull exP (fun _ => 0) 3 Rec.exU = triInv Rec.exU :=
  trtriFull_eq exP (by decide) _ _ Rec.exU_WF rfl Rec.exU_low exU_diag
/-- the recursion is really entered with these parameters: 130 > 100 = blk, the split point is 64 -/
example : ¬ (130 ≤ exP.blk) ∧ Rec.splitPoint 130 = 64 := by decide

end TB
end BMat
end M4ri
