/-
  GenTieView: the VIEW LIBRARY for the generated functions that create windows and call other functions.

  In `M4ri/Gen/CFuns.lean` a matrix is a memory `Int → Int → BitVec 64` (row, word); `mzd_init_window` is the
  header builder `Gen.C.mzdInitWindow`; a window is the view `CLoop.view mem r0 w0`; a callee's result is written
  back with `CLoop.unview`; untranslated callees are function parameters on `CLoop.MView` records.

  1. `Mzd.ofView`, `CLoop.MView.of`, `ofView_of`           (records <-> model matrices)
  2. `mzdInitWindow_eq` (+ `mzdInitWindow_eq'`, `mzdInitWindow_in`)   (the generated header builder, closed form)
  3. `winView`, `Mzd.window`, `window_bit`, `window_WF`, `window_toB`  (a window of `memOf M` IS `M.toB.sub …`)
  4. `unview_window_putB`                                  (write-back = `putB` of `paste`)
  5. `liftM2`, `liftM3` and the call rules `liftM2_of`, `liftM3_of` (whole matrices),
     `call2_window`, `call3_window` (result written through a window; the read-only operands are windows, too)
  6. translated callees applied to a `CLoop.view` itself: `AgreeOn` (agreement on a region) with
     `view_agree_window`, `ofView_congr`, `unview_congr`, `AgreeOn.view/.unview/.upd2/.at`, `liftM2_congr(_nat)`,
     `liftM3_congr(_nat)`, `step2_agree`, `step3_agree`, `loop_sim` (simulation of two loops),
     `unview_window_of_excess`, `unview_window_of_agree`
  Core Lean tactics only.
-/
import M4riProofs.GenTie
import M4riProofs.GenTieMem
import M4riProofs.Bridge
import M4riProofs.RowSwap
import M4riProofs.StrassenValues
set_option linter.unusedVariables false

namespace M4ri
open M4ri.Gen M4ri.GenTieMem

/-- the model matrix seen through a record: rows `0..nrows-1`, words `0..width-1` of its memory -/
def Mzd.ofView (V : CLoop.MView) : Mzd :=
  ⟨V.nrows.toNat, V.ncols.toNat,
    (Array.range V.nrows.toNat).map fun (i : Nat) =>
      (Array.range V.width.toNat).map fun (k : Nat) => V.mem (i : Int) (k : Int)⟩

/-- the record of a whole model matrix -/
def Gen.CLoop.MView.of (M : Mzd) : CLoop.MView :=
  ⟨memOf M, (M.nrows : Int), (M.ncols : Int), (M.width : Int), M.hb⟩

end M4ri

namespace M4ri.GenTieView
open M4ri M4ri.Gen M4ri.GenTieMem M4ri.BMat

/-! ### 1. records and model matrices -/

@[simp] theorem nrows_ofView (V : CLoop.MView) : (Mzd.ofView V).nrows = V.nrows.toNat := rfl
@[simp] theorem ncols_ofView (V : CLoop.MView) : (Mzd.ofView V).ncols = V.ncols.toNat := rfl

theorem row_ofView (V : CLoop.MView) (i : Nat) (hi : i < V.nrows.toNat) :
    (Mzd.ofView V).row i = (Array.range V.width.toNat).map fun (k : Nat) => V.mem (i : Int) (k : Int) := by
  simp [Mzd.ofView, Mzd.row, Array.getD, hi]

theorem w_ofView (V : CLoop.MView) (i k : Nat) (hi : i < V.nrows.toNat) (hk : k < V.width.toNat) :
    ((Mzd.ofView V).row i).w k = V.mem (i : Int) (k : Int) := by
  rw [row_ofView V i hi]
  simp [Row.w, Array.getD, hk]

/-- a record whose `width` is the one of its `ncols` gives a well-formed matrix -/
theorem WF_ofView (V : CLoop.MView) (hw : V.width.toNat = widthOf V.ncols.toNat) : (Mzd.ofView V).WF := by
  refine ⟨by simp [Mzd.ofView], fun i hi => ?_⟩
  rw [row_ofView V i hi]
  simp [Mzd.width, hw]

theorem bit_ofView (V : CLoop.MView) (i j : Nat) (hi : i < V.nrows.toNat) (hj : j < 64 * V.width.toNat) :
    (Mzd.ofView V).bit i j = (V.mem (i : Int) ((j / 64 : Nat) : Int)).getLsbD (j % 64) := by
  rw [Mzd.bit_def, w_ofView V i (j / 64) hi (by omega)]

/-- `ofView (MView.of M) = M` -/
theorem ofView_of (M : Mzd) (hM : M.WF) : Mzd.ofView (CLoop.MView.of M) = M := by
  obtain ⟨nr, nc, rows⟩ := M
  obtain ⟨h1, h2⟩ := hM
  simp only at h1
  unfold Mzd.ofView CLoop.MView.of
  simp only [Int.toNat_natCast]
  congr 1
  apply Array.ext
  · simp [h1]
  · intro i hi1 hi2
    have hi : i < nr := by simpa using hi1
    have hsz := h2 i hi
    simp only [Array.getElem_map, Array.getElem_range]
    apply Array.ext
    · simp only [Array.size_map, Array.size_range]
      rw [← hsz, Mzd.row_eq_getElem _ _ hi2]
    · intro k hk1 hk2
      simp only [Array.getElem_map, Array.getElem_range]
      rw [memOf_nat, Mzd.row_eq_getElem _ _ hi2, Row.w_eq_getElem _ _ hk2]

/-! ### 2. `mzd_init_window`: the generated header builder -/

/-- the flags of a window: `mzd_flag_windowed_zerooffset`, plus `mzd_flag_nonzero_excess` -/
def winFlags (ncols : Nat) : BitVec 8 := 4#8 ||| (if ncols % 64 ≠ 0 then 2#8 else 0#8)

/-- `mzd_init_window(M, lowr, lowc, highr, highc)` on natural arguments (`lowc` a multiple of 64,
    `lowr ≤ highr`, `lowc ≤ highc`); arguments given up to a cast equation -/
theorem mzdInitWindow_eq' (vlr vlc vhr vhc vMn rs : Int) (lr lc hr hc Mn : Nat)
    (e1 : vlr = (lr : Int)) (e2 : vlc = (lc : Int)) (e3 : vhr = (hr : Int)) (e4 : vhc = (hc : Int))
    (e5 : vMn = (Mn : Int)) (hlc : lc % 64 = 0) (hr1 : lr ≤ hr) (hc1 : lc ≤ hc) (hr0 : lr ≤ Mn) :
    Gen.C.mzdInitWindow vlr vlc vhr vhc vMn rs =
      (((min (hr - lr) (Mn - lr) : Nat) : Int), ((hc - lc : Nat) : Int), rs, (((hc - lc + 63) / 64 : Nat) : Int),
        leftMask ((hc - lc) % 64), winFlags (hc - lc), (lr : Int), ((lc / 64 : Nat) : Int)) := by
  subst e1 e2 e3 e4 e5
  unfold Gen.C.mzdInitWindow
  have ec : (hc : Int) - (lc : Int) = ((hc - lc : Nat) : Int) := by omega
  simp only [ec, GenTieMem.tdiv_nat, GenTieMem.tmod_nat]
  have en : (if decide ((hr : Int) - (lr : Int) < (Mn : Int) - (lr : Int)) = true then (hr : Int) - (lr : Int)
      else (Mn : Int) - (lr : Int)) = ((min (hr - lr) (Mn - lr) : Nat) : Int) := by
    simp only [decide_eq_true_eq]
    split <;> omega
  have ew : ((hc - lc : Nat) : Int) + 64 - 1 = ((hc - lc + 63 : Nat) : Int) := by omega
  have em : BitVec.allOnes 64 >>> (Int.tmod ((64 : Int) - (((hc - lc) % 64 : Nat) : Int)) 64).toNat
      = leftMask ((hc - lc) % 64) := by
    unfold leftMask ffff
    rw [GenTie.leftShift_arg _ (by omega)]
  have ef : (if decide ((((hc - lc) % 64 : Nat) : Int) ≠ 0) = true then
        BitVec.ofInt 8 (CLoop.ior (Int.ofNat (BitVec.toNat (4#8))) (Int.ofNat (BitVec.toNat (2#8))))
      else (4#8)) = winFlags (hc - lc) := by
    unfold winFlags
    by_cases h : (hc - lc) % 64 = 0
    · rw [if_neg (by simp; omega), if_neg (by omega)]; rfl
    · rw [if_pos (by simp; omega), if_pos h]; decide
  rw [en, ew, GenTieMem.tdiv_nat, em, ef]

/-- `mzd_init_window` on natural arguments -/
theorem mzdInitWindow_eq (lr lc hr hc Mn : Nat) (rs : Int) (hlc : lc % 64 = 0) (hr1 : lr ≤ hr) (hc1 : lc ≤ hc)
    (hr0 : lr ≤ Mn) :
    Gen.C.mzdInitWindow lr lc hr hc Mn rs =
      (((min (hr - lr) (Mn - lr) : Nat) : Int), ((hc - lc : Nat) : Int), rs, (((hc - lc + 63) / 64 : Nat) : Int),
        leftMask ((hc - lc) % 64), winFlags (hc - lc), (lr : Int), ((lc / 64 : Nat) : Int)) :=
  mzdInitWindow_eq' _ _ _ _ _ rs lr lc hr hc Mn rfl rfl rfl rfl rfl hlc hr1 hc1 hr0

/-- the window does not leave the matrix downwards: the row count is `highr - lowr` -/
theorem mzdInitWindow_in (vlr vlc vhr vhc vMn rs : Int) (lr lc hr hc Mn : Nat)
    (e1 : vlr = (lr : Int)) (e2 : vlc = (lc : Int)) (e3 : vhr = (hr : Int)) (e4 : vhc = (hc : Int))
    (e5 : vMn = (Mn : Int)) (hlc : lc % 64 = 0) (hr1 : lr ≤ hr) (hc1 : lc ≤ hc) (hr2 : hr ≤ Mn) :
    Gen.C.mzdInitWindow vlr vlc vhr vhc vMn rs =
      (((hr - lr : Nat) : Int), ((hc - lc : Nat) : Int), rs, (((hc - lc + 63) / 64 : Nat) : Int),
        leftMask ((hc - lc) % 64), winFlags (hc - lc), (lr : Int), ((lc / 64 : Nat) : Int)) := by
  rw [mzdInitWindow_eq' vlr vlc vhr vhc vMn rs lr lc hr hc Mn e1 e2 e3 e4 e5 hlc hr1 hc1 (by omega)]
  have : min (hr - lr) (Mn - lr) = hr - lr := by omega
  rw [this]

/-! ### 3. windows -/

/-- the record of the window `mzd_init_window(M, lr, lc, hr, hc)` of a matrix with memory `mem`
    (window inside the matrix, `lc` a multiple of 64) -/
@[reducible] def winView (mem : Int → Int → BitVec 64) (lr lc hr hc : Nat) : CLoop.MView :=
  ⟨CLoop.view mem (lr : Int) ((lc / 64 : Nat) : Int), ((hr - lr : Nat) : Int), ((hc - lc : Nat) : Int),
    (((hc - lc + 63) / 64 : Nat) : Int), leftMask ((hc - lc) % 64)⟩

end M4ri.GenTieView

/-- the window as a model matrix (it shares the excess bits of its last word with the parent) -/
def M4ri.Mzd.window (M : M4ri.Mzd) (lr lc hr hc : Nat) : M4ri.Mzd :=
  M4ri.Mzd.ofView (M4ri.GenTieView.winView (M4ri.GenTieMem.memOf M) lr lc hr hc)

namespace M4ri.GenTieView
open M4ri M4ri.Gen M4ri.GenTieMem M4ri.BMat

theorem toNat_cast (n : Nat) : ((n : Nat) : Int).toNat = n := Int.toNat_natCast n

@[simp] theorem nrows_window (M : Mzd) (lr lc hr hc : Nat) : (M.window lr lc hr hc).nrows = hr - lr :=
  toNat_cast _
@[simp] theorem ncols_window (M : Mzd) (lr lc hr hc : Nat) : (M.window lr lc hr hc).ncols = hc - lc :=
  toNat_cast _
@[simp] theorem width_window (M : Mzd) (lr lc hr hc : Nat) :
    (M.window lr lc hr hc).width = (hc - lc + 63) / 64 := by
  show widthOf (M.window lr lc hr hc).ncols = _
  rw [ncols_window]; rfl
@[simp] theorem hb_window (M : Mzd) (lr lc hr hc : Nat) :
    (M.window lr lc hr hc).hb = leftMask ((hc - lc) % 64) := by
  show leftMask ((M.window lr lc hr hc).ncols % 64) = _
  rw [ncols_window]

/-- the window is well-formed (whatever the parent) -/
theorem window_WF (M : Mzd) (lr lc hr hc : Nat) : (M.window lr lc hr hc).WF := by
  apply WF_ofView
  show ((((hc - lc + 63) / 64 : Nat) : Int)).toNat = widthOf (((hc - lc : Nat) : Int)).toNat
  rw [toNat_cast, toNat_cast]; rfl

/-- every stored bit of the window (entries AND the bits beyond its last column in its last word) is the
    parent's -/
theorem window_bit (M : Mzd) (lr lc hr hc : Nat) (hlc : lc % 64 = 0) (i j : Nat) (hi : i < hr - lr)
    (hj : j < 64 * ((hc - lc + 63) / 64)) :
    (M.window lr lc hr hc).bit i j = M.bit (lr + i) (lc + j) := by
  unfold Mzd.window
  rw [bit_ofView _ i j (by show i < (((hr - lr : Nat) : Int)).toNat; rw [toNat_cast]; exact hi)
    (by show j < 64 * ((((hc - lc + 63) / 64 : Nat) : Int)).toNat; rw [toNat_cast]; exact hj)]
  show (memOf M ((lr : Int) + (i : Int)) (((lc / 64 : Nat) : Int) + ((j / 64 : Nat) : Int))).getLsbD (j % 64) = _
  rw [show (lr : Int) + (i : Int) = ((lr + i : Nat) : Int) by omega,
    memOf_nat' M (lr + i) (lc / 64 + j / 64) _ (by omega), Mzd.bit_def]
  have e1 : (lc + j) / 64 = lc / 64 + j / 64 := by omega
  have e2 : (lc + j) % 64 = j % 64 := by omega
  rw [e1, e2]

/-- **the window lemma**: the abstract value of a window of `memOf M` is the model's window value -/
theorem window_toB (M : Mzd) (lr lc hr hc : Nat) (hlc : lc % 64 = 0) (hr2 : hr ≤ M.nrows) (hc2 : hc ≤ M.ncols) :
    (M.window lr lc hr hc).toB = M.toB.sub lr lc hr hc := by
  apply BMat.ext_get (Mzd.WF_toB (window_WF M lr lc hr hc)) (WF_sub _ _ _ _ _)
  · simp only [Mzd.nrows_toB, nrows_window, nrows_sub]; omega
  · simp
  · intro i j hi hj
    simp only [Mzd.nrows_toB, Mzd.ncols_toB, nrows_window, ncols_window] at hi hj
    rw [Mzd.get_toB_of_lt _ i j (by simpa using hj), window_bit M lr lc hr hc hlc i j hi (by omega), get_sub,
      Mzd.get_toB_of_lt M _ _ (by omega)]
    have : i < min (hr - lr) (M.toB.nrows - lr) ∧ j < hc - lc := by
      simp only [Mzd.nrows_toB]; omega
    rw [decide_eq_true this, Bool.true_and]

/-- the window lemma in the terms of the task: record spelled out -/
theorem window_toB' (M : Mzd) (lr lc hr hc : Nat) (hlc : lc % 64 = 0) (hr2 : hr ≤ M.nrows) (hc2 : hc ≤ M.ncols) :
    (Mzd.ofView ⟨CLoop.view (memOf M) (lr : Int) ((lc / 64 : Nat) : Int), ((hr - lr : Nat) : Int),
        ((hc - lc : Nat) : Int), (((hc - lc + 63) / 64 : Nat) : Int), leftMask ((hc - lc) % 64)⟩).toB
      = M.toB.sub lr lc hr hc ∧
    (Mzd.ofView ⟨CLoop.view (memOf M) (lr : Int) ((lc / 64 : Nat) : Int), ((hr - lr : Nat) : Int),
        ((hc - lc : Nat) : Int), (((hc - lc + 63) / 64 : Nat) : Int), leftMask ((hc - lc) % 64)⟩).WF :=
  ⟨window_toB M lr lc hr hc hlc hr2 hc2, window_WF M lr lc hr hc⟩

/-! ### 4. write-back -/

theorem memOf_of_neg (M : Mzd) (r w : Int) (h : r < 0 ∨ w < 0) : memOf M r w = 0 := by
  unfold memOf; simp [h]

theorem w_of_out {M : Mzd} (hM : M.WF) (x k : Nat) (h : M.nrows ≤ x ∨ M.width ≤ k) : (M.row x).w k = 0 := by
  by_cases hx : x < M.nrows
  · apply Row.w_of_ge
    rw [hM.2 x hx]; omega
  · rw [Mzd.row_of_ge _ _ (by rw [hM.1]; omega)]
    rfl

/-- a memory is `memOf N` as soon as it is zero where `memOf N` is and has the stored bits of `N` -/
theorem eq_memOf_of_bits {N : Mzd} (hN : N.WF) (m : Int → Int → BitVec 64)
    (hneg : ∀ r w : Int, r < 0 ∨ w < 0 → m r w = 0)
    (hout : ∀ x k : Nat, N.nrows ≤ x ∨ N.width ≤ k → m (x : Int) (k : Int) = 0)
    (hbit : ∀ x k q : Nat, x < N.nrows → k < N.width → q < 64 →
      (m (x : Int) (k : Int)).getLsbD q = N.bit x (64 * k + q)) : m = memOf N := by
  funext r w
  by_cases h : r < 0 ∨ w < 0
  · rw [hneg r w h, memOf_of_neg N r w h]
  · obtain ⟨x, rfl⟩ : ∃ x : Nat, r = (x : Int) := ⟨r.toNat, by omega⟩
    obtain ⟨k, rfl⟩ : ∃ k : Nat, w = (k : Int) := ⟨w.toNat, by omega⟩
    rw [memOf_nat]
    by_cases ho : N.nrows ≤ x ∨ N.width ≤ k
    · rw [hout x k ho, w_of_out hN x k ho]
    · apply BitVec.eq_of_getLsbD_eq
      intro q hq
      rw [hbit x k q (by omega) (by omega) hq, Mzd.getLsbD_w_row N x k q hq]

/-- **the write-back lemma**: writing `X` through the window (`putB` on the window: the parent's bits beyond
    the window's last column inside the window's last word are kept) and copying the window's rows and words
    back is `putB` of `paste` on the parent -/
theorem unview_window_putB (M : Mzd) (hM : M.WF) (lr lc hr hc : Nat) (hlc : lc % 64 = 0) (hr2 : hr ≤ M.nrows)
    (hc2 : hc ≤ M.ncols) (X : BMat) (hXr : X.nrows = hr - lr) (hXc : X.ncols = hc - lc) :
    CLoop.unview (memOf M) (lr : Int) ((lc / 64 : Nat) : Int) ((hr - lr : Nat) : Int)
        (((hc - lc + 63) / 64 : Nat) : Int) (memOf ((M.window lr lc hr hc).putB X))
      = memOf (M.putB (M.toB.paste lr lc X)) := by
  have hW : (M.window lr lc hr hc).WF := window_WF M lr lc hr hc
  have hW' : ((M.window lr lc hr hc).putB X).WF := Mzd.WF_putB hW X
  have hN : (M.putB (M.toB.paste lr lc X)).WF := Mzd.WF_putB hM _
  have hwid : M.width = (M.ncols + 63) / 64 := rfl
  apply eq_memOf_of_bits hN
  · intro r w h
    unfold CLoop.unview
    rw [if_neg (by omega), memOf_of_neg M r w h]
  · intro x k h
    simp only [Mzd.nrows_putB, Mzd.width_putB] at h
    unfold CLoop.unview
    rw [if_neg (by omega), memOf_nat, w_of_out hM x k h]
  · intro x k q hx hk hq
    simp only [Mzd.nrows_putB, Mzd.width_putB] at hx hk
    have hj : 64 * k + q < 64 * M.width := by omega
    rw [Mzd.bit_putB M _ hM x (64 * k + q) hx hj, get_paste, hXr, hXc]
    have hsz : M.toB.rows.size = M.nrows := (Mzd.WF_toB hM).1
    rw [hsz]
    unfold CLoop.unview
    by_cases hin : (lr : Int) ≤ (x : Int) ∧ (x : Int) < (lr : Int) + ((hr - lr : Nat) : Int) ∧
        ((lc / 64 : Nat) : Int) ≤ (k : Int) ∧ (k : Int) < ((lc / 64 : Nat) : Int) + (((hc - lc + 63) / 64 : Nat) : Int)
    · rw [if_pos hin]
      have hx' : x - lr < hr - lr := by omega
      have hk' : k - lc / 64 < (hc - lc + 63) / 64 := by omega
      rw [show (x : Int) - (lr : Int) = ((x - lr : Nat) : Int) by omega,
        show (k : Int) - ((lc / 64 : Nat) : Int) = ((k - lc / 64 : Nat) : Int) by omega, memOf_nat,
        Mzd.getLsbD_w_row _ _ _ _ hq,
        Mzd.bit_putB _ X hW (x - lr) (64 * (k - lc / 64) + q) (by simpa using hx') (by simp; omega),
        window_bit M lr lc hr hc hlc _ _ hx' (by omega)]
      simp only [ncols_window]
      have e1 : lr + (x - lr) = x := by omega
      have e2 : lc + (64 * (k - lc / 64) + q) = 64 * k + q := by omega
      have e3 : 64 * k + q - lc = 64 * (k - lc / 64) + q := by omega
      rw [e1, e2, e3]
      by_cases hjw : 64 * (k - lc / 64) + q < hc - lc
      · rw [if_pos hjw, if_pos (by omega), if_pos (by omega)]
      · rw [if_neg hjw]
        by_cases hjn : 64 * k + q < M.ncols
        · rw [if_pos hjn, if_neg (by omega), Mzd.get_toB_of_lt M _ _ hjn]
        · rw [if_neg hjn]
    · rw [if_neg hin, memOf_nat, Mzd.getLsbD_w_row _ _ _ _ hq]
      by_cases hjn : 64 * k + q < M.ncols
      · rw [if_pos hjn, if_neg (by omega), Mzd.get_toB_of_lt M _ _ hjn]
      · rw [if_neg hjn]

/-! ### 5. model operations as callees -/

/-- a callee `f(A, B)` that writes its SECOND argument: read both records, apply `op` to their abstract values,
    write the result back into the second with `putB` -/
def liftM2 (op : BMat → BMat → BMat) (A B : CLoop.MView) : Int → Int → BitVec 64 :=
  memOf ((Mzd.ofView B).putB (op (Mzd.ofView A).toB (Mzd.ofView B).toB))

/-- a callee `f(C, A, B)` that writes its FIRST argument (`mzd_addmul`) -/
def liftM3 (op : BMat → BMat → BMat → BMat) (C A B : CLoop.MView) : Int → Int → BitVec 64 :=
  memOf ((Mzd.ofView C).putB (op (Mzd.ofView C).toB (Mzd.ofView A).toB (Mzd.ofView B).toB))

/-- a lifted callee on whole matrices -/
theorem liftM2_of (op : BMat → BMat → BMat) (A B : Mzd) (hA : A.WF) (hB : B.WF) :
    liftM2 op ⟨memOf A, (A.nrows : Int), (A.ncols : Int), (A.width : Int), A.hb⟩
        ⟨memOf B, (B.nrows : Int), (B.ncols : Int), (B.width : Int), B.hb⟩
      = memOf (B.putB (op A.toB B.toB)) := by
  have eA := ofView_of A hA
  have eB := ofView_of B hB
  unfold CLoop.MView.of at eA eB
  unfold liftM2
  rw [eA, eB]

theorem liftM3_of (op : BMat → BMat → BMat → BMat) (C A B : Mzd) (hC : C.WF) (hA : A.WF) (hB : B.WF) :
    liftM3 op ⟨memOf C, (C.nrows : Int), (C.ncols : Int), (C.width : Int), C.hb⟩
        ⟨memOf A, (A.nrows : Int), (A.ncols : Int), (A.width : Int), A.hb⟩
        ⟨memOf B, (B.nrows : Int), (B.ncols : Int), (B.width : Int), B.hb⟩
      = memOf (C.putB (op C.toB A.toB B.toB)) := by
  have eC := ofView_of C hC
  have eA := ofView_of A hA
  have eB := ofView_of B hB
  unfold CLoop.MView.of at eC eA eB
  unfold liftM3
  rw [eC, eA, eB]

/-- `lr lc hr hc` is a window inside `M` starting at a word boundary -/
structure InWin (M : Mzd) (lr lc hr hc : Nat) : Prop where
  lc : lc % 64 = 0
  hr : hr ≤ M.nrows
  hc : hc ≤ M.ncols

/-- **call rule**, two operands: `f(window of A, window of M)` with the result written back into `M` -/
theorem call2_window (op : BMat → BMat → BMat) (A M : Mzd) (hM : M.WF)
    (ar ac ahr ahc lr lc hr hc : Nat) (hA : InWin A ar ac ahr ahc) (hW : InWin M lr lc hr hc)
    (hXr : (op (A.toB.sub ar ac ahr ahc) (M.toB.sub lr lc hr hc)).nrows = hr - lr)
    (hXc : (op (A.toB.sub ar ac ahr ahc) (M.toB.sub lr lc hr hc)).ncols = hc - lc) :
    CLoop.unview (memOf M) (lr : Int) ((lc / 64 : Nat) : Int) ((hr - lr : Nat) : Int)
        (((hc - lc + 63) / 64 : Nat) : Int)
        (liftM2 op (winView (memOf A) ar ac ahr ahc) (winView (memOf M) lr lc hr hc))
      = memOf (M.putB (M.toB.paste lr lc (op (A.toB.sub ar ac ahr ahc) (M.toB.sub lr lc hr hc)))) := by
  have e : liftM2 op (winView (memOf A) ar ac ahr ahc) (winView (memOf M) lr lc hr hc)
      = memOf ((M.window lr lc hr hc).putB (op (A.window ar ac ahr ahc).toB (M.window lr lc hr hc).toB)) := rfl
  rw [e, window_toB A _ _ _ _ hA.lc hA.hr hA.hc, window_toB M _ _ _ _ hW.lc hW.hr hW.hc]
  exact unview_window_putB M hM lr lc hr hc hW.lc hW.hr hW.hc _ hXr hXc

/-- **call rule**, three operands (`mzd_addmul(window of M, window of A, window of B)`): the result is written
    into the FIRST -/
theorem call3_window (op : BMat → BMat → BMat → BMat) (M A B : Mzd) (hM : M.WF)
    (lr lc hr hc ar ac ahr ahc br bc bhr bhc : Nat) (hW : InWin M lr lc hr hc) (hA : InWin A ar ac ahr ahc)
    (hB : InWin B br bc bhr bhc)
    (hXr : (op (M.toB.sub lr lc hr hc) (A.toB.sub ar ac ahr ahc) (B.toB.sub br bc bhr bhc)).nrows = hr - lr)
    (hXc : (op (M.toB.sub lr lc hr hc) (A.toB.sub ar ac ahr ahc) (B.toB.sub br bc bhr bhc)).ncols = hc - lc) :
    CLoop.unview (memOf M) (lr : Int) ((lc / 64 : Nat) : Int) ((hr - lr : Nat) : Int)
        (((hc - lc + 63) / 64 : Nat) : Int)
        (liftM3 op (winView (memOf M) lr lc hr hc) (winView (memOf A) ar ac ahr ahc)
          (winView (memOf B) br bc bhr bhc))
      = memOf (M.putB (M.toB.paste lr lc
          (op (M.toB.sub lr lc hr hc) (A.toB.sub ar ac ahr ahc) (B.toB.sub br bc bhr bhc)))) := by
  have e : liftM3 op (winView (memOf M) lr lc hr hc) (winView (memOf A) ar ac ahr ahc)
        (winView (memOf B) br bc bhr bhc)
      = memOf ((M.window lr lc hr hc).putB (op (M.window lr lc hr hc).toB (A.window ar ac ahr ahc).toB
          (B.window br bc bhr bhc).toB)) := rfl
  rw [e, window_toB A _ _ _ _ hA.lc hA.hr hA.hc, window_toB M _ _ _ _ hW.lc hW.hr hW.hc,
    window_toB B _ _ _ _ hB.lc hB.hr hB.hc]
  exact unview_window_putB M hM lr lc hr hc hW.lc hW.hr hW.hc _ hXr hXc

/-! ### 6. translated callees applied to a view: agreement on a region

  A TRANSLATED callee (`Gen.C.mzdApplyPLeft`, `Gen.C.trsmLowerLeftRec`, …) is applied to the memory
  `CLoop.view mem r0 w0` itself, which is not a `memOf`: it coincides with `memOf (M.window …)` on the rows and words
  of the window only.  `CLoop.unview` and `Mzd.ofView` read nothing else. -/

/-- two memories coincide on rows `[0, nr)`, words `[0, nw)` -/
def AgreeOn (nr nw : Nat) (m m' : Int → Int → BitVec 64) : Prop :=
  ∀ i k : Nat, i < nr → k < nw → m (i : Int) (k : Int) = m' (i : Int) (k : Int)

theorem AgreeOn.refl (nr nw : Nat) (m : Int → Int → BitVec 64) : AgreeOn nr nw m m := fun _ _ _ _ => rfl

theorem AgreeOn.symm {nr nw : Nat} {m m' : Int → Int → BitVec 64} (h : AgreeOn nr nw m m') : AgreeOn nr nw m' m :=
  fun i k hi hk => (h i k hi hk).symm

theorem AgreeOn.trans {nr nw : Nat} {m m' m'' : Int → Int → BitVec 64} (h : AgreeOn nr nw m m')
    (h' : AgreeOn nr nw m' m'') : AgreeOn nr nw m m'' :=
  fun i k hi hk => (h i k hi hk).trans (h' i k hi hk)

theorem AgreeOn.mono {nr nw nr' nw' : Nat} {m m' : Int → Int → BitVec 64} (h : AgreeOn nr nw m m')
    (h1 : nr' ≤ nr) (h2 : nw' ≤ nw) : AgreeOn nr' nw' m m' :=
  fun i k hi hk => h i k (by omega) (by omega)

/-- the view of a window coincides with the memory of the window matrix on the window -/
theorem view_agree_window (M : Mzd) (lr lc hr hc : Nat) :
    AgreeOn (hr - lr) ((hc - lc + 63) / 64) (CLoop.view (memOf M) (lr : Int) ((lc / 64 : Nat) : Int))
      (memOf (M.window lr lc hr hc)) := by
  intro i k hi hk
  rw [memOf_nat]
  unfold Mzd.window
  rw [w_ofView _ i k (by show i < (((hr - lr : Nat) : Int)).toNat; rw [toNat_cast]; exact hi)
    (by show k < ((((hc - lc + 63) / 64 : Nat) : Int)).toNat; rw [toNat_cast]; exact hk)]

/-- a record only shows its rows and words -/
theorem ofView_congr {m m' : Int → Int → BitVec 64} (nr nc w : Int) (hb hb' : BitVec 64)
    (h : AgreeOn nr.toNat w.toNat m m') : Mzd.ofView ⟨m, nr, nc, w, hb⟩ = Mzd.ofView ⟨m', nr, nc, w, hb'⟩ := by
  unfold Mzd.ofView
  congr 1
  apply Array.ext
  · simp
  · intro i h1 h2
    have hi : i < nr.toNat := by simpa using h1
    simp only [Array.getElem_map, Array.getElem_range]
    apply Array.ext
    · simp
    · intro k k1 k2
      have hk : k < w.toNat := by simpa using k1
      simp only [Array.getElem_map, Array.getElem_range]
      exact h i k hi hk

/-- the write-back only reads the rows and words of the window from the callee's result -/
theorem unview_congr (m : Int → Int → BitVec 64) (r0 w0 : Int) (nr nw : Nat) {res res' : Int → Int → BitVec 64}
    (h : AgreeOn nr nw res res') :
    CLoop.unview m r0 w0 (nr : Int) (nw : Int) res = CLoop.unview m r0 w0 (nr : Int) (nw : Int) res' := by
  funext r w
  unfold CLoop.unview
  by_cases hc : r0 ≤ r ∧ r < r0 + (nr : Int) ∧ w0 ≤ w ∧ w < w0 + (nw : Int)
  · rw [if_pos hc, if_pos hc]
    have := h (r - r0).toNat (w - w0).toNat (by omega) (by omega)
    rw [show (((r - r0).toNat : Nat) : Int) = r - r0 by omega,
      show (((w - w0).toNat : Nat) : Int) = w - w0 by omega] at this
    exact this
  · rw [if_neg hc, if_neg hc]

/-- agreement on a region passes to the views of its sub-regions -/
theorem AgreeOn.view {R W : Nat} {m m' : Int → Int → BitVec 64} (h : AgreeOn R W m m') (r0 w0 nr nw : Nat)
    (hr : r0 + nr ≤ R) (hw : w0 + nw ≤ W) :
    AgreeOn nr nw (CLoop.view m (r0 : Int) (w0 : Int)) (CLoop.view m' (r0 : Int) (w0 : Int)) := by
  intro i k hi hk
  have := h (r0 + i) (w0 + k) (by omega) (by omega)
  unfold CLoop.view
  rw [show (r0 : Int) + (i : Int) = ((r0 + i : Nat) : Int) by omega,
    show (w0 : Int) + (k : Int) = ((w0 + k : Nat) : Int) by omega]
  exact this

/-- agreement on a region survives the same write-back on both sides -/
theorem AgreeOn.unview {R W : Nat} {m m' : Int → Int → BitVec 64} (h : AgreeOn R W m m') (r0 w0 nr nw : Int)
    {res res' : Int → Int → BitVec 64} (hres : res = res') :
    AgreeOn R W (CLoop.unview m r0 w0 nr nw res) (CLoop.unview m' r0 w0 nr nw res') := by
  subst hres
  intro i k hi hk
  unfold CLoop.unview
  split
  · rfl
  · exact h i k hi hk

/-- a W-level result `W'` for the window (same shape, the window's excess bits untouched) written back -/
theorem unview_window_of_excess (M : Mzd) (hM : M.WF) (lr lc hr hc : Nat) (hlc : lc % 64 = 0) (hr2 : hr ≤ M.nrows)
    (hc2 : hc ≤ M.ncols) (W' : Mzd) (hW' : W'.WF) (hWr : W'.nrows = hr - lr) (hWc : W'.ncols = hc - lc)
    (hex : ∀ i j, i < hr - lr → hc - lc ≤ j → j < 64 * ((hc - lc + 63) / 64) →
      W'.bit i j = (M.window lr lc hr hc).bit i j) :
    CLoop.unview (memOf M) (lr : Int) ((lc / 64 : Nat) : Int) ((hr - lr : Nat) : Int)
        (((hc - lc + 63) / 64 : Nat) : Int) (memOf W')
      = memOf (M.putB (M.toB.paste lr lc W'.toB)) := by
  have hW := window_WF M lr lc hr hc
  have e : W' = (M.window lr lc hr hc).putB W'.toB := by
    apply Mzd.eq_putB_of_bit hW' hW (by simp [hWr]) (by simp [hWc])
    intro i j hi hj
    simp only [nrows_window, width_window, ncols_window] at hi hj ⊢
    by_cases hjn : j < hc - lc
    · rw [if_pos hjn, Mzd.get_toB_of_lt _ _ _ (by omega)]
    · rw [if_neg hjn]
      exact hex i j hi (by omega) hj
  rw [e, Mzd.toB_putB hW (Mzd.WF_toB hW') (by simp [hWr]) (by simp [hWc])]
  exact unview_window_putB M hM lr lc hr hc hlc hr2 hc2 W'.toB (by simp [hWr]) (by simp [hWc])

/-- lifted callees only see the rows and words of their records -/
theorem liftM2_congr (op : BMat → BMat → BMat) {mA mA' mB mB' : Int → Int → BitVec 64}
    (ar ac aw br bc bw : Int) (ah ah' bh bh' : BitVec 64) (hA : AgreeOn ar.toNat aw.toNat mA mA')
    (hB : AgreeOn br.toNat bw.toNat mB mB') :
    liftM2 op ⟨mA, ar, ac, aw, ah⟩ ⟨mB, br, bc, bw, bh⟩ = liftM2 op ⟨mA', ar, ac, aw, ah'⟩ ⟨mB', br, bc, bw, bh'⟩ := by
  unfold liftM2
  rw [ofView_congr ar ac aw ah ah' hA, ofView_congr br bc bw bh bh' hB]

theorem liftM3_congr (op : BMat → BMat → BMat → BMat) {mC mC' mA mA' mB mB' : Int → Int → BitVec 64}
    (cr cc cw ar ac aw br bc bw : Int) (ch ch' ah ah' bh bh' : BitVec 64) (hC : AgreeOn cr.toNat cw.toNat mC mC')
    (hA : AgreeOn ar.toNat aw.toNat mA mA') (hB : AgreeOn br.toNat bw.toNat mB mB') :
    liftM3 op ⟨mC, cr, cc, cw, ch⟩ ⟨mA, ar, ac, aw, ah⟩ ⟨mB, br, bc, bw, bh⟩
      = liftM3 op ⟨mC', cr, cc, cw, ch'⟩ ⟨mA', ar, ac, aw, ah'⟩ ⟨mB', br, bc, bw, bh'⟩ := by
  unfold liftM3
  rw [ofView_congr cr cc cw ch ch' hC, ofView_congr ar ac aw ah ah' hA, ofView_congr br bc bw bh bh' hB]

theorem liftM2_congr_nat (op : BMat → BMat → BMat) {mA mA' mB mB' : Int → Int → BitVec 64}
    (ar aw br bw : Nat) (ac bc : Int) (ah ah' bh bh' : BitVec 64) (hA : AgreeOn ar aw mA mA')
    (hB : AgreeOn br bw mB mB') :
    liftM2 op ⟨mA, (ar : Int), ac, (aw : Int), ah⟩ ⟨mB, (br : Int), bc, (bw : Int), bh⟩
      = liftM2 op ⟨mA', (ar : Int), ac, (aw : Int), ah'⟩ ⟨mB', (br : Int), bc, (bw : Int), bh'⟩ :=
  liftM2_congr op _ _ _ _ _ _ _ _ _ _ (by rw [toNat_cast, toNat_cast]; exact hA)
    (by rw [toNat_cast, toNat_cast]; exact hB)

theorem liftM3_congr_nat (op : BMat → BMat → BMat → BMat) {mC mC' mA mA' mB mB' : Int → Int → BitVec 64}
    (cr cw ar aw br bw : Nat) (cc ac bc : Int) (ch ch' ah ah' bh bh' : BitVec 64) (hC : AgreeOn cr cw mC mC')
    (hA : AgreeOn ar aw mA mA') (hB : AgreeOn br bw mB mB') :
    liftM3 op ⟨mC, (cr : Int), cc, (cw : Int), ch⟩ ⟨mA, (ar : Int), ac, (aw : Int), ah⟩
        ⟨mB, (br : Int), bc, (bw : Int), bh⟩
      = liftM3 op ⟨mC', (cr : Int), cc, (cw : Int), ch'⟩ ⟨mA', (ar : Int), ac, (aw : Int), ah'⟩
        ⟨mB', (br : Int), bc, (bw : Int), bh'⟩ :=
  liftM3_congr op _ _ _ _ _ _ _ _ _ _ _ _ _ _ _ (by rw [toNat_cast, toNat_cast]; exact hC)
    (by rw [toNat_cast, toNat_cast]; exact hA) (by rw [toNat_cast, toNat_cast]; exact hB)

/-- agreement survives a store of the same word -/
theorem AgreeOn.upd2 {nr nw : Nat} {m m' : Int → Int → BitVec 64} (h : AgreeOn nr nw m m') (r i : Int)
    {v v' : BitVec 64} (hv : v = v') : AgreeOn nr nw (CLoop.upd2 m r i v) (CLoop.upd2 m' r i v') := by
  subst hv
  intro x k hx hk
  rw [upd2_apply, upd2_apply]
  split
  · rfl
  · exact h x k hx hk

/-- reading inside the region -/
theorem AgreeOn.at {nr nw : Nat} {m m' : Int → Int → BitVec 64} (h : AgreeOn nr nw m m') (r i : Int)
    (hr0 : 0 ≤ r) (hr : r < nr) (hi0 : 0 ≤ i) (hi : i < nw) : m r i = m' r i := by
  have := h r.toNat i.toNat (by omega) (by omega)
  rw [show ((r.toNat : Nat) : Int) = r by omega, show ((i.toNat : Nat) : Int) = i by omega] at this
  exact this

/-- simulation of two loops: a relation that the conditions respect and the bodies preserve holds at the end -/
theorem loop_sim {σ : Type} (R : σ → σ → Prop) {cond cond' : σ → Bool} {body body' : σ → σ}
    (hc : ∀ s s', R s s' → cond s = cond' s')
    (hb : ∀ s s', R s s' → cond s = true → R (body s) (body' s')) :
    ∀ (fuel : Nat) (s s' : σ), R s s' → R (CLoop.loop fuel cond body s) (CLoop.loop fuel cond' body' s') := by
  intro fuel
  induction fuel with
  | zero => intro s s' h; exact h
  | succ n ih =>
    intro s s' h
    rw [loop_succ, loop_succ, ← hc s s' h]
    by_cases hcs : cond s = true
    · rw [if_pos hcs, if_pos hcs]
      exact ih _ _ (hb s s' h hcs)
    · rw [if_neg hcs, if_neg hcs]
      exact h

/-- a lifted two-operand call through windows respects agreement (operand `a`, written matrix `m`) -/
theorem step2_agree (op : BMat → BMat → BMat) {R W RA WA : Nat} {m m' a a' : Int → Int → BitVec 64}
    (hm : AgreeOn R W m m') (ha : AgreeOn RA WA a a') (ar aw anr anw lr lw nr nw : Nat) (anc nc : Int)
    (ah bh : BitVec 64) (h1 : ar + anr ≤ RA) (h2 : aw + anw ≤ WA) (h3 : lr + nr ≤ R) (h4 : lw + nw ≤ W) :
    AgreeOn R W
      (CLoop.unview m (lr : Int) (lw : Int) (nr : Int) (nw : Int)
        (liftM2 op ⟨CLoop.view a (ar : Int) (aw : Int), (anr : Int), anc, (anw : Int), ah⟩
          ⟨CLoop.view m (lr : Int) (lw : Int), (nr : Int), nc, (nw : Int), bh⟩))
      (CLoop.unview m' (lr : Int) (lw : Int) (nr : Int) (nw : Int)
        (liftM2 op ⟨CLoop.view a' (ar : Int) (aw : Int), (anr : Int), anc, (anw : Int), ah⟩
          ⟨CLoop.view m' (lr : Int) (lw : Int), (nr : Int), nc, (nw : Int), bh⟩)) :=
  AgreeOn.unview hm _ _ _ _ (liftM2_congr_nat op _ _ _ _ _ _ _ _ _ _ (ha.view ar aw anr anw h1 h2)
    (hm.view lr lw nr nw h3 h4))

/-- a lifted three-operand call through windows respects agreement (written matrix `m`, operands `a`, `b`) -/
theorem step3_agree (op : BMat → BMat → BMat → BMat) {R W RA WA RB WB : Nat}
    {m m' a a' b b' : Int → Int → BitVec 64} (hm : AgreeOn R W m m') (ha : AgreeOn RA WA a a')
    (hb : AgreeOn RB WB b b') (lr lw nr nw ar aw anr anw br bw bnr bnw : Nat) (nc anc bnc : Int)
    (ch ah bh : BitVec 64) (h3 : lr + nr ≤ R) (h4 : lw + nw ≤ W) (h1 : ar + anr ≤ RA) (h2 : aw + anw ≤ WA)
    (h5 : br + bnr ≤ RB) (h6 : bw + bnw ≤ WB) :
    AgreeOn R W
      (CLoop.unview m (lr : Int) (lw : Int) (nr : Int) (nw : Int)
        (liftM3 op ⟨CLoop.view m (lr : Int) (lw : Int), (nr : Int), nc, (nw : Int), ch⟩
          ⟨CLoop.view a (ar : Int) (aw : Int), (anr : Int), anc, (anw : Int), ah⟩
          ⟨CLoop.view b (br : Int) (bw : Int), (bnr : Int), bnc, (bnw : Int), bh⟩))
      (CLoop.unview m' (lr : Int) (lw : Int) (nr : Int) (nw : Int)
        (liftM3 op ⟨CLoop.view m' (lr : Int) (lw : Int), (nr : Int), nc, (nw : Int), ch⟩
          ⟨CLoop.view a' (ar : Int) (aw : Int), (anr : Int), anc, (anw : Int), ah⟩
          ⟨CLoop.view b' (br : Int) (bw : Int), (bnr : Int), bnc, (bnw : Int), bh⟩)) :=
  AgreeOn.unview hm _ _ _ _ (liftM3_congr_nat op _ _ _ _ _ _ _ _ _ _ _ _ _ _ _ (hm.view lr lw nr nw h3 h4)
    (ha.view ar aw anr anw h1 h2) (hb.view br bw bnr bnw h5 h6))

/-- write-back of a result that is only known on the window (a translated callee run on the view) -/
theorem unview_window_of_agree (M : Mzd) (hM : M.WF) (lr lc hr hc : Nat) (hlc : lc % 64 = 0) (hr2 : hr ≤ M.nrows)
    (hc2 : hc ≤ M.ncols) (X : BMat) (hXr : X.nrows = hr - lr) (hXc : X.ncols = hc - lc)
    (res : Int → Int → BitVec 64)
    (h : AgreeOn (hr - lr) ((hc - lc + 63) / 64) res (memOf ((M.window lr lc hr hc).putB X))) :
    CLoop.unview (memOf M) (lr : Int) ((lc / 64 : Nat) : Int) ((hr - lr : Nat) : Int)
        (((hc - lc + 63) / 64 : Nat) : Int) res
      = memOf (M.putB (M.toB.paste lr lc X)) := by
  rw [unview_congr _ _ _ _ _ h]
  exact unview_window_putB M hM lr lc hr hc hlc hr2 hc2 X hXr hXc

/-! ### 7. values: what a sequence of write-backs through windows leaves in the parent -/

/-- the state after a write-back is again a `putB` state: shape, well-formedness, abstract value -/
theorem putB_state {M : Mzd} (hM : M.WF) {Y : BMat} (hY : Y.WF) (hr : Y.nrows = M.nrows) (hc : Y.ncols = M.ncols) :
    (M.putB Y).WF ∧ (M.putB Y).toB = Y ∧ (M.putB Y).nrows = M.nrows ∧ (M.putB Y).ncols = M.ncols :=
  ⟨Mzd.WF_putB hM Y, Mzd.toB_putB hM hY hr hc, rfl, rfl⟩

end M4ri.GenTieView

#print axioms M4ri.GenTieView.ofView_of
#print axioms M4ri.GenTieView.mzdInitWindow_eq
#print axioms M4ri.GenTieView.window_toB'
#print axioms M4ri.GenTieView.unview_window_putB
#print axioms M4ri.GenTieView.call2_window
#print axioms M4ri.GenTieView.call3_window
#print axioms M4ri.GenTieView.unview_window_of_agree
