/-
  GenTieKer: ties of two generated glue functions (whole C functions) with their models.

  1. `Gen.C.invM4ri` = `mzd_inv_m4ri(B, A, k)` for a supplied `B` (m4ri/brilliantrussian.c): fresh work matrix
     `C = mzd_init(n, 2·nr)`, `nr = 64·A->width`, windows `AW = C[0..n, 0..n)`, `BW = C[0..n, nr..nr+n)`,
     `mzd_copy(AW, A)`, `mzd_set_ui(BW, 1)` (translated callees applied to views of the local matrix),
     `mzd_echelonize_m4ri(C, TRUE, 0)` (function parameter), `mzd_copy(B, BW)`.
       `invM4ri_eq`        for ANY model function `ech : BMat → Int → Int → BMat` lifted to records (`liftEch ech ret`,
                           `ret` = any returned rank): the result is
                           `memOf (B.putB ((ech (G2.invInput A.toB) 1 0).sub 0 nr n (nr + n)))`: the work matrix the C
                           code builds IS `G2.invInput`, the elimination is called with `full = 1` and the LITERAL `k = 0`
                           (the argument `k` of `mzd_inv_m4ri` is ignored), the right block is copied out.
                           Hypotheses: `A.WF`, `B.WF`, `A` square `n × n`, `1 ≤ n`, `B` `n × n`, and
                           `(ech (invInput A.toB) 1 0).nrows = n`.
       `invM4ri_entries`   the same with the block given entry by entry, NO hypothesis on `ech`.
       `invM4ri_model_eq`  `ech` := the model's `M4RI.echelonizeM4ri · true kk junk` (`1 ≤ kk`): the result is
                           `memOf (B.putB (G2.invM4ri A.toB kk junk))`.
  2. `Gen.C.kernelLeftPluq` = `mzd_kernel_left_pluq(A, cutoff)` (m4ri/solve.c): fresh identity permutations,
     `r = mzd_pluq(A, P, Q, cutoff)` (parameter), `NULL` if `r = ncols`, else the window `U`, the fresh `R`, the window
     `RU`, the copying loops `mzd_xor_bits(RU, i, j, w, mzd_read_bits(A, i, r + j, w))`, `mzd_trsm_upper_left(U, RU)`
     (parameter), `mzd_write_bit(R, r + i, i, 1)`, `mzd_apply_p_left_trans(R, Q)`.
       `kernelLeftPluq_eq` (+ `_none`, `_some`)  with `f_mzd_pluq := liftPle fact`,
                           `f_mzd_trsm_upper_left := fun U B _ => liftM2 trsmUpperLeft U B`: the result is
                           `(1, memOf (A.putB S), zero memory, 0, 0)` when the model `SV.kernelLeftPluq fact A.toB` is
                           `none`, `(0, memOf (A.putB S), memOf (Mzd.ofB K), K.nrows, K.ncols)` when it is `some K`.
                           Hypotheses: `A.WF` and SHAPES only of `(S, P, Q, r) = fact A.toB`: `S` of the shape of `A`,
                           `r ≤ nrows`, `r ≤ ncols`, `Q.size = ncols`, `Q[i] < ncols` for `i < ncols`.
                           (`1 ≤ A.ncols` is NOT needed: for `ncols = 0` the contract forces `r = 0 = ncols`, the `NULL` path.)
  New ties of translated callees: `mzdCopy_closed` (closed form of the generated `mzd_copy` on arbitrary memories),
  `mzdCopy_eq` (`mzd_copy(N, P)` = the model's `Mzd.copyInto`, `P` not larger than `N`, `1 ≤ P.ncols`),
  `copy_to_window` (destination = view of a window, written back), `copy_from_window` (source = view of a window),
  `mzdApplyPLeftTrans_congr` (the permutation is only read at `0 ≤ i < min(length, nrows)`).
  No difference between C and the models was found on these domains.  Domain remarks: `mzd_copy` with
  `P->ncols = 0` writes `N->rows[i][-1]` (hence `1 ≤ n` for `mzd_inv_m4ri`).
  Core Lean tactics only.
-/
import M4riProofs.GenTieView
import M4riProofs.GenTieAlg
import M4riProofs.GenTieSolve
import M4riProofs.GenTieEch
import M4riProofs.GenTieGlue
import M4riProofs.GenTiePle
import M4riProofs.Glue2
import M4riProofs.GenTieStrassen
set_option linter.unusedVariables false
namespace M4ri.GenTieKer
open M4ri M4ri.Gen M4ri.GenTieMem M4ri.GenTieView M4ri.BMat M4ri.GenTieAlg M4ri.GenTieSolve M4ri.GenTieTab
open M4ri.GenTieEch

/-! ### 1. `mzd_copy` -/

/-- the memory after `mzd_copy(N, P)` for ANY two memories: the words of the rows of `P` are copied, the last
    one under the mask -/
def copyMem (mN mP : Int → Int → BitVec 64) (hb : BitVec 64) (nr nw : Nat) : Int → Int → BitVec 64 :=
  fun r w => if 0 ≤ r ∧ r < (nr : Int) ∧ 0 ≤ w ∧ w < (nw : Int) then
    (if w = (nw : Int) - 1 then (mN r w &&& ~~~hb) ||| (mP r w &&& hb) else mP r w) else mN r w

/-- closed form of the generated `mzd_copy` on arbitrary memories -/
theorem mzdCopy_closed (mN mP : Int → Int → BitVec 64) (hb : BitVec 64) (nr nw : Nat) (hw : 1 ≤ nw) :
    Gen.C.mzdCopy mN false nw hb nr mP = copyMem mN mP hb nr nw := by
  unfold Gen.C.mzdCopy
  rw [if_neg (by simp)]
  dsimp_m
  simp_m [Int.zero_add]
  generalize hres : CLoop.loop _ _ _ _ = res
  have key := for_loop_eq hres nr (fun k st => st.2 = (k : Int) ∧ st.1 = copyMem mN mP hb k nw) (by simp)
    ⟨rfl, by funext r w; unfold copyMem; rw [if_neg (by omega)]⟩ ?_ ?_
  · obtain ⟨rm, ri⟩ := res
    exact key.2
  · intro k st hk hP
    obtain ⟨mm, i⟩ := st
    obtain ⟨k1, k2⟩ := hP
    dsimp only at k1 k2 ⊢
    subst k1
    simp
  · intro k st hk hP
    obtain ⟨mm, i⟩ := st
    obtain ⟨k1, k2⟩ := hP
    dsimp only at k1 k2
    subst k1 k2
    clear hres
    dsimp_m
    generalize hres2 : CLoop.loop _ _ _ _ = res2
    have key2 := for_loop_eq hres2 (nw - 1) (fun j st => st.2 = (j : Int) ∧
        st.1 = fun r w => if r = (k : Int) ∧ 0 ≤ w ∧ w < (j : Int) then mP r w else copyMem mN mP hb k nw r w)
      (by simp) ⟨rfl, by funext r w; rw [if_neg (by omega)]⟩ ?_ ?_
    · obtain ⟨mm, j⟩ := res2
      obtain ⟨j1, j2⟩ := key2
      dsimp only at j1 j2 ⊢
      subst j1 j2
      refine ⟨by omega, ?_⟩
      funext r w
      unfold CLoop.upd2 copyMem
      dsimp only
      by_cases h1 : r = (k : Int) ∧ w = (nw : Int) - 1
      · obtain ⟨rfl, rfl⟩ := h1
        rw [if_pos ⟨rfl, rfl⟩, if_neg (by omega), if_neg (by omega), if_pos (by omega), if_pos rfl]
      · rw [if_neg (by omega)]
        by_cases h2 : r = (k : Int) ∧ 0 ≤ w ∧ w < ((nw - 1 : Nat) : Int)
        · rw [if_pos h2, if_pos (by omega), if_neg (by omega)]
        · rw [if_neg h2]
          have e : (0 ≤ r ∧ r < (k : Int) ∧ 0 ≤ w ∧ w < (nw : Int))
              ↔ (0 ≤ r ∧ r < ((k + 1 : Nat) : Int) ∧ 0 ≤ w ∧ w < (nw : Int)) := by omega
          exact if_congr e rfl rfl
    · intro j st hj hP
      obtain ⟨mm, i⟩ := st
      obtain ⟨j1, j2⟩ := hP
      dsimp only at j1 j2 ⊢
      subst j1
      simp
      omega
    · intro j st hj hP
      obtain ⟨mm, i⟩ := st
      obtain ⟨j1, j2⟩ := hP
      dsimp only at j1 j2 ⊢
      subst j1 j2
      refine ⟨by omega, ?_⟩
      funext r w
      unfold CLoop.upd2
      dsimp only
      by_cases h1 : r = (k : Int) ∧ w = (j : Int)
      · rw [if_pos h1, if_pos (by omega), h1.1, h1.2]
      · rw [if_neg h1]
        by_cases h2 : r = (k : Int) ∧ 0 ≤ w ∧ w < (j : Int)
        · rw [if_pos h2, if_pos (by omega)]
        · rw [if_neg h2, if_neg (by omega)]

theorem copyMem_agree {mN mN' : Int → Int → BitVec 64} (mP : Int → Int → BitVec 64) (hb : BitVec 64) (nr nw R W : Nat)
    (h : AgreeOn R W mN mN') : AgreeOn R W (copyMem mN mP hb nr nw) (copyMem mN' mP hb nr nw) := by
  intro i k hi hk
  unfold copyMem
  rw [h i k hi hk]

theorem copyMem_src_congr (mN : Int → Int → BitVec 64) {mP mP' : Int → Int → BitVec 64} (hb : BitVec 64) (nr nw : Nat)
    (h : AgreeOn nr nw mP mP') : copyMem mN mP hb nr nw = copyMem mN mP' hb nr nw := by
  funext r w
  unfold copyMem
  by_cases hc : 0 ≤ r ∧ r < (nr : Int) ∧ 0 ≤ w ∧ w < (nw : Int)
  · rw [if_pos hc, if_pos hc, h.at r w hc.1 hc.2.1 hc.2.2.1 hc.2.2.2]
  · rw [if_neg hc, if_neg hc]

/-- **`mzd_copy(N, P)`** for a supplied destination at least as large as `P`: the generated function is the
    model's `copyInto` -/
theorem mzdCopy_eq (N P : Mzd) (hN : N.WF) (hr : P.nrows ≤ N.nrows) (hc : P.ncols ≤ N.ncols) (h1 : 1 ≤ P.ncols) :
    Gen.C.mzdCopy (memOf N) false P.width P.hb P.nrows (memOf P) = memOf (N.copyInto P) := by
  have hw : 1 ≤ P.width := by unfold Mzd.width widthOf; omega
  have hww : P.width ≤ N.width := by unfold Mzd.width widthOf; omega
  rw [mzdCopy_closed _ _ _ _ _ hw]
  have hC := Mzd.copyInto_WF N P hN
  have hCw : (N.copyInto P).width = N.width := rfl
  apply eq_memOf_of_bits hC
  · intro r w h
    unfold copyMem
    rw [if_neg (by omega), memOf_of_neg N r w h]
  · intro x k h
    rw [Mzd.nrows_copyInto, hCw] at h
    unfold copyMem
    rw [if_neg (by omega), memOf_nat, w_of_out hN x k h]
  · intro x k q hx hk hq
    rw [Mzd.nrows_copyInto] at hx
    rw [hCw] at hk
    rw [Mzd.copyInto_bit N P hN x (64 * k + q) hx (by omega)]
    unfold copyMem
    by_cases hin : x < P.nrows ∧ k < P.width
    · rw [if_pos (by omega)]
      by_cases hl : (k : Int) = (P.width : Int) - 1
      · rw [if_pos hl, memOf_nat, memOf_nat, BitVec.getLsbD_or, BitVec.getLsbD_and, BitVec.getLsbD_and,
          BitVec.getLsbD_not, Mzd.getLsbD_w_row _ _ _ _ hq, Mzd.getLsbD_w_row _ _ _ _ hq,
          Mzd.hb_getLsbD P q hq (by omega)]
        have e : 64 * (P.width - 1) + q = 64 * k + q := by omega
        rw [e]
        by_cases hjn : 64 * k + q < P.ncols
        · simp [hjn, hq, hin.1]
        · simp [hjn, hq]
      · rw [if_neg hl, memOf_nat, Mzd.getLsbD_w_row _ _ _ _ hq,
          if_pos ⟨hin.1, by unfold Mzd.width widthOf at hin hl; omega⟩]
    · rw [if_neg (by omega), memOf_nat, Mzd.getLsbD_w_row _ _ _ _ hq,
        if_neg (by unfold Mzd.width widthOf at hin; omega)]

/-- a copy between matrices of the same shape writes the entries of the source: `copyInto` is `putB` -/
theorem copyInto_eq_putB (N P : Mzd) (hN : N.WF) (hr : P.nrows = N.nrows) (hc : P.ncols = N.ncols) :
    N.copyInto P = N.putB P.toB := by
  apply Mzd.eq_putB_of_bit (Mzd.copyInto_WF N P hN) hN rfl rfl
  intro i j hi hj
  rw [Mzd.copyInto_bit N P hN i j hi hj]
  by_cases hjn : j < N.ncols
  · rw [if_pos ⟨by omega, by omega⟩, if_pos hjn, Mzd.get_toB_of_lt P i j (by omega)]
  · rw [if_neg (by omega), if_neg hjn]

/-- **`mzd_copy(window of M, P)`** applied to the view and written back (`P` has the shape of the window) -/
theorem copy_to_window (M : Mzd) (hM : M.WF) (lr lc hr hc : Nat) (hlc : lc % 64 = 0) (hr2 : hr ≤ M.nrows)
    (hc2 : hc ≤ M.ncols) (P : Mzd) (hPr : P.nrows = hr - lr) (hPc : P.ncols = hc - lc) (h1 : 1 ≤ P.ncols) :
    CLoop.unview (memOf M) (lr : Int) ((lc / 64 : Nat) : Int) ((hr - lr : Nat) : Int)
        (((hc - lc + 63) / 64 : Nat) : Int)
        (Gen.C.mzdCopy (CLoop.view (memOf M) (lr : Int) ((lc / 64 : Nat) : Int)) false P.width P.hb P.nrows (memOf P))
      = memOf (M.putB (M.toB.paste lr lc P.toB)) := by
  have hw : 1 ≤ P.width := by unfold Mzd.width widthOf; omega
  have hW := window_WF M lr lc hr hc
  rw [mzdCopy_closed _ _ _ _ _ hw,
    unview_congr _ _ _ _ _ (copyMem_agree (memOf P) P.hb P.nrows P.width _ _ (view_agree_window M lr lc hr hc)),
    ← mzdCopy_closed _ _ _ _ _ hw,
    mzdCopy_eq (M.window lr lc hr hc) P hW (by rw [nrows_window]; omega) (by rw [ncols_window]; omega) h1,
    copyInto_eq_putB _ P hW (by rw [nrows_window]; omega) (by rw [ncols_window]; omega)]
  exact unview_window_putB M hM lr lc hr hc hlc hr2 hc2 P.toB hPr hPc

/-- `mzd_copy(window of the state, P)` on a `putB` state -/
theorem copy_to_window_state (C : Mzd) (hC : C.WF) (X : BMat) (hX : Shaped X C.nrows C.ncols) (lr lc hr hc : Nat)
    (hW : InWin C lr lc hr hc) (P : Mzd) (hPr : P.nrows = hr - lr) (hPc : P.ncols = hc - lc) (h1 : 1 ≤ P.ncols) :
    CLoop.unview (memOf (C.putB X)) (lr : Int) ((lc / 64 : Nat) : Int) ((hr - lr : Nat) : Int)
        (((hc - lc + 63) / 64 : Nat) : Int)
        (Gen.C.mzdCopy (CLoop.view (memOf (C.putB X)) (lr : Int) ((lc / 64 : Nat) : Int)) false P.width P.hb P.nrows
          (memOf P))
      = memOf (C.putB (X.paste lr lc P.toB)) := by
  have h := copy_to_window (C.putB X) (Mzd.WF_putB hC X) lr lc hr hc hW.lc hW.hr hW.hc P hPr hPc h1
  rw [Mzd.toB_putB hC hX.wf hX.nr hX.nc, Mzd.putB_putB hC] at h
  exact h

/-- **`mzd_copy(B, window of M)`**: the source is the view of a window of the shape of `B` -/
theorem copy_from_window (B : Mzd) (hB : B.WF) (M : Mzd) (lr lc hr hc : Nat) (hlc : lc % 64 = 0) (hr2 : hr ≤ M.nrows)
    (hc2 : hc ≤ M.ncols) (hBr : B.nrows = hr - lr) (hBc : B.ncols = hc - lc) (h1 : 1 ≤ hc - lc) :
    Gen.C.mzdCopy (memOf B) false (((hc - lc + 63) / 64 : Nat) : Int) (leftMask ((hc - lc) % 64))
        ((hr - lr : Nat) : Int) (CLoop.view (memOf M) (lr : Int) ((lc / 64 : Nat) : Int))
      = memOf (B.putB (M.toB.sub lr lc hr hc)) := by
  have hw : 1 ≤ (hc - lc + 63) / 64 := by omega
  have hW := window_WF M lr lc hr hc
  rw [mzdCopy_closed _ _ _ _ _ hw, copyMem_src_congr _ _ _ _ (view_agree_window M lr lc hr hc),
    ← mzdCopy_closed _ _ _ _ _ hw]
  have h := mzdCopy_eq B (M.window lr lc hr hc) hB (by rw [nrows_window]; omega) (by rw [ncols_window]; omega)
    (by rw [ncols_window]; exact h1)
  rw [hb_window, nrows_window, width_window] at h
  rw [h, copyInto_eq_putB B _ hB (by rw [nrows_window]; omega) (by rw [ncols_window]; omega),
    window_toB M lr lc hr hc hlc hr2 hc2]

/-! ### 2. `mzd_inv_m4ri` -/

/-- `mzd_echelonize_m4ri(C, full, k)` as a model function on the value of the record (any returned rank) -/
def liftEch (ech : BMat → Int → Int → BMat) (ret : BMat → Int → Int → Int) (V : CLoop.MView) (full k : Int) :
    Int × (Int → Int → BitVec 64) :=
  (ret (Mzd.ofView V).toB full k, memOf ((Mzd.ofView V).putB (ech (Mzd.ofView V).toB full k)))

/-- the record of a local matrix (`mzd_init`, header computed from `ncols`) -/
theorem ofView_local (N : Mzd) (hN : N.WF) (nr nc : Nat) (hr : N.nrows = nr) (hc : N.ncols = nc) :
    Mzd.ofView ⟨CLoop.view (memOf N) 0 0, (nr : Int), (nc : Int), Int.tdiv ((nc : Int) + 63) 64,
      BitVec.allOnes 64 >>> (Int.tmod ((64 : Int) - Int.tmod (nc : Int) 64) 64).toNat⟩ = N := by
  subst hr hc
  rw [view_zero, hdr_w, hdr_hb]
  exact ofView_whole N hN

/-- the work matrix the C code builds (`mzd_copy(AW, A)`, `mzd_set_ui(BW, 1)` on the zero matrix) is `invInput` -/
theorem invInput_build (Z T : BMat) (n nr : Nat) (hZ : Shaped Z n (2 * nr)) (hZ0 : ∀ i j, Z.get i j = false)
    (hT : Shaped T n n) (hnr : nr = 64 * ((n + 63) / 64)) :
    (Z.paste 0 0 T).paste 0 nr (ofFn (n - 0) (nr + n - nr) fun i j => decide (i = j)) = G2.invInput T := by
  have hT' : Shaped T (n - 0) (n - 0) := hT
  have hI : Shaped (ofFn (n - 0) (nr + n - nr) fun i j => decide (i = j)) (n - 0) (nr + n - nr) :=
    ⟨WF_ofFn _ _ _, rfl, rfl⟩
  have h1 : Shaped (Z.paste 0 0 T) n (2 * nr) := shaped_paste_win hZ 0 0 n n hT' (by omega) (by omega)
  have h2 := shaped_paste_win h1 0 nr n (nr + n) hI (by omega) (by omega)
  have hpc : G2.padCols T = nr := by unfold G2.padCols; rw [hT.nc, hnr]
  have hR : Shaped (G2.invInput T) n (2 * nr) :=
    ⟨G2.invInput_WF T (by rw [hT.nr, hT.nc]), by rw [G2.invInput_nrows, hT.nr],
      by rw [G2.invInput_ncols, hpc]⟩
  apply h2.ext hR
  intro i j hi hj
  rw [h1.get_paste_window 0 nr n (nr + n) hI (Nat.le_refl _), hZ.get_paste_window 0 0 n n hT' (Nat.le_refl _),
    G2.invInput_get, hpc, hT.nr, hT.nc, hZ0, decide_eq_true hi, Bool.true_and]
  by_cases hj1 : j < n
  · rw [if_neg (by omega), if_pos (by omega), decide_eq_true hj1, Bool.true_and, Nat.sub_zero, Nat.sub_zero,
      decide_eq_false (by omega : ¬ j = nr + i), Bool.or_false]
  · rw [decide_eq_false hj1, Bool.false_and, Bool.false_or]
    by_cases hj2 : nr ≤ j ∧ j < nr + n
    · rw [if_pos (by omega), get_ofFn _ _ _ _ _ (by omega) (by omega)]
      exact decide_eq_decide.mpr (by omega)
    · rw [if_neg (by omega), if_neg (by omega), decide_eq_false (by omega : ¬ j = nr + i)]

/-- **the tie theorem for `mzd_inv_m4ri(B, A, k)`** (brilliantrussian.c) for a supplied `B`: the work matrix the
    C code builds in the fresh `C` is exactly `G2.invInput A`, the elimination is applied to it with the arguments
    `full = 1`, `k = 0` (the argument `k` of the function is ignored), and its right block is copied into `B`.
    Entry form: NO hypothesis on the callee `ech`. -/
theorem invM4ri_entries (ech : BMat → Int → Int → BMat) (ret : BMat → Int → Int → Int) (A B : Mzd) (k : Int)
    (hA : A.WF) (hB : B.WF) (hsq : A.ncols = A.nrows) (h1 : 1 ≤ A.nrows) (hBr : B.nrows = A.nrows)
    (hBc : B.ncols = A.nrows) :
    Gen.C.invM4ri k (memOf B) A.nrows A.width A.hb (memOf A) (liftEch ech ret)
      = memOf (B.putB (ofFn A.nrows A.nrows fun i j => (ech (G2.invInput A.toB) 1 0).get i (64 * A.width + j))) := by
  have hwd : A.width = (A.nrows + 63) / 64 := by unfold Mzd.width widthOf; rw [hsq]
  unfold Gen.C.invM4ri
  dsimp_m
  have enr : (64 : Int) * (A.width : Int) = ((64 * A.width : Nat) : Int) := by omega
  rw [enr]
  have enr2 : (2 : Int) * ((64 * A.width : Nat) : Int) = ((2 * (64 * A.width) : Nat) : Int) := by omega
  have enr3 : ((64 * A.width : Nat) : Int) + (A.nrows : Int) = ((64 * A.width + A.nrows : Nat) : Int) := by omega
  rw [enr2, enr3]
  obtain ⟨nr, hnr⟩ : ∃ nr, nr = 64 * A.width := ⟨_, rfl⟩
  rw [← hnr]
  have hnr64 : nr % 64 = 0 := by omega
  have hnn : A.nrows ≤ nr := by omega
  rw [mzdInitWindow_in 0 0 A.nrows A.nrows A.nrows _ 0 0 A.nrows A.nrows A.nrows rfl rfl rfl rfl rfl rfl (by omega)
      (by omega) (by omega),
    mzdInitWindow_in 0 nr A.nrows (nr + A.nrows : Nat) A.nrows _ 0 nr A.nrows (nr + A.nrows) A.nrows rfl rfl rfl rfl
      rfl hnr64 (by omega) (by omega) (by omega)]
  dsimp_m
  rw [← GenTieStrassen.memOf_zero A.nrows (2 * nr)]
  have hC0 := GenTieStrassen.zero_WF A.nrows (2 * nr)
  have hZ : Shaped (Mzd.zero A.nrows (2 * nr)).toB A.nrows (2 * nr) := ⟨Mzd.WF_toB hC0, rfl, rfl⟩
  have hZ0 : ∀ i j, (Mzd.zero A.nrows (2 * nr)).toB.get i j = false := by
    intro i j
    rw [Mzd.get_toB', Mzd.zero_bit, Bool.and_false]
  have hT : Shaped A.toB A.nrows A.nrows := ⟨Mzd.WF_toB hA, rfl, hsq⟩
  have hT' : Shaped A.toB (A.nrows - 0) (A.nrows - 0) := hT
  -- `mzd_copy(AW, A)`
  have s1 := copy_to_window (Mzd.zero A.nrows (2 * nr)) hC0 0 0 A.nrows A.nrows rfl (Nat.le_refl _)
    (by show A.nrows ≤ 2 * nr; omega) A rfl (by omega) (by omega)
  have hX1 : Shaped ((Mzd.zero A.nrows (2 * nr)).toB.paste 0 0 A.toB) A.nrows (2 * nr) :=
    shaped_paste_win hZ 0 0 A.nrows A.nrows hT' (by omega) (by omega)
  -- `mzd_set_ui(BW, 1)`
  have s2 := setUiOne_state (Mzd.zero A.nrows (2 * nr)) hC0 _ hX1 0 nr A.nrows (nr + A.nrows)
    ⟨hnr64, Nat.le_refl _, by show nr + A.nrows ≤ 2 * nr; omega⟩ (by omega)
  rw [invInput_build _ _ A.nrows nr hZ hZ0 hT (by rw [hnr, hwd])] at s2
  norm_win at s1 s2 ⊢
  rw [s1, s2]
  -- `mzd_echelonize_m4ri(C, TRUE, 0)`
  have hX2 : Shaped (G2.invInput A.toB) A.nrows (2 * nr) :=
    ⟨G2.invInput_WF A.toB (by show A.nrows ≤ A.ncols; omega), rfl, by
      rw [G2.invInput_ncols]; unfold G2.padCols; show 2 * (64 * ((A.ncols + 63) / 64)) = 2 * nr; rw [hsq, ← hwd, hnr]⟩
  have hN := Mzd.WF_putB hC0 (G2.invInput A.toB)
  unfold liftEch
  rw [ofView_local _ hN A.nrows (2 * nr) rfl rfl, Mzd.toB_putB hC0 hX2.wf hX2.nr hX2.nc]
  dsimp_m
  rw [unview_whole _ hN _ (A.nrows : Int) (Int.tdiv (((2 * nr : Nat) : Int) + 63) 64) rfl (hdr_w _),
    Mzd.putB_putB hC0]
  -- `mzd_copy(B, BW)`
  have s3 := copy_from_window B hB ((Mzd.zero A.nrows (2 * nr)).putB (ech (G2.invInput A.toB) 1 0)) 0 nr A.nrows
    (nr + A.nrows) hnr64 (Nat.le_refl _) (by show nr + A.nrows ≤ 2 * nr; omega) (by omega) (by omega) (by omega)
  norm_win at s3
  rw [s3, Mzd.toB_putB' hC0]
  apply congrArg
  apply Mzd.putB_congr hB
  intro i j hi hj
  have e1 : (Mzd.zero A.nrows (2 * nr)).nrows = A.nrows := rfl
  have e2 : (Mzd.zero A.nrows (2 * nr)).ncols = 2 * nr := rfl
  rw [get_sub, e1, e2, nrows_ofFn, get_ofFn _ _ _ _ _ (by omega) (by omega),
    get_ofFn _ _ _ _ _ (by omega) (by omega), decide_eq_true (by omega), Bool.true_and, Nat.zero_add]

/-- the same in the terms of the model: the right block `[nr, nr + n)` of the eliminated work matrix (the callee
    keeps the number of rows) -/
theorem invM4ri_eq (ech : BMat → Int → Int → BMat) (ret : BMat → Int → Int → Int) (A B : Mzd) (k : Int)
    (hA : A.WF) (hB : B.WF) (hsq : A.ncols = A.nrows) (h1 : 1 ≤ A.nrows) (hBr : B.nrows = A.nrows)
    (hBc : B.ncols = A.nrows) (hech : (ech (G2.invInput A.toB) 1 0).nrows = A.nrows) :
    Gen.C.invM4ri k (memOf B) A.nrows A.width A.hb (memOf A) (liftEch ech ret)
      = memOf (B.putB ((ech (G2.invInput A.toB) 1 0).sub 0 (64 * A.width) A.nrows (64 * A.width + A.nrows))) := by
  rw [invM4ri_entries ech ret A B k hA hB hsq h1 hBr hBc]
  apply congrArg
  apply Mzd.putB_congr hB
  intro i j hi hj
  rw [get_sub, hech, get_ofFn _ _ _ _ _ (by omega) (by omega), decide_eq_true (by omega), Bool.true_and,
    Nat.zero_add]

/-- `mzd_inv_m4ri` with the model's M4RI elimination as the callee: the model `G2.invM4ri` (`kk ≥ 1` = the `k` that
    `_mzd_echelonize_m4ri` chooses for the work matrix when it is passed `0`) -/
theorem invM4ri_model_eq (kk : Nat) (junk : Nat → Nat) (ret : BMat → Int → Int → Int) (A B : Mzd) (k : Int)
    (hA : A.WF) (hB : B.WF) (hsq : A.ncols = A.nrows) (h1 : 1 ≤ A.nrows) (hBr : B.nrows = A.nrows)
    (hBc : B.ncols = A.nrows) (hk : 1 ≤ kk) :
    Gen.C.invM4ri k (memOf B) A.nrows A.width A.hb (memOf A)
        (liftEch (fun C _ _ => (M4RI.echelonizeM4ri C true kk junk).1) ret)
      = memOf (B.putB (G2.invM4ri A.toB kk junk)) := by
  have hC : (G2.invInput A.toB).WF := G2.invInput_WF A.toB (by show A.nrows ≤ A.ncols; omega)
  rw [invM4ri_eq _ ret A B k hA hB hsq h1 hBr hBc (M4RI.echelonizeM4ri_full_nrows hC hk junk)]
  rfl

/-- non-vacuity: the hypotheses of `invM4ri_eq` are satisfiable (`n = 70`: two words, excess bits in `A` and `B`) -/
example : ∃ (A B : Mzd), A.WF ∧ B.WF ∧ A.ncols = A.nrows ∧ 1 ≤ A.nrows ∧ B.nrows = A.nrows ∧ B.ncols = A.nrows :=
  ⟨Mzd.zero 70 70, Mzd.zero 70 70, GenTieStrassen.zero_WF 70 70, GenTieStrassen.zero_WF 70 70, rfl, by decide, rfl, rfl⟩

/-! ### 3. `mzd_kernel_left_pluq` -/

/-- the write-back of a result for the first `k` rows of a local matrix whose other rows did not change -/
theorem unview_top (N : Mzd) (hN : N.WF) (X X' : BMat) (k : Nat) (nw : Int) (hnw : nw = (N.width : Int))
    (h : ∀ a b, k ≤ a → a < N.nrows → b < N.ncols → X.get a b = X'.get a b) :
    CLoop.unview (memOf (N.putB X)) 0 0 (k : Int) nw (memOf (N.putB X')) = memOf (N.putB X') := by
  subst hnw
  funext r w
  unfold CLoop.unview
  split
  · rw [Int.sub_zero, Int.sub_zero]
  · rename_i hc
    by_cases hneg : r < 0 ∨ w < 0
    · rw [memOf_of_neg _ _ _ hneg, memOf_of_neg _ _ _ hneg]
    · obtain ⟨x, rfl⟩ : ∃ x : Nat, r = (x : Int) := ⟨r.toNat, by omega⟩
      obtain ⟨q, rfl⟩ : ∃ q : Nat, w = (q : Int) := ⟨w.toNat, by omega⟩
      rw [memOf_nat, memOf_nat]
      by_cases ho : N.nrows ≤ x ∨ N.width ≤ q
      · rw [w_of_out (Mzd.WF_putB hN X) x q ho, w_of_out (Mzd.WF_putB hN X') x q ho]
      · apply BitVec.eq_of_getLsbD_eq
        intro p hp
        rw [Mzd.getLsbD_w_row _ _ _ _ hp, Mzd.getLsbD_w_row _ _ _ _ hp,
          Mzd.bit_putB N X hN x (64 * q + p) (by omega) (by omega),
          Mzd.bit_putB N X' hN x (64 * q + p) (by omega) (by omega)]
        by_cases hj : 64 * q + p < N.ncols
        · rw [if_pos hj, if_pos hj]
          exact h x _ (by omega) (by omega) hj
        · rw [if_neg hj, if_neg hj]

/-- `mzd_apply_p_left_trans` only reads the entries `0 ≤ i < min(length, nrows)` of the permutation -/
theorem mzdApplyPLeftTrans_congr (m : Int → Int → BitVec 64) (nc len nr : Int) (p p' : Int → Int) (w : Int)
    (hb : BitVec 64) (h : ∀ i, 0 ≤ i → i < len → i < nr → p i = p' i) :
    Gen.C.mzdApplyPLeftTrans m nc len nr p w hb = Gen.C.mzdApplyPLeftTrans m nc len nr p' w hb := by
  unfold Gen.C.mzdApplyPLeftTrans
  split
  · rfl
  · dsimp_m
    rw [loop_congr (fun st : (Int → Int → BitVec 64) × Int => st.2 < len ∧ st.2 < nr) _ _
      (fun st : (Int → Int → BitVec 64) × Int => match st with
        | (a, i) => (Gen.C.mzdRowSwap0 i (p' i) a w hb, i - 1)) ?_ _ _ ?_]
    · intro st hI hc
      obtain ⟨a, i⟩ := st
      simp only [decide_eq_true_eq] at hc
      obtain ⟨h1, h2⟩ := hI
      dsimp only at h1 h2 hc ⊢
      rw [h i (by omega) h1 h2]
      exact ⟨rfl, by omega, by omega⟩
    · dsimp only
      split <;> rename_i hd <;> simp only [decide_eq_true_eq] at hd <;> omega

/-- a local matrix (`mzd_init`) holding the entries `X` is `ofB X` (zero padding) -/
theorem zero_putB_eq_ofB (n c : Nat) (X : BMat) (hX : Shaped X n c) : (Mzd.zero n c).putB X = Mzd.ofB X := by
  have hZ := GenTieStrassen.zero_WF n c
  apply Mzd.ext_bit (Mzd.WF_putB hZ X) (Mzd.WF_ofB X) (by show n = X.nrows; rw [hX.nr])
    (by show c = X.ncols; rw [hX.nc])
  intro i j hi hj
  have hi' : i < n := hi
  have hj' : j < 64 * widthOf c := hj
  rw [Mzd.bit_putB _ X hZ i j hi hj, Mzd.zero_bit,
    Mzd.bit_ofB' X i j (by rw [hX.nr]; exact hi') (by rw [hX.nc]; exact hj'), hX.nc]
  show (if j < c then X.get i j else false) = _
  by_cases h : j < c <;> simp [h]

/-- the entries written so far by the copying loops: rows `< i` complete, row `i` up to column `c` -/
def xorB (S : BMat) (r nc i c : Nat) : BMat :=
  ofFn nc (nc - r) fun a b => if a < i ∨ (a = i ∧ b < c) then S.get a (r + b) else false

/-- one `mzd_xor_bits(RU, i, c, n, mzd_read_bits(A, i, r + c, n))` -/
theorem xorBits_xorB (A R0 : Mzd) (hA : A.WF) (hR0 : R0.WF) (S : BMat) (r i c n : Nat)
    (hR0r : R0.nrows = A.ncols) (hR0c : R0.ncols = A.ncols - r) (hi : i < r) (hr1 : r ≤ A.nrows)
    (hr2 : r ≤ A.ncols) (hn : n ≤ 64) (hc : c + n ≤ A.ncols - r) :
    (R0.putB (xorB S r A.ncols i c)).xorBits i c n ((A.putB S).readBits i (r + c) n)
      = R0.putB (xorB S r A.ncols i (c + n)) := by
  have hN := Mzd.WF_putB hR0 (xorB S r A.ncols i c)
  have hx : i < (R0.putB (xorB S r A.ncols i c)).nrows := by rw [Mzd.nrows_putB]; omega
  apply Mzd.eq_putB_of_bit (Mzd.xorBits_WF _ i c n _ hN hx) hR0 rfl rfl
  intro a b ha hb
  rw [Mzd.xorBits_bit _ i c n _ hN hx hn (by rw [Mzd.ncols_putB]; omega)
      (fun k hk => by rw [Mzd.readBits_getLsbD _ _ _ _ hn, if_neg (by omega)]) a b,
    Mzd.bit_putB R0 _ hR0 a b ha hb]
  by_cases hbn : b < R0.ncols
  · rw [if_pos hbn, if_pos hbn]
    unfold xorB
    rw [get_ofFn _ _ _ _ _ (by omega) (by omega), get_ofFn _ _ _ _ _ (by omega) (by omega)]
    by_cases h1 : a = i ∧ c ≤ b ∧ b < c + n
    · obtain ⟨rfl, h2, h3⟩ := h1
      have e : r + c + (b - c) = r + b := by omega
      rw [if_pos ⟨rfl, h2, h3⟩, if_neg (by omega), if_pos (by omega), Mzd.readBits_getLsbD _ _ _ _ hn,
        if_pos (by omega), e, Mzd.bit_putB_of_lt A S hA a (r + b) (by omega) (by omega)]
      simp
    · rw [if_neg h1]
      exact if_congr (by omega) rfl rfl
  · rw [if_neg hbn, if_neg hbn, if_neg (by omega)]

/-- the two nested copying loops of `mzd_kernel_left_pluq`: `RU := A[0..r, r..ncols)` -/
theorem xorLoops_spec (A R0 : Mzd) (hA : A.WF) (hR0 : R0.WF) (S : BMat) (r : Nat)
    (hR0r : R0.nrows = A.ncols) (hR0c : R0.ncols = A.ncols - r) (hr1 : r ≤ A.nrows) (hr2 : r ≤ A.ncols)
    {cond : (Int → Int → BitVec 64) × Int → Bool}
    {body : (Int → Int → BitVec 64) × Int → (Int → Int → BitVec 64) × Int} {fuel : Nat}
    {res : (Int → Int → BitVec 64) × Int}
    (hres : CLoop.loop fuel cond body (memOf (R0.putB (xorB S r A.ncols 0 0)), (0 : Int)) = res) (hf : r ≤ fuel)
    (hcond : ∀ st, cond st = decide (st.2 < (r : Int)))
    (hbody : ∀ st, body st = ((CLoop.loop (A.ncols + 1) (fun s2 => decide (s2.2 < ((A.ncols - r : Nat) : Int)))
        (fun s2 => (CLoop.unview s2.1 0 0 (r : Int) (((A.ncols - r + 63) / 64 : Nat) : Int)
            (Gen.C.mzdXorBits st.2 s2.2
              (if decide ((64 : Int) < ((A.ncols - r : Nat) : Int) - s2.2) = true then (64 : Int)
                else ((A.ncols - r : Nat) : Int) - s2.2)
              (Gen.C.mzdReadBits st.2 ((r : Int) + s2.2)
                (if decide ((64 : Int) < ((A.ncols - r : Nat) : Int) - s2.2) = true then (64 : Int)
                  else ((A.ncols - r : Nat) : Int) - s2.2) (memOf (A.putB S)))
              (CLoop.view s2.1 0 0)),
          s2.2 + 64)) (st.1, 0)).1, st.2 + 1)) :
    res.1 = memOf (R0.putB (xorB S r A.ncols r 0)) := by
  have hw : R0.width = (A.ncols - r + 63) / 64 := by unfold Mzd.width widthOf; rw [hR0c]
  have key := for_loop_eq hres r
    (fun k st => st.2 = (k : Int) ∧ st.1 = memOf (R0.putB (xorB S r A.ncols k 0))) hf ⟨rfl, rfl⟩ ?_ ?_
  · exact key.2
  · intro k st hk hP
    rw [hcond, hP.1]
    congr 1
    apply propext
    omega
  · intro k st hk hP
    obtain ⟨mm, i⟩ := st
    obtain ⟨k1, k2⟩ := hP
    dsimp only at k1 k2
    subst k1 k2
    rw [hbody]
    dsimp only
    refine ⟨by omega, ?_⟩
    generalize hres2 : CLoop.loop _ _ _ _ = res2
    have key2 := for_loop_eq hres2 ((A.ncols - r + 63) / 64)
      (fun t st => st.2 = ((64 * t : Nat) : Int) ∧
        st.1 = memOf (R0.putB (xorB S r A.ncols k (min (64 * t) (A.ncols - r)))))
      (by omega) ⟨rfl, rfl⟩ ?_ ?_
    · rw [key2.2]
      congr 1
      apply Mzd.putB_congr hR0
      intro a b ha hb
      unfold xorB
      rw [get_ofFn _ _ _ _ _ (by omega) (by omega), get_ofFn _ _ _ _ _ (by omega) (by omega)]
      exact if_congr (by omega) rfl rfl
    · intro t st ht hP
      rw [hP.1]
      congr 1
      apply propext
      omega
    · intro t st ht hP
      obtain ⟨mm, j⟩ := st
      obtain ⟨t1, t2⟩ := hP
      dsimp only at t1 t2
      subst t1 t2
      dsimp only
      refine ⟨by omega, ?_⟩
      have h64 : 64 * t < A.ncols - r := by omega
      have hmin : min (64 * t) (A.ncols - r) = 64 * t := by omega
      have en : (if decide ((64 : Int) < ((A.ncols - r : Nat) : Int) - ((64 * t : Nat) : Int)) = true then (64 : Int)
          else ((A.ncols - r : Nat) : Int) - ((64 * t : Nat) : Int))
            = ((min 64 (A.ncols - r - 64 * t) : Nat) : Int) := by
        simp only [decide_eq_true_eq]
        split <;> omega
      have er : (r : Int) + ((64 * t : Nat) : Int) = ((r + 64 * t : Nat) : Int) := by omega
      rw [en, hmin, er, view_zero, mzdReadBits_eq',
        mzdXorBits_eq _ _ _ _ _ (Mzd.WF_putB hR0 _) (by rw [Mzd.nrows_putB]; omega) (by omega)
          (by rw [Mzd.width_putB, hw]; omega),
        xorBits_xorB A R0 hA hR0 S r k (64 * t) _ hR0r hR0c hk hr1 hr2 (by omega) (by omega)]
      have e2 : 64 * t + min 64 (A.ncols - r - 64 * t) = min (64 * (t + 1)) (A.ncols - r) := by omega
      rw [e2]
      apply unview_top R0 hR0 _ _ r _ (by rw [hw])
      intro a b h1 h2 h3
      unfold xorB
      rw [get_ofFn _ _ _ _ _ (by omega) (by omega), get_ofFn _ _ _ _ _ (by omega) (by omega)]
      exact if_congr (by omega) rfl rfl

/-- the identity block below `RU`: the ones at `(r + i, i)` for `i < k` -/
def diagB (X : BMat) (r nc k : Nat) : BMat :=
  ofFn nc (nc - r) fun a b => X.get a b || decide (r ≤ a ∧ a < r + k ∧ b = a - r)

theorem writeBit_diagB (R0 : Mzd) (hR0 : R0.WF) (X : BMat) (r nc k : Nat) (hR0r : R0.nrows = nc)
    (hR0c : R0.ncols = nc - r) (hk : k < nc - r) :
    (R0.putB (diagB X r nc k)).writeBit (r + k) k true = R0.putB (diagB X r nc (k + 1)) := by
  have hN := Mzd.WF_putB hR0 (diagB X r nc k)
  have hx : r + k < (R0.putB (diagB X r nc k)).nrows := by rw [Mzd.nrows_putB]; omega
  apply Mzd.eq_putB_of_bit (Mzd.writeBit_WF_D _ _ _ _ hN hx) hR0 rfl rfl
  intro a b ha hb
  rw [Mzd.writeBit_bit_D _ _ _ _ hN hx a b ha hb, Mzd.bit_putB R0 _ hR0 a b ha hb]
  by_cases hbn : b < R0.ncols
  · rw [if_pos hbn, if_pos hbn]
    unfold diagB
    rw [get_ofFn _ _ _ _ _ (by omega) (by omega), get_ofFn _ _ _ _ _ (by omega) (by omega)]
    by_cases h1 : a = r + k ∧ b = k
    · rw [if_pos h1, decide_eq_true (by omega : r ≤ a ∧ a < r + (k + 1) ∧ b = a - r), Bool.or_true]
    · rw [if_neg h1]
      congr 1
      exact decide_eq_decide.mpr (by omega)
  · rw [if_neg hbn, if_neg hbn, if_neg (by omega)]

/-- the loop `mzd_write_bit(R, r + i, i, 1)` for `i < R->ncols` -/
theorem diagLoop_spec (R0 : Mzd) (hR0 : R0.WF) (X : BMat) (r nc : Nat) (hR0r : R0.nrows = nc)
    (hR0c : R0.ncols = nc - r) (hX : Shaped X nc (nc - r))
    {cond : (Int → Int → BitVec 64) × Int → Bool}
    {body : (Int → Int → BitVec 64) × Int → (Int → Int → BitVec 64) × Int} {fuel : Nat}
    {res : (Int → Int → BitVec 64) × Int}
    (hres : CLoop.loop fuel cond body (memOf (R0.putB X), (0 : Int)) = res) (hf : nc - r ≤ fuel)
    (hcond : ∀ st, cond st = decide (st.2 < ((nc - r : Nat) : Int)))
    (hbody : ∀ st, body st = (CLoop.unview st.1 0 0 (nc : Int) (((nc - r + 63) / 64 : Nat) : Int)
        (Gen.C.mzdWriteBit ((r : Int) + st.2) st.2 1 (CLoop.view st.1 0 0)), st.2 + 1)) :
    res.1 = memOf (R0.putB (diagB X r nc (nc - r))) := by
  have hw : R0.width = (nc - r + 63) / 64 := by unfold Mzd.width widthOf; rw [hR0c]
  have key := for_loop_eq hres (nc - r)
    (fun k st => st.2 = (k : Int) ∧ st.1 = memOf (R0.putB (diagB X r nc k))) hf ⟨rfl, ?_⟩ ?_ ?_
  · exact key.2
  · dsimp only
    congr 1
    apply Mzd.putB_congr hR0
    intro a b ha hb
    unfold diagB
    rw [get_ofFn _ _ _ _ _ (by omega) (by omega), decide_eq_false (by omega), Bool.or_false]
  · intro k st hk hP
    rw [hcond, hP.1]
    congr 1
    apply propext
    omega
  · intro k st hk hP
    obtain ⟨mm, i⟩ := st
    obtain ⟨k1, k2⟩ := hP
    dsimp only at k1 k2
    subst k1 k2
    rw [hbody]
    dsimp only
    refine ⟨by omega, ?_⟩
    have er : (r : Int) + (k : Int) = ((r + k : Nat) : Int) := by omega
    have hwb := mzdWriteBit_eq (R0.putB (diagB X r nc k)) (r + k) k true (Mzd.WF_putB hR0 _)
      (by rw [Mzd.nrows_putB]; omega) (by rw [Mzd.width_putB, hw]; omega)
    rw [if_pos rfl] at hwb
    rw [er, view_zero, hwb, writeBit_diagB R0 hR0 X r nc k hR0r hR0c hk]
    apply unview_top R0 hR0 _ _ nc _ (by rw [hw])
    intro a b h1 h2 h3
    omega


/-! #### the model value -/

theorem kRhs_shaped (S : BMat) (r n : Nat) (hr : r ≤ n) : Shaped (SV.kRhs S r n) r (n - r) := by
  unfold SV.kRhs
  refine ⟨add_WF (WF_sub _ _ _ _ _) (WF_sub _ _ _ _ _) ?_, ?_, ?_⟩
  · simp only [ncols_sub, zero_ncols]; omega
  · rw [add_nrows, nrows_sub, zero_nrows]; omega
  · rw [add_ncols, ncols_sub, zero_ncols]; omega

theorem kRhs_get (S : BMat) (r n : Nat) (hr : r ≤ n) (hS : r ≤ S.nrows) (i c : Nat) (hi : i < r) (hc : c < n - r) :
    (SV.kRhs S r n).get i c = S.get i (r + c) := by
  unfold SV.kRhs
  rw [add_get, get_sub, get_sub, zero_get, nrows_sub, ncols_sub, zero_nrows, zero_ncols, Nat.zero_add]
  have h1 : i < n := by omega
  have h2 : i < S.nrows := by omega
  simp [hi, h1, h2, hc]

/-- what the C code leaves in `R` before the row permutation is the model's `kK0` -/
theorem kernel_value (S : BMat) (r nc : Nat) (hSr : r ≤ S.nrows) (hr : r < nc) :
    Shaped (SV.kK0 S r nc) nc (nc - r) ∧
    diagB ((xorB S r nc r 0).paste 0 0 (trsmUpperLeft (S.sub 0 0 r r) ((xorB S r nc r 0).sub 0 0 r (nc - r)))) r nc
        (nc - r) = SV.kK0 S r nc := by
  have hX1 : Shaped (xorB S r nc r 0) nc (nc - r) := ⟨WF_ofFn _ _ _, rfl, rfl⟩
  have hK := kRhs_shaped S r nc (by omega)
  have e1 : (xorB S r nc r 0).sub 0 0 r (nc - r) = SV.kRhs S r nc := by
    apply ((hX1.sub 0 0 r (nc - r) (by omega)).cast (Nat.sub_zero r) (Nat.sub_zero _)).ext hK
    intro i j hi hj
    rw [hX1.get_sub 0 0 r (nc - r) i j (by omega), kRhs_get S r nc (by omega) hSr i j hi hj, Nat.zero_add, Nat.zero_add]
    unfold xorB
    rw [get_ofFn _ _ _ _ _ (by omega) hj, if_pos (by omega), decide_eq_true (by omega : i < r - 0 ∧ j < nc - r - 0),
      Bool.true_and]
  rw [e1]
  have hV : Shaped (trsmUpperLeft (S.sub 0 0 r r) (SV.kRhs S r nc)) (r - 0) (nc - r - 0) := shaped_ul hK
  have hZ : Shaped (zero nc (nc - r)) nc (nc - r) := Shaped.zero _ _
  have hR1 : Shaped ((zero nc (nc - r)).paste 0 0 (trsmUpperLeft (S.sub 0 0 r r) (SV.kRhs S r nc))) nc (nc - r) :=
    shaped_paste_win hZ 0 0 r (nc - r) hV (by omega) (by omega)
  have hspec := SV.writeDiag_spec ((zero nc (nc - r)).paste 0 0 (trsmUpperLeft (S.sub 0 0 r r) (SV.kRhs S r nc))) r
    (nc - r) (by rw [hR1.wf.1, hR1.nr]; omega)
  have hget : ∀ a b, (SV.kK0 S r nc).get a b
      = (((zero nc (nc - r)).paste 0 0 (trsmUpperLeft (S.sub 0 0 r r) (SV.kRhs S r nc))).get a b
          || decide (r ≤ a ∧ a < r + (nc - r) ∧ b = a - r)) := by
    intro a b
    unfold SV.kK0
    rw [hR1.nc]
    exact hspec.2 a b
  have hsh : Shaped (SV.kK0 S r nc) nc (nc - r) := by
    have sh : SameShape ((zero nc (nc - r)).paste 0 0 (trsmUpperLeft (S.sub 0 0 r r) (SV.kRhs S r nc)))
        (SV.kK0 S r nc) := by
      unfold SV.kK0
      rw [hR1.nc]
      exact hspec.1
    have hnr : (SV.kK0 S r nc).nrows = nc := sh.1.trans hR1.nr
    have hnc : (SV.kK0 S r nc).ncols = nc - r := sh.2.1.trans hR1.nc
    refine ⟨WF_of_get (by rw [sh.2.2, hR1.wf.1, hnr, hR1.nr]) ?_, hnr, hnc⟩
    intro a b hb
    rw [hnc] at hb
    rw [hget, hR1.get_of_ge_col a b hb, decide_eq_false (by omega), Bool.or_false]
  refine ⟨hsh, ?_⟩
  apply (⟨WF_ofFn _ _ _, rfl, rfl⟩ : Shaped (diagB _ r nc (nc - r)) nc (nc - r)).ext hsh
  intro a b ha hb
  unfold diagB
  rw [get_ofFn _ _ _ _ _ ha hb, hget, hX1.get_paste_window 0 0 r (nc - r) hV (by omega),
    hZ.get_paste_window 0 0 r (nc - r) hV (by omega)]
  congr 1
  by_cases hin : 0 ≤ a ∧ a < r ∧ 0 ≤ b ∧ b < nc - r
  · rw [if_pos hin, if_pos hin]
  · rw [if_neg hin, if_neg hin, get_zero]
    unfold xorB
    rw [get_ofFn _ _ _ _ _ ha hb, if_neg (by omega)]

/-- **the tie theorem for `mzd_kernel_left_pluq(A, cutoff)`** (solve.c), the factorisation given by its parts -/
theorem kernelLeftPluq_eq' (fact : BMat → Rec.Out) (A : Mzd) (cutoff rs : Int) (hA : A.WF)
    (S : BMat) (P Q : Array Nat) (r : Nat) (hf : fact A.toB = (S, P, Q, r))
    (hS : Shaped S A.nrows A.ncols) (hr1 : r ≤ A.nrows) (hr2 : r ≤ A.ncols) (hQs : Q.size = A.ncols)
    (hQ : ∀ i, i < A.ncols → Q.getD i 0 < A.ncols) :
    Gen.C.kernelLeftPluq cutoff (memOf A) A.nrows A.ncols A.width A.hb (GenTiePle.liftPle fact) rs
        (fun U B _ => liftM2 trsmUpperLeft U B)
      = (match SV.kernelLeftPluq fact A.toB with
        | none => ((1 : Int), memOf (A.putB S), (fun _ _ => 0#64), (0 : Int), (0 : Int))
        | some K => ((0 : Int), memOf (A.putB S), memOf (Mzd.ofB K), (K.nrows : Int), (K.ncols : Int))) := by
  rw [SV.kernelLeftPluq_eq, hf]
  unfold Gen.C.kernelLeftPluq GenTiePle.liftPle
  rw [ofView_whole A hA, hf]
  simp_m [Mzd.ncols_toB]
  by_cases h0 : r = A.ncols
  · rw [if_pos (by simp only [decide_eq_true_eq]; omega), if_pos h0]
  · rw [if_neg (by simp only [decide_eq_true_eq]; omega), if_neg h0]
    have eRc : (A.ncols : Int) - (r : Int) = ((A.ncols - r : Nat) : Int) := by omega
    rw [eRc,
      mzdInitWindow_in 0 0 r r A.nrows rs 0 0 r r A.nrows rfl rfl rfl rfl rfl rfl (by omega) (by omega) hr1,
      mzdInitWindow_in 0 0 r (A.ncols - r : Nat) A.ncols _ 0 0 r (A.ncols - r) A.ncols rfl rfl rfl rfl rfl rfl
        (by omega) (by omega) hr2]
    simp_m [Int.toNat_natCast]
    norm_win
    rw [hdr_w, hdr_hb, Int.sub_zero, ← GenTieStrassen.memOf_zero A.ncols (A.ncols - r)]
    have hR0 := GenTieStrassen.zero_WF A.ncols (A.ncols - r)
    have eR0r : (Mzd.zero A.ncols (A.ncols - r)).nrows = A.ncols := rfl
    have eR0c : (Mzd.zero A.ncols (A.ncols - r)).ncols = A.ncols - r := rfl
    have eR0w : (Mzd.zero A.ncols (A.ncols - r)).width = (A.ncols - r + 63) / 64 := rfl
    have eR0h : (Mzd.zero A.ncols (A.ncols - r)).hb = leftMask ((A.ncols - r) % 64) := rfl
    -- the copying loops
    have e0 : memOf (Mzd.zero A.ncols (A.ncols - r))
        = memOf ((Mzd.zero A.ncols (A.ncols - r)).putB (xorB S r A.ncols 0 0)) := by
      congr 1
      conv => lhs; rw [← Mzd.putB_toB hR0]
      apply Mzd.putB_congr hR0
      intro a b ha hb
      unfold xorB
      rw [get_ofFn _ _ _ _ _ (show a < A.ncols from ha) (show b < A.ncols - r from hb), if_neg (by omega),
        Mzd.get_toB', Mzd.zero_bit, Bool.and_false]
    rw [e0]
    generalize hres : CLoop.loop A.ncols _ _
      (memOf ((Mzd.zero A.ncols (A.ncols - r)).putB (xorB S r A.ncols 0 0)), (0 : Int)) = res
    have key := xorLoops_spec A _ hA hR0 S r rfl rfl hr1 hr2 hres hr2 (fun _ => rfl) (fun _ => rfl)
    obtain ⟨rm, ri⟩ := res
    dsimp_m at key ⊢
    subst key
    -- the triangular solve
    have hX1 : Shaped (xorB S r A.ncols r 0) A.ncols (A.ncols - r) := ⟨WF_ofFn _ _ _, rfl, rfl⟩
    have hY : Shaped (trsmUpperLeft ((A.putB S).toB.sub 0 0 r r) ((xorB S r A.ncols r 0).sub 0 0 r (A.ncols - r)))
        (r - 0) (A.ncols - r - 0) := shaped_ul (hX1.sub 0 0 r (A.ncols - r) (by omega))
    have s2 := call2_state trsmUpperLeft (A.putB S) (Mzd.zero A.ncols (A.ncols - r)) hR0 _ hX1 0 0 r r 0 0 r
      (A.ncols - r) ⟨rfl, hr1, hr2⟩ ⟨rfl, hr2, Nat.le_refl _⟩ hY
    rw [Mzd.toB_putB hA hS.wf hS.nr hS.nc] at s2 hY
    norm_win at s2 hY
    rw [s2]
    have hX2 : Shaped ((xorB S r A.ncols r 0).paste 0 0
        (trsmUpperLeft (S.sub 0 0 r r) ((xorB S r A.ncols r 0).sub 0 0 r (A.ncols - r)))) A.ncols (A.ncols - r) :=
      shaped_paste_win hX1 0 0 r (A.ncols - r) (by simpa using hY) (by omega) (Nat.le_refl _)
    -- the identity block
    generalize hres3 : CLoop.loop A.ncols _ _ (memOf ((Mzd.zero A.ncols (A.ncols - r)).putB _), (0 : Int)) = res3
    have key3 := diagLoop_spec _ hR0 _ r A.ncols rfl rfl hX2 hres3 (by omega) (fun _ => rfl) (fun _ => rfl)
    obtain ⟨rm3, ri3⟩ := res3
    dsimp_m at key3 ⊢
    subst key3
    obtain ⟨hK, eK⟩ := kernel_value S r A.ncols (by rw [hS.nr]; exact hr1) (by omega)
    rw [eK]
    -- the row permutation
    have s4 := applyPTrans_state _ hR0 _ hK Q (by show 1 ≤ A.ncols - r; omega)
      (fun i hi => hQ i (by rw [hQs] at hi; exact Nat.lt_of_lt_of_le hi (Nat.min_le_left _ _)))
    rw [eR0r, eR0c, eR0w, eR0h, hQs] at s4
    rw [view_zero, mzdApplyPLeftTrans_congr _ _ _ _ _ (fun i => ((Q.getD i.toNat 0 : Nat) : Int)) _ _ ?_, s4,
      unview_top _ hR0 _ _ A.ncols (((A.ncols - r + 63) / 64 : Nat) : Int) rfl
        (fun a b h1 h2 h3 => by rw [eR0r] at h2; omega),
      zero_putB_eq_ofB _ _ _ (SV.shaped_applyPLeftTrans hK Q), (SV.shaped_applyPLeftTrans hK Q).nr,
      (SV.shaped_applyPLeftTrans hK Q).nc]
    intro i h1 h2 h3
    rw [if_pos ⟨h1, h2⟩, Int.sub_zero]
    rfl

/-- **the tie theorem for `mzd_kernel_left_pluq(A, cutoff)`** (solve.c): the generated function, `mzd_pluq` := the
    lift of the model factorisation `fact`, `mzd_trsm_upper_left` := the lift of `trsmUpperLeft`, returns the `NULL`
    flag, the memory of `A` as the factorisation left it and the memory and shape of the fresh kernel matrix of the
    model.  Only SHAPES are asked of `fact`. -/
theorem kernelLeftPluq_eq (fact : BMat → Rec.Out) (A : Mzd) (cutoff rs : Int) (hA : A.WF)
    (hS : Shaped (fact A.toB).1 A.nrows A.ncols) (hr1 : (fact A.toB).2.2.2 ≤ A.nrows)
    (hr2 : (fact A.toB).2.2.2 ≤ A.ncols) (hQs : (fact A.toB).2.2.1.size = A.ncols)
    (hQ : ∀ i, i < A.ncols → (fact A.toB).2.2.1.getD i 0 < A.ncols) :
    Gen.C.kernelLeftPluq cutoff (memOf A) A.nrows A.ncols A.width A.hb (GenTiePle.liftPle fact) rs
        (fun U B _ => liftM2 trsmUpperLeft U B)
      = (match SV.kernelLeftPluq fact A.toB with
        | none => ((1 : Int), memOf (A.putB (fact A.toB).1), (fun _ _ => 0#64), (0 : Int), (0 : Int))
        | some K => ((0 : Int), memOf (A.putB (fact A.toB).1), memOf (Mzd.ofB K), (K.nrows : Int), (K.ncols : Int))) :=
  kernelLeftPluq_eq' fact A cutoff rs hA _ _ _ _ rfl hS hr1 hr2 hQs hQ

/-- the `NULL` path -/
theorem kernelLeftPluq_none (fact : BMat → Rec.Out) (A : Mzd) (cutoff rs : Int) (hA : A.WF)
    (hS : Shaped (fact A.toB).1 A.nrows A.ncols) (hr1 : (fact A.toB).2.2.2 ≤ A.nrows)
    (hr2 : (fact A.toB).2.2.2 ≤ A.ncols) (hQs : (fact A.toB).2.2.1.size = A.ncols)
    (hQ : ∀ i, i < A.ncols → (fact A.toB).2.2.1.getD i 0 < A.ncols)
    (h : SV.kernelLeftPluq fact A.toB = none) :
    Gen.C.kernelLeftPluq cutoff (memOf A) A.nrows A.ncols A.width A.hb (GenTiePle.liftPle fact) rs
        (fun U B _ => liftM2 trsmUpperLeft U B)
      = ((1 : Int), memOf (A.putB (fact A.toB).1), (fun _ _ => 0#64), (0 : Int), (0 : Int)) := by
  rw [kernelLeftPluq_eq fact A cutoff rs hA hS hr1 hr2 hQs hQ, h]

/-- the path with a kernel matrix `K` -/
theorem kernelLeftPluq_some (fact : BMat → Rec.Out) (A : Mzd) (cutoff rs : Int) (hA : A.WF)
    (hS : Shaped (fact A.toB).1 A.nrows A.ncols) (hr1 : (fact A.toB).2.2.2 ≤ A.nrows)
    (hr2 : (fact A.toB).2.2.2 ≤ A.ncols) (hQs : (fact A.toB).2.2.1.size = A.ncols)
    (hQ : ∀ i, i < A.ncols → (fact A.toB).2.2.1.getD i 0 < A.ncols)
    (K : BMat) (h : SV.kernelLeftPluq fact A.toB = some K) :
    Gen.C.kernelLeftPluq cutoff (memOf A) A.nrows A.ncols A.width A.hb (GenTiePle.liftPle fact) rs
        (fun U B _ => liftM2 trsmUpperLeft U B)
      = ((0 : Int), memOf (A.putB (fact A.toB).1), memOf (Mzd.ofB K), (K.nrows : Int), (K.ncols : Int)) := by
  rw [kernelLeftPluq_eq fact A cutoff rs hA hS hr1 hr2 hQs hQ, h]

/-- non-vacuity: the hypotheses of `kernelLeftPluq_eq` are satisfiable on the path with a kernel (`r = 3`,
    `ncols = 200`: the copying loop runs over four chunks) and on the `NULL` path -/
example : ∃ (fact : BMat → Rec.Out) (A : Mzd), A.WF ∧ Shaped (fact A.toB).1 A.nrows A.ncols ∧
    (fact A.toB).2.2.2 ≤ A.nrows ∧ (fact A.toB).2.2.2 ≤ A.ncols ∧ (fact A.toB).2.2.1.size = A.ncols ∧
    (∀ i, i < A.ncols → (fact A.toB).2.2.1.getD i 0 < A.ncols) ∧ (fact A.toB).2.2.2 ≠ A.ncols :=
  ⟨fun B => (B, Array.range B.nrows, Array.range B.ncols, 3), Mzd.zero 5 200, GenTieStrassen.zero_WF 5 200,
    ⟨Mzd.WF_toB (GenTieStrassen.zero_WF 5 200), rfl, rfl⟩, by decide, by decide, by simp, by
      intro i hi
      have hi' : i < 200 := hi
      simp [Array.getD, hi'], by decide⟩

example : ∃ (fact : BMat → Rec.Out) (A : Mzd), A.WF ∧ Shaped (fact A.toB).1 A.nrows A.ncols ∧
    (fact A.toB).2.2.2 ≤ A.nrows ∧ (fact A.toB).2.2.2 ≤ A.ncols ∧ (fact A.toB).2.2.1.size = A.ncols ∧
    (∀ i, i < A.ncols → (fact A.toB).2.2.1.getD i 0 < A.ncols) ∧ SV.kernelLeftPluq fact A.toB = none :=
  ⟨fun B => (B, Array.range B.nrows, Array.range B.ncols, 3), Mzd.zero 5 3, GenTieStrassen.zero_WF 5 3,
    ⟨Mzd.WF_toB (GenTieStrassen.zero_WF 5 3), rfl, rfl⟩, by decide, by decide, by simp, by
      intro i hi
      have hi' : i < 3 := hi
      simp [Array.getD, hi'], rfl⟩

#print axioms mzdCopy_closed
#print axioms mzdCopy_eq
#print axioms copy_to_window
#print axioms copy_from_window
#print axioms invInput_build
#print axioms invM4ri_entries
#print axioms invM4ri_eq
#print axioms invM4ri_model_eq
#print axioms xorLoops_spec
#print axioms diagLoop_spec
#print axioms kernel_value
#print axioms kernelLeftPluq_eq'
#print axioms kernelLeftPluq_eq
#print axioms kernelLeftPluq_none
#print axioms kernelLeftPluq_some

end M4ri.GenTieKer
