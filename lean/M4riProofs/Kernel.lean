/-
  C07: what the kernel check means.  If `A` has rank `ρ`, `K` is `n × (n-ρ)` of full column rank and
  `A·K = 0`, then the columns of `K` are a basis of the right null space of `A`:
  every `V` with `A·V = 0` is `K·W` for exactly one `W`.
-/
import M4riProofs.Checkers
namespace M4ri
namespace BMat

/-! ### 1. zero and sum -/

@[simp] theorem zero_nrows (r c : Nat) : (zero r c).nrows = r := rfl
@[simp] theorem zero_ncols (r c : Nat) : (zero r c).ncols = c := rfl

theorem zero_row (r c i : Nat) : (zero r c).row i = 0 := by
  unfold zero row
  simp [Array.getD]

theorem zero_get (r c i j : Nat) : (zero r c).get i j = false := by
  unfold get; rw [zero_row]; simp

theorem zero_WF (r c : Nat) : (zero r c).WF :=
  ⟨by simp [zero], fun i => by rw [zero_row]; exact Nat.two_pow_pos c⟩

theorem eq_zero_of_get {M : BMat} (hM : M.WF) (h : ∀ i j, i < M.nrows → j < M.ncols → M.get i j = false) :
    M = zero M.nrows M.ncols := by
  apply ext_get hM (zero_WF _ _) rfl rfl
  intro i j hi hj
  rw [h i j hi hj, zero_get]

theorem mul_zero (M : BMat) (r c : Nat) : M.mul (zero r c) = zero M.nrows c := by
  apply ext_get (mul_WF M (zero_WF r c)) (zero_WF _ _) rfl rfl
  intro i j hi _
  simp only [mul_nrows] at hi
  rw [mul_get _ _ _ _ hi, zero_get]
  exact xsum_false (fun t _ => by rw [zero_get]; simp)

@[simp] theorem add_nrows (A B : BMat) : (A.add B).nrows = A.nrows := rfl
@[simp] theorem add_ncols (A B : BMat) : (A.add B).ncols = A.ncols := rfl

theorem add_get (A B : BMat) (i j : Nat) :
    (A.add B).get i j = (decide (i < A.nrows) && (A.get i j ^^ B.get i j)) := by
  unfold get add
  by_cases hi : i < A.nrows
  · rw [row_mk_range _ _ _ _ hi, Nat.testBit_xor]; simp [hi]
  · rw [row_mk_range_ge _ _ _ _ (by omega)]; simp [hi]

theorem add_WF {A B : BMat} (hA : A.WF) (hB : B.WF) (hc : B.ncols = A.ncols) : (A.add B).WF := by
  apply WF_of_get
  · simp [add]
  · intro i j hj
    simp only [add_ncols] at hj
    rw [add_get, get_of_ge_ncols hA i j hj, get_of_ge_ncols hB i j (by omega)]; simp

theorem add_mul {Y Z M : BMat} (hM : M.WF) (hr : Z.nrows = Y.nrows) (hc : Z.ncols = Y.ncols) :
    (Y.add Z).mul M = (Y.mul M).add (Z.mul M) := by
  apply ext_get (mul_WF (Y.add Z) hM) (add_WF (mul_WF Y hM) (mul_WF Z hM) rfl) rfl rfl
  intro i j hi _
  simp only [mul_nrows, add_nrows] at hi
  rw [mul_get _ _ _ _ (by simpa using hi), add_get, mul_get _ _ _ _ hi, mul_get _ _ _ _ (by omega)]
  unfold dotSpec_T
  rw [add_ncols, hc, ← xsum_xor]
  simp only [mul_nrows, hi, decide_true, Bool.true_and]
  apply xsum_congr
  intro t _
  rw [add_get]
  simp only [hi, decide_true, Bool.true_and]
  cases Y.get i t <;> cases Z.get i t <;> cases M.get t j <;> rfl

theorem mul_add {Y Z : BMat} (M : BMat) (hY : Y.WF) (hZ : Z.WF) (hr : Z.nrows = Y.nrows) (hc : Z.ncols = Y.ncols) :
    M.mul (Y.add Z) = (M.mul Y).add (M.mul Z) := by
  apply ext_get (mul_WF M (add_WF hY hZ hc)) (add_WF (mul_WF M hY) (mul_WF M hZ) (by simpa using hc)) rfl rfl
  intro i j hi _
  simp only [mul_nrows] at hi
  rw [mul_get _ _ _ _ hi, add_get, mul_get _ _ _ _ hi, mul_get _ _ _ _ hi]
  unfold dotSpec_T
  rw [← xsum_xor]
  simp only [mul_nrows, hi, decide_true, Bool.true_and]
  apply xsum_congr
  intro t _
  rw [add_get]
  by_cases ht : t < Y.nrows
  · simp only [ht, decide_true, Bool.true_and]
    cases M.get i t <;> cases Y.get t j <;> cases Z.get t j <;> rfl
  · rw [get_of_ge_nrows hY t j (by omega), get_of_ge_nrows hZ t j (by omega)]; simp

theorem add_self {A : BMat} (hA : A.WF) : A.add A = zero A.nrows A.ncols := by
  apply ext_get (add_WF hA hA rfl) (zero_WF _ _) rfl rfl
  intro i j _ _
  rw [add_get, zero_get]; simp

theorem add_zero {A : BMat} (hA : A.WF) : A.add (zero A.nrows A.ncols) = A := by
  apply ext_get (add_WF hA (zero_WF _ _) rfl) hA rfl rfl
  intro i j hi _
  simp only [add_nrows] at hi
  rw [add_get, zero_get]; simp [hi]

/-! ### 2. the spanning argument -/

/-- Let `Y` (`ρ × n`) have the right inverse `Z`, let `K` (`n × k`, `k + ρ = n`) have the left inverse `Kl`
    and `Y·K = 0`.  Then every `V` with `Y·V = 0` is `K·W` for some `W`. -/
theorem kernel_span_core {Y Z K Kl V : BMat} {n k ρ : Nat}
    (hY : Y.WF) (hZ : Z.WF) (hK : K.WF) (hKl : Kl.WF) (hV : V.WF)
    (hYr : Y.nrows = ρ) (hYc : Y.ncols = n) (hZr : Z.nrows = n) (hZc : Z.ncols = ρ)
    (hKr : K.nrows = n) (hKc : K.ncols = k) (hKlr : Kl.nrows = k) (hKlc : Kl.ncols = n)
    (hVr : V.nrows = n) (hdim : k + ρ = n)
    (hYZ : Y.mul Z = identity ρ) (hKlK : Kl.mul K = identity k)
    (hYK : Y.mul K = zero ρ k) (hYV : Y.mul V = zero ρ V.ncols) :
    ∃ W : BMat, W.WF ∧ W.nrows = k ∧ W.ncols = V.ncols ∧ K.mul W = V := by
  -- `Kp = Kl + Kl·Z·Y` satisfies `Kp·K = I` and `Kp·Z = 0`
  have hKlZ : (Kl.mul Z).WF := mul_WF Kl hZ
  have hKlZY : ((Kl.mul Z).mul Y).WF := mul_WF _ hY
  obtain ⟨Kp, hKpdef⟩ : ∃ Kp : BMat, Kp = Kl.add ((Kl.mul Z).mul Y) := ⟨_, rfl⟩
  have hKp : Kp.WF := by rw [hKpdef]; exact add_WF hKl hKlZY (by simp [hYc, hKlc])
  have hKpr : Kp.nrows = k := by rw [hKpdef]; simpa using hKlr
  have hKpc : Kp.ncols = n := by rw [hKpdef]; simpa using hKlc
  have hKpK : Kp.mul K = identity k := by
    rw [hKpdef, add_mul hK (by simp) (by simp [hYc, hKlc]), mul_assoc _ hY hK, hYK, mul_zero, hKlK]
    have := add_zero (identity_WF k)
    simpa [hKlr] using this
  have hKpZ : Kp.mul Z = zero k ρ := by
    rw [hKpdef, add_mul hZ (by simp) (by simp [hYc, hKlc]), mul_assoc _ hY hZ, hYZ]
    have e := mul_identity hKlZ
    simp only [mul_ncols, hZc] at e
    rw [e]
    have := add_self hKlZ
    simpa [hKlr, hZc] using this
  -- the square matrices `M = [Kp; Y]` and `N = [K | Z]`
  obtain ⟨M, hMdef⟩ : ∃ M : BMat, M = ofFn n n (fun i j => if i < k then Kp.get i j else Y.get (i - k) j) :=
    ⟨_, rfl⟩
  have hMWF : M.WF := by rw [hMdef]; exact WF_ofFn _ _ _
  have hMr : M.nrows = n := by rw [hMdef]; rfl
  have hMc : M.ncols = n := by rw [hMdef]; rfl
  have hMget : ∀ i j, M.get i j = (decide (i < n ∧ j < n) && (if i < k then Kp.get i j else Y.get (i - k) j)) := by
    intro i j; rw [hMdef]; exact get_ofFn' _ _ _ _ _
  have hNWF : (K.concat Z).WF := concat_WF K Z
  -- a row of `M` times a matrix
  have hMmul : ∀ (X : BMat) (i j : Nat), i < n →
      (M.mul X).get i j = if i < k then (Kp.mul X).get i j else (Y.mul X).get (i - k) j := by
    intro X i j hi
    rw [mul_get _ _ _ _ (by omega), dotSpec_T, hMc]
    by_cases hik : i < k
    · rw [if_pos hik, mul_get _ _ _ _ (by omega), dotSpec_T, hKpc]
      apply xsum_congr
      intro t ht
      rw [hMget]; simp [hi, ht, hik]
    · rw [if_neg hik, mul_get _ _ _ _ (by omega), dotSpec_T, hYc]
      apply xsum_congr
      intro t ht
      rw [hMget]; simp [hi, ht, hik]
  have hMN : M.mul (K.concat Z) = identity n := by
    apply ext_get (mul_WF M hNWF) (identity_WF n) (by simpa using hMr) (by simp [hKc, hZc, hdim])
    intro i j hi hj
    simp only [mul_nrows, mul_ncols, concat_ncols, hMr, hKc, hZc] at hi hj
    rw [hMmul _ i j hi, mul_concat _ hK hZ (by omega), mul_concat _ hK hZ (by omega), hKpK, hKpZ, hYK, hYZ,
      identity_get]
    by_cases hik : i < k
    · rw [if_pos hik, concat_get, identity_get, zero_get]
      simp only [identity_nrows, identity_ncols]
      by_cases hjk : j < k
      · simp [hik, hi, hjk]
      · have : ¬ i = j := by omega
        simp [hik, hi, hjk, this]
    · rw [if_neg hik, concat_get, identity_get, zero_get]
      simp only [zero_nrows, zero_ncols]
      have h1 : i - k < ρ := by omega
      by_cases hjk : j < k
      · have : ¬ i = j := by omega
        simp [h1, hi, hjk, this]
      · have h2 : j - k < ρ := by omega
        by_cases hij : i = j
        · subst hij; simp [h1, hi, hjk]
        · have : ¬ i - k = j - k := by omega
          simp [h1, h2, hi, hjk, hij, this]
  -- hence `N·M = I` as well
  have hNM : (K.concat Z).mul M = identity n :=
    square_inv_comm hMWF hNWF hMc (by simpa using hKr) (by simp [hKc, hZc, hdim]) hMN
  -- `M·V` vanishes below row `k`, so `V = N·(M·V) = K·(Kp·V)`
  refine ⟨Kp.mul V, mul_WF Kp hV, by simpa using hKpr, by simp, ?_⟩
  have e1 : ((K.concat Z).mul M).mul V = V := by
    rw [hNM]; have := identity_mul hV; rwa [hVr] at this
  rw [mul_assoc _ hMWF hV] at e1
  refine Eq.trans ?_ e1
  apply ext_get (mul_WF K (mul_WF Kp hV)) (mul_WF (K.concat Z) (mul_WF M hV)) rfl rfl
  intro i j hi _
  simp only [mul_nrows] at hi
  rw [mul_get _ _ _ _ hi, mul_get _ _ _ _ (by simpa using hi)]
  unfold dotSpec_T
  rw [concat_ncols, hKc, hZc, xsum_extend (Nat.le_add_right k ρ) (fun t h1 h2 => by
    rw [hMmul V t j (by omega), if_neg (by omega), hYV, zero_get]; simp)]
  apply xsum_congr
  intro t ht
  rw [concat_get, hMmul V t j (by omega), if_pos ht]
  simp [hi, hKc, ht]

/-! ### 3. C07 -/

/-- a matrix of full column rank has a left inverse -/
theorem leftInv_of_rankCert {K : BMat} (hK : K.WF) (h : RankCert K K.ncols) :
    ∃ Kl : BMat, Kl.WF ∧ Kl.nrows = K.ncols ∧ Kl.ncols = K.nrows ∧ Kl.mul K = identity K.ncols := by
  obtain ⟨Xk, Yk, Xk', Yk', _, _, hXk', hYk', _, _, _, _, d5, d6, d7, d8, _, hI⟩ := h
  have hYX := square_inv_comm (mul_WF Xk' hK) hYk' (by simp) d7 d8 hI
  exact ⟨Yk'.mul Xk', mul_WF _ hXk', by simpa using d7, by simpa using d6, by
    rw [mul_assoc _ hXk' hK]; exact hYX⟩

/-- **C07**: if `A` has rank `ρ` (certified), `K` is `n × (n - ρ)` of full column rank (certified) and
    `A·K = 0`, then the columns of `K` are a basis of the right null space of `A`: every `V` with `A·V = 0`
    is `K·W` (spanning), and `W` is determined by `K·W` (independence). -/
theorem kernel_basis {A K : BMat} {ρ : Nat} (hK : K.WF) (hKr : K.nrows = A.ncols)
    (hdim : K.ncols + ρ = A.ncols) (hrA : RankCert A ρ) (hrK : RankCert K K.ncols)
    (hAK : A.mul K = zero A.nrows K.ncols) :
    (∀ V : BMat, V.WF → V.nrows = A.ncols → A.mul V = zero A.nrows V.ncols →
      ∃ W : BMat, W.WF ∧ W.nrows = K.ncols ∧ W.ncols = V.ncols ∧ K.mul W = V) ∧
    (∀ W W' : BMat, W.WF → W'.WF → W.nrows = K.ncols → W'.nrows = K.ncols → W'.ncols = W.ncols →
      K.mul W = K.mul W' → W = W') := by
  obtain ⟨Kl, hKl, hKlr, hKlc, hKlK⟩ := leftInv_of_rankCert hK hrK
  obtain ⟨X1, Y1, X1', Y1', hX1, hY1, hX1', hY1', d1, d2, d3, d4, d5, d6, d7, d8, hXY, hI⟩ := hrA
  -- `G·H = I` for `G = X1'·X1`, `H = Y1·Y1'` (both `ρ × ρ`), hence `H·G = I`
  have hGH : (X1'.mul X1).mul (Y1.mul Y1') = identity ρ := by
    rw [← hI, ← hXY, mul_assoc X1' hX1 (mul_WF Y1 hY1'), mul_assoc X1' (mul_WF X1 hY1) hY1',
      mul_assoc X1 hY1 hY1']
  have hHG := square_inv_comm (mul_WF X1' hX1) (mul_WF Y1 hY1') (by simpa using d2) (by simpa using d3)
    (by simpa using d8) hGH
  -- the null space of `A` is the null space of `Y1`
  have hnull : ∀ V : BMat, V.WF → A.mul V = zero A.nrows V.ncols → Y1.mul V = zero ρ V.ncols := by
    intro V hV hAV
    have e1 : (X1'.mul X1).mul (Y1.mul V) = zero ρ V.ncols := by
      rw [mul_assoc X1' hX1 (mul_WF Y1 hV), ← mul_assoc X1 hY1 hV, hXY, hAV, mul_zero, d5]
    have e2 : ((Y1.mul Y1').mul (X1'.mul X1)).mul (Y1.mul V) = Y1.mul V := by
      rw [hHG]
      have := identity_mul (mul_WF Y1 hV)
      simpa [d3] using this
    rw [mul_assoc _ (mul_WF X1' hX1) (mul_WF Y1 hV), e1, mul_zero] at e2
    simpa [d3] using e2.symm
  constructor
  · intro V hV hVr hAV
    have hYZ : Y1.mul (Y1'.mul (X1'.mul X1)) = identity ρ := by
      rw [← mul_assoc Y1 hY1' (mul_WF X1' hX1)]; exact hHG
    exact kernel_span_core (n := A.ncols) (k := K.ncols) (ρ := ρ) hY1 (mul_WF Y1' (mul_WF X1' hX1)) hK hKl hV
      d3 d4 (by simpa using d7) (by simpa using d2) hKr rfl hKlr (by rw [hKlc, hKr]) hVr hdim hYZ hKlK
      (hnull K hK hAK) (hnull V hV hAV)
  · intro W W' hW hW' hWr hW'r hW'c h
    have e : ∀ U : BMat, U.WF → U.nrows = K.ncols → (Kl.mul K).mul U = U := by
      intro U hU hUr
      rw [hKlK]; have := identity_mul hU; rwa [hUr] at this
    rw [← e W hW hWr, ← e W' hW' hW'r, mul_assoc Kl hK hW, mul_assoc Kl hK hW', h]

/-- **C07, as the kernel check is performed** (`check_kernel` in `M4ri/Ops.lean`): the four tests on `K`,
    relative to the facts `hr1`, `hr2` that the model's `rank` is the rank of `A` resp. `K`. -/
theorem checkKernel_sound {A K : BMat} (hK : K.WF)
    (h1 : K.nrows = A.ncols) (h2 : K.ncols = A.ncols - A.rank)
    (h3 : (A.mul K).eqM (zero A.nrows K.ncols) = true) (h4 : K.rank = K.ncols)
    (hr1 : RankCert A A.rank) (hr2 : RankCert K K.rank) :
    A.mul K = zero A.nrows K.ncols ∧
    (∀ V : BMat, V.WF → V.nrows = A.ncols → A.mul V = zero A.nrows V.ncols →
      ∃ W : BMat, W.WF ∧ W.nrows = K.ncols ∧ W.ncols = V.ncols ∧ K.mul W = V) ∧
    (∀ W W' : BMat, W.WF → W'.WF → W.nrows = K.ncols → W'.nrows = K.ncols → W'.ncols = W.ncols →
      K.mul W = K.mul W' → W = W') := by
  have hAK : A.mul K = zero A.nrows K.ncols := by
    obtain ⟨_, _, e3⟩ := eqM_sound h3
    apply ext_get (mul_WF A hK) (zero_WF _ _) rfl rfl
    intro i j hi hj
    exact e3 i j hi hj
  -- `rank A ≤ n`
  have hle : A.rank ≤ A.ncols := by
    obtain ⟨X, Y, X', Y', hX, hY, hX', hY', d1, d2, d3, d4, d5, d6, d7, d8, hXY, hI⟩ := hr1
    have e : ((X'.mul X).mul Y).mul Y' = identity A.rank := by
      rw [← hI, ← hXY, mul_assoc X' hX hY]
    exact identity_factor_le (mul_WF _ hY) hY' (by simpa using d4) e
  rw [h4] at hr2
  exact ⟨hAK, kernel_basis hK h1 (by omega) hr1 hr2 hAK⟩

/-- **C07**, with the elimination facts in the form `GaussOK` -/
theorem checkKernel_sound' {A K : BMat} (hA : A.WF) (hK : K.WF)
    (h1 : K.nrows = A.ncols) (h2 : K.ncols = A.ncols - A.rank)
    (h3 : (A.mul K).eqM (zero A.nrows K.ncols) = true) (h4 : K.rank = K.ncols)
    (hg1 : GaussOK A) (hg2 : GaussOK K) :
    A.mul K = zero A.nrows K.ncols ∧
    (∀ V : BMat, V.WF → V.nrows = A.ncols → A.mul V = zero A.nrows V.ncols →
      ∃ W : BMat, W.WF ∧ W.nrows = K.ncols ∧ W.ncols = V.ncols ∧ K.mul W = V) ∧
    (∀ W W' : BMat, W.WF → W'.WF → W.nrows = K.ncols → W'.nrows = K.ncols → W'.ncols = W.ncols →
      K.mul W = K.mul W' → W = W') :=
  checkKernel_sound hK h1 h2 h3 h4 (RankCert_rank hA hg1) (RankCert_rank hK hg2)

theorem RankCert_identity (n : Nat) : RankCert (identity n) n := by
  have e : (identity n).mul (identity n) = identity n := mul_identity (A := identity n) (identity_WF n)
  exact ⟨identity n, identity n, identity n, identity n, identity_WF n, identity_WF n, identity_WF n,
    identity_WF n, rfl, rfl, rfl, rfl, rfl, rfl, rfl, rfl, e, by rw [e, e]⟩

theorem RankCert_zero_cols (n : Nat) : RankCert (zero n 0) 0 :=
  ⟨zero n 0, zero 0 0, zero 0 n, zero 0 0, zero_WF _ _, zero_WF _ _, zero_WF _ _, zero_WF _ _,
    rfl, rfl, rfl, rfl, rfl, rfl, rfl, rfl, mul_zero _ _ _, by rw [mul_zero, mul_zero]; simp [zero, identity]⟩

/-- non-vacuity of `kernel_basis`: `A = I₂` (rank 2), `K` the `2 × 0` matrix -/
example : ∀ V : BMat, V.WF → V.nrows = 2 → (identity 2).mul V = zero 2 V.ncols →
    ∃ W : BMat, W.WF ∧ W.nrows = 0 ∧ W.ncols = V.ncols ∧ (zero 2 0).mul W = V :=
  (kernel_basis (A := identity 2) (K := zero 2 0) (ρ := 2) (zero_WF 2 0) rfl rfl
    (RankCert_identity 2) (RankCert_zero_cols 2) (mul_zero _ _ _)).1

end BMat
end M4ri
