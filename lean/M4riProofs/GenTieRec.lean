/-
  GenTieRec: ONE-STEP ties for the generated block recursions of triangular.c
  (`Gen.C.trsmUpperRightRec`, `trsmLowerRightRec`, `trsmLowerLeftRec`, `trsmUpperLeftRec` = the whole C functions
  `_mzd_trsm_*`) against the model recursions `BMat.Rec.trsm*Rec` of `M4ri/TrsmRec.lean`.

  The function parameters of the generated code (untranslated callees) are instantiated by `liftM2` / `liftM3`
  of model operations (GenTieView.lean): the recursive calls by the model's own recursive call at `fuel`,
  `mzd_addmul` by `C + A·B`, the base kernels / Four-Russians routines by the substitution forms.

  §0  `blocksize_eq` (the `__M4RI_MUL_BLOCKSIZE` numeral is 2048), values of sequences of write-backs
      (`sub_paste_self`, `sub_paste_disj`, `paste_paste_self`, `paste_comm_disj`), shapes of the recursive calls
  §1  `trsmUpperRightRec_step`   generated `_mzd_trsm_upper_right` on `memOf B`, `memOf U`
                                 = `memOf (B.putB (Rec.trsmUpperRightRec 64 2048 (fuel+1) U.toB B.toB))`  (3 regimes)
  §2  `trsmLowerRightRec_step`   … `Rec.trsmLowerRightRec 64 (fuel+1)`                                  (2 regimes)
  §3  `trsmLowerLeftRec_step_russian`, `trsmLowerLeftRec_step_rec`   (`64 < mb ≤ 2048`, `2048 < mb`)
  §4  `trsmUpperLeftRec_step_russian`, `trsmUpperLeftRec_step_rec`
  §5  `trsmLowerLeftRec_step_base`, `trsmUpperLeftRec_step_base`: the inline `mb ≤ 64` loops = `trsmLowerLeft` /
      `trsmUpperLeft` (through `TB.lowerLeftKernel` / `TB.upperLeftKernel`); `rowXor_mem`, `xorRowW_putB`
  §6  `trsmLowerLeftRec_step`, `trsmUpperLeftRec_step`: all three regimes against `Rec.trsm*LeftRec 2048 (fuel+1)`
  §7-9 the translated functions applied to VIEWS (as `_mzd_ple` calls `_mzd_trsm_lower_left`): `…_agree` (they only
      look at the rows and words of their arguments), `…_step_view`, `…_window` (result written back into the parent)
-/
import M4riProofs.GenTieView
import M4riProofs.GenTieAlg
import M4riProofs.TrsmRec
import M4riProofs.TrsmBase
set_option linter.unusedVariables false
namespace M4ri.GenTieRec
open M4ri M4ri.Gen M4ri.GenTieMem M4ri.GenTieView M4ri.BMat M4ri.GenTieAlg

/-! ### 0. the block size, values of sequences of write-backs -/

/-- `__M4RI_MUL_BLOCKSIZE = MIN(((int)sqrt((double)(4 * __M4RI_CPU_L3_CACHE))) / 2, 2048)` is 2048 in the
    translated configuration (`__M4RI_CPU_L3_CACHE = 56623104`: `⌊√226492416⌋ / 2 = 7524`) -/
theorem blocksize_eq : (if (decide ((Int.tdiv (Int.ofNat (Nat.sqrt (((4 : Int) * (56623104 : Int))).toNat)) (2 : Int)) < (2048 : Int))) then (Int.tdiv (Int.ofNat (Nat.sqrt (((4 : Int) * (56623104 : Int))).toNat)) (2 : Int)) else (2048 : Int)) = 2048 := by
  decide +kernel

theorem shaped_toB {M : Mzd} (hM : M.WF) : Shaped M.toB M.nrows M.ncols := ⟨Mzd.WF_toB hM, rfl, rfl⟩

/-- reading back the block that was just written -/
theorem sub_paste_self {D X : BMat} {m n : Nat} (hD : Shaped D m n) (r0 c0 r1 c1 : Nat)
    (hX : Shaped X (r1 - r0) (c1 - c0)) (hr : r1 ≤ m) (hc0 : c0 ≤ c1) (hc : c1 ≤ n) :
    (D.paste r0 c0 X).sub r0 c0 r1 c1 = X := by
  have hP : Shaped (D.paste r0 c0 X) m n := hD.paste X r0 c0 (by rw [hX.nc]; omega)
  apply (hP.sub r0 c0 r1 c1 hr).ext hX
  intro i j hi hj
  rw [hP.get_sub r0 c0 r1 c1 i j hr, hD.get_paste_window r0 c0 r1 c1 hX hr]
  have e1 : r0 + i - r0 = i := by omega
  have e2 : c0 + j - c0 = j := by omega
  rw [if_pos (by omega), e1, e2]
  simp [hi, hj]

/-- reading a block that does not meet the block that was written -/
theorem sub_paste_disj {D X : BMat} {m n : Nat} (hD : Shaped D m n) (r0 c0 r1 c1 : Nat)
    (hX : Shaped X (r1 - r0) (c1 - c0)) (hr : r1 ≤ m) (hc0 : c0 ≤ c1) (hc : c1 ≤ n) (a0 b0 a1 b1 : Nat)
    (ha : a1 ≤ m) (hdis : a1 ≤ r0 ∨ r1 ≤ a0 ∨ b1 ≤ c0 ∨ c1 ≤ b0) :
    (D.paste r0 c0 X).sub a0 b0 a1 b1 = D.sub a0 b0 a1 b1 := by
  have hP : Shaped (D.paste r0 c0 X) m n := hD.paste X r0 c0 (by rw [hX.nc]; omega)
  apply (hP.sub a0 b0 a1 b1 ha).ext (hD.sub a0 b0 a1 b1 ha)
  intro i j hi hj
  rw [hP.get_sub a0 b0 a1 b1 i j ha, hD.get_sub a0 b0 a1 b1 i j ha,
    hD.get_paste_window r0 c0 r1 c1 hX hr, if_neg (by omega)]

/-- writing the same block twice: the second write wins -/
theorem paste_paste_self {D X Y : BMat} {m n : Nat} (hD : Shaped D m n) (r0 c0 r1 c1 : Nat)
    (hX : Shaped X (r1 - r0) (c1 - c0)) (hY : Shaped Y (r1 - r0) (c1 - c0)) (hr : r1 ≤ m) (hc0 : c0 ≤ c1)
    (hc : c1 ≤ n) : (D.paste r0 c0 X).paste r0 c0 Y = D.paste r0 c0 Y := by
  have hP : Shaped (D.paste r0 c0 X) m n := hD.paste X r0 c0 (by rw [hX.nc]; omega)
  apply (hP.paste Y r0 c0 (by rw [hY.nc]; omega)).ext (hD.paste Y r0 c0 (by rw [hY.nc]; omega))
  intro i j hi hj
  rw [hP.get_paste_window r0 c0 r1 c1 hY hr, hD.get_paste_window r0 c0 r1 c1 hY hr,
    hD.get_paste_window r0 c0 r1 c1 hX hr]
  by_cases h : r0 ≤ i ∧ i < r1 ∧ c0 ≤ j ∧ j < c1
  · rw [if_pos h, if_pos h]
  · rw [if_neg h, if_neg h, if_neg h]

/-- two writes into blocks that do not meet commute -/
theorem paste_comm_disj {D X Y : BMat} {m n : Nat} (hD : Shaped D m n) (r0 c0 r1 c1 : Nat)
    (hX : Shaped X (r1 - r0) (c1 - c0)) (hr : r1 ≤ m) (hc0 : c0 ≤ c1) (hc : c1 ≤ n) (a0 b0 a1 b1 : Nat)
    (hY : Shaped Y (a1 - a0) (b1 - b0)) (ha : a1 ≤ m) (hb0 : b0 ≤ b1) (hb : b1 ≤ n)
    (hdis : a1 ≤ r0 ∨ r1 ≤ a0 ∨ b1 ≤ c0 ∨ c1 ≤ b0) :
    (D.paste r0 c0 X).paste a0 b0 Y = (D.paste a0 b0 Y).paste r0 c0 X := by
  have hP : Shaped (D.paste r0 c0 X) m n := hD.paste X r0 c0 (by rw [hX.nc]; omega)
  have hQ : Shaped (D.paste a0 b0 Y) m n := hD.paste Y a0 b0 (by rw [hY.nc]; omega)
  apply (hP.paste Y a0 b0 (by rw [hY.nc]; omega)).ext (hQ.paste X r0 c0 (by rw [hX.nc]; omega))
  intro i j hi hj
  rw [hP.get_paste_window a0 b0 a1 b1 hY ha, hQ.get_paste_window r0 c0 r1 c1 hX hr,
    hD.get_paste_window r0 c0 r1 c1 hX hr, hD.get_paste_window a0 b0 a1 b1 hY ha]
  by_cases h : r0 ≤ i ∧ i < r1 ∧ c0 ≤ j ∧ j < c1
  · rw [if_pos h, if_neg (by omega), if_pos h]
  · rw [if_neg h, if_neg h]

/-- the state after a write-back: a `putB` state again -/
theorem shaped_paste_win {D X : BMat} {m n : Nat} (hD : Shaped D m n) (r0 c0 r1 c1 : Nat)
    (hX : Shaped X (r1 - r0) (c1 - c0)) (hc0 : c0 ≤ c1) (hc : c1 ≤ n) : Shaped (D.paste r0 c0 X) m n :=
  hD.paste X r0 c0 (by rw [hX.nc]; omega)

/-! ### shapes of the recursive calls -/

theorem shaped_urRec (bc tc fuel : Nat) {U B : BMat} {r c : Nat} (hB : Shaped B r c) (hU : U.nrows = c) :
    Shaped (Rec.trsmUpperRightRec bc tc fuel U B) r c := by
  obtain ⟨h1, h2, h3⟩ := Rec.trsmUpperRightRec_WF bc tc fuel hB.wf (by rw [hU, hB.nc])
  exact ⟨h1, by rw [h2, hB.nr], by rw [h3, hB.nc]⟩

theorem shaped_lrRec (bc fuel : Nat) {L B : BMat} {r c : Nat} (hB : Shaped B r c) (hL : L.nrows = c) :
    Shaped (Rec.trsmLowerRightRec bc fuel L B) r c := by
  obtain ⟨h1, h2, h3⟩ := Rec.trsmLowerRightRec_WF bc fuel hB.wf (by rw [hL, hB.nc])
  exact ⟨h1, by rw [h2, hB.nr], by rw [h3, hB.nc]⟩

theorem shaped_llRec (br fuel : Nat) {L B : BMat} {r c : Nat} (hB : Shaped B r c) (hL : L.nrows = r) :
    Shaped (Rec.trsmLowerLeftRec br fuel L B) r c := by
  obtain ⟨h1, h2, h3⟩ := Rec.trsmLowerLeftRec_WF br fuel hB.wf (by rw [hL, hB.nr])
  exact ⟨h1, by rw [h2, hB.nr], by rw [h3, hB.nc]⟩

theorem shaped_ulRec (br fuel : Nat) {U B : BMat} {r c : Nat} (hB : Shaped B r c) (hU : U.nrows = r) :
    Shaped (Rec.trsmUpperLeftRec br fuel U B) r c := by
  obtain ⟨h1, h2, h3⟩ := Rec.trsmUpperLeftRec_WF br fuel hB.wf (by rw [hU, hB.nr])
  exact ⟨h1, by rw [h2, hB.nr], by rw [h3, hB.nc]⟩

theorem shaped_addmul {C A B : BMat} {r k c : Nat} (hC : Shaped C r c) (hA : Shaped A r k) (hB : Shaped B k c) :
    Shaped (C.add (A.mul B)) r c := hC.add (hA.mul hB)

theorem splitPoint_mod (n : Nat) : Rec.splitPoint n % 64 = 0 := by
  unfold Rec.splitPoint; omega


/-! ### 1. `_mzd_trsm_upper_right` -/

/-- normal form of the casts that the window headers leave behind -/
macro "norm_win" loc:(Lean.Parser.Tactic.location)? : tactic =>
  `(tactic| simp (config := {etaStruct := .none}) only [winView, Int.zero_add, Nat.sub_zero, Nat.zero_div, Int.natCast_zero] $[$loc]?)

/-- **one step of `_mzd_trsm_upper_right`** (all three regimes): with the callees instantiated by the model's
    operations, the generated function computes the model's recursion step through the lens -/
theorem trsmUpperRightRec_step (fuel : Nat) (cutoff rsB rsU : Int) (U B : Mzd) (hU : U.WF) (hB : B.WF)
    (hUr : U.nrows = B.ncols) (hUc : U.ncols = B.ncols) :
    Gen.C.trsmUpperRightRec cutoff (memOf B) B.nrows B.ncols (memOf U) U.nrows U.ncols U.width U.hb B.width B.hb
      (liftM2 trsmUpperRight) (liftM2 fun U B => B.mul (trsmUpperRight U (identity U.nrows))) rsB rsU
      (fun U B _ => liftM2 (Rec.trsmUpperRightRec 64 2048 fuel) U B)
      (fun C A B _ => liftM3 (fun C A B => C.add (A.mul B)) C A B)
    = memOf (B.putB (Rec.trsmUpperRightRec 64 2048 (fuel + 1) U.toB B.toB)) := by
  unfold Gen.C.trsmUpperRightRec
  rw [Rec.trsmUpperRightRec]
  dsimp_m
  simp_m [blocksize_eq, Mzd.nrows_toB, Mzd.ncols_toB]
  by_cases h1 : B.ncols ≤ 64
  · rw [if_pos (by simpa using (show (B.ncols : Int) ≤ 64 by omega)), if_pos h1]
    exact liftM2_of _ U B hU hB
  · rw [if_neg (by simp; omega), if_neg h1]
    by_cases h2 : B.ncols ≤ 2048
    · rw [if_pos (by simpa using (show (B.ncols : Int) ≤ 2048 by omega)), if_pos h2]
      exact liftM2_of _ U B hU hB
    · rw [if_neg (by simp; omega), if_neg h2]
      have hsp : ((Int.tdiv ((B.ncols : Int) - 1) 64 + 1) >>> (1 : Int).toNat) * 64
          = ((Rec.splitPoint B.ncols : Nat) : Int) := GenTie.pleSplit_eq B.ncols
      rw [hsp]
      have hk := Rec.splitPoint_le B.ncols
      have hk64 := splitPoint_mod B.ncols
      generalize Rec.splitPoint B.ncols = nb1 at *
      generalize hmb : B.nrows = mb at *
      generalize hnb : B.ncols = nb at *
      rw [mzdInitWindow_in 0 0 mb nb1 mb rsB 0 0 mb nb1 mb rfl rfl rfl rfl rfl (by omega) (by omega) (by omega)
          (by omega),
        mzdInitWindow_in 0 nb1 mb nb mb rsB 0 nb1 mb nb mb rfl rfl rfl rfl rfl hk64 (by omega) (by omega)
          (by omega),
        mzdInitWindow_in 0 0 nb1 nb1 U.nrows rsU 0 0 nb1 nb1 U.nrows rfl rfl rfl rfl rfl (by omega) (by omega)
          (by omega) (by omega),
        mzdInitWindow_in 0 nb1 nb1 nb U.nrows rsU 0 nb1 nb1 nb U.nrows rfl rfl rfl rfl rfl hk64 (by omega)
          (by omega) (by omega),
        mzdInitWindow_in nb1 nb1 nb nb U.nrows rsU nb1 nb1 nb nb U.nrows rfl rfl rfl rfl rfl hk64 (by omega)
          (by omega) (by omega)]
      dsimp_m
      norm_win
      have hBs : Shaped B.toB mb nb := ⟨Mzd.WF_toB hB, hmb, hnb⟩
      have hUs : Shaped U.toB nb nb := ⟨Mzd.WF_toB hU, hUr, hUc⟩
      have wU00 : InWin U 0 0 nb1 nb1 := ⟨rfl, by omega, by omega⟩
      have wU01 : InWin U 0 nb1 nb1 nb := ⟨hk64, by omega, by omega⟩
      have wU11 : InWin U nb1 nb1 nb nb := ⟨hk64, by omega, by omega⟩
      -- B0 = B0 · U00⁻¹
      have hX0 : Shaped (Rec.trsmUpperRightRec 64 2048 fuel (U.toB.sub 0 0 nb1 nb1) (B.toB.sub 0 0 mb nb1))
          (mb - 0) (nb1 - 0) :=
        shaped_urRec 64 2048 fuel (hBs.sub 0 0 mb nb1 (Nat.le_refl _)) (by rw [nrows_sub, hUs.nr]; omega)
      have s1 := call2_window (Rec.trsmUpperRightRec 64 2048 fuel) U B hB 0 0 nb1 nb1 0 0 mb nb1 wU00
        ⟨rfl, by omega, by omega⟩ hX0.nr hX0.nc
      norm_win at s1
      rw [s1]
      generalize hX0' : Rec.trsmUpperRightRec 64 2048 fuel (U.toB.sub 0 0 nb1 nb1) (B.toB.sub 0 0 mb nb1) = X0
        at hX0 ⊢
      have hY1 : Shaped (B.toB.paste 0 0 X0) mb nb := shaped_paste_win hBs 0 0 mb nb1 hX0 (by omega) hk
      obtain ⟨M1W, M1B, M1r, M1c⟩ := putB_state hB hY1.wf (by rw [hY1.nr, hmb]) (by rw [hY1.nc, hnb])
      generalize hM1 : B.putB (B.toB.paste 0 0 X0) = M1 at M1W M1B M1r M1c ⊢
      -- B1 += B0 · U01
      have hX1 : Shaped ((M1.toB.sub 0 nb1 mb nb).add ((M1.toB.sub 0 0 mb nb1).mul (U.toB.sub 0 nb1 nb1 nb)))
          (mb - 0) (nb - nb1) := by
        rw [M1B]
        exact shaped_addmul (hY1.sub 0 nb1 mb nb (Nat.le_refl _)) (hY1.sub 0 0 mb nb1 (Nat.le_refl _))
          (hUs.sub 0 nb1 nb1 nb hk)
      have s2 := call3_window (fun C A B => C.add (A.mul B)) M1 M1 U M1W 0 nb1 mb nb 0 0 mb nb1 0 nb1 nb1 nb
        ⟨hk64, by omega, by omega⟩ ⟨rfl, by omega, by omega⟩ wU01 hX1.nr hX1.nc
      norm_win at s2
      rw [s2]
      rw [M1B, sub_paste_disj hBs 0 0 mb nb1 hX0 (Nat.le_refl _) (by omega) hk 0 nb1 mb nb (Nat.le_refl _)
        (by omega), sub_paste_self hBs 0 0 mb nb1 hX0 (Nat.le_refl _) (by omega) hk] at hX1 ⊢
      generalize hX1' : (B.toB.sub 0 nb1 mb nb).add (X0.mul (U.toB.sub 0 nb1 nb1 nb)) = X1 at hX1 ⊢
      have hY2 : Shaped ((B.toB.paste 0 0 X0).paste 0 nb1 X1) mb nb := shaped_paste_win hY1 0 nb1 mb nb hX1 hk
        (Nat.le_refl _)
      obtain ⟨M2W, M2B, M2r, M2c⟩ := putB_state M1W hY2.wf (by rw [hY2.nr, M1r, hmb]) (by rw [hY2.nc, M1c, hnb])
      generalize hM2 : M1.putB ((B.toB.paste 0 0 X0).paste 0 nb1 X1) = M2 at M2W M2B M2r M2c ⊢
      -- B1 = B1 · U11⁻¹
      have hX2 : Shaped (Rec.trsmUpperRightRec 64 2048 fuel (U.toB.sub nb1 nb1 nb nb) (M2.toB.sub 0 nb1 mb nb))
          (mb - 0) (nb - nb1) := by
        rw [M2B]
        exact shaped_urRec 64 2048 fuel (hY2.sub 0 nb1 mb nb (Nat.le_refl _)) (by rw [nrows_sub, hUs.nr]; omega)
      have s3 := call2_window (Rec.trsmUpperRightRec 64 2048 fuel) U M2 M2W nb1 nb1 nb nb 0 nb1 mb nb wU11
        ⟨hk64, by omega, by omega⟩ hX2.nr hX2.nc
      norm_win at s3
      rw [s3, M2B, sub_paste_self hY1 0 nb1 mb nb hX1 (Nat.le_refl _) hk (Nat.le_refl _)] at *
      rw [← hM2, ← hM1, Mzd.putB_putB hB, Mzd.putB_putB hB,
        paste_paste_self hY1 0 nb1 mb nb hX1 hX2 (Nat.le_refl _) hk (Nat.le_refl _)]


/-! ### 2. `_mzd_trsm_lower_right` -/

/-- **one step of `_mzd_trsm_lower_right`** (both regimes) -/
theorem trsmLowerRightRec_step (fuel : Nat) (cutoff rsB rsL : Int) (L B : Mzd) (hL : L.WF) (hB : B.WF)
    (hLr : L.nrows = B.ncols) (hLc : L.ncols = B.ncols) :
    Gen.C.trsmLowerRightRec cutoff (memOf B) B.nrows B.ncols (memOf L) L.nrows L.ncols L.width L.hb B.width B.hb
      (liftM2 trsmLowerRight) rsB rsL
      (fun L B _ => liftM2 (Rec.trsmLowerRightRec 64 fuel) L B)
      (fun C A B _ => liftM3 (fun C A B => C.add (A.mul B)) C A B)
    = memOf (B.putB (Rec.trsmLowerRightRec 64 (fuel + 1) L.toB B.toB)) := by
  unfold Gen.C.trsmLowerRightRec
  rw [Rec.trsmLowerRightRec]
  dsimp_m
  simp_m [Mzd.nrows_toB, Mzd.ncols_toB]
  by_cases h1 : B.ncols ≤ 64
  · rw [if_pos (by simpa using (show (B.ncols : Int) ≤ 64 by omega)), if_pos h1]
    exact liftM2_of _ L B hL hB
  · rw [if_neg (by simp; omega), if_neg h1]
    have hsp : ((Int.tdiv ((B.ncols : Int) - 1) 64 + 1) >>> (1 : Int).toNat) * 64
        = ((Rec.splitPoint B.ncols : Nat) : Int) := GenTie.pleSplit_eq B.ncols
    rw [hsp]
    have hk := Rec.splitPoint_le B.ncols
    have hk64 := splitPoint_mod B.ncols
    generalize Rec.splitPoint B.ncols = nb1 at *
    generalize hmb : B.nrows = mb at *
    generalize hnb : B.ncols = nb at *
    rw [mzdInitWindow_in 0 0 mb nb1 mb rsB 0 0 mb nb1 mb rfl rfl rfl rfl rfl (by omega) (by omega) (by omega)
        (by omega),
      mzdInitWindow_in 0 nb1 mb nb mb rsB 0 nb1 mb nb mb rfl rfl rfl rfl rfl hk64 (by omega) (by omega)
        (by omega),
      mzdInitWindow_in 0 0 nb1 nb1 L.nrows rsL 0 0 nb1 nb1 L.nrows rfl rfl rfl rfl rfl (by omega) (by omega)
        (by omega) (by omega),
      mzdInitWindow_in nb1 0 nb nb1 L.nrows rsL nb1 0 nb nb1 L.nrows rfl rfl rfl rfl rfl (by omega) (by omega)
        (by omega) (by omega),
      mzdInitWindow_in nb1 nb1 nb nb L.nrows rsL nb1 nb1 nb nb L.nrows rfl rfl rfl rfl rfl hk64 (by omega)
        (by omega) (by omega)]
    dsimp_m
    norm_win
    have hBs : Shaped B.toB mb nb := ⟨Mzd.WF_toB hB, hmb, hnb⟩
    have hLs : Shaped L.toB nb nb := ⟨Mzd.WF_toB hL, hLr, hLc⟩
    have wL00 : InWin L 0 0 nb1 nb1 := ⟨rfl, by omega, by omega⟩
    have wL10 : InWin L nb1 0 nb nb1 := ⟨rfl, by omega, by omega⟩
    have wL11 : InWin L nb1 nb1 nb nb := ⟨hk64, by omega, by omega⟩
    -- B1 = B1 · L11⁻¹
    have hX1 : Shaped (Rec.trsmLowerRightRec 64 fuel (L.toB.sub nb1 nb1 nb nb) (B.toB.sub 0 nb1 mb nb))
        (mb - 0) (nb - nb1) :=
      shaped_lrRec 64 fuel (hBs.sub 0 nb1 mb nb (Nat.le_refl _)) (by rw [nrows_sub, hLs.nr]; omega)
    have s1 := call2_window (Rec.trsmLowerRightRec 64 fuel) L B hB nb1 nb1 nb nb 0 nb1 mb nb wL11
      ⟨hk64, by omega, by omega⟩ hX1.nr hX1.nc
    norm_win at s1
    rw [s1]
    generalize hX1' : Rec.trsmLowerRightRec 64 fuel (L.toB.sub nb1 nb1 nb nb) (B.toB.sub 0 nb1 mb nb) = X1
      at hX1 ⊢
    have hY1 : Shaped (B.toB.paste 0 nb1 X1) mb nb := shaped_paste_win hBs 0 nb1 mb nb hX1 hk (Nat.le_refl _)
    obtain ⟨M1W, M1B, M1r, M1c⟩ := putB_state hB hY1.wf (by rw [hY1.nr, hmb]) (by rw [hY1.nc, hnb])
    generalize hM1 : B.putB (B.toB.paste 0 nb1 X1) = M1 at M1W M1B M1r M1c ⊢
    -- B0 += B1 · L10
    have hX0 : Shaped ((M1.toB.sub 0 0 mb nb1).add ((M1.toB.sub 0 nb1 mb nb).mul (L.toB.sub nb1 0 nb nb1)))
        (mb - 0) (nb1 - 0) := by
      rw [M1B]
      exact shaped_addmul (hY1.sub 0 0 mb nb1 (Nat.le_refl _)) (hY1.sub 0 nb1 mb nb (Nat.le_refl _))
        (hLs.sub nb1 0 nb nb1 (Nat.le_refl _))
    have s2 := call3_window (fun C A B => C.add (A.mul B)) M1 M1 L M1W 0 0 mb nb1 0 nb1 mb nb nb1 0 nb nb1
      ⟨rfl, by omega, by omega⟩ ⟨hk64, by omega, by omega⟩ wL10 hX0.nr hX0.nc
    norm_win at s2
    rw [s2]
    rw [M1B, sub_paste_disj hBs 0 nb1 mb nb hX1 (Nat.le_refl _) hk (Nat.le_refl _) 0 0 mb nb1 (Nat.le_refl _)
      (by omega), sub_paste_self hBs 0 nb1 mb nb hX1 (Nat.le_refl _) hk (Nat.le_refl _)] at hX0 ⊢
    generalize hX0' : (B.toB.sub 0 0 mb nb1).add (X1.mul (L.toB.sub nb1 0 nb nb1)) = X0 at hX0 ⊢
    have hY2 : Shaped ((B.toB.paste 0 nb1 X1).paste 0 0 X0) mb nb := shaped_paste_win hY1 0 0 mb nb1 hX0
      (by omega) hk
    obtain ⟨M2W, M2B, M2r, M2c⟩ := putB_state M1W hY2.wf (by rw [hY2.nr, M1r, hmb]) (by rw [hY2.nc, M1c, hnb])
    generalize hM2 : M1.putB ((B.toB.paste 0 nb1 X1).paste 0 0 X0) = M2 at M2W M2B M2r M2c ⊢
    -- B0 = B0 · L00⁻¹
    have hX2 : Shaped (Rec.trsmLowerRightRec 64 fuel (L.toB.sub 0 0 nb1 nb1) (M2.toB.sub 0 0 mb nb1))
        (mb - 0) (nb1 - 0) := by
      rw [M2B]
      exact shaped_lrRec 64 fuel (hY2.sub 0 0 mb nb1 (Nat.le_refl _)) (by rw [nrows_sub, hLs.nr]; omega)
    have s3 := call2_window (Rec.trsmLowerRightRec 64 fuel) L M2 M2W 0 0 nb1 nb1 0 0 mb nb1 wL00
      ⟨rfl, by omega, by omega⟩ hX2.nr hX2.nc
    norm_win at s3
    rw [s3, M2B, sub_paste_self hY1 0 0 mb nb1 hX0 (Nat.le_refl _) (by omega) hk] at *
    rw [← hM2, ← hM1, Mzd.putB_putB hB, Mzd.putB_putB hB,
      paste_paste_self hY1 0 0 mb nb1 hX0 hX2 (Nat.le_refl _) (by omega) hk,
      paste_comm_disj hBs 0 nb1 mb nb hX1 (Nat.le_refl _) hk (Nat.le_refl _) 0 0 mb nb1 hX2 (Nat.le_refl _)
        (by omega) hk (by omega)]


/-! ### 3. `_mzd_trsm_lower_left`: the Four-Russians regime and the recursion -/

/-- `_mzd_trsm_lower_left`, `64 < mb ≤ __M4RI_MUL_BLOCKSIZE`: the call of `_mzd_trsm_lower_left_russian` -/
theorem trsmLowerLeftRec_step_russian (fuel : Nat) (cutoff rsB rsL : Int) (L B : Mzd) (hL : L.WF) (hB : B.WF)
    (h64 : 64 < B.nrows) (h2048 : B.nrows ≤ 2048)
    (frec : CLoop.MView → CLoop.MView → Int → (Int → Int → BitVec 64))
    (fadd : CLoop.MView → CLoop.MView → CLoop.MView → Int → (Int → Int → BitVec 64)) :
    Gen.C.trsmLowerLeftRec cutoff (memOf B) B.nrows B.ncols (memOf L) B.width L.nrows L.ncols L.width L.hb B.hb
      (fun L B _ => liftM2 trsmLowerLeft L B) rsB rsL frec fadd
    = memOf (B.putB (Rec.trsmLowerLeftRec 2048 (fuel + 1) L.toB B.toB)) := by
  unfold Gen.C.trsmLowerLeftRec
  rw [Rec.trsmLowerLeftRec]
  dsimp_m
  simp_m [blocksize_eq, Mzd.nrows_toB, Mzd.ncols_toB]
  rw [if_neg (by simp; omega), if_pos (by simpa using (show (B.nrows : Int) ≤ 2048 by omega)), if_pos h2048]
  exact liftM2_of _ L B hL hB

/-- **one step of `_mzd_trsm_lower_left`, recursion** (`mb > __M4RI_MUL_BLOCKSIZE = 2048`) -/
theorem trsmLowerLeftRec_step_rec (fuel : Nat) (cutoff rsB rsL : Int) (L B : Mzd) (hL : L.WF) (hB : B.WF)
    (hLr : L.nrows = B.nrows) (hLc : L.ncols = B.nrows) (h2048 : 2048 < B.nrows)
    (fruss : CLoop.MView → CLoop.MView → Int → (Int → Int → BitVec 64)) :
    Gen.C.trsmLowerLeftRec cutoff (memOf B) B.nrows B.ncols (memOf L) B.width L.nrows L.ncols L.width L.hb B.hb
      fruss rsB rsL
      (fun L B _ => liftM2 (Rec.trsmLowerLeftRec 2048 fuel) L B)
      (fun C A B _ => liftM3 (fun C A B => C.add (A.mul B)) C A B)
    = memOf (B.putB (Rec.trsmLowerLeftRec 2048 (fuel + 1) L.toB B.toB)) := by
  unfold Gen.C.trsmLowerLeftRec
  rw [Rec.trsmLowerLeftRec]
  dsimp_m
  simp_m [blocksize_eq, Mzd.nrows_toB, Mzd.ncols_toB]
  rw [if_neg (by simp; omega), if_neg (by simp; omega), if_neg (by omega)]
  have hsp : ((Int.tdiv ((B.nrows : Int) - 1) 64 + 1) >>> (1 : Int).toNat) * 64
      = ((Rec.splitPoint B.nrows : Nat) : Int) := GenTie.pleSplit_eq B.nrows
  rw [hsp]
  have hk := Rec.splitPoint_le B.nrows
  have hk64 := splitPoint_mod B.nrows
  generalize Rec.splitPoint B.nrows = mb1 at *
  generalize hmb : B.nrows = mb at *
  generalize hnb : B.ncols = nb at *
  rw [mzdInitWindow_in 0 0 mb1 nb mb rsB 0 0 mb1 nb mb rfl rfl rfl rfl rfl (by omega) (by omega) (by omega)
      (by omega),
    mzdInitWindow_in mb1 0 mb nb mb rsB mb1 0 mb nb mb rfl rfl rfl rfl rfl (by omega) (by omega) (by omega)
      (by omega),
    mzdInitWindow_in 0 0 mb1 mb1 L.nrows rsL 0 0 mb1 mb1 L.nrows rfl rfl rfl rfl rfl (by omega) (by omega)
      (by omega) (by omega),
    mzdInitWindow_in mb1 0 mb mb1 L.nrows rsL mb1 0 mb mb1 L.nrows rfl rfl rfl rfl rfl (by omega) (by omega)
      (by omega) (by omega),
    mzdInitWindow_in mb1 mb1 mb mb L.nrows rsL mb1 mb1 mb mb L.nrows rfl rfl rfl rfl rfl hk64 (by omega)
      (by omega) (by omega)]
  dsimp_m
  norm_win
  have hBs : Shaped B.toB mb nb := ⟨Mzd.WF_toB hB, hmb, hnb⟩
  have hLs : Shaped L.toB mb mb := ⟨Mzd.WF_toB hL, hLr, hLc⟩
  have wL00 : InWin L 0 0 mb1 mb1 := ⟨rfl, by omega, by omega⟩
  have wL10 : InWin L mb1 0 mb mb1 := ⟨rfl, by omega, by omega⟩
  have wL11 : InWin L mb1 mb1 mb mb := ⟨hk64, by omega, by omega⟩
  -- B0 = L00⁻¹ · B0
  have hX0 : Shaped (Rec.trsmLowerLeftRec 2048 fuel (L.toB.sub 0 0 mb1 mb1) (B.toB.sub 0 0 mb1 nb))
      (mb1 - 0) (nb - 0) :=
    shaped_llRec 2048 fuel (hBs.sub 0 0 mb1 nb hk) (by rw [nrows_sub, hLs.nr]; omega)
  have s1 := call2_window (Rec.trsmLowerLeftRec 2048 fuel) L B hB 0 0 mb1 mb1 0 0 mb1 nb wL00
    ⟨rfl, by omega, by omega⟩ hX0.nr hX0.nc
  norm_win at s1
  rw [s1]
  generalize hX0' : Rec.trsmLowerLeftRec 2048 fuel (L.toB.sub 0 0 mb1 mb1) (B.toB.sub 0 0 mb1 nb) = X0
    at hX0 ⊢
  have hY1 : Shaped (B.toB.paste 0 0 X0) mb nb := shaped_paste_win hBs 0 0 mb1 nb hX0 (by omega) (Nat.le_refl _)
  obtain ⟨M1W, M1B, M1r, M1c⟩ := putB_state hB hY1.wf (by rw [hY1.nr, hmb]) (by rw [hY1.nc, hnb])
  generalize hM1 : B.putB (B.toB.paste 0 0 X0) = M1 at M1W M1B M1r M1c ⊢
  -- B1 += L10 · B0
  have hX1 : Shaped ((M1.toB.sub mb1 0 mb nb).add ((L.toB.sub mb1 0 mb mb1).mul (M1.toB.sub 0 0 mb1 nb)))
      (mb - mb1) (nb - 0) := by
    rw [M1B]
    exact shaped_addmul (hY1.sub mb1 0 mb nb (Nat.le_refl _)) (hLs.sub mb1 0 mb mb1 (Nat.le_refl _))
      (hY1.sub 0 0 mb1 nb hk)
  have s2 := call3_window (fun C A B => C.add (A.mul B)) M1 L M1 M1W mb1 0 mb nb mb1 0 mb mb1 0 0 mb1 nb
    ⟨rfl, by omega, by omega⟩ wL10 ⟨rfl, by omega, by omega⟩ hX1.nr hX1.nc
  norm_win at s2
  rw [s2]
  rw [M1B, sub_paste_disj hBs 0 0 mb1 nb hX0 hk (by omega) (Nat.le_refl _) mb1 0 mb nb (Nat.le_refl _)
    (by omega), sub_paste_self hBs 0 0 mb1 nb hX0 hk (by omega) (Nat.le_refl _)] at hX1 ⊢
  generalize hX1' : (B.toB.sub mb1 0 mb nb).add ((L.toB.sub mb1 0 mb mb1).mul X0) = X1 at hX1 ⊢
  have hY2 : Shaped ((B.toB.paste 0 0 X0).paste mb1 0 X1) mb nb := shaped_paste_win hY1 mb1 0 mb nb hX1
    (by omega) (Nat.le_refl _)
  obtain ⟨M2W, M2B, M2r, M2c⟩ := putB_state M1W hY2.wf (by rw [hY2.nr, M1r, hmb]) (by rw [hY2.nc, M1c, hnb])
  generalize hM2 : M1.putB ((B.toB.paste 0 0 X0).paste mb1 0 X1) = M2 at M2W M2B M2r M2c ⊢
  -- B1 = L11⁻¹ · B1
  have hX2 : Shaped (Rec.trsmLowerLeftRec 2048 fuel (L.toB.sub mb1 mb1 mb mb) (M2.toB.sub mb1 0 mb nb))
      (mb - mb1) (nb - 0) := by
    rw [M2B]
    exact shaped_llRec 2048 fuel (hY2.sub mb1 0 mb nb (Nat.le_refl _)) (by rw [nrows_sub, hLs.nr]; omega)
  have s3 := call2_window (Rec.trsmLowerLeftRec 2048 fuel) L M2 M2W mb1 mb1 mb mb mb1 0 mb nb wL11
    ⟨rfl, by omega, by omega⟩ hX2.nr hX2.nc
  norm_win at s3
  rw [s3, M2B, sub_paste_self hY1 mb1 0 mb nb hX1 (Nat.le_refl _) (by omega) (Nat.le_refl _)] at *
  rw [← hM2, ← hM1, Mzd.putB_putB hB, Mzd.putB_putB hB,
    paste_paste_self hY1 mb1 0 mb nb hX1 hX2 (Nat.le_refl _) (by omega) (Nat.le_refl _)]

/-! ### 4. `_mzd_trsm_upper_left`: the Four-Russians regime and the recursion -/

/-- `_mzd_trsm_upper_left`, `64 < mb ≤ __M4RI_MUL_BLOCKSIZE`: the call of `_mzd_trsm_upper_left_russian` -/
theorem trsmUpperLeftRec_step_russian (fuel : Nat) (cutoff rsB rsU : Int) (U B : Mzd) (hU : U.WF) (hB : B.WF)
    (h64 : 64 < B.nrows) (h2048 : B.nrows ≤ 2048)
    (frec : CLoop.MView → CLoop.MView → Int → (Int → Int → BitVec 64))
    (fadd : CLoop.MView → CLoop.MView → CLoop.MView → Int → (Int → Int → BitVec 64)) :
    Gen.C.trsmUpperLeftRec cutoff (memOf B) B.nrows B.ncols B.hb (memOf U) B.width U.nrows U.ncols U.width U.hb
      (fun U B _ => liftM2 trsmUpperLeft U B) rsB rsU frec fadd
    = memOf (B.putB (Rec.trsmUpperLeftRec 2048 (fuel + 1) U.toB B.toB)) := by
  unfold Gen.C.trsmUpperLeftRec
  rw [Rec.trsmUpperLeftRec]
  dsimp_m
  simp_m [blocksize_eq, Mzd.nrows_toB, Mzd.ncols_toB]
  rw [if_neg (by simp; omega), if_pos (by simpa using (show (B.nrows : Int) ≤ 2048 by omega)), if_pos h2048]
  exact liftM2_of _ U B hU hB

/-- **one step of `_mzd_trsm_upper_left`, recursion** (`mb > __M4RI_MUL_BLOCKSIZE = 2048`) -/
theorem trsmUpperLeftRec_step_rec (fuel : Nat) (cutoff rsB rsU : Int) (U B : Mzd) (hU : U.WF) (hB : B.WF)
    (hUr : U.nrows = B.nrows) (hUc : U.ncols = B.nrows) (h2048 : 2048 < B.nrows)
    (fruss : CLoop.MView → CLoop.MView → Int → (Int → Int → BitVec 64)) :
    Gen.C.trsmUpperLeftRec cutoff (memOf B) B.nrows B.ncols B.hb (memOf U) B.width U.nrows U.ncols U.width U.hb
      fruss rsB rsU
      (fun U B _ => liftM2 (Rec.trsmUpperLeftRec 2048 fuel) U B)
      (fun C A B _ => liftM3 (fun C A B => C.add (A.mul B)) C A B)
    = memOf (B.putB (Rec.trsmUpperLeftRec 2048 (fuel + 1) U.toB B.toB)) := by
  unfold Gen.C.trsmUpperLeftRec
  rw [Rec.trsmUpperLeftRec]
  dsimp_m
  simp_m [blocksize_eq, Mzd.nrows_toB, Mzd.ncols_toB]
  rw [if_neg (by simp; omega), if_neg (by simp; omega), if_neg (by omega)]
  have hsp : ((Int.tdiv ((B.nrows : Int) - 1) 64 + 1) >>> (1 : Int).toNat) * 64
      = ((Rec.splitPoint B.nrows : Nat) : Int) := GenTie.pleSplit_eq B.nrows
  rw [hsp]
  have hk := Rec.splitPoint_le B.nrows
  have hk64 := splitPoint_mod B.nrows
  generalize Rec.splitPoint B.nrows = mb1 at *
  generalize hmb : B.nrows = mb at *
  generalize hnb : B.ncols = nb at *
  rw [mzdInitWindow_in 0 0 mb1 nb mb rsB 0 0 mb1 nb mb rfl rfl rfl rfl rfl (by omega) (by omega) (by omega)
      (by omega),
    mzdInitWindow_in mb1 0 mb nb mb rsB mb1 0 mb nb mb rfl rfl rfl rfl rfl (by omega) (by omega) (by omega)
      (by omega),
    mzdInitWindow_in 0 0 mb1 mb1 U.nrows rsU 0 0 mb1 mb1 U.nrows rfl rfl rfl rfl rfl (by omega) (by omega)
      (by omega) (by omega),
    mzdInitWindow_in 0 mb1 mb1 mb U.nrows rsU 0 mb1 mb1 mb U.nrows rfl rfl rfl rfl rfl hk64 (by omega)
      (by omega) (by omega),
    mzdInitWindow_in mb1 mb1 mb mb U.nrows rsU mb1 mb1 mb mb U.nrows rfl rfl rfl rfl rfl hk64 (by omega)
      (by omega) (by omega)]
  dsimp_m
  norm_win
  have hBs : Shaped B.toB mb nb := ⟨Mzd.WF_toB hB, hmb, hnb⟩
  have hUs : Shaped U.toB mb mb := ⟨Mzd.WF_toB hU, hUr, hUc⟩
  have wU00 : InWin U 0 0 mb1 mb1 := ⟨rfl, by omega, by omega⟩
  have wU01 : InWin U 0 mb1 mb1 mb := ⟨hk64, by omega, by omega⟩
  have wU11 : InWin U mb1 mb1 mb mb := ⟨hk64, by omega, by omega⟩
  -- B1 = U11⁻¹ · B1
  have hX1 : Shaped (Rec.trsmUpperLeftRec 2048 fuel (U.toB.sub mb1 mb1 mb mb) (B.toB.sub mb1 0 mb nb))
      (mb - mb1) (nb - 0) :=
    shaped_ulRec 2048 fuel (hBs.sub mb1 0 mb nb (Nat.le_refl _)) (by rw [nrows_sub, hUs.nr]; omega)
  have s1 := call2_window (Rec.trsmUpperLeftRec 2048 fuel) U B hB mb1 mb1 mb mb mb1 0 mb nb wU11
    ⟨rfl, by omega, by omega⟩ hX1.nr hX1.nc
  norm_win at s1
  rw [s1]
  generalize hX1' : Rec.trsmUpperLeftRec 2048 fuel (U.toB.sub mb1 mb1 mb mb) (B.toB.sub mb1 0 mb nb) = X1
    at hX1 ⊢
  have hY1 : Shaped (B.toB.paste mb1 0 X1) mb nb := shaped_paste_win hBs mb1 0 mb nb hX1 (by omega)
    (Nat.le_refl _)
  obtain ⟨M1W, M1B, M1r, M1c⟩ := putB_state hB hY1.wf (by rw [hY1.nr, hmb]) (by rw [hY1.nc, hnb])
  generalize hM1 : B.putB (B.toB.paste mb1 0 X1) = M1 at M1W M1B M1r M1c ⊢
  -- B0 += U01 · B1
  have hX0 : Shaped ((M1.toB.sub 0 0 mb1 nb).add ((U.toB.sub 0 mb1 mb1 mb).mul (M1.toB.sub mb1 0 mb nb)))
      (mb1 - 0) (nb - 0) := by
    rw [M1B]
    exact shaped_addmul (hY1.sub 0 0 mb1 nb hk) (hUs.sub 0 mb1 mb1 mb hk)
      (hY1.sub mb1 0 mb nb (Nat.le_refl _))
  have s2 := call3_window (fun C A B => C.add (A.mul B)) M1 U M1 M1W 0 0 mb1 nb 0 mb1 mb1 mb mb1 0 mb nb
    ⟨rfl, by omega, by omega⟩ wU01 ⟨rfl, by omega, by omega⟩ hX0.nr hX0.nc
  norm_win at s2
  rw [s2]
  rw [M1B, sub_paste_disj hBs mb1 0 mb nb hX1 (Nat.le_refl _) (by omega) (Nat.le_refl _) 0 0 mb1 nb hk
    (by omega), sub_paste_self hBs mb1 0 mb nb hX1 (Nat.le_refl _) (by omega) (Nat.le_refl _)] at hX0 ⊢
  generalize hX0' : (B.toB.sub 0 0 mb1 nb).add ((U.toB.sub 0 mb1 mb1 mb).mul X1) = X0 at hX0 ⊢
  have hY2 : Shaped ((B.toB.paste mb1 0 X1).paste 0 0 X0) mb nb := shaped_paste_win hY1 0 0 mb1 nb hX0
    (by omega) (Nat.le_refl _)
  obtain ⟨M2W, M2B, M2r, M2c⟩ := putB_state M1W hY2.wf (by rw [hY2.nr, M1r, hmb]) (by rw [hY2.nc, M1c, hnb])
  generalize hM2 : M1.putB ((B.toB.paste mb1 0 X1).paste 0 0 X0) = M2 at M2W M2B M2r M2c ⊢
  -- B0 = U00⁻¹ · B0
  have hX2 : Shaped (Rec.trsmUpperLeftRec 2048 fuel (U.toB.sub 0 0 mb1 mb1) (M2.toB.sub 0 0 mb1 nb))
      (mb1 - 0) (nb - 0) := by
    rw [M2B]
    exact shaped_ulRec 2048 fuel (hY2.sub 0 0 mb1 nb hk) (by rw [nrows_sub, hUs.nr]; omega)
  have s3 := call2_window (Rec.trsmUpperLeftRec 2048 fuel) U M2 M2W 0 0 mb1 mb1 0 0 mb1 nb wU00
    ⟨rfl, by omega, by omega⟩ hX2.nr hX2.nc
  norm_win at s3
  rw [s3, M2B, sub_paste_self hY1 0 0 mb1 nb hX0 hk (by omega) (Nat.le_refl _)] at *
  rw [← hM2, ← hM1, Mzd.putB_putB hB, Mzd.putB_putB hB,
    paste_paste_self hY1 0 0 mb1 nb hX0 hX2 hk (by omega) (Nat.le_refl _),
    paste_comm_disj hBs mb1 0 mb nb hX1 (Nat.le_refl _) (by omega) (Nat.le_refl _) 0 0 mb1 nb hX2 hk
      (by omega) (Nat.le_refl _) (by omega)]


/-! ### 5. the inline `mb ≤ m4ri_radix` kernels of `_mzd_trsm_lower_left` / `_mzd_trsm_upper_left`

  `for (j = 0; j < B->width - 1; ++j) Brow[j] ^= Bsrc[j];  Brow[B->width - 1] ^= Bsrc[B->width - 1] & mask_end;` -/

/-- the word-level row addition of the kernels: `mzd_combine_even_in_place` without block offsets -/
def xorRowW (M : Mzd) (dst src : Nat) : Mzd :=
  M.setRow dst (Mzd.combineEvenInPlaceWords (M.row dst) (M.row src) 0 0 M.width M.hb)

/-- memory with the words `0 .. k-1` of row `dst` XOR-ed with those of row `src` -/
def xorMem (m : Int → Int → BitVec 64) (dst src k : Nat) : Int → Int → BitVec 64 :=
  fun r z => if r = (dst : Int) ∧ 0 ≤ z ∧ z < (k : Int) then m r z ^^^ m (src : Int) z else m r z

theorem xorMem_zero (m : Int → Int → BitVec 64) (dst src : Nat) : xorMem m dst src 0 = m := by
  funext r z
  unfold xorMem
  rw [if_neg (by omega)]

theorem xorMem_succ (m : Int → Int → BitVec 64) (dst src k : Nat) (hne : dst ≠ src) :
    CLoop.upd2 (xorMem m dst src k) dst ((0 : Int) + (k : Int))
        (xorMem m dst src k dst ((0 : Int) + (k : Int)) ^^^ xorMem m dst src k src ((0 : Int) + (k : Int)))
      = xorMem m dst src (k + 1) := by
  funext r z
  simp only [upd2_apply, xorMem, Int.zero_add]
  by_cases hr : r = (dst : Int)
  · subst hr
    by_cases hz : z = (k : Int)
    · subst hz
      ifs_omega
    · repeat' split
      all_goals first | rfl | (exfalso; omega)
  · ifs_omega

/-- the word loop + the masked last word of the kernels, on `memOf M` -/
theorem rowXor_mem (M : Mzd) (hM : M.WF) (d s : Nat) (hd : d < M.nrows) (hne : d ≠ s) (hw : 1 ≤ M.width)
    {cond : (Int → Int → BitVec 64) × Int → Bool}
    {body : (Int → Int → BitVec 64) × Int → (Int → Int → BitVec 64) × Int} {fuel : Nat}
    {res : (Int → Int → BitVec 64) × Int}
    (hres : CLoop.loop fuel cond body (memOf M, 0) = res) (hf : M.width - 1 ≤ fuel)
    (hcond : ∀ m j, cond (m, j) = decide (j < (M.width : Int) - 1))
    (hbody : ∀ m j, body (m, j) = (CLoop.upd2 m d (0 + j) (m d (0 + j) ^^^ m s (0 + j)), j + 1)) :
    CLoop.upd2 res.1 d (0 + ((M.width : Int) - 1))
        (res.1 d (0 + ((M.width : Int) - 1)) ^^^ (res.1 s (0 + ((M.width : Int) - 1)) &&& M.hb))
      = memOf (xorRowW M d s) := by
  have hsz : (M.row d).size = M.width := hM.2 d hd
  have key := for_loop_eq hres (M.width - 1)
    (fun k st => st.2 = (k : Int) ∧ st.1 = xorMem (memOf M) d s k) hf ⟨rfl, (xorMem_zero _ _ _).symm⟩ ?_ ?_
  · obtain ⟨L, kk⟩ := res
    obtain ⟨k1, k2⟩ := key
    dsimp only at k1 k2 ⊢
    subst k1 k2
    clear hres
    have e : (0 : Int) + ((M.width : Int) - 1) = ((M.width - 1 : Nat) : Int) := by omega
    rw [e]
    unfold xorRowW
    apply eq_memOf_setRow _ _ _ (by rw [hM.1]; exact hd)
    · intro k
      rw [Mzd.combineEvenInPlaceWords_w _ _ _ _ _ _ (by omega)]
      simp only [upd2_apply, xorMem, memOf_nat, true_and, Nat.sub_zero, Nat.add_zero]
      by_cases hk2 : k < M.width
      · by_cases hkw : k = M.width - 1
        · subst hkw
          ifs_omega
        · ifs_omega
      · rw [Row.w_of_ge (M.row d) k (by omega)]
        ifs_omega
    · intro z hz
      simp only [upd2_apply, xorMem, true_and]
      rw [if_neg (by omega), if_neg (by omega), memOf_neg _ _ _ hz]
    · intro r' i' hr'
      simp only [upd2_apply, xorMem]
      rw [if_neg (by omega), if_neg (by omega)]
  · intro k st hk hP
    obtain ⟨L, kk⟩ := st
    obtain ⟨k1, k2⟩ := hP
    dsimp only at k1 k2
    subst k1 k2
    rw [hcond]
    congr 1
    apply propext
    omega
  · intro k st hk hP
    obtain ⟨L, kk⟩ := st
    obtain ⟨k1, k2⟩ := hP
    dsimp only at k1 k2 ⊢
    subst k1 k2
    rw [hbody]
    refine ⟨by dsimp only; omega, ?_⟩
    exact xorMem_succ _ _ _ _ hne


open M4ri.BMat.TB in
/-- entry of the value-level row addition -/
theorem get_xorRow (X : BMat) (d s i j : Nat) (hd : d < X.rows.size) :
    (xorRow X d s).get i j = if i = d then (X.get d j ^^ X.get s j) else X.get i j := by
  unfold BMat.get
  rw [xorRow_row]
  by_cases h : i = d
  · subst h
    rw [if_pos ⟨rfl, hd⟩, if_pos rfl, Nat.testBit_xor]
  · rw [if_neg (fun hh => h hh.1), if_neg h]

open M4ri.BMat.TB in
theorem good_xorRow {M : Mzd} {X : BMat} (h : Good M X) (d s : Nat) : Good M (xorRow X d s) := by
  obtain ⟨h1, h2, h3⟩ := h
  refine ⟨?_, h2, h3⟩
  unfold xorRow
  apply setRow_WF h1
  exact Nat.xor_lt_two_pow (h1.2 d) (h1.2 s)

open M4ri.BMat.TB in
/-- the word-level row addition through the lens -/
theorem xorRowW_putB (M : Mzd) (X : BMat) (hM : M.WF) (hX : Good M X) (d s : Nat) (hd : d < M.nrows)
    (hc : 0 < M.ncols) : xorRowW (M.putB X) d s = M.putB (xorRow X d s) := by
  have hN : (M.putB X).WF := Mzd.WF_putB hM X
  have hszd : ((M.putB X).row d).size = widthOf M.ncols := hN.2 d hd
  have hW : (xorRowW (M.putB X) d s).WF := by
    unfold xorRowW
    apply Mzd.WF.setRow hN
    rw [Mzd.combineEvenInPlaceWords_size]; exact hN.2 d hd
  apply Mzd.eq_putB_of_bit hW hM rfl rfl
  intro i j hi hj
  unfold xorRowW
  rw [Mzd.bit_setRow _ _ _ (by rw [hN.1]; exact hd)]
  have hXs : d < X.rows.size := by rw [hX.1.1, hX.2.1]; exact hd
  rw [get_xorRow X d s i j hXs]
  by_cases hid : i = d
  · subst hid
    rw [if_pos rfl, if_pos rfl]
    have := Mzd.combineEvenInPlaceWords_bit ((M.putB X).row i) ((M.putB X).row s) 0 0 M.ncols hszd hc j
    rw [show (M.putB X).width = widthOf M.ncols from rfl, show (M.putB X).hb = leftMask (M.ncols % 64) from rfl,
      this]
    simp only [Nat.mul_zero, Nat.zero_le, true_and, Nat.sub_zero, Nat.add_zero]
    rw [← Mzd.bit_eq_rowBit, ← Mzd.bit_eq_rowBit, Mzd.bit_putB M X hM i j hi hj]
    by_cases hjn : j < M.ncols
    · rw [if_pos hjn, if_pos hjn, if_pos hjn]
      by_cases hs : s < M.nrows
      · rw [Mzd.bit_putB M X hM s j hs hj, if_pos hjn]
      · rw [Mzd.bit_of_ge_rows _ _ _ (by rw [hN.1, Mzd.nrows_putB]; omega),
          get_of_ge_nrows hX.1 s j (by rw [hX.2.1]; omega)]
    · rw [if_neg hjn, if_neg hjn, if_neg hjn]
  · rw [if_neg hid, if_neg hid, Mzd.bit_putB M X hM i j hi hj]

open M4ri.BMat.TB in
/-- one row addition of the kernels on a `putB` state -/
theorem rowStep_putB (B : Mzd) (X : BMat) (hB : B.WF) (hX : Good B X) (d s : Nat) (hd : d < B.nrows)
    (hne : d ≠ s) (hc : 1 ≤ B.ncols)
    {cond : (Int → Int → BitVec 64) × Int → Bool}
    {body : (Int → Int → BitVec 64) × Int → (Int → Int → BitVec 64) × Int} {fuel : Nat}
    {res : (Int → Int → BitVec 64) × Int}
    (hres : CLoop.loop fuel cond body (memOf (B.putB X), 0) = res) (hf : B.width - 1 ≤ fuel)
    (hcond : ∀ m j, cond (m, j) = decide (j < (B.width : Int) - 1))
    (hbody : ∀ m j, body (m, j) = (CLoop.upd2 m d (0 + j) (m d (0 + j) ^^^ m s (0 + j)), j + 1)) :
    CLoop.upd2 res.1 d (0 + ((B.width : Int) - 1))
        (res.1 d (0 + ((B.width : Int) - 1)) ^^^ (res.1 s (0 + ((B.width : Int) - 1)) &&& B.hb))
      = memOf (B.putB (xorRow X d s)) := by
  have hw : 1 ≤ B.width := by unfold Mzd.width widthOf; omega
  have := rowXor_mem (B.putB X) (Mzd.WF_putB hB X) d s hd hne hw hres hf hcond hbody
  rw [← xorRowW_putB B X hB hX d s hd (by omega)]
  exact this

open M4ri.BMat.TB in
/-- **`_mzd_trsm_lower_left`, inline base case** (`mb ≤ m4ri_radix`): the three nested loops compute forward
    substitution.  `1 ≤ B.ncols` is a C-domain condition (the code writes `Brow[B->width - 1]`). -/
theorem trsmLowerLeftRec_step_base (fuel : Nat) (cutoff rsB rsL : Int) (L B : Mzd) (hL : L.WF) (hB : B.WF)
    (hLc : B.nrows ≤ L.ncols + 1) (h64 : B.nrows ≤ 64) (hc : 1 ≤ B.ncols)
    (fruss frec : CLoop.MView → CLoop.MView → Int → (Int → Int → BitVec 64))
    (fadd : CLoop.MView → CLoop.MView → CLoop.MView → Int → (Int → Int → BitVec 64)) :
    Gen.C.trsmLowerLeftRec cutoff (memOf B) B.nrows B.ncols (memOf L) B.width L.nrows L.ncols L.width L.hb B.hb
      fruss rsB rsL frec fadd
    = memOf (B.putB (Rec.trsmLowerLeftRec 2048 (fuel + 1) L.toB B.toB)) := by
  unfold Gen.C.trsmLowerLeftRec
  rw [Rec.trsmLowerLeftRec]
  dsimp_m
  simp_m [Mzd.nrows_toB, Mzd.ncols_toB]
  rw [if_pos (by simpa using (show (B.nrows : Int) ≤ 64 by omega)), if_pos (by omega),
    ← lowerLeftKernel_eq (Mzd.WF_toB hB) h64]
  have hmask : BitVec.allOnes 64 >>> (Int.tmod ((64 : Int) - Int.tmod (B.ncols : Int) 64) 64).toNat = B.hb :=
    leftmask_gen B.ncols
  simp_m [hmask, Int.toNat_natCast]
  have hwf : B.width - 1 ≤ B.nrows + B.ncols := by unfold Mzd.width widthOf; omega
  generalize hres : CLoop.loop _ _ _ _ = res
  have key := loop_foldl_eq hres (fun (X : BMat) (i : Nat) => (memOf (B.putB X), (i : Int)))
    (fun X i => (List.range i).foldl (fun X k => if getW0 L.toB i k then xorRow X i k else X) X)
    (fun X _ => Good B X) 1 B.nrows B.toB (by rw [Mzd.putB_toB hB]; rfl) (by omega) (good_toB B hB)
    (by intro X i; dsimp_m; rw [decide_eq_decide]; omega) ?_
  · obtain ⟨k1, -⟩ := key
    subst k1
    dsimp_m
    unfold lowerLeftKernel
    rw [Mzd.nrows_toB]
  · intro X i hX hi
    dsimp_m
    generalize hres2 : CLoop.loop _ _ _ _ = res2
    have key2 := loop_foldl_eq hres2 (fun (X : BMat) (k : Nat) => (memOf (B.putB X), (k : Int)))
      (fun X k => if getW0 L.toB i k then xorRow X i k else X)
      (fun X _ => Good B X) 0 i X rfl (by omega) hX
      (by intro X k; dsimp_m; rw [decide_eq_decide]; omega) ?_
    · obtain ⟨k1, k2⟩ := key2
      subst k1
      dsimp_m
      rw [List.range_eq_range']
      refine ⟨?_, k2⟩
      congr 1
    · intro Y k hY hk
      dsimp_m
      have hbit : decide ((BitVec.setWidth 32 (memOf L (i : Int) (0 + 0) >>> ((k : Nat) : Int).toNat &&& 1#64)).toInt ≠ 0)
          = getW0 L.toB i k := by
        rw [Int.toNat_natCast, show memOf L (i : Int) (0 + 0) = (L.row i).w 0 from memOf_nat' L i 0 _ rfl, toInt_bit, getW0_eq _ _ _ (by omega),
          Mzd.get_toB_of_lt L i k (by omega), Mzd.bit_def]
        have e : k / 64 = 0 ∧ k % 64 = k := by omega
        rw [e.1, e.2]
        cases ((L.row i).w 0).getLsbD k <;> rfl
      rw [hbit]
      by_cases hg : getW0 L.toB i k = true
      · rw [if_pos hg, if_pos hg]
        generalize hres3 : CLoop.loop _ _ _ _ = res3
        have h3 := rowStep_putB B Y hB hY i k (by omega) (by omega) hc hres3 hwf (fun _ _ => rfl) (fun _ _ => rfl)
        obtain ⟨m3, j3⟩ := res3
        dsimp_m at h3 ⊢
        rw [h3]
        exact ⟨by rw [Int.natCast_add]; rfl, good_xorRow hY i k⟩
      · rw [if_neg hg, if_neg hg]
        exact ⟨by rw [Int.natCast_add]; rfl, hY⟩

open M4ri.BMat.TB in
/-- **`_mzd_trsm_upper_left`, inline base case** (`mb ≤ m4ri_radix`): backward substitution -/
theorem trsmUpperLeftRec_step_base (fuel : Nat) (cutoff rsB rsU : Int) (U B : Mzd) (hU : U.WF) (hB : B.WF)
    (hUc : B.nrows ≤ U.ncols) (h64 : B.nrows ≤ 64) (hc : 1 ≤ B.ncols)
    (fruss frec : CLoop.MView → CLoop.MView → Int → (Int → Int → BitVec 64))
    (fadd : CLoop.MView → CLoop.MView → CLoop.MView → Int → (Int → Int → BitVec 64)) :
    Gen.C.trsmUpperLeftRec cutoff (memOf B) B.nrows B.ncols B.hb (memOf U) B.width U.nrows U.ncols U.width U.hb
      fruss rsB rsU frec fadd
    = memOf (B.putB (Rec.trsmUpperLeftRec 2048 (fuel + 1) U.toB B.toB)) := by
  unfold Gen.C.trsmUpperLeftRec
  rw [Rec.trsmUpperLeftRec]
  dsimp_m
  simp_m [Mzd.nrows_toB, Mzd.ncols_toB]
  rw [if_pos (by simpa using (show (B.nrows : Int) ≤ 64 by omega)), if_pos (by omega),
    ← upperLeftKernel_eq (Mzd.WF_toB hB) h64]
  simp_m [Int.toNat_natCast]
  have hwf : B.width - 1 ≤ B.nrows + B.ncols := by unfold Mzd.width widthOf; omega
  generalize hres : CLoop.loop _ _ _ _ = res
  have key := loop_foldl_eq hres
    (fun (X : BMat) (t : Nat) => (memOf (B.putB X), (B.nrows : Int) - 2 - (t : Int)))
    (fun X t => (List.range' (B.nrows - 1 - 1 - t + 1) (B.nrows - (B.nrows - 1 - 1 - t + 1))).foldl
      (fun X k => if getW0 U.toB (B.nrows - 1 - 1 - t) k then xorRow X (B.nrows - 1 - 1 - t) k else X) X)
    (fun X _ => Good B X) 0 (B.nrows - 1) B.toB
    (by rw [Mzd.putB_toB hB, Int.natCast_zero, Int.sub_zero]) (by omega) (good_toB B hB)
    (by intro X t; dsimp_m; rw [decide_eq_decide]; omega) ?_
  · obtain ⟨k1, -⟩ := key
    subst k1
    dsimp_m
    unfold upperLeftKernel
    rw [Mzd.nrows_toB, GenTieMem.reverse_range, List.foldl_map, Nat.sub_zero, List.range_eq_range']
  · intro X t hX ht
    dsimp_m
    have e : (B.nrows : Int) - 2 - (t : Int) = ((B.nrows - 1 - 1 - t : Nat) : Int) := by omega
    rw [e]
    generalize hi' : B.nrows - 1 - 1 - t = i
    have hi : i + 1 < B.nrows := by omega
    generalize hres2 : CLoop.loop _ _ _ _ = res2
    have key2 := loop_foldl_eq hres2 (fun (X : BMat) (k : Nat) => (memOf (B.putB X), (k : Int)))
      (fun X k => if getW0 U.toB i k then xorRow X i k else X)
      (fun X k => Good B X ∧ i + 1 ≤ k) (i + 1) B.nrows X (by rw [Int.natCast_add]; rfl) (by omega)
      ⟨hX, Nat.le_refl _⟩
      (by intro X k; dsimp_m; rw [decide_eq_decide]; omega) ?_
    · obtain ⟨k1, k2, -⟩ := key2
      subst k1
      dsimp_m
      refine ⟨?_, k2⟩
      congr 1
      omega
    · intro Y k hYk hk
      obtain ⟨hY, hik⟩ := hYk
      dsimp_m
      have hbit : decide ((BitVec.setWidth 32 (memOf U (i : Int) (0 + 0) >>> ((k : Nat) : Int).toNat &&& 1#64)).toInt ≠ 0)
          = getW0 U.toB i k := by
        rw [Int.toNat_natCast, show memOf U (i : Int) (0 + 0) = (U.row i).w 0 from memOf_nat' U i 0 _ rfl,
          toInt_bit, getW0_eq _ _ _ (by omega), Mzd.get_toB_of_lt U i k (by omega), Mzd.bit_def]
        have e : k / 64 = 0 ∧ k % 64 = k := by omega
        rw [e.1, e.2]
        cases ((U.row i).w 0).getLsbD k <;> rfl
      rw [hbit]
      by_cases hg : getW0 U.toB i k = true
      · rw [if_pos hg, if_pos hg]
        generalize hres3 : CLoop.loop _ _ _ _ = res3
        have h3 := rowStep_putB B Y hB hY i k (by omega) (by omega) hc hres3 hwf (fun _ _ => rfl) (fun _ _ => rfl)
        obtain ⟨m3, j3⟩ := res3
        dsimp_m at h3 ⊢
        rw [h3]
        exact ⟨by rw [Int.natCast_add]; rfl, good_xorRow hY i k, by omega⟩
      · rw [if_neg hg, if_neg hg]
        exact ⟨by rw [Int.natCast_add]; rfl, hY, by omega⟩


/-! ### 6. the complete steps of the two left variants -/

/-- **one step of `_mzd_trsm_lower_left`**, all three regimes of the C function against the two of the model
    (`baseRows = 2048`; the Four-Russians callee instantiated by the substitution form) -/
theorem trsmLowerLeftRec_step (fuel : Nat) (cutoff rsB rsL : Int) (L B : Mzd) (hL : L.WF) (hB : B.WF)
    (hLr : L.nrows = B.nrows) (hLc : L.ncols = B.nrows) (hc : 1 ≤ B.ncols) :
    Gen.C.trsmLowerLeftRec cutoff (memOf B) B.nrows B.ncols (memOf L) B.width L.nrows L.ncols L.width L.hb B.hb
      (fun L B _ => liftM2 trsmLowerLeft L B) rsB rsL
      (fun L B _ => liftM2 (Rec.trsmLowerLeftRec 2048 fuel) L B)
      (fun C A B _ => liftM3 (fun C A B => C.add (A.mul B)) C A B)
    = memOf (B.putB (Rec.trsmLowerLeftRec 2048 (fuel + 1) L.toB B.toB)) := by
  by_cases h64 : B.nrows ≤ 64
  · exact trsmLowerLeftRec_step_base fuel cutoff rsB rsL L B hL hB (by omega) h64 hc _ _ _
  · by_cases h2048 : B.nrows ≤ 2048
    · exact trsmLowerLeftRec_step_russian fuel cutoff rsB rsL L B hL hB (by omega) h2048 _ _
    · exact trsmLowerLeftRec_step_rec fuel cutoff rsB rsL L B hL hB hLr hLc (by omega) _

/-- **one step of `_mzd_trsm_upper_left`**, all three regimes -/
theorem trsmUpperLeftRec_step (fuel : Nat) (cutoff rsB rsU : Int) (U B : Mzd) (hU : U.WF) (hB : B.WF)
    (hUr : U.nrows = B.nrows) (hUc : U.ncols = B.nrows) (hc : 1 ≤ B.ncols) :
    Gen.C.trsmUpperLeftRec cutoff (memOf B) B.nrows B.ncols B.hb (memOf U) B.width U.nrows U.ncols U.width U.hb
      (fun U B _ => liftM2 trsmUpperLeft U B) rsB rsU
      (fun U B _ => liftM2 (Rec.trsmUpperLeftRec 2048 fuel) U B)
      (fun C A B _ => liftM3 (fun C A B => C.add (A.mul B)) C A B)
    = memOf (B.putB (Rec.trsmUpperLeftRec 2048 (fuel + 1) U.toB B.toB)) := by
  by_cases h64 : B.nrows ≤ 64
  · exact trsmUpperLeftRec_step_base fuel cutoff rsB rsU U B hU hB (by omega) h64 hc _ _ _
  · by_cases h2048 : B.nrows ≤ 2048
    · exact trsmUpperLeftRec_step_russian fuel cutoff rsB rsU U B hU hB (by omega) h2048 _ _
    · exact trsmUpperLeftRec_step_rec fuel cutoff rsB rsU U B hU hB hUr hUc (by omega) _

/-! ### 7. the translated `_mzd_trsm_lower_left` applied to views -/

/-- the inline `mb ≤ 64` kernel of `_mzd_trsm_lower_left` only looks at the rows and words of its arguments -/
theorem trsmLowerLeftRec_agree_base (cutoff rsB rsL : Int) (mb nb : Nat) (mB mB' mL mL' : Int → Int → BitVec 64)
    (hbL hbB : BitVec 64) (h64 : mb ≤ 64) (hc : 1 ≤ nb)
    (hB : AgreeOn mb ((nb + 63) / 64) mB mB') (hL : AgreeOn mb ((mb + 63) / 64) mL mL')
    (fruss frec : CLoop.MView → CLoop.MView → Int → (Int → Int → BitVec 64))
    (fadd : CLoop.MView → CLoop.MView → CLoop.MView → Int → (Int → Int → BitVec 64)) :
    AgreeOn mb ((nb + 63) / 64)
      (Gen.C.trsmLowerLeftRec cutoff mB mb nb mL (((nb + 63) / 64 : Nat) : Int) mb mb (((mb + 63) / 64 : Nat) : Int)
        hbL hbB fruss rsB rsL frec fadd)
      (Gen.C.trsmLowerLeftRec cutoff mB' mb nb mL' (((nb + 63) / 64 : Nat) : Int) mb mb
        (((mb + 63) / 64 : Nat) : Int) hbL hbB fruss rsB rsL frec fadd) := by
  unfold Gen.C.trsmLowerLeftRec
  dsimp_m
  rw [if_pos (by simpa using (show (mb : Int) ≤ 64 by omega)), if_pos (by simpa using (show (mb : Int) ≤ 64 by omega))]
  generalize hw : (nb + 63) / 64 = w at *
  have hw1 : 1 ≤ w := by omega
  have hmL : ∀ i : Int, 0 ≤ i → i < mb → mL i (0 + 0) = mL' i (0 + 0) := by
    intro i h0 h1
    exact AgreeOn.at hL i (0 + 0) h0 h1 (by omega) (by omega)
  generalize hres : CLoop.loop _ _ _ (mB, (1 : Int)) = res
  generalize hres' : CLoop.loop _ _ _ (mB', (1 : Int)) = res'
  have key : AgreeOn mb w res.1 res'.1 ∧ res.2 = res'.2 ∧ 0 ≤ res.2 := by
    rw [← hres, ← hres']
    refine loop_sim (fun (s s' : (Int → Int → BitVec 64) × Int) => AgreeOn mb w s.1 s'.1 ∧ s.2 = s'.2 ∧ 0 ≤ s.2)
      ?_ ?_ _ _ _ ⟨hB, rfl, by omega⟩
    · rintro ⟨m, i⟩ ⟨m', i'⟩ ⟨ha, hi, hi0⟩
      dsimp_m at hi ⊢
      subst hi
      rfl
    · rintro ⟨m, i⟩ ⟨m', i'⟩ ⟨ha, hi, hi0⟩ hcnd
      dsimp_m at ha hi hi0 hcnd ⊢
      subst hi
      have hi1 : i < mb := by simpa using hcnd
      generalize hres2 : CLoop.loop _ _ _ (m, (0 : Int)) = res2
      generalize hres2' : CLoop.loop _ _ _ (m', (0 : Int)) = res2'
      have key2 : AgreeOn mb w res2.1 res2'.1 ∧ res2.2 = res2'.2 ∧ 0 ≤ res2.2 := by
        rw [← hres2, ← hres2']
        refine loop_sim (fun (s s' : (Int → Int → BitVec 64) × Int) => AgreeOn mb w s.1 s'.1 ∧ s.2 = s'.2 ∧ 0 ≤ s.2)
          ?_ ?_ _ _ _ ⟨ha, rfl, by omega⟩
        · rintro ⟨m2, k⟩ ⟨m2', k'⟩ ⟨ha2, hk, hk0⟩
          dsimp_m at hk ⊢
          subst hk
          rfl
        · rintro ⟨m2, k⟩ ⟨m2', k'⟩ ⟨ha2, hk, hk0⟩ hcnd2
          dsimp_m at ha2 hk hk0 hcnd2 ⊢
          subst hk
          have hk1 : k < i := by simpa using hcnd2
          rw [hmL i hi0 hi1]
          refine ⟨?_, rfl, by omega⟩
          split
          · generalize hres3 : CLoop.loop _ _ _ (m2, (0 : Int)) = res3
            generalize hres3' : CLoop.loop _ _ _ (m2', (0 : Int)) = res3'
            have key3 : AgreeOn mb w res3.1 res3'.1 ∧ res3.2 = res3'.2 ∧ 0 ≤ res3.2 := by
              rw [← hres3, ← hres3']
              refine loop_sim
                (fun (s s' : (Int → Int → BitVec 64) × Int) => AgreeOn mb w s.1 s'.1 ∧ s.2 = s'.2 ∧ 0 ≤ s.2)
                ?_ ?_ _ _ _ ⟨ha2, rfl, by omega⟩
              · rintro ⟨m3, j⟩ ⟨m3', j'⟩ ⟨ha3, hj, hj0⟩
                dsimp_m at hj ⊢
                subst hj
                rfl
              · rintro ⟨m3, j⟩ ⟨m3', j'⟩ ⟨ha3, hj, hj0⟩ hcnd3
                dsimp_m at ha3 hj hj0 hcnd3 ⊢
                subst hj
                have hj1 : j < (w : Int) - 1 := by simpa using hcnd3
                refine ⟨?_, rfl, by omega⟩
                apply AgreeOn.upd2 ha3
                rw [AgreeOn.at ha3 i (0 + j) hi0 hi1 (by omega) (by omega),
                  AgreeOn.at ha3 k (0 + j) hk0 (by omega) (by omega) (by omega)]
            obtain ⟨m3, j⟩ := res3
            obtain ⟨m3', j'⟩ := res3'
            obtain ⟨ha3, -, -⟩ := key3
            dsimp_m at ha3 ⊢
            apply AgreeOn.upd2 ha3
            rw [AgreeOn.at ha3 i (0 + ((w : Int) - 1)) hi0 hi1 (by omega) (by omega),
              AgreeOn.at ha3 k (0 + ((w : Int) - 1)) hk0 (by omega) (by omega) (by omega)]
          · exact ha2
      obtain ⟨m2, k⟩ := res2
      obtain ⟨m2', k'⟩ := res2'
      obtain ⟨ha2, -, -⟩ := key2
      dsimp_m at ha2 ⊢
      exact ⟨ha2, rfl, by omega⟩
  obtain ⟨m, i⟩ := res
  obtain ⟨m', i'⟩ := res'
  exact key.1

/-- normal form of the window headers that keeps all offsets as casts of naturals -/
macro "norm_win'" loc:(Lean.Parser.Tactic.location)? : tactic =>
  `(tactic| simp (config := {etaStruct := .none}) only [Int.zero_add, Nat.sub_zero, Nat.zero_div] $[$loc]?)

/-- `_mzd_trsm_lower_left` with lifted callees only looks at the rows and words of its two arguments -/
theorem trsmLowerLeftRec_agree (cutoff rsB rsL : Int) (mb nb : Nat) (mB mB' mL mL' : Int → Int → BitVec 64)
    (hbL hbB : BitVec 64) (hc : 1 ≤ nb)
    (hB : AgreeOn mb ((nb + 63) / 64) mB mB') (hL : AgreeOn mb ((mb + 63) / 64) mL mL')
    (op1 op2 : BMat → BMat → BMat) (op3 : BMat → BMat → BMat → BMat) :
    AgreeOn mb ((nb + 63) / 64)
      (Gen.C.trsmLowerLeftRec cutoff mB mb nb mL (((nb + 63) / 64 : Nat) : Int) mb mb (((mb + 63) / 64 : Nat) : Int)
        hbL hbB (fun L B _ => liftM2 op1 L B) rsB rsL (fun L B _ => liftM2 op2 L B)
        (fun C A B _ => liftM3 op3 C A B))
      (Gen.C.trsmLowerLeftRec cutoff mB' mb nb mL' (((nb + 63) / 64 : Nat) : Int) mb mb
        (((mb + 63) / 64 : Nat) : Int) hbL hbB (fun L B _ => liftM2 op1 L B) rsB rsL (fun L B _ => liftM2 op2 L B)
        (fun C A B _ => liftM3 op3 C A B)) := by
  by_cases h64 : mb ≤ 64
  · exact trsmLowerLeftRec_agree_base cutoff rsB rsL mb nb mB mB' mL mL' hbL hbB h64 hc hB hL _ _ _
  unfold Gen.C.trsmLowerLeftRec
  dsimp_m
  simp_m [blocksize_eq]
  have h64' : ¬ (decide ((mb : Int) ≤ 64) = true) := by simp; omega
  rw [if_neg h64', if_neg h64']
  by_cases h2048 : mb ≤ 2048
  · have h2048' : decide ((mb : Int) ≤ 2048) = true := by simp; omega
    rw [if_pos h2048', if_pos h2048',
      liftM2_congr_nat op1 mb ((mb + 63) / 64) mb ((nb + 63) / 64) _ _ hbL hbL hbB hbB hL hB]
    exact AgreeOn.refl _ _ _
  · have h2048' : ¬ (decide ((mb : Int) ≤ 2048) = true) := by simp; omega
    rw [if_neg h2048', if_neg h2048']
    have hsp : ((Int.tdiv ((mb : Int) - 1) 64 + 1) >>> (1 : Int).toNat) * 64
        = ((Rec.splitPoint mb : Nat) : Int) := GenTie.pleSplit_eq mb
    rw [hsp]
    have hk := Rec.splitPoint_le mb
    have hk64 := splitPoint_mod mb
    generalize Rec.splitPoint mb = mb1 at *
    rw [mzdInitWindow_in 0 0 mb1 nb mb rsB 0 0 mb1 nb mb rfl rfl rfl rfl rfl (by omega) (by omega) (by omega)
        (by omega),
      mzdInitWindow_in mb1 0 mb nb mb rsB mb1 0 mb nb mb rfl rfl rfl rfl rfl (by omega) (by omega) (by omega)
        (by omega),
      mzdInitWindow_in 0 0 mb1 mb1 mb rsL 0 0 mb1 mb1 mb rfl rfl rfl rfl rfl (by omega) (by omega)
        (by omega) (by omega),
      mzdInitWindow_in mb1 0 mb mb1 mb rsL mb1 0 mb mb1 mb rfl rfl rfl rfl rfl (by omega) (by omega)
        (by omega) (by omega),
      mzdInitWindow_in mb1 mb1 mb mb mb rsL mb1 mb1 mb mb mb rfl rfl rfl rfl rfl hk64 (by omega)
        (by omega) (by omega)]
    dsimp_m
    norm_win'
    have a1 := step2_agree op2 hB hL 0 0 mb1 ((mb1 + 63) / 64) 0 0 mb1 ((nb + 63) / 64) ((mb1 : Nat) : Int)
      ((nb : Nat) : Int) (leftMask (mb1 % 64)) (leftMask (nb % 64)) (by omega) (by omega) (by omega) (by omega)
    have a2 := step3_agree op3 a1 hL a1 mb1 0 (mb - mb1) ((nb + 63) / 64) mb1 0 (mb - mb1) ((mb1 + 63) / 64)
      0 0 mb1 ((nb + 63) / 64) ((nb : Nat) : Int) ((mb1 : Nat) : Int) ((nb : Nat) : Int) (leftMask (nb % 64))
      (leftMask (mb1 % 64)) (leftMask (nb % 64)) (by omega) (by omega) (by omega) (by omega) (by omega) (by omega)
    exact step2_agree op2 a2 hL mb1 (mb1 / 64) (mb - mb1) ((mb - mb1 + 63) / 64) mb1 0 (mb - mb1)
      ((nb + 63) / 64) (((mb - mb1 : Nat)) : Int) ((nb : Nat) : Int) (leftMask ((mb - mb1) % 64))
      (leftMask (nb % 64)) (by omega) (by omega) (by omega) (by omega)

/-- **one step of `_mzd_trsm_lower_left` on memories that are only known on the rows and words of `B`, `L`**
    (the translated function applied to `CLoop.view`s, as `_mzd_ple` does) -/
theorem trsmLowerLeftRec_step_view (fuel : Nat) (cutoff rsB rsL : Int) (L B : Mzd) (hL : L.WF) (hB : B.WF)
    (hLr : L.nrows = B.nrows) (hLc : L.ncols = B.nrows) (hc : 1 ≤ B.ncols)
    (mB mL : Int → Int → BitVec 64) (hmB : AgreeOn B.nrows B.width mB (memOf B))
    (hmL : AgreeOn L.nrows L.width mL (memOf L)) :
    AgreeOn B.nrows B.width
      (Gen.C.trsmLowerLeftRec cutoff mB B.nrows B.ncols mL B.width L.nrows L.ncols L.width L.hb B.hb
        (fun L B _ => liftM2 trsmLowerLeft L B) rsB rsL
        (fun L B _ => liftM2 (Rec.trsmLowerLeftRec 2048 fuel) L B)
        (fun C A B _ => liftM3 (fun C A B => C.add (A.mul B)) C A B))
      (memOf (B.putB (Rec.trsmLowerLeftRec 2048 (fuel + 1) L.toB B.toB))) := by
  rw [← trsmLowerLeftRec_step fuel cutoff rsB rsL L B hL hB hLr hLc hc]
  have hwL : L.width = (B.nrows + 63) / 64 := by unfold Mzd.width widthOf; rw [hLc]
  rw [hLr, hwL] at hmL
  rw [hLr, hLc, hwL]
  exact trsmLowerLeftRec_agree cutoff rsB rsL B.nrows B.ncols mB (memOf B) mL (memOf L) L.hb B.hb hc hmB hmL _ _ _

/-- **the translated `_mzd_trsm_lower_left` called on two windows** (`B` = a window of `A`, `L` = a window of
    `Lm`, which may be `A` itself), result written back into `A` -/
theorem trsmLowerLeftRec_window (fuel : Nat) (cutoff rsB rsL : Int) (A Lm : Mzd) (hA : A.WF)
    (lr lc hr hc ar ac ahr ahc : Nat) (hW : InWin A lr lc hr hc) (hWL : InWin Lm ar ac ahr ahc)
    (hsq1 : ahr - ar = hr - lr) (hsq2 : ahc - ac = hr - lr) (hc1 : 1 ≤ hc - lc) :
    CLoop.unview (memOf A) (lr : Int) ((lc / 64 : Nat) : Int) ((hr - lr : Nat) : Int)
        (((hc - lc + 63) / 64 : Nat) : Int)
        (Gen.C.trsmLowerLeftRec cutoff (CLoop.view (memOf A) (lr : Int) ((lc / 64 : Nat) : Int))
          ((hr - lr : Nat) : Int) ((hc - lc : Nat) : Int)
          (CLoop.view (memOf Lm) (ar : Int) ((ac / 64 : Nat) : Int)) (((hc - lc + 63) / 64 : Nat) : Int)
          ((ahr - ar : Nat) : Int) ((ahc - ac : Nat) : Int) (((ahc - ac + 63) / 64 : Nat) : Int)
          (leftMask ((ahc - ac) % 64)) (leftMask ((hc - lc) % 64))
          (fun L B _ => liftM2 trsmLowerLeft L B) rsB rsL
          (fun L B _ => liftM2 (Rec.trsmLowerLeftRec 2048 fuel) L B)
          (fun C A B _ => liftM3 (fun C A B => C.add (A.mul B)) C A B))
      = memOf (A.putB (A.toB.paste lr lc
          (Rec.trsmLowerLeftRec 2048 (fuel + 1) (Lm.toB.sub ar ac ahr ahc) (A.toB.sub lr lc hr hc)))) := by
  have hBs : Shaped (A.toB.sub lr lc hr hc) (hr - lr) (hc - lc) :=
    (shaped_toB hA).sub lr lc hr hc hW.hr
  have hX := shaped_llRec 2048 (fuel + 1) (L := Lm.toB.sub ar ac ahr ahc) hBs
    (by rw [nrows_sub, Mzd.nrows_toB]; have := hWL.hr; omega)
  apply unview_window_of_agree A hA lr lc hr hc hW.lc hW.hr hW.hc _ hX.nr hX.nc
  have h := trsmLowerLeftRec_step_view fuel cutoff rsB rsL (Lm.window ar ac ahr ahc) (A.window lr lc hr hc)
    (window_WF _ _ _ _ _) (window_WF _ _ _ _ _) (by simp [hsq1]) (by simp [hsq2]) (by simpa using hc1)
    _ _ (view_agree_window A lr lc hr hc) (view_agree_window Lm ar ac ahr ahc)
  simp only [nrows_window, ncols_window, width_window, hb_window] at h
  rw [window_toB A lr lc hr hc hW.lc hW.hr hW.hc, window_toB Lm ar ac ahr ahc hWL.lc hWL.hr hWL.hc] at h
  exact h

/-! ### 8. the translated `_mzd_trsm_upper_right`, `_mzd_trsm_lower_right` applied to views -/

/-- `_mzd_trsm_upper_right` with lifted callees only looks at the rows and words of its two arguments -/
theorem trsmUpperRightRec_agree (cutoff rsB rsU : Int) (mb nb : Nat) (mB mB' mU mU' : Int → Int → BitVec 64)
    (hbU hbB : BitVec 64)
    (hB : AgreeOn mb ((nb + 63) / 64) mB mB') (hU : AgreeOn nb ((nb + 63) / 64) mU mU')
    (op0 op1 op2 : BMat → BMat → BMat) (op3 : BMat → BMat → BMat → BMat) :
    AgreeOn mb ((nb + 63) / 64)
      (Gen.C.trsmUpperRightRec cutoff mB mb nb mU nb nb (((nb + 63) / 64 : Nat) : Int) hbU
        (((nb + 63) / 64 : Nat) : Int) hbB (liftM2 op0) (liftM2 op1) rsB rsU (fun U B _ => liftM2 op2 U B)
        (fun C A B _ => liftM3 op3 C A B))
      (Gen.C.trsmUpperRightRec cutoff mB' mb nb mU' nb nb (((nb + 63) / 64 : Nat) : Int) hbU
        (((nb + 63) / 64 : Nat) : Int) hbB (liftM2 op0) (liftM2 op1) rsB rsU (fun U B _ => liftM2 op2 U B)
        (fun C A B _ => liftM3 op3 C A B)) := by
  unfold Gen.C.trsmUpperRightRec
  dsimp_m
  simp_m [blocksize_eq]
  by_cases h64 : nb ≤ 64
  · have h64' : decide ((nb : Int) ≤ 64) = true := by simp; omega
    rw [if_pos h64', if_pos h64',
      liftM2_congr_nat op0 nb ((nb + 63) / 64) mb ((nb + 63) / 64) _ _ hbU hbU hbB hbB hU hB]
    exact AgreeOn.refl _ _ _
  have h64' : ¬ (decide ((nb : Int) ≤ 64) = true) := by simp; omega
  rw [if_neg h64', if_neg h64']
  by_cases h2048 : nb ≤ 2048
  · have h2048' : decide ((nb : Int) ≤ 2048) = true := by simp; omega
    rw [if_pos h2048', if_pos h2048',
      liftM2_congr_nat op1 nb ((nb + 63) / 64) mb ((nb + 63) / 64) _ _ hbU hbU hbB hbB hU hB]
    exact AgreeOn.refl _ _ _
  · have h2048' : ¬ (decide ((nb : Int) ≤ 2048) = true) := by simp; omega
    rw [if_neg h2048', if_neg h2048']
    have hsp : ((Int.tdiv ((nb : Int) - 1) 64 + 1) >>> (1 : Int).toNat) * 64
        = ((Rec.splitPoint nb : Nat) : Int) := GenTie.pleSplit_eq nb
    rw [hsp]
    have hk := Rec.splitPoint_le nb
    have hk64 := splitPoint_mod nb
    generalize Rec.splitPoint nb = nb1 at *
    rw [mzdInitWindow_in 0 0 mb nb1 mb rsB 0 0 mb nb1 mb rfl rfl rfl rfl rfl (by omega) (by omega) (by omega)
        (by omega),
      mzdInitWindow_in 0 nb1 mb nb mb rsB 0 nb1 mb nb mb rfl rfl rfl rfl rfl hk64 (by omega) (by omega)
        (by omega),
      mzdInitWindow_in 0 0 nb1 nb1 nb rsU 0 0 nb1 nb1 nb rfl rfl rfl rfl rfl (by omega) (by omega)
        (by omega) (by omega),
      mzdInitWindow_in 0 nb1 nb1 nb nb rsU 0 nb1 nb1 nb nb rfl rfl rfl rfl rfl hk64 (by omega)
        (by omega) (by omega),
      mzdInitWindow_in nb1 nb1 nb nb nb rsU nb1 nb1 nb nb nb rfl rfl rfl rfl rfl hk64 (by omega)
        (by omega) (by omega)]
    dsimp_m
    norm_win'
    have a1 := step2_agree op2 hB hU 0 0 nb1 ((nb1 + 63) / 64) 0 0 mb ((nb1 + 63) / 64) ((nb1 : Nat) : Int)
      ((nb1 : Nat) : Int) (leftMask (nb1 % 64)) (leftMask (nb1 % 64)) (by omega) (by omega) (by omega) (by omega)
    have a2 := step3_agree op3 a1 a1 hU 0 (nb1 / 64) mb ((nb - nb1 + 63) / 64) 0 0 mb ((nb1 + 63) / 64)
      0 (nb1 / 64) nb1 ((nb - nb1 + 63) / 64) ((nb - nb1 : Nat) : Int) ((nb1 : Nat) : Int)
      ((nb - nb1 : Nat) : Int) (leftMask ((nb - nb1) % 64)) (leftMask (nb1 % 64)) (leftMask ((nb - nb1) % 64))
      (by omega) (by omega) (by omega) (by omega) (by omega) (by omega)
    exact step2_agree op2 a2 hU nb1 (nb1 / 64) (nb - nb1) ((nb - nb1 + 63) / 64) 0 (nb1 / 64) mb
      ((nb - nb1 + 63) / 64) ((nb - nb1 : Nat) : Int) ((nb - nb1 : Nat) : Int) (leftMask ((nb - nb1) % 64))
      (leftMask ((nb - nb1) % 64)) (by omega) (by omega) (by omega) (by omega)

/-- one step of `_mzd_trsm_upper_right` on memories that are only known on the rows and words of `B`, `U` -/
theorem trsmUpperRightRec_step_view (fuel : Nat) (cutoff rsB rsU : Int) (U B : Mzd) (hU : U.WF) (hB : B.WF)
    (hUr : U.nrows = B.ncols) (hUc : U.ncols = B.ncols)
    (mB mU : Int → Int → BitVec 64) (hmB : AgreeOn B.nrows B.width mB (memOf B))
    (hmU : AgreeOn U.nrows U.width mU (memOf U)) :
    AgreeOn B.nrows B.width
      (Gen.C.trsmUpperRightRec cutoff mB B.nrows B.ncols mU U.nrows U.ncols U.width U.hb B.width B.hb
        (liftM2 trsmUpperRight) (liftM2 fun U B => B.mul (trsmUpperRight U (identity U.nrows))) rsB rsU
        (fun U B _ => liftM2 (Rec.trsmUpperRightRec 64 2048 fuel) U B)
        (fun C A B _ => liftM3 (fun C A B => C.add (A.mul B)) C A B))
      (memOf (B.putB (Rec.trsmUpperRightRec 64 2048 (fuel + 1) U.toB B.toB))) := by
  rw [← trsmUpperRightRec_step fuel cutoff rsB rsU U B hU hB hUr hUc]
  have hwU : U.width = (B.ncols + 63) / 64 := by unfold Mzd.width widthOf; rw [hUc]
  rw [hUr, hwU] at hmU
  rw [hUr, hUc, hwU]
  exact trsmUpperRightRec_agree cutoff rsB rsU B.nrows B.ncols mB (memOf B) mU (memOf U) U.hb B.hb hmB hmU _ _ _ _

/-- the translated `_mzd_trsm_upper_right` called on two windows, result written back into `A` -/
theorem trsmUpperRightRec_window (fuel : Nat) (cutoff rsB rsU : Int) (A Um : Mzd) (hA : A.WF)
    (lr lc hr hc ar ac ahr ahc : Nat) (hW : InWin A lr lc hr hc) (hWU : InWin Um ar ac ahr ahc)
    (hsq1 : ahr - ar = hc - lc) (hsq2 : ahc - ac = hc - lc) :
    CLoop.unview (memOf A) (lr : Int) ((lc / 64 : Nat) : Int) ((hr - lr : Nat) : Int)
        (((hc - lc + 63) / 64 : Nat) : Int)
        (Gen.C.trsmUpperRightRec cutoff (CLoop.view (memOf A) (lr : Int) ((lc / 64 : Nat) : Int))
          ((hr - lr : Nat) : Int) ((hc - lc : Nat) : Int)
          (CLoop.view (memOf Um) (ar : Int) ((ac / 64 : Nat) : Int))
          ((ahr - ar : Nat) : Int) ((ahc - ac : Nat) : Int) (((ahc - ac + 63) / 64 : Nat) : Int)
          (leftMask ((ahc - ac) % 64)) (((hc - lc + 63) / 64 : Nat) : Int) (leftMask ((hc - lc) % 64))
          (liftM2 trsmUpperRight) (liftM2 fun U B => B.mul (trsmUpperRight U (identity U.nrows))) rsB rsU
          (fun U B _ => liftM2 (Rec.trsmUpperRightRec 64 2048 fuel) U B)
          (fun C A B _ => liftM3 (fun C A B => C.add (A.mul B)) C A B))
      = memOf (A.putB (A.toB.paste lr lc
          (Rec.trsmUpperRightRec 64 2048 (fuel + 1) (Um.toB.sub ar ac ahr ahc) (A.toB.sub lr lc hr hc)))) := by
  have hBs : Shaped (A.toB.sub lr lc hr hc) (hr - lr) (hc - lc) :=
    (shaped_toB hA).sub lr lc hr hc hW.hr
  have hX := shaped_urRec 64 2048 (fuel + 1) (U := Um.toB.sub ar ac ahr ahc) hBs
    (by rw [nrows_sub, Mzd.nrows_toB]; have := hWU.hr; omega)
  apply unview_window_of_agree A hA lr lc hr hc hW.lc hW.hr hW.hc _ hX.nr hX.nc
  have h := trsmUpperRightRec_step_view fuel cutoff rsB rsU (Um.window ar ac ahr ahc) (A.window lr lc hr hc)
    (window_WF _ _ _ _ _) (window_WF _ _ _ _ _) (by simp [hsq1]) (by simp [hsq2])
    _ _ (view_agree_window A lr lc hr hc) (view_agree_window Um ar ac ahr ahc)
  simp only [nrows_window, ncols_window, width_window, hb_window] at h
  rw [window_toB A lr lc hr hc hW.lc hW.hr hW.hc, window_toB Um ar ac ahr ahc hWU.lc hWU.hr hWU.hc] at h
  exact h

/-- `_mzd_trsm_lower_right` with lifted callees only looks at the rows and words of its two arguments -/
theorem trsmLowerRightRec_agree (cutoff rsB rsL : Int) (mb nb : Nat) (mB mB' mL mL' : Int → Int → BitVec 64)
    (hbL hbB : BitVec 64)
    (hB : AgreeOn mb ((nb + 63) / 64) mB mB') (hL : AgreeOn nb ((nb + 63) / 64) mL mL')
    (op0 op2 : BMat → BMat → BMat) (op3 : BMat → BMat → BMat → BMat) :
    AgreeOn mb ((nb + 63) / 64)
      (Gen.C.trsmLowerRightRec cutoff mB mb nb mL nb nb (((nb + 63) / 64 : Nat) : Int) hbL
        (((nb + 63) / 64 : Nat) : Int) hbB (liftM2 op0) rsB rsL (fun L B _ => liftM2 op2 L B)
        (fun C A B _ => liftM3 op3 C A B))
      (Gen.C.trsmLowerRightRec cutoff mB' mb nb mL' nb nb (((nb + 63) / 64 : Nat) : Int) hbL
        (((nb + 63) / 64 : Nat) : Int) hbB (liftM2 op0) rsB rsL (fun L B _ => liftM2 op2 L B)
        (fun C A B _ => liftM3 op3 C A B)) := by
  unfold Gen.C.trsmLowerRightRec
  dsimp_m
  by_cases h64 : nb ≤ 64
  · have h64' : decide ((nb : Int) ≤ 64) = true := by simp; omega
    rw [if_pos h64', if_pos h64',
      liftM2_congr_nat op0 nb ((nb + 63) / 64) mb ((nb + 63) / 64) _ _ hbL hbL hbB hbB hL hB]
    exact AgreeOn.refl _ _ _
  have h64' : ¬ (decide ((nb : Int) ≤ 64) = true) := by simp; omega
  rw [if_neg h64', if_neg h64']
  have hsp : ((Int.tdiv ((nb : Int) - 1) 64 + 1) >>> (1 : Int).toNat) * 64
      = ((Rec.splitPoint nb : Nat) : Int) := GenTie.pleSplit_eq nb
  rw [hsp]
  have hk := Rec.splitPoint_le nb
  have hk64 := splitPoint_mod nb
  generalize Rec.splitPoint nb = nb1 at *
  rw [mzdInitWindow_in 0 0 mb nb1 mb rsB 0 0 mb nb1 mb rfl rfl rfl rfl rfl (by omega) (by omega) (by omega)
      (by omega),
    mzdInitWindow_in 0 nb1 mb nb mb rsB 0 nb1 mb nb mb rfl rfl rfl rfl rfl hk64 (by omega) (by omega)
      (by omega),
    mzdInitWindow_in 0 0 nb1 nb1 nb rsL 0 0 nb1 nb1 nb rfl rfl rfl rfl rfl (by omega) (by omega)
      (by omega) (by omega),
    mzdInitWindow_in nb1 0 nb nb1 nb rsL nb1 0 nb nb1 nb rfl rfl rfl rfl rfl (by omega) (by omega)
      (by omega) (by omega),
    mzdInitWindow_in nb1 nb1 nb nb nb rsL nb1 nb1 nb nb nb rfl rfl rfl rfl rfl hk64 (by omega)
      (by omega) (by omega)]
  dsimp_m
  norm_win'
  have a1 := step2_agree op2 hB hL nb1 (nb1 / 64) (nb - nb1) ((nb - nb1 + 63) / 64) 0 (nb1 / 64) mb
    ((nb - nb1 + 63) / 64) ((nb - nb1 : Nat) : Int) ((nb - nb1 : Nat) : Int) (leftMask ((nb - nb1) % 64))
    (leftMask ((nb - nb1) % 64)) (by omega) (by omega) (by omega) (by omega)
  have a2 := step3_agree op3 a1 a1 hL 0 0 mb ((nb1 + 63) / 64) 0 (nb1 / 64) mb ((nb - nb1 + 63) / 64)
    nb1 0 (nb - nb1) ((nb1 + 63) / 64) ((nb1 : Nat) : Int) ((nb - nb1 : Nat) : Int)
    ((nb1 : Nat) : Int) (leftMask (nb1 % 64)) (leftMask ((nb - nb1) % 64)) (leftMask (nb1 % 64))
    (by omega) (by omega) (by omega) (by omega) (by omega) (by omega)
  exact step2_agree op2 a2 hL 0 0 nb1 ((nb1 + 63) / 64) 0 0 mb ((nb1 + 63) / 64) ((nb1 : Nat) : Int)
    ((nb1 : Nat) : Int) (leftMask (nb1 % 64)) (leftMask (nb1 % 64)) (by omega) (by omega) (by omega) (by omega)

/-- one step of `_mzd_trsm_lower_right` on memories that are only known on the rows and words of `B`, `L` -/
theorem trsmLowerRightRec_step_view (fuel : Nat) (cutoff rsB rsL : Int) (L B : Mzd) (hL : L.WF) (hB : B.WF)
    (hLr : L.nrows = B.ncols) (hLc : L.ncols = B.ncols)
    (mB mL : Int → Int → BitVec 64) (hmB : AgreeOn B.nrows B.width mB (memOf B))
    (hmL : AgreeOn L.nrows L.width mL (memOf L)) :
    AgreeOn B.nrows B.width
      (Gen.C.trsmLowerRightRec cutoff mB B.nrows B.ncols mL L.nrows L.ncols L.width L.hb B.width B.hb
        (liftM2 trsmLowerRight) rsB rsL
        (fun L B _ => liftM2 (Rec.trsmLowerRightRec 64 fuel) L B)
        (fun C A B _ => liftM3 (fun C A B => C.add (A.mul B)) C A B))
      (memOf (B.putB (Rec.trsmLowerRightRec 64 (fuel + 1) L.toB B.toB))) := by
  rw [← trsmLowerRightRec_step fuel cutoff rsB rsL L B hL hB hLr hLc]
  have hwL : L.width = (B.ncols + 63) / 64 := by unfold Mzd.width widthOf; rw [hLc]
  rw [hLr, hwL] at hmL
  rw [hLr, hLc, hwL]
  exact trsmLowerRightRec_agree cutoff rsB rsL B.nrows B.ncols mB (memOf B) mL (memOf L) L.hb B.hb hmB hmL _ _ _

/-- the translated `_mzd_trsm_lower_right` called on two windows, result written back into `A` -/
theorem trsmLowerRightRec_window (fuel : Nat) (cutoff rsB rsL : Int) (A Lm : Mzd) (hA : A.WF)
    (lr lc hr hc ar ac ahr ahc : Nat) (hW : InWin A lr lc hr hc) (hWL : InWin Lm ar ac ahr ahc)
    (hsq1 : ahr - ar = hc - lc) (hsq2 : ahc - ac = hc - lc) :
    CLoop.unview (memOf A) (lr : Int) ((lc / 64 : Nat) : Int) ((hr - lr : Nat) : Int)
        (((hc - lc + 63) / 64 : Nat) : Int)
        (Gen.C.trsmLowerRightRec cutoff (CLoop.view (memOf A) (lr : Int) ((lc / 64 : Nat) : Int))
          ((hr - lr : Nat) : Int) ((hc - lc : Nat) : Int)
          (CLoop.view (memOf Lm) (ar : Int) ((ac / 64 : Nat) : Int))
          ((ahr - ar : Nat) : Int) ((ahc - ac : Nat) : Int) (((ahc - ac + 63) / 64 : Nat) : Int)
          (leftMask ((ahc - ac) % 64)) (((hc - lc + 63) / 64 : Nat) : Int) (leftMask ((hc - lc) % 64))
          (liftM2 trsmLowerRight) rsB rsL
          (fun L B _ => liftM2 (Rec.trsmLowerRightRec 64 fuel) L B)
          (fun C A B _ => liftM3 (fun C A B => C.add (A.mul B)) C A B))
      = memOf (A.putB (A.toB.paste lr lc
          (Rec.trsmLowerRightRec 64 (fuel + 1) (Lm.toB.sub ar ac ahr ahc) (A.toB.sub lr lc hr hc)))) := by
  have hBs : Shaped (A.toB.sub lr lc hr hc) (hr - lr) (hc - lc) :=
    (shaped_toB hA).sub lr lc hr hc hW.hr
  have hX := shaped_lrRec 64 (fuel + 1) (L := Lm.toB.sub ar ac ahr ahc) hBs
    (by rw [nrows_sub, Mzd.nrows_toB]; have := hWL.hr; omega)
  apply unview_window_of_agree A hA lr lc hr hc hW.lc hW.hr hW.hc _ hX.nr hX.nc
  have h := trsmLowerRightRec_step_view fuel cutoff rsB rsL (Lm.window ar ac ahr ahc) (A.window lr lc hr hc)
    (window_WF _ _ _ _ _) (window_WF _ _ _ _ _) (by simp [hsq1]) (by simp [hsq2])
    _ _ (view_agree_window A lr lc hr hc) (view_agree_window Lm ar ac ahr ahc)
  simp only [nrows_window, ncols_window, width_window, hb_window] at h
  rw [window_toB A lr lc hr hc hW.lc hW.hr hW.hc, window_toB Lm ar ac ahr ahc hWL.lc hWL.hr hWL.hc] at h
  exact h

/-! ### 9. the translated `_mzd_trsm_upper_left` applied to views -/

/-- the inline `mb ≤ 64` kernel of `_mzd_trsm_upper_left` only looks at the rows and words of its arguments -/
theorem trsmUpperLeftRec_agree_base (cutoff rsB rsU : Int) (mb nb : Nat) (mB mB' mU mU' : Int → Int → BitVec 64)
    (hbU hbB : BitVec 64) (h64 : mb ≤ 64) (hc : 1 ≤ nb)
    (hB : AgreeOn mb ((nb + 63) / 64) mB mB') (hU : AgreeOn mb ((mb + 63) / 64) mU mU')
    (fruss frec : CLoop.MView → CLoop.MView → Int → (Int → Int → BitVec 64))
    (fadd : CLoop.MView → CLoop.MView → CLoop.MView → Int → (Int → Int → BitVec 64)) :
    AgreeOn mb ((nb + 63) / 64)
      (Gen.C.trsmUpperLeftRec cutoff mB mb nb hbB mU (((nb + 63) / 64 : Nat) : Int) mb mb
        (((mb + 63) / 64 : Nat) : Int) hbU fruss rsB rsU frec fadd)
      (Gen.C.trsmUpperLeftRec cutoff mB' mb nb hbB mU' (((nb + 63) / 64 : Nat) : Int) mb mb
        (((mb + 63) / 64 : Nat) : Int) hbU fruss rsB rsU frec fadd) := by
  unfold Gen.C.trsmUpperLeftRec
  dsimp_m
  rw [if_pos (by simpa using (show (mb : Int) ≤ 64 by omega)), if_pos (by simpa using (show (mb : Int) ≤ 64 by omega))]
  generalize hw : (nb + 63) / 64 = w at *
  have hw1 : 1 ≤ w := by omega
  have hmU : ∀ i : Int, 0 ≤ i → i < mb → mU i (0 + 0) = mU' i (0 + 0) := by
    intro i h0 h1
    exact AgreeOn.at hU i (0 + 0) h0 h1 (by omega) (by omega)
  generalize hres : CLoop.loop _ _ _ (mB, (mb : Int) - 2) = res
  generalize hres' : CLoop.loop _ _ _ (mB', (mb : Int) - 2) = res'
  have key : AgreeOn mb w res.1 res'.1 ∧ res.2 = res'.2 ∧ res.2 < mb := by
    rw [← hres, ← hres']
    refine loop_sim (fun (s s' : (Int → Int → BitVec 64) × Int) => AgreeOn mb w s.1 s'.1 ∧ s.2 = s'.2 ∧ s.2 < mb)
      ?_ ?_ _ _ _ ⟨hB, rfl, by dsimp only; omega⟩
    · rintro ⟨m, i⟩ ⟨m', i'⟩ ⟨ha, hi, hi0⟩
      dsimp_m at hi ⊢
      subst hi
      rfl
    · rintro ⟨m, i⟩ ⟨m', i'⟩ ⟨ha, hi, hi1⟩ hcnd
      dsimp_m at ha hi hi1 hcnd ⊢
      subst hi
      have hi0 : 0 ≤ i := by simpa using hcnd
      generalize hres2 : CLoop.loop _ _ _ (m, i + 1) = res2
      generalize hres2' : CLoop.loop _ _ _ (m', i + 1) = res2'
      have key2 : AgreeOn mb w res2.1 res2'.1 ∧ res2.2 = res2'.2 ∧ 0 ≤ res2.2 := by
        rw [← hres2, ← hres2']
        refine loop_sim (fun (s s' : (Int → Int → BitVec 64) × Int) => AgreeOn mb w s.1 s'.1 ∧ s.2 = s'.2 ∧ 0 ≤ s.2)
          ?_ ?_ _ _ _ ⟨ha, rfl, by dsimp only; omega⟩
        · rintro ⟨m2, k⟩ ⟨m2', k'⟩ ⟨ha2, hk, hk0⟩
          dsimp_m at hk ⊢
          subst hk
          rfl
        · rintro ⟨m2, k⟩ ⟨m2', k'⟩ ⟨ha2, hk, hk0⟩ hcnd2
          dsimp_m at ha2 hk hk0 hcnd2 ⊢
          subst hk
          have hk1 : k < mb := by simpa using hcnd2
          rw [hmU i hi0 hi1]
          refine ⟨?_, rfl, by omega⟩
          split
          · generalize hres3 : CLoop.loop _ _ _ (m2, (0 : Int)) = res3
            generalize hres3' : CLoop.loop _ _ _ (m2', (0 : Int)) = res3'
            have key3 : AgreeOn mb w res3.1 res3'.1 ∧ res3.2 = res3'.2 ∧ 0 ≤ res3.2 := by
              rw [← hres3, ← hres3']
              refine loop_sim
                (fun (s s' : (Int → Int → BitVec 64) × Int) => AgreeOn mb w s.1 s'.1 ∧ s.2 = s'.2 ∧ 0 ≤ s.2)
                ?_ ?_ _ _ _ ⟨ha2, rfl, by omega⟩
              · rintro ⟨m3, j⟩ ⟨m3', j'⟩ ⟨ha3, hj, hj0⟩
                dsimp_m at hj ⊢
                subst hj
                rfl
              · rintro ⟨m3, j⟩ ⟨m3', j'⟩ ⟨ha3, hj, hj0⟩ hcnd3
                dsimp_m at ha3 hj hj0 hcnd3 ⊢
                subst hj
                have hj1 : j < (w : Int) - 1 := by simpa using hcnd3
                refine ⟨?_, rfl, by omega⟩
                apply AgreeOn.upd2 ha3
                rw [AgreeOn.at ha3 i (0 + j) hi0 hi1 (by omega) (by omega),
                  AgreeOn.at ha3 k (0 + j) hk0 (by omega) (by omega) (by omega)]
            obtain ⟨m3, j⟩ := res3
            obtain ⟨m3', j'⟩ := res3'
            obtain ⟨ha3, -, -⟩ := key3
            dsimp_m at ha3 ⊢
            apply AgreeOn.upd2 ha3
            rw [AgreeOn.at ha3 i (0 + ((w : Int) - 1)) hi0 hi1 (by omega) (by omega),
              AgreeOn.at ha3 k (0 + ((w : Int) - 1)) hk0 (by omega) (by omega) (by omega)]
          · exact ha2
      obtain ⟨m2, k⟩ := res2
      obtain ⟨m2', k'⟩ := res2'
      obtain ⟨ha2, -, -⟩ := key2
      dsimp_m at ha2 ⊢
      exact ⟨ha2, rfl, by omega⟩
  obtain ⟨m, i⟩ := res
  obtain ⟨m', i'⟩ := res'
  exact key.1

/-- `_mzd_trsm_upper_left` with lifted callees only looks at the rows and words of its two arguments -/
theorem trsmUpperLeftRec_agree (cutoff rsB rsU : Int) (mb nb : Nat) (mB mB' mU mU' : Int → Int → BitVec 64)
    (hbU hbB : BitVec 64) (hc : 1 ≤ nb)
    (hB : AgreeOn mb ((nb + 63) / 64) mB mB') (hU : AgreeOn mb ((mb + 63) / 64) mU mU')
    (op1 op2 : BMat → BMat → BMat) (op3 : BMat → BMat → BMat → BMat) :
    AgreeOn mb ((nb + 63) / 64)
      (Gen.C.trsmUpperLeftRec cutoff mB mb nb hbB mU (((nb + 63) / 64 : Nat) : Int) mb mb
        (((mb + 63) / 64 : Nat) : Int) hbU (fun U B _ => liftM2 op1 U B) rsB rsU (fun U B _ => liftM2 op2 U B)
        (fun C A B _ => liftM3 op3 C A B))
      (Gen.C.trsmUpperLeftRec cutoff mB' mb nb hbB mU' (((nb + 63) / 64 : Nat) : Int) mb mb
        (((mb + 63) / 64 : Nat) : Int) hbU (fun U B _ => liftM2 op1 U B) rsB rsU (fun U B _ => liftM2 op2 U B)
        (fun C A B _ => liftM3 op3 C A B)) := by
  by_cases h64 : mb ≤ 64
  · exact trsmUpperLeftRec_agree_base cutoff rsB rsU mb nb mB mB' mU mU' hbU hbB h64 hc hB hU _ _ _
  unfold Gen.C.trsmUpperLeftRec
  dsimp_m
  simp_m [blocksize_eq]
  have h64' : ¬ (decide ((mb : Int) ≤ 64) = true) := by simp; omega
  rw [if_neg h64', if_neg h64']
  by_cases h2048 : mb ≤ 2048
  · have h2048' : decide ((mb : Int) ≤ 2048) = true := by simp; omega
    rw [if_pos h2048', if_pos h2048',
      liftM2_congr_nat op1 mb ((mb + 63) / 64) mb ((nb + 63) / 64) _ _ hbU hbU hbB hbB hU hB]
    exact AgreeOn.refl _ _ _
  · have h2048' : ¬ (decide ((mb : Int) ≤ 2048) = true) := by simp; omega
    rw [if_neg h2048', if_neg h2048']
    have hsp : ((Int.tdiv ((mb : Int) - 1) 64 + 1) >>> (1 : Int).toNat) * 64
        = ((Rec.splitPoint mb : Nat) : Int) := GenTie.pleSplit_eq mb
    rw [hsp]
    have hk := Rec.splitPoint_le mb
    have hk64 := splitPoint_mod mb
    generalize Rec.splitPoint mb = mb1 at *
    rw [mzdInitWindow_in 0 0 mb1 nb mb rsB 0 0 mb1 nb mb rfl rfl rfl rfl rfl (by omega) (by omega) (by omega)
        (by omega),
      mzdInitWindow_in mb1 0 mb nb mb rsB mb1 0 mb nb mb rfl rfl rfl rfl rfl (by omega) (by omega) (by omega)
        (by omega),
      mzdInitWindow_in 0 0 mb1 mb1 mb rsU 0 0 mb1 mb1 mb rfl rfl rfl rfl rfl (by omega) (by omega)
        (by omega) (by omega),
      mzdInitWindow_in 0 mb1 mb1 mb mb rsU 0 mb1 mb1 mb mb rfl rfl rfl rfl rfl hk64 (by omega)
        (by omega) (by omega),
      mzdInitWindow_in mb1 mb1 mb mb mb rsU mb1 mb1 mb mb mb rfl rfl rfl rfl rfl hk64 (by omega)
        (by omega) (by omega)]
    dsimp_m
    norm_win'
    have a1 := step2_agree op2 hB hU mb1 (mb1 / 64) (mb - mb1) ((mb - mb1 + 63) / 64) mb1 0 (mb - mb1)
      ((nb + 63) / 64) (((mb - mb1 : Nat)) : Int) ((nb : Nat) : Int) (leftMask ((mb - mb1) % 64))
      (leftMask (nb % 64)) (by omega) (by omega) (by omega) (by omega)
    have a2 := step3_agree op3 a1 hU a1 0 0 mb1 ((nb + 63) / 64) 0 (mb1 / 64) mb1 ((mb - mb1 + 63) / 64)
      mb1 0 (mb - mb1) ((nb + 63) / 64) ((nb : Nat) : Int) ((mb - mb1 : Nat) : Int) ((nb : Nat) : Int)
      (leftMask (nb % 64)) (leftMask ((mb - mb1) % 64)) (leftMask (nb % 64)) (by omega) (by omega) (by omega)
      (by omega) (by omega) (by omega)
    exact step2_agree op2 a2 hU 0 0 mb1 ((mb1 + 63) / 64) 0 0 mb1 ((nb + 63) / 64) ((mb1 : Nat) : Int)
      ((nb : Nat) : Int) (leftMask (mb1 % 64)) (leftMask (nb % 64)) (by omega) (by omega) (by omega) (by omega)

/-- one step of `_mzd_trsm_upper_left` on memories that are only known on the rows and words of `B`, `U` -/
theorem trsmUpperLeftRec_step_view (fuel : Nat) (cutoff rsB rsU : Int) (U B : Mzd) (hU : U.WF) (hB : B.WF)
    (hUr : U.nrows = B.nrows) (hUc : U.ncols = B.nrows) (hc : 1 ≤ B.ncols)
    (mB mU : Int → Int → BitVec 64) (hmB : AgreeOn B.nrows B.width mB (memOf B))
    (hmU : AgreeOn U.nrows U.width mU (memOf U)) :
    AgreeOn B.nrows B.width
      (Gen.C.trsmUpperLeftRec cutoff mB B.nrows B.ncols B.hb mU B.width U.nrows U.ncols U.width U.hb
        (fun U B _ => liftM2 trsmUpperLeft U B) rsB rsU
        (fun U B _ => liftM2 (Rec.trsmUpperLeftRec 2048 fuel) U B)
        (fun C A B _ => liftM3 (fun C A B => C.add (A.mul B)) C A B))
      (memOf (B.putB (Rec.trsmUpperLeftRec 2048 (fuel + 1) U.toB B.toB))) := by
  rw [← trsmUpperLeftRec_step fuel cutoff rsB rsU U B hU hB hUr hUc hc]
  have hwU : U.width = (B.nrows + 63) / 64 := by unfold Mzd.width widthOf; rw [hUc]
  rw [hUr, hwU] at hmU
  rw [hUr, hUc, hwU]
  exact trsmUpperLeftRec_agree cutoff rsB rsU B.nrows B.ncols mB (memOf B) mU (memOf U) U.hb B.hb hc hmB hmU _ _ _

/-- the translated `_mzd_trsm_upper_left` called on two windows, result written back into `A` -/
theorem trsmUpperLeftRec_window (fuel : Nat) (cutoff rsB rsU : Int) (A Um : Mzd) (hA : A.WF)
    (lr lc hr hc ar ac ahr ahc : Nat) (hW : InWin A lr lc hr hc) (hWU : InWin Um ar ac ahr ahc)
    (hsq1 : ahr - ar = hr - lr) (hsq2 : ahc - ac = hr - lr) (hc1 : 1 ≤ hc - lc) :
    CLoop.unview (memOf A) (lr : Int) ((lc / 64 : Nat) : Int) ((hr - lr : Nat) : Int)
        (((hc - lc + 63) / 64 : Nat) : Int)
        (Gen.C.trsmUpperLeftRec cutoff (CLoop.view (memOf A) (lr : Int) ((lc / 64 : Nat) : Int))
          ((hr - lr : Nat) : Int) ((hc - lc : Nat) : Int) (leftMask ((hc - lc) % 64))
          (CLoop.view (memOf Um) (ar : Int) ((ac / 64 : Nat) : Int)) (((hc - lc + 63) / 64 : Nat) : Int)
          ((ahr - ar : Nat) : Int) ((ahc - ac : Nat) : Int) (((ahc - ac + 63) / 64 : Nat) : Int)
          (leftMask ((ahc - ac) % 64))
          (fun U B _ => liftM2 trsmUpperLeft U B) rsB rsU
          (fun U B _ => liftM2 (Rec.trsmUpperLeftRec 2048 fuel) U B)
          (fun C A B _ => liftM3 (fun C A B => C.add (A.mul B)) C A B))
      = memOf (A.putB (A.toB.paste lr lc
          (Rec.trsmUpperLeftRec 2048 (fuel + 1) (Um.toB.sub ar ac ahr ahc) (A.toB.sub lr lc hr hc)))) := by
  have hBs : Shaped (A.toB.sub lr lc hr hc) (hr - lr) (hc - lc) :=
    (shaped_toB hA).sub lr lc hr hc hW.hr
  have hX := shaped_ulRec 2048 (fuel + 1) (U := Um.toB.sub ar ac ahr ahc) hBs
    (by rw [nrows_sub, Mzd.nrows_toB]; have := hWU.hr; omega)
  apply unview_window_of_agree A hA lr lc hr hc hW.lc hW.hr hW.hc _ hX.nr hX.nc
  have h := trsmUpperLeftRec_step_view fuel cutoff rsB rsU (Um.window ar ac ahr ahc) (A.window lr lc hr hc)
    (window_WF _ _ _ _ _) (window_WF _ _ _ _ _) (by simp [hsq1]) (by simp [hsq2]) (by simpa using hc1)
    _ _ (view_agree_window A lr lc hr hc) (view_agree_window Um ar ac ahr ahc)
  simp only [nrows_window, ncols_window, width_window, hb_window] at h
  rw [window_toB A lr lc hr hc hW.lc hW.hr hW.hc, window_toB Um ar ac ahr ahc hWU.lc hWU.hr hWU.hc] at h
  exact h

end M4ri.GenTieRec

#print axioms M4ri.GenTieRec.blocksize_eq
#print axioms M4ri.GenTieRec.trsmUpperRightRec_step
#print axioms M4ri.GenTieRec.trsmLowerRightRec_step
#print axioms M4ri.GenTieRec.trsmLowerLeftRec_step
#print axioms M4ri.GenTieRec.trsmUpperLeftRec_step
#print axioms M4ri.GenTieRec.trsmLowerLeftRec_step_rec
#print axioms M4ri.GenTieRec.trsmUpperLeftRec_step_rec
#print axioms M4ri.GenTieRec.trsmLowerLeftRec_step_base
#print axioms M4ri.GenTieRec.trsmUpperLeftRec_step_base
#print axioms M4ri.GenTieRec.trsmLowerLeftRec_window
#print axioms M4ri.GenTieRec.trsmUpperLeftRec_window
#print axioms M4ri.GenTieRec.trsmUpperRightRec_window
#print axioms M4ri.GenTieRec.trsmLowerRightRec_window
