/-
  GenTieClose: CLOSING THE RECURSION of the generated block recursions of triangular.c.

  `GenTieRec` proves one-step ties: the generated `_mzd_trsm_*` with its recursive-call PARAMETER bound to the
  model's recursion at `fuel` is the model's recursion at `fuel + 1`.  Here the parameter is bound to THE GENERATED
  FUNCTION ITSELF, one level down (`cTrsmUR`, `cTrsmLR`, `cTrsmLL`, `cTrsmUL`: the C recursion unrolled `n`
  levels, any correct solver below), and it is shown by induction on `n` that for EVERY depth `n` the result is
  the substitution form through the lens.

  §0  raw records as matrices (`rawM`), equality forms of the window call rules (`step2_callee`, `step3_eq`)
  §1  upper-right: `trsmUpperRightRec_callee_congr` (the generated function depends on its recursive-call parameter
      only through the values on the window views it is applied to), `cTrsmUR_raw` (induction), `cTrsmUR_view`,
      `cTrsmUR_view_subst`, `cTrsmUR_correct`
  §2  lower-right   §3  lower-left   §4  upper-left  (same plan; the left variants have three regimes, the
      Four-Russians parameter is the substitution form, `1 ≤ B.ncols` is the C-domain condition of the inline kernel)
  §5  `cTrsm*_window`: the unrolled recursions called on windows of parents and written back
  Core Lean tactics only.
-/
import M4riProofs.GenTieRec
set_option linter.unusedVariables false
namespace M4ri.GenTieClose
open M4ri M4ri.Gen M4ri.GenTieMem M4ri.GenTieView M4ri.BMat M4ri.GenTieAlg M4ri.GenTieRec

/-- a word memory -/
abbrev Mem := Int → Int → BitVec 64

/-! ### 0. raw records, equality forms of the call rules -/

/-- the matrix that a record with the canonical header of an `nr × nc` matrix shows of an arbitrary memory -/
def rawM (m : Mem) (nr nc : Nat) : Mzd :=
  Mzd.ofView ⟨m, (nr : Int), (nc : Int), (((nc + 63) / 64 : Nat) : Int), leftMask (nc % 64)⟩

@[simp] theorem nrows_rawM (m : Mem) (nr nc : Nat) : (rawM m nr nc).nrows = nr := toNat_cast _
@[simp] theorem ncols_rawM (m : Mem) (nr nc : Nat) : (rawM m nr nc).ncols = nc := toNat_cast _
@[simp] theorem width_rawM (m : Mem) (nr nc : Nat) : (rawM m nr nc).width = (nc + 63) / 64 := by
  show widthOf (rawM m nr nc).ncols = _
  rw [ncols_rawM]; rfl
@[simp] theorem hb_rawM (m : Mem) (nr nc : Nat) : (rawM m nr nc).hb = leftMask (nc % 64) := by
  show leftMask ((rawM m nr nc).ncols % 64) = _
  rw [ncols_rawM]

theorem rawM_WF (m : Mem) (nr nc : Nat) : (rawM m nr nc).WF := by
  apply WF_ofView
  show ((((nc + 63) / 64 : Nat) : Int)).toNat = widthOf (((nc : Nat) : Int)).toNat
  rw [toNat_cast, toNat_cast]; rfl

/-- a memory coincides with the memory of the matrix it shows, on the rows and words of the record -/
theorem agree_rawM (m : Mem) (nr nc : Nat) : AgreeOn nr ((nc + 63) / 64) m (memOf (rawM m nr nc)) := by
  intro i k hi hk
  rw [memOf_nat]
  unfold rawM
  rw [w_ofView _ i k (by show i < (((nr : Nat) : Int)).toNat; rw [toNat_cast]; exact hi)
    (by show k < ((((nc + 63) / 64 : Nat) : Int)).toNat; rw [toNat_cast]; exact hk)]

/-- a lifted callee on raw records, by definition -/
theorem liftM2_raw (op : BMat → BMat → BMat) (mA mB : Mem) (ar ac br bc : Nat) :
    liftM2 op ⟨mA, (ar : Int), (ac : Int), (((ac + 63) / 64 : Nat) : Int), leftMask (ac % 64)⟩
        ⟨mB, (br : Int), (bc : Int), (((bc + 63) / 64 : Nat) : Int), leftMask (bc % 64)⟩
      = memOf ((rawM mB br bc).putB (op (rawM mA ar ac).toB (rawM mB br bc).toB)) := rfl

/-- a two-operand call through windows: two callees that agree on the rows and words of the written window (for
    these very arguments) leave the same parent memory -/
theorem step2_callee {f g : CLoop.MView → CLoop.MView → Int → Mem} {m m' : Mem} (hm : m = m') (a : Mem)
    (ar aw : Int) (anr anw : Int) (lr lw : Int) (nr nw : Nat) (anc nc : Int) (ah bh : BitVec 64) (c : Int)
    (H : AgreeOn nr nw
      (f ⟨CLoop.view a ar aw, anr, anc, anw, ah⟩ ⟨CLoop.view m' lr lw, (nr : Int), nc, (nw : Int), bh⟩ c)
      (g ⟨CLoop.view a ar aw, anr, anc, anw, ah⟩ ⟨CLoop.view m' lr lw, (nr : Int), nc, (nw : Int), bh⟩ c)) :
    CLoop.unview m lr lw (nr : Int) (nw : Int)
        (f ⟨CLoop.view a ar aw, anr, anc, anw, ah⟩ ⟨CLoop.view m lr lw, (nr : Int), nc, (nw : Int), bh⟩ c)
      = CLoop.unview m' lr lw (nr : Int) (nw : Int)
        (g ⟨CLoop.view a ar aw, anr, anc, anw, ah⟩ ⟨CLoop.view m' lr lw, (nr : Int), nc, (nw : Int), bh⟩ c) := by
  subst hm
  exact unview_congr _ _ _ _ _ H

/-- a three-operand call through windows on equal memories -/
theorem step3_eq (fadd : CLoop.MView → CLoop.MView → CLoop.MView → Int → Mem) {m m' a a' b b' : Mem}
    (hm : m = m') (ha : a = a') (hb : b = b') (lr lw nr nw ar aw anr anw br bw bnr bnw : Int) (nc anc bnc : Int)
    (ch ah bh : BitVec 64) (c : Int) :
    CLoop.unview m lr lw nr nw
        (fadd ⟨CLoop.view m lr lw, nr, nc, nw, ch⟩ ⟨CLoop.view a ar aw, anr, anc, anw, ah⟩
          ⟨CLoop.view b br bw, bnr, bnc, bnw, bh⟩ c)
      = CLoop.unview m' lr lw nr nw
        (fadd ⟨CLoop.view m' lr lw, nr, nc, nw, ch⟩ ⟨CLoop.view a' ar aw, anr, anc, anw, ah⟩
          ⟨CLoop.view b' br bw, bnr, bnc, bnw, bh⟩ c) := by
  subst hm ha hb
  rfl

theorem splitPoint_pos (n : Nat) (h : 64 < n) : 0 < Rec.splitPoint n := by
  unfold Rec.splitPoint
  rw [Nat.shiftRight_eq_div_pow]
  omega

/-! ### 1. `_mzd_trsm_upper_right` -/

/-- **the C recursion `_mzd_trsm_upper_right` unrolled `n` levels**: the generated function with its recursive-call
    parameter bound to itself one level down; at depth 0 any correct solver (the model's substitution form) -/
def cTrsmUR (base trtri : CLoop.MView → CLoop.MView → Mem)
    (addmul : CLoop.MView → CLoop.MView → CLoop.MView → Int → Mem) (rsB rsU : Int) :
    Nat → CLoop.MView → CLoop.MView → Int → Mem
  | 0 => fun U B _ => liftM2 (Rec.trsmUpperRightRec 64 2048 0) U B
  | n + 1 => fun U B c =>
      Gen.C.trsmUpperRightRec c B.mem B.nrows B.ncols U.mem U.nrows U.ncols U.width U.hb B.width B.hb
        base trtri rsB rsU (cTrsmUR base trtri addmul rsB rsU n) addmul

/-- **callee congruence**: the generated `_mzd_trsm_upper_right` depends on its recursive-call parameter only
    through the values it takes (on the rows and words of the written operand) on records of STRICTLY SMALLER
    conforming operands (`k × k` triangular, `mb × k` right-hand side, `0 < k < nb`).  Equality of the results. -/
theorem trsmUpperRightRec_callee_congr (cutoff rsB rsU : Int) (mb nb : Nat) (mB mU : Mem) (hbU hbB : BitVec 64)
    (base trtri : CLoop.MView → CLoop.MView → Mem) (f g : CLoop.MView → CLoop.MView → Int → Mem)
    (addmul : CLoop.MView → CLoop.MView → CLoop.MView → Int → Mem)
    (H : ∀ (k : Nat) (mU' mB' : Mem), 0 < k → k < nb → AgreeOn mb ((k + 63) / 64)
      (f ⟨mU', (k : Int), (k : Int), (((k + 63) / 64 : Nat) : Int), leftMask (k % 64)⟩
        ⟨mB', (mb : Int), (k : Int), (((k + 63) / 64 : Nat) : Int), leftMask (k % 64)⟩ cutoff)
      (g ⟨mU', (k : Int), (k : Int), (((k + 63) / 64 : Nat) : Int), leftMask (k % 64)⟩
        ⟨mB', (mb : Int), (k : Int), (((k + 63) / 64 : Nat) : Int), leftMask (k % 64)⟩ cutoff)) :
    Gen.C.trsmUpperRightRec cutoff mB mb nb mU nb nb (((nb + 63) / 64 : Nat) : Int) hbU
        (((nb + 63) / 64 : Nat) : Int) hbB base trtri rsB rsU f addmul
      = Gen.C.trsmUpperRightRec cutoff mB mb nb mU nb nb (((nb + 63) / 64 : Nat) : Int) hbU
        (((nb + 63) / 64 : Nat) : Int) hbB base trtri rsB rsU g addmul := by
  unfold Gen.C.trsmUpperRightRec
  dsimp_m
  simp_m [blocksize_eq]
  by_cases h64 : nb ≤ 64
  · have h64' : decide ((nb : Int) ≤ 64) = true := by simp; omega
    rw [if_pos h64', if_pos h64']
  have h64' : ¬ (decide ((nb : Int) ≤ 64) = true) := by simp; omega
  rw [if_neg h64', if_neg h64']
  by_cases h2048 : nb ≤ 2048
  · have h2048' : decide ((nb : Int) ≤ 2048) = true := by simp; omega
    rw [if_pos h2048', if_pos h2048']
  · have h2048' : ¬ (decide ((nb : Int) ≤ 2048) = true) := by simp; omega
    rw [if_neg h2048', if_neg h2048']
    have hsp : ((Int.tdiv ((nb : Int) - 1) 64 + 1) >>> (1 : Int).toNat) * 64
        = ((Rec.splitPoint nb : Nat) : Int) := GenTie.pleSplit_eq nb
    rw [hsp]
    have hk := Rec.splitPoint_lt nb (by omega)
    have hk0 := splitPoint_pos nb (by omega)
    have hk64 := splitPoint_mod nb
    generalize Rec.splitPoint nb = nb1 at *
    rw [mzdInitWindow_in 0 0 mb nb1 mb rsB 0 0 mb nb1 mb rfl rfl rfl rfl rfl (by omega) (by omega) (by omega)
        (by omega),
      mzdInitWindow_in 0 nb1 mb nb mb rsB 0 nb1 mb nb mb rfl rfl rfl rfl rfl hk64 (by omega) (by omega)
        (by omega),
      mzdInitWindow_in 0 0 nb1 nb1 nb rsU 0 0 nb1 nb1 nb rfl rfl rfl rfl rfl (by omega) (by omega)
        (by omega) (by omega),
      mzdInitWindow_in 0 nb1 nb1 nb nb rsU 0 nb1 nb1 nb nb rfl rfl rfl rfl rfl hk64 (by omega)
        (by omega) (by omega),
      mzdInitWindow_in nb1 nb1 nb nb nb rsU nb1 nb1 nb nb nb rfl rfl rfl rfl rfl hk64 (by omega)
        (by omega) (by omega)]
    dsimp_m
    norm_win'
    have a1 := step2_callee (f := f) (g := g) (rfl : mB = mB) mU ((0 : Nat) : Int) ((0 : Nat) : Int)
      ((nb1 : Nat) : Int) (((nb1 + 63) / 64 : Nat) : Int) ((0 : Nat) : Int) ((0 : Nat) : Int) mb ((nb1 + 63) / 64)
      ((nb1 : Nat) : Int) ((nb1 : Nat) : Int) (leftMask (nb1 % 64)) (leftMask (nb1 % 64)) cutoff
      (H nb1 _ _ hk0 hk)
    have a2 := step3_eq addmul a1 a1 (rfl : mU = mU) ((0 : Nat) : Int) ((nb1 / 64 : Nat) : Int) ((mb : Nat) : Int)
      (((nb - nb1 + 63) / 64 : Nat) : Int) ((0 : Nat) : Int) ((0 : Nat) : Int) ((mb : Nat) : Int)
      (((nb1 + 63) / 64 : Nat) : Int) ((0 : Nat) : Int) ((nb1 / 64 : Nat) : Int) ((nb1 : Nat) : Int)
      (((nb - nb1 + 63) / 64 : Nat) : Int) ((nb - nb1 : Nat) : Int) ((nb1 : Nat) : Int)
      ((nb - nb1 : Nat) : Int) (leftMask ((nb - nb1) % 64)) (leftMask (nb1 % 64)) (leftMask ((nb - nb1) % 64))
      cutoff
    exact step2_callee a2 mU ((nb1 : Nat) : Int) ((nb1 / 64 : Nat) : Int) ((nb - nb1 : Nat) : Int)
      (((nb - nb1 + 63) / 64 : Nat) : Int) ((0 : Nat) : Int) ((nb1 / 64 : Nat) : Int) mb
      ((nb - nb1 + 63) / 64) ((nb - nb1 : Nat) : Int) ((nb - nb1 : Nat) : Int) (leftMask ((nb - nb1) % 64))
      (leftMask ((nb - nb1) % 64)) cutoff (H (nb - nb1) _ _ (by omega) (by omega))

/-- the callees of the ties: `_mzd_trsm_upper_right_base`, `_mzd_trsm_upper_right_trtri`, `mzd_addmul` -/
abbrev urBase : CLoop.MView → CLoop.MView → Mem := liftM2 trsmUpperRight
abbrev urTrtri : CLoop.MView → CLoop.MView → Mem := liftM2 fun U B => B.mul (trsmUpperRight U (identity U.nrows))
abbrev addmulM : CLoop.MView → CLoop.MView → CLoop.MView → Int → Mem :=
  fun C A B _ => liftM3 (fun C A B => C.add (A.mul B)) C A B

/-- **the induction**: at every depth `n`, on the canonical records of ARBITRARY memories (in particular the
    window views that the recursion creates), the unrolled C recursion agrees with the model's recursion at
    fuel `n` run on what the records show -/
theorem cTrsmUR_raw (rsB rsU : Int) (n : Nat) : ∀ (cutoff : Int) (mb nb : Nat) (mU mB : Mem),
    AgreeOn mb ((nb + 63) / 64)
      (cTrsmUR urBase urTrtri addmulM rsB rsU n
        ⟨mU, (nb : Int), (nb : Int), (((nb + 63) / 64 : Nat) : Int), leftMask (nb % 64)⟩
        ⟨mB, (mb : Int), (nb : Int), (((nb + 63) / 64 : Nat) : Int), leftMask (nb % 64)⟩ cutoff)
      (liftM2 (Rec.trsmUpperRightRec 64 2048 n)
        ⟨mU, (nb : Int), (nb : Int), (((nb + 63) / 64 : Nat) : Int), leftMask (nb % 64)⟩
        ⟨mB, (mb : Int), (nb : Int), (((nb + 63) / 64 : Nat) : Int), leftMask (nb % 64)⟩) := by
  induction n with
  | zero => intro cutoff mb nb mU mB; exact AgreeOn.refl _ _ _
  | succ n ih =>
    intro cutoff mb nb mU mB
    show AgreeOn mb ((nb + 63) / 64)
      (Gen.C.trsmUpperRightRec cutoff mB mb nb mU nb nb (((nb + 63) / 64 : Nat) : Int) (leftMask (nb % 64))
        (((nb + 63) / 64 : Nat) : Int) (leftMask (nb % 64)) urBase urTrtri rsB rsU
        (cTrsmUR urBase urTrtri addmulM rsB rsU n) addmulM) _
    rw [trsmUpperRightRec_callee_congr cutoff rsB rsU mb nb mB mU _ _ urBase urTrtri
      (cTrsmUR urBase urTrtri addmulM rsB rsU n)
      (fun U B _ => liftM2 (Rec.trsmUpperRightRec 64 2048 n) U B) addmulM
      (fun k mU' mB' _ _ => ih cutoff mb k mU' mB')]
    have h := trsmUpperRightRec_step_view n cutoff rsB rsU (rawM mU nb nb) (rawM mB mb nb) (rawM_WF _ _ _)
      (rawM_WF _ _ _) (by simp) (by simp) mB mU (by simpa using agree_rawM mB mb nb)
      (by simpa using agree_rawM mU nb nb)
    simp only [nrows_rawM, ncols_rawM, width_rawM, hb_rawM] at h
    exact h

/-- **every depth, on views**: for well-formed conforming `U`, `B` and memories that coincide with theirs on the
    rows and words of the matrices, the unrolled C recursion agrees with the model's recursion at fuel `n` -/
theorem cTrsmUR_view (rsB rsU : Int) (n : Nat) (cutoff : Int) (U B : Mzd) (hU : U.WF) (hB : B.WF)
    (hUr : U.nrows = B.ncols) (hUc : U.ncols = B.ncols) (mB mU : Mem)
    (hmB : AgreeOn B.nrows B.width mB (memOf B)) (hmU : AgreeOn U.nrows U.width mU (memOf U)) :
    AgreeOn B.nrows B.width
      (cTrsmUR urBase urTrtri addmulM rsB rsU n ⟨mU, U.nrows, U.ncols, U.width, U.hb⟩
        ⟨mB, B.nrows, B.ncols, B.width, B.hb⟩ cutoff)
      (memOf (B.putB (Rec.trsmUpperRightRec 64 2048 n U.toB B.toB))) := by
  have hwU : U.width = (B.ncols + 63) / 64 := by unfold Mzd.width widthOf; rw [hUc]
  have hhU : U.hb = leftMask (B.ncols % 64) := by unfold Mzd.hb; rw [hUc]
  rw [← liftM2_of _ U B hU hB]
  rw [hUr, hwU] at hmU
  rw [hUr, hUc, hwU, hhU]
  refine (cTrsmUR_raw rsB rsU n cutoff B.nrows B.ncols mU mB).trans ?_
  rw [liftM2_congr_nat (Rec.trsmUpperRightRec 64 2048 n) B.ncols ((B.ncols + 63) / 64) B.nrows
    ((B.ncols + 63) / 64) _ _ _ _ _ _ hmU hmB]
  exact AgreeOn.refl _ _ _

/-- … hence with the substitution form, FOR EVERY DEPTH `n` -/
theorem cTrsmUR_view_subst (rsB rsU : Int) (n : Nat) (cutoff : Int) (U B : Mzd) (hU : U.WF) (hB : B.WF)
    (hUr : U.nrows = B.ncols) (hUc : U.ncols = B.ncols) (mB mU : Mem)
    (hmB : AgreeOn B.nrows B.width mB (memOf B)) (hmU : AgreeOn U.nrows U.width mU (memOf U)) :
    AgreeOn B.nrows B.width
      (cTrsmUR urBase urTrtri addmulM rsB rsU n ⟨mU, U.nrows, U.ncols, U.width, U.hb⟩
        ⟨mB, B.nrows, B.ncols, B.width, B.hb⟩ cutoff)
      (memOf (B.putB (trsmUpperRight U.toB B.toB))) := by
  rw [← Rec.trsmUpperRightRec_eq 64 2048 n (Mzd.WF_toB hB) (by rw [Mzd.nrows_toB, Mzd.ncols_toB, hUr])]
  exact cTrsmUR_view rsB rsU n cutoff U B hU hB hUr hUc mB mU hmB hmU

/-- **`_mzd_trsm_upper_right`, the C recursion at every depth, on whole matrices = the substitution form**
    (equality of the memories) -/
theorem cTrsmUR_correct (rsB rsU : Int) (n : Nat) (cutoff : Int) (U B : Mzd) (hU : U.WF) (hB : B.WF)
    (hUr : U.nrows = B.ncols) (hUc : U.ncols = B.ncols) :
    cTrsmUR urBase urTrtri addmulM rsB rsU n (CLoop.MView.of U) (CLoop.MView.of B) cutoff
      = memOf (B.putB (trsmUpperRight U.toB B.toB)) := by
  have hE := fun fuel => Rec.trsmUpperRightRec_eq 64 2048 fuel (U := U.toB) (Mzd.WF_toB hB)
    (by rw [Mzd.nrows_toB, Mzd.ncols_toB, hUr])
  cases n with
  | zero =>
    rw [← hE 0]
    exact liftM2_of _ U B hU hB
  | succ n =>
    rw [← hE (n + 1), ← trsmUpperRightRec_step n cutoff rsB rsU U B hU hB hUr hUc]
    have hwU : U.width = (B.ncols + 63) / 64 := by unfold Mzd.width widthOf; rw [hUc]
    show Gen.C.trsmUpperRightRec cutoff (memOf B) B.nrows B.ncols (memOf U) U.nrows U.ncols U.width U.hb B.width
      B.hb urBase urTrtri rsB rsU (cTrsmUR urBase urTrtri addmulM rsB rsU n) addmulM = _
    rw [hUr, hUc, hwU]
    exact trsmUpperRightRec_callee_congr cutoff rsB rsU B.nrows B.ncols (memOf B) (memOf U) _ _ urBase urTrtri
      _ _ addmulM (fun k mU' mB' _ _ => cTrsmUR_raw rsB rsU n cutoff B.nrows k mU' mB')

/-! ### 2. `_mzd_trsm_lower_right` -/

/-- **the C recursion `_mzd_trsm_lower_right` unrolled `n` levels** -/
def cTrsmLR (base : CLoop.MView → CLoop.MView → Mem)
    (addmul : CLoop.MView → CLoop.MView → CLoop.MView → Int → Mem) (rsB rsL : Int) :
    Nat → CLoop.MView → CLoop.MView → Int → Mem
  | 0 => fun L B _ => liftM2 (Rec.trsmLowerRightRec 64 0) L B
  | n + 1 => fun L B c =>
      Gen.C.trsmLowerRightRec c B.mem B.nrows B.ncols L.mem L.nrows L.ncols L.width L.hb B.width B.hb
        base rsB rsL (cTrsmLR base addmul rsB rsL n) addmul

/-- **callee congruence** for the generated `_mzd_trsm_lower_right` -/
theorem trsmLowerRightRec_callee_congr (cutoff rsB rsL : Int) (mb nb : Nat) (mB mL : Mem) (hbL hbB : BitVec 64)
    (base : CLoop.MView → CLoop.MView → Mem) (f g : CLoop.MView → CLoop.MView → Int → Mem)
    (addmul : CLoop.MView → CLoop.MView → CLoop.MView → Int → Mem)
    (H : ∀ (k : Nat) (mL' mB' : Mem), 0 < k → k < nb → AgreeOn mb ((k + 63) / 64)
      (f ⟨mL', (k : Int), (k : Int), (((k + 63) / 64 : Nat) : Int), leftMask (k % 64)⟩
        ⟨mB', (mb : Int), (k : Int), (((k + 63) / 64 : Nat) : Int), leftMask (k % 64)⟩ cutoff)
      (g ⟨mL', (k : Int), (k : Int), (((k + 63) / 64 : Nat) : Int), leftMask (k % 64)⟩
        ⟨mB', (mb : Int), (k : Int), (((k + 63) / 64 : Nat) : Int), leftMask (k % 64)⟩ cutoff)) :
    Gen.C.trsmLowerRightRec cutoff mB mb nb mL nb nb (((nb + 63) / 64 : Nat) : Int) hbL
        (((nb + 63) / 64 : Nat) : Int) hbB base rsB rsL f addmul
      = Gen.C.trsmLowerRightRec cutoff mB mb nb mL nb nb (((nb + 63) / 64 : Nat) : Int) hbL
        (((nb + 63) / 64 : Nat) : Int) hbB base rsB rsL g addmul := by
  unfold Gen.C.trsmLowerRightRec
  dsimp_m
  by_cases h64 : nb ≤ 64
  · have h64' : decide ((nb : Int) ≤ 64) = true := by simp; omega
    rw [if_pos h64', if_pos h64']
  have h64' : ¬ (decide ((nb : Int) ≤ 64) = true) := by simp; omega
  rw [if_neg h64', if_neg h64']
  have hsp : ((Int.tdiv ((nb : Int) - 1) 64 + 1) >>> (1 : Int).toNat) * 64
      = ((Rec.splitPoint nb : Nat) : Int) := GenTie.pleSplit_eq nb
  rw [hsp]
  have hk := Rec.splitPoint_lt nb (by omega)
  have hk0 := splitPoint_pos nb (by omega)
  have hk64 := splitPoint_mod nb
  generalize Rec.splitPoint nb = nb1 at *
  rw [mzdInitWindow_in 0 0 mb nb1 mb rsB 0 0 mb nb1 mb rfl rfl rfl rfl rfl (by omega) (by omega) (by omega)
      (by omega),
    mzdInitWindow_in 0 nb1 mb nb mb rsB 0 nb1 mb nb mb rfl rfl rfl rfl rfl hk64 (by omega) (by omega)
      (by omega),
    mzdInitWindow_in 0 0 nb1 nb1 nb rsL 0 0 nb1 nb1 nb rfl rfl rfl rfl rfl (by omega) (by omega)
      (by omega) (by omega),
    mzdInitWindow_in nb1 0 nb nb1 nb rsL nb1 0 nb nb1 nb rfl rfl rfl rfl rfl (by omega) (by omega)
      (by omega) (by omega),
    mzdInitWindow_in nb1 nb1 nb nb nb rsL nb1 nb1 nb nb nb rfl rfl rfl rfl rfl hk64 (by omega)
      (by omega) (by omega)]
  dsimp_m
  norm_win'
  have a1 := step2_callee (f := f) (g := g) (rfl : mB = mB) mL ((nb1 : Nat) : Int) ((nb1 / 64 : Nat) : Int)
    ((nb - nb1 : Nat) : Int) (((nb - nb1 + 63) / 64 : Nat) : Int) ((0 : Nat) : Int) ((nb1 / 64 : Nat) : Int) mb
    ((nb - nb1 + 63) / 64) ((nb - nb1 : Nat) : Int) ((nb - nb1 : Nat) : Int) (leftMask ((nb - nb1) % 64))
    (leftMask ((nb - nb1) % 64)) cutoff (H (nb - nb1) _ _ (by omega) (by omega))
  have a2 := step3_eq addmul a1 a1 (rfl : mL = mL) ((0 : Nat) : Int) ((0 : Nat) : Int) ((mb : Nat) : Int)
    (((nb1 + 63) / 64 : Nat) : Int) ((0 : Nat) : Int) ((nb1 / 64 : Nat) : Int) ((mb : Nat) : Int)
    (((nb - nb1 + 63) / 64 : Nat) : Int) ((nb1 : Nat) : Int) ((0 : Nat) : Int) ((nb - nb1 : Nat) : Int)
    (((nb1 + 63) / 64 : Nat) : Int) ((nb1 : Nat) : Int) ((nb - nb1 : Nat) : Int)
    ((nb1 : Nat) : Int) (leftMask (nb1 % 64)) (leftMask ((nb - nb1) % 64)) (leftMask (nb1 % 64)) cutoff
  exact step2_callee a2 mL ((0 : Nat) : Int) ((0 : Nat) : Int) ((nb1 : Nat) : Int)
    (((nb1 + 63) / 64 : Nat) : Int) ((0 : Nat) : Int) ((0 : Nat) : Int) mb ((nb1 + 63) / 64)
    ((nb1 : Nat) : Int) ((nb1 : Nat) : Int) (leftMask (nb1 % 64)) (leftMask (nb1 % 64)) cutoff
    (H nb1 _ _ hk0 hk)

/-- the base callee of the tie: `_mzd_trsm_lower_right_base` -/
abbrev lrBase : CLoop.MView → CLoop.MView → Mem := liftM2 trsmLowerRight

/-- **the induction** (lower-right) -/
theorem cTrsmLR_raw (rsB rsL : Int) (n : Nat) : ∀ (cutoff : Int) (mb nb : Nat) (mL mB : Mem),
    AgreeOn mb ((nb + 63) / 64)
      (cTrsmLR lrBase addmulM rsB rsL n
        ⟨mL, (nb : Int), (nb : Int), (((nb + 63) / 64 : Nat) : Int), leftMask (nb % 64)⟩
        ⟨mB, (mb : Int), (nb : Int), (((nb + 63) / 64 : Nat) : Int), leftMask (nb % 64)⟩ cutoff)
      (liftM2 (Rec.trsmLowerRightRec 64 n)
        ⟨mL, (nb : Int), (nb : Int), (((nb + 63) / 64 : Nat) : Int), leftMask (nb % 64)⟩
        ⟨mB, (mb : Int), (nb : Int), (((nb + 63) / 64 : Nat) : Int), leftMask (nb % 64)⟩) := by
  induction n with
  | zero => intro cutoff mb nb mL mB; exact AgreeOn.refl _ _ _
  | succ n ih =>
    intro cutoff mb nb mL mB
    show AgreeOn mb ((nb + 63) / 64)
      (Gen.C.trsmLowerRightRec cutoff mB mb nb mL nb nb (((nb + 63) / 64 : Nat) : Int) (leftMask (nb % 64))
        (((nb + 63) / 64 : Nat) : Int) (leftMask (nb % 64)) lrBase rsB rsL
        (cTrsmLR lrBase addmulM rsB rsL n) addmulM) _
    rw [trsmLowerRightRec_callee_congr cutoff rsB rsL mb nb mB mL _ _ lrBase
      (cTrsmLR lrBase addmulM rsB rsL n)
      (fun L B _ => liftM2 (Rec.trsmLowerRightRec 64 n) L B) addmulM
      (fun k mL' mB' _ _ => ih cutoff mb k mL' mB')]
    have h := trsmLowerRightRec_step_view n cutoff rsB rsL (rawM mL nb nb) (rawM mB mb nb) (rawM_WF _ _ _)
      (rawM_WF _ _ _) (by simp) (by simp) mB mL (by simpa using agree_rawM mB mb nb)
      (by simpa using agree_rawM mL nb nb)
    simp only [nrows_rawM, ncols_rawM, width_rawM, hb_rawM] at h
    exact h

/-- **every depth, on views** (lower-right) -/
theorem cTrsmLR_view (rsB rsL : Int) (n : Nat) (cutoff : Int) (L B : Mzd) (hL : L.WF) (hB : B.WF)
    (hLr : L.nrows = B.ncols) (hLc : L.ncols = B.ncols) (mB mL : Mem)
    (hmB : AgreeOn B.nrows B.width mB (memOf B)) (hmL : AgreeOn L.nrows L.width mL (memOf L)) :
    AgreeOn B.nrows B.width
      (cTrsmLR lrBase addmulM rsB rsL n ⟨mL, L.nrows, L.ncols, L.width, L.hb⟩
        ⟨mB, B.nrows, B.ncols, B.width, B.hb⟩ cutoff)
      (memOf (B.putB (Rec.trsmLowerRightRec 64 n L.toB B.toB))) := by
  have hwL : L.width = (B.ncols + 63) / 64 := by unfold Mzd.width widthOf; rw [hLc]
  have hhL : L.hb = leftMask (B.ncols % 64) := by unfold Mzd.hb; rw [hLc]
  rw [← liftM2_of _ L B hL hB]
  rw [hLr, hwL] at hmL
  rw [hLr, hLc, hwL, hhL]
  refine (cTrsmLR_raw rsB rsL n cutoff B.nrows B.ncols mL mB).trans ?_
  rw [liftM2_congr_nat (Rec.trsmLowerRightRec 64 n) B.ncols ((B.ncols + 63) / 64) B.nrows
    ((B.ncols + 63) / 64) _ _ _ _ _ _ hmL hmB]
  exact AgreeOn.refl _ _ _

/-- … hence with the substitution form, for every depth `n` -/
theorem cTrsmLR_view_subst (rsB rsL : Int) (n : Nat) (cutoff : Int) (L B : Mzd) (hL : L.WF) (hB : B.WF)
    (hLr : L.nrows = B.ncols) (hLc : L.ncols = B.ncols) (mB mL : Mem)
    (hmB : AgreeOn B.nrows B.width mB (memOf B)) (hmL : AgreeOn L.nrows L.width mL (memOf L)) :
    AgreeOn B.nrows B.width
      (cTrsmLR lrBase addmulM rsB rsL n ⟨mL, L.nrows, L.ncols, L.width, L.hb⟩
        ⟨mB, B.nrows, B.ncols, B.width, B.hb⟩ cutoff)
      (memOf (B.putB (trsmLowerRight L.toB B.toB))) := by
  rw [← Rec.trsmLowerRightRec_eq 64 n (Mzd.WF_toB hB) (by rw [Mzd.nrows_toB, Mzd.ncols_toB, hLr])]
  exact cTrsmLR_view rsB rsL n cutoff L B hL hB hLr hLc mB mL hmB hmL

/-- **`_mzd_trsm_lower_right`, the C recursion at every depth, on whole matrices = the substitution form** -/
theorem cTrsmLR_correct (rsB rsL : Int) (n : Nat) (cutoff : Int) (L B : Mzd) (hL : L.WF) (hB : B.WF)
    (hLr : L.nrows = B.ncols) (hLc : L.ncols = B.ncols) :
    cTrsmLR lrBase addmulM rsB rsL n (CLoop.MView.of L) (CLoop.MView.of B) cutoff
      = memOf (B.putB (trsmLowerRight L.toB B.toB)) := by
  have hE := fun fuel => Rec.trsmLowerRightRec_eq 64 fuel (L := L.toB) (Mzd.WF_toB hB)
    (by rw [Mzd.nrows_toB, Mzd.ncols_toB, hLr])
  cases n with
  | zero =>
    rw [← hE 0]
    exact liftM2_of _ L B hL hB
  | succ n =>
    rw [← hE (n + 1), ← trsmLowerRightRec_step n cutoff rsB rsL L B hL hB hLr hLc]
    have hwL : L.width = (B.ncols + 63) / 64 := by unfold Mzd.width widthOf; rw [hLc]
    show Gen.C.trsmLowerRightRec cutoff (memOf B) B.nrows B.ncols (memOf L) L.nrows L.ncols L.width L.hb B.width
      B.hb lrBase rsB rsL (cTrsmLR lrBase addmulM rsB rsL n) addmulM = _
    rw [hLr, hLc, hwL]
    exact trsmLowerRightRec_callee_congr cutoff rsB rsL B.nrows B.ncols (memOf B) (memOf L) _ _ lrBase
      _ _ addmulM (fun k mL' mB' _ _ => cTrsmLR_raw rsB rsL n cutoff B.nrows k mL' mB')

/-! ### 3. `_mzd_trsm_lower_left` -/

/-- **the C recursion `_mzd_trsm_lower_left` unrolled `n` levels** (three regimes: the inline 64-row kernel, the
    Four-Russians routine `fruss`, the block recursion) -/
def cTrsmLL (fruss : CLoop.MView → CLoop.MView → Int → Mem)
    (addmul : CLoop.MView → CLoop.MView → CLoop.MView → Int → Mem) (rsB rsL : Int) :
    Nat → CLoop.MView → CLoop.MView → Int → Mem
  | 0 => fun L B _ => liftM2 (Rec.trsmLowerLeftRec 2048 0) L B
  | n + 1 => fun L B c =>
      Gen.C.trsmLowerLeftRec c B.mem B.nrows B.ncols L.mem B.width L.nrows L.ncols L.width L.hb B.hb
        fruss rsB rsL (cTrsmLL fruss addmul rsB rsL n) addmul

/-- **callee congruence** for the generated `_mzd_trsm_lower_left` (all three regimes) -/
theorem trsmLowerLeftRec_callee_congr (cutoff rsB rsL : Int) (mb nb : Nat) (mB mL : Mem) (hbL hbB : BitVec 64)
    (fruss : CLoop.MView → CLoop.MView → Int → Mem) (f g : CLoop.MView → CLoop.MView → Int → Mem)
    (addmul : CLoop.MView → CLoop.MView → CLoop.MView → Int → Mem)
    (H : ∀ (k : Nat) (mL' mB' : Mem), 0 < k → k < mb → AgreeOn k ((nb + 63) / 64)
      (f ⟨mL', (k : Int), (k : Int), (((k + 63) / 64 : Nat) : Int), leftMask (k % 64)⟩
        ⟨mB', (k : Int), (nb : Int), (((nb + 63) / 64 : Nat) : Int), leftMask (nb % 64)⟩ cutoff)
      (g ⟨mL', (k : Int), (k : Int), (((k + 63) / 64 : Nat) : Int), leftMask (k % 64)⟩
        ⟨mB', (k : Int), (nb : Int), (((nb + 63) / 64 : Nat) : Int), leftMask (nb % 64)⟩ cutoff)) :
    Gen.C.trsmLowerLeftRec cutoff mB mb nb mL (((nb + 63) / 64 : Nat) : Int) mb mb (((mb + 63) / 64 : Nat) : Int)
        hbL hbB fruss rsB rsL f addmul
      = Gen.C.trsmLowerLeftRec cutoff mB mb nb mL (((nb + 63) / 64 : Nat) : Int) mb mb
        (((mb + 63) / 64 : Nat) : Int) hbL hbB fruss rsB rsL g addmul := by
  unfold Gen.C.trsmLowerLeftRec
  dsimp_m
  by_cases h64 : mb ≤ 64
  · have h64' : decide ((mb : Int) ≤ 64) = true := by simp; omega
    rw [if_pos h64', if_pos h64']
  simp_m [blocksize_eq]
  have h64' : ¬ (decide ((mb : Int) ≤ 64) = true) := by simp; omega
  rw [if_neg h64', if_neg h64']
  by_cases h2048 : mb ≤ 2048
  · have h2048' : decide ((mb : Int) ≤ 2048) = true := by simp; omega
    rw [if_pos h2048', if_pos h2048']
  · have h2048' : ¬ (decide ((mb : Int) ≤ 2048) = true) := by simp; omega
    rw [if_neg h2048', if_neg h2048']
    have hsp : ((Int.tdiv ((mb : Int) - 1) 64 + 1) >>> (1 : Int).toNat) * 64
        = ((Rec.splitPoint mb : Nat) : Int) := GenTie.pleSplit_eq mb
    rw [hsp]
    have hk := Rec.splitPoint_lt mb (by omega)
    have hk0 := splitPoint_pos mb (by omega)
    have hk64 := splitPoint_mod mb
    generalize Rec.splitPoint mb = mb1 at *
    rw [mzdInitWindow_in 0 0 mb1 nb mb rsB 0 0 mb1 nb mb rfl rfl rfl rfl rfl (by omega) (by omega) (by omega)
        (by omega),
      mzdInitWindow_in mb1 0 mb nb mb rsB mb1 0 mb nb mb rfl rfl rfl rfl rfl (by omega) (by omega) (by omega)
        (by omega),
      mzdInitWindow_in 0 0 mb1 mb1 mb rsL 0 0 mb1 mb1 mb rfl rfl rfl rfl rfl (by omega) (by omega)
        (by omega) (by omega),
      mzdInitWindow_in mb1 0 mb mb1 mb rsL mb1 0 mb mb1 mb rfl rfl rfl rfl rfl (by omega) (by omega)
        (by omega) (by omega),
      mzdInitWindow_in mb1 mb1 mb mb mb rsL mb1 mb1 mb mb mb rfl rfl rfl rfl rfl hk64 (by omega)
        (by omega) (by omega)]
    dsimp_m
    norm_win'
    have a1 := step2_callee (f := f) (g := g) (rfl : mB = mB) mL ((0 : Nat) : Int) ((0 : Nat) : Int)
      ((mb1 : Nat) : Int) (((mb1 + 63) / 64 : Nat) : Int) ((0 : Nat) : Int) ((0 : Nat) : Int) mb1 ((nb + 63) / 64)
      ((mb1 : Nat) : Int) ((nb : Nat) : Int) (leftMask (mb1 % 64)) (leftMask (nb % 64)) cutoff
      (H mb1 _ _ hk0 hk)
    have a2 := step3_eq addmul a1 (rfl : mL = mL) a1 ((mb1 : Nat) : Int) ((0 : Nat) : Int)
      ((mb - mb1 : Nat) : Int) (((nb + 63) / 64 : Nat) : Int) ((mb1 : Nat) : Int) ((0 : Nat) : Int)
      ((mb - mb1 : Nat) : Int) (((mb1 + 63) / 64 : Nat) : Int) ((0 : Nat) : Int) ((0 : Nat) : Int)
      ((mb1 : Nat) : Int) (((nb + 63) / 64 : Nat) : Int) ((nb : Nat) : Int) ((mb1 : Nat) : Int) ((nb : Nat) : Int)
      (leftMask (nb % 64)) (leftMask (mb1 % 64)) (leftMask (nb % 64)) cutoff
    exact step2_callee a2 mL ((mb1 : Nat) : Int) ((mb1 / 64 : Nat) : Int) ((mb - mb1 : Nat) : Int)
      (((mb - mb1 + 63) / 64 : Nat) : Int) ((mb1 : Nat) : Int) ((0 : Nat) : Int) (mb - mb1) ((nb + 63) / 64)
      ((mb - mb1 : Nat) : Int) ((nb : Nat) : Int) (leftMask ((mb - mb1) % 64)) (leftMask (nb % 64)) cutoff
      (H (mb - mb1) _ _ (by omega) (by omega))

/-- the Four-Russians callee of the tie: `_mzd_trsm_lower_left_russian` -/
abbrev llRuss : CLoop.MView → CLoop.MView → Int → Mem := fun L B _ => liftM2 trsmLowerLeft L B

/-- **the induction** (lower-left; `1 ≤ nb` is the C-domain condition of the inline kernel) -/
theorem cTrsmLL_raw (rsB rsL : Int) (n : Nat) : ∀ (cutoff : Int) (mb nb : Nat) (hc : 1 ≤ nb) (mL mB : Mem),
    AgreeOn mb ((nb + 63) / 64)
      (cTrsmLL llRuss addmulM rsB rsL n
        ⟨mL, (mb : Int), (mb : Int), (((mb + 63) / 64 : Nat) : Int), leftMask (mb % 64)⟩
        ⟨mB, (mb : Int), (nb : Int), (((nb + 63) / 64 : Nat) : Int), leftMask (nb % 64)⟩ cutoff)
      (liftM2 (Rec.trsmLowerLeftRec 2048 n)
        ⟨mL, (mb : Int), (mb : Int), (((mb + 63) / 64 : Nat) : Int), leftMask (mb % 64)⟩
        ⟨mB, (mb : Int), (nb : Int), (((nb + 63) / 64 : Nat) : Int), leftMask (nb % 64)⟩) := by
  induction n with
  | zero => intro cutoff mb nb hc mL mB; exact AgreeOn.refl _ _ _
  | succ n ih =>
    intro cutoff mb nb hc mL mB
    show AgreeOn mb ((nb + 63) / 64)
      (Gen.C.trsmLowerLeftRec cutoff mB mb nb mL (((nb + 63) / 64 : Nat) : Int) mb mb
        (((mb + 63) / 64 : Nat) : Int) (leftMask (mb % 64)) (leftMask (nb % 64)) llRuss rsB rsL
        (cTrsmLL llRuss addmulM rsB rsL n) addmulM) _
    rw [trsmLowerLeftRec_callee_congr cutoff rsB rsL mb nb mB mL _ _ llRuss
      (cTrsmLL llRuss addmulM rsB rsL n)
      (fun L B _ => liftM2 (Rec.trsmLowerLeftRec 2048 n) L B) addmulM
      (fun k mL' mB' _ _ => ih cutoff k nb hc mL' mB')]
    have h := trsmLowerLeftRec_step_view n cutoff rsB rsL (rawM mL mb mb) (rawM mB mb nb) (rawM_WF _ _ _)
      (rawM_WF _ _ _) (by simp) (by simp) (by simpa using hc) mB mL (by simpa using agree_rawM mB mb nb)
      (by simpa using agree_rawM mL mb mb)
    simp only [nrows_rawM, ncols_rawM, width_rawM, hb_rawM] at h
    exact h

/-- **every depth, on views** (lower-left) -/
theorem cTrsmLL_view (rsB rsL : Int) (n : Nat) (cutoff : Int) (L B : Mzd) (hL : L.WF) (hB : B.WF)
    (hLr : L.nrows = B.nrows) (hLc : L.ncols = B.nrows) (hc : 1 ≤ B.ncols) (mB mL : Mem)
    (hmB : AgreeOn B.nrows B.width mB (memOf B)) (hmL : AgreeOn L.nrows L.width mL (memOf L)) :
    AgreeOn B.nrows B.width
      (cTrsmLL llRuss addmulM rsB rsL n ⟨mL, L.nrows, L.ncols, L.width, L.hb⟩
        ⟨mB, B.nrows, B.ncols, B.width, B.hb⟩ cutoff)
      (memOf (B.putB (Rec.trsmLowerLeftRec 2048 n L.toB B.toB))) := by
  have hwL : L.width = (B.nrows + 63) / 64 := by unfold Mzd.width widthOf; rw [hLc]
  have hhL : L.hb = leftMask (B.nrows % 64) := by unfold Mzd.hb; rw [hLc]
  rw [← liftM2_of _ L B hL hB]
  rw [hLr, hwL] at hmL
  rw [hLr, hLc, hwL, hhL]
  refine (cTrsmLL_raw rsB rsL n cutoff B.nrows B.ncols hc mL mB).trans ?_
  rw [liftM2_congr_nat (Rec.trsmLowerLeftRec 2048 n) B.nrows ((B.nrows + 63) / 64) B.nrows
    ((B.ncols + 63) / 64) _ _ _ _ _ _ hmL hmB]
  exact AgreeOn.refl _ _ _

/-- … hence with the substitution form, for every depth `n` -/
theorem cTrsmLL_view_subst (rsB rsL : Int) (n : Nat) (cutoff : Int) (L B : Mzd) (hL : L.WF) (hB : B.WF)
    (hLr : L.nrows = B.nrows) (hLc : L.ncols = B.nrows) (hc : 1 ≤ B.ncols) (mB mL : Mem)
    (hmB : AgreeOn B.nrows B.width mB (memOf B)) (hmL : AgreeOn L.nrows L.width mL (memOf L)) :
    AgreeOn B.nrows B.width
      (cTrsmLL llRuss addmulM rsB rsL n ⟨mL, L.nrows, L.ncols, L.width, L.hb⟩
        ⟨mB, B.nrows, B.ncols, B.width, B.hb⟩ cutoff)
      (memOf (B.putB (trsmLowerLeft L.toB B.toB))) := by
  rw [← Rec.trsmLowerLeftRec_eq 2048 n (Mzd.WF_toB hB) (by rw [Mzd.nrows_toB, Mzd.nrows_toB, hLr])]
  exact cTrsmLL_view rsB rsL n cutoff L B hL hB hLr hLc hc mB mL hmB hmL

/-- **`_mzd_trsm_lower_left`, the C recursion at every depth, on whole matrices = the substitution form** -/
theorem cTrsmLL_correct (rsB rsL : Int) (n : Nat) (cutoff : Int) (L B : Mzd) (hL : L.WF) (hB : B.WF)
    (hLr : L.nrows = B.nrows) (hLc : L.ncols = B.nrows) (hc : 1 ≤ B.ncols) :
    cTrsmLL llRuss addmulM rsB rsL n (CLoop.MView.of L) (CLoop.MView.of B) cutoff
      = memOf (B.putB (trsmLowerLeft L.toB B.toB)) := by
  have hE := fun fuel => Rec.trsmLowerLeftRec_eq 2048 fuel (L := L.toB) (Mzd.WF_toB hB)
    (by rw [Mzd.nrows_toB, Mzd.nrows_toB, hLr])
  cases n with
  | zero =>
    rw [← hE 0]
    exact liftM2_of _ L B hL hB
  | succ n =>
    rw [← hE (n + 1), ← trsmLowerLeftRec_step n cutoff rsB rsL L B hL hB hLr hLc hc]
    have hwL : L.width = (B.nrows + 63) / 64 := by unfold Mzd.width widthOf; rw [hLc]
    show Gen.C.trsmLowerLeftRec cutoff (memOf B) B.nrows B.ncols (memOf L) B.width L.nrows L.ncols L.width L.hb
      B.hb llRuss rsB rsL (cTrsmLL llRuss addmulM rsB rsL n) addmulM = _
    rw [hLr, hLc, hwL]
    exact trsmLowerLeftRec_callee_congr cutoff rsB rsL B.nrows B.ncols (memOf B) (memOf L) _ _ llRuss
      _ _ addmulM (fun k mL' mB' _ _ => cTrsmLL_raw rsB rsL n cutoff k B.ncols hc mL' mB')

/-! ### 4. `_mzd_trsm_upper_left` -/

/-- **the C recursion `_mzd_trsm_upper_left` unrolled `n` levels** -/
def cTrsmUL (fruss : CLoop.MView → CLoop.MView → Int → Mem)
    (addmul : CLoop.MView → CLoop.MView → CLoop.MView → Int → Mem) (rsB rsU : Int) :
    Nat → CLoop.MView → CLoop.MView → Int → Mem
  | 0 => fun U B _ => liftM2 (Rec.trsmUpperLeftRec 2048 0) U B
  | n + 1 => fun U B c =>
      Gen.C.trsmUpperLeftRec c B.mem B.nrows B.ncols B.hb U.mem B.width U.nrows U.ncols U.width U.hb
        fruss rsB rsU (cTrsmUL fruss addmul rsB rsU n) addmul

/-- **callee congruence** for the generated `_mzd_trsm_upper_left` (all three regimes) -/
theorem trsmUpperLeftRec_callee_congr (cutoff rsB rsU : Int) (mb nb : Nat) (mB mU : Mem) (hbU hbB : BitVec 64)
    (fruss : CLoop.MView → CLoop.MView → Int → Mem) (f g : CLoop.MView → CLoop.MView → Int → Mem)
    (addmul : CLoop.MView → CLoop.MView → CLoop.MView → Int → Mem)
    (H : ∀ (k : Nat) (mU' mB' : Mem), 0 < k → k < mb → AgreeOn k ((nb + 63) / 64)
      (f ⟨mU', (k : Int), (k : Int), (((k + 63) / 64 : Nat) : Int), leftMask (k % 64)⟩
        ⟨mB', (k : Int), (nb : Int), (((nb + 63) / 64 : Nat) : Int), leftMask (nb % 64)⟩ cutoff)
      (g ⟨mU', (k : Int), (k : Int), (((k + 63) / 64 : Nat) : Int), leftMask (k % 64)⟩
        ⟨mB', (k : Int), (nb : Int), (((nb + 63) / 64 : Nat) : Int), leftMask (nb % 64)⟩ cutoff)) :
    Gen.C.trsmUpperLeftRec cutoff mB mb nb hbB mU (((nb + 63) / 64 : Nat) : Int) mb mb
        (((mb + 63) / 64 : Nat) : Int) hbU fruss rsB rsU f addmul
      = Gen.C.trsmUpperLeftRec cutoff mB mb nb hbB mU (((nb + 63) / 64 : Nat) : Int) mb mb
        (((mb + 63) / 64 : Nat) : Int) hbU fruss rsB rsU g addmul := by
  unfold Gen.C.trsmUpperLeftRec
  dsimp_m
  by_cases h64 : mb ≤ 64
  · have h64' : decide ((mb : Int) ≤ 64) = true := by simp; omega
    rw [if_pos h64', if_pos h64']
  simp_m [blocksize_eq]
  have h64' : ¬ (decide ((mb : Int) ≤ 64) = true) := by simp; omega
  rw [if_neg h64', if_neg h64']
  by_cases h2048 : mb ≤ 2048
  · have h2048' : decide ((mb : Int) ≤ 2048) = true := by simp; omega
    rw [if_pos h2048', if_pos h2048']
  · have h2048' : ¬ (decide ((mb : Int) ≤ 2048) = true) := by simp; omega
    rw [if_neg h2048', if_neg h2048']
    have hsp : ((Int.tdiv ((mb : Int) - 1) 64 + 1) >>> (1 : Int).toNat) * 64
        = ((Rec.splitPoint mb : Nat) : Int) := GenTie.pleSplit_eq mb
    rw [hsp]
    have hk := Rec.splitPoint_lt mb (by omega)
    have hk0 := splitPoint_pos mb (by omega)
    have hk64 := splitPoint_mod mb
    generalize Rec.splitPoint mb = mb1 at *
    rw [mzdInitWindow_in 0 0 mb1 nb mb rsB 0 0 mb1 nb mb rfl rfl rfl rfl rfl (by omega) (by omega) (by omega)
        (by omega),
      mzdInitWindow_in mb1 0 mb nb mb rsB mb1 0 mb nb mb rfl rfl rfl rfl rfl (by omega) (by omega) (by omega)
        (by omega),
      mzdInitWindow_in 0 0 mb1 mb1 mb rsU 0 0 mb1 mb1 mb rfl rfl rfl rfl rfl (by omega) (by omega)
        (by omega) (by omega),
      mzdInitWindow_in 0 mb1 mb1 mb mb rsU 0 mb1 mb1 mb mb rfl rfl rfl rfl rfl hk64 (by omega)
        (by omega) (by omega),
      mzdInitWindow_in mb1 mb1 mb mb mb rsU mb1 mb1 mb mb mb rfl rfl rfl rfl rfl hk64 (by omega)
        (by omega) (by omega)]
    dsimp_m
    norm_win'
    have a1 := step2_callee (f := f) (g := g) (rfl : mB = mB) mU ((mb1 : Nat) : Int) ((mb1 / 64 : Nat) : Int)
      ((mb - mb1 : Nat) : Int) (((mb - mb1 + 63) / 64 : Nat) : Int) ((mb1 : Nat) : Int) ((0 : Nat) : Int)
      (mb - mb1) ((nb + 63) / 64) ((mb - mb1 : Nat) : Int) ((nb : Nat) : Int) (leftMask ((mb - mb1) % 64))
      (leftMask (nb % 64)) cutoff (H (mb - mb1) _ _ (by omega) (by omega))
    have a2 := step3_eq addmul a1 (rfl : mU = mU) a1 ((0 : Nat) : Int) ((0 : Nat) : Int) ((mb1 : Nat) : Int)
      (((nb + 63) / 64 : Nat) : Int) ((0 : Nat) : Int) ((mb1 / 64 : Nat) : Int) ((mb1 : Nat) : Int)
      (((mb - mb1 + 63) / 64 : Nat) : Int) ((mb1 : Nat) : Int) ((0 : Nat) : Int) ((mb - mb1 : Nat) : Int)
      (((nb + 63) / 64 : Nat) : Int) ((nb : Nat) : Int) ((mb - mb1 : Nat) : Int) ((nb : Nat) : Int)
      (leftMask (nb % 64)) (leftMask ((mb - mb1) % 64)) (leftMask (nb % 64)) cutoff
    exact step2_callee a2 mU ((0 : Nat) : Int) ((0 : Nat) : Int) ((mb1 : Nat) : Int)
      (((mb1 + 63) / 64 : Nat) : Int) ((0 : Nat) : Int) ((0 : Nat) : Int) mb1 ((nb + 63) / 64)
      ((mb1 : Nat) : Int) ((nb : Nat) : Int) (leftMask (mb1 % 64)) (leftMask (nb % 64)) cutoff
      (H mb1 _ _ hk0 hk)

/-- the Four-Russians callee of the tie: `_mzd_trsm_upper_left_russian` -/
abbrev ulRuss : CLoop.MView → CLoop.MView → Int → Mem := fun U B _ => liftM2 trsmUpperLeft U B

/-- **the induction** (upper-left) -/
theorem cTrsmUL_raw (rsB rsU : Int) (n : Nat) : ∀ (cutoff : Int) (mb nb : Nat) (hc : 1 ≤ nb) (mU mB : Mem),
    AgreeOn mb ((nb + 63) / 64)
      (cTrsmUL ulRuss addmulM rsB rsU n
        ⟨mU, (mb : Int), (mb : Int), (((mb + 63) / 64 : Nat) : Int), leftMask (mb % 64)⟩
        ⟨mB, (mb : Int), (nb : Int), (((nb + 63) / 64 : Nat) : Int), leftMask (nb % 64)⟩ cutoff)
      (liftM2 (Rec.trsmUpperLeftRec 2048 n)
        ⟨mU, (mb : Int), (mb : Int), (((mb + 63) / 64 : Nat) : Int), leftMask (mb % 64)⟩
        ⟨mB, (mb : Int), (nb : Int), (((nb + 63) / 64 : Nat) : Int), leftMask (nb % 64)⟩) := by
  induction n with
  | zero => intro cutoff mb nb hc mU mB; exact AgreeOn.refl _ _ _
  | succ n ih =>
    intro cutoff mb nb hc mU mB
    show AgreeOn mb ((nb + 63) / 64)
      (Gen.C.trsmUpperLeftRec cutoff mB mb nb (leftMask (nb % 64)) mU (((nb + 63) / 64 : Nat) : Int) mb mb
        (((mb + 63) / 64 : Nat) : Int) (leftMask (mb % 64)) ulRuss rsB rsU
        (cTrsmUL ulRuss addmulM rsB rsU n) addmulM) _
    rw [trsmUpperLeftRec_callee_congr cutoff rsB rsU mb nb mB mU _ _ ulRuss
      (cTrsmUL ulRuss addmulM rsB rsU n)
      (fun U B _ => liftM2 (Rec.trsmUpperLeftRec 2048 n) U B) addmulM
      (fun k mU' mB' _ _ => ih cutoff k nb hc mU' mB')]
    have h := trsmUpperLeftRec_step_view n cutoff rsB rsU (rawM mU mb mb) (rawM mB mb nb) (rawM_WF _ _ _)
      (rawM_WF _ _ _) (by simp) (by simp) (by simpa using hc) mB mU (by simpa using agree_rawM mB mb nb)
      (by simpa using agree_rawM mU mb mb)
    simp only [nrows_rawM, ncols_rawM, width_rawM, hb_rawM] at h
    exact h

/-- **every depth, on views** (upper-left) -/
theorem cTrsmUL_view (rsB rsU : Int) (n : Nat) (cutoff : Int) (U B : Mzd) (hU : U.WF) (hB : B.WF)
    (hUr : U.nrows = B.nrows) (hUc : U.ncols = B.nrows) (hc : 1 ≤ B.ncols) (mB mU : Mem)
    (hmB : AgreeOn B.nrows B.width mB (memOf B)) (hmU : AgreeOn U.nrows U.width mU (memOf U)) :
    AgreeOn B.nrows B.width
      (cTrsmUL ulRuss addmulM rsB rsU n ⟨mU, U.nrows, U.ncols, U.width, U.hb⟩
        ⟨mB, B.nrows, B.ncols, B.width, B.hb⟩ cutoff)
      (memOf (B.putB (Rec.trsmUpperLeftRec 2048 n U.toB B.toB))) := by
  have hwU : U.width = (B.nrows + 63) / 64 := by unfold Mzd.width widthOf; rw [hUc]
  have hhU : U.hb = leftMask (B.nrows % 64) := by unfold Mzd.hb; rw [hUc]
  rw [← liftM2_of _ U B hU hB]
  rw [hUr, hwU] at hmU
  rw [hUr, hUc, hwU, hhU]
  refine (cTrsmUL_raw rsB rsU n cutoff B.nrows B.ncols hc mU mB).trans ?_
  rw [liftM2_congr_nat (Rec.trsmUpperLeftRec 2048 n) B.nrows ((B.nrows + 63) / 64) B.nrows
    ((B.ncols + 63) / 64) _ _ _ _ _ _ hmU hmB]
  exact AgreeOn.refl _ _ _

/-- … hence with the substitution form, for every depth `n` -/
theorem cTrsmUL_view_subst (rsB rsU : Int) (n : Nat) (cutoff : Int) (U B : Mzd) (hU : U.WF) (hB : B.WF)
    (hUr : U.nrows = B.nrows) (hUc : U.ncols = B.nrows) (hc : 1 ≤ B.ncols) (mB mU : Mem)
    (hmB : AgreeOn B.nrows B.width mB (memOf B)) (hmU : AgreeOn U.nrows U.width mU (memOf U)) :
    AgreeOn B.nrows B.width
      (cTrsmUL ulRuss addmulM rsB rsU n ⟨mU, U.nrows, U.ncols, U.width, U.hb⟩
        ⟨mB, B.nrows, B.ncols, B.width, B.hb⟩ cutoff)
      (memOf (B.putB (trsmUpperLeft U.toB B.toB))) := by
  rw [← Rec.trsmUpperLeftRec_eq 2048 n (Mzd.WF_toB hB) (by rw [Mzd.nrows_toB, Mzd.nrows_toB, hUr])]
  exact cTrsmUL_view rsB rsU n cutoff U B hU hB hUr hUc hc mB mU hmB hmU

/-- **`_mzd_trsm_upper_left`, the C recursion at every depth, on whole matrices = the substitution form** -/
theorem cTrsmUL_correct (rsB rsU : Int) (n : Nat) (cutoff : Int) (U B : Mzd) (hU : U.WF) (hB : B.WF)
    (hUr : U.nrows = B.nrows) (hUc : U.ncols = B.nrows) (hc : 1 ≤ B.ncols) :
    cTrsmUL ulRuss addmulM rsB rsU n (CLoop.MView.of U) (CLoop.MView.of B) cutoff
      = memOf (B.putB (trsmUpperLeft U.toB B.toB)) := by
  have hE := fun fuel => Rec.trsmUpperLeftRec_eq 2048 fuel (U := U.toB) (Mzd.WF_toB hB)
    (by rw [Mzd.nrows_toB, Mzd.nrows_toB, hUr])
  cases n with
  | zero =>
    rw [← hE 0]
    exact liftM2_of _ U B hU hB
  | succ n =>
    rw [← hE (n + 1), ← trsmUpperLeftRec_step n cutoff rsB rsU U B hU hB hUr hUc hc]
    have hwU : U.width = (B.nrows + 63) / 64 := by unfold Mzd.width widthOf; rw [hUc]
    show Gen.C.trsmUpperLeftRec cutoff (memOf B) B.nrows B.ncols B.hb (memOf U) B.width U.nrows U.ncols U.width
      U.hb ulRuss rsB rsU (cTrsmUL ulRuss addmulM rsB rsU n) addmulM = _
    rw [hUr, hUc, hwU]
    exact trsmUpperLeftRec_callee_congr cutoff rsB rsU B.nrows B.ncols (memOf B) (memOf U) _ _ ulRuss
      _ _ addmulM (fun k mU' mB' _ _ => cTrsmUL_raw rsB rsU n cutoff k B.ncols hc mU' mB')

/-! ### 5. the unrolled recursions called on windows -/

/-- the unrolled C recursion called on two windows (as its callers do), result written back into `A`: the
    substitution form on the window values, for every depth `n` -/
theorem cTrsmUR_window (rsB rsT : Int) (n : Nat) (cutoff : Int) (A Tm : Mzd) (hA : A.WF)
    (lr lc hr hc ar ac ahr ahc : Nat) (hW : InWin A lr lc hr hc) (hWT : InWin Tm ar ac ahr ahc)
    (hsq1 : ahr - ar = hc - lc) (hsq2 : ahc - ac = hc - lc) :
    CLoop.unview (memOf A) (lr : Int) ((lc / 64 : Nat) : Int) ((hr - lr : Nat) : Int)
        (((hc - lc + 63) / 64 : Nat) : Int)
        (cTrsmUR urBase urTrtri addmulM rsB rsT n (winView (memOf Tm) ar ac ahr ahc) (winView (memOf A) lr lc hr hc) cutoff)
      = memOf (A.putB (A.toB.paste lr lc (trsmUpperRight (Tm.toB.sub ar ac ahr ahc) (A.toB.sub lr lc hr hc)))) := by
  have hBs : Shaped (A.toB.sub lr lc hr hc) (hr - lr) (hc - lc) :=
    (shaped_toB hA).sub lr lc hr hc hW.hr
  have hX : Shaped (trsmUpperRight (Tm.toB.sub ar ac ahr ahc) (A.toB.sub lr lc hr hc)) (hr - lr) (hc - lc) :=
    shaped_urRec 64 2048 0 (hBs) (by rw [nrows_sub, Mzd.nrows_toB]; have := hWT.hr; omega)
  apply unview_window_of_agree A hA lr lc hr hc hW.lc hW.hr hW.hc _ hX.nr hX.nc
  have h := cTrsmUR_view_subst rsB rsT n cutoff (Tm.window ar ac ahr ahc) (A.window lr lc hr hc)
    (window_WF _ _ _ _ _) (window_WF _ _ _ _ _) (by simp [hsq1]) (by simp [hsq2])
    _ _ (view_agree_window A lr lc hr hc) (view_agree_window Tm ar ac ahr ahc)
  simp only [nrows_window, ncols_window, width_window, hb_window] at h
  rw [window_toB A lr lc hr hc hW.lc hW.hr hW.hc, window_toB Tm ar ac ahr ahc hWT.lc hWT.hr hWT.hc] at h
  exact h

/-- the unrolled C recursion called on two windows (as its callers do), result written back into `A`: the
    substitution form on the window values, for every depth `n` -/
theorem cTrsmLR_window (rsB rsT : Int) (n : Nat) (cutoff : Int) (A Tm : Mzd) (hA : A.WF)
    (lr lc hr hc ar ac ahr ahc : Nat) (hW : InWin A lr lc hr hc) (hWT : InWin Tm ar ac ahr ahc)
    (hsq1 : ahr - ar = hc - lc) (hsq2 : ahc - ac = hc - lc) :
    CLoop.unview (memOf A) (lr : Int) ((lc / 64 : Nat) : Int) ((hr - lr : Nat) : Int)
        (((hc - lc + 63) / 64 : Nat) : Int)
        (cTrsmLR lrBase addmulM rsB rsT n (winView (memOf Tm) ar ac ahr ahc) (winView (memOf A) lr lc hr hc) cutoff)
      = memOf (A.putB (A.toB.paste lr lc (trsmLowerRight (Tm.toB.sub ar ac ahr ahc) (A.toB.sub lr lc hr hc)))) := by
  have hBs : Shaped (A.toB.sub lr lc hr hc) (hr - lr) (hc - lc) :=
    (shaped_toB hA).sub lr lc hr hc hW.hr
  have hX : Shaped (trsmLowerRight (Tm.toB.sub ar ac ahr ahc) (A.toB.sub lr lc hr hc)) (hr - lr) (hc - lc) :=
    shaped_lrRec 64 0 (hBs) (by rw [nrows_sub, Mzd.nrows_toB]; have := hWT.hr; omega)
  apply unview_window_of_agree A hA lr lc hr hc hW.lc hW.hr hW.hc _ hX.nr hX.nc
  have h := cTrsmLR_view_subst rsB rsT n cutoff (Tm.window ar ac ahr ahc) (A.window lr lc hr hc)
    (window_WF _ _ _ _ _) (window_WF _ _ _ _ _) (by simp [hsq1]) (by simp [hsq2])
    _ _ (view_agree_window A lr lc hr hc) (view_agree_window Tm ar ac ahr ahc)
  simp only [nrows_window, ncols_window, width_window, hb_window] at h
  rw [window_toB A lr lc hr hc hW.lc hW.hr hW.hc, window_toB Tm ar ac ahr ahc hWT.lc hWT.hr hWT.hc] at h
  exact h

/-- the unrolled C recursion called on two windows (as its callers do), result written back into `A`: the
    substitution form on the window values, for every depth `n` -/
theorem cTrsmLL_window (rsB rsT : Int) (n : Nat) (cutoff : Int) (A Tm : Mzd) (hA : A.WF)
    (lr lc hr hc ar ac ahr ahc : Nat) (hW : InWin A lr lc hr hc) (hWT : InWin Tm ar ac ahr ahc)
    (hsq1 : ahr - ar = hr - lr) (hsq2 : ahc - ac = hr - lr) (hc1 : 1 ≤ hc - lc) :
    CLoop.unview (memOf A) (lr : Int) ((lc / 64 : Nat) : Int) ((hr - lr : Nat) : Int)
        (((hc - lc + 63) / 64 : Nat) : Int)
        (cTrsmLL llRuss addmulM rsB rsT n (winView (memOf Tm) ar ac ahr ahc) (winView (memOf A) lr lc hr hc) cutoff)
      = memOf (A.putB (A.toB.paste lr lc (trsmLowerLeft (Tm.toB.sub ar ac ahr ahc) (A.toB.sub lr lc hr hc)))) := by
  have hBs : Shaped (A.toB.sub lr lc hr hc) (hr - lr) (hc - lc) :=
    (shaped_toB hA).sub lr lc hr hc hW.hr
  have hX : Shaped (trsmLowerLeft (Tm.toB.sub ar ac ahr ahc) (A.toB.sub lr lc hr hc)) (hr - lr) (hc - lc) :=
    shaped_llRec 2048 0 (hBs) (by rw [nrows_sub, Mzd.nrows_toB]; have := hWT.hr; omega)
  apply unview_window_of_agree A hA lr lc hr hc hW.lc hW.hr hW.hc _ hX.nr hX.nc
  have h := cTrsmLL_view_subst rsB rsT n cutoff (Tm.window ar ac ahr ahc) (A.window lr lc hr hc)
    (window_WF _ _ _ _ _) (window_WF _ _ _ _ _) (by simp [hsq1]) (by simp [hsq2]) (by simpa using hc1)
    _ _ (view_agree_window A lr lc hr hc) (view_agree_window Tm ar ac ahr ahc)
  simp only [nrows_window, ncols_window, width_window, hb_window] at h
  rw [window_toB A lr lc hr hc hW.lc hW.hr hW.hc, window_toB Tm ar ac ahr ahc hWT.lc hWT.hr hWT.hc] at h
  exact h

/-- the unrolled C recursion called on two windows (as its callers do), result written back into `A`: the
    substitution form on the window values, for every depth `n` -/
theorem cTrsmUL_window (rsB rsT : Int) (n : Nat) (cutoff : Int) (A Tm : Mzd) (hA : A.WF)
    (lr lc hr hc ar ac ahr ahc : Nat) (hW : InWin A lr lc hr hc) (hWT : InWin Tm ar ac ahr ahc)
    (hsq1 : ahr - ar = hr - lr) (hsq2 : ahc - ac = hr - lr) (hc1 : 1 ≤ hc - lc) :
    CLoop.unview (memOf A) (lr : Int) ((lc / 64 : Nat) : Int) ((hr - lr : Nat) : Int)
        (((hc - lc + 63) / 64 : Nat) : Int)
        (cTrsmUL ulRuss addmulM rsB rsT n (winView (memOf Tm) ar ac ahr ahc) (winView (memOf A) lr lc hr hc) cutoff)
      = memOf (A.putB (A.toB.paste lr lc (trsmUpperLeft (Tm.toB.sub ar ac ahr ahc) (A.toB.sub lr lc hr hc)))) := by
  have hBs : Shaped (A.toB.sub lr lc hr hc) (hr - lr) (hc - lc) :=
    (shaped_toB hA).sub lr lc hr hc hW.hr
  have hX : Shaped (trsmUpperLeft (Tm.toB.sub ar ac ahr ahc) (A.toB.sub lr lc hr hc)) (hr - lr) (hc - lc) :=
    shaped_ulRec 2048 0 (hBs) (by rw [nrows_sub, Mzd.nrows_toB]; have := hWT.hr; omega)
  apply unview_window_of_agree A hA lr lc hr hc hW.lc hW.hr hW.hc _ hX.nr hX.nc
  have h := cTrsmUL_view_subst rsB rsT n cutoff (Tm.window ar ac ahr ahc) (A.window lr lc hr hc)
    (window_WF _ _ _ _ _) (window_WF _ _ _ _ _) (by simp [hsq1]) (by simp [hsq2]) (by simpa using hc1)
    _ _ (view_agree_window A lr lc hr hc) (view_agree_window Tm ar ac ahr ahc)
  simp only [nrows_window, ncols_window, width_window, hb_window] at h
  rw [window_toB A lr lc hr hc hW.lc hW.hr hW.hc, window_toB Tm ar ac ahr ahc hWT.lc hWT.hr hWT.hc] at h
  exact h

end M4ri.GenTieClose

#print axioms M4ri.GenTieClose.cTrsmUR_raw
#print axioms M4ri.GenTieClose.cTrsmUR_view_subst
#print axioms M4ri.GenTieClose.cTrsmUR_correct
#print axioms M4ri.GenTieClose.cTrsmLR_raw
#print axioms M4ri.GenTieClose.cTrsmLR_view_subst
#print axioms M4ri.GenTieClose.cTrsmLR_correct
#print axioms M4ri.GenTieClose.cTrsmLL_raw
#print axioms M4ri.GenTieClose.cTrsmLL_view_subst
#print axioms M4ri.GenTieClose.cTrsmLL_correct
#print axioms M4ri.GenTieClose.cTrsmUL_raw
#print axioms M4ri.GenTieClose.cTrsmUL_view_subst
#print axioms M4ri.GenTieClose.cTrsmUL_correct
#print axioms M4ri.GenTieClose.cTrsmUR_window
#print axioms M4ri.GenTieClose.cTrsmLR_window
#print axioms M4ri.GenTieClose.cTrsmLL_window
#print axioms M4ri.GenTieClose.cTrsmUL_window
