/-
  PB27: the END-TO-END theorems for the real routine stack.  Every layer has a proved mirror; this file composes them,
  for EVERY cache triple `L1 L2 L3` (the only hypothesis any layer puts on the triple is `15 ≤ L3`, in
  `mzd_trtri_upper` / `_mzd_trsm_upper_right` only; `Admissible.l3`: it holds in every admissible configuration) and
  every well-formed input.  No model code here; everything lives in `M4ri.BMat.Top`.

    layer                                   mirror                          proved in
    `_mzd_ple_russian`                      `PR.pleRussian`                 PleRussian.lean  (= `pleNaive`, every input)
    `_mzd_ple` (= `mzd_ple`)                `PR.pleTop L1 L2 L3`            TrsmRec.lean / PleRussian.lean / Glue2.lean
    `_mzd_pluq` (= `mzd_pluq`)              `PR.pluqTop L1 L2 L3`           here: `= G2.pluqOfPle (PR.pleTop L1 L2 L3)`
    `mzd_echelonize_pluq`                   `PN.echelonizePluq fact`        PleNaive.lean
    `mzd_echelonize` (hybrid)               `G2.echelonizeHybrid`           Glue2.lean
    `_mzd_solve_left`, `mzd_kernel_left_pluq`  `SV.solveLeft`, `SV.kernelLeftPluq`   Solve.lean
    `_mzd_trsm_*`, `mzd_trtri_upper`        `TB.trsm…C`, `TB.trtriUpperC`   TrsmBase.lean
    `mzd_inv_m4ri`                          `G2.invM4ri`                    Glue2.lean

    §1  `goodPle_pleTop`, `pluqTop_eq` (the two mirrors of `_mzd_pluq` agree on every well-formed input),
        `pluqTop_profile`, `pluqTop_isPLUQ`, `checkPLUQ_pluqTop`, `pluqTop_rank_profile`, `checkPLE_pleTop`
    §2  C02: `echelonizePluq_pluqTop`, `echelonizePluq_pleTop`, `goodPluqEch_top`, `echelonizeHybrid_top_correct`,
        `echelonizeHybrid_top_full_eq`, `all_routes_agree`
    §3  C03: `pleTop_c03`, `pluqTop_c03`, `pluqTop_mathlib`, `pleTop_mathlib`, `pluqTop_mat`
    §4  C06 / C07: `solveLeft_top_verdict(_iff)`, `solveLeft_top_solution`, `solveLeft_top_nocheck`,
        `kernelLeftPluq_top_none_iff`, `kernelLeftPluq_top_some`, `kernelLeftPluq_top_basis`, `kernelLeftPluq_top_mathlib`
    §5  C04 / C05: `paramsOf`, `Admissible`, `trsm_lower_left`, `trsm_upper_left`, `trsm_lower_right`,
        `trsm_upper_right` (+ `_solves`, `_mathlib`), `trtri_upper`, `trtri_full`, `trtri_upper_spec`, `inv_m4ri`,
        `inv_m4ri_mathlib`, `inv_m4ri_any`
    §6  non-vacuity: closed instances and kernel-checked runs of the model on concrete matrices
-/
import M4riProofs.PR.Pluq
import M4riProofs.Glue2
import M4riProofs.TrsmBase
import M4riProofs.MathlibSpec
namespace M4ri
namespace BMat
namespace Top
open PN Rec

/-! ## §1 `mzd_ple` = `PR.pleTop`, `mzd_pluq` = `PR.pluqTop` -/

/-- the real base case (`_mzd_ple_russian(Abar, P, Q, 0)` with the configured L2 size) leaves well-formed storage and
    `Q[i] = i` from the rank on -/
theorem extra_russian (l2 : Nat) (A : BMat) (hA : A.WF) :
    G2.Extra A (PR.pleRussian A (Array.range A.nrows) (Array.range A.ncols) 0 l2) := by
  have hP : (Array.range A.nrows).size = A.nrows := by simp
  have hQ : (Array.range A.ncols).size = A.ncols := by simp
  rw [PR.pleRussian_eq_pleNaive hA hP hQ 0 l2 (by omega)]
  refine ⟨pleNaive_WF hA hP hQ, fun i h1 h2 => ?_⟩
  have := PR.pleNaive_Q_tail hA hP hQ i h1 h2
  rw [this]; exact ⟨Nat.le_refl _, h2⟩

/-- **`mzd_ple` is a good PLE routine** (well-formed storage, `IsPLE` certificate, LAPACK tail of `Q` on every
    well-formed input), for EVERY cache triple -/
theorem goodPle_pleTop (L1 L2 L3 : Nat) : G2.GoodPle (PR.pleTop L1 L2 L3) := fun A hA =>
  G2.goodPle_pleRec (PR.goodBase_russian _ _ (fun _ => by simp) (fun _ => by simp) 0 L2 (by omega))
    (extra_russian L2) Gen.radix (Gen.pleCutoff L1 L2 L3) Gen.radix A.ncols A hA

/-- `mzd_apply_p_right_trans_tri` on the window of the first `r` rows, written back (the form `PR.pluqTop` uses), is
    `G2.applyPRightTransTriRows` (the form `G2.pluqOfPle` uses): well-formed `S`, `Q` with entries in range, `r ≤ nrows` -/
theorem paste_tri_eq {S : BMat} (hS : S.WF) {Q : Array Nat} (hQ : ∀ i, i < S.ncols → Q.getD i 0 < S.ncols)
    {r : Nat} (hr : r ≤ S.nrows) :
    S.paste 0 0 ((S.sub 0 0 r S.ncols).applyPRightTransTri Q) = G2.applyPRightTransTriRows S Q r := by
  have eW : (S.sub 0 0 r S.ncols).applyPRightTransTri Q =
      G2.applyPRightTransTriRows (S.sub 0 0 r S.ncols) Q (S.sub 0 0 r S.ncols).nrows :=
    (G2.applyPRightTransTriRows_nrows _ Q).symm
  have enr : (S.sub 0 0 r S.ncols).nrows = r := by rw [nrows_sub]; omega
  have enc : (S.sub 0 0 r S.ncols).ncols = S.ncols := by rw [ncols_sub]; omega
  rw [eW, enr]
  obtain ⟨shW, gW⟩ := G2.tri_get (S.sub 0 0 r S.ncols) Q r
  obtain ⟨shS, gS⟩ := G2.tri_get S Q r
  rw [enc] at gW
  generalize G2.applyPRightTransTriRows (S.sub 0 0 r S.ncols) Q r = W' at shW gW
  have sP : Shaped (S.paste 0 0 W') S.nrows S.ncols :=
    (Shaped.of hS).paste W' 0 0 (by rw [shW.2.1, enc]; omega)
  apply ext_get sP.wf (G2.tri_WF hS hQ r) (by rw [shS.1]; rfl) (by rw [shS.2.1]; rfl)
  intro i j hi hj
  have hi' : i < S.nrows := hi
  have hj' : j < S.ncols := hj
  rw [get_paste, gS, shW.1, shW.2.1, enr, enc, hS.1]
  by_cases hir : i < r
  · rw [if_pos ⟨hi', Nat.zero_le _, by omega, Nat.zero_le _, by omega⟩, if_pos hir, Nat.sub_zero, Nat.sub_zero, gW,
      if_pos hir, get_sub]
    have hlt : rowPermInv Q (min (i + 1) S.ncols) (rowPerm Q S.ncols j) < S.ncols := by
      have p1 := rowPerm_permOn Q S.ncols S.ncols (Nat.le_refl _) hQ
      have p2 := rowPerm_permOn Q S.ncols (min (i + 1) S.ncols) (Nat.min_le_right _ _)
        (fun t ht => hQ t (by omega))
      exact (p2.1 _ (p1.1 j hj').1).2
    have : i < min (r - 0) (S.nrows - 0) ∧ rowPermInv Q (min (i + 1) S.ncols) (rowPerm Q S.ncols j) < S.ncols - 0 :=
      ⟨by omega, by omega⟩
    simp only [this, decide_true, Bool.true_and, Nat.zero_add, and_self]
  · rw [if_neg (by omega), if_neg hir]

section s1
variable (L1 L2 L3 : Nat) {A : BMat} (hA : A.WF)

/-- `P`, `Q` and the rank of `mzd_pluq` are those of `mzd_ple` (every input) -/
theorem pluqTop_snd (A : BMat) : (PR.pluqTop L1 L2 L3 A).2 = (PR.pleTop L1 L2 L3 A).2 := rfl

include hA

/-- **the two mirrors of `_mzd_pluq` agree** on every well-formed input (the shape every C caller provides; the two
    definitions write the pivot-row window back differently — `paste ∘ sub` versus a row bound — which is only
    compared here where the storage and `Q` left by `mzd_ple` are known to be in range) -/
theorem pluqTop_eq : PR.pluqTop L1 L2 L3 A = G2.pluqOfPle (PR.pleTop L1 L2 L3) A := by
  obtain ⟨hS, h, hQt⟩ := goodPle_pleTop L1 L2 L3 A hA
  unfold PR.pluqTop G2.pluqOfPle
  generalize PR.pleTop L1 L2 L3 A = o at hS h hQt
  obtain ⟨S, P, Q, r⟩ := o
  simp only [] at hS h hQt ⊢
  have hQ : ∀ i, i < S.ncols → Q.getD i 0 < S.ncols := by
    intro i hi
    rw [h.ncols_eq] at hi ⊢
    by_cases c : i < r
    · exact (h.pivot_range i c).2
    · exact (hQt i (by omega) hi).2
  by_cases c : r ≠ 0 ∧ r < S.nrows
  · rw [if_pos c, if_pos ⟨by omega, c.2⟩, paste_tri_eq hS hQ (by omega)]
  · rw [if_neg c, if_neg (by omega), G2.applyPRightTransTriRows_nrows]

end s1
section s1b
variable (L1 L2 L3 : Nat) {A : BMat} (hA : A.WF)
include hA

/-- **C03, `mzd_pluq`, every cache triple, every well-formed input**: a rank-profile revealing PLUQ certificate
    (`IsProfilePLUQ`: `IsPLUQ` + strictly increasing pivot columns + echelon shape of `U·Q`) in well-formed storage -/
theorem pluqTop_profile :
    IsProfilePLUQ A (PR.pluqTop L1 L2 L3 A).1 (PR.pluqTop L1 L2 L3 A).2.1 (PR.pluqTop L1 L2 L3 A).2.2.1
      (PR.pluqTop L1 L2 L3 A).2.2.2 ∧ (PR.pluqTop L1 L2 L3 A).1.WF := by
  obtain ⟨hS, h, hQt⟩ := goodPle_pleTop L1 L2 L3 A hA
  rw [pluqTop_eq L1 L2 L3 hA]
  exact G2.pluqOfPle_profile hS h hQt

theorem pluqTop_isPLUQ :
    IsPLUQ A (PR.pluqTop L1 L2 L3 A).1 (PR.pluqTop L1 L2 L3 A).2.1 (PR.pluqTop L1 L2 L3 A).2.2.1
      (PR.pluqTop L1 L2 L3 A).2.2.2 := (pluqTop_profile L1 L2 L3 hA).1.pluq

theorem pluqTop_WF : (PR.pluqTop L1 L2 L3 A).1.WF := (pluqTop_profile L1 L2 L3 hA).2

/-- the executable checker accepts what `mzd_pluq` returns -/
theorem checkPLUQ_pluqTop :
    checkPLUQ A (PR.pluqTop L1 L2 L3 A).1 (PR.pluqTop L1 L2 L3 A).2.1 (PR.pluqTop L1 L2 L3 A).2.2.1
      (PR.pluqTop L1 L2 L3 A).2.2.2 = true := checkPLUQ_complete (pluqTop_isPLUQ L1 L2 L3 hA)

/-- the value `mzd_pluq` returns is the rank, and `Q[0..r)` is the column rank profile -/
theorem pluqTop_rank_profile :
    (PR.pluqTop L1 L2 L3 A).2.2.2 = A.rank ∧
    (List.range (PR.pluqTop L1 L2 L3 A).2.2.2).map (fun i => (PR.pluqTop L1 L2 L3 A).2.2.1.getD i 0) = A.rankProfile :=
  PR.pleTop_rank_profile L1 L2 L3 hA

theorem pluqTop_rank : (PR.pluqTop L1 L2 L3 A).2.2.2 = A.rank := (pluqTop_rank_profile L1 L2 L3 hA).1

/-- `mzd_ple`: storage well formed -/
theorem pleTop_WF : (PR.pleTop L1 L2 L3 A).1.WF := (goodPle_pleTop L1 L2 L3 A hA).1

/-- the executable checker accepts what `mzd_ple` returns -/
theorem checkPLE_pleTop :
    checkPLE A (PR.pleTop L1 L2 L3 A).1 (PR.pleTop L1 L2 L3 A).2.1 (PR.pleTop L1 L2 L3 A).2.2.1
      (PR.pleTop L1 L2 L3 A).2.2.2 = true := checkPLE_complete (PR.pleTop_isPLE L1 L2 L3 hA)

/-- `Q` as left by `mzd_ple` / `mzd_pluq` is in LAPACK form on ALL of `[0, ncols)` (`IsPLE` says so below the rank only) -/
theorem pleTop_Q_lapack : ∀ i, i < A.ncols →
    i ≤ (PR.pleTop L1 L2 L3 A).2.2.1.getD i 0 ∧ (PR.pleTop L1 L2 L3 A).2.2.1.getD i 0 < A.ncols :=
  (pluqTop_isPLUQ L1 L2 L3 hA).Q_lapack

end s1b

/-! ## §2 C02: `mzd_echelonize_pluq`, `mzd_echelonize` (hybrid), all routes agree -/

/-- `mzd_echelonize_pluq` only looks at the factorisation of its own argument -/
theorem echelonizePluq_congr {f g : BMat → BMat × Array Nat × Array Nat × Nat} {A : BMat} (h : f A = g A)
    (full : Bool) : echelonizePluq f A full = echelonizePluq g A full := by
  unfold echelonizePluq
  rw [h]

/-- `mzd_echelonize_pluq(W, full)` over the real factorisations: `mzd_pluq` when `full`, `mzd_ple` otherwise -/
def pluqEchTop (L1 L2 L3 : Nat) : BMat → Bool → BMat × Nat :=
  fun W full => echelonizePluq (if full then PR.pluqTop L1 L2 L3 else PR.pleTop L1 L2 L3) W full

section s2
variable (L1 L2 L3 : Nat) {A : BMat} (hA : A.WF)
include hA

/-- **C02, `mzd_echelonize_pluq(A, 1)` end to end**: THE reduced row echelon form and the rank -/
theorem echelonizePluq_pluqTop : echelonizePluq (PR.pluqTop L1 L2 L3) A true = (A.rref, A.rank) := by
  rw [echelonizePluq_congr (pluqTop_eq L1 L2 L3 hA) true]
  exact G2.echelonizePluq_full_eq (goodPle_pleTop L1 L2 L3) hA

/-- **C02, `mzd_echelonize_pluq(A, 0)` end to end** (the C code calls `mzd_ple` here): well-formed, accepted by
    `checkEchelon` … -/
theorem echelonizePluq_pleTop_check :
    (echelonizePluq (PR.pleTop L1 L2 L3) A false).1.WF ∧
    checkEchelon A (echelonizePluq (PR.pleTop L1 L2 L3) A false).1 (echelonizePluq (PR.pleTop L1 L2 L3) A false).2
      false = true := G2.echelonizePluq_ech_check (goodPle_pleTop L1 L2 L3) hA

/-- … i.e. the shape of `A`, the row space of `A`, a row echelon form with exactly `rank A` non-zero rows which come
    first, and the value returned is `rank A` -/
theorem echelonizePluq_pleTop :
    let o := echelonizePluq (PR.pleTop L1 L2 L3) A false
    o.1.WF ∧ o.1.nrows = A.nrows ∧ o.1.ncols = A.ncols ∧ o.2 = A.rank ∧ SameSpan A o.1 ∧ o.1.isRowEchelon = true ∧
      o.1.rowList.countP (fun v => v != 0) = A.rank ∧ (∀ i, A.rank ≤ i → o.1.row i = 0) := by
  intro o
  obtain ⟨w, c⟩ := echelonizePluq_pleTop_check L1 L2 L3 hA
  obtain ⟨e1, e2, e3, e4, e5, e6, e7, _⟩ := checkEchelon_sound hA w _ false c
  exact ⟨w, e1, e2, e3, e4, e5, e3 ▸ e6, e3 ▸ e7⟩

end s2

/-- `mzd_echelonize_pluq` over the real factorisations meets C02 on every well-formed input -/
theorem goodPluqEch_top (L1 L2 L3 : Nat) :
    G2.GoodPluqEch (fun W full => echelonizePluq (if full then PR.pluqTop L1 L2 L3 else PR.pleTop L1 L2 L3) W full) := by
  intro W full hW
  cases full with
  | false => exact echelonizePluq_pleTop_check L1 L2 L3 hW
  | true =>
    simp only [if_true]
    rw [echelonizePluq_pluqTop L1 L2 L3 hW]
    exact ⟨rref_WF hW, checkEchelon_rref hW⟩

section s2b
variable (L1 L2 L3 : Nat) (switch : Nat → Nat → BMat → Bool) {A : BMat} (hA : A.WF) (full : Bool) {k : Nat} (hk : 1 ≤ k)
  (ktop : Nat → Nat) (hkt : ∀ r, 1 ≤ ktop r) (junk junkTop : Nat → Nat)
include hA hk hkt

/-- **C02, `mzd_echelonize(A, full)` = `_mzd_echelonize_m4ri(A, full, k, 1, threshold)` end to end**, the whole stack
    hybrid → `mzd_echelonize_pluq` → `mzd_pluq` / `mzd_ple` → `_mzd_ple_russian`: for EVERY density decision `switch`,
    every cache triple, every `k ≥ 1`, every `ktop ≥ 1`, whatever the index arrays contain on entry -/
theorem echelonizeHybrid_top_correct :
    let o := G2.echelonizeHybrid switch
      (fun W full => echelonizePluq (if full then PR.pluqTop L1 L2 L3 else PR.pleTop L1 L2 L3) W full)
      A full k ktop junk junkTop
    o.1.WF ∧ o.1.nrows = A.nrows ∧ o.1.ncols = A.ncols ∧ SameSpan A o.1 ∧ o.1.isRowEchelon = true ∧ o.2 = A.rank ∧
      (∀ i, o.2 ≤ i → o.1.row i = 0) ∧ (full = true → o.1 = A.rref) ∧ checkEchelon A o.1 o.2 full = true :=
  G2.echelonizeHybrid_correct switch (goodPluqEch_top L1 L2 L3) hA full hk ktop hkt junk junkTop

omit hA hk hkt in
/-- … with `full`: `(A.rref, A.rank)` -/
theorem echelonizeHybrid_top_full_eq (hA : A.WF) (hk : 1 ≤ k) (hkt : ∀ r, 1 ≤ ktop r) :
    G2.echelonizeHybrid switch
      (fun W full => echelonizePluq (if full then PR.pluqTop L1 L2 L3 else PR.pleTop L1 L2 L3) W full)
      A true k ktop junk junkTop = (A.rref, A.rank) :=
  G2.echelonizeHybrid_full_eq switch (goodPluqEch_top L1 L2 L3) hA hk ktop hkt junk junkTop

omit hA hk hkt in
/-- **all routes agree** when `full`: naive Gauss (`mzd_echelonize_naive`), M4RI (`_mzd_echelonize_m4ri` without the
    heuristic, every `k' ≥ 1`), PLUQ-based (`mzd_echelonize_pluq`) and the hybrid (`mzd_echelonize`, every `switch`)
    all return the pair `(A.rref, A.rank)` -/
theorem all_routes_agree (hA : A.WF) (hk : 1 ≤ k) (hkt : ∀ r, 1 ≤ ktop r) {k' : Nat} (hk' : 1 ≤ k')
    (junk' : Nat → Nat) :
    gaussDelayed A 0 true = (A.rref, A.rank) ∧
    M4RI.echelonizeM4ri A true k' junk' = (A.rref, A.rank) ∧
    echelonizePluq (PR.pluqTop L1 L2 L3) A true = (A.rref, A.rank) ∧
    G2.echelonizeHybrid switch
      (fun W full => echelonizePluq (if full then PR.pluqTop L1 L2 L3 else PR.pleTop L1 L2 L3) W full)
      A true k ktop junk junkTop = (A.rref, A.rank) := by
  obtain ⟨_, _, _, _, _, m1, _, m2, _⟩ := M4RI.echelonizeM4ri_correct hA true hk' junk'
  exact ⟨rfl, Prod.ext (m2 rfl) m1, echelonizePluq_pluqTop L1 L2 L3 hA,
    echelonizeHybrid_top_full_eq L1 L2 L3 switch ktop junk junkTop hA hk hkt⟩

end s2b

/-! ## §3 C03: `mzd_ple` / `mzd_pluq`, the whole specification in one place -/

section s3
variable (L1 L2 L3 : Nat) {A : BMat} (hA : A.WF)
include hA

/-- **C03, `mzd_ple(A, P, Q, cutoff)` end to end**, every cache triple, every well-formed `A`: the storage left in `A`
    is well formed; `(S, P, Q, r)` is a valid PLE factorisation in the library's convention (`IsPLE`: `P·L·E = A` entry
    by entry, `L` unit lower trapezoidal, `E` in echelon form with strictly increasing pivot columns `Q[0..r)`, zero
    storage elsewhere), accepted by `checkPLE`; `P` and `Q` are in LAPACK form on their whole length and `P` fixes
    the rows from the rank on; `r = rank A` and `Q[0..r)` is the column rank profile -/
theorem pleTop_c03 :
    let o := PR.pleTop L1 L2 L3 A
    o.1.WF ∧ IsPLE A o.1 o.2.1 o.2.2.1 o.2.2.2 ∧ checkPLE A o.1 o.2.1 o.2.2.1 o.2.2.2 = true ∧
    (o.2.1.size = A.nrows ∧ ∀ i, i < A.nrows → i ≤ o.2.1.getD i 0 ∧ o.2.1.getD i 0 < A.nrows) ∧
    (o.2.2.1.size = A.ncols ∧ ∀ i, i < A.ncols → i ≤ o.2.2.1.getD i 0 ∧ o.2.2.1.getD i 0 < A.ncols) ∧
    (∀ i, o.2.2.2 ≤ i → i < A.nrows → o.2.1.getD i 0 = i) ∧
    o.2.2.2 = A.rank ∧ (List.range o.2.2.2).map (fun i => o.2.2.1.getD i 0) = A.rankProfile := by
  intro o
  have h := PR.pleTop_isPLE L1 L2 L3 hA
  exact ⟨pleTop_WF L1 L2 L3 hA, h, checkPLE_pleTop L1 L2 L3 hA, ⟨h.P_size, h.P_lapack⟩,
    ⟨h.Q_size, pleTop_Q_lapack L1 L2 L3 hA⟩, (PR.pleTop_good L1 L2 L3 hA).tail,
    (PR.pleTop_rank_profile L1 L2 L3 hA).1, (PR.pleTop_rank_profile L1 L2 L3 hA).2⟩

/-- **C03, `mzd_pluq(A, P, Q, cutoff)` end to end**: well-formed storage; a valid PLUQ factorisation in the library's
    convention (`IsPLUQ`: `Pᵀ·A·Qᵀ = L·U` entry by entry, `L` unit lower trapezoidal, `U` unit upper trapezoidal, zero
    storage elsewhere, `P`, `Q` in LAPACK form) that reveals the rank profile (`IsProfilePLUQ`), accepted by
    `checkPLUQ`; `P`, `Q`, `r` are those of `mzd_ple`; `r = rank A`, `Q[0..r)` = column rank profile -/
theorem pluqTop_c03 :
    let o := PR.pluqTop L1 L2 L3 A
    o.1.WF ∧ IsPLUQ A o.1 o.2.1 o.2.2.1 o.2.2.2 ∧ IsProfilePLUQ A o.1 o.2.1 o.2.2.1 o.2.2.2 ∧
    checkPLUQ A o.1 o.2.1 o.2.2.1 o.2.2.2 = true ∧ o.2 = (PR.pleTop L1 L2 L3 A).2 ∧
    (o.2.1.size = A.nrows ∧ ∀ i, i < A.nrows → i ≤ o.2.1.getD i 0 ∧ o.2.1.getD i 0 < A.nrows) ∧
    (o.2.2.1.size = A.ncols ∧ ∀ i, i < A.ncols → i ≤ o.2.2.1.getD i 0 ∧ o.2.2.1.getD i 0 < A.ncols) ∧
    o.2.2.2 = A.rank ∧ (List.range o.2.2.2).map (fun i => o.2.2.1.getD i 0) = A.rankProfile := by
  intro o
  have h := pluqTop_isPLUQ L1 L2 L3 hA
  exact ⟨pluqTop_WF L1 L2 L3 hA, h, (pluqTop_profile L1 L2 L3 hA).1, checkPLUQ_pluqTop L1 L2 L3 hA, rfl,
    ⟨h.P_size, h.P_lapack⟩, ⟨h.Q_size, h.Q_lapack⟩, (pluqTop_rank_profile L1 L2 L3 hA).1,
    (pluqTop_rank_profile L1 L2 L3 hA).2⟩

/-- **`mzd_pluq` in Mathlib's terms**: `A = p · (L · U) · q` with permutation matrices `p`, `q`, `L` unit lower
    trapezoidal, `U` unit upper trapezoidal, and `Matrix.rank A` = the value returned -/
theorem pluqTop_mathlib :
    ∃ (p : Equiv.Perm (Fin A.nrows)) (q : Equiv.Perm (Fin A.ncols))
      (L : Matrix (Fin A.nrows) (Fin (PR.pluqTop L1 L2 L3 A).2.2.2) (ZMod 2))
      (U : Matrix (Fin (PR.pluqTop L1 L2 L3 A).2.2.2) (Fin A.ncols) (ZMod 2)),
      ML.mat A.nrows A.ncols A = p.permMatrix (ZMod 2) * (L * U) * q.permMatrix (ZMod 2) ∧
      (∀ (i : Fin A.nrows) (j : Fin (PR.pluqTop L1 L2 L3 A).2.2.2), (i : Nat) < j → L i j = 0) ∧
      (∀ (i : Fin A.nrows) (j : Fin (PR.pluqTop L1 L2 L3 A).2.2.2), (i : Nat) = j → L i j = 1) ∧
      (∀ (i : Fin (PR.pluqTop L1 L2 L3 A).2.2.2) (j : Fin A.ncols), (j : Nat) < i → U i j = 0) ∧
      (∀ (i : Fin (PR.pluqTop L1 L2 L3 A).2.2.2) (j : Fin A.ncols), (i : Nat) = j → U i j = 1) ∧
      (ML.mat A.nrows A.ncols A).rank = (PR.pluqTop L1 L2 L3 A).2.2.2 :=
  ML.checkPLUQ_mathlib hA (checkPLUQ_pluqTop L1 L2 L3 hA)

/-- **`mzd_ple` in Mathlib's terms**: `A = p · (L · E)`, `L` unit lower trapezoidal, `E` in echelon form with strictly
    increasing pivot columns, `Matrix.rank A` = the value returned -/
theorem pleTop_mathlib :
    ∃ (p : Equiv.Perm (Fin A.nrows))
      (L : Matrix (Fin A.nrows) (Fin (PR.pleTop L1 L2 L3 A).2.2.2) (ZMod 2))
      (E : Matrix (Fin (PR.pleTop L1 L2 L3 A).2.2.2) (Fin A.ncols) (ZMod 2))
      (piv : Fin (PR.pleTop L1 L2 L3 A).2.2.2 → Fin A.ncols),
      ML.mat A.nrows A.ncols A = p.permMatrix (ZMod 2) * (L * E) ∧
      (∀ (i : Fin A.nrows) (j : Fin (PR.pleTop L1 L2 L3 A).2.2.2), (i : Nat) < j → L i j = 0) ∧
      (∀ (i : Fin A.nrows) (j : Fin (PR.pleTop L1 L2 L3 A).2.2.2), (i : Nat) = j → L i j = 1) ∧
      StrictMono piv ∧ (∀ i j, j < piv i → E i j = 0) ∧ (∀ i, E i (piv i) = 1) ∧
      (ML.mat A.nrows A.ncols A).rank = (PR.pleTop L1 L2 L3 A).2.2.2 :=
  ML.checkPLE_mathlib hA (checkPLE_pleTop L1 L2 L3 hA)

/-- the explicit Mathlib factorisation: the permutations are the LAPACK products of `P`, `Q`, the factors are read from
    the storage -/
theorem pluqTop_mat :
    ML.mat A.nrows A.ncols A =
      ((ML.lapackPerm (PR.pluqTop L1 L2 L3 A).2.1 A.nrows
          fun i hi => ((pluqTop_isPLUQ L1 L2 L3 hA).P_lapack i hi).2)⁻¹).permMatrix (ZMod 2) *
        (ML.mat A.nrows (PR.pluqTop L1 L2 L3 A).2.2.2
            (lowerFactor (PR.pluqTop L1 L2 L3 A).1 (PR.pluqTop L1 L2 L3 A).2.2.2) *
          ML.mat (PR.pluqTop L1 L2 L3 A).2.2.2 A.ncols
            (upperFactor (PR.pluqTop L1 L2 L3 A).1 (PR.pluqTop L1 L2 L3 A).2.2.2)) *
        (ML.lapackPerm (PR.pluqTop L1 L2 L3 A).2.2.1 A.ncols
          fun i hi => ((pluqTop_isPLUQ L1 L2 L3 hA).Q_lapack i hi).2).permMatrix (ZMod 2) :=
  ML.mat_of_isPLUQ (pluqTop_isPLUQ L1 L2 L3 hA) hA

/-! ## §4 C06 / C07: `mzd_solve_left`, `mzd_kernel_left_pluq` end to end -/

/-- **C06, `_mzd_solve_left(A, B, cutoff, 1)` over `mzd_pluq`**: the verdict is solvability of the (padded) system -/
theorem solveLeft_top_verdict {B : BMat} (hB : B.WF) (hBr : B.nrows = max A.nrows A.ncols) :
    (SV.solveLeft (PR.pluqTop L1 L2 L3) A B true).1 = (if solvable A B then 0 else -1) :=
  SV.solveLeft_verdict hA hB hBr (pluqTop_isPLUQ L1 L2 L3 hA)

/-- … `0` is returned iff a solution exists -/
theorem solveLeft_top_verdict_iff {B : BMat} (hB : B.WF) (hBr : B.nrows = max A.nrows A.ncols) :
    (SV.solveLeft (PR.pluqTop L1 L2 L3) A B true).1 = 0 ↔
      ∃ X : BMat, X.WF ∧ X.nrows = A.ncols ∧ X.ncols = B.ncols ∧ (padRows A).mul X = B :=
  SV.solveLeft_verdict_iff hA hB hBr (pluqTop_isPLUQ L1 L2 L3 hA)

/-- … when `0` is returned the first `ncols A` rows left in `B` solve the system (padding rows included) … -/
theorem solveLeft_top_solution {B : BMat} (hB : B.WF) (hBr : B.nrows = max A.nrows A.ncols)
    (hret : (SV.solveLeft (PR.pluqTop L1 L2 L3) A B true).1 = 0) :
    (padRows A).mul ((SV.solveLeft (PR.pluqTop L1 L2 L3) A B true).2.2.sub 0 0 A.ncols B.ncols) = B :=
  SV.solveLeft_solution hA hB hBr (pluqTop_isPLUQ L1 L2 L3 hA) hret

/-- … and with the consistency check off `0` is returned and a solution is delivered whenever one exists -/
theorem solveLeft_top_nocheck {B : BMat} (hB : B.WF) (hBr : B.nrows = max A.nrows A.ncols) :
    (SV.solveLeft (PR.pluqTop L1 L2 L3) A B false).1 = 0 ∧
    (SV.Solvable A B →
      (padRows A).mul ((SV.solveLeft (PR.pluqTop L1 L2 L3) A B false).2.2.sub 0 0 A.ncols B.ncols) = B) :=
  SV.solveLeft_nocheck hA hB hBr (pluqTop_isPLUQ L1 L2 L3 hA)

/-- **C07, `mzd_kernel_left_pluq(A, cutoff)` over `mzd_pluq`**: `NULL` iff `rank A = ncols A` … -/
theorem kernelLeftPluq_top_none_iff : SV.kernelLeftPluq (PR.pluqTop L1 L2 L3) A = none ↔ A.rank = A.ncols :=
  SV.kernelLeftPluq_none_iff hA (pluqTop_isPLUQ L1 L2 L3 hA)

/-- … otherwise `K` is well formed, `ncols A × (ncols A − rank A)`, `A·K = 0`, of full column rank … -/
theorem kernelLeftPluq_top_some {K : BMat} (hK : SV.kernelLeftPluq (PR.pluqTop L1 L2 L3) A = some K) :
    K.WF ∧ K.nrows = A.ncols ∧ K.ncols = A.ncols - A.rank ∧ 0 < K.ncols ∧
      A.mul K = zero A.nrows K.ncols ∧ (A.mul K).eqM (zero A.nrows K.ncols) = true ∧ K.rank = K.ncols :=
  SV.kernelLeftPluq_some hA (pluqTop_isPLUQ L1 L2 L3 hA) hK

/-- … and its columns are a basis of the right null space of `A` -/
theorem kernelLeftPluq_top_basis {K : BMat} (hK : SV.kernelLeftPluq (PR.pluqTop L1 L2 L3) A = some K) :
    A.mul K = zero A.nrows K.ncols ∧
    (∀ V : BMat, V.WF → V.nrows = A.ncols → A.mul V = zero A.nrows V.ncols →
      ∃ W : BMat, W.WF ∧ W.nrows = K.ncols ∧ W.ncols = V.ncols ∧ K.mul W = V) ∧
    (∀ W W' : BMat, W.WF → W'.WF → W.nrows = K.ncols → W'.nrows = K.ncols → W'.ncols = W.ncols →
      K.mul W = K.mul W' → W = W') :=
  SV.kernelLeftPluq_basis hA (pluqTop_isPLUQ L1 L2 L3 hA) hK

/-- the kernel in Mathlib's terms -/
theorem kernelLeftPluq_top_mathlib {K : BMat} (hK : SV.kernelLeftPluq (PR.pluqTop L1 L2 L3) A = some K) :
    ML.mat A.nrows A.ncols A * ML.mat A.ncols K.ncols K = 0 ∧
    (∀ (c : Nat) (V : Matrix (Fin A.ncols) (Fin c) (ZMod 2)), ML.mat A.nrows A.ncols A * V = 0 →
      ∃ W : Matrix (Fin K.ncols) (Fin c) (ZMod 2), ML.mat A.ncols K.ncols K * W = V) ∧
    (∀ (c : Nat) (W W' : Matrix (Fin K.ncols) (Fin c) (ZMod 2)),
      ML.mat A.ncols K.ncols K * W = ML.mat A.ncols K.ncols K * W' → W = W') ∧
    (ML.mat A.ncols K.ncols K).rank = K.ncols ∧ K.ncols = A.ncols - (ML.mat A.nrows A.ncols A).rank := by
  obtain ⟨h1, h2, h3, _, _, h5, h6⟩ := kernelLeftPluq_top_some L1 L2 L3 hA hK
  exact ML.kernel_tests_mathlib hA h1 h2 h3 h5 h6

end s3

/-! ## §5 C04 / C05: the complete triangular routines and the inversions, one place to cite -/

/-- the admissible configurations of the library (`m4ri_config.h`): `L1 ≥ 4096`, `L2 ≥ 32768`, `L3 ≥ 65536`,
    `L1 ≤ L2 ≤ L3` -/
def Admissible (L1 L2 L3 : Nat) : Prop := 4096 ≤ L1 ∧ 32768 ≤ L2 ∧ 65536 ≤ L3 ∧ L1 ≤ L2 ∧ L2 ≤ L3

/-- the build parameters of triangular.c (`__M4RI_MUL_BLOCKSIZE`, `__M4RI_CPU_L2_CACHE`, `__M4RI_CPU_L3_CACHE`,
    `__M4RI_HAVE_SSE2`) from the cache triple -/
def paramsOf (L1 L2 L3 : Nat) (sse2 : Bool) : TB.Params := ⟨Gen.mulBlocksize L1 L2 L3, L2, L3, sse2⟩

/-- the validated build is one of them -/
theorem paramsOf_repo : paramsOf 32768 1310720 56623104 true = TB.Params.repo := rfl

/-- the only hypothesis any layer puts on the cache triple — `15 ≤ L3`, used by `mzd_trtri_upper` (so that the `k`
    chosen for `mzd_trtri_upper_russian` is at least 1) — holds in every admissible configuration -/
theorem Admissible.l3 {L1 L2 L3 : Nat} (h : Admissible L1 L2 L3) (sse2 : Bool) : 15 ≤ (paramsOf L1 L2 L3 sse2).l3 := by
  obtain ⟨_, _, h3, _, _⟩ := h
  show 15 ≤ L3
  omega

example : Admissible 32768 1310720 56623104 := by unfold Admissible; omega

section s5
variable (L1 L2 L3 : Nat) (sse2 : Bool)

/-- **C04, the complete `mzd_trsm_lower_left`** (kernel up to 64 rows, Four Russians up to the block size, recursion
    above; every cache triple): forward substitution, `unitLower(L)·X = B`, in Mathlib `X = L⁻¹·B` -/
theorem trsm_lower_left {L B : BMat} (hB : B.WF) (hLr : L.nrows = B.nrows) :
    TB.trsmLowerLeftC (paramsOf L1 L2 L3 sse2) L B = trsmLowerLeft L B := TB.trsmLowerLeftC_eq _ hB hLr

theorem trsm_lower_left_solves {L B : BMat} (hB : B.WF) (hLr : L.nrows = B.nrows) (hLc : L.ncols = B.nrows) :
    (unitLower L).mul (TB.trsmLowerLeftC (paramsOf L1 L2 L3 sse2) L B) = B := by
  rw [trsm_lower_left L1 L2 L3 sse2 hB hLr]; exact trsmLowerLeft_spec hLr hLc hB

theorem trsm_lower_left_mathlib {n c : Nat} {L B : BMat} (hLr : L.nrows = n) (hLc : L.ncols = n) (hB : Shaped B n c) :
    ML.mat n c (TB.trsmLowerLeftC (paramsOf L1 L2 L3 sse2) L B) = (ML.mat n n (unitLower L))⁻¹ * ML.mat n c B := by
  rw [trsm_lower_left L1 L2 L3 sse2 hB.wf (hLr.trans hB.nr.symm)]; exact ML.mat_trsmLowerLeft hLr hLc hB

/-- **C04, the complete `mzd_trsm_upper_left`**: backward substitution -/
theorem trsm_upper_left {U B : BMat} (hB : B.WF) (hUr : U.nrows = B.nrows) :
    TB.trsmUpperLeftC (paramsOf L1 L2 L3 sse2) U B = trsmUpperLeft U B := TB.trsmUpperLeftC_eq _ hB hUr

theorem trsm_upper_left_solves {U B : BMat} (hB : B.WF) (hUr : U.nrows = B.nrows) (hUc : U.ncols = B.nrows) :
    (unitUpper U).mul (TB.trsmUpperLeftC (paramsOf L1 L2 L3 sse2) U B) = B := by
  rw [trsm_upper_left L1 L2 L3 sse2 hB hUr]; exact trsmUpperLeft_spec hUr hUc hB

theorem trsm_upper_left_mathlib {n c : Nat} {U B : BMat} (hUr : U.nrows = n) (hUc : U.ncols = n) (hB : Shaped B n c) :
    ML.mat n c (TB.trsmUpperLeftC (paramsOf L1 L2 L3 sse2) U B) = (ML.mat n n (unitUpper U))⁻¹ * ML.mat n c B := by
  rw [trsm_upper_left L1 L2 L3 sse2 hB.wf (hUr.trans hB.nr.symm)]; exact ML.mat_trsmUpperLeft hUr hUc hB

/-- **C04, the complete `mzd_trsm_lower_right`** (no build parameter enters): column-wise substitution -/
theorem trsm_lower_right {L B : BMat} (hB : B.WF) (hLr : L.nrows = B.ncols) :
    TB.trsmLowerRightC L B = trsmLowerRight L B := TB.trsmLowerRightC_eq hB hLr

theorem trsm_lower_right_solves {L B : BMat} (hB : B.WF) (hLr : L.nrows = B.ncols) (hLc : L.ncols = B.ncols) :
    (TB.trsmLowerRightC L B).mul (unitLower L) = B := by
  rw [trsm_lower_right hB hLr]; exact trsmLowerRight_spec hLr hLc hB

theorem trsm_lower_right_mathlib {n c : Nat} {L B : BMat} (hLr : L.nrows = n) (hLc : L.ncols = n) (hB : Shaped B c n) :
    ML.mat c n (TB.trsmLowerRightC L B) = ML.mat c n B * (ML.mat n n (unitLower L))⁻¹ := by
  rw [trsm_lower_right hB.wf (hLr.trans hB.nc.symm)]; exact ML.mat_trsmLowerRight hLr hLc hB

/-- **C04, the complete `mzd_trsm_upper_right`** (64-column parity kernel, inversion regime through
    `mzd_trtri_upper`, recursion).  Two hypotheses remain, both needed: `15 ≤ L3` (true in every admissible
    configuration, `Admissible.l3`) and, beyond 64 columns, a stored diagonal of ones — the C routine then inverts the
    STORED triangle (`TB.upperRightFull_eq_full_false`: a 65-column input where the documented "diagonal implied"
    reading fails). -/
theorem trsm_upper_right (hl3 : 15 ≤ L3) {U B : BMat} (hB : B.WF) (hUr : U.nrows = B.ncols) (hUc : U.ncols = B.ncols)
    (hd : 64 < B.ncols → ∀ i, i < B.ncols → U.get i i = true) :
    TB.trsmUpperRightC (paramsOf L1 L2 L3 sse2) U B = trsmUpperRight U B :=
  TB.trsmUpperRightC_eq_partial _ hl3 hB hUr hUc hd

theorem trsm_upper_right_solves (hl3 : 15 ≤ L3) {U B : BMat} (hB : B.WF) (hUr : U.nrows = B.ncols)
    (hUc : U.ncols = B.ncols) (hd : 64 < B.ncols → ∀ i, i < B.ncols → U.get i i = true) :
    (TB.trsmUpperRightC (paramsOf L1 L2 L3 sse2) U B).mul (unitUpper U) = B := by
  rw [trsm_upper_right L1 L2 L3 sse2 hl3 hB hUr hUc hd]; exact trsmUpperRight_spec hUr hUc hB

theorem trsm_upper_right_mathlib (hl3 : 15 ≤ L3) {n c : Nat} {U B : BMat} (hUr : U.nrows = n) (hUc : U.ncols = n)
    (hB : Shaped B c n) (hd : 64 < n → ∀ i, i < n → U.get i i = true) :
    ML.mat c n (TB.trsmUpperRightC (paramsOf L1 L2 L3 sse2) U B) = ML.mat c n B * (ML.mat n n (unitUpper U))⁻¹ := by
  rw [trsm_upper_right L1 L2 L3 sse2 hl3 hB.wf (hUr.trans hB.nc.symm) (hUc.trans hB.nc.symm)
    (by rw [hB.nc]; exact hd)]
  exact ML.mat_trsmUpperRight hUr hUc hB

/-- in an admissible configuration -/
theorem trsm_upper_right_adm (h : Admissible L1 L2 L3) {U B : BMat} (hB : B.WF) (hUr : U.nrows = B.ncols)
    (hUc : U.ncols = B.ncols) (hd : 64 < B.ncols → ∀ i, i < B.ncols → U.get i i = true) :
    TB.trsmUpperRightC (paramsOf L1 L2 L3 sse2) U B = trsmUpperRight U B :=
  trsm_upper_right L1 L2 L3 sse2 (h.l3 sse2) hB hUr hUc hd

/-- **C05, the complete `mzd_trtri_upper`** (`mzd_trtri_upper_russian` base case + recursion through
    `_mzd_trsm_upper_left` / `_mzd_trsm_upper_right`): a well-formed square upper triangular matrix with ones on the
    diagonal is replaced by its inverse `triInv U` -/
theorem trtri_upper (hl3 : 15 ≤ L3) {U : BMat} (hU : U.WF) (hsq : U.ncols = U.nrows)
    (hlow : ∀ i j, j < i → U.get i j = false) (hdiag : ∀ i, i < U.nrows → U.get i i = true) :
    TB.trtriUpperC (paramsOf L1 L2 L3 sse2) U = triInv U := TB.trtriUpperC_eq _ hl3 hU hsq hlow hdiag

/-- … for every fuel and every prior content of the index arrays (`TB.trtriFull_eq`, the end statement) -/
theorem trtri_full (hl3 : 15 ≤ L3) (junk : Nat → Nat) (fuel : Nat) {U : BMat} (hU : U.WF) (hsq : U.ncols = U.nrows)
    (hlow : ∀ i j, j < i → U.get i j = false) (hdiag : ∀ i, i < U.nrows → U.get i i = true) :
    TB.trtriFull (paramsOf L1 L2 L3 sse2) junk fuel U = triInv U := TB.trtriFull_eq _ hl3 junk fuel hU hsq hlow hdiag

/-- … which is the two-sided inverse, again unit upper triangular; in Mathlib `(mat U)⁻¹` -/
theorem trtri_upper_spec (hl3 : 15 ≤ L3) {U : BMat} (hU : U.WF) (hsq : U.ncols = U.nrows)
    (hlow : ∀ i j, j < i → U.get i j = false) (hdiag : ∀ i, i < U.nrows → U.get i i = true) :
    let V := TB.trtriUpperC (paramsOf L1 L2 L3 sse2) U
    V.mul (unitUpper U) = identity U.nrows ∧ (unitUpper U).mul V = identity U.nrows ∧ unitUpper V = V ∧
      ML.mat U.nrows U.nrows V = (ML.mat U.nrows U.nrows (unitUpper U))⁻¹ := by
  simp only [trtri_upper L1 L2 L3 sse2 hl3 hU hsq hlow hdiag]
  exact ⟨triInv_mul U hsq, mul_triInv U hsq, unitUpper_triInv U, ML.mat_triInv rfl hsq⟩

theorem trtri_upper_adm (h : Admissible L1 L2 L3) {U : BMat} (hU : U.WF) (hsq : U.ncols = U.nrows)
    (hlow : ∀ i j, j < i → U.get i j = false) (hdiag : ∀ i, i < U.nrows → U.get i i = true) :
    TB.trtriUpperC (paramsOf L1 L2 L3 sse2) U = triInv U := trtri_upper L1 L2 L3 sse2 (h.l3 sse2) hU hsq hlow hdiag

end s5

/-- **C05, `mzd_inv_m4ri`** (no cache parameter enters; `k ≥ 1` is the table parameter `_mzd_echelonize_m4ri` chooses):
    if the well-formed `n × n` matrix `A` has a right inverse `Binv`, the routine returns it — it is `inverseSpec A`
    and a two-sided inverse -/
theorem inv_m4ri {A : BMat} (hsq : A.ncols = A.nrows) {k : Nat} (hk : 1 ≤ k) (junk : Nat → Nat) (hA : A.WF)
    {Binv : BMat} (hB : Binv.WF) (hBr : Binv.nrows = A.nrows) (hBc : Binv.ncols = A.nrows)
    (hAB : A.mul Binv = identity A.nrows) :
    G2.invM4ri A k junk = Binv ∧ G2.invM4ri A k junk = inverseSpec A ∧
      A.mul (G2.invM4ri A k junk) = identity A.nrows ∧ (G2.invM4ri A k junk).mul A = identity A.nrows :=
  G2.invM4ri_spec hsq hk junk hA hB hBr hBc hAB

/-- … in Mathlib: `(mat A)⁻¹` whenever the determinant is a unit -/
theorem inv_m4ri_mathlib {n : Nat} {A : BMat} (hA : Shaped A n n) (hdet : IsUnit (ML.mat n n A).det) {k : Nat}
    (hk : 1 ≤ k) (junk : Nat → Nat) : ML.mat n n (G2.invM4ri A k junk) = (ML.mat n n A)⁻¹ := by
  obtain ⟨B, hB, h⟩ := (ML.isUnit_det_iff hA).mp hdet
  have hsq : A.ncols = A.nrows := hA.nc.trans hA.nr.symm
  have hAB : A.mul B = identity A.nrows := by rw [hA.nr]; exact h
  rw [(inv_m4ri hsq hk junk hA.wf hB.wf (hB.nr.trans hA.nr.symm) (hB.nc.trans hA.nr.symm) hAB).2.1]
  exact ML.mat_inverseSpec hA hdet

/-- … and on ANY square matrix the result `T` is invertible with `T·A = rref A` -/
theorem inv_m4ri_any {A : BMat} (hA : A.WF) (hsq : A.ncols = A.nrows) {k : Nat} (hk : 1 ≤ k) (junk : Nat → Nat) :
    (G2.invM4ri A k junk).mul A = A.rref ∧
    ∃ T' : BMat, T'.WF ∧ T'.nrows = A.nrows ∧ T'.ncols = A.nrows ∧
      (G2.invM4ri A k junk).mul T' = identity A.nrows ∧ T'.mul (G2.invM4ri A k junk) = identity A.nrows :=
  G2.invM4ri_mul_eq_rref hA hsq hk junk

/-! ## §6 non-vacuity: closed instances on the `3 × 4` running example (rank 2, pivot columns 1, 3) and runs of the model -/

/-- the running example of `PleNaive.lean` / `PleRussian.lean` -/
def ex34 : BMat := ⟨3, 4, #[10, 2, 8]⟩

theorem ex34_WF : ex34.WF := by
  refine ⟨rfl, fun i => ?_⟩
  by_cases h : i < 3
  · have : i = 0 ∨ i = 1 ∨ i = 2 := by omega
    rcases this with rfl | rfl | rfl <;> decide
  · rw [row_of_ge _ _ (by show 3 ≤ i; omega)]; decide

/-- item 1: `mzd_ple` and `mzd_pluq` with the cache sizes of the validated build and with the smallest admissible
    ones; the certificate is accepted -/
example : PR.pleTop 32768 1310720 56623104 ex34 = (⟨3, 4, #[9, 3, 2]⟩, #[0, 1, 2], #[1, 3, 2, 3], 2) ∧
    PR.pluqTop 32768 1310720 56623104 ex34 = (⟨3, 4, #[3, 3, 2]⟩, #[0, 1, 2], #[1, 3, 2, 3], 2) ∧
    PR.pluqTop 4096 32768 65536 ex34 = (⟨3, 4, #[3, 3, 2]⟩, #[0, 1, 2], #[1, 3, 2, 3], 2) ∧
    checkPLUQ ex34 ⟨3, 4, #[3, 3, 2]⟩ #[0, 1, 2] #[1, 3, 2, 3] 2 = true := by
  refine ⟨by decide +kernel, by decide +kernel, by decide +kernel, by decide +kernel⟩

example : G2.GoodPle (PR.pleTop 32768 1310720 56623104) ∧
    PR.pluqTop 32768 1310720 56623104 ex34 = G2.pluqOfPle (PR.pleTop 32768 1310720 56623104) ex34 :=
  ⟨goodPle_pleTop _ _ _, pluqTop_eq _ _ _ ex34_WF⟩

/-- the block recursion of `_mzd_ple` is really entered for a small cut-off (the theorems hold for EVERY triple): the
    `2 × 66` matrix of `Glue2.lean` whose second pivot sits in the second block; `Q[64] = 65` is left behind -/
example : PR.pluqTop 0 0 0 ⟨2, 66, #[1 ||| 2 ^ 65, 1]⟩ = G2.pluqOfPle (PR.pleTop 0 0 0) ⟨2, 66, #[1 ||| 2 ^ 65, 1]⟩ ∧
    (PR.pluqTop 0 0 0 ⟨2, 66, #[1 ||| 2 ^ 65, 1]⟩).1 = ⟨2, 66, #[3, 3]⟩ ∧
    (PR.pluqTop 0 0 0 ⟨2, 66, #[1 ||| 2 ^ 65, 1]⟩).2.2.1.getD 1 0 = 65 ∧
    (PR.pluqTop 0 0 0 ⟨2, 66, #[1 ||| 2 ^ 65, 1]⟩).2.2.1.getD 64 0 = 65 ∧
    PR.pluqTop 0 0 0 ⟨2, 66, #[1 ||| 2 ^ 65, 1]⟩ =
      G2.pluqOfPle (pleRec naiveBase 64 0 64 66) ⟨2, 66, #[1 ||| 2 ^ 65, 1]⟩ := by
  decide +kernel

/-- item 2: `mzd_echelonize_pluq` (both modes) and the hybrid, switching at once and never -/
example : echelonizePluq (PR.pluqTop 32768 1310720 56623104) ex34 true = (⟨3, 4, #[2, 8, 0]⟩, 2) ∧
    echelonizePluq (PR.pleTop 32768 1310720 56623104) ex34 false = (⟨3, 4, #[10, 8, 0]⟩, 2) ∧
    G2.echelonizeHybrid (fun _ _ _ => true) (pluqEchTop 32768 1310720 56623104) ex34 true 1 = (⟨3, 4, #[2, 8, 0]⟩, 2) ∧
    G2.echelonizeHybrid (fun _ _ _ => false) (pluqEchTop 32768 1310720 56623104) ex34 true 1 = (⟨3, 4, #[2, 8, 0]⟩, 2) ∧
    (ex34.rref, ex34.rank) = (⟨3, 4, #[2, 8, 0]⟩, 2) := by
  refine ⟨by decide +kernel, by decide +kernel, by decide +kernel, by decide +kernel, by decide +kernel⟩

example : echelonizePluq (PR.pluqTop 32768 1310720 56623104) ex34 true = (ex34.rref, ex34.rank) :=
  echelonizePluq_pluqTop _ _ _ ex34_WF

example (switch : Nat → Nat → BMat → Bool) :
    G2.echelonizeHybrid switch (pluqEchTop 32768 1310720 56623104) ex34 true 3 = (ex34.rref, ex34.rank) :=
  echelonizeHybrid_top_full_eq _ _ _ switch _ _ _ ex34_WF (by decide) (fun _ => by decide)

example (switch : Nat → Nat → BMat → Bool) :
    gaussDelayed ex34 0 true = (ex34.rref, ex34.rank) ∧
    M4RI.echelonizeM4ri ex34 true 2 = (ex34.rref, ex34.rank) ∧
    echelonizePluq (PR.pluqTop 32768 1310720 56623104) ex34 true = (ex34.rref, ex34.rank) ∧
    G2.echelonizeHybrid switch
      (fun W full => echelonizePluq (if full then PR.pluqTop 32768 1310720 56623104 else PR.pleTop 32768 1310720 56623104) W full)
      ex34 true 3 = (ex34.rref, ex34.rank) :=
  all_routes_agree _ _ _ switch _ _ _ ex34_WF (by decide) (fun _ => by decide) (by decide) _

/-- item 3: the rank and the column rank profile; the Mathlib form -/
example : (PR.pluqTop 32768 1310720 56623104 ex34).2.2.2 = 2 ∧ ex34.rank = 2 ∧ ex34.rankProfile = [1, 3] ∧
    (List.range 2).map (fun i => (PR.pluqTop 32768 1310720 56623104 ex34).2.2.1.getD i 0) = [1, 3] := by
  refine ⟨by decide +kernel, by decide +kernel, by decide +kernel, by decide +kernel⟩

example : (ML.mat 3 4 ex34).rank = (PR.pluqTop 32768 1310720 56623104 ex34).2.2.2 :=
  let ⟨_, _, _, _, _, _, _, _, _, h⟩ := pluqTop_mathlib 32768 1310720 56623104 ex34_WF
  h

/-- item 4: `mzd_solve_left` on a solvable and on an unsolvable right-hand side (`B` has `max(3, 4) = 4` rows), and
    `mzd_kernel_left_pluq` (a `4 × 2` kernel) -/
example : SV.solveLeft (PR.pluqTop 32768 1310720 56623104) ex34 ⟨4, 1, #[1, 1, 0, 0]⟩ true =
      (0, ⟨3, 4, #[3, 3, 2]⟩, ⟨4, 1, #[0, 1, 0, 0]⟩) ∧
    (SV.solveLeft (PR.pluqTop 32768 1310720 56623104) ex34 ⟨4, 1, #[1, 1, 1, 0]⟩ true).1 = -1 ∧
    solvable ex34 ⟨4, 1, #[1, 1, 0, 0]⟩ = true ∧ solvable ex34 ⟨4, 1, #[1, 1, 1, 0]⟩ = false ∧
    SV.kernelLeftPluq (PR.pluqTop 32768 1310720 56623104) ex34 = some ⟨4, 2, #[2, 0, 1, 0]⟩ ∧
    ex34.mul ⟨4, 2, #[2, 0, 1, 0]⟩ = zero 3 2 := by
  refine ⟨by decide +kernel, by decide +kernel, by decide +kernel, by decide +kernel, by decide +kernel,
    by decide +kernel⟩

example : SV.kernelLeftPluq (PR.pluqTop 32768 1310720 56623104) ex34 ≠ none := by
  rw [Ne, kernelLeftPluq_top_none_iff _ _ _ ex34_WF]
  decide +kernel

/-- item 5: the complete triangular routines with the parameters of the validated build and of the smallest
    admissible configuration, on the `130 × 130` unit upper triangular matrix of `TrsmRec.lean`; `mzd_inv_m4ri` -/
example : TB.trsmLowerLeftC (paramsOf 32768 1310720 56623104 true) Rec.exU Rec.exU = trsmLowerLeft Rec.exU Rec.exU ∧
    TB.trsmUpperLeftC (paramsOf 4096 32768 65536 false) Rec.exU Rec.exU = trsmUpperLeft Rec.exU Rec.exU ∧
    TB.trsmLowerRightC Rec.exU Rec.exU = trsmLowerRight Rec.exU Rec.exU ∧
    TB.trsmUpperRightC (paramsOf 4096 32768 65536 true) Rec.exU Rec.exU = trsmUpperRight Rec.exU Rec.exU ∧
    TB.trtriUpperC (paramsOf 32768 1310720 56623104 true) Rec.exU = triInv Rec.exU :=
  ⟨trsm_lower_left _ _ _ _ Rec.exU_WF rfl, trsm_upper_left _ _ _ _ Rec.exU_WF rfl, trsm_lower_right Rec.exU_WF rfl,
    trsm_upper_right_adm _ _ _ _ (by unfold Admissible; omega) Rec.exU_WF rfl rfl (fun _ i hi => TB.exU_diag i hi),
    trtri_upper _ _ _ _ (by omega) Rec.exU_WF rfl Rec.exU_low TB.exU_diag⟩

example : G2.invM4ri ⟨2, 2, #[3, 2]⟩ 1 = ⟨2, 2, #[3, 2]⟩ ∧ inverseSpec ⟨2, 2, #[3, 2]⟩ = ⟨2, 2, #[3, 2]⟩ ∧
    (⟨2, 2, #[3, 2]⟩ : BMat).mul ⟨2, 2, #[3, 2]⟩ = identity 2 := by
  refine ⟨by decide +kernel, by decide +kernel, by decide +kernel⟩

theorem ex22_WF : (⟨2, 2, #[3, 2]⟩ : BMat).WF := by
  refine ⟨rfl, fun i => ?_⟩
  by_cases h : i < 2
  · have : i = 0 ∨ i = 1 := by omega
    rcases this with rfl | rfl <;> decide
  · rw [row_of_ge _ _ (by show 2 ≤ i; omega)]; decide

example (k : Nat) (hk : 1 ≤ k) (junk : Nat → Nat) : G2.invM4ri ⟨2, 2, #[3, 2]⟩ k junk = ⟨2, 2, #[3, 2]⟩ :=
  (inv_m4ri rfl hk junk ex22_WF ex22_WF rfl rfl (by decide +kernel)).1

end Top
end BMat
end M4ri
