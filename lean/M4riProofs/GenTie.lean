/-
  GenTie: the functions generated from the C source's typed AST (`M4ri/Gen/CFuns.lean`) coincide, on the C
  domain, with the hand-written model definitions.
-/
import M4ri.Gen.CFuns
import M4ri.Gen.Params
import M4ri.Word
import M4ri.Gray
import M4ri.Mul
import M4ri.TrsmRec
import M4ri.M4riElim

set_option linter.unusedVariables false

namespace M4ri.GenTie
open M4ri M4ri.Gen M4ri.BMat M4ri.BMat.Rec M4ri.BMat.M4RI

/-! ### small arithmetic helpers -/

theorem tdiv_nat (a b : Nat) : Int.tdiv (a : Int) (b : Int) = ((a / b : Nat) : Int) := by
  rw [Int.tdiv_eq_ediv_of_nonneg (Int.natCast_nonneg _)]; norm_cast

theorem tmod_nat (a b : Nat) : Int.tmod (a : Int) (b : Int) = ((a % b : Nat) : Int) := by
  rw [Int.tmod_eq_emod_of_nonneg (Int.natCast_nonneg _)]; norm_cast

theorem int_shiftRight_one (a : Nat) : ((a : Int) >>> 1) = ((a >>> 1 : Nat) : Int) := by
  rw [Int.shiftRight_eq_div_pow, Nat.shiftRight_eq_div_pow]
  norm_cast

/-! ### 1–3: masks -/

theorem leftShift_arg (n : Nat) (h : n ≤ 64) :
    (Int.tmod ((64 : Int) - n) (64 : Int)).toNat = (64 - n) % 64 := by
  have : ((64 : Int) - n) = ((64 - n : Nat) : Int) := by omega
  rw [this, show (64 : Int) = ((64 : Nat) : Int) from rfl, tmod_nat]; omega

theorem leftBitmask_eq (n : Nat) (h : n ≤ 64) : Gen.C.leftBitmask n = leftMask n := by
  unfold Gen.C.leftBitmask leftMask ffff
  rw [leftShift_arg n h]

theorem rightBitmask_eq (n : Nat) (h : n ≤ 64) : Gen.C.rightBitmask n = rightMask n := by
  unfold Gen.C.rightBitmask rightMask ffff
  congr 1
  omega

theorem middleBitmask_eq (n off : Nat) (h : n ≤ 64) :
    Gen.C.middleBitmask n off = middleMask n off := by
  unfold Gen.C.middleBitmask middleMask leftMask ffff
  rw [leftShift_arg n h, Int.toNat_natCast]

/-! ### 4: single-bit macros -/

theorem and_one_eq (w : BitVec 64) (s : Nat) :
    (w >>> s) &&& 1#64 = if w.getLsbD s then 1#64 else 0#64 := by
  apply BitVec.eq_of_getLsbD_eq
  intro i hi
  by_cases hb : w.getLsbD s = true
  · rw [if_pos hb]
    rcases i with _ | i
    · simp [hb]
    · simp [BitVec.getLsbD_one]
  · rw [if_neg hb]
    rcases i with _ | i
    · simp [hb]
    · simp [BitVec.getLsbD_one]

theorem getBit_eq (w : BitVec 64) (s : Nat) (h : s < 64) :
    Gen.C.getBit w s = if w.getLsbD s then 1#64 else 0#64 := by
  unfold Gen.C.getBit
  rw [Int.toNat_natCast, and_one_eq]
  split <;> decide

theorem writeBit_eq (w : BitVec 64) (s : Nat) (h : s < 64) (b : Bool) :
    ∀ i, i < 64 → (Gen.C.writeBit w s (if b then 1 else 0)).getLsbD i
      = if i = s then b else w.getLsbD i := by
  intro i hi
  unfold Gen.C.writeBit
  rw [Int.toNat_natCast]
  by_cases his : i = s
  · subst his
    cases b <;> simp [hi]
  · rcases Nat.lt_or_gt_of_ne his with hlt | hgt
    · cases b <;> simp [hi, his, hlt]
    · have h1 : ¬ (i - s = 0) := by omega
      have h2 : ¬ (i < s) := by omega
      cases b <;> simp [hi, his, h1, h2]

theorem flipBit_eq (w : BitVec 64) (s : Nat) (h : s < 64) :
    ∀ i, i < 64 → (Gen.C.flipBit w s).getLsbD i
      = if i = s then !(w.getLsbD i) else w.getLsbD i := by
  intro i hi
  unfold Gen.C.flipBit
  rw [Int.toNat_natCast]
  by_cases his : i = s
  · subst his
    simp [hi]
  · rcases Nat.lt_or_gt_of_ne his with hlt | hgt
    · simp [hi, his, hlt]
    · have h1 : ¬ (i - s = 0) := by omega
      have h2 : ¬ (i < s) := by omega
      simp [hi, his, h1, h2]

theorem twopow_eq (i : Nat) (h : i < 31) : Gen.C.twopow i = 2 ^ i := by
  unfold Gen.C.twopow
  rw [Int.toNat_natCast, ← BitVec.twoPow_eq]
  have hp : 2 ^ i < 2 ^ 31 := Nat.pow_lt_pow_right (by decide) h
  simp only [BitVec.toInt_setWidth, BitVec.toNat_twoPow]
  rw [show ((2 : Int) ^ i) = ((2 ^ i : Nat) : Int) by norm_cast]
  generalize 2 ^ i = x at hp
  rw [Nat.mod_eq_of_lt (by omega), Int.bmod_def]
  split <;> omega

theorem lesserLSB_eq (a b : BitVec 64) :
    decide (Gen.C.lesserLSB a b ≠ 0) = lesserLSB a b := by
  unfold Gen.C.lesserLSB lesserLSB
  by_cases hb : b = 0#64 <;> by_cases ha : a = 0#64 <;> simp [ha, hb]

/-! ### 5: swapBits -/

theorem swapBits_eq (v : BitVec 64) : Gen.C.swapBits v = swapBits v := rfl

/-! ### 10: parity -/

theorem parity64Helper_eq (buf : Nat → Word) :
    Gen.C.parity64Helper (fun i => buf i.toNat) = parity64Helper buf := rfl

theorem parity64_eq (buf : Nat → Word) :
    Gen.C.parity64 (fun i => buf i.toNat) = parity64 buf := rfl

theorem pleSplit_eq (n : Nat) : Gen.C.pleSplit n = (splitPoint n : Nat) := by
  unfold Gen.C.pleSplit splitPoint
  rcases n with _ | n
  · decide
  · have : (((n + 1 : Nat) : Int) - 1) = (n : Int) := by omega
    rw [this, show (64 : Int) = ((64 : Nat) : Int) from rfl, tdiv_nat]
    have : ((n / 64 : Nat) : Int) + 1 = ((n / 64 + 1 : Nat) : Int) := by omega
    rw [this, show ((1 : Int)).toNat = 1 from rfl, int_shiftRight_one]
    simp only [Nat.add_sub_cancel]
    norm_cast

theorem trsmUpperRightSplit_eq (n : Nat) : Gen.C.trsmUpperRightSplit n = (splitPoint n : Nat) := pleSplit_eq n
theorem trsmLowerRightSplit_eq (n : Nat) : Gen.C.trsmLowerRightSplit n = (splitPoint n : Nat) := pleSplit_eq n
theorem trsmLowerLeftSplit_eq (n : Nat) : Gen.C.trsmLowerLeftSplit n = (splitPoint n : Nat) := pleSplit_eq n
theorem trsmUpperLeftSplit_eq (n : Nat) : Gen.C.trsmUpperLeftSplit n = (splitPoint n : Nat) := pleSplit_eq n


/-! ### 11: closer, splitRound -/

theorem closer_eq (a cutoff : Nat) :
    decide (Gen.C.closer a cutoff ≠ 0) = Gen.closer a cutoff := by
  unfold Gen.C.closer Gen.closer
  by_cases h1 : 3 * a < 4 * cutoff <;> by_cases h2 : a < 2 * 64 <;> simp [h1, h2] <;> omega

theorem splitRound_eq (n k : Nat) (hk : 1 ≤ k) :
    Gen.C.splitRound n k = (Gen.splitRound n k : Nat) := by
  unfold Gen.C.splitRound Gen.splitRound
  show Int.tdiv (Int.tdiv (n : Int) 2 + ((k : Int) - 1)) k * k = _
  rw [show (2 : Int) = ((2 : Nat) : Int) from rfl, tdiv_nat]
  have : (((n / 2 : Nat) : Int) + ((k : Int) - 1)) = ((n / 2 + (k - 1) : Nat) : Int) := by omega
  rw [this, tdiv_nat]
  norm_cast

/-! ### 12: Strassen split points -/

theorem loop_strassen (cutoff : Nat) (cond : Int × Int → Bool) (body : Int × Int → Int × Int)
    (hc : ∀ w m : Nat, cond ((w : Int), (m : Int)) = decide (w > cutoff))
    (hb : ∀ w m : Nat, body ((w : Int), (m : Int)) = (((w / 2 : Nat) : Int), ((m * 2 : Nat) : Int))) :
    ∀ (fuel w m : Nat), (CLoop.loop fuel cond body ((w : Int), (m : Int))).2
      = ((strassenMult.go cutoff fuel w m : Nat) : Int) := by
  intro fuel
  induction fuel with
  | zero => intro w m; rfl
  | succ f ih =>
    intro w m
    unfold CLoop.loop strassenMult.go
    rw [hc]
    by_cases h : w > cutoff
    · simp only [h, decide_true, if_true]
      rw [hb, ih]
    · simp only [h, decide_false, if_false]; rfl

/-- fuel sufficiency: started from a width below `2 ^ fuel`, the Strassen width loop leaves through its
    condition (`width ≤ cutoff`), not through fuel exhaustion; with fuel 64 this covers every C `rci_t`. -/
theorem loop_strassen_exit (cutoff : Nat) (cond : Int × Int → Bool) (body : Int × Int → Int × Int)
    (hc : ∀ w m : Nat, cond ((w : Int), (m : Int)) = decide (w > cutoff))
    (hb : ∀ w m : Nat, body ((w : Int), (m : Int)) = (((w / 2 : Nat) : Int), ((m * 2 : Nat) : Int))) :
    ∀ (fuel w m : Nat), w < 2 ^ fuel →
      cond (CLoop.loop fuel cond body ((w : Int), (m : Int))) = false := by
  intro fuel
  induction fuel with
  | zero =>
    intro w m hw
    have : w = 0 := by simpa using hw
    subst this
    show cond (((0 : Nat) : Int), (m : Int)) = false
    rw [hc]; simp
  | succ f ih =>
    intro w m hw
    unfold CLoop.loop
    by_cases h : w > cutoff
    · rw [hc, if_pos (by simpa using h), hb]
      exact ih _ _ (by rw [Nat.pow_succ] at hw; omega)
    · rw [hc, if_neg (by simpa using h), hc]; simpa using h

/-- the loop text of `_mzd_mul_even` & co. (as generated) with fuel 64 exits with `width ≤ cutoff` -/
theorem strassen_fuel64 (w cutoff : Nat) (hw : w < 2 ^ 64) :
    ¬ ((CLoop.loop 64
        (fun (st : Int × Int) => match st with
          | (v_width, v_mult) => (decide (v_width > (cutoff : Int))))
        (fun (st : Int × Int) => match st with
          | (v_width, v_mult) => (Int.tdiv v_width (2 : Int), v_mult * (2 : Int)))
        ((w : Int), (64 : Int))).1 > (cutoff : Int)) := by
  have := loop_strassen_exit cutoff
    (fun (st : Int × Int) => match st with
      | (v_width, v_mult) => (decide (v_width > (cutoff : Int))))
    (fun (st : Int × Int) => match st with
      | (v_width, v_mult) => (Int.tdiv v_width (2 : Int), v_mult * (2 : Int)))
    (fun w m => by simp) (fun w m => by simp) 64 w 64 hw
  simpa using this

theorem halfSplit_int (m mult : Nat) :
    ((Int.tdiv ((m : Int) - (Int.tmod (m : Int) (mult : Int))) (64 : Int)) >>> ((1 : Int)).toNat) * (64 : Int)
      = ((halfSplit m mult : Nat) : Int) := by
  unfold halfSplit
  rw [tmod_nat]
  have : ((m : Int) - ((m % mult : Nat) : Int)) = ((m - m % mult : Nat) : Int) := by
    have := Nat.mod_le m mult; omega
  rw [this, show (64 : Int) = ((64 : Nat) : Int) from rfl, tdiv_nat,
    show ((1 : Int)).toNat = 1 from rfl, int_shiftRight_one]
  norm_cast

theorem min3_int (m n k : Nat) :
    Int.tdiv (if (decide ((if (decide ((m : Int) < n)) then (m : Int) else n) < k)) then (if (decide ((m : Int) < n)) then (m : Int) else n) else k) (2 : Int)
      = ((min (min m n) k / 2 : Nat) : Int) := by
  have : (if (decide ((if (decide ((m : Int) < n)) then (m : Int) else n) < k)) then (if (decide ((m : Int) < n)) then (m : Int) else n) else k)
      = ((min (min m n) k : Nat) : Int) := by
    simp only [decide_eq_true_eq]
    repeat' split
    all_goals omega
  rw [this, show (2 : Int) = ((2 : Nat) : Int) from rfl, tdiv_nat]

theorem mulEvenSplit_eq (m n k cutoff : Nat) :
    Gen.C.mulEvenSplit m n k cutoff =
      (let mult := strassenMult (min (min m n) k / 2) cutoff
       (((halfSplit m mult : Nat) : Int), ((halfSplit k mult : Nat) : Int), ((halfSplit n mult : Nat) : Int))) := by
  unfold Gen.C.mulEvenSplit strassenMult
  simp only [min3_int]
  generalize hL : (CLoop.loop 64 _ _ _ : Int × Int) = L
  have h2 : L.2 = ((strassenMult.go cutoff 64 (min (min m n) k / 2) 64 : Nat) : Int) := by
    rw [← hL]
    exact loop_strassen cutoff _ _ (fun w m => by simp) (fun w m => by simp) 64 _ 64
  obtain ⟨w', m'⟩ := L
  simp only at h2
  subst h2
  simp only [halfSplit_int]

theorem addmulEvenSplit_eq (m n k cutoff : Nat) :
    Gen.C.addmulEvenSplit m n k cutoff =
      (let mult := strassenMult (min (min m n) k / 2) cutoff
       (((halfSplit m mult : Nat) : Int), ((halfSplit k mult : Nat) : Int), ((halfSplit n mult : Nat) : Int))) :=
  mulEvenSplit_eq m n k cutoff

theorem sqrEvenSplit_eq (m cutoff : Nat) :
    Gen.C.sqrEvenSplit m cutoff = ((halfSplit m (strassenMult (m / 2) cutoff) : Nat) : Int) := by
  unfold Gen.C.sqrEvenSplit strassenMult
  have e2 : Int.tdiv (m : Int) 2 = ((m / 2 : Nat) : Int) := tdiv_nat m 2
  simp only [e2]
  generalize hL : (CLoop.loop 64 _ _ _ : Int × Int) = L
  have h2 : L.2 = ((strassenMult.go cutoff 64 (m / 2) 64 : Nat) : Int) := by
    rw [← hL]
    exact loop_strassen cutoff _ _ (fun w m => by simp) (fun w m => by simp) 64 _ 64
  obtain ⟨w', m'⟩ := L
  simp only at h2
  subst h2
  simp only [halfSplit_int]

theorem addsqrEvenSplit_eq (m cutoff : Nat) :
    Gen.C.addsqrEvenSplit m cutoff = ((halfSplit m (strassenMult (m / 2) cutoff) : Nat) : Int) :=
  sqrEvenSplit_eq m cutoff

/-! ### 14: chunk division (`chunks` of M4riElim) -/

def l2 : Int × Int → List Int | (a, b) => [a, b]
def l3 : Int × Int × Int → List Int | (a, b, c) => [a, b, c]
def l4 : Int × Int × Int × Int → List Int | (a, b, c, d) => [a, b, c, d]
def l5 : Int × Int × Int × Int × Int → List Int | (a, b, c, d, e) => [a, b, c, d, e]
def l6 : Int × Int × Int × Int × Int × Int → List Int | (a, b, c, d, e, f) => [a, b, c, d, e, f]

theorem echelonizeSplit6_eq (k kbar : Nat) (h : kbar > 5 * k) :
    l6 (Gen.C.echelonizeSplit6 kbar) = (chunks k kbar).map Int.ofNat := by
  unfold Gen.C.echelonizeSplit6 chunks l6
  rw [if_pos h]
  simp only [Int.tdiv_eq_ediv_of_nonneg (Int.natCast_nonneg _),
    Int.tmod_eq_emod_of_nonneg (Int.natCast_nonneg _), List.map, List.cons.injEq, Int.ofNat_eq_natCast,
    decide_eq_true_eq, and_true]
  refine ⟨?_, ?_, ?_, ?_, ?_, ?_⟩ <;> (repeat' split) <;> omega

theorem echelonizeSplit5_eq (k kbar : Nat) (h : 4 * k < kbar ∧ kbar ≤ 5 * k) :
    l5 (Gen.C.echelonizeSplit5 kbar) = (chunks k kbar).map Int.ofNat := by
  unfold Gen.C.echelonizeSplit5 chunks l5
  rw [if_neg (by omega), if_pos (by omega)]
  simp only [Int.tdiv_eq_ediv_of_nonneg (Int.natCast_nonneg _),
    Int.tmod_eq_emod_of_nonneg (Int.natCast_nonneg _), List.map, List.cons.injEq, Int.ofNat_eq_natCast,
    decide_eq_true_eq, and_true]
  refine ⟨?_, ?_, ?_, ?_, ?_⟩ <;> (repeat' split) <;> omega

theorem echelonizeSplit4_eq (k kbar : Nat) (h : 3 * k < kbar ∧ kbar ≤ 4 * k) :
    l4 (Gen.C.echelonizeSplit4 kbar) = (chunks k kbar).map Int.ofNat := by
  unfold Gen.C.echelonizeSplit4 chunks l4
  rw [if_neg (by omega), if_neg (by omega), if_pos (by omega)]
  simp only [Int.tdiv_eq_ediv_of_nonneg (Int.natCast_nonneg _),
    Int.tmod_eq_emod_of_nonneg (Int.natCast_nonneg _), List.map, List.cons.injEq, Int.ofNat_eq_natCast,
    decide_eq_true_eq, and_true]
  refine ⟨?_, ?_, ?_, ?_⟩ <;> (repeat' split) <;> omega

theorem echelonizeSplit3_eq (k kbar : Nat) (h : 2 * k < kbar ∧ kbar ≤ 3 * k) :
    l3 (Gen.C.echelonizeSplit3 kbar) = (chunks k kbar).map Int.ofNat := by
  unfold Gen.C.echelonizeSplit3 chunks l3
  rw [if_neg (by omega), if_neg (by omega), if_neg (by omega), if_pos (by omega)]
  simp only [Int.tdiv_eq_ediv_of_nonneg (Int.natCast_nonneg _),
    Int.tmod_eq_emod_of_nonneg (Int.natCast_nonneg _), List.map, List.cons.injEq, Int.ofNat_eq_natCast,
    decide_eq_true_eq, and_true]
  refine ⟨?_, ?_, ?_⟩ <;> (repeat' split) <;> omega

theorem echelonizeSplit2_eq (k kbar : Nat) (h : k < kbar ∧ kbar ≤ 2 * k) :
    l2 (Gen.C.echelonizeSplit2 kbar) = (chunks k kbar).map Int.ofNat := by
  unfold Gen.C.echelonizeSplit2 chunks l2
  rw [if_neg (by omega), if_neg (by omega), if_neg (by omega), if_neg (by omega), if_pos (by omega)]
  simp only [Int.tdiv_eq_ediv_of_nonneg (Int.natCast_nonneg _),
    List.map, List.cons.injEq, Int.ofNat_eq_natCast, and_true]
  refine ⟨?_, ?_⟩ <;> omega

/-- the three C functions carry the same chunk computation (identical generated text) -/
theorem topEchelonizeSplit6_eq (k kbar : Nat) (h : kbar > 5 * k) :
    l6 (Gen.C.topEchelonizeSplit6 kbar) = (chunks k kbar).map Int.ofNat := echelonizeSplit6_eq k kbar h
theorem topEchelonizeSplit5_eq (k kbar : Nat) (h : 4 * k < kbar ∧ kbar ≤ 5 * k) :
    l5 (Gen.C.topEchelonizeSplit5 kbar) = (chunks k kbar).map Int.ofNat := echelonizeSplit5_eq k kbar h
theorem topEchelonizeSplit4_eq (k kbar : Nat) (h : 3 * k < kbar ∧ kbar ≤ 4 * k) :
    l4 (Gen.C.topEchelonizeSplit4 kbar) = (chunks k kbar).map Int.ofNat := echelonizeSplit4_eq k kbar h
theorem topEchelonizeSplit3_eq (k kbar : Nat) (h : 2 * k < kbar ∧ kbar ≤ 3 * k) :
    l3 (Gen.C.topEchelonizeSplit3 kbar) = (chunks k kbar).map Int.ofNat := echelonizeSplit3_eq k kbar h
theorem topEchelonizeSplit2_eq (k kbar : Nat) (h : k < kbar ∧ kbar ≤ 2 * k) :
    l2 (Gen.C.topEchelonizeSplit2 kbar) = (chunks k kbar).map Int.ofNat := echelonizeSplit2_eq k kbar h

/-- `mzd_process_rowsN(…, k, …)`: `k` is the total number of pivots (the `kbar` of the caller),
    `k0` the caller's table size -/
theorem processRows6Split_eq (k0 k : Nat) (h : k > 5 * k0) :
    l6 (Gen.C.processRows6Split k) = (chunks k0 k).map Int.ofNat := echelonizeSplit6_eq k0 k h
theorem processRows5Split_eq (k0 k : Nat) (h : 4 * k0 < k ∧ k ≤ 5 * k0) :
    l5 (Gen.C.processRows5Split k) = (chunks k0 k).map Int.ofNat := echelonizeSplit5_eq k0 k h
theorem processRows4Split_eq (k0 k : Nat) (h : 3 * k0 < k ∧ k ≤ 4 * k0) :
    l4 (Gen.C.processRows4Split k) = (chunks k0 k).map Int.ofNat := echelonizeSplit4_eq k0 k h
theorem processRows3Split_eq (k0 k : Nat) (h : 2 * k0 < k ∧ k ≤ 3 * k0) :
    l3 (Gen.C.processRows3Split k) = (chunks k0 k).map Int.ofNat := echelonizeSplit3_eq k0 k h
theorem processRows2Split_eq (k0 k : Nat) (h : k0 < k ∧ k ≤ 2 * k0) :
    l2 (Gen.C.processRows2Split k) = (chunks k0 k).map Int.ofNat := echelonizeSplit2_eq k0 k h

/-! ### 9: log2Floor, optK -/

theorem loop_succ_true {σ : Type} (n : Nat) (cond : σ → Bool) (body : σ → σ) (s : σ) (h : cond s = true) :
    CLoop.loop (n + 1) cond body s = CLoop.loop n cond body (body s) := by
  rw [CLoop.loop, if_pos h]

theorem loop_false {σ : Type} (n : Nat) (cond : σ → Bool) (body : σ → σ) (s : σ) (h : cond s = false) :
    CLoop.loop n cond body s = s := by
  cases n with
  | zero => rfl
  | succ n => rw [CLoop.loop, h]; rfl

theorem int_shiftRight_nat (a s : Nat) : ((a : Int) >>> s) = ((a >>> s : Nat) : Int) := by
  rw [Int.shiftRight_eq_div_pow, Nat.shiftRight_eq_div_pow]
  norm_cast

def l2step (st : Nat × Nat) (bs : Nat × Nat) : Nat × Nat :=
  if st.1 &&& bs.1 ≠ 0 then (st.1 >>> bs.2, st.2 ||| bs.2) else st

theorem log2Floor_model (v : Nat) : log2Floor v =
    ([(0xFFFF0000, 16), (0xFF00, 8), (0xF0, 4), (0xC, 2), (0x2, 1)].foldl l2step (v, 0)).2 := rfl

def cCond (st : Int × BitVec 32 × Int) : Bool := decide (st.2.2 ≥ 0)
def cBody (st : Int × BitVec 32 × Int) : Int × BitVec 32 × Int :=
  let p : Int × BitVec 32 :=
    if (decide (((BitVec.ofInt 32 st.1) &&& (CLoop.tab [(2#32), (12#32), (240#32), (65280#32), (4294901760#32)] (0#32) st.2.2)) ≠ (0#32))) then
      (st.1 >>> ((Int.ofNat (BitVec.toNat (CLoop.tab [(1#32), (2#32), (4#32), (8#32), (16#32)] (0#32) st.2.2)))).toNat,
       st.2.1 ||| (CLoop.tab [(1#32), (2#32), (4#32), (8#32), (16#32)] (0#32) st.2.2))
    else (st.1, st.2.1)
  (p.1, p.2, st.2.2 - 1)

theorem log2Floor_unfold (v : Int) :
    Gen.C.log2Floor v = (CLoop.loop 6 cCond cBody (v, 0#32, 4)).2.1.toInt := rfl


theorem ofNat32_ne_zero (x : Nat) (hx : x < 2 ^ 32) : (BitVec.ofNat 32 x ≠ 0#32) ↔ x ≠ 0 := by
  rw [Ne, BitVec.toNat_eq]
  simp only [BitVec.toNat_ofNat, Nat.zero_mod]
  rw [Nat.mod_eq_of_lt hx]

theorem l2core (v rn : Nat) (j : Int) (hv : v < 2 ^ 32) :
    cBody ((v : Int), BitVec.ofNat 32 rn, j) =
      (let m := CLoop.tab [(2#32), (12#32), (240#32), (65280#32), (4294901760#32)] (0#32) j
       let s := CLoop.tab [(1#32), (2#32), (4#32), (8#32), (16#32)] (0#32) j
       (((l2step (v, rn) (m.toNat, s.toNat)).1 : Int), BitVec.ofNat 32 (l2step (v, rn) (m.toNat, s.toNat)).2, j - 1)) := by
  simp only [cBody, l2step]
  generalize CLoop.tab [(2#32), (12#32), (240#32), (65280#32), (4294901760#32)] (0#32) j = m
  generalize CLoop.tab [(1#32), (2#32), (4#32), (8#32), (16#32)] (0#32) j = s
  have hm : m = BitVec.ofNat 32 m.toNat := by simp
  have hs : s = BitVec.ofNat 32 s.toNat := by simp
  have hc : (BitVec.ofInt 32 (v : Int) &&& m ≠ 0#32) ↔ (v &&& m.toNat ≠ 0) := by
    rw [BitVec.ofInt_natCast]
    conv => lhs; rw [hm, ← BitVec.ofNat_and]
    apply ofNat32_ne_zero
    exact Nat.lt_of_le_of_lt Nat.and_le_left hv
  by_cases h : v &&& m.toNat ≠ 0
  · have h' := hc.mpr h
    simp only [h, h', decide_true, if_true, Int.ofNat_eq_natCast, Int.toNat_natCast, int_shiftRight_nat, ne_eq, not_false_eq_true]
    conv => lhs; rw [hs, ← BitVec.ofNat_or]
    simp
  · have h' : ¬ (BitVec.ofInt 32 (v : Int) &&& m ≠ 0#32) := fun x => h (hc.mp x)
    simp only [h, h', decide_false, Bool.false_eq_true, if_false]

theorem l2one (n : Nat) (st : Nat × Nat) (j : Int) (b s : Nat) (hv : st.1 < 2 ^ 32) (hj : 0 ≤ j)
    (hb : (CLoop.tab [(2#32), (12#32), (240#32), (65280#32), (4294901760#32)] (0#32) j).toNat = b)
    (hs : (CLoop.tab [(1#32), (2#32), (4#32), (8#32), (16#32)] (0#32) j).toNat = s) :
    CLoop.loop (n + 1) cCond cBody ((st.1 : Int), BitVec.ofNat 32 st.2, j) =
      CLoop.loop n cCond cBody
        (((l2step st (b, s)).1 : Int), BitVec.ofNat 32 (l2step st (b, s)).2, j - 1) := by
  rw [loop_succ_true _ _ _ _ (by simp [cCond, hj]), l2core st.1 st.2 j hv]
  simp only [hb, hs]

theorem l2step_fst_le (st bs : Nat × Nat) : (l2step st bs).1 ≤ st.1 := by
  unfold l2step
  split
  · exact Nat.shiftRight_le _ _
  · exact Nat.le_refl _

theorem l2step_snd_lt (st bs : Nat × Nat) (h : st.2 < 2 ^ 5) (hb : bs.2 < 2 ^ 5) : (l2step st bs).2 < 2 ^ 5 := by
  unfold l2step
  split
  · exact Nat.or_lt_two_pow h hb
  · exact h

theorem toInt_ofNat32 (x : Nat) (hx : x < 2 ^ 31) : (BitVec.ofNat 32 x).toInt = (x : Int) := by
  unfold BitVec.toInt
  simp only [BitVec.toNat_ofNat]
  rw [Nat.mod_eq_of_lt (by omega)]
  split <;> omega

theorem log2Floor_eq (v : Nat) (h : v < 2 ^ 31) : Gen.C.log2Floor v = (log2Floor v : Nat) := by
  rw [log2Floor_unfold, log2Floor_model]
  have hv : v < 2 ^ 32 := by omega
  have h1 := l2step_fst_le (v, 0) (4294901760, 16)
  have h2 := l2step_fst_le (l2step (v, 0) (4294901760, 16)) (65280, 8)
  have h3 := l2step_fst_le (l2step (l2step (v, 0) (4294901760, 16)) (65280, 8)) (240, 4)
  have h4 := l2step_fst_le (l2step (l2step (l2step (v, 0) (4294901760, 16)) (65280, 8)) (240, 4)) (12, 2)
  rw [show (0#32) = BitVec.ofNat 32 0 from rfl,
    l2one 5 (v, 0) 4 4294901760 16 hv (by decide) (by decide) (by decide),
    l2one 4 _ (4 - 1) 65280 8 (by omega) (by decide) (by decide) (by decide),
    l2one 3 _ (4 - 1 - 1) 240 4 (by omega) (by decide) (by decide) (by decide),
    l2one 2 _ (4 - 1 - 1 - 1) 12 2 (by omega) (by decide) (by decide) (by decide),
    l2one 1 _ (4 - 1 - 1 - 1 - 1) 2 1 (by omega) (by decide) (by decide) (by decide)]
  simp only [CLoop.loop, List.foldl]
  apply toInt_ofNat32
  have := l2step_snd_lt (l2step (l2step (l2step (l2step (v, 0) (4294901760, 16)) (65280, 8)) (240, 4)) (12, 2)) (2, 1)
    (l2step_snd_lt _ (12, 2) (l2step_snd_lt _ (240, 4) (l2step_snd_lt _ (65280, 8) (l2step_snd_lt (v, 0) (4294901760, 16)
      (by show 0 < 2 ^ 5; decide) (by decide)) (by decide)) (by decide)) (by decide)) (by decide)
  omega


theorem optK_eq (a b c : Nat) (ha : a < 2 ^ 31) (hb : b < 2 ^ 31) :
    Gen.C.optK a b c = (optK a b : Nat) := by
  unfold Gen.C.optK optK
  have e : (if decide ((a : Int) < b) then (a : Int) else b) = ((min a b : Nat) : Int) := by
    simp only [decide_eq_true_eq]; split <;> omega
  simp only [e]
  rw [log2Floor_eq _ (by omega)]
  generalize log2Floor (min a b) = L
  have e2 : Int.tdiv (3 * (1 + (L : Int))) 4 = ((3 * (1 + L) / 4 : Nat) : Int) := by
    have : 3 * (1 + (L : Int)) = ((3 * (1 + L) : Nat) : Int) := by omega
    rw [this]; exact tdiv_nat _ 4
  simp only [e2, decide_eq_true_eq]
  generalize 3 * (1 + L) / 4 = q
  repeat' split
  all_goals omega

/-! ### 8: grayCode -/

theorem toInt_ofNat64 (x : Nat) (hx : x < 2 ^ 63) : (BitVec.ofNat 64 x).toInt = (x : Int) := by
  unfold BitVec.toInt
  simp only [BitVec.toNat_ofNat]
  rw [Nat.mod_eq_of_lt (by omega)]
  split <;> omega

theorem iand_nat (a b : Nat) (ha : a < 2 ^ 63) (hb : b < 2 ^ 63) :
    CLoop.iand (a : Int) (b : Int) = ((a &&& b : Nat) : Int) := by
  unfold CLoop.iand
  rw [BitVec.ofInt_natCast, BitVec.ofInt_natCast, ← BitVec.ofNat_and]
  exact toInt_ofNat64 _ (Nat.lt_of_le_of_lt Nat.and_le_left ha)

theorem ior_nat (a b : Nat) (ha : a < 2 ^ 63) (hb : b < 2 ^ 63) :
    CLoop.ior (a : Int) (b : Int) = ((a ||| b : Nat) : Int) := by
  unfold CLoop.ior
  rw [BitVec.ofInt_natCast, BitVec.ofInt_natCast, ← BitVec.ofNat_or]
  exact toInt_ofNat64 _ (Nat.or_lt_two_pow ha hb)

theorem ixor_nat (a b : Nat) (ha : a < 2 ^ 63) (hb : b < 2 ^ 63) :
    CLoop.ixor (a : Int) (b : Int) = ((a ^^^ b : Nat) : Int) := by
  unfold CLoop.ixor
  rw [BitVec.ofInt_natCast, BitVec.ofInt_natCast, ← BitVec.ofNat_xor]
  exact toInt_ofNat64 _ (Nat.xor_lt_two_pow ha hb)

theorem ishl_one_nat (i : Nat) : CLoop.ishl 1 i = ((1 <<< i : Nat) : Int) := by
  unfold CLoop.ishl
  rw [Nat.one_shiftLeft]; norm_cast; omega

def gCond (st : Int × Int × Int) : Bool := decide (st.2.2 ≥ 0)
def gBody (number : Int) (st : Int × Int × Int) : Int × Int × Int :=
  let bit := CLoop.iand number (CLoop.ishl (1 : Int) (st.2.2).toNat)
  (CLoop.ior st.1 (CLoop.ixor (st.2.1 >>> ((1 : Int)).toNat) bit), bit, st.2.2 - 1)

theorem grayCode_unfold (number length : Int) :
    Gen.C.grayCode number length
      = (CLoop.loop (length.toNat + 1) gCond (gBody number) (0, 0, length - 1)).1 := rfl

theorem gray_loop (number : Nat) (hn : number < 2 ^ 31) :
    ∀ (i fuel lastbit res : Nat), i ≤ 31 → i + 1 ≤ fuel → lastbit < 2 ^ 31 → res < 2 ^ 31 →
      (CLoop.loop fuel gCond (gBody number) ((res : Int), (lastbit : Int), (i : Int) - 1)).1
        = ((grayCode.go number i lastbit res : Nat) : Int) := by
  intro i
  induction i with
  | zero =>
    intro fuel lastbit res _ _ _ _
    rw [loop_false _ _ _ _ (by simp [gCond])]
    rfl
  | succ i ih =>
    intro fuel lastbit res hi hf hl hr
    obtain ⟨f, rfl⟩ : ∃ f, fuel = f + 1 := ⟨fuel - 1, by omega⟩
    rw [loop_succ_true _ _ _ _ (by simp [gCond])]
    have hp : (1 <<< i : Nat) < 2 ^ 31 := by
      rw [Nat.one_shiftLeft]; exact Nat.pow_lt_pow_right (by decide) (by omega)
    have hbit : number &&& (1 <<< i) < 2 ^ 31 := Nat.lt_of_le_of_lt Nat.and_le_left hn
    have hlb : lastbit >>> 1 < 2 ^ 31 := Nat.lt_of_le_of_lt (Nat.shiftRight_le _ _) hl
    have hx : (lastbit >>> 1) ^^^ (number &&& (1 <<< i)) < 2 ^ 31 := Nat.xor_lt_two_pow hlb hbit
    have hres : res ||| ((lastbit >>> 1) ^^^ (number &&& (1 <<< i))) < 2 ^ 31 := Nat.or_lt_two_pow hr hx
    have e : gBody number ((res : Int), (lastbit : Int), ((i + 1 : Nat) : Int) - 1)
        = (((res ||| ((lastbit >>> 1) ^^^ (number &&& (1 <<< i))) : Nat) : Int),
           ((number &&& (1 <<< i) : Nat) : Int), (i : Int) - 1) := by
      simp only [gBody]
      have e1 : (((i + 1 : Nat) : Int) - 1).toNat = i := by omega
      rw [e1, ishl_one_nat, iand_nat _ _ (by omega) (by omega), show ((1 : Int)).toNat = 1 from rfl,
        int_shiftRight_one, ixor_nat _ _ (by omega) (by omega), ior_nat _ _ (by omega) (by omega)]
      congr 2
      omega
    rw [e, ih f _ _ (by omega) (by omega) hbit hres]
    rfl

theorem grayCode_eq (number length : Nat) (hl : length ≤ 31) (hn : number < 2 ^ 31) :
    Gen.C.grayCode number length = (grayCode number length : Nat) := by
  rw [grayCode_unfold]
  have := gray_loop number hn length ((length : Int).toNat + 1) 0 0 hl (by omega) (by decide) (by decide)
  exact this

/-! ### 7: spreadBits, shrinkBits (fall-through `switch`) -/

theorem foldl_or16 (f : Nat → BitVec 64) (n : Nat) (hn : n ≤ 16) :
    (List.range n).foldl (fun to i => to ||| f i) 0#64 =
      ((((((((((((((((0#64 ||| (if 15 < n then f 15 else 0#64)) ||| (if 14 < n then f 14 else 0#64)) ||| (if 13 < n then f 13 else 0#64)) ||| (if 12 < n then f 12 else 0#64)) ||| (if 11 < n then f 11 else 0#64)) ||| (if 10 < n then f 10 else 0#64)) ||| (if 9 < n then f 9 else 0#64)) ||| (if 8 < n then f 8 else 0#64)) ||| (if 7 < n then f 7 else 0#64)) ||| (if 6 < n then f 6 else 0#64)) ||| (if 5 < n then f 5 else 0#64)) ||| (if 4 < n then f 4 else 0#64)) ||| (if 3 < n then f 3 else 0#64)) ||| (if 2 < n then f 2 else 0#64)) ||| (if 1 < n then f 1 else 0#64)) ||| (if 0 < n then f 0 else 0#64)) := by
  have hcases : n = 0 ∨ n = 1 ∨ n = 2 ∨ n = 3 ∨ n = 4 ∨ n = 5 ∨ n = 6 ∨ n = 7 ∨ n = 8 ∨ n = 9 ∨ n = 10 ∨ n = 11 ∨ n = 12 ∨ n = 13 ∨ n = 14 ∨ n = 15 ∨ n = 16 := by omega
  rcases hcases with rfl | rfl | rfl | rfl | rfl | rfl | rfl | rfl | rfl | rfl | rfl | rfl | rfl | rfl | rfl | rfl | rfl
  · show List.foldl _ _ ([] : List Nat) = _
    simp only [List.foldl]
    simp <;> ac_rfl
  · show List.foldl _ _ ([0] : List Nat) = _
    simp only [List.foldl]
    simp <;> ac_rfl
  · show List.foldl _ _ ([0, 1] : List Nat) = _
    simp only [List.foldl]
    simp <;> ac_rfl
  · show List.foldl _ _ ([0, 1, 2] : List Nat) = _
    simp only [List.foldl]
    simp <;> ac_rfl
  · show List.foldl _ _ ([0, 1, 2, 3] : List Nat) = _
    simp only [List.foldl]
    simp <;> ac_rfl
  · show List.foldl _ _ ([0, 1, 2, 3, 4] : List Nat) = _
    simp only [List.foldl]
    simp <;> ac_rfl
  · show List.foldl _ _ ([0, 1, 2, 3, 4, 5] : List Nat) = _
    simp only [List.foldl]
    simp <;> ac_rfl
  · show List.foldl _ _ ([0, 1, 2, 3, 4, 5, 6] : List Nat) = _
    simp only [List.foldl]
    simp <;> ac_rfl
  · show List.foldl _ _ ([0, 1, 2, 3, 4, 5, 6, 7] : List Nat) = _
    simp only [List.foldl]
    simp <;> ac_rfl
  · show List.foldl _ _ ([0, 1, 2, 3, 4, 5, 6, 7, 8] : List Nat) = _
    simp only [List.foldl]
    simp <;> ac_rfl
  · show List.foldl _ _ ([0, 1, 2, 3, 4, 5, 6, 7, 8, 9] : List Nat) = _
    simp only [List.foldl]
    simp <;> ac_rfl
  · show List.foldl _ _ ([0, 1, 2, 3, 4, 5, 6, 7, 8, 9, 10] : List Nat) = _
    simp only [List.foldl]
    simp <;> ac_rfl
  · show List.foldl _ _ ([0, 1, 2, 3, 4, 5, 6, 7, 8, 9, 10, 11] : List Nat) = _
    simp only [List.foldl]
    simp <;> ac_rfl
  · show List.foldl _ _ ([0, 1, 2, 3, 4, 5, 6, 7, 8, 9, 10, 11, 12] : List Nat) = _
    simp only [List.foldl]
    simp <;> ac_rfl
  · show List.foldl _ _ ([0, 1, 2, 3, 4, 5, 6, 7, 8, 9, 10, 11, 12, 13] : List Nat) = _
    simp only [List.foldl]
    simp <;> ac_rfl
  · show List.foldl _ _ ([0, 1, 2, 3, 4, 5, 6, 7, 8, 9, 10, 11, 12, 13, 14] : List Nat) = _
    simp only [List.foldl]
    simp <;> ac_rfl
  · show List.foldl _ _ ([0, 1, 2, 3, 4, 5, 6, 7, 8, 9, 10, 11, 12, 13, 14, 15] : List Nat) = _
    simp only [List.foldl]
    simp <;> ac_rfl

def sTerm (w : BitVec 64) (Q : List Nat) (base j : Nat) : BitVec 64 :=
  (w &&& ((1#64) <<< j)) <<< (Q.getD j 0 - j - base)

theorem sTerm_eq (w : BitVec 64) (Q : List Nat) (base : Nat) (jz : Int) (h : 0 ≤ jz) :
    (w &&& ((1#64) <<< jz.toNat)) <<< ((((Q.getD jz.toNat 0 : Nat) : Int) - jz) - (base : Int)).toNat
      = sTerm w Q base jz.toNat := by
  unfold sTerm
  congr 1
  omega

theorem step_eq (pos : Int) (length : Nat) (hp : pos = 16 - length) (c : Int) (j : Nat) (hcj : c = 15 - j)
    (to t : BitVec 64) :
    (if decide (pos ≤ c) = true then to ||| t else to) = to ||| (if j < length then t else 0#64) := by
  subst hp hcj
  by_cases h : j < length
  · rw [if_pos (by simp only [decide_eq_true_eq]; omega), if_pos h]
  · rw [if_neg (by simp only [decide_eq_true_eq]; omega), if_neg h, BitVec.or_zero]

theorem swPos_eq (length : Nat) (h1 : 1 ≤ length) (h16 : length ≤ 16) (sel pos : Int)
    (hsel : sel = (length : Int) - 1)
    (hpos : pos = (if sel = (15 : Int) then (0 : Int) else (if sel = (14 : Int) then (1 : Int) else (if sel = (13 : Int) then (2 : Int) else (if sel = (12 : Int) then (3 : Int) else (if sel = (11 : Int) then (4 : Int) else (if sel = (10 : Int) then (5 : Int) else (if sel = (9 : Int) then (6 : Int) else (if sel = (8 : Int) then (7 : Int) else (if sel = (7 : Int) then (8 : Int) else (if sel = (6 : Int) then (9 : Int) else (if sel = (5 : Int) then (10 : Int) else (if sel = (4 : Int) then (11 : Int) else (if sel = (3 : Int) then (12 : Int) else (if sel = (2 : Int) then (13 : Int) else (if sel = (1 : Int) then (14 : Int) else (if sel = (0 : Int) then (15 : Int) else (16 : Int)))))))))))))))))) :
    pos = 16 - (length : Int) := by
  subst hpos hsel
  repeat' split
  all_goals omega

theorem spreadBits_eq (w : BitVec 64) (Q : List Nat) (length base : Nat) (h1 : 1 ≤ length) (h16 : length ≤ 16) :
    Gen.C.spreadBits w (fun i => (Q.getD i.toNat 0 : Nat)) length base = spreadBits w Q length base := by
  have hm : spreadBits w Q length base
      = (List.range length).foldl (fun to i => to ||| sTerm w Q base i) 0#64 := rfl
  rw [hm, foldl_or16 _ length h16]
  unfold Gen.C.spreadBits
  extract_lets v0 sel pos t15 t14 t13 t12 t11 t10 t9 t8 t7 t6 t5 t4 t3 t2 t1 t0
  have hp : pos = 16 - (length : Int) := swPos_eq length h1 h16 sel pos rfl rfl
  have e15 : t15 = v0 ||| (if 15 < length then sTerm w Q base 15 else 0#64) := by
    simp only [t15]
    rw [step_eq pos length hp 0 15 (by decide), sTerm_eq w Q base 15 (by decide)]
    rfl
  have e14 : t14 = t15 ||| (if 14 < length then sTerm w Q base 14 else 0#64) := by
    simp only [t14]
    rw [step_eq pos length hp 1 14 (by decide), sTerm_eq w Q base 14 (by decide)]
    rfl
  have e13 : t13 = t14 ||| (if 13 < length then sTerm w Q base 13 else 0#64) := by
    simp only [t13]
    rw [step_eq pos length hp 2 13 (by decide), sTerm_eq w Q base 13 (by decide)]
    rfl
  have e12 : t12 = t13 ||| (if 12 < length then sTerm w Q base 12 else 0#64) := by
    simp only [t12]
    rw [step_eq pos length hp 3 12 (by decide), sTerm_eq w Q base 12 (by decide)]
    rfl
  have e11 : t11 = t12 ||| (if 11 < length then sTerm w Q base 11 else 0#64) := by
    simp only [t11]
    rw [step_eq pos length hp 4 11 (by decide), sTerm_eq w Q base 11 (by decide)]
    rfl
  have e10 : t10 = t11 ||| (if 10 < length then sTerm w Q base 10 else 0#64) := by
    simp only [t10]
    rw [step_eq pos length hp 5 10 (by decide), sTerm_eq w Q base 10 (by decide)]
    rfl
  have e9 : t9 = t10 ||| (if 9 < length then sTerm w Q base 9 else 0#64) := by
    simp only [t9]
    rw [step_eq pos length hp 6 9 (by decide), sTerm_eq w Q base 9 (by decide)]
    rfl
  have e8 : t8 = t9 ||| (if 8 < length then sTerm w Q base 8 else 0#64) := by
    simp only [t8]
    rw [step_eq pos length hp 7 8 (by decide), sTerm_eq w Q base 8 (by decide)]
    rfl
  have e7 : t7 = t8 ||| (if 7 < length then sTerm w Q base 7 else 0#64) := by
    simp only [t7]
    rw [step_eq pos length hp 8 7 (by decide), sTerm_eq w Q base 7 (by decide)]
    rfl
  have e6 : t6 = t7 ||| (if 6 < length then sTerm w Q base 6 else 0#64) := by
    simp only [t6]
    rw [step_eq pos length hp 9 6 (by decide), sTerm_eq w Q base 6 (by decide)]
    rfl
  have e5 : t5 = t6 ||| (if 5 < length then sTerm w Q base 5 else 0#64) := by
    simp only [t5]
    rw [step_eq pos length hp 10 5 (by decide), sTerm_eq w Q base 5 (by decide)]
    rfl
  have e4 : t4 = t5 ||| (if 4 < length then sTerm w Q base 4 else 0#64) := by
    simp only [t4]
    rw [step_eq pos length hp 11 4 (by decide), sTerm_eq w Q base 4 (by decide)]
    rfl
  have e3 : t3 = t4 ||| (if 3 < length then sTerm w Q base 3 else 0#64) := by
    simp only [t3]
    rw [step_eq pos length hp 12 3 (by decide), sTerm_eq w Q base 3 (by decide)]
    rfl
  have e2 : t2 = t3 ||| (if 2 < length then sTerm w Q base 2 else 0#64) := by
    simp only [t2]
    rw [step_eq pos length hp 13 2 (by decide), sTerm_eq w Q base 2 (by decide)]
    rfl
  have e1 : t1 = t2 ||| (if 1 < length then sTerm w Q base 1 else 0#64) := by
    simp only [t1]
    rw [step_eq pos length hp 14 1 (by decide), sTerm_eq w Q base 1 (by decide)]
    rfl
  have e0 : t0 = t1 ||| (if 0 < length then sTerm w Q base 0 else 0#64) := by
    simp only [t0]
    rw [step_eq pos length hp 15 0 (by decide), sTerm_eq w Q base 0 (by decide)]
    rfl
  rw [e0, e1, e2, e3, e4, e5, e6, e7, e8, e9, e10, e11, e12, e13, e14, e15]

def rTerm (w : BitVec 64) (Q : List Nat) (base j : Nat) : BitVec 64 :=
  (w &&& ((1#64) <<< (Q.getD j 0 - base))) >>> (Q.getD j 0 - j - base)

theorem rTerm_eq (w : BitVec 64) (Q : List Nat) (base : Nat) (jz : Int) (h : 0 ≤ jz) :
    (w &&& ((1#64) <<< (((Q.getD jz.toNat 0 : Nat) : Int) - (base : Int)).toNat))
        >>> ((((Q.getD jz.toNat 0 : Nat) : Int) - jz) - (base : Int)).toNat
      = rTerm w Q base jz.toNat := by
  unfold rTerm
  congr 2
  · congr 1
    omega
  · omega

theorem shrinkBits_eq (w : BitVec 64) (Q : List Nat) (length base : Nat) (h1 : 1 ≤ length) (h16 : length ≤ 16) :
    Gen.C.shrinkBits w (fun i => (Q.getD i.toNat 0 : Nat)) length base = shrinkBits w Q length base := by
  have hm : shrinkBits w Q length base
      = (List.range length).foldl (fun to i => to ||| rTerm w Q base i) 0#64 := rfl
  rw [hm, foldl_or16 _ length h16]
  unfold Gen.C.shrinkBits
  extract_lets v0 sel pos t15 t14 t13 t12 t11 t10 t9 t8 t7 t6 t5 t4 t3 t2 t1 t0
  have hp : pos = 16 - (length : Int) := swPos_eq length h1 h16 sel pos rfl rfl
  have e15 : t15 = v0 ||| (if 15 < length then rTerm w Q base 15 else 0#64) := by
    simp only [t15]
    rw [step_eq pos length hp 0 15 (by decide), rTerm_eq w Q base 15 (by decide)]
    rfl
  have e14 : t14 = t15 ||| (if 14 < length then rTerm w Q base 14 else 0#64) := by
    simp only [t14]
    rw [step_eq pos length hp 1 14 (by decide), rTerm_eq w Q base 14 (by decide)]
    rfl
  have e13 : t13 = t14 ||| (if 13 < length then rTerm w Q base 13 else 0#64) := by
    simp only [t13]
    rw [step_eq pos length hp 2 13 (by decide), rTerm_eq w Q base 13 (by decide)]
    rfl
  have e12 : t12 = t13 ||| (if 12 < length then rTerm w Q base 12 else 0#64) := by
    simp only [t12]
    rw [step_eq pos length hp 3 12 (by decide), rTerm_eq w Q base 12 (by decide)]
    rfl
  have e11 : t11 = t12 ||| (if 11 < length then rTerm w Q base 11 else 0#64) := by
    simp only [t11]
    rw [step_eq pos length hp 4 11 (by decide), rTerm_eq w Q base 11 (by decide)]
    rfl
  have e10 : t10 = t11 ||| (if 10 < length then rTerm w Q base 10 else 0#64) := by
    simp only [t10]
    rw [step_eq pos length hp 5 10 (by decide), rTerm_eq w Q base 10 (by decide)]
    rfl
  have e9 : t9 = t10 ||| (if 9 < length then rTerm w Q base 9 else 0#64) := by
    simp only [t9]
    rw [step_eq pos length hp 6 9 (by decide), rTerm_eq w Q base 9 (by decide)]
    rfl
  have e8 : t8 = t9 ||| (if 8 < length then rTerm w Q base 8 else 0#64) := by
    simp only [t8]
    rw [step_eq pos length hp 7 8 (by decide), rTerm_eq w Q base 8 (by decide)]
    rfl
  have e7 : t7 = t8 ||| (if 7 < length then rTerm w Q base 7 else 0#64) := by
    simp only [t7]
    rw [step_eq pos length hp 8 7 (by decide), rTerm_eq w Q base 7 (by decide)]
    rfl
  have e6 : t6 = t7 ||| (if 6 < length then rTerm w Q base 6 else 0#64) := by
    simp only [t6]
    rw [step_eq pos length hp 9 6 (by decide), rTerm_eq w Q base 6 (by decide)]
    rfl
  have e5 : t5 = t6 ||| (if 5 < length then rTerm w Q base 5 else 0#64) := by
    simp only [t5]
    rw [step_eq pos length hp 10 5 (by decide), rTerm_eq w Q base 5 (by decide)]
    rfl
  have e4 : t4 = t5 ||| (if 4 < length then rTerm w Q base 4 else 0#64) := by
    simp only [t4]
    rw [step_eq pos length hp 11 4 (by decide), rTerm_eq w Q base 4 (by decide)]
    rfl
  have e3 : t3 = t4 ||| (if 3 < length then rTerm w Q base 3 else 0#64) := by
    simp only [t3]
    rw [step_eq pos length hp 12 3 (by decide), rTerm_eq w Q base 3 (by decide)]
    rfl
  have e2 : t2 = t3 ||| (if 2 < length then rTerm w Q base 2 else 0#64) := by
    simp only [t2]
    rw [step_eq pos length hp 13 2 (by decide), rTerm_eq w Q base 2 (by decide)]
    rfl
  have e1 : t1 = t2 ||| (if 1 < length then rTerm w Q base 1 else 0#64) := by
    simp only [t1]
    rw [step_eq pos length hp 14 1 (by decide), rTerm_eq w Q base 1 (by decide)]
    rfl
  have e0 : t0 = t1 ||| (if 0 < length then rTerm w Q base 0 else 0#64) := by
    simp only [t0]
    rw [step_eq pos length hp 15 0 (by decide), rTerm_eq w Q base 0 (by decide)]
    rfl
  rw [e0, e1, e2, e3, e4, e5, e6, e7, e8, e9, e10, e11, e12, e13, e14, e15]

end M4ri.GenTie
