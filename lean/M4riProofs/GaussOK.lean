/-
  Discharging the hypotheses `RowEquiv M M.rref`, `M.rref.isRREF = true`, `GaussOK M` that the checker
  soundness theorems of `Trsm.lean`, `Checkers.lean`, `Kernel.lean` carry.

    §1  `RowEquiv` is reflexive and transitive
    §2  elementary matrices: a row swap and "add row `s` to row `d`" are left multiplications by an
        involutive matrix
    §3  the loops of `gaussDelayed`: every state is row-equivalent to the input (`rowEquiv_rref`)
    §4  `rank = rankProfile.length`, `gaussOK`
    §5  the unconditional corollaries (C03, C05, C06, C07) and `invert_naive_spec`
-/
import M4riProofs.Gauss
import M4riProofs.Checkers
import M4riProofs.Kernel
namespace M4ri
namespace BMat
namespace GOK

/-! ## §1 `RowEquiv` is a preorder -/

theorem rowEquiv_nrows {M R : BMat} (h : RowEquiv M R) : R.nrows = M.nrows := by
  obtain ⟨T, T', _, _, hTr, _, _, _, hTM, _⟩ := h
  rw [← hTM]; simpa using hTr

theorem rowEquiv_ncols {M R : BMat} (h : RowEquiv M R) : R.ncols = M.ncols := by
  obtain ⟨T, T', _, _, _, _, _, _, hTM, _⟩ := h
  rw [← hTM]; rfl

theorem rowEquiv_WF {M R : BMat} (hM : M.WF) (h : RowEquiv M R) : R.WF := by
  obtain ⟨T, T', _, _, _, _, _, _, hTM, _⟩ := h
  rw [← hTM]; exact mul_WF T hM

theorem rowEquiv_refl {M : BMat} (hM : M.WF) : RowEquiv M M :=
  ⟨identity M.nrows, identity M.nrows, identity_WF _, identity_WF _, rfl, rfl, rfl, rfl, identity_mul hM,
    mul_identity (A := identity M.nrows) (identity_WF _)⟩

theorem rowEquiv_trans {M R S : BMat} (hM : M.WF) (h1 : RowEquiv M R) (h2 : RowEquiv R S) :
    RowEquiv M S := by
  have hn := rowEquiv_nrows h1
  obtain ⟨T1, T1', hT1, hT1', a1, a2, a3, a4, e1, i1⟩ := h1
  obtain ⟨T2, T2', hT2, hT2', b1, b2, b3, b4, e2, i2⟩ := h2
  rw [hn] at b1 b2 b3 b4 i2
  refine ⟨T2.mul T1, T1'.mul T2', mul_WF _ hT1, mul_WF _ hT2', by simpa using b1, by simpa using a2,
    by simpa using a3, by simpa using b4, ?_, ?_⟩
  · rw [mul_assoc _ hT1 hM, e1, e2]
  · rw [mul_assoc _ hT1 (mul_WF _ hT2'), ← mul_assoc T1 hT1' hT2', i1]
    have := identity_mul hT2'
    rw [b3] at this
    rw [this, i2]

/-! ## §2 elementary matrices -/

/-- **a row swap is left multiplication by the (involutive) transposition matrix** -/
theorem rowEquiv_swapRows {M : BMat} (hM : M.WF) (a b : Nat) (ha : a < M.nrows) (hb : b < M.nrows) :
    RowEquiv M (M.swapRows a b) := by
  have hP : PermOn M.nrows (swapIdx a b) (swapIdx a b) :=
    ⟨fun i hi => ⟨swapIdx_lt ha hb hi, swapIdx_lt ha hb hi⟩,
     fun i => ⟨swapIdx_invol a b i, swapIdx_invol a b i⟩,
     fun i hi => ⟨swapIdx_of_ge ha hb hi, swapIdx_of_ge ha hb hi⟩⟩
  refine ⟨permMat M.nrows (swapIdx a b), permMat M.nrows (swapIdx a b), permMat_WF _ _, permMat_WF _ _,
    rfl, rfl, rfl, rfl, ?_, permMat_inv hP⟩
  apply ext_get (mul_WF _ hM) (WF_swapRows hM a b) (by simp) (by simp)
  intro i j hi hj
  simp only [mul_nrows, permMat_nrows] at hi
  rw [permMat_mul_get _ _ _ i j hi (swapIdx_lt ha hb hi),
    swapRows_get _ _ _ (by rw [hM.1]; exact ha) (by rw [hM.1]; exact hb)]

/-- the elementary matrix `I + E_{d,s}`: left multiplication adds row `s` to row `d` -/
def addMat (n d s : Nat) : BMat :=
  ofFn n n (fun i k => decide (k = i) || (decide (i = d) && decide (k = s)))

@[simp] theorem addMat_nrows (n d s : Nat) : (addMat n d s).nrows = n := rfl
@[simp] theorem addMat_ncols (n d s : Nat) : (addMat n d s).ncols = n := rfl
theorem addMat_WF (n d s : Nat) : (addMat n d s).WF := WF_ofFn _ _ _

theorem addMat_get (n d s i k : Nat) :
    (addMat n d s).get i k =
      (decide (i < n ∧ k < n) && (decide (k = i) || (decide (i = d) && decide (k = s)))) :=
  get_ofFn' _ _ _ _ _

theorem addMat_mul_get (n d s : Nat) (N : BMat) (hs : s < n) (hds : d ≠ s) (i j : Nat) (hi : i < n) :
    ((addMat n d s).mul N).get i j = if i = d then (N.get d j ^^ N.get s j) else N.get i j := by
  rw [mul_get _ _ _ _ (by simpa using hi), dotSpec_T, addMat_ncols]
  by_cases hid : i = d
  · subst hid
    rw [if_pos rfl]
    have e : ∀ t, t < n → ((addMat n i s).get i t && N.get t j) =
        ((decide (t = i) && N.get t j) ^^ (decide (t = s) && N.get t j)) := by
      intro t ht
      rw [addMat_get]
      by_cases h1 : t = i
      · subst h1
        simp [hi, hds]
      · by_cases h2 : t = s
        · subst h2
          simp [h1, hi, hs]
        · simp [h1, h2, hi, ht]
    rw [xsum_congr e, xsum_xor, xsum_single i hi (fun t _ hne => by simp [hne]),
      xsum_single s hs (fun t _ hne => by simp [hne])]
    simp
  · rw [if_neg hid]
    rw [xsum_single i hi (fun t ht hne => by rw [addMat_get]; simp [hne, hid])]
    rw [addMat_get]; simp [hi]

/-- `I + E_{d,s}` is its own inverse (over GF(2), `d ≠ s`) -/
theorem addMat_invol (n d s : Nat) (hs : s < n) (hds : d ≠ s) :
    (addMat n d s).mul (addMat n d s) = identity n := by
  apply ext_get (mul_WF _ (addMat_WF _ _ _)) (identity_WF n) rfl rfl
  intro i j hi hj
  simp only [mul_nrows, mul_ncols, addMat_nrows, addMat_ncols] at hi hj
  rw [addMat_mul_get n d s _ hs hds i j hi, identity_get]
  by_cases h1 : i = d
  · subst h1
    rw [if_pos rfl, addMat_get, addMat_get]
    by_cases h2 : j = i
    · subst h2; simp [hi, hs, hds]
    · by_cases h3 : j = s
      · subst h3; simp [hi, hs, hds, h2]
      · have : ¬ i = j := fun e => h2 e.symm
        simp [hi, hs, hj, h2, h3, this]
  · rw [if_neg h1, addMat_get]
    by_cases h2 : j = i
    · subst h2; simp [hi]
    · have : ¬ i = j := fun e => h2 e.symm
      simp [hi, hj, h1, h2, this]

/-- **adding a whole row to another row is left multiplication by an involutive matrix** -/
theorem rowEquiv_of_addRow {M M' : BMat} (hM : M.WF) (hM' : M'.WF) (hr : M'.nrows = M.nrows)
    (hc : M'.ncols = M.ncols) (d s : Nat) (hs : s < M.nrows) (hds : d ≠ s)
    (hrow : ∀ k, M'.row k = if k = d then M.row d ^^^ M.row s else M.row k) : RowEquiv M M' := by
  refine ⟨addMat M.nrows d s, addMat M.nrows d s, addMat_WF _ _ _, addMat_WF _ _ _, rfl, rfl, rfl, rfl, ?_,
    addMat_invol _ d s hs hds⟩
  apply ext_get (mul_WF _ hM) hM' (by simp [hr]) (by simp [hc])
  intro i j hi hj
  simp only [mul_nrows, addMat_nrows] at hi
  rw [addMat_mul_get _ d s M hs hds i j hi]
  show _ = (M'.row i).testBit j
  rw [hrow]
  split
  · rw [Nat.testBit_xor]; rfl
  · rfl

/-! ## §3 the loops of `gaussDelayed` -/

theorem rowEquiv_elimStep {M : BMat} (hM : M.WF) (s i a : Nat) (hs : s < M.nrows) (ha : a < M.nrows)
    (hlow : ∀ j, j < i → M.get s j = false) : RowEquiv M (elimStep s i M a) := by
  obtain ⟨wf, nr, nc, _, row⟩ := elimStep_spec hM s i a hs ha hlow
  by_cases h : a ≠ s ∧ M.get a i = true
  · apply rowEquiv_of_addRow hM wf nr nc a s hs h.1
    intro k
    rw [row k]
    by_cases hk : k = a
    · subst hk; simp [h]
    · simp [hk]
  · have : elimStep s i M a = M := by unfold elimStep; rw [if_neg h]
    rw [this]; exact rowEquiv_refl hM

theorem rowEquiv_elim_fold (s i : Nat) : ∀ (n a : Nat) (M : BMat), M.WF → a + n = M.nrows → s < M.nrows →
    (∀ j, j < i → M.get s j = false) → RowEquiv M ((List.range' a n).foldl (elimStep s i) M) := by
  intro n
  induction n with
  | zero => intro a M hM _ _ _; exact rowEquiv_refl hM
  | succ n ih =>
    intro a M hM han hs hlow
    rw [List.range'_succ, List.foldl_cons]
    obtain ⟨wf1, nr1, nc1, sp1, row1⟩ := elimStep_spec hM s i a hs (by omega) hlow
    have rs : (elimStep s i M a).row s = M.row s := by
      rw [row1]; rw [if_neg]; intro h; exact h.2.1 h.1.symm
    have hlow1 : ∀ j, j < i → (elimStep s i M a).get s j = false := by
      intro j hj; unfold get; rw [rs]; exact hlow j hj
    exact rowEquiv_trans hM (rowEquiv_elimStep hM s i a hs (by omega) hlow)
      (ih (a + 1) _ wf1 (by omega) (by omega) hlow1)

/-- the inner elimination loop is an invertible row operation -/
theorem rowEquiv_elimLoop {M : BMat} (hM : M.WF) (full : Bool) (s i : Nat) (hs : s < M.nrows)
    (hlow : ∀ j, j < i → M.get s j = false) : RowEquiv M (elimLoop full s i M) := by
  unfold elimLoop
  apply rowEquiv_elim_fold s i _ _ M hM _ hs hlow
  split <;> omega

/-- one iteration of the column loop is an invertible row operation -/
theorem rowEquiv_gstep {full : Bool} {A : BMat} {st : BMat × Nat × Nat} {i : Nat} (h : Inv full A st i) :
    RowEquiv st.1 (gstep full st i).1 := by
  obtain ⟨M, s, p⟩ := st
  have hM : M.WF := h.wf
  unfold gstep
  dsimp only
  split
  · exact rowEquiv_refl hM
  · rename_i j hf
    rw [List.find?_range'_eq_some] at hf
    obtain ⟨_, h2, _⟩ := hf
    rw [List.mem_range'_1] at h2
    have hs : s ≤ M.nrows := h.sle
    have hj : j < M.nrows := by have := h2.2; omega
    have hs' : s < M.nrows := by omega
    have wf1 := WF_swapRows hM s j
    refine rowEquiv_trans hM (rowEquiv_swapRows hM s j hs' hj)
      (rowEquiv_elimLoop wf1 full s i (by simpa using hs') ?_)
    intro c hc
    show ((M.swapRows s j).row s).testBit c = false
    rw [row_swapRows hM s j s hs' hj, if_pos rfl]
    exact h.low j c h2.1 hc

theorem rowEquiv_fold {full : Bool} {A : BMat} : ∀ (n i : Nat) (st : BMat × Nat × Nat), Inv full A st i →
    RowEquiv st.1 ((List.range' i n).foldl (gstep full) st).1 := by
  intro n
  induction n with
  | zero => intro i st h; exact rowEquiv_refl h.wf
  | succ n ih =>
    intro i st h
    rw [List.range'_succ, List.foldl_cons]
    exact rowEquiv_trans h.wf (rowEquiv_gstep h) (ih (i + 1) _ h.step)

/-- **the result of `mzd_echelonize_naive(M, full)` is `T·M` for an invertible `T`** -/
theorem rowEquiv_gauss {M : BMat} (hM : M.WF) (full : Bool) : RowEquiv M (gaussDelayed M 0 full).1 := by
  rw [gaussDelayed_eq]
  simp only [Nat.sub_zero]
  exact rowEquiv_fold (full := full) (A := M) M.ncols 0 (M, 0, 0) (Inv.init hM full)

/-- **1.** `rref M` is reached from `M` by invertible row operations -/
theorem rowEquiv_rref (M : BMat) (hM : M.WF) : RowEquiv M M.rref := rowEquiv_gauss hM true

/-- non-vacuity, and a concrete instance -/
example : RowEquiv ⟨3, 4, #[6, 3, 5]⟩ (rref ⟨3, 4, #[6, 3, 5]⟩) := rowEquiv_rref _ wf_example

/-! ## §4 `rank = rankProfile.length`; `GaussOK` -/

theorem length_filterMap_id (l : List (Option Nat)) : (l.filterMap id).length = l.countP Option.isSome := by
  induction l with
  | nil => rfl
  | cons a l ih =>
    cases a with
    | none => simpa using ih
    | some c => simpa using ih

/-- **2.** the number of pivots returned by the naive routine is the number of leading columns of the RREF -/
theorem rank_eq_rankProfile_length (M : BMat) (hM : M.WF) : M.rank = M.rankProfile.length := by
  unfold rankProfile
  rw [length_filterMap_id, leads_eq (rref_WF hM), List.countP_map]
  show (gaussDelayed M 0 true).2 = _
  rw [← gauss_rank_eq_count hM true]
  apply List.countP_congr
  intro v hv
  have hlt := rowList_lt (rref_WF hM) v hv
  have hiff := lowBit_eq_none_iff_zero hlt
  by_cases h0 : v = 0
  · have := hiff.mpr h0
    subst h0
    simp [this]
  · cases hl : lowBit v M.rref.ncols with
    | none => exact absurd (hiff.mp hl) h0
    | some c => simp [h0, hl]

/-- **3.** the three facts about `gaussDelayed M 0 true` hold for every well-formed matrix -/
theorem gaussOK (M : BMat) (hM : M.WF) : GaussOK M :=
  ⟨rowEquiv_rref M hM, rref_isRREF hM, rank_eq_rankProfile_length M hM⟩

/-- the model's `rank` is the rank in the sense of `RankCert` (factorisation through, and not through less
    than, `rank M` dimensions), for every well-formed matrix -/
theorem rankCert_rank (M : BMat) (hM : M.WF) : RankCert M M.rank := RankCert_rank hM (gaussOK M hM)

example : GaussOK ⟨3, 4, #[6, 3, 5]⟩ := gaussOK _ wf_example

/-! ## §5 unconditional corollaries -/

/-- **C05**: if the well-formed `n × n` matrix `A` has a (well-formed) right inverse `Binv`, then
    `inverseSpec A` — the right half of the RREF of `[A | I]`, what `mzd_inv_m4ri` is judged against — equals
    `Binv` and is a two-sided inverse of `A`. -/
theorem inverse_spec {A Binv : BMat} (hA : A.WF) (hsq : A.ncols = A.nrows)
    (hB : Binv.WF) (hBr : Binv.nrows = A.nrows) (hBc : Binv.ncols = A.nrows)
    (hAB : A.mul Binv = identity A.nrows) :
    inverseSpec A = Binv ∧ (inverseSpec A).mul A = identity A.nrows ∧
      A.mul (inverseSpec A) = identity A.nrows :=
  inverseSpec_spec hA hsq hB hBr hBc hAB (rowEquiv_rref _ (concat_WF _ _)) (rref_isRREF (concat_WF _ _))

/-- **C05 (triangular clause)**: for a unit upper-triangular `U`, `inverseSpec U` is the back-substitution
    inverse `triInv U`, it is unit upper triangular, and it is a two-sided inverse. -/
theorem inverse_unit_upper {U : BMat} (hU : U.WF) (hsq : U.ncols = U.nrows) (hut : unitUpper U = U) :
    inverseSpec U = triInv U ∧ unitUpper (inverseSpec U) = inverseSpec U ∧
      (inverseSpec U).mul U = identity U.nrows ∧ U.mul (inverseSpec U) = identity U.nrows :=
  inverseSpec_unitUpper hU hsq hut (rowEquiv_rref _ (concat_WF _ _)) (rref_isRREF (concat_WF _ _))

/-- **C03 (PLE)**: an accepted PLE certificate carries the rank of `A` and its column rank profile -/
theorem ple_rank_profile {A S : BMat} {P Q : Array Nat} {r : Nat} (hA : A.WF)
    (h : checkPLE A S P Q r = true) :
    r = A.rank ∧ (List.range r).map (fun i => Q.getD i 0) = A.rankProfile :=
  checkPLE_profile hA h (gaussOK A hA)

/-- **C03 (PLUQ)**: an accepted PLUQ certificate carries the rank of `A` -/
theorem pluq_rank {A S : BMat} {P Q : Array Nat} {r : Nat} (hA : A.WF)
    (h : checkPLUQ A S P Q r = true) : r = A.rank :=
  checkPLUQ_rank' hA h (gaussOK A hA)

/-- **C06**: `solvable A B` holds iff the zero-padded system `Apad · X = B` has a solution -/
theorem solvable_iff {A B : BMat} (hB : B.WF) (hBr : B.nrows = max A.nrows A.ncols) :
    solvable A B = true ↔
      ∃ X : BMat, X.WF ∧ X.nrows = A.ncols ∧ X.ncols = B.ncols ∧ (padRows A).mul X = B :=
  solvable_spec' hB hBr (gaussOK _ (padRows_WF A)) (gaussOK _ (concat_WF _ _))

/-- **C07**: a `K` that passes the four kernel tests is a basis of the right null space of `A` -/
theorem kernel_checker_sound {A K : BMat} (hA : A.WF) (hK : K.WF)
    (h1 : K.nrows = A.ncols) (h2 : K.ncols = A.ncols - A.rank)
    (h3 : (A.mul K).eqM (zero A.nrows K.ncols) = true) (h4 : K.rank = K.ncols) :
    A.mul K = zero A.nrows K.ncols ∧
    (∀ V : BMat, V.WF → V.nrows = A.ncols → A.mul V = zero A.nrows V.ncols →
      ∃ W : BMat, W.WF ∧ W.nrows = K.ncols ∧ W.ncols = V.ncols ∧ K.mul W = V) ∧
    (∀ W W' : BMat, W.WF → W'.WF → W.nrows = K.ncols → W'.nrows = K.ncols → W'.ncols = W.ncols →
      K.mul W = K.mul W' → W = W') :=
  checkKernel_sound' hA hK h1 h2 h3 h4 (gaussOK A hA) (gaussOK K hK)

/-- `[A | I]` has a non-zero rank as soon as it has a row -/
theorem rank_concat_identity_pos (A : BMat) (hn : 1 ≤ A.nrows) :
    (A.concat (identity A.nrows)).rank ≠ 0 := by
  intro h0
  have hH : (A.concat (identity A.nrows)).WF := concat_WF _ _
  have hz : ∀ x, x ∈ (A.concat (identity A.nrows)).rref.rowList → x = 0 := by
    intro x hx
    obtain ⟨k, _, rfl⟩ := mem_rowList.mp hx
    exact rref_row_eq_zero hH k (by omega)
  have hin : InSpan (A.concat (identity A.nrows)).rref.rowList ((A.concat (identity A.nrows)).row 0) :=
    ((rref_sameSpan hH) _).mp (row_inSpan _ 0 (by simp only [concat_nrows]; omega))
  have hr0 := inSpan_zero_rows hz hin
  have hb : (A.concat (identity A.nrows)).get 0 (A.ncols + 0) = true := by
    rw [concat_get, identity_get]
    have h1 : 0 < A.nrows := by omega
    simp [h1]
  unfold get at hb
  rw [hr0] at hb
  simp at hb

/-- **`mzd_invert_naive`**: for a well-formed `n × n` matrix `A` (`n ≥ 1`) with a well-formed right inverse
    `Ainv`, `invertNaive A I = some Ainv`, and `Ainv` is a two-sided inverse. -/
theorem invert_naive_spec {A Ainv : BMat} (hA : A.WF) (hsq : A.ncols = A.nrows) (hn : 1 ≤ A.nrows)
    (hB : Ainv.WF) (hBr : Ainv.nrows = A.nrows) (hBc : Ainv.ncols = A.nrows)
    (hAB : A.mul Ainv = identity A.nrows) :
    invertNaive A (identity A.nrows) = some Ainv ∧ Ainv.mul A = identity A.nrows := by
  obtain ⟨e1, e2, _⟩ := inverse_spec hA hsq hB hBr hBc hAB
  rw [invertNaive_identity, if_neg (rank_concat_identity_pos A hn), e1]
  exact ⟨rfl, by rw [← e1]; exact e2⟩

/-- for `n = 0` the C routine reports failure (`NULL`): no pivot is found in the `0 × 0` matrix -/
example : invertNaive (identity 0) (identity 0) = none := by decide

/-- non-vacuity: the hypotheses of `inverse_spec` / `invert_naive_spec` hold for `[[1,1],[0,1]]` -/
example : invertNaive ⟨2, 2, #[3, 2]⟩ (identity 2) = some ⟨2, 2, #[3, 2]⟩ := by decide +kernel

/-! ### non-vacuity of the corollaries -/

theorem wf_ex2 : (⟨2, 2, #[3, 2]⟩ : BMat).WF := ⟨rfl, by
  intro i; unfold row; simp only [Array.getD_eq_getD_getElem?]
  rcases i with _ | _ | i <;> simp⟩

/-- `inverse_spec` / `invert_naive_spec` on `[[1,1],[0,1]]` (its own inverse) -/
example : inverseSpec ⟨2, 2, #[3, 2]⟩ = ⟨2, 2, #[3, 2]⟩ :=
  (inverse_spec (A := ⟨2, 2, #[3, 2]⟩) (Binv := ⟨2, 2, #[3, 2]⟩) wf_ex2 rfl wf_ex2 rfl rfl
    (by decide +kernel)).1
example : invertNaive ⟨2, 2, #[3, 2]⟩ (identity 2) = some ⟨2, 2, #[3, 2]⟩ :=
  (invert_naive_spec (A := ⟨2, 2, #[3, 2]⟩) (Ainv := ⟨2, 2, #[3, 2]⟩) wf_ex2 rfl (by decide) wf_ex2 rfl rfl
    (by decide +kernel)).1
/-- `inverse_unit_upper` on the same (unit upper-triangular) matrix -/
example : inverseSpec ⟨2, 2, #[3, 2]⟩ = triInv ⟨2, 2, #[3, 2]⟩ :=
  (inverse_unit_upper (U := ⟨2, 2, #[3, 2]⟩) wf_ex2 rfl (by decide +kernel)).1
/-- `ple_rank_profile` / `pluq_rank`: accepted certificates exist -/
example : (2 : Nat) = rank ⟨2, 2, #[3, 2]⟩ ∧
    (List.range 2).map (fun i => (#[0, 1] : Array Nat).getD i 0) = rankProfile ⟨2, 2, #[3, 2]⟩ :=
  ple_rank_profile (A := ⟨2, 2, #[3, 2]⟩) (S := ⟨2, 2, #[3, 2]⟩) (P := #[0, 1]) (Q := #[0, 1]) wf_ex2
    (by decide +kernel)
example : (2 : Nat) = rank ⟨2, 2, #[3, 2]⟩ :=
  pluq_rank (A := ⟨2, 2, #[3, 2]⟩) (S := ⟨2, 2, #[3, 2]⟩) (P := #[0, 1]) (Q := #[0, 1]) wf_ex2
    (by decide +kernel)
/-- `solvable_iff`: `A = I₂`, `B = [[1,1],[0,1]]` -/
example : solvable (identity 2) ⟨2, 2, #[3, 2]⟩ = true ↔
    ∃ X : BMat, X.WF ∧ X.nrows = 2 ∧ X.ncols = 2 ∧ (padRows (identity 2)).mul X = ⟨2, 2, #[3, 2]⟩ :=
  solvable_iff (A := identity 2) (B := ⟨2, 2, #[3, 2]⟩) wf_ex2 rfl
/-- `kernel_checker_sound`: `A = [[1,1],[0,0]]` (rank 1), `K = [[1],[1]]` -/
theorem wf_ex3 : (⟨2, 2, #[3, 0]⟩ : BMat).WF := ⟨rfl, by
  intro i; unfold row; simp only [Array.getD_eq_getD_getElem?]
  rcases i with _ | _ | i <;> simp⟩
theorem wf_ex4 : (⟨2, 1, #[1, 1]⟩ : BMat).WF := ⟨rfl, by
  intro i; unfold row; simp only [Array.getD_eq_getD_getElem?]
  rcases i with _ | _ | i <;> simp⟩
example : BMat.mul ⟨2, 2, #[3, 0]⟩ ⟨2, 1, #[1, 1]⟩ = zero 2 1 :=
  (kernel_checker_sound (A := ⟨2, 2, #[3, 0]⟩) (K := ⟨2, 1, #[1, 1]⟩) wf_ex3 wf_ex4 rfl
    (by decide +kernel) (by decide +kernel) (by decide +kernel)).1

end GOK
end BMat
end M4ri
