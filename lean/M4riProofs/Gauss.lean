/-
  Property C02 (echelon forms) for the naive routine `mzd_gauss_delayed` / `mzd_echelonize_naive`,
  which is the reference against which every other echelonisation routine is judged by `checkEchelon`.

  Contents
    §0  row lemmas for `setRow`, `swapRows`, `addRowFrom`
    §1  `InSpan` (XOR-closure of a list of `Nat` rows, = XOR of a sub-list), `SameSpan`; elementary row
        operations preserve the span, `WF` and the dimensions
    §2  loop invariant of `gaussDelayed` (inner elimination loop, outer column loop)
    §3  results: span preserved, row echelon form, reduced row echelon form (`full`), rank = number of
        non-zero rows, rows below are zero, `WF`
    §4  uniqueness of the reduced row echelon form in a span; `rref`, `rank`, `sameRowSpace`
    §5  soundness of `checkEchelon`, completeness for the RREF itself
  Core Lean only.
-/
import M4riProofs.Bridge
import M4ri.Elim
namespace M4ri
namespace BMat

/-! ## §0 rows of `setRow`, `swapRows`, `addRowFrom` -/

@[simp] theorem nrows_setRow (M : BMat) (i v : Nat) : (M.setRow i v).nrows = M.nrows := rfl
@[simp] theorem ncols_setRow (M : BMat) (i v : Nat) : (M.setRow i v).ncols = M.ncols := rfl
@[simp] theorem size_setRow (M : BMat) (i v : Nat) : (M.setRow i v).rows.size = M.rows.size := by
  simp [setRow]

theorem row_setRow (M : BMat) (i v k : Nat) :
    (M.setRow i v).row k = if k = i ∧ i < M.rows.size then v else M.row k := by
  unfold row setRow
  simp only [Array.getD_eq_getD_getElem?, Array.getElem?_setIfInBounds]
  by_cases h : i = k
  · subst h
    by_cases h2 : i < M.rows.size
    · simp [h2]
    · simp [h2]
  · have h' : ¬ k = i := fun e => h e.symm
    simp [h, h']

theorem WF_setRow {M : BMat} (hM : M.WF) (i v : Nat) (hv : v < 2 ^ M.ncols) : (M.setRow i v).WF := by
  refine ⟨by rw [size_setRow]; exact hM.1, fun k => ?_⟩
  rw [row_setRow]
  split
  · exact hv
  · exact hM.2 k

@[simp] theorem nrows_swapRows (M : BMat) (a b : Nat) : (M.swapRows a b).nrows = M.nrows := by
  unfold swapRows; split <;> rfl
@[simp] theorem ncols_swapRows (M : BMat) (a b : Nat) : (M.swapRows a b).ncols = M.ncols := by
  unfold swapRows; split <;> rfl

theorem row_swapRows {M : BMat} (hM : M.WF) (a b k : Nat) (ha : a < M.nrows) (hb : b < M.nrows) :
    (M.swapRows a b).row k = if k = a then M.row b else if k = b then M.row a else M.row k := by
  unfold swapRows
  by_cases hab : a = b
  · subst hab
    simp only [if_true]
    split
    · subst_vars; rfl
    · rfl
  · simp only [hab, if_false]
    rw [row_setRow, row_setRow, size_setRow, hM.1]
    by_cases h1 : k = a
    · subst h1; simp [hab, ha]
    · by_cases h2 : k = b
      · subst h2; simp [hb, h1]
      · simp [h1, h2]

theorem WF_swapRows {M : BMat} (hM : M.WF) (a b : Nat) : (M.swapRows a b).WF := by
  unfold swapRows
  split
  · exact hM
  · exact WF_setRow (WF_setRow hM _ _ (hM.2 _)) _ _ (hM.2 _)

@[simp] theorem nrows_addRowFrom (M : BMat) (d s o : Nat) : (M.addRowFrom d s o).nrows = M.nrows := rfl
@[simp] theorem ncols_addRowFrom (M : BMat) (d s o : Nat) : (M.addRowFrom d s o).ncols = M.ncols := rfl

/-- shifting out and back in the low `off` bits is the identity on a value that has no such bits -/
theorem shift_back (v off : Nat) (h : ∀ j, j < off → v.testBit j = false) : (v >>> off) <<< off = v := by
  apply Nat.eq_of_testBit_eq
  intro j
  rw [Nat.testBit_shiftLeft, Nat.testBit_shiftRight]
  by_cases hj : j ≥ off
  · simp [hj, Nat.add_sub_cancel' hj]
  · simp [hj, h j (Nat.lt_of_not_le hj)]

theorem xor_lt_two_pow {a b n : Nat} (ha : a < 2 ^ n) (hb : b < 2 ^ n) : a ^^^ b < 2 ^ n :=
  Nat.xor_lt_two_pow ha hb

/-- `(v >>> off) <<< off` keeps exactly the bits from `off` on -/
theorem testBit_shift_back (v off j : Nat) :
    ((v >>> off) <<< off).testBit j = (decide (off ≤ j) && v.testBit j) := by
  rw [Nat.testBit_shiftLeft, Nat.testBit_shiftRight]
  by_cases hj : off ≤ j
  · simp [hj, Nat.add_sub_cancel' hj]
  · simp [hj]

theorem shift_back_lt {v n : Nat} (off : Nat) (hv : v < 2 ^ n) : (v >>> off) <<< off < 2 ^ n := by
  apply Nat.lt_pow_two_of_testBit
  intro j hj
  rw [testBit_shift_back]
  have : v.testBit j = false :=
    Nat.testBit_lt_two_pow (Nat.lt_of_lt_of_le hv (Nat.pow_le_pow_right (by omega) hj))
  simp [this]

/-- general entry-level description of `addRowFrom` (`mzd_row_add_offset`): only row `dst` changes, and
    only from column `off` on -/
theorem row_addRowFrom {M : BMat} (hM : M.WF) (dst src off k : Nat) (hd : dst < M.nrows) :
    (M.addRowFrom dst src off).row k =
      if k = dst then M.row dst ^^^ ((M.row src >>> off) <<< off) else M.row k := by
  unfold addRowFrom
  rw [row_setRow, hM.1]
  by_cases h : k = dst
  · simp [h, hd]
  · simp [h]

theorem get_addRowFrom {M : BMat} (hM : M.WF) (dst src off k j : Nat) (hd : dst < M.nrows) :
    (M.addRowFrom dst src off).get k j =
      if k = dst then (M.get dst j ^^ (decide (off ≤ j) && M.get src j)) else M.get k j := by
  unfold get
  rw [row_addRowFrom hM _ _ _ _ hd]
  split
  · rw [Nat.testBit_xor, testBit_shift_back]
  · rfl

theorem WF_addRowFrom {M : BMat} (hM : M.WF) (dst src off : Nat) : (M.addRowFrom dst src off).WF :=
  WF_setRow hM _ _ (Nat.xor_lt_two_pow (hM.2 _) (shift_back_lt off (hM.2 _)))

/-- the way `gaussDelayed` uses it: the source row has no entries left of `off`, so the whole row is added -/
theorem row_addRowFrom_of_low {M : BMat} (hM : M.WF) (dst src off k : Nat) (hd : dst < M.nrows)
    (hlow : ∀ j, j < off → M.get src j = false) :
    (M.addRowFrom dst src off).row k = if k = dst then M.row dst ^^^ M.row src else M.row k := by
  rw [row_addRowFrom hM _ _ _ _ hd, shift_back _ _ hlow]

end BMat

/-! ## §1 span of a list of rows -/

/-- `InSpan rows v`: `v` lies in the GF(2)-span of `rows` — the smallest set containing `0` and closed under
    adding (XOR) a member of `rows`.  Equivalently (`inSpan_iff_sublist`) `v` is the XOR of a sub-list. -/
inductive InSpan (rows : List Nat) : Nat → Prop
  | zero : InSpan rows 0
  | add {r v : Nat} : r ∈ rows → InSpan rows v → InSpan rows (v ^^^ r)

namespace InSpan

theorem of_mem {rows : List Nat} {r : Nat} (h : r ∈ rows) : InSpan rows r := by
  have := InSpan.add h (InSpan.zero (rows := rows))
  rwa [Nat.zero_xor] at this

theorem xor {rows : List Nat} {v w : Nat} (hv : InSpan rows v) (hw : InSpan rows w) :
    InSpan rows (v ^^^ w) := by
  induction hw with
  | zero => rwa [Nat.xor_zero]
  | add hr _ ih =>
    rw [← Nat.xor_assoc]
    exact InSpan.add hr ih

/-- a span is contained in another as soon as its generators are -/
theorem mono {l l' : List Nat} (h : ∀ r, r ∈ l → InSpan l' r) {v : Nat} (hv : InSpan l v) : InSpan l' v := by
  induction hv with
  | zero => exact InSpan.zero
  | add hr _ ih => exact ih.xor (h _ hr)

theorem nil_iff {v : Nat} : InSpan [] v ↔ v = 0 := by
  constructor
  · intro h
    induction h with
    | zero => rfl
    | add hr _ _ => cases hr
  · intro h; subst h; exact InSpan.zero

theorem cons_iff {r : Nat} {rs : List Nat} {v : Nat} :
    InSpan (r :: rs) v ↔ InSpan rs v ∨ InSpan rs (v ^^^ r) := by
  constructor
  · intro h
    induction h with
    | zero => exact Or.inl InSpan.zero
    | @add x v hx _ ih =>
      rcases List.mem_cons.mp hx with rfl | hx
      · rcases ih with ih | ih
        · right
          have : v ^^^ x ^^^ x = v := by rw [Nat.xor_assoc, Nat.xor_self, Nat.xor_zero]
          rwa [this]
        · exact Or.inl ih
      · rcases ih with ih | ih
        · exact Or.inl (InSpan.add hx ih)
        · right
          have : v ^^^ x ^^^ r = v ^^^ r ^^^ x := by ac_rfl
          rw [this]; exact InSpan.add hx ih
  · have hm : ∀ w, InSpan rs w → InSpan (r :: rs) w :=
      fun w hw => mono (fun x hx => of_mem (List.mem_cons_of_mem _ hx)) hw
    rintro (h | h)
    · exact hm _ h
    · have := (hm _ h).xor (of_mem (List.mem_cons_self : r ∈ r :: rs))
      have e : v ^^^ r ^^^ r = v := by rw [Nat.xor_assoc, Nat.xor_self, Nat.xor_zero]
      rwa [e] at this

/-- the elementary description: `v` is the XOR of a sub-list of the rows -/
theorem iff_sublist {rows : List Nat} {v : Nat} :
    InSpan rows v ↔ ∃ s : List Nat, s.Sublist rows ∧ v = s.foldr (· ^^^ ·) 0 := by
  induction rows generalizing v with
  | nil =>
    rw [nil_iff]
    constructor
    · intro h; exact ⟨[], List.Sublist.slnil, by simp [h]⟩
    · rintro ⟨s, hs, rfl⟩
      have := List.sublist_nil.mp hs
      subst this; rfl
  | cons r rs ih =>
    rw [cons_iff]
    constructor
    · rintro (h | h)
      · obtain ⟨s, hs, e⟩ := ih.mp h
        exact ⟨s, hs.cons _, e⟩
      · obtain ⟨s, hs, e⟩ := ih.mp h
        refine ⟨r :: s, hs.cons_cons _, ?_⟩
        simp only [List.foldr_cons]
        rw [← e]
        have : r ^^^ (v ^^^ r) = v ^^^ (r ^^^ r) := by ac_rfl
        rw [this, Nat.xor_self, Nat.xor_zero]
    · rintro ⟨s, hs, e⟩
      cases hs with
      | cons _ hs => exact Or.inl (ih.mpr ⟨_, hs, e⟩)
      | cons_cons _ hs =>
        rename_i s'
        right
        refine ih.mpr ⟨s', hs, ?_⟩
        rw [e]; simp only [List.foldr_cons]
        have : r ^^^ List.foldr (· ^^^ ·) 0 s' ^^^ r = List.foldr (· ^^^ ·) 0 s' ^^^ (r ^^^ r) := by ac_rfl
        rw [this, Nat.xor_self, Nat.xor_zero]

/-- a bit that is zero in every generator is zero in every element of the span -/
theorem testBit_false {rows : List Nat} {j : Nat} (h : ∀ r, r ∈ rows → r.testBit j = false)
    {v : Nat} (hv : InSpan rows v) : v.testBit j = false := by
  induction hv with
  | zero => exact Nat.zero_testBit j
  | add hr _ ih => rw [Nat.testBit_xor, ih, h _ hr]; rfl

theorem lt_two_pow {rows : List Nat} {n : Nat} (h : ∀ r, r ∈ rows → r < 2 ^ n)
    {v : Nat} (hv : InSpan rows v) : v < 2 ^ n := by
  induction hv with
  | zero => exact Nat.two_pow_pos n
  | add hr _ ih => exact Nat.xor_lt_two_pow ih (h _ hr)

end InSpan

namespace BMat

/-- the rows of a matrix as a list -/
def rowList (M : BMat) : List Nat := (List.range M.nrows).map M.row

@[simp] theorem length_rowList (M : BMat) : M.rowList.length = M.nrows := by simp [rowList]

theorem mem_rowList {M : BMat} {r : Nat} : r ∈ M.rowList ↔ ∃ i, i < M.nrows ∧ M.row i = r := by
  simp [rowList]

theorem getElem_rowList (M : BMat) (i : Nat) (h : i < M.rowList.length) : M.rowList[i] = M.row i := by
  simp [rowList]

theorem rowList_eq_toList {M : BMat} (hM : M.WF) : M.rowList = M.rows.toList := by
  apply List.ext_getElem
  · simp [hM.1]
  · intro i h1 h2
    rw [getElem_rowList]
    simp only [Array.length_toList] at h2
    rw [row_eq_getElem _ _ h2]; simp

/-- row space membership for a matrix -/
def RowSpace (M : BMat) (v : Nat) : Prop := InSpan M.rowList v

/-- two matrices have the same row space -/
def SameSpan (A B : BMat) : Prop := ∀ v, InSpan A.rowList v ↔ InSpan B.rowList v

theorem SameSpan.refl (A : BMat) : SameSpan A A := fun _ => Iff.rfl
theorem SameSpan.symm {A B : BMat} (h : SameSpan A B) : SameSpan B A := fun v => (h v).symm
theorem SameSpan.trans {A B C : BMat} (h : SameSpan A B) (h' : SameSpan B C) : SameSpan A C :=
  fun v => (h v).trans (h' v)

theorem row_inSpan (M : BMat) (i : Nat) (hi : i < M.nrows) : InSpan M.rowList (M.row i) :=
  InSpan.of_mem (mem_rowList.mpr ⟨i, hi, rfl⟩)

/-- span inclusion from the generators -/
theorem span_le_of_rows {A B : BMat} (h : ∀ i, i < A.nrows → InSpan B.rowList (A.row i))
    {v : Nat} (hv : InSpan A.rowList v) : InSpan B.rowList v :=
  InSpan.mono (fun r hr => by obtain ⟨i, hi, rfl⟩ := mem_rowList.mp hr; exact h i hi) hv

theorem sameSpan_of_rows {A B : BMat} (h1 : ∀ i, i < A.nrows → InSpan B.rowList (A.row i))
    (h2 : ∀ i, i < B.nrows → InSpan A.rowList (B.row i)) : SameSpan A B :=
  fun _ => ⟨span_le_of_rows h1, span_le_of_rows h2⟩

/-- **row swap preserves the row space** -/
theorem sameSpan_swapRows {M : BMat} (hM : M.WF) (a b : Nat) (ha : a < M.nrows) (hb : b < M.nrows) :
    SameSpan M (M.swapRows a b) := by
  have hr := fun k => row_swapRows hM a b k ha hb
  apply sameSpan_of_rows
  · intro i hi
    by_cases h1 : i = a
    · subst h1
      have := row_inSpan (M.swapRows i b) b (by simpa using hb)
      rw [hr] at this
      by_cases h : b = i
      · subst h; simpa using this
      · simpa [h] using this
    · by_cases h2 : i = b
      · subst h2
        have := row_inSpan (M.swapRows a i) a (by simpa using ha)
        rw [hr] at this
        simpa using this
      · have := row_inSpan (M.swapRows a b) i (by simpa using hi)
        rw [hr] at this
        simpa [h1, h2] using this
  · intro i hi
    rw [nrows_swapRows] at hi
    rw [hr]
    split
    · exact row_inSpan M b hb
    · split
      · exact row_inSpan M a ha
      · exact row_inSpan M i hi

/-- **adding a whole row to another row preserves the row space**; in `gaussDelayed` the added row is a pivot
    row whose entries left of `off` are zero, so `addRowFrom` adds the whole row -/
theorem sameSpan_addRowFrom {M : BMat} (hM : M.WF) (dst src off : Nat) (hd : dst < M.nrows)
    (hs : src < M.nrows) (hne : dst ≠ src) (hlow : ∀ j, j < off → M.get src j = false) :
    SameSpan M (M.addRowFrom dst src off) := by
  have hr := fun k => row_addRowFrom_of_low hM dst src off k hd hlow
  have hsrc : InSpan (M.addRowFrom dst src off).rowList (M.row src) := by
    have := row_inSpan (M.addRowFrom dst src off) src (by simpa using hs)
    rw [hr] at this
    simpa [Ne.symm hne] using this
  apply sameSpan_of_rows
  · intro i hi
    by_cases h1 : i = dst
    · subst h1
      have := (row_inSpan (M.addRowFrom i src off) i (by simpa using hi)).xor hsrc
      rw [hr] at this
      simp only [if_true] at this
      rwa [Nat.xor_assoc, Nat.xor_self, Nat.xor_zero] at this
    · have := row_inSpan (M.addRowFrom dst src off) i (by simpa using hi)
      rw [hr] at this
      simpa [h1] using this
  · intro i hi
    rw [nrows_addRowFrom] at hi
    rw [hr]
    split
    · exact (row_inSpan M dst hd).xor (row_inSpan M src hs)
    · exact row_inSpan M i hi

/-- without the invariant the statement is false in general: `addRowFrom` adds only the part of the
    source row from column `off` on (here rows `[1, 3]`, adding row 1 to row 0 from column 1 gives `[3, 3]`) -/
example : ¬ SameSpan ⟨2, 2, #[1, 3]⟩ (BMat.addRowFrom ⟨2, 2, #[1, 3]⟩ 0 1 1) := by
  intro h
  have h1 : InSpan (BMat.rowList ⟨2, 2, #[1, 3]⟩) 1 := InSpan.of_mem (by decide)
  have := (h 1).mp h1
  have e : BMat.rowList (BMat.addRowFrom ⟨2, 2, #[1, 3]⟩ 0 1 1) = [3, 3] := by decide
  simp only [e, InSpan.cons_iff, InSpan.nil_iff] at this
  revert this; decide


/-! ## §2 the loops of `gaussDelayed` -/

/-- one iteration of the inner elimination loop (C: `if (ii != startrow) if (read_bit(M, ii, i)) row_add_offset`) -/
def elimStep (s i : Nat) (M : BMat) (ii : Nat) : BMat :=
  if ii ≠ s ∧ M.get ii i then M.addRowFrom ii s i else M

/-- the inner elimination loop -/
def elimLoop (full : Bool) (s i : Nat) (M : BMat) : BMat :=
  (List.range' (if full then 0 else s + 1) (M.nrows - (if full then 0 else s + 1))).foldl (elimStep s i) M

/-- one iteration of the column loop on the state `(M, startrow, pivots)` -/
def gstep (full : Bool) (st : BMat × Nat × Nat) (i : Nat) : BMat × Nat × Nat :=
  match (List.range' st.2.1 (st.1.nrows - st.2.1)).find? fun j => st.1.get j i with
  | none => st
  | some j => (elimLoop full st.2.1 i (st.1.swapRows st.2.1 j), st.2.1 + 1, st.2.2 + 1)

/-- `gaussDelayed` is the fold of `gstep` (definitional unfolding of the model) -/
theorem gaussDelayed_eq (M : BMat) (sc : Nat) (full : Bool) :
    gaussDelayed M sc full =
      (((List.range' sc (M.ncols - sc)).foldl (gstep full) (M, sc, 0)).1,
       ((List.range' sc (M.ncols - sc)).foldl (gstep full) (M, sc, 0)).2.2) := rfl


/-- what one inner iteration does, given the invariant "the pivot row `s` has no entries left of column `i`" -/
theorem elimStep_spec {M : BMat} (hM : M.WF) (s i a : Nat) (hs : s < M.nrows) (ha : a < M.nrows)
    (hlow : ∀ j, j < i → M.get s j = false) :
    (elimStep s i M a).WF ∧ (elimStep s i M a).nrows = M.nrows ∧ (elimStep s i M a).ncols = M.ncols ∧
    SameSpan M (elimStep s i M a) ∧
    ∀ k, (elimStep s i M a).row k =
      if k = a ∧ a ≠ s ∧ M.get a i = true then M.row a ^^^ M.row s else M.row k := by
  unfold elimStep
  by_cases h : a ≠ s ∧ M.get a i = true
  · rw [if_pos h]
    refine ⟨WF_addRowFrom hM _ _ _, rfl, rfl, sameSpan_addRowFrom hM a s i ha hs h.1 hlow, fun k => ?_⟩
    rw [row_addRowFrom_of_low hM a s i k ha hlow]
    by_cases hk : k = a
    · subst hk; simp [h]
    · simp [hk]
  · rw [if_neg h]
    refine ⟨hM, rfl, rfl, SameSpan.refl _, fun k => ?_⟩
    rw [if_neg (fun hh => h hh.2)]

/-- result of the inner loop started at row `a` -/
structure ElimRes (M M' : BMat) (a s i : Nat) : Prop where
  wf : M'.WF
  nr : M'.nrows = M.nrows
  nc : M'.ncols = M.ncols
  span : SameSpan M M'
  row : ∀ k, M'.row k =
    if a ≤ k ∧ k < M.nrows ∧ k ≠ s ∧ M.get k i = true then M.row k ^^^ M.row s else M.row k

theorem elim_fold (s i : Nat) : ∀ (n a : Nat) (M : BMat), M.WF → a + n = M.nrows → s < M.nrows →
    (∀ j, j < i → M.get s j = false) →
    ElimRes M ((List.range' a n).foldl (elimStep s i) M) a s i := by
  intro n
  induction n with
  | zero =>
    intro a M hM han hs hlow
    refine ⟨hM, rfl, rfl, SameSpan.refl _, fun k => ?_⟩
    simp only [List.range'_zero, List.foldl_nil]
    rw [if_neg]; omega
  | succ n ih =>
    intro a M hM han hs hlow
    rw [List.range'_succ, List.foldl_cons]
    obtain ⟨wf1, nr1, nc1, sp1, row1⟩ := elimStep_spec hM s i a hs (by omega) hlow
    have rs : (elimStep s i M a).row s = M.row s := by
      rw [row1]; rw [if_neg]; intro h; exact h.2.1 h.1.symm
    have hlow1 : ∀ j, j < i → (elimStep s i M a).get s j = false := by
      intro j hj; unfold get; rw [rs]; exact hlow j hj
    have r := ih (a + 1) (elimStep s i M a) wf1 (by omega) (by omega) hlow1
    refine ⟨r.wf, r.nr.trans nr1, r.nc.trans nc1, sp1.trans r.span, fun k => ?_⟩
    rw [r.row, rs, nr1]
    by_cases hk : k = a
    · subst hk
      rw [if_neg (by omega), row1]
      by_cases hc : k ≠ s ∧ M.get k i = true
      · rw [if_pos ⟨rfl, hc⟩, if_pos ⟨Nat.le_refl _, by omega, hc⟩]
      · rw [if_neg (fun h => hc h.2), if_neg (fun h => hc h.2.2)]
    · have e : (elimStep s i M a).row k = M.row k := by rw [row1, if_neg (fun h => hk h.1)]
      have e' : (elimStep s i M a).get k i = M.get k i := by unfold get; rw [e]
      rw [e, e']
      by_cases hc : a ≤ k ∧ k < M.nrows ∧ k ≠ s ∧ M.get k i = true
      · rw [if_pos hc, if_pos ⟨by omega, hc.2⟩]
      · rw [if_neg hc, if_neg (fun h => hc ⟨by omega, h.2⟩)]

theorem elimLoop_spec {M : BMat} (hM : M.WF) (full : Bool) (s i : Nat) (hs : s < M.nrows)
    (hlow : ∀ j, j < i → M.get s j = false) :
    ElimRes M (elimLoop full s i M) (if full then 0 else s + 1) s i := by
  unfold elimLoop
  apply elim_fold s i _ _ M hM _ hs hlow
  split <;> omega


/-- `c` is the column of the leading one of the row `v` -/
def IsLead (v c : Nat) : Prop := v.testBit c = true ∧ ∀ j, j < c → v.testBit j = false

theorem IsLead.unique {v c d : Nat} (h : IsLead v c) (h' : IsLead v d) : c = d := by
  rcases Nat.lt_trichotomy c d with hlt | heq | hgt
  · have := h'.2 c hlt; rw [h.1] at this; cases this
  · exact heq
  · have := h.2 d hgt; rw [h'.1] at this; cases this

theorem IsLead.ne_zero {v c : Nat} (h : IsLead v c) : v ≠ 0 := by
  intro e; subst e; have := h.1; simp at this

/-- **loop invariant of the column loop** of `gaussDelayed A 0 full`, before column `i`,
    for the state `st = (M, startrow, pivots)`:
    shape and row space are those of `A`; `pivots = startrow ≤ i`;
    each row `k < startrow` has its leading one in a column `c < i`, all later rows are zero up to and
    including column `c` (so the leading columns strictly increase), and when `full` column `c` holds no other
    one; the rows from `startrow` on are zero in all columns `< i`. -/
structure Inv (full : Bool) (A : BMat) (st : BMat × Nat × Nat) (i : Nat) : Prop where
  wf : st.1.WF
  nr : st.1.nrows = A.nrows
  nc : st.1.ncols = A.ncols
  span : SameSpan A st.1
  piv_eq : st.2.2 = st.2.1
  sle : st.2.1 ≤ st.1.nrows
  sle_i : st.2.1 ≤ i
  piv : ∀ k, k < st.2.1 → ∃ c, c < i ∧ IsLead (st.1.row k) c ∧
          (∀ k' j, k < k' → j ≤ c → st.1.get k' j = false) ∧
          (full = true → ∀ k', k' ≠ k → st.1.get k' c = false)
  low : ∀ k j, st.2.1 ≤ k → j < i → st.1.get k j = false

theorem Inv.init {A : BMat} (hA : A.WF) (full : Bool) : Inv full A (A, 0, 0) 0 :=
  ⟨hA, rfl, rfl, SameSpan.refl _, rfl, Nat.zero_le _, Nat.le_refl _,
   fun _ hk => absurd hk (Nat.not_lt_zero _), fun _ _ _ hj => absurd hj (Nat.not_lt_zero _)⟩

/-- the invariant is maintained when column `i` has no pivot -/
theorem Inv.step_none {full : Bool} {A M : BMat} {s p i : Nat} (h : Inv full A (M, s, p) i)
    (hnone : ∀ k, s ≤ k → M.get k i = false) : Inv full A (M, s, p) (i + 1) := by
  refine ⟨h.wf, h.nr, h.nc, h.span, h.piv_eq, h.sle, Nat.le_succ_of_le h.sle_i, ?_, ?_⟩
  · intro k hk
    obtain ⟨c, hc, hl⟩ := h.piv k hk
    exact ⟨c, Nat.lt_succ_of_lt hc, hl⟩
  · intro k j hk hj
    rcases Nat.lt_succ_iff_lt_or_eq.mp hj with hj | rfl
    · exact h.low k j hk hj
    · exact hnone k hk


/-- the invariant is maintained when row `j ≥ startrow` is the first one holding a one in column `i` -/
theorem Inv.step_some {full : Bool} {A M : BMat} {s p i j : Nat} (h : Inv full A (M, s, p) i)
    (hsj : s ≤ j) (hj : j < M.nrows) (hji : M.get j i = true) :
    Inv full A (elimLoop full s i (M.swapRows s j), s + 1, p + 1) (i + 1) := by
  have hM : M.WF := h.wf
  have hs : s < M.nrows := by omega
  have hlow : ∀ k c, s ≤ k → c < i → M.get k c = false := h.low
  have hpiv : ∀ k, k < s → ∃ c, c < i ∧ IsLead (M.row k) c ∧
      (∀ k' j, k < k' → j ≤ c → M.get k' j = false) ∧
      (full = true → ∀ k', k' ≠ k → M.get k' c = false) := h.piv
  -- the row permutation done by the swap
  let σ : Nat → Nat := fun k => if k = s then j else if k = j then s else k
  have σdef : ∀ k, σ k = if k = s then j else if k = j then s else k := fun _ => rfl
  have row1 : ∀ k, (M.swapRows s j).row k = M.row (σ k) := by
    intro k; rw [row_swapRows hM s j k hs hj, σdef]
    split
    · rfl
    · split <;> rfl
  have get1 : ∀ k c, (M.swapRows s j).get k c = M.get (σ k) c := by
    intro k c; show ((M.swapRows s j).row k).testBit c = _; rw [row1]; rfl
  have σs : σ s = j := by rw [σdef, if_pos rfl]
  have σge : ∀ k, s ≤ k → s ≤ σ k := by
    intro k hk; rw [σdef]; split
    · exact hsj
    · split <;> omega
  have σgt : ∀ k k', k < s → k < k' → k < σ k' := by
    intro k k' hk hk'; rw [σdef]; split
    · omega
    · split <;> omega
  have σlt : ∀ k, k < s → σ k = k := by
    intro k hk; rw [σdef, if_neg (by omega), if_neg (by omega)]
  have σne : ∀ k k', k < s → k' ≠ k → σ k' ≠ k := by
    intro k k' hk hk'; rw [σdef]; split
    · omega
    · split <;> omega
  have σbig : ∀ k, M.nrows ≤ k → σ k = k := by
    intro k hk; rw [σdef, if_neg (by omega), if_neg (by omega)]
  have wf1 := WF_swapRows hM s j
  have r := elimLoop_spec wf1 full s i (by simpa using hs)
    (by intro c hc; rw [get1, σs]; exact hlow j c hsj hc)
  have get2 : ∀ k c, (elimLoop full s i (M.swapRows s j)).get k c =
      if (if full then 0 else s + 1) ≤ k ∧ k < M.nrows ∧ k ≠ s ∧ M.get (σ k) i = true
      then (M.get (σ k) c ^^ M.get j c) else M.get (σ k) c := by
    intro k c
    show ((elimLoop full s i (M.swapRows s j)).row k).testBit c = _
    rw [r.row, get1, row1, row1, σs, nrows_swapRows]
    by_cases hc : (if full then 0 else s + 1) ≤ k ∧ k < M.nrows ∧ k ≠ s ∧ M.get (σ k) i = true
    · rw [if_pos hc, if_pos hc, Nat.testBit_xor]; rfl
    · rw [if_neg hc, if_neg hc]; rfl
  -- columns left of `i` are only permuted
  have F1 : ∀ k c, c < i → (elimLoop full s i (M.swapRows s j)).get k c = M.get (σ k) c := by
    intro k c hc; rw [get2, hlow j c hsj hc, Bool.xor_false]
    exact ite_self _
  -- column `i` is cleared in all processed rows
  have F3 : ∀ k, (if full then 0 else s + 1) ≤ k → k ≠ s →
      (elimLoop full s i (M.swapRows s j)).get k i = false := by
    intro k hk hks; rw [get2]
    by_cases hkn : k < M.nrows
    · by_cases hb : M.get (σ k) i = true
      · rw [if_pos ⟨hk, hkn, hks, hb⟩, hb, hji]; rfl
      · rw [if_neg (fun hh => hb hh.2.2.2)]; simpa using hb
    · rw [if_neg (fun hh => hkn hh.2.1), σbig k (by omega)]
      exact get_of_ge_nrows hM _ _ (by omega)
  have F2 : (elimLoop full s i (M.swapRows s j)).row s = M.row j := by
    rw [r.row, if_neg (fun hh => hh.2.2.1 rfl), row1, σs]
  refine ⟨r.wf, ?_, ?_, ?_, ?_, ?_, ?_, ?_, ?_⟩
  · show (elimLoop full s i (M.swapRows s j)).nrows = A.nrows
    rw [r.nr, nrows_swapRows]; exact h.nr
  · show (elimLoop full s i (M.swapRows s j)).ncols = A.ncols
    rw [r.nc, ncols_swapRows]; exact h.nc
  · exact h.span.trans ((sameSpan_swapRows hM s j hs hj).trans r.span)
  · show p + 1 = s + 1
    have : p = s := h.piv_eq
    omega
  · show s + 1 ≤ (elimLoop full s i (M.swapRows s j)).nrows
    rw [r.nr, nrows_swapRows]; omega
  · show s + 1 ≤ i + 1
    have : s ≤ i := h.sle_i
    omega
  · intro k hk
    show ∃ c, c < i + 1 ∧ IsLead ((elimLoop full s i (M.swapRows s j)).row k) c ∧
      (∀ k' j', k < k' → j' ≤ c → (elimLoop full s i (M.swapRows s j)).get k' j' = false) ∧
      (full = true → ∀ k', k' ≠ k → (elimLoop full s i (M.swapRows s j)).get k' c = false)
    rcases Nat.lt_succ_iff_lt_or_eq.mp hk with hk | rfl
    · obtain ⟨c, hc, hl, hz, hf⟩ := hpiv k hk
      refine ⟨c, Nat.lt_succ_of_lt hc, ⟨?_, ?_⟩, ?_, ?_⟩
      · show (elimLoop full s i (M.swapRows s j)).get k c = true
        rw [F1 k c hc, σlt k hk]; exact hl.1
      · intro j' hj'
        show (elimLoop full s i (M.swapRows s j)).get k j' = false
        rw [F1 k j' (by omega), σlt k hk]; exact hl.2 j' hj'
      · intro k' j' hk' hj'
        rw [F1 k' j' (by omega)]; exact hz _ _ (σgt k k' hk hk') hj'
      · intro hfull k' hk'
        rw [F1 k' c hc]; exact hf hfull _ (σne k k' hk hk')
    · refine ⟨i, Nat.lt_succ_self i, ⟨?_, ?_⟩, ?_, ?_⟩
      · rw [F2]; exact hji
      · intro j' hj'; rw [F2]; exact hlow j j' hsj hj'
      · intro k' j' hk' hj'
        rcases Nat.lt_or_eq_of_le hj' with hj' | rfl
        · rw [F1 k' j' hj']; exact hlow _ _ (σge k' (by omega)) hj'
        · apply F3 k' _ (by omega)
          split <;> omega
      · intro hfull k' hk'
        apply F3 k' _ hk'
        rw [if_pos hfull]; exact Nat.zero_le _
  · intro k j' hk hj'
    show (elimLoop full s i (M.swapRows s j)).get k j' = false
    have hk : s + 1 ≤ k := hk
    rcases Nat.lt_succ_iff_lt_or_eq.mp hj' with hj' | rfl
    · rw [F1 k j' hj']; exact hlow _ _ (σge k (by omega)) hj'
    · apply F3 k _ (by omega)
      split <;> omega


/-- **one iteration of the column loop maintains the invariant** -/
theorem Inv.step {full : Bool} {A : BMat} {st : BMat × Nat × Nat} {i : Nat} (h : Inv full A st i) :
    Inv full A (gstep full st i) (i + 1) := by
  obtain ⟨M, s, p⟩ := st
  unfold gstep
  dsimp only
  split
  · rename_i hf
    rw [List.find?_range'_eq_none] at hf
    apply h.step_none
    intro k hk
    by_cases hkn : k < M.nrows
    · have := hf k hk (by show k < s + (M.nrows - s); omega)
      simpa using this
    · have hM : M.WF := h.wf
      exact get_of_ge_nrows hM _ _ (by omega)
  · rename_i j hf
    rw [List.find?_range'_eq_some] at hf
    obtain ⟨h1, h2, _⟩ := hf
    rw [List.mem_range'_1] at h2
    have hs : s ≤ M.nrows := h.sle
    exact h.step_some h2.1 (by show j < M.nrows; have := h2.2; omega) h1

theorem Inv.fold {full : Bool} {A : BMat} : ∀ (n i : Nat) (st : BMat × Nat × Nat), Inv full A st i →
    Inv full A ((List.range' i n).foldl (gstep full) st) (i + n) := by
  intro n
  induction n with
  | zero => intro i st h; exact h
  | succ n ih =>
    intro i st h
    rw [List.range'_succ, List.foldl_cons]
    have := ih (i + 1) _ h.step
    rwa [Nat.add_assoc, Nat.add_comm 1 n] at this

/-- the final state of `gaussDelayed A 0 full` satisfies the invariant for `i = ncols` -/
theorem Inv.final {A : BMat} (hA : A.WF) (full : Bool) :
    Inv full A ((gaussDelayed A 0 full).1, (gaussDelayed A 0 full).2, (gaussDelayed A 0 full).2) A.ncols := by
  have := Inv.fold (full := full) (A := A) A.ncols 0 (A, 0, 0) (Inv.init hA full)
  rw [Nat.zero_add] at this
  rw [gaussDelayed_eq]
  simp only [Nat.sub_zero]
  have e := this.piv_eq
  refine ⟨this.wf, this.nr, this.nc, this.span, rfl, ?_, ?_, ?_, ?_⟩
  · show _ ≤ _; rw [e]; exact this.sle
  · show _ ≤ _; rw [e]; exact this.sle_i
  · intro k hk
    exact this.piv k (by rw [← e]; exact hk)
  · intro k j hk hj
    exact this.low k j (by rw [← e]; exact hk) hj


/-! ## §3a the Boolean predicates `isRowEchelon`, `isRREF` in terms of rows -/

theorem lowBit_eq_none {v n : Nat} : lowBit v n = none ↔ ∀ j, j < n → v.testBit j = false := by
  unfold lowBit
  rw [List.find?_range_eq_none]
  constructor
  · intro h j hj; simpa using h j hj
  · intro h j hj; simpa using h j hj

theorem lowBit_eq_some {v n c : Nat} : lowBit v n = some c ↔ c < n ∧ IsLead v c := by
  unfold lowBit IsLead
  rw [List.find?_range_eq_some]
  constructor
  · rintro ⟨h1, h2, h3⟩
    exact ⟨List.mem_range.mp h2, h1, fun j hj => by simpa using h3 j hj⟩
  · rintro ⟨h1, h2, h3⟩
    exact ⟨h2, List.mem_range.mpr h1, fun j hj => by simpa using h3 j hj⟩

theorem eq_zero_of_testBit_false {v n : Nat} (hv : v < 2 ^ n) (h : ∀ j, j < n → v.testBit j = false) :
    v = 0 := by
  apply Nat.eq_of_testBit_eq
  intro j
  rw [Nat.zero_testBit]
  by_cases hj : j < n
  · exact h j hj
  · exact Nat.testBit_lt_two_pow (Nat.lt_of_lt_of_le hv (Nat.pow_le_pow_right (by omega) (Nat.le_of_not_lt hj)))

theorem lowBit_eq_none_iff_zero {v n : Nat} (hv : v < 2 ^ n) : lowBit v n = none ↔ v = 0 := by
  rw [lowBit_eq_none]
  constructor
  · exact eq_zero_of_testBit_false hv
  · intro h j _; subst h; exact Nat.zero_testBit j

theorem IsLead.lt_of_lt_two_pow {v n c : Nat} (hv : v < 2 ^ n) (h : IsLead v c) : c < n := by
  apply Nat.lt_of_not_le
  intro hn
  have := Nat.testBit_lt_two_pow (Nat.lt_of_lt_of_le hv (Nat.pow_le_pow_right (by omega) hn))
  rw [h.1] at this; cases this

theorem not_isLead_zero (c : Nat) : ¬ IsLead 0 c := fun h => h.ne_zero rfl

/-- every non-zero row has a leading one -/
theorem exists_isLead {v n : Nat} (hv : v < 2 ^ n) (h0 : v ≠ 0) : ∃ c, c < n ∧ IsLead v c := by
  cases h : lowBit v n with
  | none => exact absurd ((lowBit_eq_none_iff_zero hv).mp h) h0
  | some c => exact ⟨c, lowBit_eq_some.mp h⟩

/-- `b` may follow `a` in a row echelon form: zero rows are followed by zero rows only, and a row with its
    leading one in column `c` is followed by rows that are zero up to and including column `c` -/
def EchRel (a b : Nat) : Prop := (a = 0 → b = 0) ∧ ∀ c, IsLead a c → ∀ j, j ≤ c → b.testBit j = false

/-- `a` is zero in the pivot column of the later row `b` -/
def RedRel (a b : Nat) : Prop := ∀ c, IsLead b c → a.testBit c = false

/-- row echelon form of a list of rows -/
def EchList (l : List Nat) : Prop := l.Pairwise EchRel
/-- reduced row echelon form of a list of rows -/
def RREFList (l : List Nat) : Prop := l.Pairwise fun a b => EchRel a b ∧ RedRel a b

theorem echRel_zero_left {b : Nat} : EchRel 0 b ↔ b = 0 :=
  ⟨fun h => h.1 rfl, fun h => ⟨fun _ => h, fun c hc => absurd hc (not_isLead_zero c)⟩⟩

theorem echList_of_all_zero {l : List Nat} (h : ∀ x, x ∈ l → x = 0) : EchList l := by
  unfold EchList
  rw [List.pairwise_iff_forall_sublist]
  intro a b hab
  have ha := h a (hab.subset (by simp))
  have hb := h b (hab.subset (by simp))
  subst ha hb
  exact echRel_zero_left.mpr rfl

theorem go_seenZero (n : Nat) (l : List Nat) (hl : ∀ x, x ∈ l → x < 2 ^ n) (prev : Option Nat) :
    isRowEchelon.go (l.map fun v => lowBit v n) prev true = true ↔ ∀ x, x ∈ l → x = 0 := by
  induction l with
  | nil => simp [isRowEchelon.go]
  | cons a l ih =>
    have ha := hl a (by simp)
    have ih := ih (fun x hx => hl x (by simp [hx]))
    rw [List.map_cons]
    cases h : lowBit a n with
    | none =>
      have a0 := (lowBit_eq_none_iff_zero ha).mp h
      simp only [isRowEchelon.go]
      rw [ih]
      constructor
      · intro hh x hx
        rcases List.mem_cons.mp hx with rfl | hx
        · exact a0
        · exact hh x hx
      · intro hh x hx; exact hh x (by simp [hx])
    | some c =>
      simp only [isRowEchelon.go, Bool.not_true, Bool.false_and]
      constructor
      · intro hh; cases hh
      · intro hh
        have := hh a (by simp)
        subst this
        exact absurd (lowBit_eq_some.mp h).2 (not_isLead_zero c)

theorem go_spec (n : Nat) (l : List Nat) (hl : ∀ x, x ∈ l → x < 2 ^ n) (prev : Option Nat) :
    isRowEchelon.go (l.map fun v => lowBit v n) prev false = true ↔
      (∀ p, prev = some p → ∀ x, x ∈ l → ∀ j, j ≤ p → x.testBit j = false) ∧ EchList l := by
  induction l generalizing prev with
  | nil => simp [isRowEchelon.go, EchList]
  | cons a l ih =>
    have ha := hl a (by simp)
    have hl' : ∀ x, x ∈ l → x < 2 ^ n := fun x hx => hl x (by simp [hx])
    rw [List.map_cons]
    unfold EchList
    rw [List.pairwise_cons]
    cases h : lowBit a n with
    | none =>
      have a0 := (lowBit_eq_none_iff_zero ha).mp h
      subst a0
      simp only [isRowEchelon.go]
      rw [go_seenZero n l hl']
      constructor
      · intro hh
        refine ⟨fun p _ x hx j _ => ?_, fun x hx => echRel_zero_left.mpr (hh x hx), echList_of_all_zero hh⟩
        rcases List.mem_cons.mp hx with rfl | hx
        · exact Nat.zero_testBit j
        · rw [hh x hx]; exact Nat.zero_testBit j
      · rintro ⟨_, h2, _⟩ x hx
        exact echRel_zero_left.mp (h2 x hx)
    | some c =>
      obtain ⟨hcn, hlead⟩ := lowBit_eq_some.mp h
      simp only [isRowEchelon.go, Bool.not_false, Bool.true_and, Bool.and_eq_true]
      rw [ih hl' (some c)]
      constructor
      · rintro ⟨hp, hz, hE⟩
        have hz' : ∀ x, x ∈ l → ∀ j, j ≤ c → x.testBit j = false := hz c rfl
        refine ⟨fun p hp' x hx j hj => ?_, fun x hx => ⟨fun e => absurd e hlead.ne_zero, fun c' hc' j hj => ?_⟩, hE⟩
        · subst hp'
          have hpc : p < c := by simpa using hp
          rcases List.mem_cons.mp hx with rfl | hx
          · exact hlead.2 j (by omega)
          · exact hz' x hx j (by omega)
        · have := hlead.unique hc'
          subst this
          exact hz' x hx j hj
      · rintro ⟨hp, hz, hE⟩
        refine ⟨?_, fun p hp' x hx j hj => ?_, hE⟩
        · cases prev with
          | none => rfl
          | some p =>
            have := hp p rfl a (by simp)
            apply decide_eq_true
            apply Nat.lt_of_not_le
            intro hcp
            have := this c hcp
            rw [hlead.1] at this; cases this
        · cases hp'
          exact (hz x hx).2 c hlead j hj


theorem row_mod {M : BMat} (hM : M.WF) (i : Nat) : M.row i % 2 ^ M.ncols = M.row i :=
  Nat.mod_eq_of_lt (hM.2 i)

theorem leads_eq {M : BMat} (hM : M.WF) : M.leads = M.rowList.map fun v => lowBit v M.ncols := by
  unfold leads rowList
  rw [List.map_map]
  apply List.map_congr_left
  intro i _
  simp only [Function.comp, row_mod hM]

theorem rowList_lt {M : BMat} (hM : M.WF) : ∀ x, x ∈ M.rowList → x < 2 ^ M.ncols := by
  intro x hx
  obtain ⟨i, _, rfl⟩ := mem_rowList.mp hx
  exact hM.2 i

theorem pairwise_rowList_iff (M : BMat) (R : Nat → Nat → Prop) :
    M.rowList.Pairwise R ↔ ∀ i j, i < j → j < M.nrows → R (M.row i) (M.row j) := by
  rw [List.pairwise_iff_getElem]
  constructor
  · intro h i j hij hj
    have := h i j (by rw [length_rowList]; omega) (by rw [length_rowList]; omega) hij
    rwa [getElem_rowList, getElem_rowList] at this
  · intro h i j hi hj hij
    rw [getElem_rowList, getElem_rowList]
    rw [length_rowList] at hj
    exact h i j hij hj

/-- **`isRowEchelon` decides the row echelon property** -/
theorem isRowEchelon_iff {M : BMat} (hM : M.WF) : M.isRowEchelon = true ↔ EchList M.rowList := by
  unfold isRowEchelon
  simp only
  rw [leads_eq hM, go_spec _ _ (rowList_lt hM)]
  constructor
  · exact fun h => h.2
  · exact fun h => ⟨fun p hp => by simp at hp, h⟩

theorem isRowEchelon_iff_rows {M : BMat} (hM : M.WF) :
    M.isRowEchelon = true ↔ ∀ i j, i < j → j < M.nrows → EchRel (M.row i) (M.row j) := by
  rw [isRowEchelon_iff hM]; exact pairwise_rowList_iff M _

/-- **`isRREF` decides the reduced row echelon property** -/
theorem isRREF_iff {M : BMat} (hM : M.WF) : M.isRREF = true ↔ RREFList M.rowList := by
  unfold isRREF RREFList
  rw [Bool.and_eq_true, isRowEchelon_iff_rows hM, pairwise_rowList_iff, List.all_eq_true]
  constructor
  · rintro ⟨hE, hR⟩ i j hij hj
    refine ⟨hE i j hij hj, fun c hc => ?_⟩
    have h1 := hR j (List.mem_range.mpr hj)
    rw [row_mod hM] at h1
    have hcn := hc.lt_of_lt_two_pow (hM.2 j)
    rw [lowBit_eq_some.mpr ⟨hcn, hc⟩] at h1
    simp only [List.all_eq_true] at h1
    have := h1 i (List.mem_range.mpr (by omega))
    have hne : ¬ i = j := by omega
    show M.get i c = false
    simpa [hne] using this
  · intro h
    refine ⟨fun i j hij hj => (h i j hij hj).1, fun i hi => ?_⟩
    rw [List.mem_range] at hi
    rw [row_mod hM]
    cases hl : lowBit (M.row i) M.ncols with
    | none => rfl
    | some c =>
      obtain ⟨hcn, hc⟩ := lowBit_eq_some.mp hl
      simp only [List.all_eq_true]
      intro i' hi'
      rw [List.mem_range] at hi'
      rcases Nat.lt_trichotomy i' i with hlt | heq | hgt
      · have := (h i' i hlt hi).2 c hc
        have : M.get i' c = false := this
        simp [this]
      · simp [heq]
      · have := (h i i' hgt hi').1.2 c hc c (Nat.le_refl _)
        have : M.get i' c = false := this
        simp [this]

theorem isRREF_iff_rows {M : BMat} (hM : M.WF) :
    M.isRREF = true ↔ ∀ i j, i < j → j < M.nrows → EchRel (M.row i) (M.row j) ∧ RedRel (M.row i) (M.row j) := by
  rw [isRREF_iff hM]; exact pairwise_rowList_iff M _

theorem isRowEchelon_of_isRREF {M : BMat} (h : M.isRREF = true) : M.isRowEchelon = true := by
  unfold isRREF at h
  exact (Bool.and_eq_true _ _ ▸ h).1


/-! ## §3 results for `gaussDelayed M 0 full` (`mzd_echelonize_naive(M, full)`) -/

section Results
variable {A : BMat} (hA : A.WF) (full : Bool)
include hA

theorem gauss_WF : (gaussDelayed A 0 full).1.WF := (Inv.final hA full).wf
theorem gauss_nrows : (gaussDelayed A 0 full).1.nrows = A.nrows := (Inv.final hA full).nr
theorem gauss_ncols : (gaussDelayed A 0 full).1.ncols = A.ncols := (Inv.final hA full).nc

/-- **the row space is preserved** -/
theorem gauss_sameSpan : SameSpan A (gaussDelayed A 0 full).1 := (Inv.final hA full).span

theorem gauss_rank_le_nrows : (gaussDelayed A 0 full).2 ≤ A.nrows := by
  have := (Inv.final hA full).sle
  rwa [(Inv.final hA full).nr] at this

theorem gauss_rank_le_ncols : (gaussDelayed A 0 full).2 ≤ A.ncols := (Inv.final hA full).sle_i

/-- **the rows from the returned rank on are zero** (also beyond the matrix, where `row` reads 0) -/
theorem gauss_row_eq_zero (k : Nat) (hk : (gaussDelayed A 0 full).2 ≤ k) :
    (gaussDelayed A 0 full).1.row k = 0 := by
  have h := Inv.final hA full
  apply eq_zero_of_testBit_false (h.wf.2 k)
  intro j hj
  rw [h.nc] at hj
  exact h.low k j hk hj

/-- the rows above the returned rank are non-zero, with the pivot data of the invariant -/
theorem gauss_row_lead (k : Nat) (hk : k < (gaussDelayed A 0 full).2) :
    ∃ c, c < A.ncols ∧ IsLead ((gaussDelayed A 0 full).1.row k) c ∧
      (∀ k' j, k < k' → j ≤ c → (gaussDelayed A 0 full).1.get k' j = false) ∧
      (full = true → ∀ k', k' ≠ k → (gaussDelayed A 0 full).1.get k' c = false) :=
  (Inv.final hA full).piv k hk

theorem gauss_row_ne_zero (k : Nat) (hk : k < (gaussDelayed A 0 full).2) :
    (gaussDelayed A 0 full).1.row k ≠ 0 := by
  obtain ⟨c, _, hl, _⟩ := gauss_row_lead hA full k hk
  exact hl.ne_zero

theorem gauss_echRel (i j : Nat) (hij : i < j) :
    EchRel ((gaussDelayed A 0 full).1.row i) ((gaussDelayed A 0 full).1.row j) := by
  by_cases hi : i < (gaussDelayed A 0 full).2
  · obtain ⟨c, _, hl, hz, _⟩ := gauss_row_lead hA full i hi
    refine ⟨fun e => absurd e hl.ne_zero, fun c' hc' j' hj' => ?_⟩
    have := hl.unique hc'
    subst this
    exact hz j j' hij hj'
  · rw [gauss_row_eq_zero hA full i (by omega), gauss_row_eq_zero hA full j (by omega)]
    exact echRel_zero_left.mpr rfl

/-- **the result is in row echelon form** -/
theorem gauss_isRowEchelon : (gaussDelayed A 0 full).1.isRowEchelon = true := by
  rw [isRowEchelon_iff_rows (gauss_WF hA full)]
  intro i j hij _
  exact gauss_echRel hA full i j hij

omit hA in
theorem gauss_redRel (hA : A.WF) (i j : Nat) (hij : i ≠ j) :
    RedRel ((gaussDelayed A 0 true).1.row i) ((gaussDelayed A 0 true).1.row j) := by
  intro c hc
  by_cases hj : j < (gaussDelayed A 0 true).2
  · obtain ⟨c', _, hl, _, hf⟩ := gauss_row_lead hA true j hj
    have := hl.unique hc
    subst this
    exact hf rfl i hij
  · rw [gauss_row_eq_zero hA true j (by omega)] at hc
    exact absurd hc (not_isLead_zero c)

omit hA in
/-- **with `full` the result is in reduced row echelon form** -/
theorem gauss_isRREF (hA : A.WF) : (gaussDelayed A 0 true).1.isRREF = true := by
  rw [isRREF_iff_rows (gauss_WF hA true)]
  intro i j hij _
  exact ⟨gauss_echRel hA true i j hij, gauss_redRel hA i j (by omega)⟩

omit hA in
theorem countP_range_of_threshold (p : Nat → Bool) (r : Nat) (h1 : ∀ k, k < r → p k = true)
    (h2 : ∀ k, r ≤ k → p k = false) (n : Nat) : (List.range n).countP p = min r n := by
  induction n with
  | zero => simp
  | succ n ih =>
    rw [List.range_succ, List.countP_append, ih]
    by_cases hn : n < r
    · simp [h1 n hn]; omega
    · simp [h2 n (by omega)]; omega

/-- **the returned value is the number of non-zero rows of the result** -/
theorem gauss_rank_eq_count :
    (gaussDelayed A 0 full).1.rowList.countP (fun v => v != 0) = (gaussDelayed A 0 full).2 := by
  unfold rowList
  rw [List.countP_map, gauss_nrows hA full,
    countP_range_of_threshold _ (gaussDelayed A 0 full).2 _ _ A.nrows]
  · exact Nat.min_eq_left (gauss_rank_le_nrows hA full)
  · intro k hk
    simpa using gauss_row_ne_zero hA full k hk
  · intro k hk
    simpa using gauss_row_eq_zero hA full k hk

end Results

/-- non-vacuity / sanity: a concrete run -/
example : (gaussDelayed ⟨3, 4, #[6, 3, 5]⟩ 0 true).1.rows = #[5, 6, 0] ∧
    (gaussDelayed ⟨3, 4, #[6, 3, 5]⟩ 0 true).2 = 2 := by decide
example : (gaussDelayed ⟨3, 4, #[6, 3, 5]⟩ 0 false).1.rows = #[3, 6, 0] ∧
    (gaussDelayed ⟨3, 4, #[6, 3, 5]⟩ 0 false).2 = 2 := by decide
theorem wf_example : (⟨3, 4, #[6, 3, 5]⟩ : BMat).WF := ⟨rfl, by
  intro i; unfold row; simp only [Array.getD_eq_getD_getElem?]
  rcases i with _ | _ | _ | i <;> simp⟩
/-- the hypotheses of the result theorems are satisfiable -/
example : SameSpan ⟨3, 4, #[6, 3, 5]⟩ (gaussDelayed ⟨3, 4, #[6, 3, 5]⟩ 0 false).1 ∧
    (gaussDelayed ⟨3, 4, #[6, 3, 5]⟩ 0 false).1.isRowEchelon = true ∧
    (gaussDelayed ⟨3, 4, #[6, 3, 5]⟩ 0 true).1.isRREF = true :=
  ⟨gauss_sameSpan wf_example false, gauss_isRowEchelon wf_example false, gauss_isRREF wf_example⟩

/-- in a row echelon form the leading columns strictly increase -/
theorem EchRel.lead_lt {a b c c' : Nat} (h : EchRel a b) (hc : IsLead a c) (hc' : IsLead b c') : c < c' := by
  apply Nat.lt_of_not_le
  intro hle
  have := h.2 c hc c' hle
  rw [hc'.1] at this; cases this

/-- the leading columns of the non-zero rows of the result strictly increase -/
theorem gauss_lead_strictMono {A : BMat} (hA : A.WF) (full : Bool) {k k' c c' : Nat} (hk : k < k')
    (hc : IsLead ((gaussDelayed A 0 full).1.row k) c) (hc' : IsLead ((gaussDelayed A 0 full).1.row k') c') :
    c < c' :=
  (gauss_echRel hA full k k' hk).lead_lt hc hc'


/-! ## §4 uniqueness of the reduced row echelon form in a span -/

theorem eq_of_xor_eq_zero {a b : Nat} (h : a ^^^ b = 0) : a = b := by
  have : a ^^^ (a ^^^ b) = b := by rw [← Nat.xor_assoc, Nat.xor_self, Nat.zero_xor]
  rw [h, Nat.xor_zero] at this
  exact this

theorem exists_isLead' {v : Nat} (h0 : v ≠ 0) : ∃ c, IsLead v c := by
  obtain ⟨c, _, hc⟩ := exists_isLead (Nat.lt_two_pow_self (n := v)) h0
  exact ⟨c, hc⟩

/-- the span of zero rows is `{0}` -/
theorem inSpan_zero_rows {l : List Nat} (hl : ∀ x, x ∈ l → x = 0) {v : Nat} (hv : InSpan l v) : v = 0 := by
  induction hv with
  | zero => rfl
  | add hr _ ih => rw [ih, hl _ hr]; rfl

theorem getD_zero_of_all_zero {l : List Nat} (hl : ∀ x, x ∈ l → x = 0) (i : Nat) : l.getD i 0 = 0 := by
  rw [List.getD_eq_getElem?_getD]
  by_cases h : i < l.length
  · rw [List.getElem?_eq_getElem h]; exact hl _ (List.getElem_mem h)
  · rw [List.getElem?_eq_none (Nat.le_of_not_lt h)]; rfl

/-- if the only element of the span is `0`, all rows are `0` -/
theorem all_zero_of_span {l : List Nat} (h : ∀ v, InSpan l v → v = 0) : ∀ x, x ∈ l → x = 0 :=
  fun x hx => h x (InSpan.of_mem hx)

/-- in an echelon list an element of the span that vanishes in every pivot column is zero -/
theorem span_eq_zero_of_pivots {l : List Nat} (hE : EchList l) {v : Nat} (hv : InSpan l v)
    (hz : ∀ x, x ∈ l → ∀ c, IsLead x c → v.testBit c = false) : v = 0 := by
  induction l generalizing v with
  | nil => exact InSpan.nil_iff.mp hv
  | cons r rs ih =>
    unfold EchList at hE
    rw [List.pairwise_cons] at hE
    have hz' : ∀ x, x ∈ rs → ∀ c, IsLead x c → v.testBit c = false :=
      fun x hx => hz x (List.mem_cons_of_mem _ hx)
    rcases InSpan.cons_iff.mp hv with h | h
    · exact ih hE.2 h hz'
    · by_cases hr : r = 0
      · subst hr; rw [Nat.xor_zero] at h; exact ih hE.2 h hz'
      · obtain ⟨p, hp⟩ := exists_isLead' hr
        have h1 : (v ^^^ r).testBit p = false :=
          InSpan.testBit_false (fun x hx => (hE.1 x hx).2 p hp p (Nat.le_refl _)) h
        rw [Nat.testBit_xor, hz r (by simp) p hp, hp.1] at h1
        cases h1

/-- the leading column of the first row of an echelon list is the least leading column in the span -/
theorem lead_le_of_span {r : Nat} {rs : List Nat} (hE : ∀ x, x ∈ rs → EchRel r x) {p : Nat}
    (hp : IsLead r p) {v q : Nat} (hv : InSpan (r :: rs) v) (hq : IsLead v q) : p ≤ q := by
  apply Nat.le_of_not_lt
  intro hlt
  have : v.testBit q = false := by
    apply InSpan.testBit_false _ hv
    intro x hx
    rcases List.mem_cons.mp hx with rfl | hx
    · exact hp.2 q hlt
    · exact (hE x hx).2 p hp q (Nat.le_of_lt hlt)
  rw [hq.1] at this; cases this

/-- with a common first pivot column, span inclusion passes to the tails -/
theorem tail_span_le {r r' : Nat} {rs rs' : List Nat} {p : Nat}
    (hrs : ∀ x, x ∈ rs → x.testBit p = false) (hp' : r'.testBit p = true)
    (hrs' : ∀ x, x ∈ rs' → x.testBit p = false)
    (h : ∀ v, InSpan (r :: rs) v → InSpan (r' :: rs') v) {v : Nat} (hv : InSpan rs v) : InSpan rs' v := by
  have hvp : v.testBit p = false := InSpan.testBit_false hrs hv
  rcases InSpan.cons_iff.mp (h v (InSpan.cons_iff.mpr (Or.inl hv))) with h1 | h1
  · exact h1
  · have := InSpan.testBit_false hrs' h1
    rw [Nat.testBit_xor, hvp, hp'] at this
    cases this

theorem mem_of_getD_eq {l l' : List Nat} (h : ∀ i, l.getD i 0 = l'.getD i 0) {x : Nat} (hx : x ∈ l)
    (h0 : x ≠ 0) : x ∈ l' := by
  obtain ⟨i, hi, rfl⟩ := List.mem_iff_getElem.mp hx
  have e := h i
  rw [List.getD_eq_getElem?_getD, List.getD_eq_getElem?_getD, List.getElem?_eq_getElem hi] at e
  by_cases hi' : i < l'.length
  · rw [List.getElem?_eq_getElem hi'] at e
    simp only [Option.getD_some] at e
    rw [e]; exact List.getElem_mem hi'
  · rw [List.getElem?_eq_none (Nat.le_of_not_lt hi')] at e
    exact absurd e h0

/-- **uniqueness of the reduced row echelon form**: two reduced row echelon lists with the same span
    agree row by row (a shorter list is continued by zero rows) -/
theorem rrefList_unique : ∀ (l l' : List Nat), RREFList l → RREFList l' →
    (∀ v, InSpan l v ↔ InSpan l' v) → ∀ i, l.getD i 0 = l'.getD i 0 := by
  intro l
  induction l with
  | nil =>
    intro l' _ _ hs i
    have : ∀ x, x ∈ l' → x = 0 :=
      all_zero_of_span fun v hv => InSpan.nil_iff.mp ((hs v).mpr hv)
    rw [getD_zero_of_all_zero this]; rfl
  | cons r rs ih =>
    intro l' hR hR' hs i
    cases l' with
    | nil =>
      have : ∀ x, x ∈ r :: rs → x = 0 :=
        all_zero_of_span fun v hv => InSpan.nil_iff.mp ((hs v).mp hv)
      rw [getD_zero_of_all_zero this]; rfl
    | cons r' rs' =>
      unfold RREFList at hR hR'
      rw [List.pairwise_cons] at hR hR'
      by_cases hr : r = 0
      · -- everything is zero
        have hl : ∀ x, x ∈ r :: rs → x = 0 := by
          intro x hx
          rcases List.mem_cons.mp hx with rfl | hx
          · exact hr
          · exact (hR.1 x hx).1.1 hr
        have hl' : ∀ x, x ∈ r' :: rs' → x = 0 :=
          all_zero_of_span fun v hv => inSpan_zero_rows hl ((hs v).mpr hv)
        rw [getD_zero_of_all_zero hl, getD_zero_of_all_zero hl']
      · by_cases hr' : r' = 0
        · have hl' : ∀ x, x ∈ r' :: rs' → x = 0 := by
            intro x hx
            rcases List.mem_cons.mp hx with rfl | hx
            · exact hr'
            · exact (hR'.1 x hx).1.1 hr'
          have hl : ∀ x, x ∈ r :: rs → x = 0 :=
            all_zero_of_span fun v hv => inSpan_zero_rows hl' ((hs v).mp hv)
          rw [getD_zero_of_all_zero hl, getD_zero_of_all_zero hl']
        · obtain ⟨p, hp⟩ := exists_isLead' hr
          obtain ⟨p', hp'⟩ := exists_isLead' hr'
          have hrin : InSpan (r' :: rs') r := (hs r).mp (InSpan.of_mem (by simp))
          have hrin' : InSpan (r :: rs) r' := (hs r').mpr (InSpan.of_mem (by simp))
          have e1 : p' ≤ p := lead_le_of_span (fun x hx => (hR'.1 x hx).1) hp' hrin hp
          have e2 : p ≤ p' := lead_le_of_span (fun x hx => (hR.1 x hx).1) hp hrin' hp'
          have e : p' = p := Nat.le_antisymm e1 e2
          subst e
          have hz : ∀ x, x ∈ rs → x.testBit p' = false :=
            fun x hx => (hR.1 x hx).1.2 p' hp p' (Nat.le_refl _)
          have hz' : ∀ x, x ∈ rs' → x.testBit p' = false :=
            fun x hx => (hR'.1 x hx).1.2 p' hp' p' (Nat.le_refl _)
          have hs' : ∀ v, InSpan rs v ↔ InSpan rs' v := fun v =>
            ⟨tail_span_le hz hp'.1 hz' (fun v => (hs v).mp), tail_span_le hz' hp.1 hz (fun v => (hs v).mpr)⟩
          have iht := ih rs' hR.2 hR'.2 hs'
          -- the first rows agree
          have hx : InSpan rs' (r ^^^ r') := by
            rcases InSpan.cons_iff.mp hrin with h1 | h1
            · have := InSpan.testBit_false hz' h1
              rw [hp.1] at this; cases this
            · exact h1
          have hE : EchList rs := List.Pairwise.imp (fun h => h.1) hR.2
          have hrr : r ^^^ r' = 0 := by
            apply span_eq_zero_of_pivots hE ((hs' _).mpr hx)
            intro x hx c hc
            have hx' : x ∈ rs' := mem_of_getD_eq iht hx hc.ne_zero
            rw [Nat.testBit_xor, (hR.1 x hx).2 c hc, (hR'.1 x hx').2 c hc]; rfl
          have := eq_of_xor_eq_zero hrr
          subst this
          cases i with
          | zero => rfl
          | succ i => rw [List.getD_cons_succ, List.getD_cons_succ]; exact iht i


theorem getD_rowList {M : BMat} (hM : M.WF) (i : Nat) : M.rowList.getD i 0 = M.row i := by
  rw [List.getD_eq_getElem?_getD]
  by_cases h : i < M.nrows
  · rw [List.getElem?_eq_getElem (by rw [length_rowList]; exact h), getElem_rowList]; rfl
  · rw [List.getElem?_eq_none (by rw [length_rowList]; omega), row_of_ge _ _ (by rw [hM.1]; omega)]; rfl

/-- two well-formed matrices with the same shape and the same rows are equal -/
theorem eq_of_rows {A B : BMat} (hA : A.WF) (hB : B.WF) (hr : A.nrows = B.nrows) (hc : A.ncols = B.ncols)
    (h : ∀ i, i < A.nrows → A.row i = B.row i) : A = B := by
  apply ext_get hA hB hr hc
  intro i j hi _
  unfold get; rw [h i hi]

theorem eqM_iff {A B : BMat} (hA : A.WF) (hB : B.WF) : A.eqM B = true ↔ A = B := by
  unfold eqM
  rw [decide_eq_true_iff]
  constructor
  · rintro ⟨hr, hc, h⟩
    apply eq_of_rows hA hB hr hc
    intro i hi
    have := List.all_eq_true.mp h i (List.mem_range.mpr hi)
    rw [decide_eq_true_iff, row_mod hA, row_mod hB] at this
    exact this
  · intro h; subst h
    exact ⟨rfl, rfl, List.all_eq_true.mpr fun i _ => decide_eq_true rfl⟩

/-- **uniqueness of the reduced row echelon form, row by row** (the two matrices may even have different
    numbers of rows: the surplus rows are zero, and `row` reads `0` beyond the matrix) -/
theorem rref_rows_unique {R R' : BMat} (hR : R.WF) (hR' : R'.WF) (h1 : R.isRREF = true)
    (h2 : R'.isRREF = true) (hs : SameSpan R R') (i : Nat) : R.row i = R'.row i := by
  have := rrefList_unique _ _ ((isRREF_iff hR).mp h1) ((isRREF_iff hR').mp h2) hs i
  rwa [getD_rowList hR, getD_rowList hR'] at this

/-- **uniqueness of the reduced row echelon form**: two well-formed RREF matrices of the same shape with the
    same row space are equal -/
theorem rref_unique {R R' : BMat} (hR : R.WF) (hR' : R'.WF) (hr : R.nrows = R'.nrows)
    (hc : R.ncols = R'.ncols) (h1 : R.isRREF = true) (h2 : R'.isRREF = true) (hs : SameSpan R R') :
    R = R' :=
  eq_of_rows hR hR' hr hc fun i _ => rref_rows_unique hR hR' h1 h2 hs i

theorem rref_unique_eqM {R R' : BMat} (hR : R.WF) (hR' : R'.WF) (hr : R.nrows = R'.nrows)
    (hc : R.ncols = R'.ncols) (h1 : R.isRREF = true) (h2 : R'.isRREF = true) (hs : SameSpan R R') :
    R.eqM R' = true :=
  (eqM_iff hR hR').mpr (rref_unique hR hR' hr hc h1 h2 hs)

/-! ### `rref` and `rank` -/

theorem rref_WF {A : BMat} (hA : A.WF) : A.rref.WF := gauss_WF hA true
theorem rref_nrows {A : BMat} (hA : A.WF) : A.rref.nrows = A.nrows := gauss_nrows hA true
theorem rref_ncols {A : BMat} (hA : A.WF) : A.rref.ncols = A.ncols := gauss_ncols hA true
theorem rref_sameSpan {A : BMat} (hA : A.WF) : SameSpan A A.rref := gauss_sameSpan hA true
theorem rref_isRREF {A : BMat} (hA : A.WF) : A.rref.isRREF = true := gauss_isRREF hA
theorem rref_row_eq_zero {A : BMat} (hA : A.WF) (k : Nat) (hk : A.rank ≤ k) : A.rref.row k = 0 :=
  gauss_row_eq_zero hA true k hk
theorem rref_row_ne_zero {A : BMat} (hA : A.WF) (k : Nat) (hk : k < A.rank) : A.rref.row k ≠ 0 :=
  gauss_row_ne_zero hA true k hk
theorem rank_le_nrows {A : BMat} (hA : A.WF) : A.rank ≤ A.nrows := gauss_rank_le_nrows hA true
theorem rank_le_ncols {A : BMat} (hA : A.WF) : A.rank ≤ A.ncols := gauss_rank_le_ncols hA true

/-- **`rref A` is THE reduced row echelon form of the row space of `A`** -/
theorem eq_rref_of_isRREF {A R : BMat} (hA : A.WF) (hR : R.WF) (hr : R.nrows = A.nrows)
    (hc : R.ncols = A.ncols) (h : R.isRREF = true) (hs : SameSpan A R) : R = A.rref :=
  rref_unique hR (rref_WF hA) (hr.trans (rref_nrows hA).symm) (hc.trans (rref_ncols hA).symm) h
    (rref_isRREF hA) (hs.symm.trans (rref_sameSpan hA))

/-- the RREF depends only on the row space (row by row; the numbers of rows may differ) -/
theorem rref_row_congr {A B : BMat} (hA : A.WF) (hB : B.WF) (hs : SameSpan A B) (i : Nat) :
    A.rref.row i = B.rref.row i :=
  rref_rows_unique (rref_WF hA) (rref_WF hB) (rref_isRREF hA) (rref_isRREF hB)
    ((rref_sameSpan hA).symm.trans (hs.trans (rref_sameSpan hB))) i

/-- **the rank (number of pivots found by the naive routine) depends only on the row space** -/
theorem rank_congr {A B : BMat} (hA : A.WF) (hB : B.WF) (hs : SameSpan A B) : A.rank = B.rank := by
  rcases Nat.lt_trichotomy A.rank B.rank with h | h | h
  · exfalso
    apply rref_row_ne_zero hB A.rank h
    rw [← rref_row_congr hA hB hs]
    exact rref_row_eq_zero hA _ (Nat.le_refl _)
  · exact h
  · exfalso
    apply rref_row_ne_zero hA B.rank h
    rw [rref_row_congr hA hB hs]
    exact rref_row_eq_zero hB _ (Nat.le_refl _)

/-- matrices whose rows agree (reading `0` beyond the matrix) have the same row space -/
theorem sameSpan_of_row_eq {A B : BMat} (hA : A.WF) (hB : B.WF) (h : ∀ i, A.row i = B.row i) :
    SameSpan A B := by
  apply sameSpan_of_rows
  · intro i _
    by_cases hi : i < B.nrows
    · rw [h]; exact row_inSpan B i hi
    · rw [h, row_of_ge _ _ (by rw [hB.1]; omega)]; exact InSpan.zero
  · intro i _
    by_cases hi : i < A.nrows
    · rw [← h]; exact row_inSpan A i hi
    · rw [← h, row_of_ge _ _ (by rw [hA.1]; omega)]; exact InSpan.zero

/-- **`sameRowSpace` decides equality of row spaces** (matrices of the same width; the numbers of rows
    may differ) -/
theorem sameRowSpace_iff {A B : BMat} (hA : A.WF) (hB : B.WF) (hc : A.ncols = B.ncols) :
    sameRowSpace A B = true ↔ SameSpan A B := by
  have mA : ∀ i, A.rref.row i % 2 ^ A.ncols = A.rref.row i := by
    intro i; have := row_mod (rref_WF hA) i; rwa [rref_ncols hA] at this
  have mB : ∀ i, B.rref.row i % 2 ^ B.ncols = B.rref.row i := by
    intro i; have := row_mod (rref_WF hB) i; rwa [rref_ncols hB] at this
  unfold sameRowSpace
  simp only [Bool.and_eq_true, decide_eq_true_iff, mA, mB, List.all_eq_true, List.mem_range]
  constructor
  · rintro ⟨_, h⟩
    have hrow : ∀ i, A.rref.row i = B.rref.row i := by
      intro i
      by_cases hi : i < max A.nrows B.nrows
      · exact h i hi
      · rw [row_of_ge _ _ (by rw [(rref_WF hA).1, rref_nrows hA]; omega),
          row_of_ge _ _ (by rw [(rref_WF hB).1, rref_nrows hB]; omega)]
    exact (rref_sameSpan hA).trans ((sameSpan_of_row_eq (rref_WF hA) (rref_WF hB) hrow).trans
      (rref_sameSpan hB).symm)
  · intro hs
    exact ⟨hc, fun i _ => rref_row_congr hA hB hs i⟩


/-! ### the number of non-zero rows of any row echelon form is determined by the span -/

theorem countP_zero_of_all_zero {l : List Nat} (hl : ∀ x, x ∈ l → x = 0) :
    l.countP (fun v => v != 0) = 0 := by
  rw [List.countP_eq_zero]
  intro x hx
  simp [hl x hx]

theorem echList_count_unique : ∀ (l l' : List Nat), EchList l → EchList l' →
    (∀ v, InSpan l v ↔ InSpan l' v) → l.countP (fun v => v != 0) = l'.countP (fun v => v != 0) := by
  intro l
  induction l with
  | nil =>
    intro l' _ _ hs
    have : ∀ x, x ∈ l' → x = 0 :=
      all_zero_of_span fun v hv => InSpan.nil_iff.mp ((hs v).mpr hv)
    rw [countP_zero_of_all_zero this]; rfl
  | cons r rs ih =>
    intro l' hR hR' hs
    cases l' with
    | nil =>
      have : ∀ x, x ∈ r :: rs → x = 0 :=
        all_zero_of_span fun v hv => InSpan.nil_iff.mp ((hs v).mp hv)
      rw [countP_zero_of_all_zero this]; rfl
    | cons r' rs' =>
      unfold EchList at hR hR'
      rw [List.pairwise_cons] at hR hR'
      by_cases hr : r = 0
      · have hl : ∀ x, x ∈ r :: rs → x = 0 := by
          intro x hx
          rcases List.mem_cons.mp hx with rfl | hx
          · exact hr
          · exact (hR.1 x hx).1 hr
        have hl' : ∀ x, x ∈ r' :: rs' → x = 0 :=
          all_zero_of_span fun v hv => inSpan_zero_rows hl ((hs v).mpr hv)
        rw [countP_zero_of_all_zero hl, countP_zero_of_all_zero hl']
      · by_cases hr' : r' = 0
        · have hl' : ∀ x, x ∈ r' :: rs' → x = 0 := by
            intro x hx
            rcases List.mem_cons.mp hx with rfl | hx
            · exact hr'
            · exact (hR'.1 x hx).1 hr'
          have hl : ∀ x, x ∈ r :: rs → x = 0 :=
            all_zero_of_span fun v hv => inSpan_zero_rows hl' ((hs v).mp hv)
          rw [countP_zero_of_all_zero hl, countP_zero_of_all_zero hl']
        · obtain ⟨p, hp⟩ := exists_isLead' hr
          obtain ⟨p', hp'⟩ := exists_isLead' hr'
          have hrin : InSpan (r' :: rs') r := (hs r).mp (InSpan.of_mem (by simp))
          have hrin' : InSpan (r :: rs) r' := (hs r').mpr (InSpan.of_mem (by simp))
          have e1 : p' ≤ p := lead_le_of_span hR'.1 hp' hrin hp
          have e2 : p ≤ p' := lead_le_of_span hR.1 hp hrin' hp'
          have e : p' = p := Nat.le_antisymm e1 e2
          subst e
          have hz : ∀ x, x ∈ rs → x.testBit p' = false :=
            fun x hx => (hR.1 x hx).2 p' hp p' (Nat.le_refl _)
          have hz' : ∀ x, x ∈ rs' → x.testBit p' = false :=
            fun x hx => (hR'.1 x hx).2 p' hp' p' (Nat.le_refl _)
          have hs' : ∀ v, InSpan rs v ↔ InSpan rs' v := fun v =>
            ⟨tail_span_le hz hp'.1 hz' (fun v => (hs v).mp), tail_span_le hz' hp.1 hz (fun v => (hs v).mpr)⟩
          have iht := ih rs' hR.2 hR'.2 hs'
          rw [List.countP_cons, List.countP_cons, iht]
          simp [hr, hr']

theorem echList_of_rrefList {l : List Nat} (h : RREFList l) : EchList l :=
  List.Pairwise.imp (fun h => h.1) h

/-- **the number of non-zero rows of any row echelon form with the row space of `A` is `rank A`** -/
theorem count_eq_rank_of_isRowEchelon {A R : BMat} (hA : A.WF) (hR : R.WF) (h : R.isRowEchelon = true)
    (hs : SameSpan A R) : R.rowList.countP (fun v => v != 0) = A.rank := by
  have := echList_count_unique _ _ ((isRowEchelon_iff hR).mp h)
    (echList_of_rrefList ((isRREF_iff (rref_WF hA)).mp (rref_isRREF hA)))
    (hs.symm.trans (rref_sameSpan hA))
  rw [this]
  exact gauss_rank_eq_count hA true

/-- the value returned by the naive routine does not depend on `full` -/
theorem gauss_rank_eq_rank {A : BMat} (hA : A.WF) (full : Bool) : (gaussDelayed A 0 full).2 = A.rank := by
  rw [← gauss_rank_eq_count hA full]
  exact count_eq_rank_of_isRowEchelon hA (gauss_WF hA full) (gauss_isRowEchelon hA full)
    (gauss_sameSpan hA full)

/-! ## §5 the checker `checkEchelon` -/

/-- **soundness of `checkEchelon`**: if the checker accepts `(R, r)` for the input `A` then `R` has the shape
    of `A`, `r` is the rank of `A` and the number of non-zero rows of `R`, the row spaces agree, `R` is in row
    echelon form, the rows from `r` on are zero, and with `full` the matrix `R` is the unique reduced row
    echelon form of the row space of `A`. -/
theorem checkEchelon_sound {A R : BMat} (hA : A.WF) (hR : R.WF) (r : Nat) (full : Bool)
    (h : checkEchelon A R r full = true) :
    R.nrows = A.nrows ∧ R.ncols = A.ncols ∧ r = A.rank ∧ SameSpan A R ∧ R.isRowEchelon = true ∧
    R.rowList.countP (fun v => v != 0) = r ∧
    (∀ i, r ≤ i → R.row i = 0) ∧
    (full = true → R.isRREF = true ∧ R = A.rref ∧
      ∀ R' : BMat, R'.WF → R'.nrows = A.nrows → R'.ncols = A.ncols → R'.isRREF = true → SameSpan A R' →
        R' = R) := by
  unfold checkEchelon at h
  simp only [Bool.and_eq_true, decide_eq_true_iff, beq_iff_eq, List.all_eq_true] at h
  obtain ⟨⟨⟨⟨hr, hc⟩, hrank⟩, hmid⟩, hz⟩ := h
  have hzero : ∀ i, r ≤ i → R.row i = 0 := by
    intro i hi
    by_cases hin : i < A.nrows
    · have := hz i (List.mem_range'_1.mpr ⟨hi, by omega⟩)
      rw [← hc, row_mod hR] at this
      exact this
    · exact row_of_ge _ _ (by rw [hR.1, hr]; omega)
  cases full with
  | true =>
    simp only [if_true] at hmid
    have e : R = A.rref := (eqM_iff hR (rref_WF hA)).mp hmid
    have hrr : R.isRREF = true := by rw [e]; exact rref_isRREF hA
    have hsp : SameSpan A R := by rw [e]; exact rref_sameSpan hA
    have hech := isRowEchelon_of_isRREF hrr
    refine ⟨hr, hc, hrank, hsp, hech, ?_, hzero, fun _ => ⟨hrr, e, ?_⟩⟩
    · rw [hrank]; exact count_eq_rank_of_isRowEchelon hA hR hech hsp
    · intro R' hR' hr' hc' h' hs'
      rw [e]; exact eq_rref_of_isRREF hA hR' hr' hc' h' hs'
  | false =>
    simp only [Bool.false_eq_true, if_false, Bool.and_eq_true] at hmid
    have hsp : SameSpan A R := (sameRowSpace_iff hA hR hc.symm).mp hmid.2
    refine ⟨hr, hc, hrank, hsp, hmid.1, ?_, hzero, fun hf => by cases hf⟩
    rw [hrank]; exact count_eq_rank_of_isRowEchelon hA hR hmid.1 hsp

/-- **completeness of `checkEchelon`** for what the naive routine itself produces (either value of `full`);
    in particular `checkEchelon A (rref A) (rank A) true = true` -/
theorem checkEchelon_gauss {A : BMat} (hA : A.WF) (full : Bool) :
    checkEchelon A (gaussDelayed A 0 full).1 (gaussDelayed A 0 full).2 full = true := by
  unfold checkEchelon
  simp only [Bool.and_eq_true, decide_eq_true_iff, beq_iff_eq, List.all_eq_true]
  refine ⟨⟨⟨⟨gauss_nrows hA full, gauss_ncols hA full⟩, gauss_rank_eq_rank hA full⟩, ?_⟩, ?_⟩
  · cases full with
    | true =>
      simp only [if_true]
      exact (eqM_iff (rref_WF hA) (rref_WF hA)).mpr rfl
    | false =>
      simp only [Bool.false_eq_true, if_false, Bool.and_eq_true]
      exact ⟨gauss_isRowEchelon hA false,
        (sameRowSpace_iff hA (gauss_WF hA false) (gauss_ncols hA false).symm).mpr (gauss_sameSpan hA false)⟩
  · intro i hi
    rw [gauss_row_eq_zero hA full i (List.mem_range'_1.mp hi).1]
    exact Nat.zero_mod _

theorem checkEchelon_rref {A : BMat} (hA : A.WF) : checkEchelon A A.rref A.rank true = true :=
  checkEchelon_gauss hA true

/-- non-vacuity of `checkEchelon_sound`, and a rejected wrong answer -/
example : checkEchelon ⟨3, 4, #[6, 3, 5]⟩ ⟨3, 4, #[5, 6, 0]⟩ 2 true = true := by decide
example : checkEchelon ⟨3, 4, #[6, 3, 5]⟩ ⟨3, 4, #[3, 6, 0]⟩ 2 false = true := by decide
example : checkEchelon ⟨3, 4, #[6, 3, 5]⟩ ⟨3, 4, #[3, 6, 0]⟩ 2 true = false := by decide
example : checkEchelon ⟨3, 4, #[6, 3, 5]⟩ ⟨3, 4, #[3, 4, 0]⟩ 2 false = false := by decide


/-! ### pivot columns are determined by the span -/

/-- in an echelon list every non-zero element of the span has its leading one in a pivot column -/
theorem lead_mem_of_span {l : List Nat} (hE : EchList l) {v c : Nat} (hv : InSpan l v) (hc : IsLead v c) :
    ∃ x, x ∈ l ∧ IsLead x c := by
  induction l generalizing v with
  | nil => rw [InSpan.nil_iff.mp hv] at hc; exact absurd hc (not_isLead_zero c)
  | cons r rs ih =>
    unfold EchList at hE
    rw [List.pairwise_cons] at hE
    have lift : (∃ x, x ∈ rs ∧ IsLead x c) → ∃ x, x ∈ r :: rs ∧ IsLead x c :=
      fun ⟨x, hx, h⟩ => ⟨x, List.mem_cons_of_mem _ hx, h⟩
    rcases InSpan.cons_iff.mp hv with h | h
    · exact lift (ih hE.2 h hc)
    · by_cases hr : r = 0
      · subst hr; rw [Nat.xor_zero] at h; exact lift (ih hE.2 h hc)
      · obtain ⟨p, hp⟩ := exists_isLead' hr
        have hw : ∀ j, j ≤ p → (v ^^^ r).testBit j = false := fun j hj =>
          InSpan.testBit_false (fun x hx => (hE.1 x hx).2 p hp j hj) h
        have hvp : IsLead v p := by
          constructor
          · have := hw p (Nat.le_refl _)
            rw [Nat.testBit_xor, hp.1] at this
            simpa using this
          · intro j hj
            have := hw j (Nat.le_of_lt hj)
            rw [Nat.testBit_xor, hp.2 j hj] at this
            simpa using this
        have := hvp.unique hc
        subst this
        exact ⟨r, by simp, hp⟩

/-- **column `c` is a pivot column of a row echelon form `R` iff some element of the row space has its lowest
    set bit at `c`** — so the pivot columns (the rank profile) depend only on the row space -/
theorem pivot_col_iff {R : BMat} (hR : R.WF) (h : R.isRowEchelon = true) (c : Nat) :
    (∃ i, i < R.nrows ∧ IsLead (R.row i) c) ↔ ∃ v, InSpan R.rowList v ∧ IsLead v c := by
  constructor
  · rintro ⟨i, hi, hl⟩
    exact ⟨_, row_inSpan R i hi, hl⟩
  · rintro ⟨v, hv, hl⟩
    obtain ⟨x, hx, hxl⟩ := lead_mem_of_span ((isRowEchelon_iff hR).mp h) hv hl
    obtain ⟨i, hi, rfl⟩ := mem_rowList.mp hx
    exact ⟨i, hi, hxl⟩

/-! ### non-vacuity and corner shapes -/

example : (⟨0, 0, #[]⟩ : BMat).WF := ⟨rfl, fun i => by simp [row]⟩
example : (⟨0, 5, #[]⟩ : BMat).WF := ⟨rfl, fun i => by simp [row]⟩
example : (⟨2, 0, #[0, 0]⟩ : BMat).WF := ⟨rfl, fun i => by
  unfold row; simp only [Array.getD_eq_getD_getElem?]; rcases i with _ | _ | i <;> simp⟩
example : (gaussDelayed ⟨0, 0, #[]⟩ 0 true).2 = 0 ∧ (gaussDelayed ⟨0, 5, #[]⟩ 0 true).2 = 0 ∧
    (gaussDelayed ⟨2, 0, #[0, 0]⟩ 0 false).2 = 0 := by decide
example : checkEchelon ⟨0, 0, #[]⟩ (rref ⟨0, 0, #[]⟩) 0 true = true ∧
    checkEchelon ⟨2, 0, #[0, 0]⟩ (rref ⟨2, 0, #[0, 0]⟩) 0 true = true := by decide
/-- the hypotheses of `rref_unique` are satisfiable -/
example : (⟨3, 4, #[5, 6, 0]⟩ : BMat).isRREF = true ∧ (⟨3, 4, #[3, 6, 0]⟩ : BMat).isRREF = false ∧
    (⟨3, 4, #[3, 6, 0]⟩ : BMat).isRowEchelon = true ∧
    sameRowSpace ⟨3, 4, #[3, 6, 0]⟩ ⟨3, 4, #[5, 6, 0]⟩ = true := by decide
/-- `sameRowSpace` compares matrices with different numbers of rows -/
example : sameRowSpace ⟨3, 4, #[6, 3, 5]⟩ ⟨2, 4, #[3, 6]⟩ = true ∧
    sameRowSpace ⟨3, 4, #[6, 3, 5]⟩ ⟨2, 4, #[3, 7]⟩ = false := by decide

end BMat
end M4ri
