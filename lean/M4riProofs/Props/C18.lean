/-
  C18 — file I/O (PARTIAL: libpng and fscanf are modelled as assumptions). Model: lean/M4ri/Io.lean mirrors the byte/bit
  packing loops of mzd_to_png / mzd_from_png (whole words, the `(ncols/8 + (ncols%8?1:0)) % 8` fall-through tail switch,
  the inversion, the final mask), with libpng's PACKSWAP / INVERT_MONO transforms and its row-combine as explicit pure
  functions; the token-level JCF reader with a CHECKED store; the string constructor.
  Proved for every `ncols ≥ 1`, every row: pack → write transforms → read transforms → unpack is the identity;
  whole-matrix round trip; the reader never indexes its row buffer beyond what libpng delivered; every accepted PNG
  header has `rowbytes ≤ buffer size`; the JCF reader NEVER writes out of bounds whatever the token list (it answers
  ok / die / NULL), and on well-formed text builds exactly the denoted matrix; `mzd_from_str` entry-wise.
  Implementation only: real files through libpng (round trips for every column class, compression levels, comments;
  every bit depth × colour type; truncations and byte corruptions; every single-token JCF corruption) under ASan/UBSan.
-/
import M4riProofs.Io
import M4riProofs.GenTieIo
namespace M4ri.Props.C18
open M4ri M4ri.Io

theorem png_row_roundtrip (ncols row : Nat) (hn : 1 ≤ ncols) (hr : row < 2 ^ ncols) :
    pngUnpackRow (readTransforms (writeTransforms (pngPackRow row ncols))) ncols = row :=
  png_roundtrip ncols hn row hr

theorem jcf_never_writes_out_of_bounds (toks : List Int) : NoOob (jcfRun toks) := jcf_safe_full toks

theorem png_accepted_header_fits_buffer (h : PngHdr) (ha : pngAccept h = true) : pngRowbytes h ≤ pngRowBuf h :=
  png_read_safe_full h ha

#check @M4ri.Io.png_matrix_roundtrip
#check @M4ri.Io.png_roundtrip_read_row
#check @M4ri.Io.png_reads_in_bounds
#check @M4ri.Io.png_writes_in_bounds
#check @M4ri.Io.png_reject_of_not_1bpp
#check @M4ri.Io.jcf_spec
#check @M4ri.Io.jcf_safe_full_cases
#check @M4ri.Io.jcf_die_of_nonneg_head
#check @M4ri.Io.jcfLoop_die_of_zero
#check @M4ri.Io.fromStr_spec
#check @M4ri.Io.fromStr_shape


/-! ### tie to the C text: `mzd_from_str` (fresh matrix, `mzd_write_bit` per character) = the model `fromStr` for every string, signed or unsigned
    `char`; `mzd_set_ui` for every value (GenTieIo.lean) -/
#check @M4ri.GenTieIo.mzdFromStr_eq
#check @M4ri.GenTieIo.mzdFromStr_eq_string
#check @M4ri.GenTieIo.mzdFromStr_eq_signed
#check @M4ri.GenTieIo.mzdSetUi_eq

end M4ri.Props.C18
