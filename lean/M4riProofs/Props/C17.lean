/-
  C17 — Observers agree with the abstract matrix. All statements hold for views with ARBITRARY excess
  bits (no padding assumption), for every shape with at least one column.
-/
import M4riProofs.W.Observers
import M4riProofs.W.RowCol
import M4riProofs.GenTieMem
namespace M4ri.Props.C17
open M4ri M4ri.Mzd

theorem equal_spec (A B : Mzd) (hc : 0 < A.ncols) :
    A.equal B = true ↔ A.nrows = B.nrows ∧ A.ncols = B.ncols ∧
      ∀ i, i < A.nrows → ∀ j, j < A.ncols → A.bit i j = B.bit i j := equal_iff A B hc

theorem cmp_zero_iff_equal (A B : Mzd) (hc : 0 < A.ncols) (hr : A.nrows = B.nrows) (hcols : A.ncols = B.ncols) :
    A.cmp B = 0 ↔ A.equal B = true := cmp_eq_zero_iff A B hc hr hcols

theorem cmp_antisymmetric (A B : Mzd) (hc : 0 < A.ncols) (hr : A.nrows = B.nrows) (hcols : A.ncols = B.ncols) :
    A.cmp B = - B.cmp A := cmp_antisymm A B hc hr hcols

theorem cmp_transitive (A B C : Mzd) (hc : 0 < A.ncols) (hAB : A.nrows = B.nrows) (hAB' : A.ncols = B.ncols)
    (hBC : B.nrows = C.nrows) (hBC' : B.ncols = C.ncols) (h1 : A.cmp B ≤ 0) (h2 : B.cmp C ≤ 0) :
    A.cmp C ≤ 0 := cmp_trans_le A B C hc hAB hAB' hBC hBC' h1 h2

theorem cmp_transitive_strict (A B C : Mzd) (hc : 0 < A.ncols) (hAB : A.nrows = B.nrows) (hAB' : A.ncols = B.ncols)
    (hBC : B.nrows = C.nrows) (hBC' : B.ncols = C.ncols) (h1 : A.cmp B < 0) (h2 : B.cmp C < 0) :
    A.cmp C < 0 := cmp_trans_lt A B C hc hAB hAB' hBC hBC' h1 h2

theorem is_zero_spec (A : Mzd) (hc : 0 < A.ncols) :
    A.isZero = true ↔ ∀ i, i < A.nrows → ∀ j, j < A.ncols → A.bit i j = false := isZero_iff A hc

/-- pivot search fails exactly on a zero region -/
theorem find_pivot_none (A : Mzd) (sr sc : Nat) :
    A.findPivot sr sc = none ↔ ∀ i, sr ≤ i → i < A.nrows → ∀ j, sc ≤ j → j < A.ncols → A.bit i j = false :=
  findPivot_eq_none_iff A sr sc

/-- otherwise it reports a one in the left-most non-zero column of the region -/
theorem find_pivot_some (A : Mzd) (sr sc r c : Nat) (h : A.findPivot sr sc = some (r, c)) :
    sr ≤ r ∧ r < A.nrows ∧ sc ≤ c ∧ c < A.ncols ∧ A.bit r c = true ∧
      (∀ i j, sr ≤ i → i < A.nrows → sc ≤ j → j < c → A.bit i j = false) ∧
      (∀ i, sr ≤ i → i < r → A.bit i c = false) := findPivot_eq_some A sr sc r c h

/-- the zero-row query returns the index one past the last non-zero row -/
theorem first_zero_row_spec (A : Mzd) (hc : 0 < A.ncols) (r : Nat) :
    A.firstZeroRow = r ↔ r ≤ A.nrows ∧
      (∀ i, r ≤ i → i < A.nrows → ∀ j, j < A.ncols → A.bit i j = false) ∧
      (r = 0 ∨ ∃ j, j < A.ncols ∧ A.bit (r - 1) j = true) := firstZeroRow_eq_iff A hc r

/-- reading an entry returns what was last written there -/
theorem read_after_write (M : Mzd) (r c : Nat) (v : Bool) (h : M.WF) (hr : r < M.nrows) (hc : c < M.ncols) :
    (M.writeBit r c v).readBit r c = v := readBit_writeBit M r c v h hr hc

/-- and writing changes exactly that entry -/
theorem write_bit_frame (M : Mzd) (r c : Nat) (v : Bool) (h : M.WF) (hr : r < M.nrows) (hc : c < M.ncols)
    (i j : Nat) : (M.writeBit r c v).bit i j = if i = r ∧ j = c then v else M.bit i j :=
  writeBit_bit M r c v h hr hc i j

example : 0 < exM.ncols := by decide


/-! ### tie to the C text (word-level kernels on the memory model): the functions `Gen.C.mzd…` are GENERATED from
    /repo/m4ri by vlib/ctrans.py (clang AST) on every check; a matrix is its memory image `memOf M : row → word → BitVec 64`.
    Each theorem: the generated C function run on the image of a well-formed model matrix = the image of the model
    function's result (hence also: no cell outside the addressed words changes) -/
#check @M4ri.GenTieMem.mzdIsZero_eq
#check @M4ri.GenTieMem.mzdEqual_eq
#check @M4ri.GenTieMem.mzdEqual_eq_same
#check @M4ri.GenTieMem.mzdCmp_eq
#check @M4ri.GenTieMem.mzdFirstZeroRow_eq
#check @M4ri.GenTieMem.mzdReadBit_eq
#check @M4ri.GenTieMem.mzdReadBits_eq

end M4ri.Props.C17
