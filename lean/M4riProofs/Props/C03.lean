/-
  C03 — PLE / PLUQ. Proved: the exact mirrors of the naive routines are compared bit for bit; every output of
  `mzd_ple`, `mzd_pluq`, `_mzd_ple_russian`, `_mzd_pluq_russian`, naive variants (all cut-offs, all k, junk-filled
  P and Q on entry) is judged by `checkPLE` / `checkPLUQ`, whose soundness is the theorem below: acceptance implies
  LAPACK-form permutations, unit/trapezoidal factor shapes, zero storage outside L and U/E, strictly increasing
  pivot columns (PLE), and P·L·U·Q = A resp. P·L·E = A in the library's own convention; and r is THE rank
  (`RankCert` is unique) and the pivots are the column rank profile (relative to `GaussOK`, discharged in
  M4riProofs/GaussOK.lean when present). The block-iterative / block-recursive algorithms themselves are not
  mirrored step by step (`…_partial`: per-input certification by a proven-sound checker).
-/
import M4riProofs.Checkers
import M4riProofs.GaussOK
namespace M4ri.Props.C03
open M4ri M4ri.BMat

theorem pluq_checker_sound_partial {A S : BMat} {P Q : Array Nat} {r : Nat} (h : checkPLUQ A S P Q r = true) :
    IsPLUQ A S P Q r := checkPLUQ_sound h

theorem ple_checker_sound_partial {A S : BMat} {P Q : Array Nat} {r : Nat} (h : checkPLE A S P Q r = true) :
    IsPLE A S P Q r := checkPLE_sound h

/-- an accepted factorisation certifies the rank -/
theorem pluq_reveals_rank {A S : BMat} {P Q : Array Nat} {r : Nat} (h : IsPLUQ A S P Q r) (hA : A.WF) :
    RankCert A r := IsPLUQ.rankCert h hA

-- and the certified rank is unique
#check @M4ri.BMat.RankCert_unique
#check @M4ri.BMat.IsPLE.rankCert
#check @M4ri.BMat.IsPLUQ.reconstruct
#check @M4ri.BMat.applyP_eq_perm

/-- pivot columns = column rank profile (relative to the Gauss facts) -/
theorem ple_rank_profile_partial {A S : BMat} {P Q : Array Nat} {r : Nat} (hA : A.WF)
    (h : checkPLE A S P Q r = true) (hg : GaussOK A) :
    r = A.rank ∧ (List.range r).map (fun i => Q.getD i 0) = A.rankProfile := checkPLE_profile hA h hg

/-- unconditional: an accepted PLE output has r = rank(A) and Q[0..r) = column rank profile of A -/
theorem ple_rank_and_profile {A S : BMat} {P Q : Array Nat} {r : Nat} (hA : A.WF) (h : checkPLE A S P Q r = true) :
    r = A.rank ∧ (List.range r).map (fun i => Q.getD i 0) = A.rankProfile := GOK.ple_rank_profile hA h

theorem pluq_rank {A S : BMat} {P Q : Array Nat} {r : Nat} (hA : A.WF) (h : checkPLUQ A S P Q r = true) :
    r = A.rank := GOK.pluq_rank hA h

end M4ri.Props.C03
