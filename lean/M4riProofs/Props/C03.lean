/-
  C03 — PLE / PLUQ. Proved: the exact mirrors of the naive routines are compared bit for bit; every output of
  `mzd_ple`, `mzd_pluq`, `_mzd_ple_russian`, `_mzd_pluq_russian`, naive variants (all cut-offs, all k, junk-filled
  P and Q on entry) is judged by `checkPLE` / `checkPLUQ`, whose soundness is the theorem below: acceptance implies
  LAPACK-form permutations, unit/trapezoidal factor shapes, zero storage outside L and U/E, strictly increasing
  pivot columns (PLE), and P·L·U·Q = A resp. P·L·E = A in the library's own convention; and r is THE rank
  (`RankCert` is unique) and the pivots are the column rank profile (relative to `GaussOK`, discharged in
  M4riProofs/GaussOK.lean when present). The block-iterative / block-recursive algorithms themselves are not
  mirrored step by step (`…_partial`: per-input certification by a proven-sound checker).
  Added (M4riProofs/PleNaive.lean): universal theorems for the naive routines — for EVERY matrix and EVERY initial
  content of P and Q, `_mzd_ple_naive` / `_mzd_pluq_naive` return a valid factorisation (`pleNaive_good`,
  `pluqNaive_good`), independent of the initial P, Q (`…_indep`), with r = rank and the pivots = column rank profile;
  the checkers are COMPLETE as well as sound (`checkPLE_iff`, `checkPLUQ_iff`); and the block-recursive `_mzd_ple`
  mirror (`Rec.pleRec`) over the naive base case is a valid PLE for every input (`pleRec_naive_good`). In Mathlib's
  terms (`ML.checkPLUQ_mathlib`, `ML.checkPLE_mathlib`): A = p.permMatrix * (L * U) * q.permMatrix with L unit lower
  trapezoidal, U unit upper / E echelon with strictly increasing pivots, rank = r.
  END TO END (M4riProofs/Top.lean, PB27) — nothing of C03 is per-input certification any more. The block-iterative
  Four-Russians base case `_mzd_ple_russian` is mirrored step by step (`PR.pleRussian`, M4ri/PleRussian.lean) and proved
  equal to `_mzd_ple_naive` on every input (`PR.pleRussian_eq_pleNaive`); `mzd_ple` = `_mzd_ple` is `PR.pleTop L1 L2 L3`
  (the block recursion `Rec.pleRec` over that base case with the real regime parameters), `mzd_pluq` = `_mzd_pluq` is
  `PR.pluqTop L1 L2 L3`. For EVERY cache triple (no hypothesis on it) and every well-formed `A`:
    `Top.pleTop_c03`    `mzd_ple`: well-formed storage, `IsPLE` (valid factorisation in the library's convention), accepted by
                        `checkPLE`, `P` and `Q` in LAPACK form on their whole length, `P` fixes the rows from the rank on,
                        `r = rank A`, `Q[0..r)` = column rank profile
    `Top.pluqTop_c03`   `mzd_pluq`: well-formed storage, `IsPLUQ` and the rank-profile form `IsProfilePLUQ`, accepted by
                        `checkPLUQ`, same `P`, `Q`, `r` as `mzd_ple`, LAPACK form, `r = rank A`, `Q[0..r)` = rank profile
    `Top.pluqTop_eq`    the two mirrors of `_mzd_pluq` (`PR.pluqTop`, `G2.pluqOfPle`) agree on every well-formed input
    `Top.pluqTop_mathlib`, `Top.pleTop_mathlib`, `Top.pluqTop_mat`   the Mathlib forms (A = p·(L·U)·q, rank = r)
  `_mzd_pluq_russian`: `PR.pluqRussian_isPLUQ`, `PR.checkPLUQ_pluqRussian`, `PR.pluqRussian_rank`. The checkers remain in the
  correspondence runs as a tie between the mirrors and the C code, no longer as the source of the guarantee.
-/
import M4riProofs.Checkers
import M4riProofs.GaussOK
import M4riProofs.PleNaive
import M4riProofs.MathlibSpec
import M4riProofs.TrsmRec
import M4riProofs.Top
import M4riProofs.GenTie
import M4riProofs.GenTieAlg
import M4riProofs.GenTieSlice
import M4riProofs.GenTiePleFinal
import M4riProofs.GenTieGlue
import M4riProofs.GenTieClose2
import M4riProofs.GenTieClose4
import M4riProofs.GenTieTop
import M4riProofs.GenTieTriFinal
import M4riProofs.GenTieTop2Final
import M4riProofs.GenTieClose6
import M4riProofs.GenTieMax
import M4riProofs.GenTieCompressPle
namespace M4ri.Props.C03
open M4ri M4ri.BMat

theorem pluq_checker_sound_partial {A S : BMat} {P Q : Array Nat} {r : Nat} (h : checkPLUQ A S P Q r = true) :
    IsPLUQ A S P Q r := checkPLUQ_sound h

theorem ple_checker_sound_partial {A S : BMat} {P Q : Array Nat} {r : Nat} (h : checkPLE A S P Q r = true) :
    IsPLE A S P Q r := checkPLE_sound h

/-- an accepted factorisation certifies the rank -/
theorem pluq_reveals_rank {A S : BMat} {P Q : Array Nat} {r : Nat} (h : IsPLUQ A S P Q r) (hA : A.WF) :
    RankCert A r := IsPLUQ.rankCert h hA

-- and the certified rank is unique
#check @M4ri.BMat.RankCert_unique
#check @M4ri.BMat.IsPLE.rankCert
#check @M4ri.BMat.IsPLUQ.reconstruct
#check @M4ri.BMat.applyP_eq_perm

/-- pivot columns = column rank profile (relative to the Gauss facts) -/
theorem ple_rank_profile_partial {A S : BMat} {P Q : Array Nat} {r : Nat} (hA : A.WF)
    (h : checkPLE A S P Q r = true) (hg : GaussOK A) :
    r = A.rank ∧ (List.range r).map (fun i => Q.getD i 0) = A.rankProfile := checkPLE_profile hA h hg

/-- unconditional: an accepted PLE output has r = rank(A) and Q[0..r) = column rank profile of A -/
theorem ple_rank_and_profile {A S : BMat} {P Q : Array Nat} {r : Nat} (hA : A.WF) (h : checkPLE A S P Q r = true) :
    r = A.rank ∧ (List.range r).map (fun i => Q.getD i 0) = A.rankProfile := GOK.ple_rank_profile hA h

theorem pluq_rank {A S : BMat} {P Q : Array Nat} {r : Nat} (hA : A.WF) (h : checkPLUQ A S P Q r = true) :
    r = A.rank := GOK.pluq_rank hA h

#check @M4ri.BMat.PN.pleNaive_good
#check @M4ri.BMat.PN.pleNaive_isPLE
#check @M4ri.BMat.PN.pleNaive_indep
#check @M4ri.BMat.PN.pleNaive_rank_profile
#check @M4ri.BMat.PN.pluqNaive_good
#check @M4ri.BMat.PN.pluqNaive_isPLUQ
#check @M4ri.BMat.PN.pluqNaive_indep
#check @M4ri.BMat.PN.pluqNaive_rank
#check @M4ri.BMat.PN.checkPLE_iff
#check @M4ri.BMat.PN.checkPLUQ_iff
#check @M4ri.BMat.PN.checkPLE_pleNaive
#check @M4ri.BMat.PN.checkPLUQ_pluqNaive
#check @M4ri.BMat.PN.goodBase_naive
#check @M4ri.BMat.PN.pleRec_naive_good
#check @M4ri.BMat.PN.pleRec_naive_isPLE
#check @M4ri.BMat.PN.pleRec_naive_rank
#check @M4ri.BMat.ML.mat_of_isPLUQ
#check @M4ri.BMat.ML.mat_of_isPLE
#check @M4ri.BMat.ML.checkPLUQ_mathlib
#check @M4ri.BMat.ML.checkPLE_mathlib
#check @M4ri.BMat.ML.lapackPerm_eq_prod
#check @M4ri.BMat.ML.mat_permMat


-- end to end for the real routines (M4riProofs/Top.lean), every cache triple, every well-formed input
/-- `mzd_ple` returns a certificate `checkPLE` accepts, with `r = rank A` and `Q[0..r)` the column rank profile -/
theorem ple_end_to_end (L1 L2 L3 : Nat) {A : BMat} (hA : A.WF) :
    checkPLE A (PR.pleTop L1 L2 L3 A).1 (PR.pleTop L1 L2 L3 A).2.1 (PR.pleTop L1 L2 L3 A).2.2.1
      (PR.pleTop L1 L2 L3 A).2.2.2 = true ∧ (PR.pleTop L1 L2 L3 A).2.2.2 = A.rank ∧
    (List.range (PR.pleTop L1 L2 L3 A).2.2.2).map (fun i => (PR.pleTop L1 L2 L3 A).2.2.1.getD i 0) = A.rankProfile :=
  ⟨Top.checkPLE_pleTop L1 L2 L3 hA, PR.pleTop_rank_profile L1 L2 L3 hA⟩

/-- `mzd_pluq` returns a certificate `checkPLUQ` accepts, with `r = rank A` and `Q[0..r)` the column rank profile -/
theorem pluq_end_to_end (L1 L2 L3 : Nat) {A : BMat} (hA : A.WF) :
    checkPLUQ A (PR.pluqTop L1 L2 L3 A).1 (PR.pluqTop L1 L2 L3 A).2.1 (PR.pluqTop L1 L2 L3 A).2.2.1
      (PR.pluqTop L1 L2 L3 A).2.2.2 = true ∧ (PR.pluqTop L1 L2 L3 A).2.2.2 = A.rank ∧
    (List.range (PR.pluqTop L1 L2 L3 A).2.2.2).map (fun i => (PR.pluqTop L1 L2 L3 A).2.2.1.getD i 0) = A.rankProfile :=
  ⟨Top.checkPLUQ_pluqTop L1 L2 L3 hA, Top.pluqTop_rank_profile L1 L2 L3 hA⟩

#check @M4ri.BMat.Top.goodPle_pleTop
#check @M4ri.BMat.Top.pluqTop_eq
#check @M4ri.BMat.Top.pluqTop_snd
#check @M4ri.BMat.Top.pleTop_c03
#check @M4ri.BMat.Top.pluqTop_c03
#check @M4ri.BMat.Top.pluqTop_profile
#check @M4ri.BMat.Top.pluqTop_isPLUQ
#check @M4ri.BMat.Top.pluqTop_WF
#check @M4ri.BMat.Top.pleTop_WF
#check @M4ri.BMat.Top.checkPLUQ_pluqTop
#check @M4ri.BMat.Top.checkPLE_pleTop
#check @M4ri.BMat.Top.pluqTop_rank_profile
#check @M4ri.BMat.Top.pluqTop_rank
#check @M4ri.BMat.Top.pleTop_Q_lapack
#check @M4ri.BMat.Top.pluqTop_mathlib
#check @M4ri.BMat.Top.pleTop_mathlib
#check @M4ri.BMat.Top.pluqTop_mat
#check @M4ri.BMat.PR.pleRussian_eq_pleNaive
#check @M4ri.BMat.PR.pleRussian_good
#check @M4ri.BMat.PR.goodBase_russian
#check @M4ri.BMat.PR.pleTop_good
#check @M4ri.BMat.PR.pleTop_isPLE
#check @M4ri.BMat.PR.pleTop_rank
#check @M4ri.BMat.PR.pleTop_rank_profile
#check @M4ri.BMat.PR.pluqRussian_isPLUQ
#check @M4ri.BMat.PR.checkPLUQ_pluqRussian
#check @M4ri.BMat.PR.pluqRussian_rank
#check @M4ri.BMat.PR.isPLUQ_of_isPLE_tri
#check @M4ri.BMat.G2.pluqOfPle_profile
#check @M4ri.BMat.G2.goodPle_pleRec
#check @M4ri.BMat.G2.pluqOfPle_needs_qtail


/-! ### tie to the C text: the functions below are GENERATED from /repo/m4ri by vlib/ctrans.py (clang AST) on every
    check (M4ri/Gen/CFuns.lean); these theorems prove them equal to the hand-written model definitions the theorems
    above are about, for all arguments of the C domain -/
#check @M4ri.GenTie.pleSplit_eq


/-! ### tie to the C text (generated by vlib/ctrans.py on every check, proved equal to the model in GenTieAlg.lean) -/
#check @M4ri.GenTieAlg.mzdFindPivot_eq


/-! ### tie to the C text: loops cut out of larger C functions (generated by vlib/ctrans.py on every check, proved equal to the
    model in GenTieSlice.lean) -/
#check @M4ri.GenTieSlice.plePermInit_eq
#check @M4ri.GenTieSlice.plePermUpdate_eq
#check @M4ri.GenTieSlice.plePermUpdate_model


/-! ### tie to the C text: the RECURSIVE BRANCH of `_mzd_ple` (split, 6 matrix windows, 4 permutation windows, first recursive call, Schur
    complement through the translated `mzd_apply_p_left` and `_mzd_trsm_lower_left`, product, second recursive call, fix-ups of A10 / P / Q,
    L compression) is generated by vlib/ctrans.py on every check; with the recursive calls instantiated by the model at `fuel` it returns
    exactly what `pleRec (fuel + 1)` computes: rank, storage, P, Q (GenTiePle.lean; call contracts derived from `pleRec_spec`) -/
#check @M4ri.GenTiePle.pleRecStep_pleRec_full
#check @M4ri.GenTiePle.pleRecStep_pleRec
#check @M4ri.GenTiePle.pleRecStep_eq


/-! ### tie to the C text: `mzd_trtri_upper` (64-bit regime test, SSE2 split, three windows, the two translated TRSM routines, two recursive
    calls), `_mzd_pluq` and `_mzd_solve_left` are generated by vlib/ctrans.py on every check and proved equal to the model (GenTieGlue.lean) -/
#check @M4ri.GenTieGlue.pluqFromPle_eq


/-! ### THE RECURSION CLOSED on the C text (GenTieClose2.lean): `cPle n` = the generated recursive branch of `_mzd_ple` bound to itself `n` levels deep
    (hand-written dispatcher for the zero-row test / regime test / base case, as in the model), closed TRSM as its callee: for every depth it
    returns what `pleRec n` returns (rank, storage, P, Q), hence a valid PLE factorisation (`cPle_spec`) -/
#check @M4ri.GenTieClose2.cPle_correct
#check @M4ri.GenTieClose2.cPle_spec
#check @M4ri.GenTieClose2.pleRecStep_congr


/-! ### THE WHOLE `_mzd_ple` on the C text (GenTieClose4.lean): `pleFull` is the complete generated function (zero-row test through the translated
    `mzd_first_zero_row`, permutation initialisation, regime test with the cut-off numeral = 524288, base case through a copy, recursive
    branch); `cPleFull n` = it bound to itself `n` levels deep: for every depth it returns what `pleRec n` returns, a valid PLE factorisation -/
#check @M4ri.GenTieClose4.cPleFull_correct
#check @M4ri.GenTieClose4.cPleFull_spec
#check @M4ri.GenTieClose4.pleFull_pleRec
#check @M4ri.GenTieClose4.pleCutoff_eq
#check @M4ri.GenTieClose4.firstZeroRow_bridge

end M4ri.Props.C03

/-! ### END TO END ON THE C TEXT (GenTieTop.lean): the generated `_mzd_pluq` over the whole generated `_mzd_ple` closed at any depth returns a valid PLUQ
    factorisation of `A` with `r = rank A` (profile form), P and Q on their index ranges; `pluqTop_eq_pluqM`: the model at full depth is `PR.pluqTop` -/
#check @M4ri.GenTieTop.c_pluq
#check @M4ri.GenTieTop.cPluq_agree
#check @M4ri.GenTieTop.pluqFromPle_congr
#check @M4ri.GenTieTop.pleTop_eq_pleM
#check @M4ri.GenTieTop.pluqTop_eq_pluqM

/-! ### `mzd_apply_p_right_trans_tri` ON THE C TEXT (GenTieTriFinal.lean): the function parameter `liftTri` by which `_mzd_pluq` is tied is what the
    generated function (over the generated `mzd_col_swap_in_rows`) computes on a whole well-formed matrix -/
#check @M4ri.GenTieTriFinal.mzdApplyPRightTransTri_eq
#check @M4ri.GenTieTriFinal.mzdApplyPRightTransTri_liftTri

/-! ### `_mzd_pluq` WITH `mzd_apply_p_right_trans_tri` ON THE C TEXT TOO (GenTieTop2.lean, GenTieTop2Final.lean): `cPluqT` = the generated `_mzd_pluq` over the
    whole generated `_mzd_ple` (closed at any depth) and over the GENERATED `mzd_apply_p_right_trans_tri` / `mzd_col_swap_in_rows`, both branches (whole
    matrix, window of the first r rows — `genTri_window`: the generated routine on a view reads and writes only the view's rows) returns exactly what
    the version with the lifted model operation returns, hence a valid PLUQ factorisation with r = rank A -/
#check @M4ri.GenTieTop2Final.cPluqT_eq
#check @M4ri.GenTieTop2Final.c_pluq_tri
#check @M4ri.GenTieTop2Final.cPluqT_agree
#check @M4ri.GenTieTop2.genTri_window
#check @M4ri.GenTieTop2.tri_bound

/-! ### THE WHOLE `_mzd_ple` OVER THE GENERATED PRODUCT (GenTieClose6.lean): `cPleFullG` = the generated `_mzd_ple` bound to itself with BOTH products (its own
    Schur-complement update and the one inside the closed generated `_mzd_trsm_lower_left`) bound to the generated public `mzd_addmul` over the closed
    Strassen recursion: still a valid PLE factorisation for every depth -/
#check @M4ri.GenTieClose6.cPleFullG_agree
#check @M4ri.GenTieClose6.cPleFullG_correct
#check @M4ri.GenTieClose6.cPleFullG_spec

/-! ### AS MUCH GENERATED CODE AS POSSIBLE AT ONCE (GenTieMax.lean): `cPleMax` = the whole generated `_mzd_ple` with its products bound to the generated public
    `mzd_addmul` over the Strassen recursion over the GENERATED `_mzd_add` (`genAddmulG`), its triangular solve the closed generated
    `_mzd_trsm_lower_left` over the same product; `cPluqMax` = the generated `_mzd_pluq` over it and over the generated `mzd_apply_p_right_trans_tri`:
    a valid PLE resp. PLUQ factorisation with r = rank A for every depth -/
#check @M4ri.GenTieMax.genAddmulG_sim
#check @M4ri.GenTieMax.cPleMax_spec
#check @M4ri.GenTieMax.cPluqMax_agree
#check @M4ri.GenTieMax.c_pluq_max
#check @M4ri.GenTieMax.c_pluq_max_russian_rank

/-! ### `_mzd_compress_l` ON THE C TEXT (GenTieCompress.lean, GenTieCompressPle.lean): the complete generated function (column swaps through the generated
    `mzd_col_swap_in_rows`; per row: rest of the first word through the generated read/clear/xor kernels, word-wise shifted copies, remaining bits,
    clearing of whole words, excess bits restored) equals the model `compressL` under the precondition `Pre` (rows below the pivots are zero from
    column n1 + r2 to the next word boundary — the C loop clears whole words there) and `n1 % 64 = 0`; `cexA_differs`: without `Pre` the generated
    text and the model DIFFER (concrete 2 x 66 matrix); the precondition is DISCHARGED at the call site of the recursive PLE step (`IsPLE.outside` of
    the second recursive result, zero rows below `firstZeroRow`, `splitPoint_mod`), so the step tie holds with the generated function in place of the
    lifted model operation (`pleRecStep_pleRec_gen`) -/
#check @M4ri.GenTieCompress.mzdCompressL_eq
#check @M4ri.GenTieCompress.mzdCompressL_eq_lift
#check @M4ri.GenTieCompress.cexA_differs
#check @M4ri.GenTieCompress.genCompress_ok
#check @M4ri.GenTieCompress.pleRecStep_pleRec_gen
