/-
  C03 — PLE / PLUQ. Proved: the exact mirrors of the naive routines are compared bit for bit; every output of
  `mzd_ple`, `mzd_pluq`, `_mzd_ple_russian`, `_mzd_pluq_russian`, naive variants (all cut-offs, all k, junk-filled
  P and Q on entry) is judged by `checkPLE` / `checkPLUQ`, whose soundness is the theorem below: acceptance implies
  LAPACK-form permutations, unit/trapezoidal factor shapes, zero storage outside L and U/E, strictly increasing
  pivot columns (PLE), and P·L·U·Q = A resp. P·L·E = A in the library's own convention; and r is THE rank
  (`RankCert` is unique) and the pivots are the column rank profile (relative to `GaussOK`, discharged in
  M4riProofs/GaussOK.lean when present). The block-iterative / block-recursive algorithms themselves are not
  mirrored step by step (`…_partial`: per-input certification by a proven-sound checker).
  Added (M4riProofs/PleNaive.lean): universal theorems for the naive routines — for EVERY matrix and EVERY initial
  content of P and Q, `_mzd_ple_naive` / `_mzd_pluq_naive` return a valid factorisation (`pleNaive_good`,
  `pluqNaive_good`), independent of the initial P, Q (`…_indep`), with r = rank and the pivots = column rank profile;
  the checkers are COMPLETE as well as sound (`checkPLE_iff`, `checkPLUQ_iff`); and the block-recursive `_mzd_ple`
  mirror (`Rec.pleRec`) over the naive base case is a valid PLE for every input (`pleRec_naive_good`). In Mathlib's
  terms (`ML.checkPLUQ_mathlib`, `ML.checkPLE_mathlib`): A = p.permMatrix * (L * U) * q.permMatrix with L unit lower
  trapezoidal, U unit upper / E echelon with strictly increasing pivots, rank = r.
-/
import M4riProofs.Checkers
import M4riProofs.GaussOK
import M4riProofs.PleNaive
import M4riProofs.MathlibSpec
import M4riProofs.TrsmRec
namespace M4ri.Props.C03
open M4ri M4ri.BMat

theorem pluq_checker_sound_partial {A S : BMat} {P Q : Array Nat} {r : Nat} (h : checkPLUQ A S P Q r = true) :
    IsPLUQ A S P Q r := checkPLUQ_sound h

theorem ple_checker_sound_partial {A S : BMat} {P Q : Array Nat} {r : Nat} (h : checkPLE A S P Q r = true) :
    IsPLE A S P Q r := checkPLE_sound h

/-- an accepted factorisation certifies the rank -/
theorem pluq_reveals_rank {A S : BMat} {P Q : Array Nat} {r : Nat} (h : IsPLUQ A S P Q r) (hA : A.WF) :
    RankCert A r := IsPLUQ.rankCert h hA

-- and the certified rank is unique
#check @M4ri.BMat.RankCert_unique
#check @M4ri.BMat.IsPLE.rankCert
#check @M4ri.BMat.IsPLUQ.reconstruct
#check @M4ri.BMat.applyP_eq_perm

/-- pivot columns = column rank profile (relative to the Gauss facts) -/
theorem ple_rank_profile_partial {A S : BMat} {P Q : Array Nat} {r : Nat} (hA : A.WF)
    (h : checkPLE A S P Q r = true) (hg : GaussOK A) :
    r = A.rank ∧ (List.range r).map (fun i => Q.getD i 0) = A.rankProfile := checkPLE_profile hA h hg

/-- unconditional: an accepted PLE output has r = rank(A) and Q[0..r) = column rank profile of A -/
theorem ple_rank_and_profile {A S : BMat} {P Q : Array Nat} {r : Nat} (hA : A.WF) (h : checkPLE A S P Q r = true) :
    r = A.rank ∧ (List.range r).map (fun i => Q.getD i 0) = A.rankProfile := GOK.ple_rank_profile hA h

theorem pluq_rank {A S : BMat} {P Q : Array Nat} {r : Nat} (hA : A.WF) (h : checkPLUQ A S P Q r = true) :
    r = A.rank := GOK.pluq_rank hA h

#check @M4ri.BMat.PN.pleNaive_good
#check @M4ri.BMat.PN.pleNaive_isPLE
#check @M4ri.BMat.PN.pleNaive_indep
#check @M4ri.BMat.PN.pleNaive_rank_profile
#check @M4ri.BMat.PN.pluqNaive_good
#check @M4ri.BMat.PN.pluqNaive_isPLUQ
#check @M4ri.BMat.PN.pluqNaive_indep
#check @M4ri.BMat.PN.pluqNaive_rank
#check @M4ri.BMat.PN.checkPLE_iff
#check @M4ri.BMat.PN.checkPLUQ_iff
#check @M4ri.BMat.PN.checkPLE_pleNaive
#check @M4ri.BMat.PN.checkPLUQ_pluqNaive
#check @M4ri.BMat.PN.goodBase_naive
#check @M4ri.BMat.PN.pleRec_naive_good
#check @M4ri.BMat.PN.pleRec_naive_isPLE
#check @M4ri.BMat.PN.pleRec_naive_rank
#check @M4ri.BMat.ML.mat_of_isPLUQ
#check @M4ri.BMat.ML.mat_of_isPLE
#check @M4ri.BMat.ML.checkPLUQ_mathlib
#check @M4ri.BMat.ML.checkPLE_mathlib
#check @M4ri.BMat.ML.lapackPerm_eq_prod
#check @M4ri.BMat.ML.mat_permMat

end M4ri.Props.C03
