/-
  C16 — OpenMP build (PARTIAL). Proved at the granularity of the OpenMP constructs: (1) the multi-core product: the
  exact mirror of `_mzd_mul_mp4` / `_mzd_addmul_mp4` (four sections on a 2x2 split at multiples of 128, then the
  remainder strips) equals A·B resp. C + A·B for every shape, cut-off, fuel and EVERY order in which the four sections
  take effect (`sched` any permutation): the sections write pairwise disjoint blocks and read only A, B and their own
  block, hence commute; (2) `parallel for` loops whose iteration r reads and writes only component r (row loops of
  mzd_process_rows2..6 and of `_mzd_mul_m4rm`, with `private(x, t)`) give the same result under any permutation of the
  iteration space, and one M4RM table pass is such a loop; (3) any interleaving of threads with private state and
  read-only shared state reaches the sequential per-thread results. Implementation only: the real OpenMP build run
  with OMP_NUM_THREADS in {1,2,3,5,16} (thorough: also 4, 8; nested regions on) on shapes > 512 rows with remainder
  strips, every result compared with the model; word-level races inside a step are outside the model.
-/
import M4riProofs.Mp
import M4riProofs.Sched
import M4ri.Gen.Inventory
namespace M4ri.Props.C16
open M4ri M4ri.BMat M4ri.BMat.Mp

theorem mul_mp_correct (sched : List (Fin 4)) (p : sched.Perm [0, 1, 2, 3]) (fuel cutoff : Nat) (C A B : BMat)
    (hA : A.WF) (hB : B.WF) (hC : C.WF) (hk : A.ncols = B.nrows) (hr : C.nrows = A.nrows) (hc : C.ncols = B.ncols) :
    mulMp4 sched fuel C A B cutoff = A.mul B := mulMp4_eq_mul sched p fuel cutoff C A B hA hB hC hk hr hc

theorem addmul_mp_correct (sched : List (Fin 4)) (p : sched.Perm [0, 1, 2, 3]) (fuel cutoff : Nat) (C A B : BMat)
    (hA : A.WF) (hB : B.WF) (hC : C.WF) (hk : A.ncols = B.nrows) (hr : C.nrows = A.nrows) (hc : C.ncols = B.ncols) :
    addmulMp4 sched fuel C A B cutoff = C.add (A.mul B) := addmulMp4_eq_add_mul sched p fuel cutoff C A B hA hB hC hk hr hc

/-- GENERATED obligation (the list `Gen.ompLoops` is re-extracted from the C sources on every check): in every
`omp parallel for` loop, every name declared outside the loop body that the body assigns is the loop variable or is
listed in a `private` clause -- the hypothesis "an iteration writes only its own state" under which
`Sched.parfor_perm_invariant` / `m4rmPass_order_free` are stated. -/
def ompLoopsOk : Bool := Gen.ompLoops.all fun l => l.2.2.2.2.all fun x => x == l.2.2.1 || l.2.2.2.1.contains x
theorem omp_loops_private : ompLoopsOk = true := by decide

/-- GENERATED obligation: every access to the shared block cache of mmc.c (the array, its alias, the eviction cursor)
lies inside a `#pragma omp critical(mmc)` block, so that cache operations are atomic steps and the C14 invariants —
proved for every SEQUENCE of operations — hold for every interleaving of threads. -/
theorem mmc_accesses_critical : (Gen.mmcAccesses.all fun a => a.2) = true := by decide

#check @M4ri.BMat.Mp.mp4_schedule_free
#check @M4ri.BMat.Mp.mulMp4_independent
#check @M4ri.BMat.Mp.mp4_calls_interleaving
#check @M4ri.BMat.Mp.m4rmPass_order_free
#check @M4ri.BMat.Mp.closer_eq_gen
#check @M4ri.Sched.parfor_perm_invariant
#check @M4ri.Sched.rowLoop_perm_invariant
#check @M4ri.Sched.threads_independent
#check @M4ri.Sched.interleavings_agree

end M4ri.Props.C16
