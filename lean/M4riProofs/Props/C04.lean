/-
  C04 — triangular solves. `trsmLowerLeft` … are the substitution forms against which every `mzd_trsm_*` result
  is compared bit for bit in the correspondence runs (all cut-offs, all regimes of the C recursion). Proved here:
  they solve the system, read only the named triangle (the diagonal is taken as 1, the other triangle is arbitrary),
  and the solution is unique. The C recursion / Four-Russians base cases themselves: see M4riProofs/TrsmRec.lean
  (when present) — otherwise tied by correspondence only (`…_partial` in the sense of the evidence file).
  In Mathlib's terms (`ML`): each solve is multiplication by Mathlib's matrix inverse of the unit triangular matrix.
  END TO END (M4riProofs/TrsmBase.lean, collected in M4riProofs/Top.lean, PB27) — the COMPLETE C routines
  `_mzd_trsm_lower_left`, `_mzd_trsm_upper_left`, `_mzd_trsm_lower_right`, `_mzd_trsm_upper_right` (regime switches,
  recursion, and the real base cases: the 64-row kernels, the Four-Russians routines `_mzd_trsm_*_russian` with their
  automatic `k`, the 64-column parity kernels, the inversion regime through `mzd_trtri_upper`) are mirrored
  (`TB.trsmLowerLeftC` … `TB.trsmUpperRightC`, M4ri/TrsmBase.lean) and proved EQUAL to the substitution forms for every
  well-formed `B`, a triangular argument with the right number of rows, every prior content of the index arrays and the
  build parameters `Top.paramsOf L1 L2 L3 sse2` of EVERY cache triple: `Top.trsm_lower_left`, `Top.trsm_upper_left`,
  `Top.trsm_lower_right` (no hypothesis), `Top.trsm_upper_right` (+ `…_solves`, `…_mathlib` each). Nothing is per-input
  certification. Two hypotheses remain, on `_mzd_trsm_upper_right` only, both necessary: `15 ≤ L3` (holds in every
  admissible configuration, `Top.Admissible.l3`) and, beyond 64 columns, a stored diagonal of ones — the C routine then
  inverts the stored triangle, `TB.upperRightFull_eq_full_false` is a kernel-checked 65-column counterexample to the
  "diagonal implied" reading.
-/
import M4riProofs.Trsm
import M4riProofs.MathlibSpec
import M4riProofs.Top
import M4riProofs.GenTie
import M4riProofs.GenTieRec
import M4riProofs.GenTieGlue
import M4riProofs.GenTieClose
import M4riProofs.GenTieClose6
namespace M4ri.Props.C04
open M4ri M4ri.BMat

theorem lower_left_solves {L B : BMat} (hLr : L.nrows = B.nrows) (hLc : L.ncols = B.nrows) (hB : B.WF) :
    (unitLower L).mul (trsmLowerLeft L B) = B := trsmLowerLeft_spec hLr hLc hB

/-- only the strictly lower triangle of `L` is read -/
theorem lower_left_reads_named_triangle (L L' B : BMat)
    (h : ∀ i j, i < B.nrows → j < i → L.get i j = L'.get i j) : trsmLowerLeft L B = trsmLowerLeft L' B :=
  trsmLowerLeft_congr L L' B h

theorem lower_left_unique {L B Y : BMat} (hLr : L.nrows = B.nrows) (hLc : L.ncols = B.nrows) (hB : B.WF)
    (hY : Y.WF) (hYr : Y.nrows = B.nrows) (hYc : Y.ncols = B.ncols) (h : (unitLower L).mul Y = B) :
    Y = trsmLowerLeft L B := trsmLowerLeft_unique hLr hLc hB hY hYr hYc h

theorem upper_right_solves {U B : BMat} (hUr : U.nrows = B.ncols) (hUc : U.ncols = B.ncols) (hB : B.WF) :
    (trsmUpperRight U B).mul (unitUpper U) = B := trsmUpperRight_spec hUr hUc hB

-- the remaining variants and clauses (proved in M4riProofs/Trsm.lean)
#check @M4ri.BMat.trsmUpperLeft_spec
#check @M4ri.BMat.trsmUpperLeft_congr
#check @M4ri.BMat.trsmUpperLeft_unique
#check @M4ri.BMat.trsmUpperRight_congr
#check @M4ri.BMat.trsmUpperRight_unique
#check @M4ri.BMat.trsmLowerRight_spec
#check @M4ri.BMat.trsmLowerRight_congr
#check @M4ri.BMat.trsmLowerRight_unique

#check @M4ri.BMat.ML.mat_trsmLowerLeft
#check @M4ri.BMat.ML.mat_trsmUpperLeft
#check @M4ri.BMat.ML.mat_trsmUpperRight
#check @M4ri.BMat.ML.mat_trsmLowerRight
#check @M4ri.BMat.ML.det_mat_unitLower
#check @M4ri.BMat.ML.det_mat_unitUpper
#check @M4ri.BMat.ML.mat_unitLower_isLowerTriangular
#check @M4ri.BMat.ML.mat_unitUpper_isUpperTriangular


-- the complete C routines, every cache triple (M4riProofs/Top.lean re-exports of M4riProofs/TrsmBase.lean)
#check @M4ri.BMat.Top.paramsOf
#check @M4ri.BMat.Top.paramsOf_repo
#check @M4ri.BMat.Top.Admissible.l3
#check @M4ri.BMat.Top.trsm_lower_left
#check @M4ri.BMat.Top.trsm_lower_left_solves
#check @M4ri.BMat.Top.trsm_lower_left_mathlib
#check @M4ri.BMat.Top.trsm_upper_left
#check @M4ri.BMat.Top.trsm_upper_left_solves
#check @M4ri.BMat.Top.trsm_upper_left_mathlib
#check @M4ri.BMat.Top.trsm_lower_right
#check @M4ri.BMat.Top.trsm_lower_right_solves
#check @M4ri.BMat.Top.trsm_lower_right_mathlib
#check @M4ri.BMat.Top.trsm_upper_right
#check @M4ri.BMat.Top.trsm_upper_right_solves
#check @M4ri.BMat.Top.trsm_upper_right_mathlib
#check @M4ri.BMat.Top.trsm_upper_right_adm
#check @M4ri.BMat.TB.lowerLeftFull_eq
#check @M4ri.BMat.TB.upperLeftFull_eq
#check @M4ri.BMat.TB.lowerRightFull_eq
#check @M4ri.BMat.TB.upperRightFull_eq_partial
#check @M4ri.BMat.TB.upperRightFull_eq_small
#check @M4ri.BMat.TB.upperRightFull_eq_full_false
#check @M4ri.BMat.TB.lowerLeftRussian_eq
#check @M4ri.BMat.TB.upperLeftRussian_eq
#check @M4ri.BMat.TB.lowerLeftKernel_eq
#check @M4ri.BMat.TB.upperLeftKernel_eq
#check @M4ri.BMat.TB.upperRightBase_eq
#check @M4ri.BMat.TB.lowerRightBase_eq


/-! ### tie to the C text: the functions below are GENERATED from /repo/m4ri by vlib/ctrans.py (clang AST) on every
    check (M4ri/Gen/CFuns.lean); these theorems prove them equal to the hand-written model definitions the theorems
    above are about, for all arguments of the C domain -/
#check @M4ri.GenTie.trsmUpperRightSplit_eq
#check @M4ri.GenTie.trsmLowerRightSplit_eq
#check @M4ri.GenTie.trsmLowerLeftSplit_eq
#check @M4ri.GenTie.trsmUpperLeftSplit_eq


/-! ### tie to the C text: the COMPLETE C functions `_mzd_trsm_*` (regime switch incl. the block-size expression, inline base cases of the
    left variants, 5 windows, two recursive calls, one product) are generated by vlib/ctrans.py on every check with their callees as
    function parameters; instantiated with the model's own recursion at `fuel` they equal one step of the model recursion (GenTieRec.lean) -/
#check @M4ri.GenTieRec.trsmUpperRightRec_step
#check @M4ri.GenTieRec.trsmLowerRightRec_step
#check @M4ri.GenTieRec.trsmLowerLeftRec_step
#check @M4ri.GenTieRec.trsmUpperLeftRec_step
#check @M4ri.GenTieRec.trsmLowerLeftRec_step_base
#check @M4ri.GenTieRec.trsmUpperLeftRec_step_base
#check @M4ri.GenTieRec.blocksize_eq


/-! ### tie to the C text: `mzd_trtri_upper` (64-bit regime test, SSE2 split, three windows, the two translated TRSM routines, two recursive
    calls), `_mzd_pluq` and `_mzd_solve_left` are generated by vlib/ctrans.py on every check and proved equal to the model (GenTieGlue.lean) -/
#check @M4ri.GenTieGlue.trtriUpperRec_step


/-! ### THE RECURSION CLOSED on the C text: `cTrsmX n` is the generated C function `_mzd_trsm_*` with its recursive-call parameter bound to ITSELF, `n`
    levels deep; by induction on `n` (one-step ties + callee congruence) it equals the substitution form for EVERY depth, on whole matrices
    and on windows written back (GenTieClose.lean) -/
#check @M4ri.GenTieClose.cTrsmUR_correct
#check @M4ri.GenTieClose.cTrsmLR_correct
#check @M4ri.GenTieClose.cTrsmLL_correct
#check @M4ri.GenTieClose.cTrsmUL_correct
#check @M4ri.GenTieClose.cTrsmUR_window
#check @M4ri.GenTieClose.cTrsmLL_window
#check @M4ri.GenTieClose.trsmUpperRightRec_callee_congr

end M4ri.Props.C04

/-! ### THE TRSM RECURSIONS OVER THE GENERATED PRODUCT (GenTieClose6.lean): `cTrsmXG` = the generated `_mzd_trsm_*` bound to themselves n levels deep
    with the product callee bound to the GENERATED public `mzd_addmul` over the closed Strassen recursion (`genAddmul`; every int cut-off, depth,
    flags, strides) instead of the lifted model product: still the substitution solutions -/
#check @M4ri.GenTieClose6.genAddmul_agree
#check @M4ri.GenTieClose6.cTrsmLLG_correct
#check @M4ri.GenTieClose6.cTrsmULG_correct
#check @M4ri.GenTieClose6.cTrsmURG_correct
#check @M4ri.GenTieClose6.cTrsmLRG_correct
#check @M4ri.GenTieClose6.cTrsmLL_gen_window
