/-
  C04 — triangular solves. `trsmLowerLeft` … are the substitution forms against which every `mzd_trsm_*` result
  is compared bit for bit in the correspondence runs (all cut-offs, all regimes of the C recursion). Proved here:
  they solve the system, read only the named triangle (the diagonal is taken as 1, the other triangle is arbitrary),
  and the solution is unique. The C recursion / Four-Russians base cases themselves: see M4riProofs/TrsmRec.lean
  (when present) — otherwise tied by correspondence only (`…_partial` in the sense of the evidence file).
  In Mathlib's terms (`ML`): each solve is multiplication by Mathlib's matrix inverse of the unit triangular matrix.
-/
import M4riProofs.Trsm
import M4riProofs.MathlibSpec
namespace M4ri.Props.C04
open M4ri M4ri.BMat

theorem lower_left_solves {L B : BMat} (hLr : L.nrows = B.nrows) (hLc : L.ncols = B.nrows) (hB : B.WF) :
    (unitLower L).mul (trsmLowerLeft L B) = B := trsmLowerLeft_spec hLr hLc hB

/-- only the strictly lower triangle of `L` is read -/
theorem lower_left_reads_named_triangle (L L' B : BMat)
    (h : ∀ i j, i < B.nrows → j < i → L.get i j = L'.get i j) : trsmLowerLeft L B = trsmLowerLeft L' B :=
  trsmLowerLeft_congr L L' B h

theorem lower_left_unique {L B Y : BMat} (hLr : L.nrows = B.nrows) (hLc : L.ncols = B.nrows) (hB : B.WF)
    (hY : Y.WF) (hYr : Y.nrows = B.nrows) (hYc : Y.ncols = B.ncols) (h : (unitLower L).mul Y = B) :
    Y = trsmLowerLeft L B := trsmLowerLeft_unique hLr hLc hB hY hYr hYc h

theorem upper_right_solves {U B : BMat} (hUr : U.nrows = B.ncols) (hUc : U.ncols = B.ncols) (hB : B.WF) :
    (trsmUpperRight U B).mul (unitUpper U) = B := trsmUpperRight_spec hUr hUc hB

-- the remaining variants and clauses (proved in M4riProofs/Trsm.lean)
#check @M4ri.BMat.trsmUpperLeft_spec
#check @M4ri.BMat.trsmUpperLeft_congr
#check @M4ri.BMat.trsmUpperLeft_unique
#check @M4ri.BMat.trsmUpperRight_congr
#check @M4ri.BMat.trsmUpperRight_unique
#check @M4ri.BMat.trsmLowerRight_spec
#check @M4ri.BMat.trsmLowerRight_congr
#check @M4ri.BMat.trsmLowerRight_unique

#check @M4ri.BMat.ML.mat_trsmLowerLeft
#check @M4ri.BMat.ML.mat_trsmUpperLeft
#check @M4ri.BMat.ML.mat_trsmUpperRight
#check @M4ri.BMat.ML.mat_trsmLowerRight
#check @M4ri.BMat.ML.det_mat_unitLower
#check @M4ri.BMat.ML.det_mat_unitUpper
#check @M4ri.BMat.ML.mat_unitLower_isLowerTriangular
#check @M4ri.BMat.ML.mat_unitUpper_isUpperTriangular

end M4ri.Props.C04
