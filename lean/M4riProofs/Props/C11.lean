/-
  C11 — memory safety (PARTIAL). What a theorem carries here: (a) shape safety of the model — every W-level writer maps a
  well-formed view (right number of rows, `width` words each) to a well-formed view, i.e. no modelled write creates or
  needs a word outside the operand (`…_WF` theorems, listed); (b) the allocator bookkeeping never releases a block twice
  and retains nothing after finalisation (C14). What NO theorem here covers and only the implementation-side runs see:
  real out-of-bounds / misaligned-vector / use-after-free accesses and undefined arithmetic in the C text (every
  correspondence suite is also executed under AddressSanitizer + UndefinedBehaviorSanitizer with allocator balance
  measured per call), and the error-handler behaviour of ill-dimensioned calls (model says `die`; harness checks the
  process died through `m4ri_die` and that no operand bit changed).
-/
import M4riProofs.W.RowCol
import M4riProofs.W.Perm
import M4riProofs.W.DataMove
import M4riProofs.Alloc
namespace M4ri.Props.C11

#check @M4ri.Mzd.rowSwapFrom_WF
#check @M4ri.Mzd.writeBit_WF
#check @M4ri.Mzd.xorBits_WF
#check @M4ri.Mzd.clearBits_WF
#check @M4ri.Mzd.colSwapInRows_WF
#check @M4ri.Mzd.rowAddOffset_WF
#check @M4ri.Mzd.rowClearOffset_WF
#check @M4ri.Mzd.applyPLeft_WF
#check @M4ri.Mzd.applyPRightEven_WF
#check @M4ri.Mzd.applyPRightTransTri_WF
#check @M4ri.Mzd.addInto_WF
#check @M4ri.Mzd.copyInto_WF
#check @M4ri.Mzd.copyRow_WF
#check @M4ri.Mzd.setUi_WF
#check @M4ri.Mzd.submatrixInto_WF
#check @M4ri.Mzd.concatInto_WF
#check @M4ri.Mzd.stackInto_WF
#check @M4ri.Alloc.no_double_free
#check @M4ri.Alloc.balanced_run
#check @M4ri.Alloc.free_safe

end M4ri.Props.C11
