/-
  C11 — memory safety (PARTIAL). What a theorem carries here: (a) shape safety of the model — every W-level writer maps a
  well-formed view (right number of rows, `width` words each) to a well-formed view, i.e. no modelled write creates or
  needs a word outside the operand (`…_WF` theorems, listed); (a') the ACCESS-TRACE model M4ri/Safety.lean: for each
  word-level kernel (bit/bits accessors, row swap, column swap, row add with its SSE2 body, combine_even(_in_place),
  _mzd_combine and the _mzd_combine_2..8 templates incl. the peel step and Duff devices, row clear, copy, copy_row, _mzd_add,
  submatrix, find_pivot, make_table, process_rows) the list of (operand, row, word, R/W, 8|16 bytes) accesses and the list
  of shift counts as closed-form functions of the arguments; PROVED under the documented preconditions (shapes >= 1x1):
  every access is inside its operand (never the padding word, never word `width`), every 16-byte access is 16-byte
  aligned for BOTH row phases (windows starting at an odd word), every shift count is in 0..63, and the second word of a
  <=64-bit span is touched iff the span crosses into it. The trace model is tied to the real code on every check by
  running the kernels under `valgrind --tool=lackey` and comparing the traces as multisets (vlib/tracecheck.py).
  `_partial`: copy / copy_row / submatrix need `0 < ncols` resp. a non-empty column range — the `_full_false` theorems are
  kernel-checked counterexamples, and the real code does misbehave there (0-column source: word −1 is accessed); those
  shapes are outside the >= 1x1 domain of this property and are recorded in DESIGN.md as out-of-domain observations. (b) the allocator bookkeeping never releases a block twice
  and retains nothing after finalisation (C14). What NO theorem here covers and only the implementation-side runs see:
  real out-of-bounds / misaligned-vector / use-after-free accesses and undefined arithmetic in the C text (every
  correspondence suite is also executed under AddressSanitizer + UndefinedBehaviorSanitizer with allocator balance
  measured per call), and the error-handler behaviour of ill-dimensioned calls (model says `die`; harness checks the
  process died through `m4ri_die` and that no operand bit changed).
-/
import M4riProofs.W.RowCol
import M4riProofs.W.Perm
import M4riProofs.W.DataMove
import M4riProofs.Alloc
import M4riProofs.Safety
namespace M4ri.Props.C11

#check @M4ri.Mzd.rowSwapFrom_WF
#check @M4ri.Mzd.writeBit_WF
#check @M4ri.Mzd.xorBits_WF
#check @M4ri.Mzd.clearBits_WF
#check @M4ri.Mzd.colSwapInRows_WF
#check @M4ri.Mzd.rowAddOffset_WF
#check @M4ri.Mzd.rowClearOffset_WF
#check @M4ri.Mzd.applyPLeft_WF
#check @M4ri.Mzd.applyPRightEven_WF
#check @M4ri.Mzd.applyPRightTransTri_WF
#check @M4ri.Mzd.addInto_WF
#check @M4ri.Mzd.copyInto_WF
#check @M4ri.Mzd.copyRow_WF
#check @M4ri.Mzd.setUi_WF
#check @M4ri.Mzd.submatrixInto_WF
#check @M4ri.Mzd.concatInto_WF
#check @M4ri.Mzd.stackInto_WF
#check @M4ri.Alloc.no_double_free
#check @M4ri.Alloc.balanced_run
#check @M4ri.Alloc.free_safe

#check @M4ri.Safety.Access.inBounds_flat
#check @M4ri.Safety.duff_pos
#check @M4ri.Safety.duff_zero
#check @M4ri.Safety.accReadBit_inBounds
#check @M4ri.Safety.shReadBit_ok
#check @M4ri.Safety.accWriteBit_inBounds
#check @M4ri.Safety.shWriteBit_ok
#check @M4ri.Safety.accXorBits_inBounds
#check @M4ri.Safety.accAndBits_inBounds
#check @M4ri.Safety.accClearBits_inBounds
#check @M4ri.Safety.accReadBits_inBounds
#check @M4ri.Safety.accXorBits_next_iff
#check @M4ri.Safety.accReadBits_next_iff
#check @M4ri.Safety.accXorBits_span
#check @M4ri.Safety.accReadBits_span
#check @M4ri.Safety.shXorBits_ok
#check @M4ri.Safety.shAndBits_ok
#check @M4ri.Safety.shClearBits_ok
#check @M4ri.Safety.shReadBits_ok
#check @M4ri.Safety.accRowAddOffsetScalar_inBounds
#check @M4ri.Safety.accRowAddOffset_inBounds
#check @M4ri.Safety.accRowAddOffset_aligned
#check @M4ri.Safety.shRowAddOffset_ok
#check @M4ri.Safety.accRowAddOffset_last
#check @M4ri.Safety.accCombineEvenInPlace_inBounds
#check @M4ri.Safety.accCombineEvenInPlace_aligned
#check @M4ri.Safety.accCombineEven_inBounds
#check @M4ri.Safety.accCombineEven_aligned
#check @M4ri.Safety.accCombine_inBounds
#check @M4ri.Safety.accCombine_aligned
#check @M4ri.Safety.accCombine_phase_witness
#check @M4ri.Safety.accCombineN_inBounds
#check @M4ri.Safety.accCombineN_aligned
#check @M4ri.Safety.accCombineN_phase_witness
#check @M4ri.Safety.accRowSwap_inBounds
#check @M4ri.Safety.accColSwapInRows_inBounds
#check @M4ri.Safety.shColSwapInRows_ok
#check @M4ri.Safety.accRowClearOffset_inBounds
#check @M4ri.Safety.shRowClearOffset_ok
#check @M4ri.Safety.accCopy_inBounds_partial
#check @M4ri.Safety.accCopy_full_false
#check @M4ri.Safety.accCopyRow_inBounds_partial
#check @M4ri.Safety.accCopyRow_full_false
#check @M4ri.Safety.shCopyRow_ok
#check @M4ri.Safety.accAdd_inBounds
#check @M4ri.Safety.accAdd_aligned
#check @M4ri.Safety.accSubmatrix_inBounds_partial
#check @M4ri.Safety.accSubmatrix_full_false
#check @M4ri.Safety.shSubmatrix_ok_partial
#check @M4ri.Safety.accFindPivot_inBounds
#check @M4ri.Safety.shFindPivot_ok
#check @M4ri.Safety.accMakeTable_inBounds
#check @M4ri.Safety.shMakeTable_ok
#check @M4ri.Safety.accProcessRows_inBounds
#check @M4ri.Safety.shProcessRows_ok
#check @M4ri.Safety.accRowSwap_aligned
#check @M4ri.Safety.accColSwapInRows_aligned
#check @M4ri.Safety.accRowClearOffset_aligned
#check @M4ri.Safety.accCopy_aligned
#check @M4ri.Safety.accCopyRow_aligned
#check @M4ri.Safety.accSubmatrix_aligned
#check @M4ri.Safety.accFindPivot_aligned
#check @M4ri.Safety.accMakeTable_aligned
#check @M4ri.Safety.accProcessRows_aligned
#check @M4ri.Safety.phase_row_indep

end M4ri.Props.C11
