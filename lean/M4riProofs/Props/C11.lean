/-
  C11 — memory safety (PARTIAL). What a theorem carries here: (a) shape safety of the model — every W-level writer maps a
  well-formed view (right number of rows, `width` words each) to a well-formed view, i.e. no modelled write creates or
  needs a word outside the operand (`…_WF` theorems, listed); (a') the ACCESS-TRACE model M4ri/Safety.lean: for each
  word-level kernel (bit/bits accessors, row swap, column swap, row add with its SSE2 body, combine_even(_in_place),
  _mzd_combine and the _mzd_combine_2..8 templates incl. the peel step and Duff devices, row clear, copy, copy_row, _mzd_add,
  submatrix, find_pivot, make_table, process_rows) the list of (operand, row, word, R/W, 8|16 bytes) accesses and the list
  of shift counts as closed-form functions of the arguments; PROVED under the documented preconditions (shapes >= 1x1):
  every access is inside its operand (never the padding word, never word `width`), every 16-byte access is 16-byte
  aligned for BOTH row phases (windows starting at an odd word), every shift count is in 0..63, and the second word of a
  <=64-bit span is touched iff the span crosses into it. The trace model is tied to the real code on every check by
  running the kernels under `valgrind --tool=lackey` and comparing the traces as multisets (vlib/tracecheck.py).
  `_partial`: copy / copy_row / submatrix need `0 < ncols` resp. a non-empty column range — the `_full_false` theorems are
  kernel-checked counterexamples, and the real code does misbehave there (0-column source: word −1 is accessed); those
  shapes are outside the >= 1x1 domain of this property and are recorded in DESIGN.md as out-of-domain observations.
  SECOND PART (M4ri/Safety2.lean, M4riProofs/Safety2.lean): the same three statements for `mzd_process_rows2..6`, the column
  permutation kernels of mzp.c (`_mzd_apply_p_right_even` with the 64-way gather `mzd_write_col_to_rows_blockd`, `mzd_col_swap`,
  `mzd_apply_p_left(_trans)`, `mzd_apply_p_right_trans_tri`), `_mzd_compress_l`, the PLE tables and row processing
  (`mzd_make_table_ple`, `_mzd_process_rows_ple_2..8`, `_mzd_ple_a11_*`, `_mzd_ple_a10`), the TRSM / TRTRI tables and strips
  (`_mzd_trsm_{upper,lower}_left_submatrix`, `mzd_make_table_trtri`, whole Four-Russians solves as compositions) and ALL
  transposition kernels and dispatchers; `…_witness` theorems are kernel-checked inputs showing that a stated precondition
  (equal 16-byte phases of a matrix and its tables, permutation entries in range, …) is necessary. (b) the allocator bookkeeping never releases a block twice
  and retains nothing after finalisation (C14). What NO theorem here covers and only the implementation-side runs see:
  real out-of-bounds / misaligned-vector / use-after-free accesses and undefined arithmetic in the C text (every
  correspondence suite is also executed under AddressSanitizer + UndefinedBehaviorSanitizer with allocator balance
  measured per call), and the error-handler behaviour of ill-dimensioned calls (model says `die`; harness checks the
  process died through `m4ri_die` and that no operand bit changed).
-/
import M4riProofs.W.RowCol
import M4riProofs.W.Perm
import M4riProofs.W.DataMove
import M4riProofs.Alloc
import M4riProofs.Safety
import M4riProofs.Safety2
namespace M4ri.Props.C11

#check @M4ri.Mzd.rowSwapFrom_WF
#check @M4ri.Mzd.writeBit_WF
#check @M4ri.Mzd.xorBits_WF
#check @M4ri.Mzd.clearBits_WF
#check @M4ri.Mzd.colSwapInRows_WF
#check @M4ri.Mzd.rowAddOffset_WF
#check @M4ri.Mzd.rowClearOffset_WF
#check @M4ri.Mzd.applyPLeft_WF
#check @M4ri.Mzd.applyPRightEven_WF
#check @M4ri.Mzd.applyPRightTransTri_WF
#check @M4ri.Mzd.addInto_WF
#check @M4ri.Mzd.copyInto_WF
#check @M4ri.Mzd.copyRow_WF
#check @M4ri.Mzd.setUi_WF
#check @M4ri.Mzd.submatrixInto_WF
#check @M4ri.Mzd.concatInto_WF
#check @M4ri.Mzd.stackInto_WF
#check @M4ri.Alloc.no_double_free
#check @M4ri.Alloc.balanced_run
#check @M4ri.Alloc.free_safe

#check @M4ri.Safety.Access.inBounds_flat
#check @M4ri.Safety.duff_pos
#check @M4ri.Safety.duff_zero
#check @M4ri.Safety.accReadBit_inBounds
#check @M4ri.Safety.shReadBit_ok
#check @M4ri.Safety.accWriteBit_inBounds
#check @M4ri.Safety.shWriteBit_ok
#check @M4ri.Safety.accXorBits_inBounds
#check @M4ri.Safety.accAndBits_inBounds
#check @M4ri.Safety.accClearBits_inBounds
#check @M4ri.Safety.accReadBits_inBounds
#check @M4ri.Safety.accXorBits_next_iff
#check @M4ri.Safety.accReadBits_next_iff
#check @M4ri.Safety.accXorBits_span
#check @M4ri.Safety.accReadBits_span
#check @M4ri.Safety.shXorBits_ok
#check @M4ri.Safety.shAndBits_ok
#check @M4ri.Safety.shClearBits_ok
#check @M4ri.Safety.shReadBits_ok
#check @M4ri.Safety.accRowAddOffsetScalar_inBounds
#check @M4ri.Safety.accRowAddOffset_inBounds
#check @M4ri.Safety.accRowAddOffset_aligned
#check @M4ri.Safety.shRowAddOffset_ok
#check @M4ri.Safety.accRowAddOffset_last
#check @M4ri.Safety.accCombineEvenInPlace_inBounds
#check @M4ri.Safety.accCombineEvenInPlace_aligned
#check @M4ri.Safety.accCombineEven_inBounds
#check @M4ri.Safety.accCombineEven_aligned
#check @M4ri.Safety.accCombine_inBounds
#check @M4ri.Safety.accCombine_aligned
#check @M4ri.Safety.accCombine_phase_witness
#check @M4ri.Safety.accCombineN_inBounds
#check @M4ri.Safety.accCombineN_aligned
#check @M4ri.Safety.accCombineN_phase_witness
#check @M4ri.Safety.accRowSwap_inBounds
#check @M4ri.Safety.accColSwapInRows_inBounds
#check @M4ri.Safety.shColSwapInRows_ok
#check @M4ri.Safety.accRowClearOffset_inBounds
#check @M4ri.Safety.shRowClearOffset_ok
#check @M4ri.Safety.accCopy_inBounds_partial
#check @M4ri.Safety.accCopy_full_false
#check @M4ri.Safety.accCopyRow_inBounds_partial
#check @M4ri.Safety.accCopyRow_full_false
#check @M4ri.Safety.shCopyRow_ok
#check @M4ri.Safety.accAdd_inBounds
#check @M4ri.Safety.accAdd_aligned
#check @M4ri.Safety.accSubmatrix_inBounds_partial
#check @M4ri.Safety.accSubmatrix_full_false
#check @M4ri.Safety.shSubmatrix_ok_partial
#check @M4ri.Safety.accFindPivot_inBounds
#check @M4ri.Safety.shFindPivot_ok
#check @M4ri.Safety.accMakeTable_inBounds
#check @M4ri.Safety.shMakeTable_ok
#check @M4ri.Safety.accProcessRows_inBounds
#check @M4ri.Safety.shProcessRows_ok
#check @M4ri.Safety.accRowSwap_aligned
#check @M4ri.Safety.accColSwapInRows_aligned
#check @M4ri.Safety.accRowClearOffset_aligned
#check @M4ri.Safety.accCopy_aligned
#check @M4ri.Safety.accCopyRow_aligned
#check @M4ri.Safety.accSubmatrix_aligned
#check @M4ri.Safety.accFindPivot_aligned
#check @M4ri.Safety.accMakeTable_aligned
#check @M4ri.Safety.accProcessRows_aligned
#check @M4ri.Safety.phase_row_indep

#check @M4ri.Safety.accProcessRowsN_inBounds
#check @M4ri.Safety.accProcessRowsN_aligned
#check @M4ri.Safety.accProcessRowsN_phase_witness
#check @M4ri.Safety.shProcessRowsN_ok
#check @M4ri.Safety.accApplyPLeft_inBounds
#check @M4ri.Safety.accApplyPLeftTrans_inBounds
#check @M4ri.Safety.accApplyPLeft_values_witness
#check @M4ri.Safety.accApplyPLeft_aligned
#check @M4ri.Safety.accApplyPLeftTrans_aligned
#check @M4ri.Safety.accColSwap_inBounds
#check @M4ri.Safety.accColSwap_aligned
#check @M4ri.Safety.shColSwap_ok
#check @M4ri.Safety.swapAt_lt
#check @M4ri.Safety.mathPerm_lt
#check @M4ri.Safety.accWriteColToRowsBlockd_inBounds
#check @M4ri.Safety.accWriteColToRowsBlockd_aligned
#check @M4ri.Safety.accApplyPRightEvenPerm_inBounds
#check @M4ri.Safety.accApplyPRightEvenPerm_aligned
#check @M4ri.Safety.accApplyPRightEven_inBounds
#check @M4ri.Safety.accApplyPRightEven_aligned
#check @M4ri.Safety.accApplyPRightEven_values_witness
#check @M4ri.Safety.shApplyPRightEvenPerm_ok
#check @M4ri.Safety.accApplyPRightTransTri_inBounds
#check @M4ri.Safety.accApplyPRightTransTri_aligned
#check @M4ri.Safety.shApplyPRightTransTri_ok
#check @M4ri.Safety.accCompressL_inBounds
#check @M4ri.Safety.accCompressL_full_false
#check @M4ri.Safety.accCompressL_aligned
#check @M4ri.Safety.shCompressL_ok
#check @M4ri.Safety.accCompressL_cut_witness
#check @M4ri.Safety.accXorBitsOp_aligned
#check @M4ri.Safety.take_sum_lt
#check @M4ri.Safety.accProcessRowsPle_inBounds
#check @M4ri.Safety.accProcessRowsPle_aligned
#check @M4ri.Safety.accProcessRowsPle_phase_witness
#check @M4ri.Safety.shProcessRowsPle_ok
#check @M4ri.Safety.shProcessRowsPle_k0_witness
#check @M4ri.Safety.accPleA11N_inBounds
#check @M4ri.Safety.accPleA11N_aligned
#check @M4ri.Safety.accPleA11N_phase_witness
#check @M4ri.Safety.shPleA11N_ok
#check @M4ri.Safety.accPleA11_1_inBounds
#check @M4ri.Safety.accPleA11_1_aligned
#check @M4ri.Safety.accPleA11_1_phase_witness
#check @M4ri.Safety.shPleA11_1_ok
#check @M4ri.Safety.accPleA10_inBounds
#check @M4ri.Safety.accPleA10_aligned
#check @M4ri.Safety.shPleA10_ok
#check @M4ri.Safety.shPleA10_piv0_witness
#check @M4ri.Safety.accMakeTablePle_inBounds
#check @M4ri.Safety.accMakeTablePle_aligned
#check @M4ri.Safety.shMakeTablePle_ok
#check @M4ri.Safety.accMakeTablePle_writecol_witness
#check @M4ri.Safety.accMakeTablePle_width_witness
#check @M4ri.Safety.trsmRowAdd_inBounds
#check @M4ri.Safety.trsmRowAdd_aligned
#check @M4ri.Safety.accTrsmUpperLeftSubmatrix_inBounds
#check @M4ri.Safety.accTrsmLowerLeftSubmatrix_inBounds
#check @M4ri.Safety.accTrsmUpperLeftSubmatrix_aligned
#check @M4ri.Safety.accTrsmLowerLeftSubmatrix_aligned
#check @M4ri.Safety.shTrsmUpperLeftSubmatrix_ok
#check @M4ri.Safety.shTrsmLowerLeftSubmatrix_ok
#check @M4ri.Safety.accTrsmLowerLeftSubmatrix_rows_witness
#check @M4ri.Safety.accTrsmUpperLeftSubmatrix_rows_witness
#check @M4ri.Safety.accMakeTableTrtri_inBounds
#check @M4ri.Safety.accMakeTableTrtri_aligned
#check @M4ri.Safety.shMakeTableTrtri_ok
#check @M4ri.Safety.accMakeTableTrtri_wide0_witness
#check @M4ri.Safety.accMakeTableTrtri_rows_witness
#check @M4ri.Safety.accMakeTableTrtri_width_witness
#check @M4ri.Safety.all_reop_inBounds
#check @M4ri.Safety.all_reop_aligned
#check @M4ri.Safety.trsmTailAdd_inBounds
#check @M4ri.Safety.trsmTailAdd_aligned
#check @M4ri.Safety.makeTable_reop_inBounds
#check @M4ri.Safety.makeTable_reop_aligned
#check @M4ri.Safety.combine8_reop_inBounds
#check @M4ri.Safety.combine8_reop_aligned
#check @M4ri.Safety.accTrsmUpperMainBlock_inBounds
#check @M4ri.Safety.accTrsmUpperTailBlock_inBounds
#check @M4ri.Safety.accTrsmUpperLeftRussian_inBounds
#check @M4ri.Safety.accTrsmUpperLeftRussian_aligned
#check @M4ri.Safety.accTrsmLowerMainBlock_inBounds
#check @M4ri.Safety.accTrsmLowerTailBlock_inBounds
#check @M4ri.Safety.accTrsmLowerLeftRussian_inBounds
#check @M4ri.Safety.accTrsmLowerLeftRussian_aligned
#check @M4ri.Safety.accTrsmUpperLeftRussian_safe_partial
#check @M4ri.Safety.accTrsmLowerLeftRussian_safe_partial
#check @M4ri.Safety.accTrsmUpperLeftRussian_phase_witness
#check @M4ri.Safety.accTrsmLowerLeftRussian_phase_witness
#check @M4ri.Safety.accTrsmUpperLeftRussian_zero_cols_witness
#check @M4ri.Safety.accTrsmUpperLeftRussian_zero_cols_odd_witness
#check @M4ri.Safety.accTrsmLowerLeftRussian_zero_cols_witness
#check @M4ri.Safety.accTrsmUpperLeftRussian_full_false
#check @M4ri.Safety.accTrsmLowerLeftRussian_full_false
#check @M4ri.Safety.shTrsmUpperLeftRussian_ok
#check @M4ri.Safety.shTrsmLowerLeftRussian_ok
#check @M4ri.Safety.accRowAddOffset_all_inBounds
#check @M4ri.Safety.accRowAddOffset_all_aligned
#check @M4ri.Safety.accTrtriUpperSubmatrix_inBounds
#check @M4ri.Safety.accTrtriUpperSubmatrix_aligned
#check @M4ri.Safety.shTrtriUpperSubmatrix_ok
#check @M4ri.Safety.region_inBounds
#check @M4ri.Safety.region_aligned
#check @M4ri.Safety.acc64x64_inBounds
#check @M4ri.Safety.acc64x64_aligned
#check @M4ri.Safety.acc64x64_rows_witness
#check @M4ri.Safety.acc64x64_2_inBounds
#check @M4ri.Safety.acc64x64_2_aligned
#check @M4ri.Safety.sh64x64_ok
#check @M4ri.Safety.sh64x64_2_ok
#check @M4ri.Safety.accLt64x64_inBounds
#check @M4ri.Safety.accLt64x64_aligned
#check @M4ri.Safety.accLt64x64_rows_witness
#check @M4ri.Safety.shLt64x64_ok
#check @M4ri.Safety.acc64xlt64_inBounds
#check @M4ri.Safety.acc64xlt64_aligned
#check @M4ri.Safety.acc64xlt64_rows_witness
#check @M4ri.Safety.sh64xlt64_ok
#check @M4ri.Safety.accSmall_inBounds
#check @M4ri.Safety.accSmall_aligned
#check @M4ri.Safety.accLe8_inBounds
#check @M4ri.Safety.accLe16_inBounds
#check @M4ri.Safety.accLe32_inBounds
#check @M4ri.Safety.accLe64_inBounds
#check @M4ri.Safety.accLe8_n0_witness
#check @M4ri.Safety.accLe8_m0_witness
#check @M4ri.Safety.shLe8_ok
#check @M4ri.Safety.shLe8_n_witness
#check @M4ri.Safety.shLe8_m_witness
#check @M4ri.Safety.shLe16_ok
#check @M4ri.Safety.shLe16_n_witness
#check @M4ri.Safety.shLe32_ok
#check @M4ri.Safety.shLe64_ok
#check @M4ri.Safety.shSmall_ok
#check @M4ri.Safety.accTransposeBase_inBounds
#check @M4ri.Safety.accTransposeBase_aligned
#check @M4ri.Safety.accTransposeBase_width_witness
#check @M4ri.Safety.shTransposeBase_ok
#check @M4ri.Safety.accTransposeNotsmall_inBounds
#check @M4ri.Safety.accTransposeNotsmall_aligned
#check @M4ri.Safety.shTransposeNotsmall_ok
#check @M4ri.Safety.accTransposeTop_inBounds
#check @M4ri.Safety.accTransposeTop_aligned
#check @M4ri.Safety.shTransposeTop_ok
#check @M4ri.Safety.accTransposeTop_empty_witness
#check @M4ri.Safety.assertsTransposeNotsmall_full_false
#check @M4ri.Safety.assertsTransposeNotsmall_square_witness
#check @M4ri.Safety.assertsTransposeNotsmall_partial
#check @M4ri.Safety.accCopyOps_inBounds
#check @M4ri.Safety.accCopyOps_aligned
#check @M4ri.Safety.transposeTop_reOp_inBounds
#check @M4ri.Safety.accMzdTranspose_inBounds
#check @M4ri.Safety.accMzdTranspose_inBounds_operands
#check @M4ri.Safety.accMzdTranspose_aligned
#check @M4ri.Safety.shMzdTranspose_ok
#check @M4ri.Safety.accMzdTranspose_shape_witness

end M4ri.Props.C11
