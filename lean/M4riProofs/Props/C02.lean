/-
  C02 — echelon forms: rank, row space and the unique RREF, identical across algorithms.
  What is PROVED universally: the naive routine (`mzd_gauss_delayed` / `mzd_echelonize_naive`, exact mirror
  `BMat.gaussDelayed`) returns rank(A), preserves the row space, leaves a row echelon form and — with full
  reduction — THE reduced row echelon form (unique within a row space); and the executable certificate
  checker `checkEchelon` is sound. M4RI and the top reduction have exact mirrors with universal theorems (below); the PLUQ-based routine and the
  density-switching hybrid are NOT mirrored step by step: every one of their outputs in the correspondence runs is
  compared with `rref`/`rank` (full) or judged by `checkEchelon` (non-full) — per-input certification by a
  proven-sound checker, labelled as such (`…_partial` below).
  `SameSpan`, `isRowEchelon`, `isRREF`, `rank` are tied to Mathlib's `Submodule.span`, `Matrix.IsRowEchelon`,
  `Matrix.IsReducedRowEchelon`, `Matrix.rank` over `ZMod 2` in M4riProofs/GaussMathlib.lean.
  Added (M4riProofs/PleNaive.lean): the PLUQ-based routine `mzd_echelonize_pluq` is now mirrored on top of a
  factorisation (`PN.echelonizePluq`, M4ri/Glue.lean; tied word for word by the `glue_echelonize` phase of the
  correspondence run, instantiated with the library's own factorisation) and proved: on any `IsPLE` certificate the
  non-full result passes `checkEchelon` (row space, echelon shape, rank); on any profile-PLUQ certificate the full result
  is THE reduced row echelon form (`echelonizePluq_naive_full_eq` for the naive factorisation). A bare `IsPLUQ`
  certificate is NOT enough (`echelonizePluq_generic_full_false`, a kernel-checked counterexample): the pivot columns
  must be the column rank profile, which `check_pluq`'s second output tests per run. Mathlib forms: `ML.rank_mat`,
  `ML.mat_rref`, `ML.mat_isReducedRowEchelon`.
-/
import M4riProofs.Gauss
import M4riProofs.GaussMathlib
import M4riProofs.M4riElim
import M4riProofs.PleNaive
import M4riProofs.MathlibSpec
namespace M4ri.Props.C02
open M4ri M4ri.BMat

/-- naive Gauss: row space preserved -/
theorem naive_row_space {A : BMat} (hA : A.WF) (full : Bool) : SameSpan A (gaussDelayed A 0 full).1 :=
  gauss_sameSpan hA full

/-- naive Gauss: the result is a row echelon form (strictly increasing pivots, zero rows last) -/
theorem naive_row_echelon {A : BMat} (hA : A.WF) (full : Bool) : (gaussDelayed A 0 full).1.isRowEchelon = true :=
  gauss_isRowEchelon hA full

/-- naive Gauss with full reduction: reduced row echelon form -/
theorem naive_rref {A : BMat} (hA : A.WF) : (gaussDelayed A 0 true).1.isRREF = true := gauss_isRREF hA

/-- the return value is the rank, whatever `full` -/
theorem naive_rank {A : BMat} (hA : A.WF) (full : Bool) : (gaussDelayed A 0 full).2 = A.rank :=
  gauss_rank_eq_rank hA full

/-- uniqueness of the reduced row echelon form within a row space -/
theorem rref_is_unique {R R' : BMat} (hR : R.WF) (hR' : R'.WF) (hr : R.nrows = R'.nrows) (hc : R.ncols = R'.ncols)
    (h1 : R.isRREF = true) (h2 : R'.isRREF = true) (hs : SameSpan R R') : R = R' :=
  rref_unique hR hR' hr hc h1 h2 hs

/-- any row echelon form spanning the row space of A has exactly rank(A) non-zero rows -/
theorem echelon_form_reveals_rank {A R : BMat} (hA : A.WF) (hR : R.WF) (h : R.isRowEchelon = true) (hs : SameSpan A R) :
    R.rowList.countP (fun v => v != 0) = A.rank := count_eq_rank_of_isRowEchelon hA hR h hs

/-- soundness of the certificate checker with which the outputs of M4RI / PLUQ-based / hybrid / top-reduction
    runs are judged (this is what makes the per-input certification meaningful) -/
theorem checker_sound_partial {A R : BMat} (hA : A.WF) (hR : R.WF) (r : Nat) (full : Bool)
    (h : checkEchelon A R r full = true) :
    R.nrows = A.nrows ∧ R.ncols = A.ncols ∧ r = A.rank ∧ SameSpan A R ∧ R.isRowEchelon = true ∧
    R.rowList.countP (fun v => v != 0) = r ∧ (∀ i, r ≤ i → R.row i = 0) ∧
    (full = true → R.isRREF = true ∧ R = A.rref ∧
      ∀ R' : BMat, R'.WF → R'.nrows = A.nrows → R'.ncols = A.ncols → R'.isRREF = true → SameSpan A R' → R' = R) :=
  checkEchelon_sound hA hR r full h

/-- the same in Mathlib's vocabulary -/
theorem checker_sound_mathlib_partial {A R : BMat} (hA : A.WF) (hR : R.WF) (r : Nat) (full : Bool)
    (h : checkEchelon A R r full = true) :
    (toMatrix A.ncols A).rank = r ∧ rowSpace A.ncols A = rowSpace A.ncols R ∧
    (toMatrix R.ncols R).IsRowEchelon ∧ (full = true → (toMatrix R.ncols R).IsReducedRowEchelon) :=
  checkEchelon_sound_mathlib hA hR r full h

/-- the checker is not vacuous: it accepts the naive routine's own output -/
theorem checker_accepts_naive {A : BMat} (hA : A.WF) (full : Bool) :
    checkEchelon A (gaussDelayed A 0 full).1 (gaussDelayed A 0 full).2 full = true := checkEchelon_gauss hA full

/-- **M4RI** (`_mzd_echelonize_m4ri`, exact step-by-step mirror `M4RI.echelonizeM4ri`, compared bit-for-bit with the C
    library incl. its non-reduced outputs): for every well-formed A, EVERY table parameter k ≥ 1, every heap junk,
    both values of `full`: row space preserved, row echelon form, returned value = rank(A), zero rows last, and with
    full reduction exactly the unique RREF. -/
theorem m4ri_correct {A : BMat} (hA : A.WF) (full : Bool) {k : Nat} (hk : 1 ≤ k) (junk : Nat → Nat) :
    (M4RI.echelonizeM4ri A full k junk).1.WF ∧ (M4RI.echelonizeM4ri A full k junk).1.nrows = A.nrows ∧
    (M4RI.echelonizeM4ri A full k junk).1.ncols = A.ncols ∧ SameSpan A (M4RI.echelonizeM4ri A full k junk).1 ∧
    (M4RI.echelonizeM4ri A full k junk).1.isRowEchelon = true ∧ (M4RI.echelonizeM4ri A full k junk).2 = A.rank ∧
    (∀ i, (M4RI.echelonizeM4ri A full k junk).2 ≤ i → (M4RI.echelonizeM4ri A full k junk).1.row i = 0) ∧
    (full = true → (M4RI.echelonizeM4ri A full k junk).1 = A.rref) ∧
    checkEchelon A (M4RI.echelonizeM4ri A full k junk).1 (M4RI.echelonizeM4ri A full k junk).2 full = true :=
  M4RI.echelonizeM4ri_correct hA full hk junk

/-- completing a row echelon form with the top-reduction routine gives the same RREF -/
theorem top_reduction_of_echelon_form {A : BMat} (hA : A.WF) (hE : A.isRowEchelon = true) {k : Nat} (hk : 1 ≤ k)
    (junk : Nat → Nat) :
    (M4RI.topEchelonizeM4ri A k 0 0 A.nrows junk).1 = A.rref ∧ (M4RI.topEchelonizeM4ri A k 0 0 A.nrows junk).2 = A.rank :=
  M4RI.topEchelonizeM4ri_of_isRowEchelon hA hE hk junk

theorem m4ri_then_top_reduction {A : BMat} (hA : A.WF) {k k' : Nat} (hk : 1 ≤ k) (hk' : 1 ≤ k') (junk junk' : Nat → Nat) :
    (M4RI.topEchelonizeM4ri (M4RI.echelonizeM4ri A false k junk).1 k' 0 0 A.nrows junk').1 = A.rref ∧
    (M4RI.topEchelonizeM4ri (M4RI.echelonizeM4ri A false k junk).1 k' 0 0 A.nrows junk').2 = A.rank :=
  M4RI.topEchelonizeM4ri_echelonizeM4ri hA hk hk' junk junk'

/-- all algorithms agree when `full`: both mirrors return THE RREF -/
theorem naive_and_m4ri_agree {A : BMat} (hA : A.WF) {k : Nat} (hk : 1 ≤ k) (junk : Nat → Nat) :
    (M4RI.echelonizeM4ri A true k junk).1 = (gaussDelayed A 0 true).1 :=
  (M4RI.echelonizeM4ri_correct hA true hk junk).2.2.2.2.2.2.2.1 rfl

/-- full statement that is NOT proved for the Four-Russians / PLUQ-based routines (no step-by-step model):
    for an exact mirror `ech` of such a routine, `checkEchelon A (ech A full).1 (ech A full).2 full = true`. -/
def C02_full (ech : BMat → Bool → BMat × Nat) : Prop :=
  ∀ A : BMat, A.WF → ∀ full, checkEchelon A (ech A full).1 (ech A full).2 full = true

example : C02_full (fun A full => gaussDelayed A 0 full) := fun _ hA full => checkEchelon_gauss hA full

#check @M4ri.BMat.PN.echelonizePluq_ple
#check @M4ri.BMat.PN.echelonizePluq_pluq
#check @M4ri.BMat.PN.echelonizePluq_naive_full
#check @M4ri.BMat.PN.echelonizePluq_naive_ple
#check @M4ri.BMat.PN.echelonizePluq_naive_full_eq
#check @M4ri.BMat.PN.echelonizePluq_generic_full_false
#check @M4ri.BMat.PN.pluqNaive_profile
#check @M4ri.BMat.PN.checkEchelon_complete
#check @M4ri.BMat.ML.rank_mat
#check @M4ri.BMat.ML.rank_mat_gauss
#check @M4ri.BMat.ML.rank_of_rankCert
#check @M4ri.BMat.ML.rankCert_iff_rank
#check @M4ri.BMat.ML.sameSpan_iff_span_rows
#check @M4ri.BMat.ML.mat_isRowEchelon
#check @M4ri.BMat.ML.mat_isReducedRowEchelon
#check @M4ri.BMat.ML.mat_rref

end M4ri.Props.C02
